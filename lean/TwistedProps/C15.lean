import TwistedProps.C15.Stream
import TwistedProps.C15.Frozen
import TwistedProps.C15.Liveness
import TwistedProps.C15.Written
import TwistedProps.C15.Core0
import TwistedProps.C15.Armed
import TwistedProps.C15.ReqResp
/-!
C15 — every reactor delivers TCP byte streams intact and reports loss exactly once.

Model: `TwistedModel/Transport/Tcp.lean` (tcp.Connection + abstract.FileDescriptor + the
`_doReadOrWrite` / `_disconnectSelectable` dispatch over a kernel socket pair).  A *schedule* is any
`List Ev`: application calls on either side (write, writeSequence, loseConnection,
loseWriteConnection, abortConnection, pause/resumeProducing), readiness reports with arbitrary
IN/OUT/HUP bits and arbitrary partial `send`/`recv` sizes (0 included), and delayed calls, in any order.
The theorems below quantify over ALL schedules, all kernel parameters (SEND_LIMIT, recv size, queue
capacity), both protocol kinds (plain / IHalfCloseableProtocol), and ANY protocol behaviour: what
`readConnectionLost`, `writeConnectionLost` and — re-entrantly, inside `doRead`, before the `doWrite` of the same
IN|OUT readiness report — `dataReceived` call on the transport (scripts `ra rb`, `wa wb`, `da db`: any transport
calls, close operations included) — no size bound, no discipline assumed, misuse included.

Proved at full strength (safety):
  * `stream_accounting`            every byte accepted by write()/writeSequence() is, in order and
                                   exactly once, delivered to the peer's protocol, or in the peer's kernel
                                   queue, or still in the sender's buffers — or discarded, which happens
                                   only once the peer's socket is closed
  * `peer_receives_prefix_of_written`   what a protocol has received is always a prefix of what the peer
                                   wrote (the statement's "a prefix of them after abortConnection",
                                   valid in every state of every run)
  * `connectionLost_at_most_once`  per side, whatever happens
  * `no_data_after_connectionLost` after connectionLost neither dataReceived nor a second
                                   connectionLost reaches the protocol
  * `close_never_forgotten`        while loseConnection is pending on a live, non-aborting transport its writer is
                                   registered (and its reader is not) — in every state, re-entrant calls included
  * `done_from_doWrite_is_connectionLost`  a CONNECTION_DONE answered by the doWrite part of ANY readiness report
                                   (IN|OUT included, loseConnection possibly issued by the dataReceived of that very
                                   report) is dispatched as connectionLost(ConnectionDone): never as a read-side
                                   half-close, socket closed at once

Proved at full strength (liveness / clean close), over every schedule that follows the ONE-CLOSER DISCIPLINE
(`pre ++ [close operation of side w] ++ post`: before the close only side `w` writes, both sides may
pause/resume, any readiness reports / partial sizes / delayed calls (`preEv w`); after it only readiness reports
and delayed calls with arbitrary parameters (`noise`); the other side is reading when the close is issued; its
protocol, if IHalfCloseableProtocol, reacts to readConnectionLost by loseConnection (`closeOk`) — for a
half-close by writing a reply and then loseConnection (`replyOk`)), kernel parameters > 0, either side closing:
  * `discipline_invariants_lose/_half`  the cross-endpoint invariants in every reachable state: no RST is ever
                                   generated; a FIN is sent only after the write buffers were flushed; the peer's
                                   socket closes only after EOF; nothing is discarded (`sent = received ++ queue`
                                   exactly, both directions); pending bytes ⇒ writer registered
  * `writer_registered_before_close`    pending bytes ⇒ writer registered, before any close operation
  * `loseConnection_clean_close`   runFair with fuel ≥ `mu` (the progress measure) ends QUIESCENT with
                                   `lost = [ConnectionDone]` on both sides and `received = accepted` both ways
  * `halfClose_clean_close`        the same after loseWriteConnection (peer replies, then closes; the initiator
                                   closes when it sees EOF)
  * `abortConnection_close`        runFair ends quiescent with `[ConnectionAborted]` on the aborting side and
                                   exactly one reason (`ConnectionLost`) on the other; the prefix property is
                                   `peer_receives_prefix_of_written`
  * `…_at_rest`                    the same conclusions in ANY quiescent state reached by a disciplined schedule
                                   (not only by fair rounds)
  * `fair_round_decreases_measure` the progress measure itself: a fair round from a non-quiescent disciplined
                                   state strictly decreases `mu` = Σ 2·pending + queued + [writing] +
                                   [reading]·(3+2·reply) + [abort call pending]
  * `closer_accepted_is_written`   the closer's `accepted` is exactly the concatenation of the bytes the schedule's
                                   write()/writeSequence() calls passed (`written w pre`); a peer that does not
                                   write from readConnectionLost accepted nothing — so after loseConnection the
                                   reader holds exactly `written w pre` (`loseConnection_delivers_written`), and
                                   after a half-close the peer holds `written w pre` (`halfClose_delivers_written`)
  * `done_from_doWrite_only_after_flush`  doWrite reports CONNECTION_DONE only when loseConnection was requested
                                   and this call emptied the buffers
Close requested RE-ENTRANTLY from dataReceived (request/response):
  * `closeFromDataReceived_clean_close_partial`  from the closing situation `RR` (requester flushed, its last bytes
                                   unread in the responder's queue, the responder's dataReceived armed to write a last
                                   reply and call loseConnection, earlier replies possibly still pending) ONE readiness
                                   report with IN and any other bits, then any reports: the fair completion is quiescent,
                                   ConnectionDone exactly once on both sides, each side has exactly what the other wrote.
                                   PARTIAL: `RR` is a hypothesis on the state reached by `pre`; not proved: that the
                                   request/response pre-phase (requests by write(), replies from dataReceived at lower
                                   thresholds) establishes it.  The one-closer theorems above are proved on the
                                   reaction-free transition functions (`C15/Base0.lean`, `C15/Core0.lean`) and transported:
                                   on `start p ha hb ra rb` (no dataReceived / writeConnectionLost script) they coincide
                                   with the model on every schedule (`run_eq_run0`).
Apart from that pre-phase, nothing of the statement is left to the correspondence alone; what the model's kernel/poller assume about Linux
TCP and the four doIteration loops is tested by the real-socket half of `harness/corr/C15.py`.
-/
namespace TwistedProps.C15
open Twisted.Transport.Tcp

/-- a protocol's dataReceived script: `(threshold, transport calls)` entries (see `Tcp.dataReceived`) -/
abbrev Script := List (Nat × List AppOp)

/-- any two freshly connected transports, any kernel parameters; protocol behaviour: IHalfCloseableProtocol or not
    (`ha hb`), what readConnectionLost calls (`ra rb`), what dataReceived calls RE-ENTRANTLY (`da db`), what
    writeConnectionLost calls (`wa wb`).  `start p ha hb ra rb` is the system whose protocols react to
    readConnectionLost only (the one-closer discipline). -/
abbrev start (p : Params) (ha hb : Bool) (ra rb : List AppOp) (da db : Script := []) (wa wb : List AppOp := []) : Sys :=
  Sys.init p (Conn.fresh ha ra da wa) (Conn.fresh hb rb db wb)

theorem good_start (p : Params) (ha hb : Bool) (ra rb : List AppOp) (da db : Script) (wa wb : List AppOp) :
    Good (start p ha hb ra rb da db wa wb) := by
  have f : ∀ (c o : Conn) (k : Sock), c.sent = [] → o.received = [] → k.inq = [] → Flow c o k :=
    fun c o k h1 h2 h3 => ⟨[], by simp [h1, h2, h3], Or.inr rfl⟩
  refine ⟨⟨?_, ?_, f _ _ _ rfl rfl rfl, f _ _ _ rfl rfl rfl⟩, ⟨?_, ?_, f _ _ _ rfl rfl rfl, f _ _ _ rfl rfl rfl⟩⟩ <;>
    simp [start, Sys.init, Sys.view, Conn.fresh, Inv1, Inv3, pending]

/-- **Stream accounting.**  In every state of every run, for each direction: the bytes accepted from
    the application are exactly (delivered ++ in the peer's receive queue ++ discarded ++ still
    buffered), in this order; bytes are discarded only when the peer's socket is closed. -/
theorem stream_accounting (p : Params) (ha hb : Bool) (ra rb : List AppOp) (da db : Script) (wa wb : List AppOp)
    (evs : List Ev) :
    let s := run (start p ha hb ra rb da db wa wb) evs
    (∃ rest, s.a.accepted = s.b.received ++ s.kb.inq ++ rest ++ pending s.a ∧ (s.kb.closed = true ∨ rest = [])) ∧
    (∃ rest, s.b.accepted = s.a.received ++ s.ka.inq ++ rest ++ pending s.b ∧ (s.ka.closed = true ∨ rest = [])) := by
  intro s
  obtain ⟨⟨a1, _, ⟨r1, e1, c1⟩, _⟩, ⟨b1, _, ⟨r2, e2, c2⟩, _⟩⟩ := good_run evs _ (good_start p ha hb ra rb da db wa wb)
  refine ⟨⟨r1, ?_, c1⟩, ⟨r2, ?_, c2⟩⟩
  · have := a1; simp only [Inv1, Sys.view] at this e1; rw [← this, e1]
  · have := b1; simp only [Inv1, Sys.view] at this e2; rw [← this, e2]

/-- **The peer receives the bytes written, in order** — at any moment a prefix of them (all of them
    are still to come, or were dropped by an abort / a loss). -/
theorem peer_receives_prefix_of_written (p : Params) (ha hb : Bool) (ra rb : List AppOp) (da db : Script) (wa wb : List AppOp)
    (evs : List Ev) :
    let s := run (start p ha hb ra rb da db wa wb) evs
    s.b.received <+: s.a.accepted ∧ s.a.received <+: s.b.accepted := by
  intro s
  obtain ⟨⟨r1, e1, _⟩, ⟨r2, e2, _⟩⟩ := stream_accounting p ha hb ra rb da db wa wb evs
  exact ⟨⟨s.kb.inq ++ r1 ++ pending s.a, by rw [e1]; simp only [List.append_assoc]; rfl⟩, ⟨s.ka.inq ++ r2 ++ pending s.b, by rw [e2]; simp only [List.append_assoc]; rfl⟩⟩

/-- **connectionLost at most once per protocol**, on every schedule (double close, abort during close,
    reset while flushing, stale readiness reports on a dead transport, …). -/
theorem connectionLost_at_most_once (p : Params) (ha hb : Bool) (ra rb : List AppOp) (da db : Script) (wa wb : List AppOp)
    (evs : List Ev) :
    let s := run (start p ha hb ra rb da db wa wb) evs
    s.a.lost.length ≤ 1 ∧ s.b.lost.length ≤ 1 := by
  intro s
  obtain ⟨⟨_, a3, _, _⟩, ⟨_, b3, _, _⟩⟩ := good_run evs _ (good_start p ha hb ra rb da db wa wb)
  simp only [Inv3, Sys.view] at a3 b3
  constructor
  · show (run (start p ha hb ra rb da db wa wb) evs).a.lost.length ≤ 1
    rw [a3]; by_cases h : (run (start p ha hb ra rb da db wa wb) evs).a.hasSocket = true <;> simp [h]
  · show (run (start p ha hb ra rb da db wa wb) evs).b.lost.length ≤ 1
    rw [b3]; by_cases h : (run (start p ha hb ra rb da db wa wb) evs).b.hasSocket = true <;> simp [h]

/-- **Nothing after connectionLost**: once a protocol's connectionLost has been called, no continuation
    of the schedule delivers data to it or calls connectionLost again. -/
theorem no_data_after_connectionLost (p : Params) (ha hb : Bool) (ra rb : List AppOp) (da db : Script)
    (wa wb : List AppOp) (evs1 evs2 : List Ev) :
    let s1 := run (start p ha hb ra rb da db wa wb) evs1
    let s2 := run s1 evs2
    (s1.a.lost ≠ [] → s2.a.received = s1.a.received ∧ s2.a.lost = s1.a.lost) ∧
    (s1.b.lost ≠ [] → s2.b.received = s1.b.received ∧ s2.b.lost = s1.b.lost) := by
  intro s1 s2
  obtain ⟨⟨_, a3, _, _⟩, ⟨_, b3, _, _⟩⟩ := good_run evs1 _ (good_start p ha hb ra rb da db wa wb)
  simp only [Inv3, Sys.view] at a3 b3
  constructor
  · intro hl
    have hs : s1.a.hasSocket = false := by
      cases h : s1.a.hasSocket with
      | false => rfl
      | true =>
        have h0 : s1.a.lost.length = 0 := by simpa [s1, h] using a3
        exact absurd (List.eq_nil_of_length_eq_zero h0) hl
    have := frozenAt_run .A s1.a.received s1.a.lost evs2 s1 ⟨hs, rfl, rfl⟩
    exact ⟨this.2.1, this.2.2⟩
  · intro hl
    have hs : s1.b.hasSocket = false := by
      cases h : s1.b.hasSocket with
      | false => rfl
      | true =>
        have h0 : s1.b.lost.length = 0 := by simpa [s1, h] using b3
        exact absurd (List.eq_nil_of_length_eq_zero h0) hl
    have := frozenAt_run .B s1.b.received s1.b.lost evs2 s1 ⟨hs, rfl, rfl⟩
    exact ⟨this.2.1, this.2.2⟩

/-- `doWrite` answers CONNECTION_DONE only if loseConnection had been requested and this very call emptied the
    buffers — with the stream invariant: everything the application wrote has been handed to the kernel. -/
theorem done_from_doWrite_only_after_flush (p : Params) (v : View) (n : Nat)
    (hd : (doWrite p v n).1 = some .done) :
    v.c.disconnecting = true ∧ pending (doWrite p v n).2.c = [] :=
  doWrite_done p v n hd

/-- **A CONNECTION_DONE answered by `doWrite` is reported as `connectionLost(ConnectionDone)`** — whatever else the
    readiness report carried.  If the `doRead` part of the report (when IN is set) returned nothing and the `doWrite`
    part answers CONNECTION_DONE (loseConnection was requested — possibly re-entrantly, by the very `dataReceived`
    of this report — and the flush is complete), the dispatch calls `connectionLost`: the protocol is told
    ConnectionDone now, `readConnectionLost` is NOT called, the socket is closed. -/
theorem done_from_doWrite_is_connectionLost (p : Params) (v : View) (inE : Bool) (nr nw : Nat)
    (hr : (if inE then doRead p v nr else (none, v)).1 = none)
    (hd : (doWrite p (if inE then doRead p v nr else (none, v)).2 nw).1 = some .done)
    (hs : (doWrite p (if inE then doRead p v nr else (none, v)).2 nw).2.c.hasSocket = true) :
    let v1 := (doWrite p (if inE then doRead p v nr else (none, v)).2 nw).2
    let v' := readThenWrite p v inE true nr nw
    v'.c.lost = v1.c.lost ++ [.done] ∧ v'.c.readLost = v1.c.readLost ∧ v'.c.hasSocket = false ∧ v'.k.closed = true := by
  intro v1 v'
  have e : v' = connLost { v1 with c := { v1.c with reading := false, writing := false } } .done := by
    show readThenWrite p v inE true nr nw = _
    unfold readThenWrite
    simp only [hr, hd, if_true]
    simp [disconnectSelectable]
    rfl
  rw [e]
  simp [connLost, hs, kClose, v1]

/-- **A requested close is never forgotten.**  In every state of every run — any schedule, any protocol scripts,
    re-entrant calls from dataReceived / readConnectionLost / writeConnectionLost included — a live transport on
    which loseConnection is pending (and which is not being aborted) is registered for writing and not for
    reading: the doWrite that completes the flush will run and its CONNECTION_DONE becomes connectionLost
    (`done_from_doWrite_is_connectionLost`). -/
theorem close_never_forgotten (p : Params) (ha hb : Bool) (ra rb : List AppOp) (da db : Script) (wa wb : List AppOp)
    (evs : List Ev) :
    let s := run (start p ha hb ra rb da db wa wb) evs
    (s.a.hasSocket = true → s.a.disconnecting = true → s.a.aborting = false → s.a.writing = true ∧ s.a.reading = false) ∧
    (s.b.hasSocket = true → s.b.disconnecting = true → s.b.aborting = false → s.b.writing = true ∧ s.b.reading = false) :=
  armedS_run evs _ ⟨fun _ h _ => by simp [Sys.init, Conn.fresh] at h, fun _ h _ => by simp [Sys.init, Conn.fresh] at h⟩


/-! ### reactors that report ONE condition per dispatch (select `_doReadOrWrite(selectable, "doRead" | "doWrite")`,
asyncio `_readOrWrite(selectable, read)`)

Their dispatch is the single-bit special case of the modelled one: a report with only IN set is `doRead` followed —
if it answered a reason — by `_disconnectSelectable(…, isRead = True)`; a report with only OUT set is `doWrite` followed
by `_disconnectSelectable(…, isRead = False)`; nothing happens for a condition that is not registered.  So every
theorem above (all schedules) covers these reactors, and a CONNECTION_DONE answered by `doWrite` is
`connectionLost(ConnectionDone)` there too — never `readConnectionLost`.  The sim plays 30% of its schedules through the
REAL `SelectReactor._doReadOrWrite` / `AsyncioSelectorReactor._readOrWrite` against exactly these events.
(Not proved: termination of the single-bit drain `runSel` of the driver — the progress measure of `Fair.lean` is
stated for the poll-like `fairRound`; the sim checks quiescence at the end of every such drain.) -/

theorem singleBit_read_dispatch (p : Params) (v : View) (nr nw : Nat)
    (hr : v.c.reading = true) (hs : v.c.hasSocket = true) :
    ((doRead p v nr).1 = none → io p v true false false nr nw = (doRead p v nr).2) ∧
    (∀ w, (doRead p v nr).1 = some w →
      io p v true false false nr nw = disconnectSelectable (doRead p v nr).2 w true) := by
  constructor
  · intro h; simp [io, readThenWrite, hr, hs, h]
  · intro w h; simp [io, readThenWrite, hr, hs, h]

theorem singleBit_write_dispatch (p : Params) (v : View) (nr nw : Nat)
    (hw : v.c.writing = true) (hs : v.c.hasSocket = true) :
    ((doWrite p v nw).1 = none → io p v false true false nr nw = (doWrite p v nw).2) ∧
    (∀ w, (doWrite p v nw).1 = some w →
      io p v false true false nr nw = disconnectSelectable (doWrite p v nw).2 w false) := by
  constructor
  · intro h; simp [io, readThenWrite, hw, hs, h]
  · intro w h; simp [io, readThenWrite, hw, hs, h]

theorem singleBit_unregistered (p : Params) (v : View) (nr nw : Nat) :
    (v.c.reading = false → io p v true false false nr nw = v) ∧
    (v.c.writing = false → io p v false true false nr nw = v) := by
  constructor <;> intro h <;> simp [io, h]

theorem singleBit_done_from_doWrite_is_connectionLost (p : Params) (v : View) (nr nw : Nat)
    (hw : v.c.writing = true) (hs0 : v.c.hasSocket = true)
    (hd : (doWrite p v nw).1 = some .done) (hs : (doWrite p v nw).2.c.hasSocket = true) :
    let v1 := (doWrite p v nw).2
    let v' := io p v false true false nr nw
    v'.c.lost = v1.c.lost ++ [.done] ∧ v'.c.readLost = v1.c.readLost ∧ v'.c.hasSocket = false ∧ v'.k.closed = true := by
  intro v1 v'
  have h := done_from_doWrite_is_connectionLost p v false nr nw (by simp) (by simpa using hd) (by simpa using hs)
  have e : v' = readThenWrite p v false true nr nw := by
    show io p v false true false nr nw = _
    simp [io, hw, hs0]
  rw [e]
  simpa using h

/-! ### the liveness / clean-close half, under the one-closer discipline -/
set_option linter.unusedSimpArgs false

/-- **Cross-endpoint invariants (loseConnection).**  In every state a disciplined schedule reaches after the
    close: no RST, FIN only after the flush, the peer's socket closes only after EOF, nothing discarded,
    pending bytes ⇒ writer registered.  (Closer on side A; side B is the mirror image, `lose_A`/`swapSys`.) -/
theorem discipline_invariants_lose (p : Params) (hp : 0 < p.sendLimit) (hc : 0 < p.cap) (ha hb : Bool)
    (ra rb : List AppOp) (hcfg : closeOk hb rb) (pre post : List Ev)
    (hpre : ∀ ev ∈ pre, preEv .A ev = true) (hpost : ∀ ev ∈ post, noise ev = true)
    (hrd : (run (start p ha hb ra rb) pre).b.reading = true) :
    let s := run (start p ha hb ra rb) (pre ++ .app .A .lose :: post)
    DiscFacts s.a s.b s.ka s.kb := by
  simp only [run_start0, runFair_start0] at *
  exact discipline_invariants_lose0 p hp hc ha hb ra rb hcfg pre post hpre hpost hrd

/-- **Cross-endpoint invariants (half-close).**  As above; here each socket closes only after EOF. -/
theorem discipline_invariants_half (p : Params) (hp : 0 < p.sendLimit) (hc : 0 < p.cap) (ha hb : Bool)
    (ra rb : List AppOp) (hcfa : closeOk ha ra) (hcfg : replyOk hb rb) (pre post : List Ev)
    (hpre : ∀ ev ∈ pre, preEv .A ev = true) (hpost : ∀ ev ∈ post, noise ev = true)
    (hra : (run (start p ha hb ra rb) pre).a.reading = true)
    (hrd : (run (start p ha hb ra rb) pre).b.reading = true) :
    let s := run (start p ha hb ra rb) (pre ++ .app .A .loseWrite :: post)
    DiscFacts s.a s.b s.ka s.kb ∧ (s.ka.closed = true → s.ka.inFin = true) := by
  simp only [run_start0, runFair_start0] at *
  exact discipline_invariants_half0 p hp hc ha hb ra rb hcfa hcfg pre post hpre hpost hra hrd

/-- **Pending bytes ⇒ writer registered**, in every state before the close operation. -/
theorem writer_registered_before_close (p : Params) (hp : 0 < p.sendLimit) (ha hb : Bool) (ra rb : List AppOp)
    (pre : List Ev) (hpre : ∀ ev ∈ pre, preEv .A ev = true) :
    let s := run (start p ha hb ra rb) pre
    (pending s.a ≠ [] → s.a.writing = true) ∧ pending s.b = [] := by
  simp only [run_start0, runFair_start0] at *
  exact writer_registered_before_close0 p hp ha hb ra rb pre hpre

/-- **The progress measure.**  A fair round started in a non-quiescent state of a disciplined run (closer `w`;
    `NoReactS`: as in every state of a disciplined run, no dataReceived / writeConnectionLost script is armed)
    strictly decreases `mu` and stays inside the discipline's invariant. -/
theorem fair_round_decreases_measure (w : Side) (s : Sys) (h : FInvW w s) (hn : NoReactS s) (hq : s.quiescent = false) :
    (FInvW w (run s fairRound) ∧ NoReactS (run s fairRound)) ∧ mu (run s fairRound) < mu s := by
  rw [run_eq_run0 _ s hn]
  exact ⟨⟨(fair_round_decreases_measure0 w s h hq).1, noReactS_run0 _ s hn⟩, (fair_round_decreases_measure0 w s h hq).2⟩

/-- **Orderly close, any quiescent state**: whatever readiness reports follow the loseConnection, if the system
    is at rest then both protocols were told ConnectionDone exactly once and the reader has every byte. -/
theorem loseConnection_at_rest (p : Params) (hp : 0 < p.sendLimit) (hc : 0 < p.cap) (w : Side) (ha hb : Bool)
    (ra rb : List AppOp) (hcfg : match w with | .A => closeOk hb rb | .B => closeOk ha ra) (pre post : List Ev)
    (hpre : ∀ ev ∈ pre, preEv w ev = true) (hpost : ∀ ev ∈ post, noise ev = true)
    (hrd : (connOf (run (start p ha hb ra rb) pre) (peer w)).reading = true) :
    let s := run (start p ha hb ra rb) (pre ++ .app w .lose :: post)
    s.quiescent = true → s.a.lost = [.done] ∧ s.b.lost = [.done] ∧ s.b.received = s.a.accepted ∧
      s.a.received = s.b.accepted := by
  simp only [run_start0, runFair_start0] at *
  exact loseConnection_at_rest0 p hp hc w ha hb ra rb hcfg pre post hpre hpost hrd

/-- **Orderly close, liveness**: the fair completion (`runFair`, fuel ≥ `mu`) of a disciplined schedule with
    loseConnection is quiescent, each protocol's connectionLost was called exactly once with ConnectionDone, and
    each side received exactly the bytes the other wrote. -/
theorem loseConnection_clean_close (p : Params) (hp : 0 < p.sendLimit) (hr : 0 < p.recvMax) (hc : 0 < p.cap)
    (w : Side) (ha hb : Bool) (ra rb : List AppOp)
    (hcfg : match w with | .A => closeOk hb rb | .B => closeOk ha ra) (pre post : List Ev)
    (hpre : ∀ ev ∈ pre, preEv w ev = true) (hpost : ∀ ev ∈ post, noise ev = true)
    (hrd : (connOf (run (start p ha hb ra rb) pre) (peer w)).reading = true) (fuel : Nat)
    (hf : mu (run (start p ha hb ra rb) (pre ++ .app w .lose :: post)) ≤ fuel) :
    let s := runFair fuel (run (start p ha hb ra rb) (pre ++ .app w .lose :: post))
    s.quiescent = true ∧ s.a.lost = [.done] ∧ s.b.lost = [.done] ∧ s.b.received = s.a.accepted ∧
      s.a.received = s.b.accepted := by
  simp only [run_start0, runFair_start0] at *
  exact loseConnection_clean_close0 p hp hr hc w ha hb ra rb hcfg pre post hpre hpost hrd fuel hf

/-- **Half-close, any quiescent state.** -/
theorem halfClose_at_rest (p : Params) (hp : 0 < p.sendLimit) (hc : 0 < p.cap) (w : Side) (ha hb : Bool)
    (ra rb : List AppOp)
    (hcfg : match w with | .A => closeOk ha ra ∧ replyOk hb rb | .B => closeOk hb rb ∧ replyOk ha ra)
    (pre post : List Ev)
    (hpre : ∀ ev ∈ pre, preEv w ev = true) (hpost : ∀ ev ∈ post, noise ev = true)
    (hra : (run (start p ha hb ra rb) pre).a.reading = true)
    (hrb : (run (start p ha hb ra rb) pre).b.reading = true) :
    let s := run (start p ha hb ra rb) (pre ++ .app w .loseWrite :: post)
    s.quiescent = true → s.a.lost = [.done] ∧ s.b.lost = [.done] ∧ s.b.received = s.a.accepted ∧
      s.a.received = s.b.accepted := by
  simp only [run_start0, runFair_start0] at *
  exact halfClose_at_rest0 p hp hc w ha hb ra rb hcfg pre post hpre hpost hra hrb

/-- **Half-close, liveness**: after loseWriteConnection the fair completion is quiescent, both reasons are
    ConnectionDone, the peer got everything the initiator wrote and the initiator got the whole reply. -/
theorem halfClose_clean_close (p : Params) (hp : 0 < p.sendLimit) (hr : 0 < p.recvMax) (hc : 0 < p.cap)
    (w : Side) (ha hb : Bool) (ra rb : List AppOp)
    (hcfg : match w with | .A => closeOk ha ra ∧ replyOk hb rb | .B => closeOk hb rb ∧ replyOk ha ra)
    (pre post : List Ev)
    (hpre : ∀ ev ∈ pre, preEv w ev = true) (hpost : ∀ ev ∈ post, noise ev = true)
    (hra : (run (start p ha hb ra rb) pre).a.reading = true)
    (hrb : (run (start p ha hb ra rb) pre).b.reading = true) (fuel : Nat)
    (hf : mu (run (start p ha hb ra rb) (pre ++ .app w .loseWrite :: post)) ≤ fuel) :
    let s := runFair fuel (run (start p ha hb ra rb) (pre ++ .app w .loseWrite :: post))
    s.quiescent = true ∧ s.a.lost = [.done] ∧ s.b.lost = [.done] ∧ s.b.received = s.a.accepted ∧
      s.a.received = s.b.accepted := by
  simp only [run_start0, runFair_start0] at *
  exact halfClose_clean_close0 p hp hr hc w ha hb ra rb hcfg pre post hpre hpost hra hrb fuel hf

/-- **Abort, any quiescent state.** -/
theorem abortConnection_at_rest (p : Params) (hp : 0 < p.sendLimit) (w : Side) (ha hb : Bool) (ra rb : List AppOp)
    (pre post : List Ev)
    (hpre : ∀ ev ∈ pre, preEv w ev = true) (hpost : ∀ ev ∈ post, noise ev = true)
    (hrd : (connOf (run (start p ha hb ra rb) pre) (peer w)).reading = true) :
    let s := run (start p ha hb ra rb) (pre ++ .app w .abort :: post)
    s.quiescent = true → (connOf s w).lost = [.aborted] ∧ (connOf s (peer w)).lost = [.lost] := by
  simp only [run_start0, runFair_start0] at *
  exact abortConnection_at_rest0 p hp w ha hb ra rb pre post hpre hpost hrd

/-- **Abort, liveness**: after abortConnection the fair completion is quiescent; the aborting side's protocol
    was told ConnectionAborted (once), the other side exactly one reason (ConnectionLost); what the reader got is
    a prefix of what was written (`peer_receives_prefix_of_written`, valid in every state). -/
theorem abortConnection_close (p : Params) (hp : 0 < p.sendLimit) (hr : 0 < p.recvMax)
    (w : Side) (ha hb : Bool) (ra rb : List AppOp) (pre post : List Ev)
    (hpre : ∀ ev ∈ pre, preEv w ev = true) (hpost : ∀ ev ∈ post, noise ev = true)
    (hrd : (connOf (run (start p ha hb ra rb) pre) (peer w)).reading = true) (fuel : Nat)
    (hf : mu (run (start p ha hb ra rb) (pre ++ .app w .abort :: post)) ≤ fuel) :
    let s := runFair fuel (run (start p ha hb ra rb) (pre ++ .app w .abort :: post))
    s.quiescent = true ∧ (connOf s w).lost = [.aborted] ∧ (connOf s (peer w)).lost = [.lost] ∧
      s.b.received <+: s.a.accepted ∧ s.a.received <+: s.b.accepted := by
  simp only [run_start0, runFair_start0] at *
  exact abortConnection_close0 p hp hr w ha hb ra rb pre post hpre hpost hrd fuel hf

/-- **`accepted` is what was written.**  For a disciplined schedule with any close operation of side `w` whose
    protocol does not write from readConnectionLost: the closer's `accepted` is the concatenation of the bytes
    passed to write()/writeSequence() by the schedule; a peer that does not write there has accepted nothing. -/
theorem closer_accepted_is_written (p : Params) (hp : 0 < p.sendLimit) (w : Side) (ha hb : Bool) (ra rb : List AppOp)
    (hcw : match w with | .A => noWrites ha ra | .B => noWrites hb rb)
    (pre post : List Ev) (op : AppOp) (hop : AppOp.isWrite op = false)
    (hpre : ∀ ev ∈ pre, preEv w ev = true) (hpost : ∀ ev ∈ post, noise ev = true) :
    let s := run (start p ha hb ra rb) (pre ++ .app w op :: post)
    (connOf s w).accepted = written w pre ∧
    ((match w with | .A => noWrites hb rb | .B => noWrites ha ra) → (connOf s (peer w)).accepted = []) := by
  simp only [run_start0, runFair_start0] at *
  exact closer_accepted_is_written0 p hp w ha hb ra rb hcw pre post op hop hpre hpost

/-- **loseConnection delivers exactly the bytes written** (closer on side A; side B is the mirror image): at the
    end of the fair completion B's protocol holds `written .A pre`, A's nothing, both were told ConnectionDone. -/
theorem loseConnection_delivers_written (p : Params) (hp : 0 < p.sendLimit) (hr : 0 < p.recvMax) (hc : 0 < p.cap)
    (ha hb : Bool) (ra rb : List AppOp) (hca : noWrites ha ra) (hcfg : closeOk hb rb) (pre post : List Ev)
    (hpre : ∀ ev ∈ pre, preEv .A ev = true) (hpost : ∀ ev ∈ post, noise ev = true)
    (hrd : (run (start p ha hb ra rb) pre).b.reading = true) (fuel : Nat)
    (hf : mu (run (start p ha hb ra rb) (pre ++ .app .A .lose :: post)) ≤ fuel) :
    let s := runFair fuel (run (start p ha hb ra rb) (pre ++ .app .A .lose :: post))
    s.quiescent = true ∧ s.a.lost = [.done] ∧ s.b.lost = [.done] ∧ s.b.received = written .A pre ∧
      s.a.received = [] := by
  simp only [run_start0, runFair_start0] at *
  exact loseConnection_delivers_written0 p hp hr hc ha hb ra rb hca hcfg pre post hpre hpost hrd fuel hf

/-- **Half-close delivers exactly the bytes written** to the peer (closer on side A); what the initiator receives
    is exactly what the peer's reply was accepted as (`halfClose_clean_close`). -/
theorem halfClose_delivers_written (p : Params) (hp : 0 < p.sendLimit) (hr : 0 < p.recvMax) (hc : 0 < p.cap)
    (ha hb : Bool) (ra rb : List AppOp) (hcfa : closeOk ha ra) (hcfg : replyOk hb rb) (pre post : List Ev)
    (hpre : ∀ ev ∈ pre, preEv .A ev = true) (hpost : ∀ ev ∈ post, noise ev = true)
    (hra : (run (start p ha hb ra rb) pre).a.reading = true)
    (hrb : (run (start p ha hb ra rb) pre).b.reading = true) (fuel : Nat)
    (hf : mu (run (start p ha hb ra rb) (pre ++ .app .A .loseWrite :: post)) ≤ fuel) :
    let s := runFair fuel (run (start p ha hb ra rb) (pre ++ .app .A .loseWrite :: post))
    s.quiescent = true ∧ s.a.lost = [.done] ∧ s.b.lost = [.done] ∧ s.b.received = written .A pre ∧
      s.a.received = s.b.accepted := by
  simp only [run_start0, runFair_start0] at *
  exact halfClose_delivers_written0 p hp hr hc ha hb ra rb hcfa hcfg pre post hpre hpost hra hrb fuel hf

/-! ### the close requested re-entrantly from dataReceived (request/response) -/

/-- **Close from dataReceived — clean close** (responder on side A; side B is the mirror image).
    `pre` is ANY schedule, with any protocol scripts, after which the system is in the request/response closing
    situation `RR` (`ReqResp.lean`: both transports open, no FIN/RST, the requester B has flushed everything it
    wrote, its last bytes sit unread in A's queue, A's dataReceived script has its last entry armed for exactly that
    total: write a last reply `ws`, then `loseConnection()`; earlier replies may still be pending on A, its writer
    registered).  Then ONE readiness report for A with IN and ANY other bits (`o`, `h`), any kernel byte counts that
    let it read the queue — in particular IN|OUT where the `doWrite` of the same report completes the flush and
    answers CONNECTION_DONE — followed by any readiness reports / delayed calls `post`: the fair completion is
    quiescent, both protocols were told ConnectionDone exactly once, each side received exactly what the other wrote.

    `_partial`: what is NOT proved is that a request/response discipline on `pre` (B writes requests, A replies from
    dataReceived at thresholds below the total) establishes `RR` — `RR` is a hypothesis on the state `pre` reaches
    (it is decidable on concrete schedules, see the examples below); everything from the closing report on is proved. -/
theorem closeFromDataReceived_clean_close_partial (p : Params) (hp : 0 < p.sendLimit) (hr : 0 < p.recvMax)
    (hc : 0 < p.cap) (ha hb : Bool) (ra rb : List AppOp) (da db : Script) (wa wb : List AppOp) (pre post : List Ev)
    (ws : List AppOp) (o h : Bool) (nr nw : Nat)
    (hrr : let s0 := run (start p ha hb ra rb da db wa wb) pre; RR s0.a s0.b s0.ka s0.kb ws)
    (hfull : (run (start p ha hb ra rb da db wa wb) pre).ka.inq.length ≤ min nr p.recvMax)
    (hpost : ∀ ev ∈ post, noise ev = true) (fuel : Nat)
    (hf : mu (run (start p ha hb ra rb da db wa wb) (pre ++ .io .A true o h nr nw :: post)) ≤ fuel) :
    let s := runFair fuel (run (start p ha hb ra rb da db wa wb) (pre ++ .io .A true o h nr nw :: post))
    s.quiescent = true ∧ s.a.lost = [.done] ∧ s.b.lost = [.done] ∧ s.b.received = s.a.accepted ∧
      s.a.received = s.b.accepted := by
  intro s
  have hpp : (run (start p ha hb ra rb da db wa wb) pre).p = p := run_p' pre _
  have hsplit : run (start p ha hb ra rb da db wa wb) (pre ++ .io .A true o h nr nw :: post) =
      run (run (start p ha hb ra rb da db wa wb) pre) (.io .A true o h nr nw :: post) := by
    simp [run, List.foldl_append]
  obtain ⟨hL, hN, -⟩ := rr_run (run (start p ha hb ra rb da db wa wb) pre) (by rw [hpp]; exact hp) ws o h nr nw post hrr
    (by rw [hpp]; exact hfull) hpost
  rw [← hsplit] at hL hN
  generalize hs1 : run (start p ha hb ra rb da db wa wb) (pre ++ .io .A true o h nr nw :: post) = s1 at hL hN hf
  have hp1 : s1.p = p := by rw [← hs1]; exact run_p' _ _
  have hI : FInv s1 := ⟨by rw [hp1]; exact hp, by rw [hp1]; exact hr, Or.inl ⟨false, hL⟩⟩
  have hs : s = runFair0 fuel s1 := by
    show runFair fuel (run (start p ha hb ra rb da db wa wb) (pre ++ .io .A true o h nr nw :: post)) = _
    rw [hs1]; exact runFair_eq_runFair0 fuel s1 hN
  obtain ⟨hq, hI'⟩ := runFair_quiescent FInv roundOK_FInv fuel s1 hI hf
  obtain ⟨evs', hn', e'⟩ := runFair_eq_run fuel s1
  have hL' : SysLose false (runFair0 fuel s1) := by
    rw [e']; exact lose_run false evs' s1 (by rw [hp1]; exact hp) hn' hL
  -- the stream invariant on the final state: it is a state of a run of the model from `start`
  have hrun : runFair0 fuel s1 = run (start p ha hb ra rb da db wa wb) ((pre ++ .io .A true o h nr nw :: post) ++ evs') := by
    rw [e', ← run_eq_run0 evs' s1 hN, ← hs1]; simp [run, List.foldl_append]
  have hg := good_run ((pre ++ .io .A true o h nr nw :: post) ++ evs') _ (good_start p ha hb ra rb da db wa wb)
  rw [← hrun] at hg
  rw [hs]
  have hq' := hq
  simp only [Sys.quiescent, Bool.and_eq_true, Sys.view] at hq'
  have hcp : (runFair0 fuel s1).p = p := by rw [e', run_p, hp1]
  have h4 := lose_quiescent false (runFair0 fuel s1).p (by rw [hcp]; exact hc) _ _ _ _ hL' hq'.1 hq'.2
  exact ⟨hq, L4_facts _ _ _ _ h4 hg.1.1 hg.2.1⟩

/-! ### non-vacuity: concrete schedules (tiny kernel so that every write is partial) -/

def tiny : Params := { sendLimit := 4, recvMax := 3, cap := 5 }

/-- orderly close: 8 bytes through a 5-byte queue with 4-byte sends and 3-byte reads -/
def demoLose : List Ev :=
  [.app .A (.write [1, 2, 3, 4, 5, 6, 7, 8]), .io .A false true false 0 3, .io .B true false false 2 0,
   .app .A .lose] ++ fairRound ++ fairRound ++ fairRound ++ fairRound

example : (run (start tiny false false [] []) demoLose).b.received = [1, 2, 3, 4, 5, 6, 7, 8] := by decide
example : (run (start tiny false false [] []) demoLose).a.lost = [.done] ∧
          (run (start tiny false false [] []) demoLose).b.lost = [.done] := by decide
example : (run (start tiny false false [] []) demoLose).quiescent = true := by decide

/-- abort with data still buffered: the peer gets a proper prefix and a reset -/
def demoAbort : List Ev :=
  [.app .A (.write [1, 2, 3, 4, 5, 6, 7, 8]), .io .A false true false 0 3, .app .A .abort] ++ fairRound ++ fairRound

example : (run (start tiny false false [] []) demoAbort).b.received = [1, 2, 3] ∧
          (run (start tiny false false [] []) demoAbort).a.lost = [.aborted] ∧
          (run (start tiny false false [] []) demoAbort).b.lost = [.lost] := by decide

/-- half-close with a reply from a half-closeable peer whose readConnectionLost writes and closes -/
def demoHalf : List Ev :=
  [.app .A (.writeSeq [[1, 2], [], [3]]), .app .A .loseWrite] ++ fairRound ++ fairRound ++ fairRound ++
    fairRound ++ fairRound ++ fairRound

example : let s := run (start tiny true true [.lose] [.write [10, 11, 12], .lose]) demoHalf
          s.b.received = [1, 2, 3] ∧ s.a.received = [10, 11, 12] ∧ s.a.lost = [.done] ∧ s.b.lost = [.done] ∧
          s.a.writeLost = 1 ∧ s.b.readLost = 1 := by decide

/-- the hypothesis of `no_data_after_connectionLost` is met and the continuation is not idle -/
example : (run (start tiny false false [] []) demoLose).b.lost ≠ [] := by decide

/-- `done_from_doWrite_only_after_flush` is not vacuous: the last doWrite of `demoLose` returns done -/
def flushing : Conn :=
  { disconnecting := true, writing := true, reading := false, dataBuffer := [7, 8], accepted := [7, 8] }

example : (doWrite tiny ⟨flushing, {}, {}⟩ 9).1 = some .done := by decide

-- single-condition dispatch: a half-closeable closer's CONNECTION_DONE (out of doWrite) is connectionLost, not readConnectionLost
example : let v' := io tiny ⟨{ flushing with halfCloseable := true }, {}, {}⟩ false true false 9 9
    v'.c.lost = [.done] ∧ v'.c.readLost = 0 ∧ v'.k.closed = true := by decide
-- … and a half-closeable reader's EOF (out of doRead) is readConnectionLost, not connectionLost
example : let v' := io tiny ⟨{ (Conn.fresh true []) with }, { inFin := true }, {}⟩ true false false 9 9
    v'.c.lost = [] ∧ v'.c.readLost = 1 := by decide

/-! non-vacuity of the liveness theorems: the demo schedules are disciplined (hypotheses hold), the measure is a
    concrete number, and the conclusions are the non-trivial values computed above -/

def demoPre : List Ev :=
  [.app .A (.write [1, 2, 3, 4, 5, 6, 7, 8]), .io .A false true false 0 3, .io .B true false false 2 0]

example : (∀ ev ∈ demoPre, preEv .A ev = true) ∧ (∀ ev ∈ (fairRound ++ fairRound), noise ev = true) ∧
    (run (start tiny false false [] []) demoPre).b.reading = true := by decide
example : mu (run (start tiny false false [] []) (demoPre ++ .app .A .lose :: [])) ≤ 40 := by decide
example : let s := runFair 40 (run (start tiny false false [] []) (demoPre ++ .app .A .lose :: []))
    s.quiescent = true ∧ s.a.lost = [.done] ∧ s.b.lost = [.done] ∧ s.b.received = [1, 2, 3, 4, 5, 6, 7, 8] := by decide
/-- the half-close with a reply is disciplined: `replyOk` holds for the replying peer -/
example : replyOk true [.write [10, 11, 12], .lose] := fun _ => ⟨[.write [10, 11, 12]], by decide, rfl⟩
example : let s := runFair 40 (run (start tiny true true [.lose] [.write [10, 11, 12], .lose])
      ([.app .A (.writeSeq [[1, 2], [], [3]])] ++ .app .A .loseWrite :: []))
    s.quiescent = true ∧ s.a.lost = [.done] ∧ s.b.lost = [.done] ∧ s.b.received = [1, 2, 3] ∧
      s.a.received = [10, 11, 12] := by decide
example : let s := runFair 40 (run (start tiny false false [] [])
      ([.app .B (.write [1, 2, 3, 4, 5, 6, 7, 8]), .io .B false true false 0 3] ++ .app .B .abort :: []))
    s.quiescent = true ∧ s.b.lost = [.aborted] ∧ s.a.lost = [.lost] ∧ s.a.received = [1, 2, 3] := by decide
example : written .A demoPre = [1, 2, 3, 4, 5, 6, 7, 8] := by decide
/-- a non-quiescent disciplined state and its measure going down over one fair round -/
example : let s := run (start tiny false false [] []) (demoPre ++ .app .A .lose :: [])
    s.quiescent = false ∧ mu (run s fairRound) < mu s := by decide

/-! non-vacuity of the re-entrant part: the C15-2 witness.  The half-closeable server B answers request 1 ("A") with
    "one" from dataReceived; request 2 ("B") arrives while "one" is still buffered; ONE report IN|OUT for B: its
    dataReceived writes "two" and calls loseConnection, the doWrite of the same report flushes "onetwo" and answers
    CONNECTION_DONE. -/
def roomy : Params := { sendLimit := 64, recvMax := 16, cap := 32 }
def rrScript : Script := [(1, [.write [111, 110, 101]]), (2, [.write [116, 119, 111], .lose])]
def rrPre : List Ev :=
  [.app .A (.write [65]), .io .A false true false 9 9, .io .B true false false 9 9, .app .A (.write [66]),
   .io .A false true false 9 9]

/-- after the closing report: connectionLost(ConnectionDone) delivered to B at once, no readConnectionLost, socket
    closed; the client then sees "onetwo" and EOF -/
example : let s := run (start roomy false true [] [.lose] [] rrScript) (rrPre ++ [.io .B true true false 99 99])
    s.b.lost = [.done] ∧ s.b.readLost = 0 ∧ s.kb.closed = true ∧ s.ka.inq = [111, 110, 101, 116, 119, 111] ∧
      s.ka.inFin = true := by decide
example : let s := run (start roomy false true [] [.lose] [] rrScript) (rrPre ++ [.io .B true true false 99 99] ++ fairRound ++ fairRound)
    s.quiescent = true ∧ s.a.lost = [.done] ∧ s.b.lost = [.done] ∧ s.a.received = [111, 110, 101, 116, 119, 111] ∧
      s.b.received = [65, 66] := by decide
/-- the hypotheses of `done_from_doWrite_is_connectionLost` hold for that report (IN set, doRead returns nothing,
    doWrite answers CONNECTION_DONE) -/
example : let v := (run (start roomy false true [] [.lose] [] rrScript) rrPre).view .B
    (doRead roomy v 99).1 = none ∧ (doWrite roomy (doRead roomy v 99).2 99).1 = some .done ∧
      (doRead roomy v 99).2.c.disconnecting = true := by decide
/-- `RR` holds in a reachable state (responder on side A — the mirror image of the schedule above), with the earlier
    reply still pending and the writer registered: the hypotheses of `closeFromDataReceived_clean_close_partial` are
    satisfiable, and its conclusion is the non-trivial value computed here -/
def rrPreA : List Ev := rrPre.map swapEv
example : let s0 := run (start roomy true false [.lose] [] rrScript []) rrPreA
    s0.a.onData = [((s0.a.received ++ s0.ka.inq).length, [.write [116, 119, 111]] ++ [.lose])] ∧ s0.ka.inq = [66] ∧
      pending s0.a = [111, 110, 101] ∧ s0.a.writing = true ∧ s0.b.writing = false ∧ pending s0.b = [] ∧
      s0.a.reading = true ∧ s0.b.reading = true ∧ s0.a.sent = s0.b.received ++ s0.kb.inq ∧
      s0.b.sent = s0.a.received ++ s0.ka.inq := by decide
example : let s := runFair 40 (run (start roomy true false [.lose] [] rrScript []) (rrPreA ++ .io .A true true false 99 99 :: []))
    s.quiescent = true ∧ s.a.lost = [.done] ∧ s.b.lost = [.done] ∧ s.b.received = [111, 110, 101, 116, 119, 111] ∧
      s.a.received = [65, 66] ∧ s.a.readLost = 0 := by decide
/-- `close_never_forgotten` is not vacuous: between the loseConnection issued in dataReceived and the end of the
    flush (tiny kernel: the flush takes several reports) the writer is registered -/
example : let s := run (start tiny false true [] [.lose] [] rrScript) [.app .A (.write [65, 66]), .io .A false true false 9 9, .io .B true true false 9 1]
    s.b.disconnecting = true ∧ s.b.hasSocket = true ∧ s.b.writing = true ∧ s.b.reading = false := by decide

end TwistedProps.C15
