import TwistedProps.C15.Stream
import TwistedProps.C15.Frozen
import TwistedProps.C15.Liveness
import TwistedProps.C15.Written
/-!
C15 — every reactor delivers TCP byte streams intact and reports loss exactly once.

Model: `TwistedModel/Transport/Tcp.lean` (tcp.Connection + abstract.FileDescriptor + the
`_doReadOrWrite` / `_disconnectSelectable` dispatch over a kernel socket pair).  A *schedule* is any
`List Ev`: application calls on either side (write, writeSequence, loseConnection,
loseWriteConnection, abortConnection, pause/resumeProducing), readiness reports with arbitrary
IN/OUT/HUP bits and arbitrary partial `send`/`recv` sizes (0 included), and delayed calls, in any order.
The theorems below quantify over ALL schedules, all kernel parameters (SEND_LIMIT, recv size, queue
capacity), both protocol kinds (plain / IHalfCloseableProtocol with any `readConnectionLost` reaction)
— no size bound, no discipline assumed, misuse included.

Proved at full strength (safety):
  * `stream_accounting`            every byte accepted by write()/writeSequence() is, in order and
                                   exactly once, delivered to the peer's protocol, or in the peer's kernel
                                   queue, or still in the sender's buffers — or discarded, which happens
                                   only once the peer's socket is closed
  * `peer_receives_prefix_of_written`   what a protocol has received is always a prefix of what the peer
                                   wrote (the statement's "a prefix of them after abortConnection",
                                   valid in every state of every run)
  * `connectionLost_at_most_once`  per side, whatever happens
  * `no_data_after_connectionLost` after connectionLost neither dataReceived nor a second
                                   connectionLost reaches the protocol

Proved at full strength (liveness / clean close), over every schedule that follows the ONE-CLOSER DISCIPLINE
(`pre ++ [close operation of side w] ++ post`: before the close only side `w` writes, both sides may
pause/resume, any readiness reports / partial sizes / delayed calls (`preEv w`); after it only readiness reports
and delayed calls with arbitrary parameters (`noise`); the other side is reading when the close is issued; its
protocol, if IHalfCloseableProtocol, reacts to readConnectionLost by loseConnection (`closeOk`) — for a
half-close by writing a reply and then loseConnection (`replyOk`)), kernel parameters > 0, either side closing:
  * `discipline_invariants_lose/_half`  the cross-endpoint invariants in every reachable state: no RST is ever
                                   generated; a FIN is sent only after the write buffers were flushed; the peer's
                                   socket closes only after EOF; nothing is discarded (`sent = received ++ queue`
                                   exactly, both directions); pending bytes ⇒ writer registered
  * `writer_registered_before_close`    pending bytes ⇒ writer registered, before any close operation
  * `loseConnection_clean_close`   runFair with fuel ≥ `mu` (the progress measure) ends QUIESCENT with
                                   `lost = [ConnectionDone]` on both sides and `received = accepted` both ways
  * `halfClose_clean_close`        the same after loseWriteConnection (peer replies, then closes; the initiator
                                   closes when it sees EOF)
  * `abortConnection_close`        runFair ends quiescent with `[ConnectionAborted]` on the aborting side and
                                   exactly one reason (`ConnectionLost`) on the other; the prefix property is
                                   `peer_receives_prefix_of_written`
  * `…_at_rest`                    the same conclusions in ANY quiescent state reached by a disciplined schedule
                                   (not only by fair rounds)
  * `fair_round_decreases_measure` the progress measure itself: a fair round from a non-quiescent disciplined
                                   state strictly decreases `mu` = Σ 2·pending + queued + [writing] +
                                   [reading]·(3+2·reply) + [abort call pending]
  * `closer_accepted_is_written`   the closer's `accepted` is exactly the concatenation of the bytes the schedule's
                                   write()/writeSequence() calls passed (`written w pre`); a peer that does not
                                   write from readConnectionLost accepted nothing — so after loseConnection the
                                   reader holds exactly `written w pre` (`loseConnection_delivers_written`), and
                                   after a half-close the peer holds `written w pre` (`halfClose_delivers_written`)
  * `done_from_doWrite_only_after_flush`  doWrite reports CONNECTION_DONE only when loseConnection was requested
                                   and this call emptied the buffers
Nothing of the statement is left to the correspondence alone; what the model's kernel/poller assume about Linux
TCP and the four doIteration loops is tested by the real-socket half of `harness/corr/C15.py`.
-/
namespace TwistedProps.C15
open Twisted.Transport.Tcp

/-- any two freshly connected transports, any kernel parameters -/
abbrev start (p : Params) (ha hb : Bool) (ra rb : List AppOp) : Sys :=
  Sys.init p (Conn.fresh ha ra) (Conn.fresh hb rb)

theorem good_start (p : Params) (ha hb : Bool) (ra rb : List AppOp) : Good (start p ha hb ra rb) := by
  have f : ∀ (c o : Conn) (k : Sock), c.sent = [] → o.received = [] → k.inq = [] → Flow c o k :=
    fun c o k h1 h2 h3 => ⟨[], by simp [h1, h2, h3], Or.inr rfl⟩
  refine ⟨⟨?_, ?_, f _ _ _ rfl rfl rfl, f _ _ _ rfl rfl rfl⟩, ⟨?_, ?_, f _ _ _ rfl rfl rfl, f _ _ _ rfl rfl rfl⟩⟩ <;>
    simp [start, Sys.init, Sys.view, Conn.fresh, Inv1, Inv3, pending]

/-- **Stream accounting.**  In every state of every run, for each direction: the bytes accepted from
    the application are exactly (delivered ++ in the peer's receive queue ++ discarded ++ still
    buffered), in this order; bytes are discarded only when the peer's socket is closed. -/
theorem stream_accounting (p : Params) (ha hb : Bool) (ra rb : List AppOp) (evs : List Ev) :
    let s := run (start p ha hb ra rb) evs
    (∃ rest, s.a.accepted = s.b.received ++ s.kb.inq ++ rest ++ pending s.a ∧ (s.kb.closed = true ∨ rest = [])) ∧
    (∃ rest, s.b.accepted = s.a.received ++ s.ka.inq ++ rest ++ pending s.b ∧ (s.ka.closed = true ∨ rest = [])) := by
  intro s
  obtain ⟨⟨a1, _, ⟨r1, e1, c1⟩, _⟩, ⟨b1, _, ⟨r2, e2, c2⟩, _⟩⟩ := good_run evs _ (good_start p ha hb ra rb)
  refine ⟨⟨r1, ?_, c1⟩, ⟨r2, ?_, c2⟩⟩
  · have := a1; simp only [Inv1, Sys.view] at this e1; rw [← this, e1]
  · have := b1; simp only [Inv1, Sys.view] at this e2; rw [← this, e2]

/-- **The peer receives the bytes written, in order** — at any moment a prefix of them (all of them
    are still to come, or were dropped by an abort / a loss). -/
theorem peer_receives_prefix_of_written (p : Params) (ha hb : Bool) (ra rb : List AppOp) (evs : List Ev) :
    let s := run (start p ha hb ra rb) evs
    s.b.received <+: s.a.accepted ∧ s.a.received <+: s.b.accepted := by
  intro s
  obtain ⟨⟨r1, e1, _⟩, ⟨r2, e2, _⟩⟩ := stream_accounting p ha hb ra rb evs
  exact ⟨⟨s.kb.inq ++ r1 ++ pending s.a, by rw [e1]; simp only [List.append_assoc]; rfl⟩, ⟨s.ka.inq ++ r2 ++ pending s.b, by rw [e2]; simp only [List.append_assoc]; rfl⟩⟩

/-- **connectionLost at most once per protocol**, on every schedule (double close, abort during close,
    reset while flushing, stale readiness reports on a dead transport, …). -/
theorem connectionLost_at_most_once (p : Params) (ha hb : Bool) (ra rb : List AppOp) (evs : List Ev) :
    let s := run (start p ha hb ra rb) evs
    s.a.lost.length ≤ 1 ∧ s.b.lost.length ≤ 1 := by
  intro s
  obtain ⟨⟨_, a3, _, _⟩, ⟨_, b3, _, _⟩⟩ := good_run evs _ (good_start p ha hb ra rb)
  simp only [Inv3, Sys.view] at a3 b3
  constructor
  · show (run (start p ha hb ra rb) evs).a.lost.length ≤ 1
    rw [a3]; by_cases h : (run (start p ha hb ra rb) evs).a.hasSocket = true <;> simp [h]
  · show (run (start p ha hb ra rb) evs).b.lost.length ≤ 1
    rw [b3]; by_cases h : (run (start p ha hb ra rb) evs).b.hasSocket = true <;> simp [h]

/-- **Nothing after connectionLost**: once a protocol's connectionLost has been called, no continuation
    of the schedule delivers data to it or calls connectionLost again. -/
theorem no_data_after_connectionLost (p : Params) (ha hb : Bool) (ra rb : List AppOp) (evs1 evs2 : List Ev) :
    let s1 := run (start p ha hb ra rb) evs1
    let s2 := run s1 evs2
    (s1.a.lost ≠ [] → s2.a.received = s1.a.received ∧ s2.a.lost = s1.a.lost) ∧
    (s1.b.lost ≠ [] → s2.b.received = s1.b.received ∧ s2.b.lost = s1.b.lost) := by
  intro s1 s2
  obtain ⟨⟨_, a3, _, _⟩, ⟨_, b3, _, _⟩⟩ := good_run evs1 _ (good_start p ha hb ra rb)
  simp only [Inv3, Sys.view] at a3 b3
  constructor
  · intro hl
    have hs : s1.a.hasSocket = false := by
      cases h : s1.a.hasSocket with
      | false => rfl
      | true =>
        have h0 : s1.a.lost.length = 0 := by simpa [s1, h] using a3
        exact absurd (List.eq_nil_of_length_eq_zero h0) hl
    have := frozenAt_run .A s1.a.received s1.a.lost evs2 s1 ⟨hs, rfl, rfl⟩
    exact ⟨this.2.1, this.2.2⟩
  · intro hl
    have hs : s1.b.hasSocket = false := by
      cases h : s1.b.hasSocket with
      | false => rfl
      | true =>
        have h0 : s1.b.lost.length = 0 := by simpa [s1, h] using b3
        exact absurd (List.eq_nil_of_length_eq_zero h0) hl
    have := frozenAt_run .B s1.b.received s1.b.lost evs2 s1 ⟨hs, rfl, rfl⟩
    exact ⟨this.2.1, this.2.2⟩

/-- `doWrite` answers CONNECTION_DONE only if loseConnection had been requested and this very call emptied the
    buffers — with the stream invariant: everything the application wrote has been handed to the kernel. -/
theorem done_from_doWrite_only_after_flush (p : Params) (v : View) (n : Nat)
    (hd : (doWrite p v n).1 = some .done) :
    v.c.disconnecting = true ∧ pending (doWrite p v n).2.c = [] :=
  doWrite_done p v n hd


/-! ### the liveness / clean-close half, under the one-closer discipline -/

/-- the peer of `w` -/
abbrev peer (w : Side) : Side := swapSide w

/-- **Cross-endpoint invariants (loseConnection).**  In every state a disciplined schedule reaches after the
    close: no RST, FIN only after the flush, the peer's socket closes only after EOF, nothing discarded,
    pending bytes ⇒ writer registered.  (Closer on side A; side B is the mirror image, `lose_A`/`swapSys`.) -/
theorem discipline_invariants_lose (p : Params) (hp : 0 < p.sendLimit) (hc : 0 < p.cap) (ha hb : Bool)
    (ra rb : List AppOp) (hcfg : closeOk hb rb) (pre post : List Ev)
    (hpre : ∀ ev ∈ pre, preEv .A ev = true) (hpost : ∀ ev ∈ post, noise ev = true)
    (hrd : (run (start p ha hb ra rb) pre).b.reading = true) :
    let s := run (start p ha hb ra rb) (pre ++ .app .A .lose :: post)
    DiscFacts s.a s.b s.ka s.kb :=
  lose_facts false _ _ _ _ (lose_A p hp hc ha hb ra rb hcfg pre post hpre hpost hrd).1

/-- **Cross-endpoint invariants (half-close).**  As above; here each socket closes only after EOF. -/
theorem discipline_invariants_half (p : Params) (hp : 0 < p.sendLimit) (hc : 0 < p.cap) (ha hb : Bool)
    (ra rb : List AppOp) (hcfa : closeOk ha ra) (hcfg : replyOk hb rb) (pre post : List Ev)
    (hpre : ∀ ev ∈ pre, preEv .A ev = true) (hpost : ∀ ev ∈ post, noise ev = true)
    (hra : (run (start p ha hb ra rb) pre).a.reading = true)
    (hrd : (run (start p ha hb ra rb) pre).b.reading = true) :
    let s := run (start p ha hb ra rb) (pre ++ .app .A .loseWrite :: post)
    DiscFacts s.a s.b s.ka s.kb ∧ (s.ka.closed = true → s.ka.inFin = true) :=
  half_facts _ _ _ _ (half_A p hp hc ha hb ra rb hcfa hcfg pre post hpre hpost hra hrd).1

/-- **Pending bytes ⇒ writer registered**, in every state before the close operation. -/
theorem writer_registered_before_close (p : Params) (hp : 0 < p.sendLimit) (ha hb : Bool) (ra rb : List AppOp)
    (pre : List Ev) (hpre : ∀ ev ∈ pre, preEv .A ev = true) :
    let s := run (start p ha hb ra rb) pre
    (pending s.a ≠ [] → s.a.writing = true) ∧ pending s.b = [] :=
  have h := P0_run pre _ (by simpa [fresh, Sys.init] using hp) hpre (P0_fresh p ha hb ra rb)
  ⟨h.1, h.2.2.2.2.2.2.2.1⟩

/-- **The progress measure.**  A fair round started in a non-quiescent state of a disciplined run (closer `w`)
    strictly decreases `mu` and stays inside the discipline's invariant. -/
theorem fair_round_decreases_measure (w : Side) (s : Sys) (h : FInvW w s) (hq : s.quiescent = false) :
    FInvW w (run s fairRound) ∧ mu (run s fairRound) < mu s :=
  fairRound_dec (FInvW w) (roundOK_W w) s h hq

/-- **Orderly close, any quiescent state**: whatever readiness reports follow the loseConnection, if the system
    is at rest then both protocols were told ConnectionDone exactly once and the reader has every byte. -/
theorem loseConnection_at_rest (p : Params) (hp : 0 < p.sendLimit) (hc : 0 < p.cap) (w : Side) (ha hb : Bool)
    (ra rb : List AppOp) (hcfg : match w with | .A => closeOk hb rb | .B => closeOk ha ra) (pre post : List Ev)
    (hpre : ∀ ev ∈ pre, preEv w ev = true) (hpost : ∀ ev ∈ post, noise ev = true)
    (hrd : (connOf (run (start p ha hb ra rb) pre) (peer w)).reading = true) :
    let s := run (start p ha hb ra rb) (pre ++ .app w .lose :: post)
    s.quiescent = true → s.a.lost = [.done] ∧ s.b.lost = [.done] ∧ s.b.received = s.a.accepted ∧
      s.a.received = s.b.accepted :=
  lose_any p hp hc w ha hb ra rb hcfg pre post hpre hpost hrd

/-- **Orderly close, liveness**: the fair completion (`runFair`, fuel ≥ `mu`) of a disciplined schedule with
    loseConnection is quiescent, each protocol's connectionLost was called exactly once with ConnectionDone, and
    each side received exactly the bytes the other wrote. -/
theorem loseConnection_clean_close (p : Params) (hp : 0 < p.sendLimit) (hr : 0 < p.recvMax) (hc : 0 < p.cap)
    (w : Side) (ha hb : Bool) (ra rb : List AppOp)
    (hcfg : match w with | .A => closeOk hb rb | .B => closeOk ha ra) (pre post : List Ev)
    (hpre : ∀ ev ∈ pre, preEv w ev = true) (hpost : ∀ ev ∈ post, noise ev = true)
    (hrd : (connOf (run (start p ha hb ra rb) pre) (peer w)).reading = true) (fuel : Nat)
    (hf : mu (run (start p ha hb ra rb) (pre ++ .app w .lose :: post)) ≤ fuel) :
    let s := runFair fuel (run (start p ha hb ra rb) (pre ++ .app w .lose :: post))
    s.quiescent = true ∧ s.a.lost = [.done] ∧ s.b.lost = [.done] ∧ s.b.received = s.a.accepted ∧
      s.a.received = s.b.accepted := by
  intro s
  have hI := finv_lose p hp hr hc w ha hb ra rb hcfg pre post hpre hpost hrd
  have hq := (runFair_quiescent _ (roundOK_W w) fuel _ hI hf).1
  obtain ⟨post', hn, e⟩ := runFair_after fuel (start p ha hb ra rb) pre post (.app w .lose) hpost
  have hq' : (run (start p ha hb ra rb) (pre ++ .app w .lose :: post')).quiescent = true := by rw [← e]; exact hq
  have := lose_any p hp hc w ha hb ra rb hcfg pre post' hpre hn hrd hq'
  show s.quiescent = true ∧ _
  rw [show s = run (start p ha hb ra rb) (pre ++ .app w .lose :: post') from e]
  exact ⟨hq', this⟩

/-- **Half-close, any quiescent state.** -/
theorem halfClose_at_rest (p : Params) (hp : 0 < p.sendLimit) (hc : 0 < p.cap) (w : Side) (ha hb : Bool)
    (ra rb : List AppOp)
    (hcfg : match w with | .A => closeOk ha ra ∧ replyOk hb rb | .B => closeOk hb rb ∧ replyOk ha ra)
    (pre post : List Ev)
    (hpre : ∀ ev ∈ pre, preEv w ev = true) (hpost : ∀ ev ∈ post, noise ev = true)
    (hra : (run (start p ha hb ra rb) pre).a.reading = true)
    (hrb : (run (start p ha hb ra rb) pre).b.reading = true) :
    let s := run (start p ha hb ra rb) (pre ++ .app w .loseWrite :: post)
    s.quiescent = true → s.a.lost = [.done] ∧ s.b.lost = [.done] ∧ s.b.received = s.a.accepted ∧
      s.a.received = s.b.accepted :=
  half_any p hp hc w ha hb ra rb hcfg pre post hpre hpost hra hrb

/-- **Half-close, liveness**: after loseWriteConnection the fair completion is quiescent, both reasons are
    ConnectionDone, the peer got everything the initiator wrote and the initiator got the whole reply. -/
theorem halfClose_clean_close (p : Params) (hp : 0 < p.sendLimit) (hr : 0 < p.recvMax) (hc : 0 < p.cap)
    (w : Side) (ha hb : Bool) (ra rb : List AppOp)
    (hcfg : match w with | .A => closeOk ha ra ∧ replyOk hb rb | .B => closeOk hb rb ∧ replyOk ha ra)
    (pre post : List Ev)
    (hpre : ∀ ev ∈ pre, preEv w ev = true) (hpost : ∀ ev ∈ post, noise ev = true)
    (hra : (run (start p ha hb ra rb) pre).a.reading = true)
    (hrb : (run (start p ha hb ra rb) pre).b.reading = true) (fuel : Nat)
    (hf : mu (run (start p ha hb ra rb) (pre ++ .app w .loseWrite :: post)) ≤ fuel) :
    let s := runFair fuel (run (start p ha hb ra rb) (pre ++ .app w .loseWrite :: post))
    s.quiescent = true ∧ s.a.lost = [.done] ∧ s.b.lost = [.done] ∧ s.b.received = s.a.accepted ∧
      s.a.received = s.b.accepted := by
  intro s
  have hI := finv_half p hp hr hc w ha hb ra rb hcfg pre post hpre hpost hra hrb
  have hq := (runFair_quiescent _ (roundOK_W w) fuel _ hI hf).1
  obtain ⟨post', hn, e⟩ := runFair_after fuel (start p ha hb ra rb) pre post (.app w .loseWrite) hpost
  have hq' : (run (start p ha hb ra rb) (pre ++ .app w .loseWrite :: post')).quiescent = true := by
    rw [← e]; exact hq
  have := half_any p hp hc w ha hb ra rb hcfg pre post' hpre hn hra hrb hq'
  show s.quiescent = true ∧ _
  rw [show s = run (start p ha hb ra rb) (pre ++ .app w .loseWrite :: post') from e]
  exact ⟨hq', this⟩

/-- **Abort, any quiescent state.** -/
theorem abortConnection_at_rest (p : Params) (hp : 0 < p.sendLimit) (w : Side) (ha hb : Bool) (ra rb : List AppOp)
    (pre post : List Ev)
    (hpre : ∀ ev ∈ pre, preEv w ev = true) (hpost : ∀ ev ∈ post, noise ev = true)
    (hrd : (connOf (run (start p ha hb ra rb) pre) (peer w)).reading = true) :
    let s := run (start p ha hb ra rb) (pre ++ .app w .abort :: post)
    s.quiescent = true → (connOf s w).lost = [.aborted] ∧ (connOf s (peer w)).lost = [.lost] :=
  abort_any p hp w ha hb ra rb pre post hpre hpost hrd

/-- **Abort, liveness**: after abortConnection the fair completion is quiescent; the aborting side's protocol
    was told ConnectionAborted (once), the other side exactly one reason (ConnectionLost); what the reader got is
    a prefix of what was written (`peer_receives_prefix_of_written`, valid in every state). -/
theorem abortConnection_close (p : Params) (hp : 0 < p.sendLimit) (hr : 0 < p.recvMax)
    (w : Side) (ha hb : Bool) (ra rb : List AppOp) (pre post : List Ev)
    (hpre : ∀ ev ∈ pre, preEv w ev = true) (hpost : ∀ ev ∈ post, noise ev = true)
    (hrd : (connOf (run (start p ha hb ra rb) pre) (peer w)).reading = true) (fuel : Nat)
    (hf : mu (run (start p ha hb ra rb) (pre ++ .app w .abort :: post)) ≤ fuel) :
    let s := runFair fuel (run (start p ha hb ra rb) (pre ++ .app w .abort :: post))
    s.quiescent = true ∧ (connOf s w).lost = [.aborted] ∧ (connOf s (peer w)).lost = [.lost] ∧
      s.b.received <+: s.a.accepted ∧ s.a.received <+: s.b.accepted := by
  intro s
  have hI := finv_abort p hp hr w ha hb ra rb pre post hpre hpost hrd
  have hq := (runFair_quiescent _ (roundOK_W w) fuel _ hI hf).1
  obtain ⟨post', hn, e⟩ := runFair_after fuel (start p ha hb ra rb) pre post (.app w .abort) hpost
  have hq' : (run (start p ha hb ra rb) (pre ++ .app w .abort :: post')).quiescent = true := by rw [← e]; exact hq
  have := abort_any p hp w ha hb ra rb pre post' hpre hn hrd hq'
  have hpre' := peer_receives_prefix_of_written p ha hb ra rb (pre ++ .app w .abort :: post')
  show s.quiescent = true ∧ _
  rw [show s = run (start p ha hb ra rb) (pre ++ .app w .abort :: post') from e]
  exact ⟨hq', this.1, this.2, hpre'⟩

/-- **`accepted` is what was written.**  For a disciplined schedule with any close operation of side `w` whose
    protocol does not write from readConnectionLost: the closer's `accepted` is the concatenation of the bytes
    passed to write()/writeSequence() by the schedule; a peer that does not write there has accepted nothing. -/
theorem closer_accepted_is_written (p : Params) (hp : 0 < p.sendLimit) (w : Side) (ha hb : Bool) (ra rb : List AppOp)
    (hcw : match w with | .A => noWrites ha ra | .B => noWrites hb rb)
    (pre post : List Ev) (op : AppOp) (hop : AppOp.isWrite op = false)
    (hpre : ∀ ev ∈ pre, preEv w ev = true) (hpost : ∀ ev ∈ post, noise ev = true) :
    let s := run (start p ha hb ra rb) (pre ++ .app w op :: post)
    (connOf s w).accepted = written w pre ∧
    ((match w with | .A => noWrites hb rb | .B => noWrites ha ra) → (connOf s (peer w)).accepted = []) :=
  accepted_any p hp w ha hb ra rb hcw pre post op hop hpre hpost

/-- **loseConnection delivers exactly the bytes written** (closer on side A; side B is the mirror image): at the
    end of the fair completion B's protocol holds `written .A pre`, A's nothing, both were told ConnectionDone. -/
theorem loseConnection_delivers_written (p : Params) (hp : 0 < p.sendLimit) (hr : 0 < p.recvMax) (hc : 0 < p.cap)
    (ha hb : Bool) (ra rb : List AppOp) (hca : noWrites ha ra) (hcfg : closeOk hb rb) (pre post : List Ev)
    (hpre : ∀ ev ∈ pre, preEv .A ev = true) (hpost : ∀ ev ∈ post, noise ev = true)
    (hrd : (run (start p ha hb ra rb) pre).b.reading = true) (fuel : Nat)
    (hf : mu (run (start p ha hb ra rb) (pre ++ .app .A .lose :: post)) ≤ fuel) :
    let s := runFair fuel (run (start p ha hb ra rb) (pre ++ .app .A .lose :: post))
    s.quiescent = true ∧ s.a.lost = [.done] ∧ s.b.lost = [.done] ∧ s.b.received = written .A pre ∧
      s.a.received = [] := by
  intro s
  have h := loseConnection_clean_close p hp hr hc .A ha hb ra rb hcfg pre post hpre hpost hrd fuel hf
  obtain ⟨post', hn, e⟩ := runFair_after fuel (start p ha hb ra rb) pre post (.app .A .lose) hpost
  have hacc := closer_accepted_is_written p hp .A ha hb ra rb hca pre post' .lose rfl hpre hn
  have hs : s = run (start p ha hb ra rb) (pre ++ .app .A .lose :: post') := e
  obtain ⟨h1, h2, h3, h4, h5⟩ := h
  refine ⟨h1, h2, h3, ?_, ?_⟩
  · rw [show s.b.received = s.a.accepted from h4, hs]; exact hacc.1
  · rw [show s.a.received = s.b.accepted from h5, hs]; exact hacc.2 (closeOk_noWrites hb rb hcfg)

/-- **Half-close delivers exactly the bytes written** to the peer (closer on side A); what the initiator receives
    is exactly what the peer's reply was accepted as (`halfClose_clean_close`). -/
theorem halfClose_delivers_written (p : Params) (hp : 0 < p.sendLimit) (hr : 0 < p.recvMax) (hc : 0 < p.cap)
    (ha hb : Bool) (ra rb : List AppOp) (hcfa : closeOk ha ra) (hcfg : replyOk hb rb) (pre post : List Ev)
    (hpre : ∀ ev ∈ pre, preEv .A ev = true) (hpost : ∀ ev ∈ post, noise ev = true)
    (hra : (run (start p ha hb ra rb) pre).a.reading = true)
    (hrb : (run (start p ha hb ra rb) pre).b.reading = true) (fuel : Nat)
    (hf : mu (run (start p ha hb ra rb) (pre ++ .app .A .loseWrite :: post)) ≤ fuel) :
    let s := runFair fuel (run (start p ha hb ra rb) (pre ++ .app .A .loseWrite :: post))
    s.quiescent = true ∧ s.a.lost = [.done] ∧ s.b.lost = [.done] ∧ s.b.received = written .A pre ∧
      s.a.received = s.b.accepted := by
  intro s
  have h := halfClose_clean_close p hp hr hc .A ha hb ra rb ⟨hcfa, hcfg⟩ pre post hpre hpost hra hrb fuel hf
  obtain ⟨post', hn, e⟩ := runFair_after fuel (start p ha hb ra rb) pre post (.app .A .loseWrite) hpost
  have hacc := closer_accepted_is_written p hp .A ha hb ra rb (closeOk_noWrites ha ra hcfa) pre post' .loseWrite rfl
    hpre hn
  have hs : s = run (start p ha hb ra rb) (pre ++ .app .A .loseWrite :: post') := e
  obtain ⟨h1, h2, h3, h4, h5⟩ := h
  refine ⟨h1, h2, h3, ?_, h5⟩
  rw [show s.b.received = s.a.accepted from h4, hs]; exact hacc.1

/-! ### non-vacuity: concrete schedules (tiny kernel so that every write is partial) -/

def tiny : Params := { sendLimit := 4, recvMax := 3, cap := 5 }

/-- orderly close: 8 bytes through a 5-byte queue with 4-byte sends and 3-byte reads -/
def demoLose : List Ev :=
  [.app .A (.write [1, 2, 3, 4, 5, 6, 7, 8]), .io .A false true false 0 3, .io .B true false false 2 0,
   .app .A .lose] ++ fairRound ++ fairRound ++ fairRound ++ fairRound

example : (run (start tiny false false [] []) demoLose).b.received = [1, 2, 3, 4, 5, 6, 7, 8] := by decide
example : (run (start tiny false false [] []) demoLose).a.lost = [.done] ∧
          (run (start tiny false false [] []) demoLose).b.lost = [.done] := by decide
example : (run (start tiny false false [] []) demoLose).quiescent = true := by decide

/-- abort with data still buffered: the peer gets a proper prefix and a reset -/
def demoAbort : List Ev :=
  [.app .A (.write [1, 2, 3, 4, 5, 6, 7, 8]), .io .A false true false 0 3, .app .A .abort] ++ fairRound ++ fairRound

example : (run (start tiny false false [] []) demoAbort).b.received = [1, 2, 3] ∧
          (run (start tiny false false [] []) demoAbort).a.lost = [.aborted] ∧
          (run (start tiny false false [] []) demoAbort).b.lost = [.lost] := by decide

/-- half-close with a reply from a half-closeable peer whose readConnectionLost writes and closes -/
def demoHalf : List Ev :=
  [.app .A (.writeSeq [[1, 2], [], [3]]), .app .A .loseWrite] ++ fairRound ++ fairRound ++ fairRound ++
    fairRound ++ fairRound ++ fairRound

example : let s := run (start tiny true true [.lose] [.write [10, 11, 12], .lose]) demoHalf
          s.b.received = [1, 2, 3] ∧ s.a.received = [10, 11, 12] ∧ s.a.lost = [.done] ∧ s.b.lost = [.done] ∧
          s.a.writeLost = 1 ∧ s.b.readLost = 1 := by decide

/-- the hypothesis of `no_data_after_connectionLost` is met and the continuation is not idle -/
example : (run (start tiny false false [] []) demoLose).b.lost ≠ [] := by decide

/-- `done_from_doWrite_only_after_flush` is not vacuous: the last doWrite of `demoLose` returns done -/
def flushing : Conn :=
  { disconnecting := true, writing := true, reading := false, dataBuffer := [7, 8], accepted := [7, 8] }

example : (doWrite tiny ⟨flushing, {}, {}⟩ 9).1 = some .done := by decide

/-! non-vacuity of the liveness theorems: the demo schedules are disciplined (hypotheses hold), the measure is a
    concrete number, and the conclusions are the non-trivial values computed above -/

def demoPre : List Ev :=
  [.app .A (.write [1, 2, 3, 4, 5, 6, 7, 8]), .io .A false true false 0 3, .io .B true false false 2 0]

example : (∀ ev ∈ demoPre, preEv .A ev = true) ∧ (∀ ev ∈ (fairRound ++ fairRound), noise ev = true) ∧
    (run (start tiny false false [] []) demoPre).b.reading = true := by decide
example : mu (run (start tiny false false [] []) (demoPre ++ .app .A .lose :: [])) ≤ 40 := by decide
example : let s := runFair 40 (run (start tiny false false [] []) (demoPre ++ .app .A .lose :: []))
    s.quiescent = true ∧ s.a.lost = [.done] ∧ s.b.lost = [.done] ∧ s.b.received = [1, 2, 3, 4, 5, 6, 7, 8] := by decide
/-- the half-close with a reply is disciplined: `replyOk` holds for the replying peer -/
example : replyOk true [.write [10, 11, 12], .lose] := fun _ => ⟨[.write [10, 11, 12]], by decide, rfl⟩
example : let s := runFair 40 (run (start tiny true true [.lose] [.write [10, 11, 12], .lose])
      ([.app .A (.writeSeq [[1, 2], [], [3]])] ++ .app .A .loseWrite :: []))
    s.quiescent = true ∧ s.a.lost = [.done] ∧ s.b.lost = [.done] ∧ s.b.received = [1, 2, 3] ∧
      s.a.received = [10, 11, 12] := by decide
example : let s := runFair 40 (run (start tiny false false [] [])
      ([.app .B (.write [1, 2, 3, 4, 5, 6, 7, 8]), .io .B false true false 0 3] ++ .app .B .abort :: []))
    s.quiescent = true ∧ s.b.lost = [.aborted] ∧ s.a.lost = [.lost] ∧ s.a.received = [1, 2, 3] := by decide
example : written .A demoPre = [1, 2, 3, 4, 5, 6, 7, 8] := by decide
/-- a non-quiescent disciplined state and its measure going down over one fair round -/
example : let s := run (start tiny false false [] []) (demoPre ++ .app .A .lose :: [])
    s.quiescent = false ∧ mu (run s fairRound) < mu s := by decide

end TwistedProps.C15
