import TwistedModel.Haproxy.Wrapper
/-!
C47 — PROXY protocol headers are parsed regardless of segmentation.

Statement (fixed): for any PROXY protocol header (version 1 or 2; IPv4, IPv6, UNIX, UNKNOWN or
LOCAL) followed by application bytes, and any segmentation, the wrapped protocol sees the
header's source and destination addresses and exactly the application bytes.  A byte stream
that does not begin with a valid header closes the connection without passing any of its
bytes to the application.

Shape of the proof.  `classify` is the one-shot reading of a whole stream.  `run_eq_classify`
shows, for EVERY list of chunks (any number, any sizes, empty chunks included), that the
wrapper ends in exactly the outcome `classify` assigns to the concatenation — by induction over
the chunk list with the invariant `Rep` ("the state represents the bytes received so far").
`classify_encode` / `classify_accepted_sound` relate `classify` to the declarative description
of valid headers (`Hdr`, `encode`, `wf`, `meaning`); the two property theorems follow.

Every theorem is parametric in `ok`, the model's stand-in for `isIPAddress` (libc `inet_pton`).
-/
namespace TwistedProps.C47
open Twisted.Haproxy

/-! ### list / scanning lemmas -/
theorem splitCRLF_cons (b : UInt8) (rest : Bytes) :
    splitCRLF (b :: rest) =
      if b = 13 ∧ rest.head? = some 10 then some ([], rest.tail)
      else match splitCRLF rest with
        | some (h, r) => some (b :: h, r)
        | none => none := by
  simp only [splitCRLF]
  split <;> rfl

theorem splitCRLF_append_some (s d h r : Bytes) (hs : splitCRLF s = some (h, r)) :
    splitCRLF (s ++ d) = some (h, r ++ d) := by
  induction s generalizing h r with
  | nil => simp [splitCRLF] at hs
  | cons b rest ih =>
    rw [splitCRLF_cons] at hs
    rw [List.cons_append, splitCRLF_cons]
    by_cases hc : b = 13 ∧ rest.head? = some 10
    · rw [if_pos hc] at hs
      have hne : rest ≠ [] := by intro h0; simp [h0] at hc
      have hc' : b = 13 ∧ (rest ++ d).head? = some 10 := by
        refine ⟨hc.1, ?_⟩
        cases rest with
        | nil => exact absurd rfl hne
        | cons x xs => simpa using hc.2
      rw [if_pos hc']
      cases rest with
      | nil => exact absurd rfl hne
      | cons x xs => simp at hs ⊢; obtain ⟨h1, h2⟩ := hs; simp [h1, h2]
    · rw [if_neg hc] at hs
      have hc' : ¬ (b = 13 ∧ (rest ++ d).head? = some 10) := by
        intro hh
        apply hc
        refine ⟨hh.1, ?_⟩
        cases rest with
        | nil => simp [splitCRLF] at hs
        | cons x xs => simpa using hh.2
      rw [if_neg hc']
      cases hr : splitCRLF rest with
      | none => simp [hr] at hs
      | some p =>
        obtain ⟨h', r'⟩ := p
        simp [hr] at hs
        obtain ⟨h1, h2⟩ := hs
        rw [ih h' r' hr]
        simp [h1, h2]

theorem splitCRLF_append_none (s d h r : Bytes) (hs : splitCRLF s = none)
    (hsd : splitCRLF (s ++ d) = some (h, r)) : s.length ≤ h.length + 1 := by
  induction s generalizing h r with
  | nil => simp
  | cons b rest ih =>
    rw [splitCRLF_cons] at hs
    rw [List.cons_append, splitCRLF_cons] at hsd
    by_cases hc : b = 13 ∧ rest.head? = some 10
    · rw [if_pos hc] at hs; simp at hs
    · rw [if_neg hc] at hs
      by_cases hc' : b = 13 ∧ (rest ++ d).head? = some 10
      · rw [if_pos hc'] at hsd
        cases rest with
        | nil => simp
        | cons x xs => exact absurd ⟨hc'.1, by simpa using hc'.2⟩ hc
      · rw [if_neg hc'] at hsd
        cases hr : splitCRLF rest with
        | some p => simp [hr] at hs
        | none =>
          cases hrd : splitCRLF (rest ++ d) with
          | none => simp [hrd] at hsd
          | some p =>
            obtain ⟨h', r'⟩ := p
            simp [hrd] at hsd
            have := ih h' r' hr hrd
            obtain ⟨h1, _⟩ := hsd
            subst h1
            simp; omega

theorem take_prefix (s d : Bytes) (n : Nat) : s.take n = ((s ++ d).take n).take s.length := by
  rw [List.take_take]
  by_cases h : n ≤ s.length
  · rw [Nat.min_eq_right h, List.take_append_of_le_length h]
  · have h' : s.length ≤ n := by omega
    rw [Nat.min_eq_left h', List.take_append_of_le_length (Nat.le_refl _), List.take_length,
      List.take_of_length_le h']

theorem getD_append_lt (s d : Bytes) (n : Nat) (h : n < s.length) :
    (s ++ d).getD n 0 = s.getD n 0 := by
  simp [List.getD_eq_getElem?_getD, List.getElem?_append_left h]

theorem v1Cond_length {s : Bytes} (h : v1Cond s) : 5 ≤ s.length := by
  unfold v1Cond at h
  have := congrArg List.length h
  simp [PROXY] at this
  omega

theorem v1Cond_append {s : Bytes} (d : Bytes) (h : v1Cond s) : v1Cond (s ++ d) := by
  have hl := v1Cond_length h
  unfold v1Cond at *
  rw [List.take_append_of_le_length hl]; exact h

theorem v2Cond_append {s : Bytes} (d : Bytes) (h : v2Cond s) : v2Cond (s ++ d) := by
  obtain ⟨h1, h2, h3⟩ := h
  refine ⟨by simp; omega, ?_, ?_⟩
  · rw [List.take_append_of_le_length (by omega)]; exact h2
  · rw [getD_append_lt _ _ _ (by omega)]; exact h3

theorem v1_not_v2 {s : Bytes} (h : v1Cond s) : ¬ v2Cond s := by
  intro ⟨_, h2, _⟩
  unfold v1Cond at h
  cases s with
  | nil => simp [PROXY] at h
  | cons b rest =>
    simp [PROXY] at h
    simp [PREFIX] at h2
    rw [h.1] at h2
    exact absurd h2.1 (by decide)

theorem v1Cond_of_append {s d : Bytes} (h : v1Cond (s ++ d)) :
    v1Cond s ∨ (s.length < 5 ∧ PROXY.take s.length = s) := by
  by_cases hl : 5 ≤ s.length
  · left
    unfold v1Cond at *
    rwa [List.take_append_of_le_length hl] at h
  · right
    refine ⟨by omega, ?_⟩
    unfold v1Cond at h
    rw [← h, ← take_prefix]
    exact List.take_of_length_le (by omega)

theorem v2Cond_of_append {s d : Bytes} (h : v2Cond (s ++ d)) :
    v2Cond s ∨ mayBecomeHeader s = true := by
  obtain ⟨h1, h2, h3⟩ := h
  by_cases hl : 16 ≤ s.length
  · left
    refine ⟨hl, ?_, ?_⟩
    · rwa [List.take_append_of_le_length (by omega)] at h2
    · rwa [getD_append_lt _ _ _ (by omega)] at h3
  · right
    unfold mayBecomeHeader
    split
    · rfl
    · have ht : s.take 12 = PREFIX.take s.length := by rw [take_prefix s d 12, h2]
      have hv : s.length < 13 ∨ hi (s.getD 12 0) = 2 := by
        by_cases h13 : s.length < 13
        · exact Or.inl h13
        · right; rwa [getD_append_lt _ _ _ (by omega)] at h3
      rw [if_pos ⟨by omega, ht⟩]
      simpa using hv

theorem mayBecome_of_append {s d : Bytes} (h : mayBecomeHeader (s ++ d) = true) :
    mayBecomeHeader s = true := by
  unfold mayBecomeHeader at h
  split at h
  · rename_i hc
    obtain ⟨hl, hp⟩ := hc
    unfold mayBecomeHeader
    have hl' : s.length < 5 := by simp at hl; omega
    have : PROXY.take s.length = s := by
      have h1 := congrArg (List.take s.length) hp
      rw [List.take_take, List.take_append_of_le_length (Nat.le_refl _), List.take_length] at h1
      rw [Nat.min_eq_left (by simp)] at h1
      exact h1
    rw [if_pos ⟨hl', this⟩]
  · split at h
    · rename_i hc
      obtain ⟨hl, hp⟩ := hc
      unfold mayBecomeHeader
      split
      · rfl
      · have hl' : s.length < 16 := by simp at hl; omega
        have ht : s.take 12 = PREFIX.take s.length := by
          rw [take_prefix s d 12, hp, List.take_take]
          congr 1
          simp
        rw [if_pos ⟨hl', ht⟩]
        simp at h ⊢
        by_cases h13 : s.length < 13
        · exact Or.inl h13
        · right
          rcases h with h | h
          · omega
          · rwa [List.getElem?_append_left (by omega)] at h
    · simp at h

/-! ### the parsers' `feed` is monotone in the stream -/

theorem V1_feed_nil (ok : Bool → Bytes → Bool) (buf data : Bytes) :
    V1.feed ok buf data = V1.feed ok [] (buf ++ data) := by
  simp [V1.feed]

theorem V2_feed_nil (buf data : Bytes) : V2.feed buf data = V2.feed [] (buf ++ data) := by
  simp [V2.feed]

theorem V1_feed_raised (ok : Bool → Bytes → Bool) (s d : Bytes)
    (h : V1.feed ok [] s = .raised) : V1.feed ok [] (s ++ d) = .raised := by
  simp only [V1.feed, List.nil_append] at h ⊢
  cases hs : splitCRLF s with
  | none =>
    rw [hs] at h
    have hlen : s.length > 107 := by
      by_cases hl : s.length > 107
      · exact hl
      · simp [hl] at h
    cases hsd : splitCRLF (s ++ d) with
    | none => simp; omega
    | some p =>
      obtain ⟨hh, r⟩ := p
      have := splitCRLF_append_none s d hh r hs hsd
      simp only
      rw [if_pos (by omega)]
  | some p =>
    obtain ⟨hh, r⟩ := p
    rw [hs] at h
    rw [splitCRLF_append_some s d hh r hs]
    simp only at h ⊢
    by_cases hl : hh.length + 2 > 107
    · rw [if_pos hl]
    · rw [if_neg hl] at h ⊢
      cases hp : V1.parse ok hh with
      | ok i => simp [hp] at h
      | error e => rfl

theorem V1_feed_done (ok : Bool → Bytes → Bool) (s d : Bytes) (i : Info) (r : Bytes)
    (h : V1.feed ok [] s = .done i r) : V1.feed ok [] (s ++ d) = .done i (r ++ d) := by
  simp only [V1.feed, List.nil_append] at h ⊢
  cases hs : splitCRLF s with
  | none =>
    rw [hs] at h
    by_cases hl : s.length > 107 <;> simp [hl] at h
  | some p =>
    obtain ⟨hh, r'⟩ := p
    rw [hs] at h
    rw [splitCRLF_append_some s d hh r' hs]
    simp only at h ⊢
    by_cases hl : hh.length + 2 > 107
    · simp [hl] at h
    · rw [if_neg hl] at h ⊢
      cases hp : V1.parse ok hh with
      | ok i' =>
        rw [hp] at h
        simp only [Feed.done.injEq] at h ⊢
        exact ⟨h.1, by rw [h.2]⟩
      | error e => simp [hp] at h

theorem be16_drop_append (s d : Bytes) (h : 16 ≤ s.length) :
    be16 ((s ++ d).drop 14) = be16 (s.drop 14) := by
  unfold be16
  rw [List.drop_append_of_le_length (by omega)]
  rw [getD_append_lt _ _ _ (by simp; omega), getD_append_lt _ _ _ (by simp; omega)]

theorem V2_feed_raised (s d : Bytes) (hl : 16 ≤ s.length)
    (h : V2.feed [] s = .raised) : V2.feed [] (s ++ d) = .raised := by
  simp only [V2.feed, List.nil_append] at h ⊢
  rw [if_neg (by omega)] at h
  rw [if_neg (by simp; omega), be16_drop_append s d hl]
  by_cases hsz : s.length < be16 (s.drop 14) + 16
  · simp [hsz] at h
  · rw [if_neg hsz] at h
    rw [if_neg (by simp; omega), List.take_append_of_le_length (by omega)]
    cases hp : V2.parse (s.take (be16 (s.drop 14) + 16)) with
    | ok i => simp [hp] at h
    | error e => rfl

theorem V2_feed_done (s d : Bytes) (i : Info) (r : Bytes) (hl : 16 ≤ s.length)
    (h : V2.feed [] s = .done i r) : V2.feed [] (s ++ d) = .done i (r ++ d) := by
  simp only [V2.feed, List.nil_append] at h ⊢
  rw [if_neg (by omega)] at h
  rw [if_neg (by simp; omega), be16_drop_append s d hl]
  by_cases hsz : s.length < be16 (s.drop 14) + 16
  · simp [hsz] at h
  · rw [if_neg hsz] at h
    rw [if_neg (by simp; omega), List.take_append_of_le_length (by omega),
      List.drop_append_of_le_length (by omega)]
    cases hp : V2.parse (s.take (be16 (s.drop 14) + 16)) with
    | ok i' =>
      rw [hp] at h
      simp only [Feed.done.injEq] at h ⊢
      exact ⟨h.1, by rw [h.2]⟩
    | error e => simp [hp] at h

/-! ### one-shot classification of a whole stream, and the invariant -/

/-- what finally happens to a connection -/
inductive Outcome
  | pending                                   -- header not complete yet: open, nothing passed
  | closed                                    -- `loseConnection()`, nothing passed
  | accepted (info : Info) (payload : Bytes)  -- header parsed: addresses `info`, `payload` passed on
deriving Repr

def ofFeed : Feed → Outcome
  | .raised => .closed
  | .more _ => .pending
  | .done i r => .accepted i r

/-- one-shot reading of the whole stream `s` (as if it arrived in a single delivery) -/
def classify (ok : Bool → Bytes → Bool) (s : Bytes) : Outcome :=
  if v2Cond s then ofFeed (V2.feed [] s)
  else if v1Cond s then ofFeed (V1.feed ok [] s)
  else if mayBecomeHeader s then .pending
  else .closed

/-- the observable part of a state: closed?, `_proxyInfo`, bytes passed to the application -/
def observe (st : State) : Bool × Option Info × Bytes := (st.closed, st.info, st.app)

def Outcome.obs : Outcome → Bool × Option Info × Bytes
  | .pending => (false, none, [])
  | .closed => (true, none, [])
  | .accepted i p => (false, some i, p)

/-- while pending, the parser state holds exactly the bytes received so far -/
def Holds (st : State) (s : Bytes) : Prop :=
  match st.parser with
  | .undecided u => u = s ∧ ¬ v2Cond s ∧ ¬ v1Cond s
  | .v1 b => b = s ∧ ¬ v2Cond s ∧ v1Cond s
  | .v2 b => b = s ∧ v2Cond s

/-- state `st` represents the received prefix `s` -/
def Rep (ok : Bool → Bytes → Bool) (st : State) (s : Bytes) : Prop :=
  observe st = (classify ok s).obs ∧ (classify ok s = .pending → Holds st s)

theorem classify_closed_append (ok : Bool → Bytes → Bool) (s d : Bytes)
    (h : classify ok s = .closed) : classify ok (s ++ d) = .closed := by
  unfold classify at h
  by_cases h2 : v2Cond s
  · rw [if_pos h2] at h
    unfold classify
    rw [if_pos (v2Cond_append d h2)]
    cases hf : V2.feed [] s with
    | raised => rw [V2_feed_raised s d h2.1 hf]; rfl
    | more b => simp [hf, ofFeed] at h
    | done i r => simp [hf, ofFeed] at h
  · rw [if_neg h2] at h
    by_cases h1 : v1Cond s
    · rw [if_pos h1] at h
      unfold classify
      rw [if_neg (v1_not_v2 (v1Cond_append d h1)), if_pos (v1Cond_append d h1)]
      cases hf : V1.feed ok [] s with
      | raised => rw [V1_feed_raised ok s d hf]; rfl
      | more b => simp [hf, ofFeed] at h
      | done i r => simp [hf, ofFeed] at h
    · rw [if_neg h1] at h
      by_cases hm : mayBecomeHeader s = true
      · simp [hm] at h
      · have n2 : ¬ v2Cond (s ++ d) := fun hh => (v2Cond_of_append hh).elim h2 hm
        have n1 : ¬ v1Cond (s ++ d) := by
          intro hh
          rcases v1Cond_of_append hh with hh | hh
          · exact h1 hh
          · apply hm; unfold mayBecomeHeader; rw [if_pos hh]
        have nm : ¬ mayBecomeHeader (s ++ d) = true := fun hh => hm (mayBecome_of_append hh)
        unfold classify
        rw [if_neg n2, if_neg n1]
        simp [nm]

theorem classify_accepted_append (ok : Bool → Bytes → Bool) (s d : Bytes) (i : Info) (p : Bytes)
    (h : classify ok s = .accepted i p) : classify ok (s ++ d) = .accepted i (p ++ d) := by
  unfold classify at h
  by_cases h2 : v2Cond s
  · rw [if_pos h2] at h
    unfold classify
    rw [if_pos (v2Cond_append d h2)]
    cases hf : V2.feed [] s with
    | raised => simp [hf, ofFeed] at h
    | more b => simp [hf, ofFeed] at h
    | done i' r =>
      rw [hf] at h
      simp only [ofFeed, Outcome.accepted.injEq] at h
      rw [V2_feed_done s d i' r h2.1 hf, ofFeed, h.1, h.2]
  · rw [if_neg h2] at h
    by_cases h1 : v1Cond s
    · rw [if_pos h1] at h
      unfold classify
      rw [if_neg (v1_not_v2 (v1Cond_append d h1)), if_pos (v1Cond_append d h1)]
      cases hf : V1.feed ok [] s with
      | raised => simp [hf, ofFeed] at h
      | more b => simp [hf, ofFeed] at h
      | done i' r =>
        rw [hf] at h
        simp only [ofFeed, Outcome.accepted.injEq] at h
        rw [V1_feed_done ok s d i' r hf, ofFeed, h.1, h.2]
    · rw [if_neg h1] at h
      by_cases hm : mayBecomeHeader s = true <;> simp [hm] at h

/-- result state of the `try` block represents `s'`, given what `feed` on all of `s'` returned -/
theorem rep_afterFeed (ok : Bool → Bytes → Bool) (st : State) (mk : Bytes → Parser) (f : Feed)
    (s' : Bytes) (hst : observe st = (false, none, []))
    (hc : classify ok s' = ofFeed f)
    (hmk : ∀ b, f = .more b → Holds { st with parser := mk b } s') :
    Rep ok (afterFeed st mk f) s' := by
  obtain ⟨hcl, hinfo, happ⟩ : st.closed = false ∧ st.info = none ∧ st.app = [] := by
    simpa [observe] using hst
  cases f with
  | raised =>
    refine ⟨?_, ?_⟩
    · rw [hc]; simp [afterFeed, observe, ofFeed, Outcome.obs, hinfo, happ]
    · intro hp; rw [hc] at hp; simp [ofFeed] at hp
  | more b =>
    refine ⟨?_, ?_⟩
    · rw [hc]; simp [afterFeed, observe, ofFeed, Outcome.obs, hinfo, happ, hcl]
    · intro _; exact hmk b rfl
  | done i r =>
    refine ⟨?_, ?_⟩
    · rw [hc]; simp [afterFeed, observe, ofFeed, Outcome.obs, happ, hcl]
    · intro hp; rw [hc] at hp; simp [ofFeed] at hp

theorem rep_step (ok : Bool → Bytes → Bool) (st : State) (s d : Bytes) (h : Rep ok st s) :
    Rep ok (step ok st d) (s ++ d) := by
  obtain ⟨hobs, hhold⟩ := h
  cases hc : classify ok s with
  | closed =>
    rw [hc] at hobs
    have hcl : st.closed = true := by simpa [observe, Outcome.obs] using congrArg Prod.fst hobs
    have : step ok st d = st := by simp [step, hcl]
    rw [this]
    refine ⟨?_, ?_⟩
    · rw [classify_closed_append ok s d hc]; exact hobs
    · intro hp; rw [classify_closed_append ok s d hc] at hp; cases hp
  | accepted i p =>
    rw [hc] at hobs
    obtain ⟨hcl, hinfo, happ⟩ : st.closed = false ∧ st.info = some i ∧ st.app = p := by
      simpa [observe, Outcome.obs] using hobs
    have : step ok st d = { st with app := st.app ++ d } := by simp [step, hcl, hinfo]
    rw [this]
    refine ⟨?_, ?_⟩
    · rw [classify_accepted_append ok s d i p hc]
      simp [observe, Outcome.obs, hcl, hinfo, happ]
    · intro hp; rw [classify_accepted_append ok s d i p hc] at hp; cases hp
  | pending =>
    rw [hc] at hobs
    obtain ⟨hcl, hinfo, happ⟩ : st.closed = false ∧ st.info = none ∧ st.app = [] := by
      simpa [observe, Outcome.obs] using hobs
    have hH := hhold hc
    unfold Holds at hH
    cases hpar : st.parser with
    | v1 b =>
      rw [hpar] at hH
      obtain ⟨hb, _, h1⟩ := hH
      subst hb
      have : step ok st d = afterFeed st .v1 (V1.feed ok b d) := by simp [step, hcl, hinfo, hpar]
      rw [this, V1_feed_nil]
      apply rep_afterFeed ok st .v1 _ _ (by simp [observe, hcl, hinfo, happ])
      · unfold classify
        rw [if_neg (v1_not_v2 (v1Cond_append d h1)), if_pos (v1Cond_append d h1)]
      · intro b' hb'
        have : b' = b ++ d := by
          simp only [V1.feed, List.nil_append] at hb'
          split at hb'
          · split at hb' <;> simp at hb'; exact hb'.symm
          · split at hb'
            · simp at hb'
            · split at hb' <;> simp at hb'
        subst this
        exact ⟨rfl, v1_not_v2 (v1Cond_append d h1), v1Cond_append d h1⟩
    | v2 b =>
      rw [hpar] at hH
      obtain ⟨hb, h2⟩ := hH
      subst hb
      have : step ok st d = afterFeed st .v2 (V2.feed b d) := by simp [step, hcl, hinfo, hpar]
      rw [this, V2_feed_nil]
      apply rep_afterFeed ok st .v2 _ _ (by simp [observe, hcl, hinfo, happ])
      · unfold classify
        rw [if_pos (v2Cond_append d h2)]
      · intro b' hb'
        have : b' = b ++ d := by
          simp only [V2.feed, List.nil_append] at hb'
          split at hb'
          · simp at hb'
          · split at hb'
            · simp at hb'; exact hb'.symm
            · split at hb' <;> simp at hb'
        subst this
        exact ⟨rfl, v2Cond_append d h2⟩
    | undecided u =>
      rw [hpar] at hH
      obtain ⟨hu, _, _⟩ := hH
      subst hu
      by_cases c2 : v2Cond (u ++ d)
      · have : step ok st d = afterFeed { st with parser := .undecided [] } .v2 (V2.feed [] (u ++ d)) := by
          simp [step, hcl, hinfo, hpar, c2]
        rw [this]
        apply rep_afterFeed ok _ .v2 _ _ (by simp [observe, hcl, hinfo, happ])
        · unfold classify; rw [if_pos c2]
        · intro b' hb'
          have : b' = u ++ d := by
            simp only [V2.feed, List.nil_append] at hb'
            split at hb'
            · simp at hb'
            · split at hb'
              · simp at hb'; exact hb'.symm
              · split at hb' <;> simp at hb'
          subst this
          exact ⟨rfl, c2⟩
      · by_cases c1 : v1Cond (u ++ d)
        · have : step ok st d = afterFeed { st with parser := .undecided [] } .v1 (V1.feed ok [] (u ++ d)) := by
            simp [step, hcl, hinfo, hpar, c2, c1]
          rw [this]
          apply rep_afterFeed ok _ .v1 _ _ (by simp [observe, hcl, hinfo, happ])
          · unfold classify; rw [if_neg c2, if_pos c1]
          · intro b' hb'
            have : b' = u ++ d := by
              simp only [V1.feed, List.nil_append] at hb'
              split at hb'
              · split at hb' <;> simp at hb'; exact hb'.symm
              · split at hb'
                · simp at hb'
                · split at hb' <;> simp at hb'
            subst this
            exact ⟨rfl, c2, c1⟩
        · by_cases cm : mayBecomeHeader (u ++ d) = true
          · have : step ok st d = { st with parser := .undecided (u ++ d) } := by
              simp [step, hcl, hinfo, hpar, c2, c1, cm]
            rw [this]
            have hcl' : classify ok (u ++ d) = .pending := by
              unfold classify; rw [if_neg c2, if_neg c1, if_pos cm]
            refine ⟨?_, ?_⟩
            · rw [hcl']; simp [observe, Outcome.obs, hcl, hinfo, happ]
            · intro _; exact ⟨rfl, c2, c1⟩
          · have : step ok st d = { st with closed := true, parser := .undecided [] } := by
              simp [step, hcl, hinfo, hpar, c2, c1, cm]
            rw [this]
            have hcl' : classify ok (u ++ d) = .closed := by
              unfold classify; rw [if_neg c2, if_neg c1, if_neg cm]
            refine ⟨?_, ?_⟩
            · rw [hcl']; simp [observe, Outcome.obs, hinfo, happ]
            · intro hp; rw [hcl'] at hp; cases hp

theorem rep_init (ok : Bool → Bytes → Bool) : Rep ok State.init [] := by
  have hc : classify ok [] = .pending := by
    simp [classify, v2Cond, v1Cond, PROXY, mayBecomeHeader]
  refine ⟨?_, ?_⟩
  · rw [hc]; rfl
  · intro _
    simp [Holds, State.init, v2Cond, v1Cond, PROXY]

theorem rep_foldl (ok : Bool → Bytes → Bool) (segs : List Bytes) (st : State) (s : Bytes)
    (h : Rep ok st s) : Rep ok (segs.foldl (step ok) st) (s ++ segs.flatten) := by
  induction segs generalizing st s with
  | nil => simpa using h
  | cons d rest ih =>
    simp only [List.foldl_cons, List.flatten_cons]
    rw [← List.append_assoc]
    exact ih _ _ (rep_step ok st s d h)

/-- **Segmentation invariance.**  For every list of chunks — any number, any sizes, empty ones
    included — the wrapper ends exactly as the one-shot reading of the concatenated stream says:
    same closed flag, same header addresses, same bytes passed to the application. -/
theorem run_eq_classify (ok : Bool → Bytes → Bool) (segs : List Bytes) :
    observe (run ok segs) = (classify ok segs.flatten).obs := by
  have := rep_foldl ok segs State.init [] (rep_init ok)
  simpa [run] using this.1

/-- corollary: two segmentations of the same stream are indistinguishable -/
theorem seg_independent (ok : Bool → Bytes → Bool) (segs segs' : List Bytes)
    (h : segs.flatten = segs'.flatten) : observe (run ok segs) = observe (run ok segs') := by
  rw [run_eq_classify, run_eq_classify, h]

/-! ### splitting lemmas (both directions) -/

theorem splitOnce_cons (sep b : UInt8) (rest : Bytes) :
    splitOnce sep (b :: rest) =
      if b = sep then some ([], rest)
      else match splitOnce sep rest with
        | some (a, r) => some (b :: a, r)
        | none => none := by
  simp only [splitOnce]
  split <;> rfl

theorem splitOnce_append (sep : UInt8) (a r : Bytes) (h : sep ∉ a) :
    splitOnce sep (a ++ sep :: r) = some (a, r) := by
  induction a with
  | nil => simp [splitOnce_cons]
  | cons b rest ih =>
    have hb : b ≠ sep := by intro hh; exact h (by simp [hh])
    have hr : sep ∉ rest := by intro hh; exact h (by simp [hh])
    rw [List.cons_append, splitOnce_cons, if_neg hb, ih hr]

theorem splitOnce_some (sep : UInt8) (l a r : Bytes) (h : splitOnce sep l = some (a, r)) :
    l = a ++ sep :: r ∧ sep ∉ a := by
  induction l generalizing a with
  | nil => simp [splitOnce] at h
  | cons b rest ih =>
    rw [splitOnce_cons] at h
    by_cases hb : b = sep
    · rw [if_pos hb] at h
      simp at h
      obtain ⟨h1, h2⟩ := h
      subst h1 h2 hb
      simp
    · rw [if_neg hb] at h
      cases hr : splitOnce sep rest with
      | none => simp [hr] at h
      | some p =>
        obtain ⟨a', r'⟩ := p
        simp [hr] at h
        obtain ⟨h1, h2⟩ := h
        subst h1 h2
        obtain ⟨e1, e2⟩ := ih a' hr
        refine ⟨by rw [e1]; rfl, ?_⟩
        intro hh
        simp at hh
        rcases hh with hh | hh
        · exact hb hh.symm
        · exact e2 hh

theorem splitOnce_none_of_not_mem (sep : UInt8) (l : Bytes) (h : sep ∉ l) : splitOnce sep l = none := by
  induction l with
  | nil => rfl
  | cons b rest ih =>
    have hb : b ≠ sep := by intro hh; exact h (by simp [hh])
    have hr : sep ∉ rest := by intro hh; exact h (by simp [hh])
    rw [splitOnce_cons, if_neg hb, ih hr]

theorem splitCRLF_intro (line p : Bytes) (h : splitCRLF line = none) :
    splitCRLF (line ++ 13 :: 10 :: p) = some (line, p) := by
  induction line with
  | nil => simp [splitCRLF_cons]
  | cons b rest ih =>
    rw [splitCRLF_cons] at h
    by_cases hc : b = 13 ∧ rest.head? = some 10
    · rw [if_pos hc] at h; simp at h
    · rw [if_neg hc] at h
      have hr : splitCRLF rest = none := by
        cases hr : splitCRLF rest with
        | none => rfl
        | some p => simp [hr] at h
      have hc' : ¬ (b = 13 ∧ (rest ++ 13 :: 10 :: p).head? = some 10) := by
        intro hh
        cases rest with
        | nil => simp at hh
        | cons x xs => exact hc ⟨hh.1, by simpa using hh.2⟩
      rw [List.cons_append, splitCRLF_cons, if_neg hc', ih hr]

theorem splitCRLF_some (s h r : Bytes) (hs : splitCRLF s = some (h, r)) :
    s = h ++ 13 :: 10 :: r ∧ splitCRLF h = none := by
  induction s generalizing h with
  | nil => simp [splitCRLF] at hs
  | cons b rest ih =>
    rw [splitCRLF_cons] at hs
    by_cases hc : b = 13 ∧ rest.head? = some 10
    · rw [if_pos hc] at hs
      simp at hs
      obtain ⟨h1, h2⟩ := hs
      subst h1 h2
      cases rest with
      | nil => simp at hc
      | cons x xs =>
        simp at hc
        simp [hc.1, hc.2, splitCRLF]
    · rw [if_neg hc] at hs
      cases hr : splitCRLF rest with
      | none => simp [hr] at hs
      | some q =>
        obtain ⟨h', r'⟩ := q
        simp [hr] at hs
        obtain ⟨h1, h2⟩ := hs
        subst h1 h2
        obtain ⟨e1, e2⟩ := ih h' hr
        refine ⟨by rw [e1]; rfl, ?_⟩
        rw [splitCRLF_cons]
        have hc' : ¬ (b = 13 ∧ h'.head? = some 10) := by
          intro hh
          apply hc
          refine ⟨hh.1, ?_⟩
          rw [e1]
          cases h' with
          | nil => simp at hh
          | cons x xs => simpa using hh.2
        rw [if_neg hc', e2]

/-! ### valid headers, declaratively -/

/-- A PROXY protocol header, by what it says. -/
inductive Hdr
  /-- `PROXY UNKNOWN<tail>\r\n` — `tail` is empty or a space followed by anything -/
  | v1Unknown (tail : Bytes)
  /-- `PROXY TCP4|TCP6 <src> <dst> <sport> <dport>\r\n` -/
  | v1Tcp (v6 : Bool) (src dst sp dp : Bytes)
  /-- signature, `0x2<cmd>`, family/protocol byte, 16-bit length of `block`, `block`
      (address block followed by TLVs) -/
  | v2 (cmd : Nat) (fp : UInt8) (block : Bytes)

/-- the v1 line without its CRLF -/
def v1Line : Hdr → Bytes
  | .v1Unknown tail => PROXY ++ 32 :: (UNKNOWN ++ tail)
  | .v1Tcp v6 src dst sp dp =>
    PROXY ++ 32 :: ((if v6 then TCP6 else TCP4) ++ 32 :: (src ++ 32 :: (dst ++ 32 :: (sp ++ 32 :: dp))))
  | .v2 _ _ _ => []

/-- the bytes of a header on the wire -/
def encode : Hdr → Bytes
  | .v2 cmd fp block =>
    PREFIX ++ UInt8.ofNat (32 + cmd) :: fp :: UInt8.ofNat (block.length / 256) ::
      UInt8.ofNat (block.length % 256) :: block
  | h => v1Line h ++ [13, 10]

/-- well-formedness of a header (decidable) -/
def wf (ok : Bool → Bytes → Bool) : Hdr → Prop
  | .v1Unknown tail =>
    (tail = [] ∨ tail.head? = some 32) ∧ splitCRLF (v1Line (.v1Unknown tail)) = none ∧
      (v1Line (.v1Unknown tail)).length + 2 ≤ 107
  | .v1Tcp v6 src dst sp dp =>
    32 ∉ src ∧ 32 ∉ dst ∧ checkAddr ok v6 src = true ∧ checkAddr ok v6 dst = true ∧
      (parsePort sp).isSome ∧ (parsePort dp).isSome ∧
      splitCRLF (v1Line (.v1Tcp v6 src dst sp dp)) = none ∧
      (v1Line (.v1Tcp v6 src dst sp dp)).length + 2 ≤ 107
  | .v2 cmd fp block =>
    cmd ≤ 1 ∧ block.length < 65536 ∧
      (cmd = 0 ∨ (hi fp ≤ 3 ∧ lo fp ≤ 2 ∧ (hi fp = 0 ∨ lo fp = 0 ∨ blockSize (hi fp) ≤ block.length)))

instance (ok : Bool → Bytes → Bool) (h : Hdr) : Decidable (wf ok h) := by
  cases h <;> unfold wf <;> infer_instance

/-- the addresses a header announces (`none` = keep the real endpoints: UNKNOWN, LOCAL, UNSPEC) -/
def meaning : Hdr → Info
  | .v1Unknown _ => none
  | .v1Tcp v6 src dst sp dp => some (Addr.ip false v6 src (decVal sp), Addr.ip false v6 dst (decVal dp))
  | .v2 cmd fp block =>
    if cmd = 0 ∨ hi fp = 0 ∨ lo fp = 0 then none
    else decodeBlock (hi fp) (lo fp) (block.take (blockSize (hi fp)))

theorem parsePort_some {v : Bytes} (h : (parsePort v).isSome) :
    parsePort v = some (decVal v) ∧ 32 ∉ v := by
  unfold parsePort at h ⊢
  by_cases c1 : v = [] ∨ (!v.all isDigit) = true ∨ v.length > 5
  · rw [if_pos c1] at h; simp at h
  · rw [if_neg c1] at h ⊢
    by_cases c2 : v.length > 1 ∧ v.head? = some 48
    · rw [if_pos c2] at h; simp at h
    · rw [if_neg c2] at h ⊢
      by_cases c3 : decVal v > 65535
      · rw [if_pos c3] at h; simp at h
      · rw [if_neg c3]
        refine ⟨rfl, ?_⟩
        intro hm
        have hall : v.all isDigit = true := by
          cases hv : v.all isDigit with
          | true => rfl
          | false => exact absurd (Or.inr (Or.inl (by simp [hv]))) c1
        have := List.all_eq_true.mp hall 32 hm
        exact absurd this (by decide)

theorem parse_v1Unknown (ok : Bool → Bytes → Bool) (tail : Bytes)
    (ht : tail = [] ∨ tail.head? = some 32) :
    V1.parse ok (v1Line (.v1Unknown tail)) = .ok none := by
  unfold V1.parse v1Line
  rw [splitOnce_append 32 PROXY _ (by decide)]
  simp only [ne_eq, not_true_eq_false, if_false]
  have hp : (partitionAt 32 (UNKNOWN ++ tail)).1 = UNKNOWN := by
    rcases ht with ht | ht
    · subst ht
      simp only [List.append_nil, partitionAt]
      rw [splitOnce_none_of_not_mem 32 UNKNOWN (by decide)]
    · cases tail with
      | nil => simp at ht
      | cons x xs =>
        simp at ht
        subst ht
        simp only [partitionAt]
        rw [splitOnce_append 32 UNKNOWN xs (by decide)]
  rw [hp]
  simp [UNKNOWN, TCP4, TCP6]

theorem parse_v1Tcp (ok : Bool → Bytes → Bool) (v6 : Bool) (src dst sp dp : Bytes)
    (h1 : 32 ∉ src) (h2 : 32 ∉ dst) (h3 : checkAddr ok v6 src = true) (h4 : checkAddr ok v6 dst = true)
    (h5 : (parsePort sp).isSome) (h6 : (parsePort dp).isSome) :
    V1.parse ok (v1Line (.v1Tcp v6 src dst sp dp)) =
      .ok (some (Addr.ip false v6 src (decVal sp), Addr.ip false v6 dst (decVal dp))) := by
  obtain ⟨p5, n5⟩ := parsePort_some h5
  obtain ⟨p6, _⟩ := parsePort_some h6
  unfold V1.parse v1Line
  rw [splitOnce_append 32 PROXY _ (by decide)]
  simp only [ne_eq, not_true_eq_false, if_false]
  have hp : partitionAt 32 ((if v6 then TCP6 else TCP4) ++ 32 :: (src ++ 32 :: (dst ++ 32 :: (sp ++ 32 :: dp))))
      = ((if v6 then TCP6 else TCP4), src ++ 32 :: (dst ++ 32 :: (sp ++ 32 :: dp))) := by
    simp only [partitionAt]
    rw [splitOnce_append 32 _ _ (by cases v6 <;> decide)]
  rw [hp]
  simp only [splitOnce_append 32 src _ h1, splitOnce_append 32 dst _ h2, splitOnce_append 32 sp _ n5]
  cases v6 with
  | false =>
    simp only [Bool.false_eq_true, if_false]
    have e : (decide (TCP4 = TCP6)) = false := by decide
    rw [e]
    simp [TCP4, TCP6, UNKNOWN, h3, h4, p5, p6]
  | true =>
    simp only [if_true]
    simp [TCP4, TCP6, UNKNOWN, h3, h4, p5, p6]

theorem v1Cond_line (h : Hdr) (rest : Bytes) (hv : ∀ c f b, h ≠ .v2 c f b) :
    v1Cond (v1Line h ++ rest) := by
  cases h with
  | v1Unknown tail => simp [v1Cond, v1Line, PROXY]
  | v1Tcp v6 src dst sp dp => simp [v1Cond, v1Line, PROXY]
  | v2 c f b => exact absurd rfl (hv c f b)

theorem classify_v1 (ok : Bool → Bytes → Bool) (h : Hdr) (p : Bytes) (i : Info)
    (hv : ∀ c f b, h ≠ .v2 c f b)
    (hcr : splitCRLF (v1Line h) = none) (hlen : (v1Line h).length + 2 ≤ 107)
    (hparse : V1.parse ok (v1Line h) = .ok i) :
    classify ok (v1Line h ++ [13, 10] ++ p) = .accepted i p := by
  have h1 : v1Cond (v1Line h ++ [13, 10] ++ p) := by
    rw [List.append_assoc]; exact v1Cond_line h _ hv
  unfold classify
  rw [if_neg (v1_not_v2 h1), if_pos h1]
  simp only [V1.feed, List.nil_append]
  have : v1Line h ++ [13, 10] ++ p = v1Line h ++ 13 :: 10 :: p := by simp
  rw [this, splitCRLF_intro _ _ hcr]
  simp only
  rw [if_neg (by omega), hparse]
  rfl

theorem v2_shape (pre : Bytes) (a b c e : UInt8) (block p : Bytes) (hl : pre.length = 12) :
    let s := pre ++ a :: b :: c :: e :: (block ++ p)
    s.length = 16 + block.length + p.length ∧ s.take 12 = pre ∧ s.getD 12 0 = a ∧
    be16 (s.drop 14) = c.toNat * 256 + e.toNat ∧
    s.take (block.length + 16) = pre ++ a :: b :: c :: e :: block ∧
    s.drop (block.length + 16) = p := by
  intro s
  refine ⟨?_, ?_, ?_, ?_, ?_, ?_⟩
  · simp [s, hl]; omega
  · exact List.take_left' hl
  · show (pre ++ a :: b :: c :: e :: (block ++ p)).getD 12 0 = a
    rw [List.getD_eq_getElem?_getD, List.getElem?_append_right (by omega)]
    simp [hl]
  · have : s = (pre ++ [a, b]) ++ (c :: e :: (block ++ p)) := by simp [s]
    rw [this, List.drop_left' (by simp [hl])]
    simp [be16]
  · have : s = (pre ++ a :: b :: c :: e :: block) ++ p := by simp [s]
    rw [this, List.take_left' (by simp [hl]; omega)]
  · have : s = (pre ++ a :: b :: c :: e :: block) ++ p := by simp [s]
    rw [this, List.drop_left' (by simp [hl]; omega)]

theorem PREFIX_length : PREFIX.length = 12 := rfl

theorem vc_hi_lo (cmd : Nat) (h : cmd ≤ 1) :
    hi (UInt8.ofNat (32 + cmd)) = 2 ∧ lo (UInt8.ofNat (32 + cmd)) = cmd := by
  have : cmd = 0 ∨ cmd = 1 := by omega
  rcases this with rfl | rfl <;> decide

theorem parse_v2 (cmd : Nat) (fp : UInt8) (block : Bytes) (c e : UInt8)
    (hw : cmd ≤ 1 ∧ block.length < 65536 ∧
      (cmd = 0 ∨ (hi fp ≤ 3 ∧ lo fp ≤ 2 ∧ (hi fp = 0 ∨ lo fp = 0 ∨ blockSize (hi fp) ≤ block.length)))) :
    V2.parse (PREFIX ++ UInt8.ofNat (32 + cmd) :: fp :: c :: e :: block) = .ok (meaning (.v2 cmd fp block)) := by
  obtain ⟨h1, _, h3⟩ := hw
  obtain ⟨vh, vl⟩ := vc_hi_lo cmd h1
  have hlen : ¬ (PREFIX ++ UInt8.ofNat (32 + cmd) :: fp :: c :: e :: block).length < 14 := by
    simp [PREFIX_length]; omega
  have ht : (PREFIX ++ UInt8.ofNat (32 + cmd) :: fp :: c :: e :: block).take 12 = PREFIX :=
    List.take_left' PREFIX_length
  have g12 : (PREFIX ++ UInt8.ofNat (32 + cmd) :: fp :: c :: e :: block).getD 12 0 = UInt8.ofNat (32 + cmd) := by
    rw [List.getD_eq_getElem?_getD, List.getElem?_append_right (by simp [PREFIX_length])]
    simp [PREFIX_length]
  have g13 : (PREFIX ++ UInt8.ofNat (32 + cmd) :: fp :: c :: e :: block).getD 13 0 = fp := by
    rw [List.getD_eq_getElem?_getD, List.getElem?_append_right (by simp [PREFIX_length])]
    simp [PREFIX_length]
  have hd : (PREFIX ++ UInt8.ofNat (32 + cmd) :: fp :: c :: e :: block).drop 16 = block := by
    have : PREFIX ++ UInt8.ofNat (32 + cmd) :: fp :: c :: e :: block
        = (PREFIX ++ [UInt8.ofNat (32 + cmd), fp, c, e]) ++ block := by simp
    rw [this, List.drop_left' (by simp [PREFIX_length])]
  unfold V2.parse meaning
  rw [if_neg hlen]
  simp only [g12, g13, ht, hd, vh, vl, ne_eq, not_true_eq_false, if_false]
  rw [if_neg (show ¬(False ∨ cmd > 1) by simp; omega)]
  by_cases c0 : cmd = 0
  · simp [c0]
  · rw [if_neg c0]
    have h3' := h3.resolve_left c0
    obtain ⟨f1, f2, f3⟩ := h3'
    rw [if_neg (show ¬(hi fp > 3 ∨ lo fp > 2) by omega)]
    by_cases cu : hi fp = 0 ∨ lo fp = 0
    · rw [if_pos cu, if_pos (Or.inr cu)]
    · rw [if_neg cu]
      have cu' : ¬ (cmd = 0 ∨ hi fp = 0 ∨ lo fp = 0) := by
        intro hh; rcases hh with hh | hh
        · exact c0 hh
        · exact cu hh
      rw [if_neg cu']
      have hbs : blockSize (hi fp) ≤ block.length := by
        rcases f3 with hh | hh | hh
        · exact absurd (Or.inl hh) cu
        · exact absurd (Or.inr hh) cu
        · exact hh
      have : (block.take (blockSize (hi fp))).length = blockSize (hi fp) := by
        simp [List.length_take]; omega
      cases hdec : decodeBlock (hi fp) (lo fp) (block.take (blockSize (hi fp))) with
      | some q => rfl
      | none =>
        unfold decodeBlock at hdec
        rw [if_neg (by omega)] at hdec
        split at hdec <;> simp at hdec

theorem classify_v2 (ok : Bool → Bytes → Bool) (cmd : Nat) (fp : UInt8) (block p : Bytes)
    (hw : wf ok (.v2 cmd fp block)) :
    classify ok (encode (.v2 cmd fp block) ++ p) = .accepted (meaning (.v2 cmd fp block)) p := by
  have hw' := hw
  unfold wf at hw'
  obtain ⟨h1, h2, _⟩ := hw'
  obtain ⟨vh, _⟩ := vc_hi_lo cmd h1
  have hs : encode (.v2 cmd fp block) ++ p =
      PREFIX ++ UInt8.ofNat (32 + cmd) :: fp :: UInt8.ofNat (block.length / 256) ::
        UInt8.ofNat (block.length % 256) :: (block ++ p) := by simp [encode]
  obtain ⟨s1, s2, s3, s4, s5, s6⟩ := v2_shape PREFIX (UInt8.ofNat (32 + cmd)) fp
    (UInt8.ofNat (block.length / 256)) (UInt8.ofNat (block.length % 256)) block p PREFIX_length
  have hbe : (UInt8.ofNat (block.length / 256)).toNat * 256 + (UInt8.ofNat (block.length % 256)).toNat
      = block.length := by
    simp [UInt8.toNat_ofNat']
    omega
  rw [hbe] at s4
  have c2 : v2Cond (encode (.v2 cmd fp block) ++ p) := by
    rw [hs]
    exact ⟨by omega, s2, by rw [s3]; exact vh⟩
  unfold classify
  rw [if_pos c2, hs]
  simp only [V2.feed, List.nil_append]
  rw [if_neg (by omega), s4, if_neg (by omega), s5, s6, parse_v2 cmd fp block _ _ hw]
  rfl

/-! ### the property -/

/-- every well-formed header followed by any payload is read, in one piece, as accepted with
    exactly the header's addresses and exactly the payload -/
theorem classify_encode (ok : Bool → Bytes → Bool) (h : Hdr) (p : Bytes) (hw : wf ok h) :
    classify ok (encode h ++ p) = .accepted (meaning h) p := by
  cases h with
  | v1Unknown tail =>
    unfold wf at hw
    obtain ⟨ht, hcr, hlen⟩ := hw
    have := classify_v1 ok (.v1Unknown tail) p none (by intro c f b hh; cases hh) hcr hlen
      (parse_v1Unknown ok tail ht)
    simpa [encode, meaning] using this
  | v1Tcp v6 src dst sp dp =>
    unfold wf at hw
    obtain ⟨h1, h2, h3, h4, h5, h6, hcr, hlen⟩ := hw
    have := classify_v1 ok (.v1Tcp v6 src dst sp dp) p _ (by intro c f b hh; cases hh) hcr hlen
      (parse_v1Tcp ok v6 src dst sp dp h1 h2 h3 h4 h5 h6)
    simpa [encode, meaning] using this
  | v2 cmd fp block => exact classify_v2 ok cmd fp block p hw

/-- **C47, first sentence.**  For every well-formed PROXY header `h` (v1 TCP4/TCP6/UNKNOWN; v2
    LOCAL/PROXY with INET/INET6/UNIX/UNSPEC, TLVs allowed), every payload and EVERY segmentation
    `segs` of `encode h ++ payload`: the connection stays open, the wrapped protocol's
    `getPeer()`/`getHost()` are the header's source/destination (or the real endpoints when the
    header carries none) and the application receives exactly `payload`. -/
theorem proxy_seg_invariant (ok : Bool → Bytes → Bool) (h : Hdr) (payload : Bytes)
    (segs : List Bytes) (hw : wf ok h) (hs : segs.flatten = encode h ++ payload) :
    (run ok segs).closed = false ∧ (run ok segs).info = some (meaning h) ∧
    (run ok segs).peer = (meaning h).map Prod.fst ∧ (run ok segs).host = (meaning h).map Prod.snd ∧
    (run ok segs).app = payload := by
  have := run_eq_classify ok segs
  rw [hs, classify_encode ok h payload hw] at this
  simp only [observe, Outcome.obs, Prod.mk.injEq] at this
  obtain ⟨h1, h2, h3⟩ := this
  refine ⟨h1, h2, ?_, ?_, h3⟩
  · unfold State.peer; rw [h2]; cases meaning h <;> rfl
  · unfold State.host; rw [h2]; cases meaning h <;> rfl

/-! non-vacuity: concrete headers are well-formed, and the former witness now works -/

/-- `PROXY TCP4 1.1.1.1 2.2.2.2 8080 8888` -/
def exV1 : Hdr := .v1Tcp false [49, 46, 49, 46, 49, 46, 49] [50, 46, 50, 46, 50, 46, 50] [56, 48, 56, 48] [56, 56, 56, 56]
/-- v2 PROXY, INET/STREAM, 127.0.0.1:8080 → 127.0.0.2:8888, one TLV -/
def exV2 : Hdr := .v2 1 0x11 [127, 0, 0, 1, 127, 0, 0, 2, 31, 144, 34, 184, 4, 0, 1, 170]

example : wf inetOk exV1 := by decide
example : wf inetOk exV2 := by decide
example : wf inetOk (.v1Unknown []) := by decide
/-- the witness of the defect (`b"PROX"` then the rest) on the repaired model -/
example : observe (run inetOk [[80, 82, 79, 88], [89, 32, 84, 67, 80, 52, 32, 49, 46, 49, 46, 49, 46, 49, 32, 50, 46, 50, 46, 50, 46, 50, 32, 56, 48, 56, 48, 32, 56, 56, 56, 56, 13, 10, 71, 69, 84, 32, 47]]) =
    (false, some (some (Addr.ip false false [49, 46, 49, 46, 49, 46, 49] 8080, Addr.ip false false [50, 46, 50, 46, 50, 46, 50] 8888)), [71, 69, 84, 32, 47]) := by
  decide +kernel
example : (run inetOk [[13, 10, 13, 10, 0, 13, 10, 81, 85, 73], [84, 10, 33, 17, 0, 16, 127, 0, 0, 1, 127, 0, 0, 2, 31, 144, 34, 184, 4, 0, 1, 170, 104, 105]]).peer = some (Addr.ip false false [49, 50, 55, 46, 48, 46, 48, 46, 49] 8080) := by
  decide +kernel

/-! ### soundness: whatever is accepted is a well-formed header -/

/-- the address/port fields part of `V1Parser.parse` -/
def fields (ok : Bool → Bytes → Bool) (v6 : Bool) (rest : Bytes) : Except Err Info :=
  match splitOnce 32 rest with
  | none => .error .missing
  | some (srcA, rest) =>
  match splitOnce 32 rest with
  | none => .error .missing
  | some (dstA, rest) =>
  match splitOnce 32 rest with
  | none => .error .missing
  | some (srcP, dstP) =>
    if checkAddr ok v6 srcA ∧ checkAddr ok v6 dstA then
      match parsePort srcP, parsePort dstP with
      | some sp, some dp => .ok (some (Addr.ip false v6 srcA sp, Addr.ip false v6 dstA dp))
      | _, _ => .error .invalid
    else .error .invalid

theorem parse_eq_fields (ok : Bool → Bytes → Bool) (line : Bytes) :
    V1.parse ok line =
      match splitOnce 32 line with
      | none => .error .invalid
      | some (proxyStr, rest) =>
        if proxyStr ≠ PROXY then .error .invalid else
        if (partitionAt 32 rest).1 ≠ TCP4 ∧ (partitionAt 32 rest).1 ≠ TCP6 ∧ (partitionAt 32 rest).1 ≠ UNKNOWN
          then .error .netproto else
        if (partitionAt 32 rest).1 = UNKNOWN then .ok none else
        fields ok (decide ((partitionAt 32 rest).1 = TCP6)) (partitionAt 32 rest).2 := by
  rfl

theorem fields_sound (ok : Bool → Bytes → Bool) (v6 : Bool) (rest : Bytes) (i : Info)
    (h : fields ok v6 rest = .ok i) :
    ∃ src dst sp dp, rest = src ++ 32 :: (dst ++ 32 :: (sp ++ 32 :: dp)) ∧ 32 ∉ src ∧ 32 ∉ dst ∧
      checkAddr ok v6 src = true ∧ checkAddr ok v6 dst = true ∧
      (parsePort sp).isSome ∧ (parsePort dp).isSome ∧
      i = some (Addr.ip false v6 src (decVal sp), Addr.ip false v6 dst (decVal dp)) := by
  unfold fields at h
  cases h1 : splitOnce 32 rest with
  | none => simp [h1] at h
  | some q1 =>
    obtain ⟨src, r1⟩ := q1
    simp only [h1] at h
    cases h2 : splitOnce 32 r1 with
    | none => simp [h2] at h
    | some q2 =>
      obtain ⟨dst, r2⟩ := q2
      simp only [h2] at h
      cases h3 : splitOnce 32 r2 with
      | none => simp [h3] at h
      | some q3 =>
        obtain ⟨sp, dp⟩ := q3
        simp only [h3] at h
        obtain ⟨e1, n1⟩ := splitOnce_some 32 rest src r1 h1
        obtain ⟨e2, n2⟩ := splitOnce_some 32 r1 dst r2 h2
        obtain ⟨e3, _⟩ := splitOnce_some 32 r2 sp dp h3
        by_cases hc : checkAddr ok v6 src = true ∧ checkAddr ok v6 dst = true
        · rw [if_pos hc] at h
          cases hp1 : parsePort sp with
          | none => simp [hp1] at h
          | some a =>
            cases hp2 : parsePort dp with
            | none => simp [hp1, hp2] at h
            | some b =>
              simp only [hp1, hp2, Except.ok.injEq] at h
              have s1 : (parsePort sp).isSome := by simp [hp1]
              have s2 : (parsePort dp).isSome := by simp [hp2]
              have v1 := (parsePort_some s1).1
              have v2 := (parsePort_some s2).1
              rw [hp1] at v1; rw [hp2] at v2
              simp only [Option.some.injEq] at v1 v2
              refine ⟨src, dst, sp, dp, ?_, n1, n2, hc.1, hc.2, s1, s2, ?_⟩
              · rw [e1, e2, e3]
              · rw [← h, v1, v2]
        · rw [if_neg hc] at h; simp at h

theorem parse_v1_sound (ok : Bool → Bytes → Bool) (line : Bytes) (i : Info)
    (hp : V1.parse ok line = .ok i) (hcr : splitCRLF line = none) (hlen : line.length + 2 ≤ 107) :
    ∃ h, wf ok h ∧ encode h = line ++ [13, 10] ∧ meaning h = i := by
  rw [parse_eq_fields] at hp
  cases h1 : splitOnce 32 line with
  | none => simp [h1] at hp
  | some q1 =>
    obtain ⟨a, r⟩ := q1
    simp only [h1] at hp
    obtain ⟨e1, _⟩ := splitOnce_some 32 line a r h1
    by_cases ha : a = PROXY
    · subst ha
      rw [if_neg (by simp)] at hp
      by_cases hn : (partitionAt 32 r).1 ≠ TCP4 ∧ (partitionAt 32 r).1 ≠ TCP6 ∧ (partitionAt 32 r).1 ≠ UNKNOWN
      · rw [if_pos hn] at hp; simp at hp
      · rw [if_neg hn] at hp
        by_cases hu : (partitionAt 32 r).1 = UNKNOWN
        · rw [if_pos hu] at hp
          simp only [Except.ok.injEq] at hp
          -- UNKNOWN: the tail is empty or starts with the separating space
          have : ∃ tail, r = UNKNOWN ++ tail ∧ (tail = [] ∨ tail.head? = some 32) := by
            unfold partitionAt at hu
            cases h2 : splitOnce 32 r with
            | none =>
              rw [h2] at hu
              exact ⟨[], by simpa using hu, Or.inl rfl⟩
            | some q2 =>
              obtain ⟨pr, rest⟩ := q2
              rw [h2] at hu
              simp only at hu
              obtain ⟨e2, _⟩ := splitOnce_some 32 r pr rest h2
              exact ⟨32 :: rest, by rw [e2, hu], Or.inr rfl⟩
          obtain ⟨tail, et, ht⟩ := this
          have hl : v1Line (.v1Unknown tail) = line := by rw [e1, et]; rfl
          refine ⟨.v1Unknown tail, ?_, ?_, hp⟩
          · simp only [wf]; rw [hl]; exact ⟨ht, hcr, hlen⟩
          · simp [encode, hl]
        · rw [if_neg hu] at hp
          have hr : r = (partitionAt 32 r).1 ++ 32 :: (partitionAt 32 r).2 := by
            unfold partitionAt
            cases h2 : splitOnce 32 r with
            | none =>
              -- no space after the protocol: the fields part would have failed
              exfalso
              simp [partitionAt, h2, fields, splitOnce] at hp
            | some q2 =>
              obtain ⟨pr, rest⟩ := q2
              exact (splitOnce_some 32 r pr rest h2).1
          generalize (partitionAt 32 r).1 = pr at *
          generalize (partitionAt 32 r).2 = rest at *
          obtain ⟨src, dst, sp, dp, er, n1, n2, c1, c2, s1, s2, ei⟩ := fields_sound ok _ _ i hp
          -- the protocol token is TCP4 or TCP6
          have hpr : pr = TCP4 ∨ pr = TCP6 := by
            by_cases h4 : pr = TCP4
            · exact Or.inl h4
            · by_cases h6 : pr = TCP6
              · exact Or.inr h6
              · exact absurd ⟨h4, h6, hu⟩ hn
          have hv6 : pr = if decide (pr = TCP6) then TCP6 else TCP4 := by
            rcases hpr with h4 | h6
            · rw [h4]; decide
            · rw [h6]; decide
          have hl : v1Line (.v1Tcp (decide (pr = TCP6)) src dst sp dp) = line := by
            rw [e1, hr, er]
            conv => rhs; rw [hv6]
            simp [v1Line]
          refine ⟨.v1Tcp (decide (pr = TCP6)) src dst sp dp, ?_, ?_, ?_⟩
          · simp only [wf]; rw [hl]; exact ⟨n1, n2, c1, c2, s1, s2, hcr, hlen⟩
          · simp [encode, hl]
          · rw [ei]; rfl
    · rw [if_pos ha] at hp; simp at hp

theorem ofNat_toNat' (x : UInt8) : UInt8.ofNat x.toNat = x := by simp

theorem vc_of_hi (a : UInt8) (h : hi a = 2) : UInt8.ofNat (32 + lo a) = a := by
  have : 32 + lo a = a.toNat := by unfold hi at h; unfold lo; omega
  rw [this]; simp

theorem v2_decompose (s : Bytes) (h : v2Cond s) :
    ∃ a fp c e rest, s = PREFIX ++ a :: fp :: c :: e :: rest := by
  obtain ⟨h1, h2, _⟩ := h
  have hs : s = PREFIX ++ s.drop 12 := by
    conv => lhs; rw [← List.take_append_drop 12 s, h2]
  have hl : (s.drop 12).length ≥ 4 := by simp; omega
  match hd : s.drop 12, hl with
  | a :: fp :: c :: e :: rest, _ => exact ⟨a, fp, c, e, rest, by rw [hs, hd]⟩

theorem parse_v2_sound (a fp c e : UInt8) (block : Bytes) (i : Info)
    (hp : V2.parse (PREFIX ++ a :: fp :: c :: e :: block) = .ok i) :
    hi a = 2 ∧ lo a ≤ 1 ∧
      (lo a = 0 ∨ (hi fp ≤ 3 ∧ lo fp ≤ 2 ∧ (hi fp = 0 ∨ lo fp = 0 ∨ blockSize (hi fp) ≤ block.length))) ∧
      meaning (.v2 (lo a) fp block) = i := by
  have hlen : ¬ (PREFIX ++ a :: fp :: c :: e :: block).length < 14 := by
    simp [PREFIX_length]; omega
  have ht : (PREFIX ++ a :: fp :: c :: e :: block).take 12 = PREFIX := List.take_left' PREFIX_length
  have g12 : (PREFIX ++ a :: fp :: c :: e :: block).getD 12 0 = a := by
    rw [List.getD_eq_getElem?_getD, List.getElem?_append_right (by simp [PREFIX_length])]
    simp [PREFIX_length]
  have g13 : (PREFIX ++ a :: fp :: c :: e :: block).getD 13 0 = fp := by
    rw [List.getD_eq_getElem?_getD, List.getElem?_append_right (by simp [PREFIX_length])]
    simp [PREFIX_length]
  have hd : (PREFIX ++ a :: fp :: c :: e :: block).drop 16 = block := by
    have : PREFIX ++ a :: fp :: c :: e :: block = (PREFIX ++ [a, fp, c, e]) ++ block := by simp
    rw [this, List.drop_left' (by simp [PREFIX_length])]
  unfold V2.parse at hp
  rw [if_neg hlen] at hp
  simp only [g12, g13, ht, hd, ne_eq, not_true_eq_false, if_false] at hp
  by_cases hv : ¬hi a = 2 ∨ lo a > 1
  · rw [if_pos hv] at hp; simp at hp
  · rw [if_neg hv] at hp
    have hv1 : hi a = 2 := by omega
    have hv2 : lo a ≤ 1 := by omega
    simp only [meaning]
    by_cases c0 : lo a = 0
    · rw [if_pos c0] at hp
      simp only [Except.ok.injEq] at hp
      exact ⟨hv1, hv2, Or.inl c0, by rw [if_pos (Or.inl c0)]; exact hp⟩
    · rw [if_neg c0] at hp
      by_cases hf : hi fp > 3 ∨ lo fp > 2
      · rw [if_pos hf] at hp; simp at hp
      · rw [if_neg hf] at hp
        by_cases cu : hi fp = 0 ∨ lo fp = 0
        · rw [if_pos cu] at hp
          simp only [Except.ok.injEq] at hp
          refine ⟨hv1, hv2, Or.inr ⟨by omega, by omega, ?_⟩, by rw [if_pos (Or.inr cu)]; exact hp⟩
          rcases cu with cu | cu
          · exact Or.inl cu
          · exact Or.inr (Or.inl cu)
        · rw [if_neg cu] at hp
          have cu' : ¬ (lo a = 0 ∨ hi fp = 0 ∨ lo fp = 0) := by
            intro hh; rcases hh with hh | hh
            · exact c0 hh
            · exact cu hh
          rw [if_neg cu']
          cases hdec : decodeBlock (hi fp) (lo fp) (block.take (blockSize (hi fp))) with
          | none => simp [hdec] at hp
          | some q =>
            simp only [hdec, Except.ok.injEq] at hp
            refine ⟨hv1, hv2, Or.inr ⟨by omega, by omega, Or.inr (Or.inr ?_)⟩, hp⟩
            unfold decodeBlock at hdec
            by_cases hbl : (block.take (blockSize (hi fp))).length ≠ blockSize (hi fp)
            · rw [if_pos hbl] at hdec; simp at hdec
            · simp only [List.length_take, ne_eq, Decidable.not_not] at hbl
              omega

theorem classify_accepted_sound (ok : Bool → Bytes → Bool) (s : Bytes) (i : Info) (p : Bytes)
    (h : classify ok s = .accepted i p) :
    ∃ hdr, wf ok hdr ∧ s = encode hdr ++ p ∧ meaning hdr = i := by
  unfold classify at h
  by_cases c2 : v2Cond s
  · rw [if_pos c2] at h
    obtain ⟨a, fp, c, e, rest, hs⟩ := v2_decompose s c2
    simp only [V2.feed, List.nil_append] at h
    have hl16 : ¬ s.length < 16 := by have := c2.1; omega
    rw [if_neg hl16] at h
    -- the declared length
    have hbe : be16 (s.drop 14) = c.toNat * 256 + e.toNat := by
      have := (v2_shape PREFIX a fp c e rest [] PREFIX_length).2.2.2.1
      simpa [hs] using this
    rw [hbe] at h
    by_cases hsz : s.length < c.toNat * 256 + e.toNat + 16
    · rw [if_pos hsz] at h; simp [ofFeed] at h
    · rw [if_neg hsz] at h
      have hlen : s.length = 16 + rest.length := by rw [hs]; simp [PREFIX_length]; omega
      have hL : c.toNat * 256 + e.toNat ≤ rest.length := by omega
      have hrest : rest = rest.take (c.toNat * 256 + e.toNat) ++ rest.drop (c.toNat * 256 + e.toNat) :=
        (List.take_append_drop _ _).symm
      have hbl : (rest.take (c.toNat * 256 + e.toNat)).length = c.toNat * 256 + e.toNat := by
        simp [List.length_take]; omega
      obtain ⟨_, _, _, _, s5, s6⟩ := v2_shape PREFIX a fp c e (rest.take (c.toNat * 256 + e.toNat))
        (rest.drop (c.toNat * 256 + e.toNat)) PREFIX_length
      rw [← hrest, ← hs, hbl] at s5 s6
      rw [s5, s6] at h
      cases hp : V2.parse (PREFIX ++ a :: fp :: c :: e :: rest.take (c.toNat * 256 + e.toNat)) with
      | error err => simp [hp, ofFeed] at h
      | ok i' =>
        simp only [hp, ofFeed, Outcome.accepted.injEq] at h
        obtain ⟨hi', hp'⟩ := h
        obtain ⟨w1, w2, w3, w4⟩ := parse_v2_sound a fp c e _ i' hp
        have ec : c.toNat < 256 := c.toNat_lt
        have ee : e.toNat < 256 := e.toNat_lt
        refine ⟨.v2 (lo a) fp (rest.take (c.toNat * 256 + e.toNat)), ?_, ?_, ?_⟩
        · simp only [wf]
          exact ⟨w2, by rw [hbl]; omega, w3⟩
        · simp only [encode]
          rw [hbl, vc_of_hi a w1]
          have d1 : (c.toNat * 256 + e.toNat) / 256 = c.toNat := by omega
          have d2 : (c.toNat * 256 + e.toNat) % 256 = e.toNat := by omega
          rw [d1, d2, ofNat_toNat', ofNat_toNat', ← hp']
          conv => lhs; rw [hs, hrest]
          simp
        · rw [w4, hi']
  · rw [if_neg c2] at h
    by_cases c1 : v1Cond s
    · rw [if_pos c1] at h
      simp only [V1.feed, List.nil_append] at h
      cases hsp : splitCRLF s with
      | none =>
        rw [hsp] at h
        by_cases hl : s.length > 107 <;> simp [hl, ofFeed] at h
      | some q =>
        obtain ⟨line, rem⟩ := q
        rw [hsp] at h
        simp only at h
        by_cases hl : line.length + 2 > 107
        · rw [if_pos hl] at h; simp [ofFeed] at h
        · rw [if_neg hl] at h
          cases hp : V1.parse ok line with
          | error err => simp [hp, ofFeed] at h
          | ok i' =>
            simp only [hp, ofFeed, Outcome.accepted.injEq] at h
            obtain ⟨hi', hp'⟩ := h
            obtain ⟨es, hcr⟩ := splitCRLF_some s line rem hsp
            obtain ⟨hdr, w, en, m⟩ := parse_v1_sound ok line i' hp hcr (by omega)
            refine ⟨hdr, w, ?_, by rw [m, hi']⟩
            rw [en, es, ← hp']; simp
    · rw [if_neg c1] at h
      by_cases hm : mayBecomeHeader s = true <;> simp [hm] at h

/-- exact characterisation of what the one-shot reading accepts -/
theorem classify_accepted_iff (ok : Bool → Bytes → Bool) (s : Bytes) (i : Info) (p : Bytes) :
    classify ok s = .accepted i p ↔ ∃ hdr, wf ok hdr ∧ s = encode hdr ++ p ∧ meaning hdr = i := by
  constructor
  · exact classify_accepted_sound ok s i p
  · rintro ⟨hdr, w, rfl, rfl⟩
    exact classify_encode ok hdr p w

/-- The header region of `s` is not complete yet: `s` is a proper prefix of `b"PROXY"`, or a v1
    line of at most 107 bytes whose CRLF has not arrived, or fewer than the 16 fixed bytes of a
    v2 header that match so far, or a v2 header whose declared length has not arrived. -/
def Incomplete (s : Bytes) : Prop :=
  (s.length < 5 ∧ PROXY.take s.length = s) ∨
  (s.take 5 = PROXY ∧ splitCRLF s = none ∧ s.length ≤ 107) ∨
  (s.length < 16 ∧ s.take 12 = PREFIX.take s.length ∧ (s.length < 13 ∨ hi (s.getD 12 0) = 2)) ∨
  (16 ≤ s.length ∧ s.take 12 = PREFIX ∧ hi (s.getD 12 0) = 2 ∧ s.length < be16 (s.drop 14) + 16)

instance (s : Bytes) : Decidable (Incomplete s) := by unfold Incomplete; infer_instance

theorem pending_incomplete (ok : Bool → Bytes → Bool) (s : Bytes) (h : classify ok s = .pending) :
    Incomplete s := by
  unfold classify at h
  by_cases c2 : v2Cond s
  · rw [if_pos c2] at h
    right; right; right
    refine ⟨c2.1, c2.2.1, c2.2.2, ?_⟩
    simp only [V2.feed, List.nil_append] at h
    rw [if_neg (by have := c2.1; omega)] at h
    by_cases hsz : s.length < be16 (s.drop 14) + 16
    · exact hsz
    · rw [if_neg hsz] at h
      cases hp : V2.parse (s.take (be16 (s.drop 14) + 16)) <;> simp [hp, ofFeed] at h
  · rw [if_neg c2] at h
    by_cases c1 : v1Cond s
    · rw [if_pos c1] at h
      right; left
      simp only [V1.feed, List.nil_append] at h
      cases hsp : splitCRLF s with
      | none =>
        rw [hsp] at h
        refine ⟨c1, rfl, ?_⟩
        by_cases hl : s.length > 107
        · simp [hl, ofFeed] at h
        · omega
      | some q =>
        obtain ⟨line, rem⟩ := q
        rw [hsp] at h
        simp only at h
        by_cases hl : line.length + 2 > 107
        · rw [if_pos hl] at h; simp [ofFeed] at h
        · rw [if_neg hl] at h
          cases hp : V1.parse ok line <;> simp [hp, ofFeed] at h
    · rw [if_neg c1] at h
      by_cases hm : mayBecomeHeader s = true
      · unfold mayBecomeHeader at hm
        by_cases m1 : s.length < 5 ∧ PROXY.take s.length = s
        · exact Or.inl m1
        · rw [if_neg m1] at hm
          by_cases m2 : s.length < 16 ∧ s.take 12 = PREFIX.take s.length
          · rw [if_pos m2] at hm
            right; right; left
            exact ⟨m2.1, m2.2, by simpa using hm⟩
          · rw [if_neg m2] at hm; simp at hm
      · simp [hm] at h

/-- **C47, second sentence.**  For every stream `s` that does NOT begin with a well-formed header
    (there are no `hdr`, `p` with `wf hdr` and `s = encode hdr ++ p`) and EVERY segmentation of it:
    nothing is passed to the application, the wrapped protocol never sees header addresses, and
    the connection is closed — unless the header region of `s` is still incomplete (then it waits). -/
theorem invalid_header_closes_and_passes_nothing (ok : Bool → Bytes → Bool) (s : Bytes)
    (segs : List Bytes) (hs : segs.flatten = s)
    (hinv : ¬ ∃ hdr p, wf ok hdr ∧ s = encode hdr ++ p) :
    (run ok segs).app = [] ∧ (run ok segs).info = none ∧
    (run ok segs).peer = none ∧ (run ok segs).host = none ∧
    ((run ok segs).closed = true ∨ Incomplete s) := by
  have := run_eq_classify ok segs
  rw [hs] at this
  cases hc : classify ok s with
  | accepted i p =>
    obtain ⟨hdr, w, e, _⟩ := classify_accepted_sound ok s i p hc
    exact absurd ⟨hdr, p, w, e⟩ hinv
  | closed =>
    rw [hc] at this
    simp only [observe, Outcome.obs, Prod.mk.injEq] at this
    obtain ⟨h1, h2, h3⟩ := this
    exact ⟨h3, h2, by simp [State.peer, h2], by simp [State.host, h2], Or.inl h1⟩
  | pending =>
    rw [hc] at this
    simp only [observe, Outcome.obs, Prod.mk.injEq] at this
    obtain ⟨_, h2, h3⟩ := this
    exact ⟨h3, h2, by simp [State.peer, h2], by simp [State.host, h2], Or.inr (pending_incomplete ok s hc)⟩

/-- the application receives bytes only from a stream that begins with a well-formed header, and
    then exactly the bytes after that header (both sentences in one statement) -/
theorem app_bytes_only_after_valid_header (ok : Bool → Bytes → Bool) (segs : List Bytes)
    (hne : (run ok segs).app ≠ [] ∨ (run ok segs).info ≠ none) :
    ∃ hdr, wf ok hdr ∧ segs.flatten = encode hdr ++ (run ok segs).app ∧
      (run ok segs).info = some (meaning hdr) ∧ (run ok segs).closed = false := by
  have := run_eq_classify ok segs
  cases hc : classify ok segs.flatten with
  | accepted i p =>
    rw [hc] at this
    simp only [observe, Outcome.obs, Prod.mk.injEq] at this
    obtain ⟨h1, h2, h3⟩ := this
    obtain ⟨hdr, w, e, m⟩ := classify_accepted_sound ok _ i p hc
    exact ⟨hdr, w, by rw [h3]; exact e, by rw [h2, m], h1⟩
  | closed =>
    rw [hc] at this
    simp only [observe, Outcome.obs, Prod.mk.injEq] at this
    rcases hne with h | h
    · exact absurd this.2.2 h
    · exact absurd this.2.1 h
  | pending =>
    rw [hc] at this
    simp only [observe, Outcome.obs, Prod.mk.injEq] at this
    rcases hne with h | h
    · exact absurd this.2.2 h
    · exact absurd this.2.1 h

/-! non-vacuity of the second sentence: concrete invalid streams, split awkwardly -/

/-- `PROXY TCP4 1.1.1.1 2.2.2.2 99999 80\r\nDATA` in chunks `PROX` / rest: closed, nothing passed -/
example : observe (run inetOk [[80, 82, 79, 88], [89, 32, 84, 67, 80, 52, 32, 49, 46, 49, 46, 49, 46, 49, 32, 50, 46, 50, 46, 50, 46, 50, 32, 57, 57, 57, 57, 57, 32, 56, 48, 13, 10, 68, 65, 84, 65]]) = (true, none, []) := by decide +kernel
/-- `GET / HTTP/1.1\r\n` byte by byte is closed at the first byte -/
example : observe (run inetOk [[71], [69], [84]]) = (true, none, []) := by decide +kernel
/-- an over-long v1 line is rejected however it is cut (here: one delivery of 160 bytes + CRLF) -/
example : (run inetOk [[80, 82, 79, 88, 89, 32, 85, 78, 75, 78, 79, 87, 78, 32] ++ List.replicate 146 120 ++ [13, 10, 68]]).closed = true := by decide +kernel
example : Incomplete [80, 82, 79, 88, 89, 32, 84, 67, 80, 52, 32, 49, 46, 49] := by decide
example : ¬ Incomplete [71, 69, 84, 32, 47] := by decide

theorem incomplete_pending (ok : Bool → Bytes → Bool) (s : Bytes) (h : Incomplete s) :
    classify ok s = .pending := by
  rcases h with ⟨hl, hp⟩ | ⟨h1, hcr, hl⟩ | ⟨hl, ht, hv⟩ | ⟨hl, ht, hv, hsz⟩
  · have n2 : ¬ v2Cond s := fun hh => by have := hh.1; omega
    have n1 : ¬ v1Cond s := fun hh => by have := v1Cond_length hh; omega
    have hm : mayBecomeHeader s = true := by
      unfold mayBecomeHeader
      rw [if_pos ⟨hl, hp⟩]
    unfold classify
    rw [if_neg n2, if_neg n1, if_pos hm]
  · have c1 : v1Cond s := h1
    unfold classify
    rw [if_neg (v1_not_v2 c1), if_pos c1]
    simp only [V1.feed, List.nil_append, hcr]
    rw [if_neg (by omega)]; rfl
  · have n2 : ¬ v2Cond s := fun hh => by have := hh.1; omega
    have n1 : ¬ v1Cond s := by
      intro hh
      unfold v1Cond at hh
      cases s with
      | nil => simp [PROXY] at hh
      | cons b t =>
        simp [PROXY] at hh
        simp [PREFIX] at ht
        rw [hh.1] at ht
        exact absurd ht.1 (by decide)
    have hm : mayBecomeHeader s = true := by
      unfold mayBecomeHeader
      by_cases m1 : s.length < 5 ∧ PROXY.take s.length = s
      · rw [if_pos m1]
      · rw [if_neg m1, if_pos ⟨hl, ht⟩]
        exact decide_eq_true hv
    unfold classify
    rw [if_neg n2, if_neg n1, if_pos hm]
  · have c2 : v2Cond s := ⟨hl, ht, hv⟩
    unfold classify
    rw [if_pos c2]
    simp only [V2.feed, List.nil_append]
    rw [if_neg (by omega), if_pos hsz]; rfl

/-- complement of the second sentence: while the header region is incomplete the connection
    is kept open and waiting (it is never closed prematurely), whatever the segmentation -/
theorem incomplete_header_waits (ok : Bool → Bytes → Bool) (s : Bytes) (segs : List Bytes)
    (hs : segs.flatten = s) (h : Incomplete s) :
    (run ok segs).closed = false ∧ (run ok segs).info = none ∧ (run ok segs).app = [] := by
  have := run_eq_classify ok segs
  rw [hs, incomplete_pending ok s h] at this
  simpa [observe, Outcome.obs] using this

/-! ### several connections sharing one factory: what the others receive does not matter -/

theorem foldl_stepAt (ok : Bool → Bytes → Bool) (evs : List (Nat × Bytes)) (f : Nat → State) (i : Nat) :
    (evs.foldl (stepAt ok) f) i = (chunksOf i evs).foldl (step ok) (f i) := by
  induction evs generalizing f with
  | nil => rfl
  | cons e es ih =>
    simp only [List.foldl_cons]
    rw [ih]
    by_cases h : e.1 = i
    · simp [chunksOf, h, stepAt]
    · have h' : ¬ i = e.1 := fun hh => h hh.symm
      simp [chunksOf, h, h', stepAt]

/-- **Independence of connections.**  In every schedule of `dataReceived` events over any number of
    connections of one factory — sequential or arbitrarily interleaved — connection `i` ends exactly as
    if its own chunks had been the only traffic. -/
theorem interleaving_independent (ok : Bool → Bytes → Bool) (evs : List (Nat × Bytes)) (i : Nat) :
    runSched ok evs i = run ok (chunksOf i evs) := by
  unfold runSched run
  exact foldl_stepAt ok evs _ i

/-- the first sentence of C47 for a connection inside any schedule: whatever else the factory is
    serving and however the events interleave, a connection whose own bytes are `encode h ++ payload`
    (any segmentation) gets the header's addresses and exactly `payload` -/
theorem proxy_seg_invariant_any_schedule (ok : Bool → Bytes → Bool) (h : Hdr) (payload : Bytes)
    (evs : List (Nat × Bytes)) (i : Nat) (hw : wf ok h)
    (hs : (chunksOf i evs).flatten = encode h ++ payload) :
    (runSched ok evs i).closed = false ∧ (runSched ok evs i).info = some (meaning h) ∧
    (runSched ok evs i).peer = (meaning h).map Prod.fst ∧ (runSched ok evs i).host = (meaning h).map Prod.snd ∧
    (runSched ok evs i).app = payload := by
  rw [interleaving_independent]
  exact proxy_seg_invariant ok h payload _ hw hs

/-- segmentation invariance inside any schedule -/
theorem runSched_eq_classify (ok : Bool → Bytes → Bool) (evs : List (Nat × Bytes)) (i : Nat) :
    observe (runSched ok evs i) = (classify ok (chunksOf i evs).flatten).obs := by
  rw [interleaving_independent]
  exact run_eq_classify ok _

/-- non-vacuity: two connections, `PROX`/`Y UNKNOWN\r\nhi` interleaved with a junk connection -/
example : observe (runSched inetOk [(0, [80, 82, 79, 88]), (1, [71, 69, 84]), (0, [89, 32, 85, 78, 75, 78, 79, 87, 78, 13, 10, 104, 105])] 0)
    = (false, some none, [104, 105]) := by decide +kernel
example : observe (runSched inetOk [(0, [80, 82, 79, 88]), (1, [71, 69, 84]), (0, [89, 32, 85, 78, 75, 78, 79, 87, 78, 13, 10, 104, 105])] 1)
    = (true, none, []) := by decide +kernel

end TwistedProps.C47
