import TwistedModel.Telnet.Data
import TwistedProps.C38.Gen
/-!
C38 — telnet carries application bytes transparently.

Statement (fixed): for any application byte strings without carriage returns written through
a telnet transport with `write` or `writeSequence`, and any segmentation of the wire stream,
the peer application receives exactly those bytes, with line feeds sent as CR LF and
restored; bytes equal to IAC in application data are never interpreted as telnet commands
and never lost.

Theorems (all unbounded: every history of calls, every byte string, every segmentation):
* `transparent`            — the headline (receiver raises nothing, makes no command /
                             negotiation call, delivers exactly the written bytes, ends in
                             its initial state);
* `lf_sent_as_crlf`        — on the wire CR and LF occur only as the pair CR LF, once per
                             application line feed;
* `segmentation_invariant` — for EVERY byte stream on which the parser does not raise and
                             every starting state, cutting the stream into `dataReceived`
                             calls changes neither the calls made nor the final state;
* `segmentation_independent` — corollary for written streams;
* `transparent_with_negotiation` — the headline over HISTORIES in which the sender's own telnet layer transmits in
                             between the application writes (`will/wont/do/dont(option)`, `requestNegotiation(about, data)`):
                             the peer makes exactly the sender's own calls, the application bytes arrive exactly;
* `loopAcc_eq`, `feedEachFast_eq` — the accumulator loop the driver runs (linear in the read size) is the model's loop;
* `writeSequenceRaw_counterexample` — the pre-repair `writeSequence` falsifies the property;
* `cr_is_not_transparent`  — why the CR precondition is there;
* `gen_*`                  — `TelnetTransport.write` (the chained `bytes.replace`) is regenerated from telnet.py on
                             every run (`Generated.Telnet`, harness/py2lean.py) and proved equal to the model's
                             `write` (`TwistedProps/C38/Gen.lean`).

Proof shape: a byte-level trace semantics `trace` (no buffer) is shown equal to the code's
chunk loop with its local `appDataBuffer` (`loop_trace`), and compositional over
concatenation (`trace_append`); the escape image of CR-free bytes is consumed literally by
`trace` in state `data` (`trace_write`, induction over the bytes).
-/
namespace TwistedProps.C38
open Twisted.Telnet.Data

/-- an application byte as an item of the byte-level trace -/
def item (b : UInt8) : Ev := .app [b]

/-- events with the application data split into single bytes: forgets only how
    `applicationDataReceived` calls were grouped -/
def expand : List Ev → List Ev
  | [] => []
  | .app d :: es => d.map item ++ expand es
  | e :: es => e :: expand es

def actItems : Act → List Ev
  | .skip => []
  | .push bs => bs.map item
  | .call e => expand [e]
  | .raise _ => []
  | .flushRaise _ => []

/-- byte-level semantics: no buffer, one item per delivered byte / call; stops at the first raise -/
def trace : St → Bytes → Res
  | st, [] => ⟨st, [], none⟩
  | st, b :: rest =>
    match step st b with
    | (st', .raise e) => ⟨st', [], some e⟩
    | (st', .flushRaise e) => ⟨st', [], some e⟩
    | (st', a) => (trace st' rest).prepend (actItems a)

theorem loop_skip {st st' : St} {b : UInt8} (buf rest : Bytes) (h : step st b = (st', .skip)) :
    loop st buf (b :: rest) = loop st' buf rest := by rw [loop, h]
theorem loop_push {st st' : St} {b : UInt8} {bs : Bytes} (buf rest : Bytes) (h : step st b = (st', .push bs)) :
    loop st buf (b :: rest) = loop st' (buf ++ bs) rest := by rw [loop, h]
theorem loop_call {st st' : St} {b : UInt8} {e : Ev} (buf rest : Bytes) (h : step st b = (st', .call e)) :
    loop st buf (b :: rest) = (loop st' [] rest).prepend (flush buf ++ [e]) := by rw [loop, h]
theorem loop_raise {st st' : St} {b : UInt8} {e : Err} (buf rest : Bytes) (h : step st b = (st', .raise e)) :
    loop st buf (b :: rest) = ⟨st', [], some e⟩ := by rw [loop, h]
theorem loop_flushRaise {st st' : St} {b : UInt8} {e : Err} (buf rest : Bytes) (h : step st b = (st', .flushRaise e)) :
    loop st buf (b :: rest) = ⟨st', flush buf, some e⟩ := by rw [loop, h]

theorem trace_skip {st st' : St} {b : UInt8} (rest : Bytes) (h : step st b = (st', .skip)) :
    trace st (b :: rest) = trace st' rest := by rw [trace, h]; simp [actItems, Res.prepend]
theorem trace_push {st st' : St} {b : UInt8} {bs : Bytes} (rest : Bytes) (h : step st b = (st', .push bs)) :
    trace st (b :: rest) = (trace st' rest).prepend (bs.map item) := by rw [trace, h]; simp [actItems]
theorem trace_call {st st' : St} {b : UInt8} {e : Ev} (rest : Bytes) (h : step st b = (st', .call e)) :
    trace st (b :: rest) = (trace st' rest).prepend (expand [e]) := by rw [trace, h]; simp [actItems]
theorem trace_raise {st st' : St} {b : UInt8} {e : Err} (rest : Bytes) (h : step st b = (st', .raise e)) :
    trace st (b :: rest) = ⟨st', [], some e⟩ := by rw [trace, h]
theorem trace_flushRaise {st st' : St} {b : UInt8} {e : Err} (rest : Bytes) (h : step st b = (st', .flushRaise e)) :
    trace st (b :: rest) = ⟨st', [], some e⟩ := by rw [trace, h]

theorem expand_append (a b : List Ev) : expand (a ++ b) = expand a ++ expand b := by
  induction a with
  | nil => rfl
  | cons e a ih => cases e <;> simp [expand, ih]

theorem expand_flush (buf : Bytes) : expand (flush buf) = buf.map item := by
  unfold flush
  cases buf <;> simp [expand]

@[simp] theorem prepend_err (l : List Ev) (r : Res) : (r.prepend l).err = r.err := rfl
@[simp] theorem prepend_st (l : List Ev) (r : Res) : (r.prepend l).st = r.st := rfl
@[simp] theorem prepend_evs (l : List Ev) (r : Res) : (r.prepend l).evs = l ++ r.evs := rfl

/-- the chunk loop with its local buffer computes the byte-level trace (when nothing raises):
    same final state, same items once application data is split into bytes; the buffer is
    flushed in front. -/
theorem loop_trace (xs : Bytes) : ∀ (st : St) (buf : Bytes), (trace st xs).err = none →
    (loop st buf xs).err = none ∧ (loop st buf xs).st = (trace st xs).st ∧
    expand (loop st buf xs).evs = buf.map item ++ (trace st xs).evs := by
  induction xs with
  | nil => intro st buf _; simp [loop, trace, expand_flush]
  | cons b rest ih =>
    intro st buf h
    rcases hs : step st b with ⟨st', a⟩
    cases a with
    | skip =>
      rw [trace_skip rest hs] at h ⊢
      rw [loop_skip buf rest hs]
      exact ih st' buf h
    | push bs =>
      rw [trace_push rest hs] at h ⊢
      rw [loop_push buf rest hs]
      have := ih st' (buf ++ bs) (by simpa using h)
      simpa using this
    | call e =>
      rw [trace_call rest hs] at h ⊢
      rw [loop_call buf rest hs]
      have := ih st' [] (by simpa using h)
      obtain ⟨h1, h2, h3⟩ := this
      refine ⟨by simpa using h1, by simpa using h2, ?_⟩
      have h4 : expand (e :: (loop st' [] rest).evs) = expand [e] ++ expand (loop st' [] rest).evs :=
        expand_append [e] _
      simp [expand_append, expand_flush, h4, h3]
    | raise e => rw [trace_raise rest hs] at h; simp at h
    | flushRaise e => rw [trace_flushRaise rest hs] at h; simp at h

/-- the trace of a concatenation: the trace of the first part, continued from its final
    state — unless the first part raised, which ends the trace -/
theorem trace_append (xs ys : Bytes) : ∀ st : St,
    trace st (xs ++ ys) =
      match (trace st xs).err with
      | none => (trace (trace st xs).st ys).prepend (trace st xs).evs
      | some _ => trace st xs := by
  induction xs with
  | nil => intro st; simp [trace, Res.prepend]
  | cons b rest ih =>
    intro st
    rcases hs : step st b with ⟨st', a⟩
    cases a with
    | skip =>
      rw [List.cons_append, trace_skip _ hs, trace_skip _ hs]; exact ih st'
    | push bs =>
      rw [List.cons_append, trace_push _ hs, trace_push _ hs, ih st']
      rcases he : (trace st' rest).err with _ | e' <;> simp [Res.prepend, he]
    | call e =>
      rw [List.cons_append, trace_call _ hs, trace_call _ hs, ih st']
      rcases he : (trace st' rest).err with _ | e' <;> simp [Res.prepend, he]
    | raise e => rw [List.cons_append, trace_raise _ hs, trace_raise _ hs]
    | flushRaise e => rw [List.cons_append, trace_flushRaise _ hs, trace_flushRaise _ hs]

theorem trace_append_ok (xs ys : Bytes) (st : St) (h : (trace st (xs ++ ys)).err = none) :
    (trace st xs).err = none ∧
    trace st (xs ++ ys) = (trace (trace st xs).st ys).prepend (trace st xs).evs := by
  have := trace_append xs ys st
  cases he : (trace st xs).err with
  | none => rw [he] at this; exact ⟨rfl, this⟩
  | some e => rw [he] at this; rw [this, he] at h; simp at h

/-- **Segmentation invariance of `Telnet.dataReceived`** (every stream, every starting state):
    if the byte stream makes the parser raise nowhere, then however it is cut into
    `dataReceived` calls (empty segments included) no call raises, the final parser state is
    the same, and the calls made are the same — application data as the same byte sequence
    (only its grouping into `applicationDataReceived` calls depends on the cuts). -/
theorem segmentation_invariant (cs : List Bytes) : ∀ st : St, (trace st cs.flatten).err = none →
    (feedAll st cs).err = none ∧ (feedAll st cs).st = (trace st cs.flatten).st ∧
    expand (feedAll st cs).evs = (trace st cs.flatten).evs := by
  induction cs with
  | nil => intro st _; simp [feedAll, trace, expand]
  | cons c cs ih =>
    intro st h
    rw [List.flatten_cons] at h ⊢
    obtain ⟨hc, happ⟩ := trace_append_ok c cs.flatten st h
    rw [happ] at h ⊢
    obtain ⟨l1, l2, l3⟩ := loop_trace c st [] hc
    have hrest : (trace (dataReceived st c).st cs.flatten).err = none := by
      unfold dataReceived; rw [l2]; simpa using h
    obtain ⟨f1, f2, f3⟩ := ih (dataReceived st c).st hrest
    have hst : (dataReceived st c).st = (trace st c).st := l2
    refine ⟨?_, ?_, ?_⟩
    · simp only [feedAll]; unfold dataReceived at f1 ⊢; rw [l1, f1]; rfl
    · simp only [feedAll, prepend_st]; rw [f2, hst]
    · simp only [feedAll, prepend_evs, expand_append]; rw [f3, hst]
      unfold dataReceived; rw [l3]; simp

/-! ### Sender -/

/-- what `write` sends for one application byte -/
def w1 (b : UInt8) : Bytes := if b = IAC then [IAC, IAC] else if b = LF then [CR, LF] else [b]

/-- the two `bytes.replace` calls of `write` as one pass: IAC → IAC IAC, LF → CR LF,
    every other byte itself (the second replace does not touch what the first produced) -/
theorem write_eq_flatMap (d : Bytes) : write d = d.flatMap w1 := by
  unfold write escLF escIAC
  rw [List.flatMap_assoc]
  congr 1
  funext b
  unfold w1
  by_cases h1 : b = IAC
  · subst h1; decide
  · by_cases h2 : b = LF
    · subst h2; decide
    · simp [h1, h2]

theorem write_nil : write [] = [] := by simp [write_eq_flatMap]
theorem write_cons (b : UInt8) (d : Bytes) : write (b :: d) = w1 b ++ write d := by
  simp [write_eq_flatMap]
theorem write_append (a b : Bytes) : write (a ++ b) = write a ++ write b := by
  simp [write_eq_flatMap]

theorem opWire_eq (op : Op) : op.wire = write op.payload := by
  cases op <;> simp [Op.wire, Op.payload, writeSequence]

/-- the wire stream of a history of `write` / `writeSequence` calls is the escape image of
    the concatenated application bytes -/
theorem wire_eq (ops : List Op) : wire ops = write (payload ops) := by
  induction ops with
  | nil => simp [wire, payload, write_nil]
  | cons op ops ih =>
    simp only [wire, payload, List.map_cons, List.flatten_cons] at ih ⊢
    rw [write_append, ih, opWire_eq]

/-- **Literal consumption**: in state `data`, the escape image of CR-free application bytes in
    front of anything is consumed as exactly those bytes — no call, no raise — and the
    parser is back in state `data` with `command`/`commands` untouched. -/
theorem trace_write (d : Bytes) (hcr : CR ∉ d) (c : UInt8) (cmds rest : Bytes) :
    trace ⟨.data, c, cmds⟩ (write d ++ rest) = (trace ⟨.data, c, cmds⟩ rest).prepend (d.map item) := by
  induction d with
  | nil => simp [write_nil, Res.prepend]
  | cons b d ih =>
    have hb : b ≠ CR := fun h => hcr (by simp [h])
    have hd : CR ∉ d := fun h => hcr (by simp [h])
    rw [write_cons, List.append_assoc]
    by_cases h1 : b = IAC
    · subst h1
      have s1 : step ⟨.data, c, cmds⟩ IAC = (⟨.escaped, c, cmds⟩, .skip) := by simp [step]
      have s2 : step ⟨.escaped, c, cmds⟩ IAC = (⟨.data, c, cmds⟩, .push [IAC]) := by simp [step]
      have : w1 IAC = [IAC, IAC] := by decide
      rw [this]
      simp only [List.cons_append, List.nil_append]
      rw [trace_skip _ s1, trace_push _ s2, ih hd]
      simp [Res.prepend]
    · by_cases h2 : b = LF
      · subst h2
        have s1 : step ⟨.data, c, cmds⟩ CR = (⟨.newline, c, cmds⟩, .skip) := by
          simp [step]; decide
        have s2 : step ⟨.newline, c, cmds⟩ LF = (⟨.data, c, cmds⟩, .push [LF]) := by simp [step]
        have : w1 LF = [CR, LF] := by decide
        rw [this]
        simp only [List.cons_append, List.nil_append]
        rw [trace_skip _ s1, trace_push _ s2, ih hd]
        simp [Res.prepend]
      · have s1 : step ⟨.data, c, cmds⟩ b = (⟨.data, c, cmds⟩, .push [b]) := by simp [step, h1, hb]
        have : w1 b = [b] := by simp [w1, h1, h2]
        rw [this]
        simp only [List.cons_append, List.nil_append]
        rw [trace_push _ s1, ih hd]
        simp [Res.prepend]

theorem appBytes_append (a b : List Ev) : appBytes (a ++ b) = appBytes a ++ appBytes b := by
  induction a with
  | nil => rfl
  | cons e a ih => cases e <;> simp [appBytes, ih]
theorem nonApp_append (a b : List Ev) : nonApp (a ++ b) = nonApp a ++ nonApp b := by
  induction a with
  | nil => rfl
  | cons e a ih => cases e <;> simp [nonApp, ih]
theorem appBytes_items (d : Bytes) : appBytes (d.map item) = d := by
  induction d with
  | nil => rfl
  | cons b d ih => simp [item, appBytes] at ih ⊢; exact ih
theorem nonApp_items (d : Bytes) : nonApp (d.map item) = [] := by
  induction d with
  | nil => rfl
  | cons b d ih => simp [item, nonApp] at ih ⊢; exact ih
/-- splitting application data into bytes changes neither the bytes nor the other calls -/
theorem appBytes_expand (es : List Ev) : appBytes (expand es) = appBytes es := by
  induction es with
  | nil => rfl
  | cons e es ih => cases e <;> simp [expand, appBytes, appBytes_append, appBytes_items, ih]
theorem nonApp_expand (es : List Ev) : nonApp (expand es) = nonApp es := by
  induction es with
  | nil => rfl
  | cons e es ih => cases e <;> simp [expand, nonApp, nonApp_append, nonApp_items, ih]

/-- **C38.**  For every history of `write` / `writeSequence` calls whose application bytes
    contain no CR, and every segmentation `cs` of the wire stream they produce (any number
    of `dataReceived` calls, empty ones included), a fresh receiver: raises nowhere; makes no
    `commandReceived` / `negotiate` call (no byte of application data — IAC included — is
    interpreted as telnet); hands `applicationDataReceived` exactly the written bytes, in
    order; and ends in its initial state (nothing is held back). -/
theorem transparent (ops : List Op) (hcr : CR ∉ payload ops)
    (cs : List Bytes) (hseg : cs.flatten = wire ops) :
    (feedAll init cs).err = none ∧
    nonApp (feedAll init cs).evs = [] ∧
    appBytes (feedAll init cs).evs = payload ops ∧
    (feedAll init cs).st = init := by
  have ht : trace init cs.flatten = ⟨init, (payload ops).map item, none⟩ := by
    have := trace_write (payload ops) hcr 0 [] []
    rw [hseg, wire_eq]
    simpa [init, trace, Res.prepend] using this
  obtain ⟨h1, h2, h3⟩ := segmentation_invariant cs init (by rw [ht])
  rw [ht] at h2 h3
  refine ⟨h1, ?_, ?_, h2⟩
  · rw [← nonApp_expand, h3]; exact nonApp_items _
  · rw [← appBytes_expand, h3]; exact appBytes_items _

/-- on the wire CR and LF occur only as the pair CR LF -/
def crlfPaired : Bytes → Bool
  | [] => true
  | [b] => b != CR && b != LF
  | a :: b :: rest => if a = CR then b == LF && crlfPaired rest else a != LF && crlfPaired (b :: rest)

theorem crlfPaired_pair (rest : Bytes) : crlfPaired (CR :: LF :: rest) = crlfPaired rest := by
  simp [crlfPaired]
theorem crlfPaired_other (b : UInt8) (rest : Bytes) (h1 : b ≠ CR) (h2 : b ≠ LF) :
    crlfPaired (b :: rest) = crlfPaired rest := by
  cases rest <;> simp [crlfPaired, h1, h2]

/-- **Line feeds travel as CR LF**: in the wire stream of CR-free application bytes every LF
    is immediately preceded by a CR and every CR immediately followed by an LF, and there
    are exactly as many as there are line feeds in the application bytes. -/
theorem lf_sent_as_crlf (ops : List Op) (hcr : CR ∉ payload ops) :
    crlfPaired (wire ops) = true ∧ (wire ops).count LF = (payload ops).count LF := by
  rw [wire_eq]
  generalize payload ops = d at hcr
  induction d with
  | nil => simp [write_nil, crlfPaired]
  | cons b d ih =>
    have hb : b ≠ CR := fun h => hcr (by simp [h])
    have hd : CR ∉ d := fun h => hcr (by simp [h])
    obtain ⟨i1, i2⟩ := ih hd
    rw [write_cons]
    by_cases h1 : b = IAC
    · subst h1
      have : w1 IAC = [IAC, IAC] := by decide
      rw [this]
      have n1 : IAC ≠ CR := by decide
      have n2 : IAC ≠ LF := by decide
      refine ⟨?_, ?_⟩
      · simp only [List.cons_append, List.nil_append]
        rw [crlfPaired_other _ _ n1 n2, crlfPaired_other _ _ n1 n2, i1]
      · simp [i2, n2]
    · by_cases h2 : b = LF
      · subst h2
        have : w1 LF = [CR, LF] := by decide
        rw [this]
        have n1 : CR ≠ LF := by decide
        refine ⟨?_, ?_⟩
        · simp only [List.cons_append, List.nil_append]
          rw [crlfPaired_pair, i1]
        · simp [i2, n1]
      · have : w1 b = [b] := by simp [w1, h1, h2]
        rw [this]
        refine ⟨?_, ?_⟩
        · simp only [List.cons_append, List.nil_append]
          rw [crlfPaired_other _ _ hb h2, i1]
        · simp [i2, h2]

/-- Two segmentations of the same wire stream of CR-free writes are indistinguishable to
    the application (corollary of `transparent`, stated for the record). -/
theorem segmentation_independent (ops : List Op) (hcr : CR ∉ payload ops)
    (cs₁ cs₂ : List Bytes) (h₁ : cs₁.flatten = wire ops) (h₂ : cs₂.flatten = wire ops) :
    appBytes (feedAll init cs₁).evs = appBytes (feedAll init cs₂).evs ∧
    nonApp (feedAll init cs₁).evs = nonApp (feedAll init cs₂).evs ∧
    (feedAll init cs₁).st = (feedAll init cs₂).st := by
  obtain ⟨_, a2, a3, a4⟩ := transparent ops hcr cs₁ h₁
  obtain ⟨_, b2, b3, b4⟩ := transparent ops hcr cs₂ h₂
  exact ⟨by rw [a3, b3], by rw [a2, b2], by rw [a4, b4]⟩

/-- The method as it was before the repair (`writeSequenceRaw`: elements passed to the
    underlying transport untouched) falsifies the property: `writeSequence([b"x\xff\xf4y\n"])`
    reaches the peer as `x`, the command IP, and `y\n`. -/
theorem writeSequenceRaw_counterexample :
    ¬ (∀ seq : List Bytes, CR ∉ seq.flatten →
        nonApp (feedAll init [writeSequenceRaw seq]).evs = [] ∧
        appBytes (feedAll init [writeSequenceRaw seq]).evs = seq.flatten) := by
  intro h
  have := (h [[0x78, 0xff, 0xf4, 0x79, 0x0a]] (by decide)).1
  revert this
  decide

/-- Why the statement excludes CR: `write(b"\r\n")` is sent as CR CR LF and arrives as
    CR CR LF; `write(b"\r\x00")` arrives as CR alone. -/
theorem cr_is_not_transparent :
    appBytes (feedAll init [write [CR, LF]]).evs ≠ [CR, LF] ∧
    appBytes (feedAll init [write [CR, NUL]]).evs ≠ [CR, NUL] := by
  decide

/-! ### the translator-regenerated `TelnetTransport.write` (see `TwistedProps/C38/Gen.lean`) -/

/-- `TelnetTransport.write` as regenerated from telnet.py (IAC doubled, then LF → CR LF) = the model's `write` -/
theorem gen_write (d : Bytes) : Generated.Telnet.write d = write d := gen_write_eq d

/-- the wire image of a call history, with every `write` computed by the regenerated definition -/
theorem gen_wire (ops : List Op) : wire ops = Generated.Telnet.write (payload ops) := by
  rw [gen_write]; exact wire_eq ops

example : Generated.Telnet.write [97, 255, 10, 98] = [97, 255, 255, 13, 10, 98] := by decide

/-! ### Non-vacuity -/

/-- `write(b"x\xff\xf4y\n")`, `writeSequence([b"\xff", b"\n\xfa"])`, `write(b"")`, the wire cut
    inside both escape pairs and with an empty segment: hypotheses hold, conclusion is the
    concrete delivery. -/
example :
    let ops := [Op.write [0x78, 0xff, 0xf4, 0x79, 0x0a], Op.writeSeq [[0xff], [0x0a, 0xfa]], Op.write []]
    let cs : List Bytes := [[0x78, 0xff], [0xff, 0xf4, 0x79, 0x0d], [], [0x0a, 0xff, 0xff, 0x0d, 0x0a, 0xfa]]
    CR ∉ payload ops ∧ cs.flatten = wire ops ∧
    (feedAll init cs).evs = [.app [0x78], .app [0xff, 0xf4, 0x79], .app [0x0a, 0xff, 0x0a, 0xfa]] ∧
    appBytes (feedAll init cs).evs = payload ops := by
  decide

/-- `segmentation_invariant` is not vacuous: a stream with commands, a subnegotiation and
    CR NUL raises nowhere, and two different segmentations make the same calls. -/
example :
    let w : Bytes := [0x61, 0xff, 0xfb, 0x01, 0x62, 0xff, 0xf4, 0xff, 0xfa, 0x1f, 0xff, 0xff, 0xff, 0xf0, 0x0d, 0x00, 0x63]
    (trace init w).err = none ∧
    (trace init w).evs = [.app [0x61], .cmd 0xfb (some 0x01), .app [0x62], .cmd 0xf4 none,
                          .neg [0x1f, 0xff], .app [0x0d], .app [0x63]] ∧
    expand (feedAll init [w.take 2, (w.drop 2).take 9, w.drop 11]).evs = (trace init w).evs := by
  decide

/-! ### The driver's accumulator loop is the model's loop -/

/-- `loopAcc` (buffer kept reversed) computes `loop` -/
theorem loopAcc_eq (xs : Bytes) : ∀ (st : St) (rbuf : Bytes), loopAcc st rbuf xs = loop st rbuf.reverse xs := by
  induction xs with
  | nil => intro st rbuf; simp [loopAcc, loop]
  | cons b rest ih =>
    intro st rbuf
    rcases hs : step st b with ⟨st', a⟩
    cases a with
    | skip => rw [loopAcc, hs, loop_skip _ _ hs]; exact ih st' rbuf
    | push bs => rw [loopAcc, hs, loop_push _ _ hs]; simp only []; rw [ih]; simp
    | call e => rw [loopAcc, hs, loop_call _ _ hs]; simp only []; rw [ih]; simp
    | raise e => rw [loopAcc, hs, loop_raise _ _ hs]
    | flushRaise e => rw [loopAcc, hs, loop_flushRaise _ _ hs]

/-- what the driver runs (`feedEachFast`) is the model's per-segment `dataReceived` results -/
theorem feedEachFast_eq (cs : List Bytes) : ∀ st : St, feedEachFast st cs = feedEach st cs := by
  induction cs with
  | nil => intro st; rfl
  | cons c cs ih =>
    intro st
    simp only [feedEachFast, feedEach, dataReceived]
    rw [loopAcc_eq]; simp only [List.reverse_nil]; rw [ih]

/-! ### Histories with the sender's own telnet layer in between the writes

`will/do/wont/dont(option)` and `requestNegotiation(about, data)` go to the wire through `Telnet._write`, unescaped,
in between the application's writes.  The statement then says: the peer's `commandReceived` / `negotiate` calls are
exactly those the SENDER's telnet layer asked for — no byte of application data adds one — and the application bytes
arrive exactly as written, for every segmentation. -/

/-- side conditions: application bytes CR-free (the statement's precondition); the command byte one of
    WILL/WONT/DO/DONT; the subnegotiated option byte not IAC (telnet.py writes it unescaped) -/
def hopOk : HOp → Prop
  | .app op => CR ∉ op.payload
  | .cmd c _ => isOptCmd c = true
  | .subneg about _ => about ≠ IAC

def hopItems : HOp → List Ev
  | .app op => op.payload.map item
  | o => o.calls

theorem escIAC_cons (b : UInt8) (d : Bytes) : escIAC (b :: d) = (if b = IAC then [IAC, IAC] else [b]) ++ escIAC d := by
  simp [escIAC]

theorem optCmd_facts (c : UInt8) (h : isOptCmd c = true) : c ≠ IAC ∧ c ≠ SB ∧ isSimpleCmd c = false := by
  simp only [isOptCmd, WILL, DONT, Bool.and_eq_true, decide_eq_true_eq, UInt8.le_iff_toNat_le] at h
  have h1 : 251 ≤ c.toNat := by simpa using h.1
  have h2 : c.toNat ≤ 254 := by simpa using h.2
  refine ⟨?_, ?_, ?_⟩
  · intro e; subst e; simp [IAC] at h2
  · intro e; subst e; simp [SB] at h1
  · simp only [isSimpleCmd, EOR, NOP, GA, Bool.or_eq_false_iff, Bool.and_eq_false_iff, beq_eq_false_iff_ne, ne_eq,
      decide_eq_false_iff_not, UInt8.le_iff_toNat_le]
    refine ⟨?_, ?_⟩
    · intro e; subst e; simp at h1
    · right; simp; omega

theorem trace_subneg_data (d : Bytes) : ∀ (c : UInt8) (cmds rest : Bytes),
    trace ⟨.subneg, c, cmds⟩ (escIAC d ++ rest) = trace ⟨.subneg, c, cmds ++ d⟩ rest := by
  induction d with
  | nil => intro c cmds rest; simp [escIAC]
  | cons b d ih =>
    intro c cmds rest
    rw [escIAC_cons, List.append_assoc]
    by_cases h : b = IAC
    · subst h
      have s1 : step ⟨.subneg, c, cmds⟩ IAC = (⟨.subnegEsc, c, cmds⟩, .skip) := by simp [step]
      have s2 : step ⟨.subnegEsc, c, cmds⟩ IAC = (⟨.subneg, c, cmds ++ [IAC]⟩, .skip) := by
        simp [step, show IAC ≠ SE by decide]
      simp only [if_true, List.cons_append, List.nil_append]
      rw [trace_skip _ s1, trace_skip _ s2, ih]; simp
    · have s1 : step ⟨.subneg, c, cmds⟩ b = (⟨.subneg, c, cmds ++ [b]⟩, .skip) := by simp [step, h]
      simp only [h, if_false, List.cons_append, List.nil_append]
      rw [trace_skip _ s1, ih]; simp

theorem trace_hop (o : HOp) (hok : hopOk o) (rest : Bytes) :
    trace init (o.wire ++ rest) = (trace init rest).prepend (hopItems o) := by
  cases o with
  | app op =>
    simp only [HOp.wire, hopItems, opWire_eq]
    exact trace_write op.payload hok 0 [] rest
  | cmd c opt =>
    obtain ⟨h1, h2, h3⟩ := optCmd_facts c hok
    have s1 : step init IAC = (⟨.escaped, 0, []⟩, .skip) := by simp [step, init]
    have s2 : step ⟨.escaped, 0, []⟩ c = (⟨.command, c, []⟩, .skip) := by
      simp [step, h1, h2, h3]; exact hok
    have s3 : step ⟨.command, c, []⟩ opt = (init, .call (.cmd c (some opt))) := by simp [step, init]
    simp only [HOp.wire, hopItems, HOp.calls, List.cons_append, List.nil_append]
    rw [trace_skip _ s1, trace_skip _ s2, trace_call _ s3]; rfl
  | subneg about d =>
    have hab : about ≠ IAC := hok
    have s1 : step init IAC = (⟨.escaped, 0, []⟩, .skip) := by simp [step, init]
    have s2 : step ⟨.escaped, 0, []⟩ SB = (⟨.subneg, 0, []⟩, .skip) := by simp [step]; decide
    have s3 : step ⟨.subneg, 0, []⟩ about = (⟨.subneg, 0, [about]⟩, .skip) := by simp [step, hab]
    have s4 : step ⟨.subneg, 0, about :: d⟩ IAC = (⟨.subnegEsc, 0, about :: d⟩, .skip) := by simp [step]
    have s5 : step ⟨.subnegEsc, 0, about :: d⟩ SE = (init, .call (.neg (about :: d))) := by simp [step, init]
    simp only [HOp.wire, hopItems, HOp.calls, List.cons_append, List.nil_append, List.append_assoc]
    rw [trace_skip _ s1, trace_skip _ s2, trace_skip _ s3, trace_subneg_data]
    simp only [List.cons_append, List.nil_append]
    rw [trace_skip _ s4, trace_call _ s5]; rfl

def hitems (h : List HOp) : List Ev := (h.map hopItems).flatten

theorem trace_hwire (h : List HOp) (hok : ∀ o ∈ h, hopOk o) :
    trace init (hwire h) = ⟨init, hitems h, none⟩ := by
  induction h with
  | nil => simp [hwire, hitems, trace]
  | cons o h ih =>
    have := trace_hop o (hok o (by simp)) (hwire h)
    simp only [hwire, hitems, List.map_cons, List.flatten_cons] at ih this ⊢
    rw [this, ih (fun o' ho' => hok o' (by simp [ho']))]
    simp [Res.prepend]

theorem appBytes_hitems (h : List HOp) : appBytes (hitems h) = hpayload h := by
  induction h with
  | nil => rfl
  | cons o h ih =>
    simp only [hitems, hpayload, List.map_cons, List.flatten_cons] at ih ⊢
    rw [appBytes_append, ih]
    cases o <;> simp [hopItems, HOp.payload, HOp.calls, appBytes_items, appBytes]

theorem nonApp_hitems (h : List HOp) : nonApp (hitems h) = hcalls h := by
  induction h with
  | nil => rfl
  | cons o h ih =>
    simp only [hitems, hcalls, List.map_cons, List.flatten_cons] at ih ⊢
    rw [nonApp_append, ih]
    cases o <;> simp [hopItems, HOp.calls, nonApp_items, nonApp]

/-- **C38 over histories with negotiation.**  For every history of application `write` / `writeSequence` calls
    (CR-free bytes), option commands and subnegotiations (any data, IAC included) of the sender's telnet layer, and every
    segmentation of the wire stream, a fresh receiver: raises nowhere; makes exactly the sender's own
    `commandReceived` / `negotiate` calls, in order (application bytes cause none); hands
    `applicationDataReceived` exactly the written application bytes, in order; ends in its initial state. -/
theorem transparent_with_negotiation (h : List HOp) (hok : ∀ o ∈ h, hopOk o)
    (cs : List Bytes) (hseg : cs.flatten = hwire h) :
    (feedAll init cs).err = none ∧
    nonApp (feedAll init cs).evs = hcalls h ∧
    appBytes (feedAll init cs).evs = hpayload h ∧
    (feedAll init cs).st = init := by
  have ht : trace init cs.flatten = ⟨init, hitems h, none⟩ := by rw [hseg]; exact trace_hwire h hok
  obtain ⟨h1, h2, h3⟩ := segmentation_invariant cs init (by rw [ht])
  rw [ht] at h2 h3
  refine ⟨h1, ?_, ?_, h2⟩
  · rw [← nonApp_expand, h3]; exact nonApp_hitems h
  · rw [← appBytes_expand, h3]; exact appBytes_hitems h


/-- a history of application writes only is the old setting: same wire, same payload, no calls -/
theorem hwire_app (ops : List Op) :
    hwire (ops.map HOp.app) = wire ops ∧ hpayload (ops.map HOp.app) = payload ops ∧ hcalls (ops.map HOp.app) = [] := by
  induction ops with
  | nil => simp [hwire, hpayload, hcalls, wire, payload]
  | cons op ops ih =>
    simp only [hwire, hpayload, hcalls, wire, payload, List.map_cons, List.flatten_cons] at ih ⊢
    obtain ⟨i1, i2, i3⟩ := ih
    exact ⟨by rw [i1]; rfl, by rw [i2]; rfl, by rw [i3]; rfl⟩

/-- `write(b"a\n")`, `will(b"\x00")`, `writeSequence([b"\xff", b"\n"])`, `requestNegotiation(b"\x1f", b"\x00\xff\xf0\r\n")`,
    `write(b"b")`, the wire cut inside the command, inside CR LF, inside IAC IAC and inside the subnegotiation:
    hypotheses hold; the calls are the sender's two, the application bytes the written ones. -/
example :
    let h := [HOp.app (.write [0x61, 0x0a]), .cmd 0xfb 0x00, .app (.writeSeq [[0xff], [0x0a]]),
              .subneg 0x1f [0x00, 0xff, 0xf0, 0x0d, 0x0a], .app (.write [0x62])]
    let cs : List Bytes := [[0x61, 0x0d], [0x0a, 0xff, 0xfb], [0x00, 0xff], [0xff, 0x0d, 0x0a, 0xff, 0xfa, 0x1f, 0x00, 0xff],
                            [0xff, 0xf0, 0x0d, 0x0a, 0xff], [0xf0, 0x62]]
    cs.flatten = hwire h ∧
    nonApp (feedAll init cs).evs = [.cmd 0xfb (some 0x00), .neg [0x1f, 0x00, 0xff, 0xf0, 0x0d, 0x0a]] ∧
    nonApp (feedAll init cs).evs = hcalls h ∧
    appBytes (feedAll init cs).evs = hpayload h ∧ hpayload h = [0x61, 0x0a, 0xff, 0x0a, 0x62] := by
  decide

example : feedEachFast init [[0x61, 0xff], [0xff, 0xf4, 0x0d], [0x0a]] = feedEach init [[0x61, 0xff], [0xff, 0xf4, 0x0d], [0x0a]] := by
  decide

end TwistedProps.C38
