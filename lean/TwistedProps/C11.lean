import TwistedProps.C11.Mono
import TwistedProps.C11.Fair
import TwistedProps.C11.ObsOps
import TwistedProps.C11.StarveOps
import TwistedProps.C11.Sched
import TwistedProps.C11.Keep
import TwistedProps.C11.Progress
import TwistedProps.C11.Fail
/-!
C11 — Cooperator advances only runnable tasks, completes each once, starves none.

Model: `TwistedModel/Reactor/Cooperator.lean` (`step : State → Op → State × Option Err`, whole
histories `run`).  Lemmas: `TwistedProps/C11/{Basic,Inv,Tick,Ops,Mono,Fair,Obs,ObsOps,Starve,StarveOps,Sched,Keep,Progress,Fail}.lean`.

Every `next()` call on a task's iterator is one `workUnit`; it writes a ghost record (`AdvRec`) of
the status the task had *at that moment*: its `_pauseCount`, the number of outstanding `pause()`
calls of its caller, whether it had finished, whether it was waiting on a Deferred it yielded.
-/
namespace TwistedProps.C11
open Twisted.Reactor.Cooperator

/-- Balanced history: `resume()` is only called by a caller that has an outstanding `pause()`
    of its own (decidable on the model state: the ghost counter `upc`). -/
def Balanced : State → List Op → Prop
  | _, [] => True
  | s, op :: ops => wfOp s op ∧ Balanced (step s op).1 ops

instance : (s : State) → (ops : List Op) → Decidable (Balanced s ops)
  | _, [] => isTrue trivial
  | s, op :: ops =>
    have := instDecidableBalanced (step s op).1 ops
    inferInstanceAs (Decidable (wfOp s op ∧ Balanced (step s op).1 ops))

theorem init_inv (started : Bool) : Inv (init started) ∧ LogOK (init started) := by
  refine ⟨⟨⟨List.nodup_nil, fun l i hm => by simp [init] at hm⟩, fun u => ⟨⟨fun hin => ?_, fun hg => ?_⟩, fun _ => rfl⟩⟩,
    fun r hr => ?_⟩
  · simp [init] at hin
  · exact absurd hg.1 (by simp [init])
  · simp [init] at hr

theorem run_inv (s : State) (ops : List Op) (h : Inv s) (hlog : LogOK s) (hb : Balanced s ops) :
    Inv (run s ops) ∧ LogOK (run s ops) := by
  induction ops generalizing s with
  | nil => exact ⟨h, hlog⟩
  | cons op ops ih =>
    have := step_inv s op h hlog hb.1
    exact ih _ this.1 this.2 hb.2

/-
FULL STATEMENT (not provable — the code falsifies it, see `never_advanced_counterexample`):
  ∀ started ops, ∀ r ∈ (run (init started) ops).log,
      r.pc = 0 ∧ r.upc = 0 ∧ r.completed = false ∧ r.waiting = false
i.e. for *any* interleaving of pause / resume / stop / ticks / Deferred firings.  What is missing
in `…_partial` is exactly the histories in which `resume()` is called without an outstanding
`pause()` of the caller while the task waits on a Deferred: `CooperativeTask.resume` then consumes
the internal pause of `_oneWorkUnit` and the task is advanced while its Deferred is pending
(finding `unmatched-resume-advanced-while-waiting`).
-/

/-- **A task is never advanced while paused, stopped, finished or waiting on a Deferred it
    yielded** — for every balanced history of any length, any scripts, any tick budgets, any
    firing order: each `next()` call found its task with `_pauseCount = 0`, not paused by its
    caller, not completed (neither exhausted, failed, stopped nor cooperator-stopped) and with no
    pending yielded Deferred. -/
theorem never_advanced_unless_runnable_partial (started : Bool) (ops : List Op)
    (hb : Balanced (init started) ops) :
    ∀ r ∈ (run (init started) ops).log,
      r.pc = 0 ∧ r.upc = 0 ∧ r.completed = false ∧ r.waiting = false :=
  (run_inv _ ops (init_inv started).1 (init_inv started).2 hb).2

/-- non-vacuity: a balanced history with pause-while-waiting, a failing Deferred, a pre-fired
    Deferred, removal under iteration, Cooperator.stop/start — 14 `next()` calls are recorded -/
def demoOps : List Op :=
  [.new [.value, .deferred 1, .value], .new [.deferred 2, .value], .new [], .coiter [.value, .raise],
   .fire 3 true, .new [.deferred 3, .value, .value],
   .tick 4, .pause 0, .tick 3, .fire 1 true, .tick 2, .resume 0, .fire 2 false, .tick 5,
   .cstop, .cstart, .new [.value], .tick 2]

example : Balanced (init true) demoOps ∧ (run (init true) demoOps).log.length = 14 := by decide

/-- the hypothesis `Balanced` cannot be dropped: `cooperate(iter([d1, …]))`, one tick (the task
    yields the pending Deferred 1), `resume()` with no `pause()` of the caller, one tick — the task
    is advanced while waiting on Deferred 1. -/
theorem never_advanced_counterexample :
    ¬ (∀ r ∈ (run (init true) [.new [.deferred 1, .value], .tick 1, .resume 0, .tick 1]).log,
        r.pc = 0 ∧ r.upc = 0 ∧ r.completed = false ∧ r.waiting = false) := by
  decide


/-! ### completes each once; operations on finished tasks -/

theorem run_append (s : State) (a b : List Op) : run s (a ++ b) = run (run s a) b := by
  induction a generalizing s with
  | nil => rfl
  | cons op a ih => exact ih _

theorem balanced_append (s : State) (a b : List Op) (h : Balanced s (a ++ b)) :
    Balanced s a ∧ Balanced (run s a) b := by
  induction a generalizing s with
  | nil => exact ⟨trivial, h⟩
  | cons op a ih => exact ⟨⟨h.1, (ih _ h.2).1⟩, (ih _ h.2).2⟩

theorem run_mono (s : State) (ops : List Op) (h : Inv s) (hlog : LogOK s) (hb : Balanced s ops) :
    Mono s (run s ops) := by
  induction ops generalizing s with
  | nil => exact Mono.refl s
  | cons op ops ih =>
    have := step_inv s op h hlog hb.1
    exact (step_mono s op h).trans (ih _ this.1 this.2 hb.2)

/-- **A task completes once**: whatever completion state (`TaskDone` / `TaskStopped` / `TaskFailed` /
    `SchedulerStopped`) and result a task has after a history, it has the same ones after any
    balanced continuation — nothing (a later `stop()`, a Deferred failing late, `Cooperator.stop`,
    a tick) completes it a second time. -/
theorem finished_task_stays_finished (started : Bool) (ops more : List Op)
    (hb : Balanced (init started) (ops ++ more)) (t : Nat) (c : Completion)
    (hc : ((run (init started) ops).getTask t).completion = some c) :
    ((run (init started) (ops ++ more)).getTask t).completion = some c ∧
    ((run (init started) (ops ++ more)).getTask t).result = ((run (init started) ops).getTask t).result := by
  have hb' := balanced_append _ ops more hb
  have hi := run_inv _ ops (init_inv started).1 (init_inv started).2 hb'.1
  rw [run_append]
  exact (run_mono _ more hi.1 hi.2 hb'.2).comp t c hc

example : ((run (init true) demoOps).getTask 1).completion = some .failed ∧
    ((run (init true) (demoOps.take 13)).getTask 1).completion = some .failed := by decide

/-- **Operations on a finished task raise the exception matching its completion** and change
    nothing: `pause()` and `stop()` raise `TaskDone` after exhaustion, `TaskStopped` after `stop()`,
    `TaskFailed` after a failure, `SchedulerStopped` after `Cooperator.stop` (`errOf`).  With
    `finished_task_stays_finished` this holds at every later point of the history. -/
theorem ops_on_finished_raise_matching (s : State) (t : Nat) (c : Completion)
    (hl : t < s.tasks.length) (hc : (s.getTask t).completion = some c) :
    step s (.pause t) = (s, some (errOf c)) ∧ step s (.stop t) = (s, some (errOf c)) := by
  constructor
  · simp only [step, hl, if_true]; exact pauseTask_done s t true c hc
  · simp only [step, hl, if_true]; simp [stopTask, hc]

example : errOf .done = .taskDone ∧ errOf .stopped = .taskStopped ∧ errOf .failed = .taskFailed
    ∧ errOf .schedStopped = .schedulerStopped := by decide

example : (step (run (init true) demoOps) (.pause 1)).2 = some .taskFailed
    ∧ (step (run (init true) demoOps) (.stop 0)).2 = some .taskDone
    ∧ (step (run (init true) [.new [.value], .cstop]) (.pause 0)).2 = some .schedulerStopped := by decide

/-! ### every whenDone / coiterate Deferred fires exactly once, with the task's outcome -/

theorem init_obs (started : Bool) : ObsOK (init started) := by
  refine ⟨rfl, ?_, ?_, ?_, ?_, ?_⟩
  · intro o t v h; simp [init] at h
  · intro o t v c h; simp [init] at h
  · intro t c h; simp [init, State.getTask] at h; exact absurd h (by simp [show (default : Task).completion = none from rfl])
  · intro t o h; simp [init, State.getTask] at h; exact absurd h (by simp [show (default : Task).deferreds = [] from rfl])
  · intro t; simp [init, State.getTask]; simp [show (default : Task).deferreds = [] from rfl]

theorem run_obs (s : State) (ops : List Op) (h : Inv s) (hlog : LogOK s) (ho : ObsOK s) (hb : Balanced s ops) :
    ObsOK (run s ops) := by
  induction ops generalizing s with
  | nil => exact ho
  | cons op ops ih =>
    have := step_inv s op h hlog hb.1
    exact ih _ this.1 this.2 (step_obs s op h ho) hb.2

/-- **Every whenDone / coiterate Deferred fires exactly once, with the outcome of its task** — the
    state reached by *any* balanced history satisfies: no Deferred has ever been called back a second
    time (`dblFire = 0`: the `for d in self._deferreds: d.callback(…)` loop of `_completeWith` never
    met a fired Deferred, nor did `whenDone`); each Deferred `o` belongs to an existing task `t`; it is
    un-fired exactly as long as `t` is unfinished; and once `t` has finished — whether the Deferred was
    registered before (fired by `_completeWith`) or requested afterwards (fired at once by `whenDone`) —
    it holds `t`'s stored `_completionResult`, which is the iterator itself after exhaustion
    (`TaskDone`), `Failure(TaskStopped)` after `stop()`, `Failure(SchedulerStopped)` after
    `Cooperator.stop`, and the iterator's exception / the yielded Deferred's failure after a failure
    (`Matches`).  As the statement holds after every prefix of the history, a Deferred fires during
    the very operation that finishes its task; `whenDone_value_never_changes` adds that the value is
    then fixed for ever. -/
theorem whenDone_fires_exactly_once (started : Bool) (ops : List Op) (hb : Balanced (init started) ops) :
    (run (init started) ops).dblFire = 0 ∧
    ∀ (o t : Nat) (v : Option Result), (run (init started) ops).observers[o]? = some (t, v) →
      t < (run (init started) ops).tasks.length ∧
      (((run (init started) ops).getTask t).completion = none → v = none) ∧
      (∀ c, ((run (init started) ops).getTask t).completion = some c →
        ∃ r, v = some r ∧ ((run (init started) ops).getTask t).result = some r ∧ Matches c r) := by
  have hi := run_inv _ ops (init_inv started).1 (init_inv started).2 hb
  have ho := run_obs _ ops (init_inv started).1 (init_inv started).2 (init_obs started) hb
  refine ⟨ho.dbl, fun o t v hob => ⟨ho.owner o t v hob, fun hc => (ho.live o t v hob hc).1, fun c hc => ?_⟩⟩
  obtain ⟨r, hr, hm⟩ := ho.res t c hc
  exact ⟨r, by rw [ho.fin o t v c hob hc, hr], hr, hm⟩

/-- non-vacuity: in `demoOps` the coiterate Deferred of task 3 fired with the iterator's exception;
    a history with all five outcomes and a whenDone requested after completion -/
example : (run (init true) demoOps).observers = [(3, some .iterError)] ∧ (run (init true) demoOps).dblFire = 0 := by
  decide

def demoObs : List Op :=
  [.coiter [], .coiter [.raise], .coiter [.deferred 1], .coiter [.value, .value], .new [.value, .value], .whenDone 4,
   .whenDone 4, .tick 5, .fire 1 false, .stop 3, .whenDone 3, .cstop, .whenDone 0]

example : Balanced (init true) demoObs ∧
    (run (init true) demoObs).observers =
      [(0, some .iterator), (1, some .iterError), (2, some (.deferredFailure 1)), (3, some .taskStopped),
       (4, some .schedulerStopped), (4, some .schedulerStopped), (3, some .taskStopped), (0, some .iterator)] := by
  decide

/-- "the failure" is a real one: when a task's result (what its Deferreds fire with) is the failure of
    the yielded Deferred `j`, that Deferred was errbacked (any history, balanced or not) -/
theorem failed_with_deferred_failure_was_errbacked (started : Bool) (ops : List Op) (t j : Nat)
    (h : ((run (init started) ops).getTask t).result = some (.deferredFailure j)) :
    (run (init started) ops).fired.lookup j = some false := by
  refine run_failok _ ops ?_ t j h
  intro t' j' h'
  simp [init, State.getTask] at h'
  exact absurd h' (by simp [show (default : Task).result = none from rfl])

example : ((run (init true) demoObs).getTask 2).result = some (.deferredFailure 1) := by decide

/-- a Deferred requested after its task finished is fired at once with the stored result -/
theorem whenDone_after_completion_fires_immediately (s : State) (t : Nat) (c : Completion)
    (hl : t < s.tasks.length) (hc : (s.getTask t).completion = some c) :
    (step s (.whenDone t)).1.observers = s.observers ++ [(t, (s.getTask t).result)] := by
  simp [step, hl, whenDone, hc]

/-- `_completeWith` never raises on an unfinished task of a reachable state (neither `ValueError`
    from `_removeTask` nor `AlreadyCalledError` from a Deferred), and hands its result to every
    Deferred registered on the task -/
theorem completeWith_fires_all_registered (started : Bool) (ops : List Op) (hb : Balanced (init started) ops)
    (t : Nat) (c : Completion) (r : Result) (hl : t < (run (init started) ops).tasks.length)
    (hc : ((run (init started) ops).getTask t).completion = none) :
    (completeWith (run (init started) ops) t c r).2 = none ∧
    ∀ o ∈ ((run (init started) ops).getTask t).deferreds,
      (completeWith (run (init started) ops) t c r).1.observers[o]? = some (t, some r) := by
  have hi := run_inv _ ops (init_inv started).1 (init_inv started).2 hb
  have ho := run_obs _ ops (init_inv started).1 (init_inv started).2 (init_obs started) hb
  generalize run (init started) ops = s at *
  have hin : (s.getTask t).pc = 0 → t ∈ s.cur := fun hp => (hi.1.2 t).1.2 ⟨hl, hp, hc⟩
  rw [completeWith_eq s t c r hin]
  have hmo := cwMid_observers s t c r
  have hun : ∀ o ∈ (s.getTask t).deferreds, (cwMid s t c r).observers[o]? = some (t, none) := by
    intro o ho'
    rw [hmo.1]
    obtain ⟨v, hv⟩ := ho.defs t o ho'
    rw [hv, (ho.live o t v hv hc).1]
  have hsp := fireAll_spec _ (cwMid s t c r) t r (ho.nodup t) hun
  exact ⟨hsp.1, fun o ho' => by rw [hsp.2.2 o, if_pos ho']⟩

/-- **A fired Deferred keeps its value for ever** (with `whenDone_fires_exactly_once`: exactly one
    firing). -/
theorem whenDone_value_never_changes (started : Bool) (ops more : List Op)
    (hb : Balanced (init started) (ops ++ more)) (o t : Nat) (r : Result)
    (ho : (run (init started) ops).observers[o]? = some (t, some r)) :
    (run (init started) (ops ++ more)).observers[o]? = some (t, some r) := by
  have hb' := balanced_append _ ops more hb
  have hi := run_inv _ ops (init_inv started).1 (init_inv started).2 hb'.1
  rw [run_append]
  exact (run_mono _ more hi.1 hi.2 hb'.2).obs o t r ho

example : (run (init true) (demoOps.take 9)).observers[0]? = some (3, some .iterError)
    ∧ (run (init true) demoOps).observers[0]? = some (3, some .iterError) := by decide

/-- **No Deferred is ever lost or handed to another task**: a whenDone / coiterate Deferred that
    exists after a history exists, with the same owner, after any continuation (so an un-fired one
    is still there to be fired when its task completes — `whenDone_fires_exactly_once` at that
    point). -/
theorem whenDone_deferred_never_lost (started : Bool) (ops more : List Op) (o t : Nat) (v : Option Result)
    (ho : (run (init started) ops).observers[o]? = some (t, v)) :
    ∃ v', (run (init started) (ops ++ more)).observers[o]? = some (t, v') := by
  rw [run_append]
  exact run_keep _ more o t v ho



/-! ### no runnable task is starved -/

/-- `_tasks` is exactly the set of runnable tasks: existing, unfinished, not paused by their caller
    and not waiting on a Deferred they yielded. -/
theorem in_tasks_iff_runnable (started : Bool) (ops : List Op) (hb : Balanced (init started) ops) (t : Nat) :
    t ∈ (run (init started) ops).cur ↔
      t < (run (init started) ops).tasks.length ∧ ((run (init started) ops).getTask t).completion = none ∧
      ((run (init started) ops).getTask t).upc = 0 ∧ ((run (init started) ops).getTask t).waitingOn = [] := by
  have hi := (run_inv _ ops (init_inv started).1 (init_inv started).2 hb).1
  generalize run (init started) ops = s at *
  have hm := (hi.2 t).1
  have hc := (hi.2 t).2
  constructor
  · intro hin
    have hg := hm.1 hin
    have := hc hg.2.2
    exact ⟨hg.1, hg.2.2, by have := hg.2.1; omega, hi.cur_not_waiting t hin⟩
  · intro ⟨hl, hcn, hu, hw⟩
    exact hm.2 ⟨hl, by have := hc hcn; rw [hu, hw] at this; simpa using this, hcn⟩

/-- **A tick is scheduled whenever `_tasks` is non-empty**: after any balanced history, a started
    Cooperator with a runnable task has a delayed call pending; an un-started one has noted that it
    must schedule on `start()`. -/
theorem tick_scheduled_when_runnable (started : Bool) (ops : List Op) (hb : Balanced (init started) ops) :
    ((run (init started) ops).started = true → (run (init started) ops).cur ≠ [] →
        (run (init started) ops).scheduled = true) ∧
    ((run (init started) ops).started = false → (run (init started) ops).cur ≠ [] →
        (run (init started) ops).mustSched = true) := by
  suffices h : ∀ (s : State) (ops : List Op), Inv s → LogOK s → ObsOK s → SchedOK s → Balanced s ops →
      SchedOK (run s ops) by
    have := h _ ops (init_inv started).1 (init_inv started).2 (init_obs started)
      ⟨fun _ hc => absurd rfl hc, fun _ hc => absurd rfl hc⟩ hb
    exact ⟨this.run, this.wait⟩
  intro s ops
  induction ops generalizing s with
  | nil => intro _ _ _ hs _; exact hs
  | cons op ops ih =>
    intro h hlog ho hs hb
    have := step_inv s op h hlog hb.1
    exact ih _ this.1 this.2 (step_obs s op h ho) (step_sched s op h ho hs) hb.2

example : (run (init true) (demoOps.take 7)).cur = [0, 2, 3, 4] ∧ (run (init true) (demoOps.take 7)).scheduled = true := by
  decide

/-- **The pending tick does work**: after any balanced history that leaves a started Cooperator with
    a non-empty `_tasks`, the scheduler tick (any budget ≥ 1) calls `next()` on at least one task. -/
theorem tick_advances_some_task (started : Bool) (ops : List Op) (hb : Balanced (init started) ops) (b : Nat)
    (hb1 : 0 < b) (hst : (run (init started) ops).started = true) (hc : (run (init started) ops).cur ≠ []) :
    (run (init started) ops).log.length < (step (run (init started) ops) (.tick b)).1.log.length := by
  have hi := run_inv _ ops (init_inv started).1 (init_inv started).2 hb
  have ho := run_obs _ ops (init_inv started).1 (init_inv started).2 (init_obs started) hb
  have hs := (tick_scheduled_when_runnable started ops hb).1 hst hc
  exact tick_progress _ b hi.1 ho hs hc hb1


/-- Task `T` *stays runnable and is not advanced* along `ops` from `s`: it is in `_tasks` at every
    operation boundary, it receives no `next()` call, and at most `N` tasks exist. -/
def Stays (T N : Nat) : State → List Op → Prop
  | s, [] => T ∈ s.cur ∧ s.tasks.length ≤ N
  | s, op :: ops => T ∈ s.cur ∧ s.tasks.length ≤ N ∧ advCount T (step s op).1 = advCount T s ∧
      Stays T N (step s op).1 ops

instance (T N : Nat) : (s : State) → (ops : List Op) → Decidable (Stays T N s ops)
  | s, [] => inferInstanceAs (Decidable (T ∈ s.cur ∧ s.tasks.length ≤ N))
  | s, op :: ops =>
    have := instDecidableStays T N (step s op).1 ops
    inferInstanceAs (Decidable (T ∈ s.cur ∧ s.tasks.length ≤ N ∧ advCount T (step s op).1 = advCount T s ∧
      Stays T N (step s op).1 ops))

theorem Stays.head {T N : Nat} {s : State} {ops : List Op} (h : Stays T N s ops) :
    T ∈ s.cur ∧ s.tasks.length ≤ N := by
  cases ops with
  | nil => exact h
  | cons op ops => exact ⟨h.1, h.2.1⟩

/-- along such a stretch, work units given to other tasks are paid for by the rank of `T` -/
theorem stays_bound (T N : Nat) (s : State) (ops : List Op) (h : Inv s) (hlog : LogOK s) (ho : ObsOK s)
    (hb : Balanced s ops) (hst : Stays T N s ops) :
    (run s ops).log.length + Fair.rank T N (absC N (run s ops)) ≤ s.log.length + Fair.rank T N (absC N s) := by
  induction ops generalizing s with
  | nil => exact Nat.le_refl _
  | cons op ops ih =>
    have hnext := step_inv s op h hlog hb.1
    have hhead := hst.2.2.2.head
    have hok : Fair.Ok T N (absC N s) := ⟨hst.1, Nat.le_trans h.cur_le hst.2.1⟩
    obtain ⟨k, hk, hm⟩ := step_moves (T := T) (N := N) s op h ho hok hst.2.1 hhead.2 hhead.1 hst.2.2.1
    have hr := (hm.ok hok).2
    have := ih _ hnext.1 hnext.2 (step_obs s op h ho) hb.2 hst.2.2.2
    show (run (step s op).1 ops).log.length + Fair.rank T N (absC N (run (step s op).1 ops)) ≤ _
    omega

/-
FULL STATEMENT: for every balanced history over at most N tasks, a task that stays runnable (in
`_tasks`) is advanced after at most `rank < N²` work units given to other tasks, and a tick is
scheduled whenever `_tasks` is non-empty and the Cooperator is started
(`tick_scheduled_when_runnable`).
-/
/-- **No runnable task is starved**: take any balanced history `pre ++ ops` of the model; if task `T`
    is in `_tasks` (i.e. runnable, `in_tasks_iff_runnable`) at every operation boundary of the stretch
    `ops` and no `next()` call of the stretch goes to `T`, then the stretch contains fewer than `N²`
    `next()` calls in total, `N` bounding the number of tasks — whatever pauses, resumes, stops,
    creations, Deferred firings, tick budgets and removals under iteration happen meanwhile.  So a task
    that stays runnable is advanced within `N²` work units of the others, and ticks keep coming
    (`tick_scheduled_when_runnable`).  Proof: every whole `step` is a legal sequence of the four moves
    of `Fair` (`step_moves`), each work unit of another task strictly decreases `Fair.rank`. -/
theorem no_starvation (started : Bool) (pre ops : List Op) (hb : Balanced (init started) (pre ++ ops))
    (T N : Nat) (hst : Stays T N (run (init started) pre) ops) :
    (run (init started) (pre ++ ops)).log.length < (run (init started) pre).log.length + N * N := by
  have hb' := balanced_append _ pre ops hb
  have hi := run_inv _ pre (init_inv started).1 (init_inv started).2 hb'.1
  have ho := run_obs _ pre (init_inv started).1 (init_inv started).2 (init_obs started) hb'.1
  have hbound := stays_bound T N _ ops hi.1 hi.2 ho hb'.2 hst
  have hok : Fair.Ok T N (absC N (run (init started) pre)) :=
    ⟨hst.head.1, Nat.le_trans hi.1.cur_le hst.head.2⟩
  have := Fair.rank_lt' T N _ hok
  rw [run_append]
  omega

/-- non-vacuity: four tasks; task 0 is exhausted and removed under iteration in the first tick, so the
    index walk skips task 1 in the second tick (tasks 2 and 3 are served) — task 1 stays runnable and
    un-advanced through the stretch `[tick 1, tick 2]`, 3 work units -/
example :
    Stays 1 4 (run (init true) [.new [], .new [.value], .new [.value, .value], .new [.value, .value]])
      [.tick 1, .tick 2] ∧
    (run (init true) [.new [], .new [.value], .new [.value, .value], .new [.value, .value], .tick 1, .tick 2]).log.map
      (·.task) = [3, 2, 0] := by
  decide

/-- the list/iterator mechanism in isolation: for *every* sequence of the four moves that leaves `T`
    in the list and never yields it, the number of work units of other tasks is below `N²` -/
theorem no_starvation_moves (T N : Nat) (l : List Nat) (i : Nat) (ms : List Fair.Move)
    (hT : T ∈ l) (hlen : l.length ≤ N) (hi : i ≤ N) (hl : Fair.legalAll T N (l, i) ms) :
    Fair.yields ms < N * N := by
  have h1 := Fair.yields_le_rank T N (l, i) ms ⟨hT, hlen⟩ hl
  have h2 := Fair.rank_lt T N (l, i) ⟨hT, hlen⟩ hi
  omega

/-- non-vacuity: `[0, 1, 2, 3]`, the walk has just yielded task 0, which finishes and is removed —
    the walk skips task 1, serves 2 and 3, starts over; all legal for `T = 1` -/
example : Fair.legalAll 1 4 ([0, 1, 2, 3], 1) [.erase 0, .yield, .yield, .refresh] ∧
    Fair.applyAll ([0, 1, 2, 3], 1) [.erase 0, .yield, .yield, .refresh] = ([1, 2, 3], 0) := by decide

theorem model_yield (s : State) (i t : Nat) (hm : s.meta = .live i) (ht : s.cur[i]? = some t) :
    metaNext s = (some t, { s with «meta» := .live (i + 1) }) := by
  simp [metaNext, hm, ht]

theorem model_refresh (s : State) (i t : Nat) (rest : List Nat) (hm : s.meta = .live i)
    (hi : s.cur.length ≤ i) (hc : s.cur = t :: rest) :
    nextTask s = (some t, { s with «meta» := .live 1 }) := by
  have : metaNext s = (none, s) := by
    simp [metaNext, hm, List.getElem?_eq_none hi]
  exact nextTask_none_cons s s t rest this hc

theorem model_erase (s : State) (t : Nat) :
    (removeTask s t).1.cur = s.cur.erase t ∧ (removeTask s t).1.meta = s.meta :=
  ⟨removeTask_cur s t, removeTask_meta s t⟩

theorem model_append (s : State) (t : Nat) (h : s.stopped = false) :
    (addTask s t).1.cur = s.cur ++ [t] ∧ (addTask s t).1.meta = s.meta := by
  unfold addTask
  simp only [h]
  exact ⟨(reschedule_same _).cur, (reschedule_same _).meta⟩

end TwistedProps.C11
