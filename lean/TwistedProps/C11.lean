import TwistedProps.C11.Mono
import TwistedProps.C11.Fair
/-!
C11 — Cooperator advances only runnable tasks, completes each once, starves none.

Model: `TwistedModel/Reactor/Cooperator.lean` (`step : State → Op → State × Option Err`, whole
histories `run`).  Lemmas: `TwistedProps/C11/{Basic,Inv,Tick,Ops,Mono,Fair}.lean`.

Every `next()` call on a task's iterator is one `workUnit`; it writes a ghost record (`AdvRec`) of
the status the task had *at that moment*: its `_pauseCount`, the number of outstanding `pause()`
calls of its caller, whether it had finished, whether it was waiting on a Deferred it yielded.
-/
namespace TwistedProps.C11
open Twisted.Reactor.Cooperator

/-- Balanced history: `resume()` is only called by a caller that has an outstanding `pause()`
    of its own (decidable on the model state: the ghost counter `upc`). -/
def Balanced : State → List Op → Prop
  | _, [] => True
  | s, op :: ops => wfOp s op ∧ Balanced (step s op).1 ops

instance : (s : State) → (ops : List Op) → Decidable (Balanced s ops)
  | _, [] => isTrue trivial
  | s, op :: ops =>
    have := instDecidableBalanced (step s op).1 ops
    inferInstanceAs (Decidable (wfOp s op ∧ Balanced (step s op).1 ops))

theorem init_inv (started : Bool) : Inv (init started) ∧ LogOK (init started) := by
  refine ⟨⟨⟨List.nodup_nil, fun l i hm => by simp [init] at hm⟩, fun u => ⟨⟨fun hin => ?_, fun hg => ?_⟩, fun _ => rfl⟩⟩,
    fun r hr => ?_⟩
  · simp [init] at hin
  · exact absurd hg.1 (by simp [init])
  · simp [init] at hr

theorem run_inv (s : State) (ops : List Op) (h : Inv s) (hlog : LogOK s) (hb : Balanced s ops) :
    Inv (run s ops) ∧ LogOK (run s ops) := by
  induction ops generalizing s with
  | nil => exact ⟨h, hlog⟩
  | cons op ops ih =>
    have := step_inv s op h hlog hb.1
    exact ih _ this.1 this.2 hb.2

/-
FULL STATEMENT (not provable — the code falsifies it, see `never_advanced_counterexample`):
  ∀ started ops, ∀ r ∈ (run (init started) ops).log,
      r.pc = 0 ∧ r.upc = 0 ∧ r.completed = false ∧ r.waiting = false
i.e. for *any* interleaving of pause / resume / stop / ticks / Deferred firings.  What is missing
in `…_partial` is exactly the histories in which `resume()` is called without an outstanding
`pause()` of the caller while the task waits on a Deferred: `CooperativeTask.resume` then consumes
the internal pause of `_oneWorkUnit` and the task is advanced while its Deferred is pending
(finding `unmatched-resume-advanced-while-waiting`).
-/

/-- **A task is never advanced while paused, stopped, finished or waiting on a Deferred it
    yielded** — for every balanced history of any length, any scripts, any tick budgets, any
    firing order: each `next()` call found its task with `_pauseCount = 0`, not paused by its
    caller, not completed (neither exhausted, failed, stopped nor cooperator-stopped) and with no
    pending yielded Deferred. -/
theorem never_advanced_unless_runnable_partial (started : Bool) (ops : List Op)
    (hb : Balanced (init started) ops) :
    ∀ r ∈ (run (init started) ops).log,
      r.pc = 0 ∧ r.upc = 0 ∧ r.completed = false ∧ r.waiting = false :=
  (run_inv _ ops (init_inv started).1 (init_inv started).2 hb).2

/-- non-vacuity: a balanced history with pause-while-waiting, a failing Deferred, a pre-fired
    Deferred, removal under iteration, Cooperator.stop/start — 14 `next()` calls are recorded -/
def demoOps : List Op :=
  [.new [.value, .deferred 1, .value], .new [.deferred 2, .value], .new [], .coiter [.value, .raise],
   .fire 3 true, .new [.deferred 3, .value, .value],
   .tick 4, .pause 0, .tick 3, .fire 1 true, .tick 2, .resume 0, .fire 2 false, .tick 5,
   .cstop, .cstart, .new [.value], .tick 2]

example : Balanced (init true) demoOps ∧ (run (init true) demoOps).log.length = 14 := by decide

/-- the hypothesis `Balanced` cannot be dropped: `cooperate(iter([d1, …]))`, one tick (the task
    yields the pending Deferred 1), `resume()` with no `pause()` of the caller, one tick — the task
    is advanced while waiting on Deferred 1. -/
theorem never_advanced_counterexample :
    ¬ (∀ r ∈ (run (init true) [.new [.deferred 1, .value], .tick 1, .resume 0, .tick 1]).log,
        r.pc = 0 ∧ r.upc = 0 ∧ r.completed = false ∧ r.waiting = false) := by
  decide


/-! ### completes each once; operations on finished tasks -/

theorem run_append (s : State) (a b : List Op) : run s (a ++ b) = run (run s a) b := by
  induction a generalizing s with
  | nil => rfl
  | cons op a ih => exact ih _

theorem balanced_append (s : State) (a b : List Op) (h : Balanced s (a ++ b)) :
    Balanced s a ∧ Balanced (run s a) b := by
  induction a generalizing s with
  | nil => exact ⟨trivial, h⟩
  | cons op a ih => exact ⟨⟨h.1, (ih _ h.2).1⟩, (ih _ h.2).2⟩

theorem run_mono (s : State) (ops : List Op) (h : Inv s) (hlog : LogOK s) (hb : Balanced s ops) :
    Mono s (run s ops) := by
  induction ops generalizing s with
  | nil => exact Mono.refl s
  | cons op ops ih =>
    have := step_inv s op h hlog hb.1
    exact (step_mono s op h).trans (ih _ this.1 this.2 hb.2)

/-- **A task completes once**: whatever completion state (`TaskDone` / `TaskStopped` / `TaskFailed` /
    `SchedulerStopped`) and result a task has after a history, it has the same ones after any
    balanced continuation — nothing (a later `stop()`, a Deferred failing late, `Cooperator.stop`,
    a tick) completes it a second time. -/
theorem finished_task_stays_finished (started : Bool) (ops more : List Op)
    (hb : Balanced (init started) (ops ++ more)) (t : Nat) (c : Completion)
    (hc : ((run (init started) ops).getTask t).completion = some c) :
    ((run (init started) (ops ++ more)).getTask t).completion = some c ∧
    ((run (init started) (ops ++ more)).getTask t).result = ((run (init started) ops).getTask t).result := by
  have hb' := balanced_append _ ops more hb
  have hi := run_inv _ ops (init_inv started).1 (init_inv started).2 hb'.1
  rw [run_append]
  exact (run_mono _ more hi.1 hi.2 hb'.2).comp t c hc

example : ((run (init true) demoOps).getTask 1).completion = some .failed ∧
    ((run (init true) (demoOps.take 13)).getTask 1).completion = some .failed := by decide

/-- **Operations on a finished task raise the exception matching its completion** and change
    nothing: `pause()` and `stop()` raise `TaskDone` after exhaustion, `TaskStopped` after `stop()`,
    `TaskFailed` after a failure, `SchedulerStopped` after `Cooperator.stop` (`errOf`).  With
    `finished_task_stays_finished` this holds at every later point of the history. -/
theorem ops_on_finished_raise_matching (s : State) (t : Nat) (c : Completion)
    (hl : t < s.tasks.length) (hc : (s.getTask t).completion = some c) :
    step s (.pause t) = (s, some (errOf c)) ∧ step s (.stop t) = (s, some (errOf c)) := by
  constructor
  · simp only [step, hl, if_true]; exact pauseTask_done s t true c hc
  · simp only [step, hl, if_true]; simp [stopTask, hc]

example : errOf .done = .taskDone ∧ errOf .stopped = .taskStopped ∧ errOf .failed = .taskFailed
    ∧ errOf .schedStopped = .schedulerStopped := by decide

example : (step (run (init true) demoOps) (.pause 1)).2 = some .taskFailed
    ∧ (step (run (init true) demoOps) (.stop 0)).2 = some .taskDone
    ∧ (step (run (init true) [.new [.value], .cstop]) (.pause 0)).2 = some .schedulerStopped := by decide

/-
FULL STATEMENT of the whenDone clause (only partly proved):
  every whenDone / coiterate Deferred fires exactly once — at the moment its task completes (or at
  once, when the task had completed before) — with the iterator on exhaustion, and otherwise with
  the failure / stop reason; and no Deferred is ever called back twice (`dblFire = 0`).
Proved below: a fired Deferred keeps its value for ever (at most one firing is ever observable,
the model turns a second `callback` into `AlreadyCalledError`), and the task result it is compared
with never changes (`finished_task_stays_finished`).  MISSING: that all of a task's Deferreds *are*
fired by `_completeWith` with the result passed to it, and that `dblFire` stays 0 (needs the
observer/owner invariant: `_deferreds` of an unfinished task = its unfired observers, without
duplicates).  Those are checked on the real code by the history oracle of harness/corr/C11.py and
through the tie on every run.
-/
theorem whenDone_value_never_changes_partial (started : Bool) (ops more : List Op)
    (hb : Balanced (init started) (ops ++ more)) (o t : Nat) (r : Result)
    (ho : (run (init started) ops).observers[o]? = some (t, some r)) :
    (run (init started) (ops ++ more)).observers[o]? = some (t, some r) := by
  have hb' := balanced_append _ ops more hb
  have hi := run_inv _ ops (init_inv started).1 (init_inv started).2 hb'.1
  rw [run_append]
  exact (run_mono _ more hi.1 hi.2 hb'.2).obs o t r ho

example : (run (init true) (demoOps.take 9)).observers[0]? = some (3, some .iterError)
    ∧ (run (init true) demoOps).observers[0]? = some (3, some .iterError) := by decide


/-! ### no runnable task is starved -/

/-
FULL STATEMENT (only partly proved): for every balanced history over at most N tasks, a task that
stays runnable (in `_tasks`) is advanced after at most `rank < N²` work units given to other tasks
(N−1 when no other task leaves the list meanwhile), and a tick is scheduled whenever `_tasks` is
non-empty and the Cooperator is started.

Proved: the bound for the list/iterator mechanism itself.  `_tasks` and `_metarator` change only by
four moves — `_removeTask` (erase), `_addTask` (append), `next(_metarator)` (index + 1) and
`self._metarator = iter(self._tasks)` (index := 0 once the index passed the end) — and for *every*
sequence of such moves that leaves `T` in the list and never yields it, the number of work units of
other tasks is below N² (`rank` decreases strictly with each, never increases; a removal in front of
`T` can make the index walk skip `T` once — that is the removal-under-iteration quirk — but costs one
unit of position).  The four `model_…` lemmas identify the moves with the model's primitives.
MISSING: the lemma that each whole `step` of the model acts on (`cur`, `meta`) as a legal sequence of
these moves (by inspection `cur` is written only by `removeTask`, `addTask` and `coopStop`), and the
scheduled-tick invariant.  Both are exercised on the real code by the `starved` and
`runnable-but-no-tick-scheduled` checks of the history oracle on every run.
-/
theorem no_starvation_partial (T N : Nat) (l : List Nat) (i : Nat) (ms : List Fair.Move)
    (hT : T ∈ l) (hlen : l.length ≤ N) (hi : i ≤ N) (hl : Fair.legalAll T N (l, i) ms) :
    Fair.yields ms < N * N := by
  have h1 := Fair.yields_le_rank T N (l, i) ms ⟨hT, hlen⟩ hl
  have h2 := Fair.rank_lt T N (l, i) ⟨hT, hlen⟩ hi
  omega

/-- non-vacuity: `[0, 1, 2, 3]`, the walk has just yielded task 0, which finishes and is removed —
    the walk skips task 1, serves 2 and 3, starts over; all legal for `T = 1` -/
example : Fair.legalAll 1 4 ([0, 1, 2, 3], 1) [.erase 0, .yield, .yield, .refresh] ∧
    Fair.applyAll ([0, 1, 2, 3], 1) [.erase 0, .yield, .yield, .refresh] = ([1, 2, 3], 0) := by decide

theorem model_yield (s : State) (i t : Nat) (hm : s.meta = .live i) (ht : s.cur[i]? = some t) :
    metaNext s = (some t, { s with «meta» := .live (i + 1) }) := by
  simp [metaNext, hm, ht]

theorem model_refresh (s : State) (i t : Nat) (rest : List Nat) (hm : s.meta = .live i)
    (hi : s.cur.length ≤ i) (hc : s.cur = t :: rest) :
    nextTask s = (some t, { s with «meta» := .live 1 }) := by
  have : metaNext s = (none, s) := by
    simp [metaNext, hm, List.getElem?_eq_none hi]
  exact nextTask_none_cons s s t rest this hc

theorem model_erase (s : State) (t : Nat) :
    (removeTask s t).1.cur = s.cur.erase t ∧ (removeTask s t).1.meta = s.meta :=
  ⟨removeTask_cur s t, removeTask_meta s t⟩

theorem model_append (s : State) (t : Nat) (h : s.stopped = false) :
    (addTask s t).1.cur = s.cur ++ [t] ∧ (addTask s t).1.meta = s.meta := by
  unfold addTask
  simp only [h]
  exact ⟨(reschedule_same _).cur, (reschedule_same _).meta⟩

end TwistedProps.C11
