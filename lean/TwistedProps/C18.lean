import TwistedProps.C18.Reach
/-!
C18 — HTTP/1.1 server parsing does not depend on how bytes are segmented.

Model: `TwistedModel/Http/Channel.lean` (`HTTPChannel` on `LineReceiver`, the body decoders of
`Http/Chunked.lean`, any deterministic application `App`).  Statement proved here, for EVERY
application, EVERY byte stream (well-formed or not) and EVERY split of it into deliveries:

  the requests handed to the application, the bytes written, whether the server closed the
  connection (and an exception escaping `dataReceived`) are the same as for the one-piece delivery;
  and while the connection is up, the whole channel state and `LineReceiver._buffer` are the same,
  so everything that happens later (postponed responses, further deliveries) is the same too.

The proof is an invariant argument: the receive loop commutes with appending to its buffer
(`C18/Append.lean: D_append`), by induction over the loop, for every state satisfying the channel
invariant `Inv` (`C18/Inv.lean`), given the splitting property of the body decoder in use.

What is proved / what is missing.  The splitting property is proved for `_IdentityTransferDecoder`
(`identity_decoder_splits`).  For `_ChunkedTransferDecoder` it is the explicit hypothesis
`ChunkedSplit` (a statement about `Twisted.Http.Chunked.dataReceived` alone: feeding `B` then `b`
is feeding `B ++ b`; rejection and completion are not changed by later bytes; a decoder that wanted
more completes only by consuming something).  It is exercised by the correspondence checks of C22
and C18 (every split of chunked bodies) but not yet proved in Lean — hence `…_partial`:

  FULL STATEMENT (not yet proved):  `∀ app chunks, obs (runOps app Twisted.Http.Channel.init (chunks.map .data)) =
     obs (runOps app Twisted.Http.Channel.init [.data chunks.flatten])`   — i.e. `http_seg_invariant_partial` without `hc`.
-/
namespace TwistedProps.C18
open Twisted.Http.Chunked hiding St feed init
open Twisted.Http.Channel

/-- what the property observes of a connection -/
structure Obs where
  delivered : List Req          -- requests handed to the application (method, target, version, headers, body)
  written : Bytes               -- bytes the server wrote
  closed : Bool                 -- `transport.loseConnection()` was called
  raised : Option Exc           -- an exception escaped `dataReceived`
  deriving DecidableEq

def obs (s : St) : Obs := ⟨delivered s.outs, written s.outs, s.chan.closed, s.chan.raised⟩

/-- the splitting property of `_ChunkedTransferDecoder`, for decoders satisfying `okc` -/
structure ChunkedSplit (okc : Dec → Prop) : Prop where
  more : ∀ d B b d', okc d → decFeed (.chunked d) B = .more d' →
    decFeed d' b = decFeed (.chunked d) (B ++ b) ∧ ∃ d2, d' = .chunked d2 ∧ okc d2
  fin : ∀ d B b body extra, okc d → decFeed (.chunked d) B = .fin body extra →
    decFeed (.chunked d) (B ++ b) = .fin body (extra ++ b)
  bad : ∀ d B b, okc d → decFeed (.chunked d) B = .bad → decFeed (.chunked d) (B ++ b) = .bad
  exc : ∀ d B b e, okc d → decFeed (.chunked d) B = .exc e → decFeed (.chunked d) (B ++ b) = .exc e
  prog : ∀ d B b d' body extra, okc d → decFeed (.chunked d) B = .more d' → decFeed d' b = .fin body extra →
    extra.length < b.length
  init : okc Twisted.Http.Chunked.init

def okAll (okc : Dec → Prop) : Decoder → Prop
  | .none => True
  | .ident d => identOK d
  | .chunked d => okc d

theorem ident_prog (d : Ident) (B b body extra : Bytes) (d' : Decoder) (hok : identOK d)
    (h : decFeed (.ident d) B = .more d') (h2 : decFeed d' b = .fin body extra) : extra.length < b.length := by
  obtain ⟨ha, hf⟩ := hok
  unfold decFeed at h
  simp only [Ident.dataReceived, ha] at h
  cases hc : d.contentLength with
  | none =>
    simp [hc, hf] at h
    subst h
    simp [decFeed, Ident.dataReceived, ha, hc, hf] at h2
  | some n =>
    simp only [hc] at h
    by_cases hlt : B.length < n
    · simp [hlt, hf] at h
      subst h
      simp only [decFeed, Ident.dataReceived, ha] at h2
      by_cases h3 : b.length < n - B.length
      · simp [h3, hf] at h2
      · simp [h3, hf] at h2
        rw [← h2.2]
        simp only [List.length_drop]
        omega
    · simp [hlt, hf] at h

/-- **`_IdentityTransferDecoder` splits**: feeding `B` and then `b` is feeding `B ++ b`, whatever the
    bytes; a completed body and its leftover are not changed by what follows -/
theorem identity_decoder_splits (d : Ident) (B b : Bytes) (hok : identOK d) :
    (∀ d', decFeed (.ident d) B = .more d' → decFeed d' b = decFeed (.ident d) (B ++ b)) ∧
    (∀ body extra, decFeed (.ident d) B = .fin body extra → decFeed (.ident d) (B ++ b) = .fin body (extra ++ b)) ∧
    (∀ e, decFeed (.ident d) B = .exc e → decFeed (.ident d) (B ++ b) = .exc e) :=
  ⟨fun d' h => (ident_more d B b d' hok h).1, fun body extra h => ident_fin d B b body extra hok h,
   fun e h => ident_exc d B b e h⟩

theorem splitOK_of (okc : Dec → Prop) (hc : ChunkedSplit okc) : SplitOK (okAll okc) where
  more := by
    intro d B b d' hok h
    cases d with
    | none => simp [decFeed] at h
    | ident d => exact (ident_more d B b d' hok h).1
    | chunked d => exact (hc.more d B b d' hok h).1
  fin := by
    intro d B b body extra hok h
    cases d with
    | none => simp [decFeed] at h
    | ident d => exact ident_fin d B b body extra hok h
    | chunked d => exact hc.fin d B b body extra hok h
  bad := by
    intro d B b hok h
    cases d with
    | none => simp [decFeed] at h
    | ident d => exact absurd h (ident_not_bad d B)
    | chunked d => exact hc.bad d B b hok h
  exc := by
    intro d B b e hok h
    cases d with
    | none => simpa [decFeed] using h
    | ident d => exact ident_exc d B b e h
    | chunked d => exact hc.exc d B b e hok h
  keep := by
    intro d B d' hok h
    cases d with
    | none => simp [decFeed] at h
    | ident d =>
      obtain ⟨_, d2, hd, hk⟩ := ident_more d B [] d' hok h
      subst hd; exact hk
    | chunked d =>
      obtain ⟨_, d2, hd, hk⟩ := hc.more d B [] d' hok h
      subst hd; exact hk
  prog := by
    intro d B b d' body extra hok h h2
    cases d with
    | none => simp [decFeed] at h
    | ident d => exact ident_prog d B b body extra d' hok h h2
    | chunked d => exact hc.prog d B b d' body extra hok h h2
  none := trivial
  ident := fun n => ⟨rfl, rfl⟩
  chunked := hc.init

def resOf (s : St) : Res := (s.chan, s.buffer, s.outs)

theorem inv_init (ok : Decoder → Prop) (H : SplitOK ok) : Inv ok ({} : Chan) :=
  ⟨fun _ => rfl, fun _ => rfl, fun _ _ => Or.inl rfl, rfl, rfl, H.none⟩

theorem live_init : live ({} : Chan) := ⟨rfl, rfl⟩

theorem feed_res (app : App) (s : St) (data : Bytes) (hd : s.chan.dead = false) :
    resOf (feed app s data) = pre s.outs (D app s.chan (s.buffer ++ data)) ∧ (feed app s data).lost = s.lost := by
  simp [Twisted.Http.Channel.feed, hd, resOf, pre, D]

/-- one more delivery keeps the split run in agreement with the one-piece run -/
theorem seg_step (ok : Decoder → Prop) (H : SplitOK ok) (app : App) (A c : Bytes) (X : St)
    (hag : Agree (D app {} A) (resOf X)) (hlost : X.lost = false) (hinv : live X.chan → Inv ok X.chan) :
    Agree (D app {} (A ++ c)) (resOf (step app X (.data c))) ∧ (step app X (.data c)).lost = false ∧
    (live (step app X (.data c)).chan → Inv ok (step app X (.data c)).chan) := by
  have happ := D_append ok H app (A.length + 1) {} A c (by omega) (inv_init ok H) live_init
  by_cases hlX : live X.chan
  · have hIX := hinv hlX
    obtain ⟨e1, e2⟩ := hag.2.2.2 hlX
    have hlY : live (D app {} A).1 := by rw [e1]; exact hlX
    have hns : X.stopped = false := by simp [St.stopped, hlX.1, hlX.2, hlost]
    have hstep : step app X (.data c) = Twisted.Http.Channel.feed app X c := by simp [step, hns]
    obtain ⟨hr, hl⟩ := feed_res app X c hIX.i4
    rw [hstep]
    refine ⟨?_, by rw [hl]; exact hlost, ?_⟩
    · rw [hr]
      refine Agree.trans happ ?_
      rw [seq_live _ _ _ hlY, e1, e2]
      exact Agree.pre _ _ hag.2.2.1 (Agree.refl _)
    · have : (Twisted.Http.Channel.feed app X c).chan = (D app X.chan (X.buffer ++ c)).1 := by
        have := congrArg (·.1) hr; simpa [resOf, pre] using this
      rw [this]
      exact D_inv ok H app _ X.chan (X.buffer ++ c) (Nat.lt_succ_self _) hIX hlX
  · have hs : X.stopped = true := by
      unfold live at hlX
      simp only [St.stopped, Bool.or_eq_true, Option.isSome_iff_ne_none]
      by_cases hc : X.chan.closed = true
      · exact Or.inl (Or.inl hc)
      · exact Or.inl (Or.inr (fun hr => hlX ⟨by simpa using hc, hr⟩))
    have hstep : step app X (.data c) = X := by simp [step, hs]
    rw [hstep]
    refine ⟨?_, hlost, fun h => absurd h hlX⟩
    have hlY : ¬ live (D app {} A).1 := by
      intro h
      apply hlX
      exact ⟨hag.1.symm.trans h.1, hag.2.1.symm.trans h.2⟩
    rw [seq_dead _ _ _ hlY] at happ
    exact Agree.trans happ hag

theorem seg_steps (ok : Decoder → Prop) (H : SplitOK ok) (app : App) :
    ∀ (cs : List Bytes) (A : Bytes) (X : St), Agree (D app {} A) (resOf X) → X.lost = false →
      (live X.chan → Inv ok X.chan) →
      Agree (D app {} (A ++ cs.flatten)) (resOf (runOps app X (cs.map .data))) := by
  intro cs
  induction cs with
  | nil => intro A X h _ _; simpa [runOps] using h
  | cons c cs ih =>
    intro A X hag hlost hinv
    obtain ⟨h1, h2, h3⟩ := seg_step ok H app A c X hag hlost hinv
    have := ih (A ++ c) _ h1 h2 h3
    simpa [runOps, List.append_assoc] using this

/-- the split run agrees with the one-piece run -/
theorem seg_agree (ok : Decoder → Prop) (H : SplitOK ok) (app : App) (chunks : List Bytes) :
    Agree (D app {} chunks.flatten) (resOf (runOps app Twisted.Http.Channel.init (chunks.map .data))) := by
  have := seg_steps ok H app chunks [] Twisted.Http.Channel.init (by rw [D_nil]; exact Agree.refl _) rfl
    (fun _ => inv_init ok H)
  simpa using this

theorem runOps_one (app : App) (Z : Bytes) :
    resOf (runOps app Twisted.Http.Channel.init [.data Z]) = D app {} Z := by
  have hs : (Twisted.Http.Channel.init : St).stopped = false := rfl
  have : runOps app Twisted.Http.Channel.init [.data Z] = Twisted.Http.Channel.feed app Twisted.Http.Channel.init Z := by
    simp [runOps, step, hs]
  rw [this, (feed_res app Twisted.Http.Channel.init Z rfl).1]
  show pre [] (D app {} ([] ++ Z)) = D app {} Z
  rw [pre_nil, List.nil_append]

/-- **C18, observables** (partial: `hc` is the splitting property of the chunked decoder, see the
    header).  For every application, every byte stream and every split of it into deliveries, the
    requests handed to the application, the bytes written, the closing of the connection and an
    escaping exception are those of the one-piece delivery. -/
theorem http_seg_invariant_partial (okc : Dec → Prop) (hc : ChunkedSplit okc) (app : App) (chunks : List Bytes) :
    obs (runOps app Twisted.Http.Channel.init (chunks.map .data)) = obs (runOps app Twisted.Http.Channel.init [.data chunks.flatten]) := by
  have hag := seg_agree (okAll okc) (splitOK_of okc hc) app chunks
  have h1 := runOps_one app chunks.flatten
  rw [← h1] at hag
  obtain ⟨a1, a2, a3, _⟩ := hag
  simp only [resOf] at a1 a2 a3
  simp only [obs]
  rw [← written_core, ← delivered_core, ← a3, written_core, delivered_core, a1, a2]

/-- **C18, state** (partial, same hypothesis): while the connection is up after the split delivery, the
    channel and the receive buffer are exactly those of the one-piece delivery — so whatever happens
    next (a postponed response being finished, more deliveries, pause/resume, loss) happens the same. -/
theorem http_seg_state_partial (okc : Dec → Prop) (hc : ChunkedSplit okc) (app : App) (chunks : List Bytes)
    (hup : (runOps app Twisted.Http.Channel.init (chunks.map .data)).stopped = false) :
    (runOps app Twisted.Http.Channel.init (chunks.map .data)).chan = (runOps app Twisted.Http.Channel.init [.data chunks.flatten]).chan ∧
    (runOps app Twisted.Http.Channel.init (chunks.map .data)).buffer = (runOps app Twisted.Http.Channel.init [.data chunks.flatten]).buffer := by
  have hag := seg_agree (okAll okc) (splitOK_of okc hc) app chunks
  have h1 := runOps_one app chunks.flatten
  rw [← h1] at hag
  have hl : live (runOps app Twisted.Http.Channel.init (chunks.map .data)).chan := by
    simp only [St.stopped, Bool.or_eq_false_iff] at hup
    exact ⟨hup.1.1, by simpa using hup.1.2⟩
  obtain ⟨e1, e2⟩ := hag.2.2.2 hl
  exact ⟨e1.symm, e2.symm⟩

/-! ### non-vacuity: a pipelined stream with a body, cut inside the request line, inside the body
    and inside the second request — the split run hands over two requests and answers both -/

/-- answers every request at once with `k` (one byte per request index) -/
def exApp : App where
  onRequest := fun k _ => ([UInt8.ofNat (48 + k)], true)
  notifies := fun _ _ => 0
  finishable := fun _ _ => false
  onFinish := fun _ _ => []

/-- `POST /a HTTP/1.1\r\nContent-Length: 3\r\n\r\nabcGET /b HTTP/1.1\r\n\r\n` in four pieces -/
def exChunks : List Bytes :=
  [[80, 79, 83, 84, 32, 47], [97, 32, 72, 84, 84, 80, 47, 49, 46, 49, 13, 10, 67, 111, 110, 116, 101, 110, 116, 45, 76, 101,
    110, 103, 116, 104, 58, 32, 51, 13, 10, 13, 10, 97], [98, 99, 71, 69, 84, 32, 47, 98, 32, 72, 84, 84, 80, 47, 49, 46, 49, 13],
   [10, 13, 10]]

example : (obs (runOps exApp Twisted.Http.Channel.init (exChunks.map .data))).written = [48, 49] ∧
    ((obs (runOps exApp Twisted.Http.Channel.init (exChunks.map .data))).delivered.map (·.body)) = [[97, 98, 99], []] ∧
    (obs (runOps exApp Twisted.Http.Channel.init (exChunks.map .data))).closed = false ∧
    obs (runOps exApp Twisted.Http.Channel.init (exChunks.map .data)) = obs (runOps exApp Twisted.Http.Channel.init [.data exChunks.flatten]) := by
  decide +kernel

end TwistedProps.C18
