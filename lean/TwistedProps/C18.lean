import TwistedProps.C18.Reach
import TwistedProps.C18.ChunkedSplit
/-!
C18 — HTTP/1.1 server parsing does not depend on how bytes are segmented.

Model: `TwistedModel/Http/Channel.lean` (`HTTPChannel` on `LineReceiver`, the body decoders of
`Http/Chunked.lean`, any deterministic application `App`).  Statement proved here, for EVERY
application, EVERY byte stream (well-formed or not) and EVERY split of it into deliveries:

  the requests handed to the application, the bytes written, whether the server closed the
  connection (and an exception escaping `dataReceived`) are the same as for the one-piece delivery
  (`http_seg_invariant`); and while the connection is up, `LineReceiver._buffer` is the same and the
  channel state is the same except for one dead attribute of a chunked decoder (`http_seg_state`).

The proof is an invariant argument: the receive loop commutes with appending to its buffer
(`C18/Append.lean: D_append`), by induction over the loop, for every state satisfying the channel
invariant `Inv` (`C18/Inv.lean`), given the splitting property `SplitOK` of the body decoders.
That property is proved for both decoders, with no hypothesis left:

* `_IdentityTransferDecoder` — `identity_decoder_splits`;
* `_ChunkedTransferDecoder` — `chunked_decoder_splits` (`C18/ChunkedFind.lean`, `ChunkedStep.lean`,
  `ChunkedLoop.lean`, `ChunkedSplit.lean`; the per-handler case analysis reuses `loop_eq` and the
  byte lemmas of `TwistedProps/C22/`): for every decoder state reachable before `finishCallback`,
  every `B` and `b` — malformed or not — `dataReceived(B); dataReceived(b)` and `dataReceived(B + b)`
  deliver the same bytes, finish with the same leftover, or raise the same exception after the same
  callbacks.

"Same decoder" is up to `lenEq`: `_dataReceived_BODY` leaves `self.length` untouched when it delivers
the end of a chunk, so afterwards (states CRLF / CHUNK_LENGTH, until the next size line overwrites it)
the attribute holds the whole chunk size after a one-piece delivery and the part that was missing
after a split one.  It is never read in between; `outc_lenEq` proves that `dataReceived` cannot tell
such decoders apart, and `D_rel` lifts that to the channel.  Strict equality of the decoder objects
is false: `chunked_length_attr_differs`.
-/
namespace TwistedProps.C18
open Twisted.Http.Chunked hiding St feed init
open Twisted.Http.Channel
open TwistedProps.C22 (loop_eq)

/-- what the property observes of a connection -/
structure Obs where
  delivered : List Req          -- requests handed to the application (method, target, version, headers, body)
  written : Bytes               -- bytes the server wrote
  closed : Bool                 -- `transport.loseConnection()` was called
  raised : Option Exc           -- an exception escaped `dataReceived`
  deriving DecidableEq

def obs (s : St) : Obs := ⟨delivered s.outs, written s.outs, s.chan.closed, s.chan.raised⟩

theorem ident_prog (d : Ident) (B b body extra : Bytes) (d' : Decoder) (hok : identOK d)
    (h : decFeed (.ident d) B = .more d') (h2 : decFeed d' b = .fin body extra) : extra.length < b.length := by
  obtain ⟨ha, hf⟩ := hok
  unfold decFeed at h
  simp only [Ident.dataReceived, ha] at h
  cases hc : d.contentLength with
  | none =>
    simp [hc, hf] at h
    subst h
    simp [decFeed, Ident.dataReceived, ha, hc, hf] at h2
  | some n =>
    simp only [hc] at h
    by_cases hlt : B.length < n
    · simp [hlt, hf] at h
      subst h
      simp only [decFeed, Ident.dataReceived, ha] at h2
      by_cases h3 : b.length < n - B.length
      · simp [h3, hf] at h2
      · simp [h3, hf] at h2
        rw [← h2.2]
        simp only [List.length_drop]
        omega
    · simp [hlt, hf] at h

/-- **`_IdentityTransferDecoder` splits**: feeding `B` and then `b` is feeding `B ++ b`, whatever the
    bytes; a completed body and its leftover are not changed by what follows -/
theorem identity_decoder_splits (d : Ident) (B b : Bytes) (hok : identOK d) :
    (∀ d', decFeed (.ident d) B = .more d' → decFeed d' b = decFeed (.ident d) (B ++ b)) ∧
    (∀ body extra, decFeed (.ident d) B = .fin body extra → decFeed (.ident d) (B ++ b) = .fin body (extra ++ b)) ∧
    (∀ e, decFeed (.ident d) B = .exc e → decFeed (.ident d) (B ++ b) = .exc e) :=
  ⟨fun d' h => (ident_more d B b d' hok h).1, fun body extra h => ident_fin d B b body extra hok h,
   fun e h => ident_exc d B b e h⟩

/-- **`_ChunkedTransferDecoder` splits**: for a decoder that has not finished (`chunkedOK`: what
    `dataReceived` leaves while `finishCallback` has not fired, starting from a new decoder), feeding
    `B` and then `b` is feeding `B ++ b`, whatever the bytes:
    * more wanted after `B`: the same verdict for `b` as for `B ++ b` in one piece (same delivered
      bytes; decoders equal up to the dead `length`, `DRes.rel`), the decoder is again `chunkedOK`, and
      it completes only by consuming part of `b`;
    * completed by `B` with leftover `extra`: completed by `B ++ b` with the same body and leftover `extra ++ b`;
    * `_MalformedChunkedDataError` on `B`: the same on `B ++ b`; no other exception escapes. -/
theorem chunked_decoder_splits (d : Dec) (B b : Bytes) (hok : chunkedOK d) :
    (∀ d', decFeed (.chunked d) B = .more d' →
      DRes.rel (decFeed d' b) (decFeed (.chunked d) (B ++ b)) ∧ (∃ d2, d' = .chunked d2 ∧ chunkedOK d2) ∧
      ∀ body extra, decFeed d' b = .fin body extra → extra.length < b.length) ∧
    (∀ body extra, decFeed (.chunked d) B = .fin body extra → decFeed (.chunked d) (B ++ b) = .fin body (extra ++ b)) ∧
    (decFeed (.chunked d) B = .bad → decFeed (.chunked d) (B ++ b) = .bad) ∧
    (∀ e, decFeed (.chunked d) B ≠ .exc e) := by
  refine ⟨fun d' h => ?_, fun body extra h => chunk_fin d B b body extra hok h, fun h => chunk_bad d B b hok h, ?_⟩
  · obtain ⟨h1, d2, h2, h3, _⟩ := chunk_more d B b d' hok h
    exact ⟨h1, ⟨d2, h2, h3⟩, fun body extra hf => chunk_prog d B b body extra d' hok h hf⟩
  · intro e h
    rw [decFeed_chunked] at h
    obtain ⟨_, _, h3⟩ := outc_split _ (d.append B) (Nat.lt_succ_self _) (chunkedOK_append d B hok) []
    cases ho : outc (d.append B) with
    | ok s' => rw [ho] at h; simp only [ofOutc] at h; split at h <;> simp at h
    | error x =>
      obtain ⟨e1, y⟩ := x
      have := (h3 _ ho).1
      simp only at this
      subst this
      rw [ho] at h
      simp [ofOutc] at h

/-- the same at the level of `_ChunkedTransferDecoder.dataReceived` itself, raising cases included:
    `outc s` is the decoder after the loop ran on what is buffered, or the exception class with the
    bytes `dataCallback` and the arguments `finishCallback` had received before the raise -/
theorem chunked_dataReceived_splits (d : Dec) (B b : Bytes) (hok : chunkedOK d) :
    (∀ d', outc (d.append B) = .ok d' → d'.state ≠ .finished →
      chunkedOK d' ∧ resRel (outc (d'.append b)) (outc (d.append (B ++ b)))) ∧
    (∀ d', outc (d.append B) = .ok d' → d'.state = .finished →
      ∃ extra, d'.fin = [extra] ∧ outc (d.append (B ++ b)) = .ok { d' with fin := [extra ++ b] }) ∧
    (∀ e dat fn, outc (d.append B) = .error (e, dat, fn) →
      e = .malformed ∧ outc (d.append (B ++ b)) = .error (e, dat, fn)) := by
  obtain ⟨h1, h2, h3⟩ := outc_split _ (d.append B) (Nat.lt_succ_self _) (chunkedOK_append d B hok) b
  rw [append_append] at h1 h2 h3
  exact ⟨h1, h2, fun e dat fn h => h3 (e, dat, fn) h⟩

theorem splitOK_all : SplitOK okAll where
  more := by
    intro d B b d' hok h
    cases d with
    | none => simp [decFeed] at h
    | ident d => exact Or.inl (ident_more d B b d' hok h).1
    | chunked d => exact (chunk_more d B b d' hok h).1
  cong := by
    intro d1 d2 Y hok h
    cases d2 with
    | none => rw [decRel_none h]; exact DRes.rel.refl _
    | ident d => rw [decRel_ident h]; exact DRes.rel.refl _
    | chunked d => exact chunk_cong d1 d Y h
  fin := by
    intro d B b body extra hok h
    cases d with
    | none => simp [decFeed] at h
    | ident d => exact ident_fin d B b body extra hok h
    | chunked d => exact chunk_fin d B b body extra hok h
  bad := by
    intro d B b hok h
    cases d with
    | none => simp [decFeed] at h
    | ident d => exact absurd h (ident_not_bad d B)
    | chunked d => exact chunk_bad d B b hok h
  exc := by
    intro d B b e hok h
    cases d with
    | none => simpa [decFeed] using h
    | ident d => exact ident_exc d B b e h
    | chunked d => exact chunk_exc d B b e hok h
  keep := by
    intro d B d' hok h
    cases d with
    | none => simp [decFeed] at h
    | ident d =>
      obtain ⟨_, d2, hd, hk⟩ := ident_more d B [] d' hok h
      subst hd; exact hk
    | chunked d =>
      obtain ⟨_, d2, hd, hk, _⟩ := chunk_more d B [] d' hok h
      subst hd; exact hk
  prog := by
    intro d B b d' body extra hok h h2
    cases d with
    | none => simp [decFeed] at h
    | ident d => exact ident_prog d B b body extra d' hok h h2
    | chunked d => exact chunk_prog d B b body extra d' hok h h2
  none := trivial
  ident := fun n => ⟨rfl, rfl⟩
  chunked := chunkedOK_init

def resOf (s : St) : Res := (s.chan, s.buffer, s.outs)

theorem inv_init (ok : Decoder → Prop) (H : SplitOK ok) : Inv ok ({} : Chan) :=
  ⟨fun _ => rfl, fun _ => rfl, fun _ _ => Or.inl rfl, rfl, rfl, H.none⟩

theorem live_init : live ({} : Chan) := ⟨rfl, rfl⟩

theorem feed_res (app : App) (s : St) (data : Bytes) (hd : s.chan.dead = false) :
    resOf (feed app s data) = pre s.outs (D app s.chan (s.buffer ++ data)) ∧ (feed app s data).lost = s.lost := by
  simp [Twisted.Http.Channel.feed, hd, resOf, pre, D]

/-- one more delivery keeps the split run in agreement with the one-piece run -/
theorem seg_step (ok : Decoder → Prop) (H : SplitOK ok) (app : App) (A c : Bytes) (X : St)
    (hag : Agree (D app {} A) (resOf X)) (hlost : X.lost = false) (hinv : live X.chan → Inv ok X.chan) :
    Agree (D app {} (A ++ c)) (resOf (step app X (.data c))) ∧ (step app X (.data c)).lost = false ∧
    (live (step app X (.data c)).chan → Inv ok (step app X (.data c)).chan) := by
  have happ := D_append ok H app (A.length + 1) {} A c (by omega) (inv_init ok H) live_init
  by_cases hlX : live X.chan
  · have hIX := hinv hlX
    obtain ⟨e1, e2⟩ := hag.2.2.2 hlX
    have hlY : live (D app {} A).1 := e1.live.mpr hlX
    have hns : X.stopped = false := by simp [St.stopped, hlX.1, hlX.2, hlost]
    have hstep : step app X (.data c) = Twisted.Http.Channel.feed app X c := by simp [step, hns]
    obtain ⟨hr, hl⟩ := feed_res app X c hIX.i4
    rw [hstep]
    refine ⟨?_, by rw [hl]; exact hlost, ?_⟩
    · rw [hr]
      refine Agree.trans happ ?_
      rw [seq_live _ _ _ hlY, e2]
      exact Agree.pre _ _ hag.2.2.1 (D_rel ok H app _ _ _ e1 hIX hlX)
    · have : (Twisted.Http.Channel.feed app X c).chan = (D app X.chan (X.buffer ++ c)).1 := by
        have := congrArg (·.1) hr; simpa [resOf, pre] using this
      rw [this]
      exact D_inv ok H app _ X.chan (X.buffer ++ c) (Nat.lt_succ_self _) hIX hlX
  · have hs : X.stopped = true := by
      unfold live at hlX
      simp only [St.stopped, Bool.or_eq_true, Option.isSome_iff_ne_none]
      by_cases hc : X.chan.closed = true
      · exact Or.inl (Or.inl hc)
      · exact Or.inl (Or.inr (fun hr => hlX ⟨by simpa using hc, hr⟩))
    have hstep : step app X (.data c) = X := by simp [step, hs]
    rw [hstep]
    refine ⟨?_, hlost, fun h => absurd h hlX⟩
    have hlY : ¬ live (D app {} A).1 := by
      intro h
      apply hlX
      exact ⟨hag.1.symm.trans h.1, hag.2.1.symm.trans h.2⟩
    rw [seq_dead _ _ _ hlY] at happ
    exact Agree.trans happ hag

theorem seg_steps (ok : Decoder → Prop) (H : SplitOK ok) (app : App) :
    ∀ (cs : List Bytes) (A : Bytes) (X : St), Agree (D app {} A) (resOf X) → X.lost = false →
      (live X.chan → Inv ok X.chan) →
      Agree (D app {} (A ++ cs.flatten)) (resOf (runOps app X (cs.map .data))) := by
  intro cs
  induction cs with
  | nil => intro A X h _ _; simpa [runOps] using h
  | cons c cs ih =>
    intro A X hag hlost hinv
    obtain ⟨h1, h2, h3⟩ := seg_step ok H app A c X hag hlost hinv
    have := ih (A ++ c) _ h1 h2 h3
    simpa [runOps, List.append_assoc] using this

/-- the split run agrees with the one-piece run -/
theorem seg_agree (ok : Decoder → Prop) (H : SplitOK ok) (app : App) (chunks : List Bytes) :
    Agree (D app {} chunks.flatten) (resOf (runOps app Twisted.Http.Channel.init (chunks.map .data))) := by
  have := seg_steps ok H app chunks [] Twisted.Http.Channel.init (by rw [D_nil]; exact Agree.refl _) rfl
    (fun _ => inv_init ok H)
  simpa using this

theorem runOps_one (app : App) (Z : Bytes) :
    resOf (runOps app Twisted.Http.Channel.init [.data Z]) = D app {} Z := by
  have hs : (Twisted.Http.Channel.init : St).stopped = false := rfl
  have : runOps app Twisted.Http.Channel.init [.data Z] = Twisted.Http.Channel.feed app Twisted.Http.Channel.init Z := by
    simp [runOps, step, hs]
  rw [this, (feed_res app Twisted.Http.Channel.init Z rfl).1]
  show pre [] (D app {} ([] ++ Z)) = D app {} Z
  rw [pre_nil, List.nil_append]

/-- **C18, observables.**  For every application, every byte stream and every split of it into
    deliveries, the requests handed to the application (method, target, version, headers, body), the
    bytes written, the closing of the connection and an escaping exception are those of the
    one-piece delivery. -/
theorem http_seg_invariant (app : App) (chunks : List Bytes) :
    obs (runOps app Twisted.Http.Channel.init (chunks.map .data)) = obs (runOps app Twisted.Http.Channel.init [.data chunks.flatten]) := by
  have hag := seg_agree okAll splitOK_all app chunks
  have h1 := runOps_one app chunks.flatten
  rw [← h1] at hag
  obtain ⟨a1, a2, a3, _⟩ := hag
  simp only [resOf] at a1 a2 a3
  simp only [obs]
  rw [← written_core, ← delivered_core, ← a3, written_core, delivered_core, a1, a2]

/-- **C18, state**: while the connection is up after the split delivery, the receive buffer is exactly
    that of the one-piece delivery, and so is the channel — up to `chanRel`: identical, or (raw mode,
    body being received) identical except for the `length` attribute of the chunked decoder while
    that attribute is dead (`lenEq`).  By `D_rel` whatever is delivered next is handled the same. -/
theorem http_seg_state (app : App) (chunks : List Bytes)
    (hup : (runOps app Twisted.Http.Channel.init (chunks.map .data)).stopped = false) :
    chanRel (runOps app Twisted.Http.Channel.init [.data chunks.flatten]).chan (runOps app Twisted.Http.Channel.init (chunks.map .data)).chan ∧
    (runOps app Twisted.Http.Channel.init (chunks.map .data)).buffer = (runOps app Twisted.Http.Channel.init [.data chunks.flatten]).buffer := by
  have hag := seg_agree okAll splitOK_all app chunks
  have h1 := runOps_one app chunks.flatten
  rw [← h1] at hag
  have hl : live (runOps app Twisted.Http.Channel.init (chunks.map .data)).chan := by
    simp only [St.stopped, Bool.or_eq_false_iff] at hup
    exact ⟨hup.1.1, by simpa using hup.1.2⟩
  obtain ⟨e1, e2⟩ := hag.2.2.2 hl
  exact ⟨e1, e2.symm⟩

/-! ### non-vacuity: a pipelined stream with a body, cut inside the request line, inside the body
    and inside the second request — the split run hands over two requests and answers both -/

/-- answers every request at once with `k` (one byte per request index) -/
def exApp : App where
  onRequest := fun k _ => ([UInt8.ofNat (48 + k)], true)
  notifies := fun _ _ => 0
  finishable := fun _ _ => false
  onFinish := fun _ _ => []

/-- `POST /a HTTP/1.1\r\nContent-Length: 3\r\n\r\nabcGET /b HTTP/1.1\r\n\r\n` in four pieces -/
def exChunks : List Bytes :=
  [[80, 79, 83, 84, 32, 47], [97, 32, 72, 84, 84, 80, 47, 49, 46, 49, 13, 10, 67, 111, 110, 116, 101, 110, 116, 45, 76, 101,
    110, 103, 116, 104, 58, 32, 51, 13, 10, 13, 10, 97], [98, 99, 71, 69, 84, 32, 47, 98, 32, 72, 84, 84, 80, 47, 49, 46, 49, 13],
   [10, 13, 10]]

example : (obs (runOps exApp Twisted.Http.Channel.init (exChunks.map .data))).written = [48, 49] ∧
    ((obs (runOps exApp Twisted.Http.Channel.init (exChunks.map .data))).delivered.map (·.body)) = [[97, 98, 99], []] ∧
    (obs (runOps exApp Twisted.Http.Channel.init (exChunks.map .data))).closed = false ∧
    obs (runOps exApp Twisted.Http.Channel.init (exChunks.map .data)) = obs (runOps exApp Twisted.Http.Channel.init [.data exChunks.flatten]) := by
  decide +kernel

/-! ### non-vacuity at the deliveries the mutation audit found under-tested: a chunked request with an
    extension and a trailer, pipelined, where one delivery ends after the CR of the chunk-size line, one
    after the CR of the trailer line and one between the CR and LF that end the trailer section -/

/-- `POST / HTTP/1.1\r\nTransfer-Encoding: chunked\r\n\r\n3;x\r\nabc\r\n0\r\nT: v\r\n\r\nGET /b HTTP/1.1\r\n\r\n` cut after the CR of the
    chunk-size line, after the CR of the trailer line and between the CR and LF that end the trailer section -/
def exChunks2 : List Bytes :=
  [[80, 79, 83, 84, 32, 47, 32, 72, 84, 84, 80, 47, 49, 46, 49, 13, 10, 84, 114, 97, 110, 115, 102, 101, 114, 45, 69, 110, 99, 111, 100, 105, 110, 103, 58, 32, 99, 104, 117, 110, 107, 101, 100, 13, 10, 13, 10, 51, 59, 120, 13],
   [10, 97, 98, 99, 13, 10, 48, 13, 10, 84, 58, 32, 118, 13],
   [10, 13],
   [10, 71, 69, 84, 32, 47, 98, 32, 72, 84, 84, 80, 47, 49, 46, 49, 13, 10, 13, 10]]

example : (obs (runOps exApp Twisted.Http.Channel.init (exChunks2.map .data))).written = [48, 49] ∧
    ((obs (runOps exApp Twisted.Http.Channel.init (exChunks2.map .data))).delivered.map (·.body)) = [[97, 98, 99], []] ∧
    (obs (runOps exApp Twisted.Http.Channel.init (exChunks2.map .data))).closed = false ∧
    obs (runOps exApp Twisted.Http.Channel.init (exChunks2.map .data)) = obs (runOps exApp Twisted.Http.Channel.init [.data exChunks2.flatten]) := by
  decide +kernel

/-! ### the dead `length` attribute: why "same decoder" is up to `lenEq` -/

def exS1 : Dec := { Twisted.Http.Chunked.init with buffer := [53, 13, 10, 97, 98] }
def exS2 : Dec := { Twisted.Http.Chunked.init with state := .body, length := 5, buffer := [97, 98] }
def exS3 : Dec := { Twisted.Http.Chunked.init with state := .body, length := 3, buffer := [], data := [97, 98] }
def exS4 : Dec := { Twisted.Http.Chunked.init with state := .crlf, length := 3, buffer := [], data := [97, 98, 99, 100, 101] }
def exT2 : Dec := { Twisted.Http.Chunked.init with state := .body, length := 5, buffer := [97, 98, 99, 100, 101] }
def exT3 : Dec := { Twisted.Http.Chunked.init with state := .crlf, length := 5, buffer := [], data := [97, 98, 99, 100, 101] }

theorem ex_h1 : handler exS1 = .ok (true, exS2) := by
  simp [handler, exS1, exS2, Twisted.Http.Chunked.init, handleChunkLength, findCRLF, findCRLFFrom, CR, LF,
    maxChunkSizeLineLength, hexint, isHexDigits, isHexDigit, splitSemi, SEMI, hexVal, hexDigitVal]

theorem ex_h2 : handler exS2 = .ok (true, exS3) := by
  simp [handler, exS2, exS3, Twisted.Http.Chunked.init, handleBody]

theorem ex_h3 : handler (exS3.append [99, 100, 101]) = .ok (true, exS4) := by
  simp [handler, exS3, exS4, Dec.append, Twisted.Http.Chunked.init, handleBody]

theorem ex_g1 : handler (Twisted.Http.Chunked.init.append [53, 13, 10, 97, 98, 99, 100, 101]) = .ok (true, exT2) := by
  simp [handler, exT2, Dec.append, Twisted.Http.Chunked.init, handleChunkLength, findCRLF, findCRLFFrom, CR, LF,
    maxChunkSizeLineLength, hexint, isHexDigits, isHexDigit, splitSemi, SEMI, hexVal, hexDigitVal]

theorem ex_g2 : handler exT2 = .ok (true, exT3) := by
  simp [handler, exT2, exT3, Twisted.Http.Chunked.init, handleBody]

theorem ex_d1 : dataReceived Twisted.Http.Chunked.init [53, 13, 10, 97, 98] = .ok exS3 := by
  have e0 : Twisted.Http.Chunked.init.append [53, 13, 10, 97, 98] = exS1 := rfl
  unfold dataReceived
  rw [e0, loop_eq exS1, if_neg (by simp [exS1]), ex_h1]
  simp only
  rw [loop_eq exS2, if_neg (by simp [exS2]), ex_h2]
  simp only
  rw [loop_eq exS3, if_pos (by simp [exS3])]

/-- **strict equality of the decoder objects is false**: after `5\r\nab` + `cde` the attribute
    `length` of the decoder is 3 (what was missing of the chunk), after `5\r\nabcde` in one piece
    it is 5 — same state CRLF, same delivered bytes; the decoders are `lenEq` and not equal -/
theorem chunked_length_attr_differs :
    ∃ d1 d2 d3, dataReceived Twisted.Http.Chunked.init [53, 13, 10, 97, 98] = .ok d1 ∧
      dataReceived d1 [99, 100, 101] = .ok d2 ∧
      dataReceived Twisted.Http.Chunked.init [53, 13, 10, 97, 98, 99, 100, 101] = .ok d3 ∧
      d2.length = 3 ∧ d3.length = 5 ∧ d2.data = d3.data ∧ lenEq d2 d3 ∧ d2 ≠ d3 := by
  refine ⟨exS3, exS4, exT3, ?_, ?_, ?_, rfl, rfl, rfl, ⟨rfl, fun h => by simp [exS4] at h⟩, by simp [exS4, exT3]⟩
  · exact ex_d1
  · unfold dataReceived
    rw [loop_eq (exS3.append _), if_neg (by simp [exS3, Dec.append]), ex_h3]
    simp only
    rw [loop_eq exS4, if_pos (by simp [exS4])]
  · unfold dataReceived
    rw [loop_eq (Dec.append _ _), if_neg (by simp [Dec.append]), ex_g1]
    simp only
    rw [loop_eq exT2, if_neg (by simp [exT2]), ex_g2]
    simp only
    rw [loop_eq exT3, if_pos (by simp [exT3])]

/-- non-vacuity of `chunked_decoder_splits`: a new decoder is `chunkedOK`, and `5\r\nab` leaves it
    wanting more (state BODY, 3 bytes missing, `ab` delivered) — the `more` clause applies -/
example : chunkedOK Twisted.Http.Chunked.init ∧
    decFeed (.chunked Twisted.Http.Chunked.init) [53, 13, 10, 97, 98] = .more (.chunked exS3) ∧
    exS3.state = .body ∧ exS3.length = 3 ∧ exS3.data = [97, 98] := by
  refine ⟨chunkedOK_init, ?_, rfl, rfl, rfl⟩
  unfold decFeed
  simp only [ex_d1]
  rfl

end TwistedProps.C18
