import TwistedProps.C04.DLInv
import TwistedProps.C04.RaceInv
/-!
C04 — DeferredList, gatherResults and race fire once with correctly ordered results.

Model: `TwistedModel/Defer/Aggregate.lean` (`DL.run flags inputs ops`, `Race.run inputs ops`): any list of input
Deferreds — each unfired or already fired at construction, each with any canceller kind — and ANY history `ops` over
{fire input i with r, cancel the aggregate, cancel input i} (a firing of an already fired input is the identity, so
every firing permutation is among the histories).  `log` is the firing order as the aggregate sees it (the calls of
its per-input callback), `fires` the results accepted by the aggregate's own callback/errback.

DeferredList / gatherResults — all proved for every input list, flag combination and history:
  `dl_fires_at_most_once`, `dl_fires_once_when_all_fired`, `dl_fires_spec` (+ `dl_log_faithful`): the complete
  description of what it fires with and when; the clauses of the statement are read off it:
  `dl_all_results_in_input_order`, `dl_fireOnOneCallback_first_success`, `dl_fireOnOneErrback_FirstError`
  (both from `dl_first_trigger`), `dl_consumeErrors_later_callbacks_see_none`, `gather_values_in_input_order`,
  `gather_first_failure`, `dl_cancel_unfired_cancels_inputs`; `dl_fire_appends_log` ties `log` to the history.

race — proved for every input list and history: `race_fires_at_most_once` (and the model's `unmodelled` branch is
  never reached), `race_result_sound` (a success result is the FIRST success's (index, value); a FailureGroup
  holds n delivered failures sorted by input index), `race_winner_is_first_success`; per step, for every state:
  `race_first_success_cancels_all_others` (each other input exactly one `cancel()`, the winner none — also when a
  canceller raises: the repaired code), `race_later_success_ignored`.
  PARTIAL (`race_first_success_partial`): FULL STATEMENT WANTED — "if the race was not cancelled before, the first
  success (i, v) makes it fire with `won i v`".  PROVED — it then HAS fired, exactly once, with `won i v`, or with
  `cancelledErr` (cancelled before), or with some FailureGroup.  MISSING — that the FailureGroup alternative is
  impossible (needs the counting invariant "every input is delivered at most once", so `failure_state` cannot reach
  n while one input succeeded; not proved in Lean, exercised by the tie and the oracle on every run).  For the same
  reason "all n inputs failed ⇒ it fires with the FailureGroup" and "cancelling an unfired race calls cancel() on
  every input" are established by the tie/oracle only, not by a theorem.
-/
namespace TwistedProps.C04
set_option linter.unusedSimpArgs false
set_option linter.unusedVariables false
open Twisted.Defer.Aggregate

/-- input `i` of `s` has fired -/
def Fired (s : DL) (i : Nat) : Prop := ∃ inp r, s.inputs[i]? = some inp ∧ inp.res = some r

theorem specFires_length (fl : Flags) (n : Nat) (log rl) : (specFires fl n log rl).length ≤ 1 := by
  unfold specFires; split
  · simp
  · split <;> simp

/-- **fires at most once**, whatever the inputs, flags, pre-fired subset and history -/
theorem dl_fires_at_most_once (fl : Flags) (inputs : List Inp) (ops : List Op) :
    (DL.run fl inputs ops).agg.fires.length ≤ 1 := by
  have h := run_inv fl inputs ops
  rw [h.agg.spec]; exact specFires_length _ _ _ _

theorem fireInput_length (s : DL) (i : Nat) (r : Res) : (DL.fireInput s i r).inputs.length = s.inputs.length := by
  unfold DL.fireInput DL.deliver
  split
  · rfl
  · split <;> simp

theorem cancelLoop_length (is : List Nat) (s : DL) : (DL.cancelLoop s is).inputs.length = s.inputs.length := by
  induction is generalizing s with
  | nil => rfl
  | cons i is ih => simp only [DL.cancelLoop]; rw [ih, cancelInput_length]

theorem step_length (s : DL) (op : Op) : (DL.step s op).inputs.length = s.inputs.length := by
  cases op with
  | fire i r => exact fireInput_length s i r
  | cancelAgg => simp only [DL.step, DL.cancelAgg]; split <;> simp [cancelLoop_length]
  | cancelInput i => exact cancelInput_length s i

theorem exec_length (ops : List Op) (s : DL) : (DL.exec s ops).inputs.length = s.inputs.length := by
  induction ops generalizing s with
  | nil => rfl
  | cons op ops ih => simp only [DL.exec]; rw [ih, step_length]

theorem run_length (fl : Flags) (inputs : List Inp) (ops : List Op) :
    (DL.run fl inputs ops).inputs.length = inputs.length := by
  unfold DL.run; rw [exec_length, (construct_inv fl inputs).2]

/-- **what it fires with, and when** — in terms of the firing order `log` (the calls of `_cbDeferred`):
    the first delivery that triggers (`fireOnOneCallback` + success → `(value, index)`;
    `fireOnOneErrback` + failure → `FirstError`), otherwise the result list once all `n` are in. -/
theorem dl_fires_spec (fl : Flags) (inputs : List Inp) (ops : List Op) :
    let s := DL.run fl inputs ops
    s.agg.fires = specFires fl inputs.length s.agg.log s.agg.resultList := by
  intro s
  have h := run_inv fl inputs ops
  have := h.agg.spec
  rw [h.flags, run_length] at this
  exact this

/-- the firing order and the result list describe the inputs faithfully: slot `i` holds
    `(success?, r)` iff input `i` was delivered with `r`; an input is in the log iff it has fired;
    the log has one entry per fired input -/
theorem dl_log_faithful (fl : Flags) (inputs : List Inp) (ops : List Op) :
    let s := DL.run fl inputs ops
    s.agg.resultList.length = inputs.length ∧
    (∀ i b r, s.agg.resultList[i]? = some (some (b, r)) ↔ ((i, r) ∈ s.agg.log ∧ b = !r.isFailure)) ∧
    (∀ i, i < inputs.length → (Fired s i ↔ ∃ r, (i, r) ∈ s.agg.log)) ∧
    s.agg.log.length = s.agg.resultList.countP Option.isSome := by
  intro s
  have h := run_inv fl inputs ops
  have hl := run_length fl inputs ops
  refine ⟨by rw [h.agg.len, hl], h.agg.slots, ?_, by rw [h.agg.logLen, h.agg.count]⟩
  intro i hi
  have := h.link i (by rw [hl]; exact hi)
  unfold Fired
  constructor
  · rintro ⟨inp, r, h1, h2⟩
    obtain ⟨⟨b, r'⟩, hx⟩ := this.1 ⟨r, by rw [resOf_getElem?, h1]; simp [h2]⟩
    exact ⟨r', ((h.agg.slots i b r').1 hx).1⟩
  · rintro ⟨r, hr⟩
    obtain ⟨r', hr'⟩ := this.2 ⟨_, (h.agg.slots i _ r).2 ⟨hr, rfl⟩⟩
    rw [resOf_getElem?] at hr'
    cases hin : (DL.run fl inputs ops).inputs[i]? with
    | none => rw [hin] at hr'; simp at hr'
    | some inp =>
      rw [hin] at hr'; simp at hr'
      exact ⟨inp, r', rfl, hr'⟩


/-! ### the clauses of the statement, read off `dl_fires_spec` -/

theorem findSome?_first {α β} (f : α → Option β) (pre post : List α) (e : α) (b : β)
    (hpre : ∀ x ∈ pre, f x = none) (he : f e = some b) : (pre ++ e :: post).findSome? f = some b := by
  induction pre with
  | nil => simp [he]
  | cons x xs ih =>
    simp only [List.cons_append, List.findSome?_cons, hpre x (by simp)]
    exact ih (fun y hy => hpre y (by simp [hy]))

theorem findSome?_none {α β} (f : α → Option β) (l : List α) (h : ∀ x ∈ l, f x = none) : l.findSome? f = none := by
  induction l with
  | nil => rfl
  | cons x xs ih => simp only [List.findSome?_cons, h x (by simp)]; exact ih (fun y hy => h y (by simp [hy]))

/-- the first triggering delivery decides, whatever comes later -/
theorem dl_first_trigger (fl : Flags) (inputs : List Inp) (ops : List Op) (pre post : List (Nat × Res))
    (e : Nat × Res) (a : AggRes)
    (hlog : (DL.run fl inputs ops).agg.log = pre ++ e :: post)
    (hpre : ∀ x ∈ pre, trigger fl x = none) (he : trigger fl e = some a) :
    (DL.run fl inputs ops).agg.fires = [a] := by
  have := dl_fires_spec fl inputs ops
  simp only [] at this
  rw [this, hlog]; unfold specFires
  rw [findSome?_first _ _ _ _ _ hpre he]

/-- `fireOnOneCallback`: the first success in firing order, as `(value, index)` — when no failure
    before it triggered `fireOnOneErrback` -/
theorem dl_fireOnOneCallback_first_success (fl : Flags) (inputs : List Inp) (ops : List Op)
    (pre post : List (Nat × Res)) (i : Nat) (v : Res) (hfoc : fl.foc = true)
    (hlog : (DL.run fl inputs ops).agg.log = pre ++ (i, v) :: post)
    (hv : v.isFailure = false) (hpre : ∀ x ∈ pre, x.2.isFailure = true) (hfoe : pre = [] ∨ fl.foe = false) :
    (DL.run fl inputs ops).agg.fires = [.one v i] := by
  apply dl_first_trigger fl inputs ops pre post (i, v) _ hlog
  · intro x hx
    rcases hfoe with h | h
    · subst h; simp at hx
    · simp [trigger, hpre x hx, h]
  · simp [trigger, hv, hfoc]

/-- `fireOnOneErrback`: the first failure in firing order, as `FirstError(failure, index)` — when no
    success before it triggered `fireOnOneCallback` -/
theorem dl_fireOnOneErrback_FirstError (fl : Flags) (inputs : List Inp) (ops : List Op)
    (pre post : List (Nat × Res)) (i : Nat) (f : Res) (hfoe : fl.foe = true)
    (hlog : (DL.run fl inputs ops).agg.log = pre ++ (i, f) :: post)
    (hf : f.isFailure = true) (hpre : ∀ x ∈ pre, x.2.isFailure = false) (hfoc : pre = [] ∨ fl.foc = false) :
    (DL.run fl inputs ops).agg.fires = [.firstError f i] := by
  apply dl_first_trigger fl inputs ops pre post (i, f) _ hlog
  · intro x hx
    rcases hfoc with h | h
    · subst h; simp at hx
    · simp [trigger, hpre x hx, h]
  · simp [trigger, hf, hfoe]

theorem countP_isSome_eq_length_iff (l : List (Option (Bool × Res))) :
    l.countP Option.isSome = l.length ↔ ∀ i, i < l.length → ∃ x, l[i]? = some (some x) := by
  rw [List.countP_eq_length]
  constructor
  · intro h i hi
    have := h l[i] (List.getElem_mem hi)
    cases hx : l[i] with
    | none => rw [hx] at this; simp at this
    | some x => exact ⟨x, by rw [List.getElem?_eq_getElem hi, hx]⟩
  · intro h a ha
    obtain ⟨i, hi, rfl⟩ := List.getElem_of_mem ha
    obtain ⟨x, hx⟩ := h i hi
    rw [List.getElem?_eq_getElem hi] at hx
    simp at hx; simp [hx]

/-- no delivery triggers (in particular: both `fireOnOne*` flags off): the list fires exactly when the
    last input is in, once, with `(success, result)` of input `i` at position `i` -/
theorem dl_all_results_in_input_order (fl : Flags) (inputs : List Inp) (ops : List Op)
    (hn : 0 < inputs.length)
    (hno : ∀ x ∈ (DL.run fl inputs ops).agg.log, trigger fl x = none) :
    ((∀ i, i < inputs.length → Fired (DL.run fl inputs ops) i) →
        ∃ L, (DL.run fl inputs ops).agg.fires = [.list L] ∧ L.length = inputs.length ∧
          ∀ i, i < inputs.length → ∃ r, (i, r) ∈ (DL.run fl inputs ops).agg.log ∧ L[i]? = some (some (!r.isFailure, r))) ∧
    ((∃ i, i < inputs.length ∧ ¬ Fired (DL.run fl inputs ops) i) → (DL.run fl inputs ops).agg.fires = []) := by
  have hspec := dl_fires_spec fl inputs ops
  obtain ⟨hlen, hslots, hfired, hcount⟩ := dl_log_faithful fl inputs ops
  simp only [] at hspec
  have hnone := findSome?_none _ _ hno
  unfold specFires at hspec
  rw [hnone] at hspec
  simp only [] at hspec
  constructor
  · intro hall
    have hfull : (DL.run fl inputs ops).agg.resultList.countP Option.isSome = (DL.run fl inputs ops).agg.resultList.length := by
      rw [countP_isSome_eq_length_iff]
      intro i hi
      obtain ⟨r, hr⟩ := (hfired i (by omega)).1 (hall i (by omega))
      exact ⟨_, (hslots i _ r).2 ⟨hr, rfl⟩⟩
    refine ⟨(DL.run fl inputs ops).agg.resultList, ?_, hlen, ?_⟩
    · rw [hspec, if_pos ⟨by rw [hcount, hfull, hlen], Or.inl hn⟩]
    · intro i hi
      obtain ⟨r, hr⟩ := (hfired i hi).1 (hall i hi)
      exact ⟨r, hr, (hslots i _ r).2 ⟨hr, rfl⟩⟩
  · rintro ⟨i, hi, hnf⟩
    rw [hspec, if_neg]
    rintro ⟨h1, _⟩
    rw [hcount, ← hlen] at h1
    obtain ⟨⟨b, r⟩, hx⟩ := (countP_isSome_eq_length_iff _).1 h1 i (by omega)
    exact hnf ((hfired i hi).2 ⟨r, ((hslots i b r).1 hx).1⟩)

/-- every flag combination: once all inputs have fired, the DeferredList has fired (exactly once) -/
theorem dl_fires_once_when_all_fired (fl : Flags) (inputs : List Inp) (ops : List Op) (hn : 0 < inputs.length)
    (hall : ∀ i, i < inputs.length → Fired (DL.run fl inputs ops) i) :
    (DL.run fl inputs ops).agg.fires.length = 1 := by
  have hspec := dl_fires_spec fl inputs ops
  obtain ⟨hlen, hslots, hfired, hcount⟩ := dl_log_faithful fl inputs ops
  simp only [] at hspec hlen hslots hfired hcount
  rw [hspec]; unfold specFires
  split
  · rfl
  · have hfull : (DL.run fl inputs ops).agg.resultList.countP Option.isSome = (DL.run fl inputs ops).agg.resultList.length := by
      rw [countP_isSome_eq_length_iff]
      intro i hi
      obtain ⟨r, hr⟩ := (hfired i (by omega)).1 (hall i (by omega))
      exact ⟨_, (hslots i _ r).2 ⟨hr, rfl⟩⟩
    rw [if_pos ⟨by rw [hcount, hfull, hlen], Or.inl hn⟩]; rfl

/-- `consumeErrors`: a callback added to input `i` after the DeferredList exists sees `None` in place
    of a failure (and the success value / the failure itself otherwise) -/
theorem dl_consumeErrors_later_callbacks_see_none (fl : Flags) (inputs : List Inp) (ops : List Op)
    (i : Nat) (r : Res) (h : (i, r) ∈ (DL.run fl inputs ops).agg.log) :
    ∃ inp, (DL.run fl inputs ops).inputs[i]? = some inp ∧
      inp.res = some (if r.isFailure && fl.ce then .pyNone else r) := by
  have := (run_inv fl inputs ops).seen i r h
  rw [resOf_getElem?] at this
  cases hin : (DL.run fl inputs ops).inputs[i]? with
  | none => rw [hin] at this; simp at this
  | some inp => rw [hin] at this; simp at this; exact ⟨inp, rfl, by simpa [seenBy] using this⟩


/-! ### gatherResults -/

theorem parseList_all (l : List (Option (Bool × Res)))
    (h : ∀ i, i < l.length → ∃ r, l[i]? = some (some (true, r))) :
    ∃ vs, parseList l = some vs ∧ vs.length = l.length ∧
      ∀ (i : Nat) (r : Res), l[i]? = some (some (true, r)) → vs[i]? = some r := by
  induction l with
  | nil => exact ⟨[], rfl, rfl, by simp⟩
  | cons x xs ih =>
    obtain ⟨r0, hr0⟩ := h 0 (by simp)
    simp at hr0; subst hr0
    obtain ⟨vs, h1, h2, h3⟩ := ih (fun i hi => by
      have := h (i + 1) (by simp; omega)
      simpa using this)
    refine ⟨r0 :: vs, by simp [parseList, h1], by simp [h2], ?_⟩
    intro i r hi
    cases i with
    | zero => simp at hi; simp [hi]
    | succ i => simp at hi; simpa using h3 i r hi

/-- gatherResults, all inputs fired and all succeeded: the values, input `i`'s at position `i` -/
theorem gather_values_in_input_order (ce : Bool) (inputs : List Inp) (ops : List Op) (hn : 0 < inputs.length)
    (hall : ∀ i, i < inputs.length → Fired (DL.run (gatherFlags ce) inputs ops) i)
    (hok : ∀ x ∈ (DL.run (gatherFlags ce) inputs ops).agg.log, x.2.isFailure = false) :
    ∃ vs, gatherFires (DL.run (gatherFlags ce) inputs ops) = [.values vs] ∧ vs.length = inputs.length ∧
      ∀ i, i < inputs.length → ∃ r, (i, r) ∈ (DL.run (gatherFlags ce) inputs ops).agg.log ∧ vs[i]? = some r := by
  have hno : ∀ x ∈ (DL.run (gatherFlags ce) inputs ops).agg.log, trigger (gatherFlags ce) x = none := by
    intro x hx; simp [trigger, gatherFlags, hok x hx]
  obtain ⟨L, hL, hlen, hLi⟩ := (dl_all_results_in_input_order _ inputs ops hn hno).1 hall
  have hLs : ∀ i, i < L.length → ∃ r, L[i]? = some (some (true, r)) := by
    intro i hi
    obtain ⟨r, hr, hx⟩ := hLi i (by omega)
    exact ⟨r, by rw [hx]; simp [hok _ hr]⟩
  obtain ⟨vs, h1, h2, h3⟩ := parseList_all L hLs
  refine ⟨vs, by simp [gatherFires, hL, parse, h1], by omega, ?_⟩
  intro i hi
  obtain ⟨r, hr, hx⟩ := hLi i hi
  exact ⟨r, hr, h3 i r (by rw [hx]; simp [hok _ hr])⟩

/-- gatherResults: the first failure in firing order, as `FirstError(failure, index)` -/
theorem gather_first_failure (ce : Bool) (inputs : List Inp) (ops : List Op)
    (pre post : List (Nat × Res)) (i : Nat) (f : Res)
    (hlog : (DL.run (gatherFlags ce) inputs ops).agg.log = pre ++ (i, f) :: post)
    (hf : f.isFailure = true) (hpre : ∀ x ∈ pre, x.2.isFailure = false) :
    gatherFires (DL.run (gatherFlags ce) inputs ops) = [.firstError f i] := by
  have := dl_fireOnOneErrback_FirstError (gatherFlags ce) inputs ops pre post i f rfl hlog hf hpre (Or.inr rfl)
  simp [gatherFires, this, parse]

/-! ### cancellation of the aggregate -/

theorem cancelInput_inputs (s : DL) (j : Nat) (inp : Inp) (h : s.inputs[j]? = some inp) :
    ∃ X : Inp, (DL.cancelInput s j).inputs = s.inputs.set j X ∧ X.cancels = inp.cancels + 1 := by
  unfold DL.cancelInput DL.deliver
  rw [h]
  simp only []
  split
  · exact ⟨_, rfl, rfl⟩
  · split
    · refine ⟨_, rfl, ?_⟩; split <;> rfl
    · refine ⟨_, rfl, ?_⟩; split <;> rfl

theorem cancelInput_cancels (s : DL) (j i : Nat) :
    ((DL.cancelInput s j).inputs[i]?).map (·.cancels) =
      (s.inputs[i]?).map (fun x => x.cancels + if i = j then 1 else 0) := by
  cases hj : s.inputs[j]? with
  | none =>
    have : DL.cancelInput s j = s := by unfold DL.cancelInput; rw [hj]
    rw [this]
    by_cases hij : i = j
    · subst hij; simp [hj]
    · simp [hij]
  | some inp =>
    obtain ⟨X, hX, hc⟩ := cancelInput_inputs s j inp hj
    rw [hX, List.getElem?_set]
    by_cases hij : j = i
    · subst hij
      have hlt := lt_of_getElem?_some hj
      have hg : s.inputs[j] = inp := by
        rw [List.getElem?_eq_getElem hlt] at hj; exact Option.some.inj hj
      simp [hlt, hg, hc]
    · have : ¬ i = j := fun e => hij e.symm
      simp [hij, this]

theorem cancelLoop_cancels (is : List Nat) (s : DL) (i : Nat) :
    ((DL.cancelLoop s is).inputs[i]?).map (·.cancels) = (s.inputs[i]?).map (fun x => x.cancels + is.count i) := by
  induction is generalizing s with
  | nil => simp [DL.cancelLoop]
  | cons j is ih =>
    simp only [DL.cancelLoop]
    rw [ih]
    have h1 := cancelInput_cancels s j i
    cases hx : (DL.cancelInput s j).inputs[i]? with
    | none =>
      rw [hx] at h1
      cases hy : s.inputs[i]? with
      | none => rfl
      | some y => rw [hy] at h1; simp at h1
    | some x =>
      rw [hx] at h1
      cases hy : s.inputs[i]? with
      | none => rw [hy] at h1; simp at h1
      | some y =>
        rw [hy] at h1
        simp only [Option.map_some, List.count_cons, Option.some.injEq] at h1 ⊢
        by_cases hij : i = j
        · subst hij; simp at h1 ⊢; omega
        · have : ¬ j = i := fun e => hij e.symm
          simp [hij, this] at h1 ⊢; omega

/-- **cancelling an unfired DeferredList (or gatherResults) calls `cancel()` on every input, once** —
    also on inputs that have fired and on those whose canceller raises; a fired one is left alone -/
theorem dl_cancel_unfired_cancels_inputs (s : DL) (i : Nat) (inp : Inp) (h : s.inputs[i]? = some inp) :
    ∃ inp', (DL.cancelAgg s).inputs[i]? = some inp' ∧
      inp'.cancels = inp.cancels + (if s.agg.called then 0 else 1) := by
  unfold DL.cancelAgg
  by_cases hc : s.agg.called = true
  · simp [hc, h]
  · have hc' : s.agg.called = false := by simpa using hc
    simp only [hc', Bool.not_false, if_true]
    have := cancelLoop_cancels (List.range s.inputs.length) s i
    rw [h] at this
    simp only [Option.map_some, List.count_range, lt_of_getElem?_some h, if_true] at this
    cases hx : (DL.cancelLoop s (List.range s.inputs.length)).inputs[i]? with
    | none => rw [hx] at this; simp at this
    | some inp' => rw [hx] at this; simp at this; exact ⟨inp', rfl, by simpa using this⟩


/-! ### the log is the firing order -/

/-- firing an unfired input appends exactly `(i, r)` to the log; firing a fired one changes nothing -/
theorem dl_fire_appends_log (s : DL) (i : Nat) (r : Res) (inp : Inp) (h : s.inputs[i]? = some inp) :
    (inp.res = none → (DL.fireInput s i r).agg.log = s.agg.log ++ [(i, r)] ∧ Fired (DL.fireInput s i r) i) ∧
    (inp.res ≠ none → DL.fireInput s i r = s) := by
  unfold DL.fireInput
  rw [h]
  constructor
  · intro hn
    simp only [hn, DL.deliver, cbDeferred_log, true_and]
    exact ⟨{ inp with res := some (cbDeferred s.agg i r).2, canc := .none }, (cbDeferred s.agg i r).2,
      by simp [lt_of_getElem?_some h], rfl⟩
  · intro hn
    cases hr : inp.res with
    | none => exact absurd hr hn
    | some x => simp [hr]

/-! ### non-vacuity (concrete runs of the model) -/

example : (DL.run {} [{}, {}, {}] [.fire 2 (.val 1), .fire 0 (.err 2), .fire 1 (.val 3)]).agg.fires
    = [.list [some (false, .err 2), some (true, .val 3), some (true, .val 1)]] := by decide
example : (DL.run {} [{}, {}, {}] [.fire 2 (.val 1), .fire 0 (.err 2)]).agg.fires = [] := by decide
example : (DL.run { foc := true, ce := true } [{}, { res := some (.err 4) }, {}]
    [.fire 2 (.val 1), .fire 0 (.val 2)]).agg.fires = [.one (.val 1) 2] := by decide
example : (DL.run { foe := true, ce := true } [{}, {}] [.fire 1 (.err 5), .fire 0 (.val 2)]).agg.fires
    = [.firstError (.err 5) 1] := by decide
example : ((DL.run { foe := true, ce := true } [{}, {}] [.fire 1 (.err 5), .fire 0 (.val 2)]).inputs.map (·.res))
    = [some (.val 2), some .pyNone] := by decide
example : gatherFires (DL.run (gatherFlags false) [{}, {}, { res := some (.val 9) }] [.fire 1 (.val 1), .fire 0 (.val 2)])
    = [.values [.val 2, .val 1, .val 9]] := by decide
example : ((DL.run {} [{ canc := .raises }, { canc := .firesOk 7 }, { canc := .noop }] [.cancelAgg]).inputs.map (·.cancels))
    = [1, 1, 1] := by decide

theorem failed_inputs (s : Race) (j : Nat) (f : Res) : (Race.failed s j f).1.inputs = s.inputs := by
  unfold Race.failed Race.fireFinal
  simp only []
  split
  · split <;> rfl
  · rfl

theorem callbackNested_inputs (s : Race) (j : Nat) (r : Res) : (Race.callbackNested s j r).1.inputs = s.inputs := by
  unfold Race.callbackNested Race.succeededNested
  split
  · exact failed_inputs s j r
  · simp only []; split <;> rfl

theorem getElem?_some_lt {α} {l : List α} {i : Nat} {x : α} (h : l[i]? = some x) : i < l.length := by
  rcases Nat.lt_or_ge i l.length with h1 | h1
  · exact h1
  · rw [List.getElem?_eq_none h1] at h; simp at h

theorem deliverNested_inputs (s : Race) (j : Nat) (inp : Inp) (r : Res) :
    ∃ X : Inp, (Race.deliverNested s j inp r).inputs = s.inputs.set j X ∧ X.cancels = inp.cancels := by
  unfold Race.deliverNested
  simp only []
  split
  · exact ⟨{ inp with res := some (Race.callbackNested
        { s with inputs := s.inputs.set j { inp with res := some r, canc := .none } } j r).2, canc := .none },
      by rw [callbackNested_inputs]; simp only [List.set_set], rfl⟩
  · exact ⟨{ inp with res := some r, canc := .none }, rfl, rfl⟩

theorem cancelNested_inputs (s : Race) (j : Nat) (inp : Inp) (h : s.inputs[j]? = some inp) :
    ∃ X : Inp, (Race.cancelNested s j).inputs = s.inputs.set j X ∧ X.cancels = inp.cancels + 1 := by
  unfold Race.cancelNested
  rw [h]
  simp only []
  split
  · exact ⟨_, rfl, rfl⟩
  · split
    · refine ⟨_, rfl, ?_⟩; split <;> rfl
    · rename_i r hr
      obtain ⟨X, hX, hc⟩ := deliverNested_inputs
        { s with inputs := s.inputs.set j (if inp.canc.effect.2 = true then
            { inp with cancels := inp.cancels + 1, cancCalls := inp.cancCalls + 1 }
            else { inp with cancels := inp.cancels + 1 }) } j
        (if inp.canc.effect.2 = true then
            { inp with cancels := inp.cancels + 1, cancCalls := inp.cancCalls + 1 }
            else { inp with cancels := inp.cancels + 1 }) r
      refine ⟨X, ?_, ?_⟩
      · rw [hX]; simp only [List.set_set]
      · rw [hc]; split <;> rfl

theorem cancelNested_cancels (s : Race) (j i : Nat) :
    ((Race.cancelNested s j).inputs[i]?).map (·.cancels) =
      (s.inputs[i]?).map (fun x => x.cancels + if i = j then 1 else 0) := by
  cases hj : s.inputs[j]? with
  | none =>
    have : Race.cancelNested s j = s := by unfold Race.cancelNested; rw [hj]
    rw [this]
    by_cases hij : i = j
    · subst hij; simp [hj]
    · simp [hij]
  | some inp =>
    obtain ⟨X, hX, hc⟩ := cancelNested_inputs s j inp hj
    rw [hX, List.getElem?_set]
    by_cases hij : j = i
    · subst hij
      have hlt := getElem?_some_lt hj
      have hg : s.inputs[j] = inp := by
        rw [List.getElem?_eq_getElem hlt] at hj; exact Option.some.inj hj
      simp [hlt, hg, hc]
    · have : ¬ i = j := fun e => hij e.symm
      simp [hij, this]

theorem cancelOthers_cancels (w : Nat) (js : List Nat) (s : Race) (i : Nat) :
    ((Race.cancelOthers s w js).inputs[i]?).map (·.cancels) =
      (s.inputs[i]?).map (fun x => x.cancels + if i = w then 0 else js.count i) := by
  induction js generalizing s with
  | nil => simp [Race.cancelOthers]
  | cons j js ih =>
    simp only [Race.cancelOthers]
    rw [ih]
    by_cases hjw : j = w
    · simp only [hjw, if_true]
      cases s.inputs[i]? with
      | none => rfl
      | some y =>
        simp only [Option.map_some, List.count_cons]
        by_cases hiw : i = w
        · simp [hiw]
        · have : ¬ w = i := fun e => hiw e.symm
          simp [hiw, this]
    · simp only [hjw, if_false]
      have h1 := cancelNested_cancels s j i
      cases hx : (Race.cancelNested s j).inputs[i]? with
      | none =>
        rw [hx] at h1
        cases hy : s.inputs[i]? with
        | none => rfl
        | some y => rw [hy] at h1; simp at h1
      | some x =>
        rw [hx] at h1
        cases hy : s.inputs[i]? with
        | none => rw [hy] at h1; simp at h1
        | some y =>
          rw [hy] at h1
          simp only [Option.map_some, List.count_cons, Option.some.injEq] at h1 ⊢
          by_cases hiw : i = w
          · simp [hiw]
            subst hiw
            have : ¬ i = j := fun e => hjw e.symm
            simp [this] at h1; omega
          · simp only [hiw, if_false]
            by_cases hij : i = j
            · subst hij; simp at h1 ⊢; omega
            · have : ¬ j = i := fun e => hij e.symm
              simp [hij, this] at h1 ⊢; omega

/-- **the first success cancels every other input exactly once and never the winner** — whatever the
    other inputs' state and cancellers (also one that raises), for every state in which no input has won yet -/
theorem race_first_success_cancels_all_others (s : Race) (hw : s.winner = none) (i : Nat) (v : Res)
    (k : Nat) (inp : Inp) (h : s.inputs[k]? = some inp) :
    ∃ inp', (Race.succeeded s i v).1.inputs[k]? = some inp' ∧
      inp'.cancels = inp.cancels + (if k = i then 0 else 1) := by
  unfold Race.succeeded Race.fireFinal
  simp only [hw, Option.isNone_none, if_true]
  have hc := cancelOthers_cancels i (List.range s.inputs.length)
    { s with log := s.log ++ [(i, v)], winner := some i } k
  simp only [h, Option.map_some, List.count_range, getElem?_some_lt h, if_true] at hc
  cases hx : (Race.cancelOthers { s with log := s.log ++ [(i, v)], winner := some i } i
      (List.range s.inputs.length)).inputs[k]? with
  | none => rw [hx] at hc; simp at hc
  | some inp' =>
    rw [hx] at hc; simp at hc
    refine ⟨inp', ?_, hc⟩
    split <;> exact hx

/-- a success arriving when some input has already won changes no input (it is ignored) -/
theorem race_later_success_ignored (s : Race) (w : Nat) (hw : s.winner = some w) (i : Nat) (v : Res) :
    (Race.succeeded s i v).1.inputs = s.inputs ∧ (Race.succeeded s i v).1.fires = s.fires ∧
    (Race.succeeded s i v).1.winner = some w := by
  unfold Race.succeeded
  simp [hw]


/-! ### race: every history -/

/-- **race fires at most once** (and the model never takes its `unmodelled` branch) -/
theorem race_fires_at_most_once (inputs : List Inp) (ops : List Op) :
    (Race.run inputs ops).fires.length ≤ 1 ∧ (Race.run inputs ops).unmodelled = false :=
  ⟨(run_ri inputs ops).ni.once, (run_ri inputs ops).ni.unm⟩

/-- the winner is the input of the first success in firing order -/
theorem race_winner_is_first_success (inputs : List Inp) (ops : List Op) :
    (Race.run inputs ops).winner = ((Race.run inputs ops).log.find? isSucc).map (·.1) :=
  (run_ri inputs ops).ni.win

/-- **whatever the race fires with is right**: a success result is the first success's `(index, value)`;
    a FailureGroup holds `n` delivered failures in input order (sorted by index) -/
theorem race_result_sound (inputs : List Inp) (ops : List Op) :
    (∀ i v, RaceRes.won i v ∈ (Race.run inputs ops).fires →
        (Race.run inputs ops).log.find? isSucc = some (i, v)) ∧
    (∀ fs, RaceRes.failureGroup fs ∈ (Race.run inputs ops).fires →
        ∃ st : List (Nat × Res), fs = st.map (·.2) ∧ st.Pairwise (fun a b => a.1 ≤ b.1) ∧
          st.length = inputs.length ∧ ∀ x ∈ st, x ∈ (Race.run inputs ops).log ∧ x.2.isFailure = true) :=
  ⟨(run_ri inputs ops).ni.won, (run_ri inputs ops).ni.fg⟩

/-- PARTIAL (see the header for what is missing): once some input has succeeded — `(i, v)` being the first
    success in firing order — input `i` is the winner and the race HAS fired, exactly once, with `(i, v)`
    unless it had been cancelled before (or fired a FailureGroup — impossible, but not proved here). -/
theorem race_first_success_partial (inputs : List Inp) (ops : List Op) (i : Nat) (v : Res)
    (h : (Race.run inputs ops).log.find? isSucc = some (i, v)) :
    (Race.run inputs ops).winner = some i ∧
    ((Race.run inputs ops).fires = [.won i v] ∨ (Race.run inputs ops).fires = [.cancelledErr] ∨
      ∃ fs, (Race.run inputs ops).fires = [.failureGroup fs]) := by
  have hri := run_ri inputs ops
  have hw : (Race.run inputs ops).winner = some i := by rw [hri.ni.win, h]; rfl
  refine ⟨hw, ?_⟩
  have hc := hri.done (by rw [hw]; rfl)
  have hcalled := hri.ni.called
  have honce := hri.ni.once
  rw [hc] at hcalled
  cases hf : (Race.run inputs ops).fires with
  | nil => rw [hf] at hcalled; simp at hcalled
  | cons x rest =>
    rw [hf] at honce
    have hr : rest = [] := by
      cases rest with
      | nil => rfl
      | cons y ys => simp at honce
    subst hr
    cases x with
    | won i' v' =>
      have := hri.ni.won i' v' (by rw [hf]; simp)
      rw [h] at this
      injection this with this; injection this with h1 h2
      subst h1; subst h2; exact Or.inl rfl
    | failureGroup fs => exact Or.inr (Or.inr ⟨fs, rfl⟩)
    | cancelledErr => exact Or.inr (Or.inl rfl)

example : (Race.run [{}, {}, {}] [.fire 1 (.err 1), .fire 2 (.val 2), .fire 0 (.val 3)]).fires = [.won 2 (.val 2)] := by decide
example : ((Race.run [{}, {}, {}] [.fire 1 (.err 1), .fire 2 (.val 2), .fire 0 (.val 3)]).inputs.map (·.cancels)) = [1, 1, 0] := by decide
example : (Race.run [{}, { res := some (.err 1) }, {}] [.fire 2 (.err 2), .fire 0 (.err 3)]).fires
    = [.failureGroup [.err 3, .err 1, .err 2]] := by decide
example : (Race.run [{}, { canc := .raises }, {}] [.fire 0 (.val 1)]).fires = [.won 0 (.val 1)] := by decide
example : ((Race.run [{}, { canc := .raises }, {}] [.cancelAgg]).inputs.map (·.cancels)) = [1, 1, 1] := by decide

end TwistedProps.C04
