import TwistedProps.C04.DLInv
import TwistedProps.C04.RaceInv
import TwistedProps.C04.RaceCount
import TwistedProps.C04.RaceCancel
/-!
C04 — DeferredList, gatherResults and race fire once with correctly ordered results.

Model: `TwistedModel/Defer/Aggregate.lean` (`DL.run flags inputs ops`, `Race.run inputs ops`): any list of input
Deferreds — each unfired or already fired at construction, each with any canceller kind — and ANY history `ops` over
{fire input i with r, cancel the aggregate, cancel input i} (a firing of an already fired input is the identity, so
every firing permutation is among the histories).  `log` is the firing order as the aggregate sees it (the calls of
its per-input callback), `fires` the results accepted by the aggregate's own callback/errback.

DeferredList / gatherResults — all proved for every input list, flag combination and history:
  `dl_fires_at_most_once`, `dl_fires_once_when_all_fired`, `dl_fires_spec` (+ `dl_log_faithful`): the complete
  description of what it fires with and when; the clauses of the statement are read off it:
  `dl_all_results_in_input_order`, `dl_fireOnOneCallback_first_success`, `dl_fireOnOneErrback_FirstError`
  (both from `dl_first_trigger`), `dl_consumeErrors_later_callbacks_see_none`, `gather_values_in_input_order`,
  `gather_first_failure`, `dl_cancel_unfired_cancels_inputs`; `dl_fire_appends_log` ties `log` to the history.

race — all proved for every input list and history (invariants `NI`/`RI` in C04/RaceInv.lean, the counting invariant
  `CI` in C04/RaceCount.lean, the `cancel()` counts `R` in C04/RaceCancel.lean):
  `race_fires_at_most_once` (and the model's `unmodelled` branch is never reached);
  `race_delivers_each_input_at_most_once` (the counting invariant: the indices in `log` are pairwise distinct, below n,
  and delivered inputs have fired); `race_result_sound`, `race_winner_is_first_success`;
  `race_first_success`: once a first success (i, v) exists the race HAS fired, exactly once, with `won i v` — or with
  `cancelledErr`, which happens only if the history cancels the race (`race_cancelledErr_only_if_cancelled`), so
  `race_first_success_uncancelled`: never cancelled ⇒ fires = [won i v].  A FailureGroup is impossible then
  (`race_no_failureGroup_after_success`);
  `race_all_fail`: all n ≥ 1 inputs delivered, none succeeded ⇒ it HAS fired, exactly once, with a FailureGroup of
  exactly n failures whose i-th entry is input i's failure (or with `cancelledErr`, cancelled before);
  `race_cancel_unfired_cancels_inputs` (every unfired winner-less state — all reachable unfired states are:
  `race_unfired_no_winner`; history form `race_cancel_unfired_cancels_inputs_history`): `final_result.cancel()` gives
  every input exactly one `cancel()` from the race's canceller — also fired inputs, also past a canceller that raises
  (the repaired code) — plus the one `cancel()` every non-winner gets from `succeeded` when a canceller makes its input
  the first success during that very cancellation; `race_cancel_unfired_exactly_once` when none does;
  per step, for every state: `race_first_success_cancels_all_others` (each other input exactly one `cancel()`, the
  winner none — also when a canceller raises), `race_later_success_ignored`.
-/
namespace TwistedProps.C04
set_option linter.unusedSimpArgs false
set_option linter.unusedVariables false
open Twisted.Defer.Aggregate

/-- input `i` of `s` has fired -/
def Fired (s : DL) (i : Nat) : Prop := ∃ inp r, s.inputs[i]? = some inp ∧ inp.res = some r

theorem specFires_length (fl : Flags) (n : Nat) (log rl) : (specFires fl n log rl).length ≤ 1 := by
  unfold specFires; split
  · simp
  · split <;> simp

/-- **fires at most once**, whatever the inputs, flags, pre-fired subset and history -/
theorem dl_fires_at_most_once (fl : Flags) (inputs : List Inp) (ops : List Op) :
    (DL.run fl inputs ops).agg.fires.length ≤ 1 := by
  have h := run_inv fl inputs ops
  rw [h.agg.spec]; exact specFires_length _ _ _ _

theorem fireInput_length (s : DL) (i : Nat) (r : Res) : (DL.fireInput s i r).inputs.length = s.inputs.length := by
  unfold DL.fireInput DL.deliver
  split
  · rfl
  · split <;> simp

theorem cancelLoop_length (is : List Nat) (s : DL) : (DL.cancelLoop s is).inputs.length = s.inputs.length := by
  induction is generalizing s with
  | nil => rfl
  | cons i is ih => simp only [DL.cancelLoop]; rw [ih, cancelInput_length]

theorem step_length (s : DL) (op : Op) : (DL.step s op).inputs.length = s.inputs.length := by
  cases op with
  | fire i r => exact fireInput_length s i r
  | cancelAgg => simp only [DL.step, DL.cancelAgg]; split <;> simp [cancelLoop_length]
  | cancelInput i => exact cancelInput_length s i

theorem exec_length (ops : List Op) (s : DL) : (DL.exec s ops).inputs.length = s.inputs.length := by
  induction ops generalizing s with
  | nil => rfl
  | cons op ops ih => simp only [DL.exec]; rw [ih, step_length]

theorem run_length (fl : Flags) (inputs : List Inp) (ops : List Op) :
    (DL.run fl inputs ops).inputs.length = inputs.length := by
  unfold DL.run; rw [exec_length, (construct_inv fl inputs).2]

/-- **what it fires with, and when** — in terms of the firing order `log` (the calls of `_cbDeferred`):
    the first delivery that triggers (`fireOnOneCallback` + success → `(value, index)`;
    `fireOnOneErrback` + failure → `FirstError`), otherwise the result list once all `n` are in. -/
theorem dl_fires_spec (fl : Flags) (inputs : List Inp) (ops : List Op) :
    let s := DL.run fl inputs ops
    s.agg.fires = specFires fl inputs.length s.agg.log s.agg.resultList := by
  intro s
  have h := run_inv fl inputs ops
  have := h.agg.spec
  rw [h.flags, run_length] at this
  exact this

/-- the firing order and the result list describe the inputs faithfully: slot `i` holds
    `(success?, r)` iff input `i` was delivered with `r`; an input is in the log iff it has fired;
    the log has one entry per fired input -/
theorem dl_log_faithful (fl : Flags) (inputs : List Inp) (ops : List Op) :
    let s := DL.run fl inputs ops
    s.agg.resultList.length = inputs.length ∧
    (∀ i b r, s.agg.resultList[i]? = some (some (b, r)) ↔ ((i, r) ∈ s.agg.log ∧ b = !r.isFailure)) ∧
    (∀ i, i < inputs.length → (Fired s i ↔ ∃ r, (i, r) ∈ s.agg.log)) ∧
    s.agg.log.length = s.agg.resultList.countP Option.isSome := by
  intro s
  have h := run_inv fl inputs ops
  have hl := run_length fl inputs ops
  refine ⟨by rw [h.agg.len, hl], h.agg.slots, ?_, by rw [h.agg.logLen, h.agg.count]⟩
  intro i hi
  have := h.link i (by rw [hl]; exact hi)
  unfold Fired
  constructor
  · rintro ⟨inp, r, h1, h2⟩
    obtain ⟨⟨b, r'⟩, hx⟩ := this.1 ⟨r, by rw [resOf_getElem?, h1]; simp [h2]⟩
    exact ⟨r', ((h.agg.slots i b r').1 hx).1⟩
  · rintro ⟨r, hr⟩
    obtain ⟨r', hr'⟩ := this.2 ⟨_, (h.agg.slots i _ r).2 ⟨hr, rfl⟩⟩
    rw [resOf_getElem?] at hr'
    cases hin : (DL.run fl inputs ops).inputs[i]? with
    | none => rw [hin] at hr'; simp at hr'
    | some inp =>
      rw [hin] at hr'; simp at hr'
      exact ⟨inp, r', rfl, hr'⟩


/-! ### the clauses of the statement, read off `dl_fires_spec` -/

theorem findSome?_first {α β} (f : α → Option β) (pre post : List α) (e : α) (b : β)
    (hpre : ∀ x ∈ pre, f x = none) (he : f e = some b) : (pre ++ e :: post).findSome? f = some b := by
  induction pre with
  | nil => simp [he]
  | cons x xs ih =>
    simp only [List.cons_append, List.findSome?_cons, hpre x (by simp)]
    exact ih (fun y hy => hpre y (by simp [hy]))

theorem findSome?_none {α β} (f : α → Option β) (l : List α) (h : ∀ x ∈ l, f x = none) : l.findSome? f = none := by
  induction l with
  | nil => rfl
  | cons x xs ih => simp only [List.findSome?_cons, h x (by simp)]; exact ih (fun y hy => h y (by simp [hy]))

/-- the first triggering delivery decides, whatever comes later -/
theorem dl_first_trigger (fl : Flags) (inputs : List Inp) (ops : List Op) (pre post : List (Nat × Res))
    (e : Nat × Res) (a : AggRes)
    (hlog : (DL.run fl inputs ops).agg.log = pre ++ e :: post)
    (hpre : ∀ x ∈ pre, trigger fl x = none) (he : trigger fl e = some a) :
    (DL.run fl inputs ops).agg.fires = [a] := by
  have := dl_fires_spec fl inputs ops
  simp only [] at this
  rw [this, hlog]; unfold specFires
  rw [findSome?_first _ _ _ _ _ hpre he]

/-- `fireOnOneCallback`: the first success in firing order, as `(value, index)` — when no failure
    before it triggered `fireOnOneErrback` -/
theorem dl_fireOnOneCallback_first_success (fl : Flags) (inputs : List Inp) (ops : List Op)
    (pre post : List (Nat × Res)) (i : Nat) (v : Res) (hfoc : fl.foc = true)
    (hlog : (DL.run fl inputs ops).agg.log = pre ++ (i, v) :: post)
    (hv : v.isFailure = false) (hpre : ∀ x ∈ pre, x.2.isFailure = true) (hfoe : pre = [] ∨ fl.foe = false) :
    (DL.run fl inputs ops).agg.fires = [.one v i] := by
  apply dl_first_trigger fl inputs ops pre post (i, v) _ hlog
  · intro x hx
    rcases hfoe with h | h
    · subst h; simp at hx
    · simp [trigger, hpre x hx, h]
  · simp [trigger, hv, hfoc]

/-- `fireOnOneErrback`: the first failure in firing order, as `FirstError(failure, index)` — when no
    success before it triggered `fireOnOneCallback` -/
theorem dl_fireOnOneErrback_FirstError (fl : Flags) (inputs : List Inp) (ops : List Op)
    (pre post : List (Nat × Res)) (i : Nat) (f : Res) (hfoe : fl.foe = true)
    (hlog : (DL.run fl inputs ops).agg.log = pre ++ (i, f) :: post)
    (hf : f.isFailure = true) (hpre : ∀ x ∈ pre, x.2.isFailure = false) (hfoc : pre = [] ∨ fl.foc = false) :
    (DL.run fl inputs ops).agg.fires = [.firstError f i] := by
  apply dl_first_trigger fl inputs ops pre post (i, f) _ hlog
  · intro x hx
    rcases hfoc with h | h
    · subst h; simp at hx
    · simp [trigger, hpre x hx, h]
  · simp [trigger, hf, hfoe]

theorem countP_isSome_eq_length_iff (l : List (Option (Bool × Res))) :
    l.countP Option.isSome = l.length ↔ ∀ i, i < l.length → ∃ x, l[i]? = some (some x) := by
  rw [List.countP_eq_length]
  constructor
  · intro h i hi
    have := h l[i] (List.getElem_mem hi)
    cases hx : l[i] with
    | none => rw [hx] at this; simp at this
    | some x => exact ⟨x, by rw [List.getElem?_eq_getElem hi, hx]⟩
  · intro h a ha
    obtain ⟨i, hi, rfl⟩ := List.getElem_of_mem ha
    obtain ⟨x, hx⟩ := h i hi
    rw [List.getElem?_eq_getElem hi] at hx
    simp at hx; simp [hx]

/-- no delivery triggers (in particular: both `fireOnOne*` flags off): the list fires exactly when the
    last input is in, once, with `(success, result)` of input `i` at position `i` -/
theorem dl_all_results_in_input_order (fl : Flags) (inputs : List Inp) (ops : List Op)
    (hn : 0 < inputs.length)
    (hno : ∀ x ∈ (DL.run fl inputs ops).agg.log, trigger fl x = none) :
    ((∀ i, i < inputs.length → Fired (DL.run fl inputs ops) i) →
        ∃ L, (DL.run fl inputs ops).agg.fires = [.list L] ∧ L.length = inputs.length ∧
          ∀ i, i < inputs.length → ∃ r, (i, r) ∈ (DL.run fl inputs ops).agg.log ∧ L[i]? = some (some (!r.isFailure, r))) ∧
    ((∃ i, i < inputs.length ∧ ¬ Fired (DL.run fl inputs ops) i) → (DL.run fl inputs ops).agg.fires = []) := by
  have hspec := dl_fires_spec fl inputs ops
  obtain ⟨hlen, hslots, hfired, hcount⟩ := dl_log_faithful fl inputs ops
  simp only [] at hspec
  have hnone := findSome?_none _ _ hno
  unfold specFires at hspec
  rw [hnone] at hspec
  simp only [] at hspec
  constructor
  · intro hall
    have hfull : (DL.run fl inputs ops).agg.resultList.countP Option.isSome = (DL.run fl inputs ops).agg.resultList.length := by
      rw [countP_isSome_eq_length_iff]
      intro i hi
      obtain ⟨r, hr⟩ := (hfired i (by omega)).1 (hall i (by omega))
      exact ⟨_, (hslots i _ r).2 ⟨hr, rfl⟩⟩
    refine ⟨(DL.run fl inputs ops).agg.resultList, ?_, hlen, ?_⟩
    · rw [hspec, if_pos ⟨by rw [hcount, hfull, hlen], Or.inl hn⟩]
    · intro i hi
      obtain ⟨r, hr⟩ := (hfired i hi).1 (hall i hi)
      exact ⟨r, hr, (hslots i _ r).2 ⟨hr, rfl⟩⟩
  · rintro ⟨i, hi, hnf⟩
    rw [hspec, if_neg]
    rintro ⟨h1, _⟩
    rw [hcount, ← hlen] at h1
    obtain ⟨⟨b, r⟩, hx⟩ := (countP_isSome_eq_length_iff _).1 h1 i (by omega)
    exact hnf ((hfired i hi).2 ⟨r, ((hslots i b r).1 hx).1⟩)

/-- every flag combination: once all inputs have fired, the DeferredList has fired (exactly once) -/
theorem dl_fires_once_when_all_fired (fl : Flags) (inputs : List Inp) (ops : List Op) (hn : 0 < inputs.length)
    (hall : ∀ i, i < inputs.length → Fired (DL.run fl inputs ops) i) :
    (DL.run fl inputs ops).agg.fires.length = 1 := by
  have hspec := dl_fires_spec fl inputs ops
  obtain ⟨hlen, hslots, hfired, hcount⟩ := dl_log_faithful fl inputs ops
  simp only [] at hspec hlen hslots hfired hcount
  rw [hspec]; unfold specFires
  split
  · rfl
  · have hfull : (DL.run fl inputs ops).agg.resultList.countP Option.isSome = (DL.run fl inputs ops).agg.resultList.length := by
      rw [countP_isSome_eq_length_iff]
      intro i hi
      obtain ⟨r, hr⟩ := (hfired i (by omega)).1 (hall i (by omega))
      exact ⟨_, (hslots i _ r).2 ⟨hr, rfl⟩⟩
    rw [if_pos ⟨by rw [hcount, hfull, hlen], Or.inl hn⟩]; rfl

/-- `consumeErrors`: a callback added to input `i` after the DeferredList exists sees `None` in place
    of a failure (and the success value / the failure itself otherwise) -/
theorem dl_consumeErrors_later_callbacks_see_none (fl : Flags) (inputs : List Inp) (ops : List Op)
    (i : Nat) (r : Res) (h : (i, r) ∈ (DL.run fl inputs ops).agg.log) :
    ∃ inp, (DL.run fl inputs ops).inputs[i]? = some inp ∧
      inp.res = some (if r.isFailure && fl.ce then .pyNone else r) := by
  have := (run_inv fl inputs ops).seen i r h
  rw [resOf_getElem?] at this
  cases hin : (DL.run fl inputs ops).inputs[i]? with
  | none => rw [hin] at this; simp at this
  | some inp => rw [hin] at this; simp at this; exact ⟨inp, rfl, by simpa [seenBy] using this⟩


/-! ### gatherResults -/

theorem parseList_all (l : List (Option (Bool × Res)))
    (h : ∀ i, i < l.length → ∃ r, l[i]? = some (some (true, r))) :
    ∃ vs, parseList l = some vs ∧ vs.length = l.length ∧
      ∀ (i : Nat) (r : Res), l[i]? = some (some (true, r)) → vs[i]? = some r := by
  induction l with
  | nil => exact ⟨[], rfl, rfl, by simp⟩
  | cons x xs ih =>
    obtain ⟨r0, hr0⟩ := h 0 (by simp)
    simp at hr0; subst hr0
    obtain ⟨vs, h1, h2, h3⟩ := ih (fun i hi => by
      have := h (i + 1) (by simp; omega)
      simpa using this)
    refine ⟨r0 :: vs, by simp [parseList, h1], by simp [h2], ?_⟩
    intro i r hi
    cases i with
    | zero => simp at hi; simp [hi]
    | succ i => simp at hi; simpa using h3 i r hi

/-- gatherResults, all inputs fired and all succeeded: the values, input `i`'s at position `i` -/
theorem gather_values_in_input_order (ce : Bool) (inputs : List Inp) (ops : List Op) (hn : 0 < inputs.length)
    (hall : ∀ i, i < inputs.length → Fired (DL.run (gatherFlags ce) inputs ops) i)
    (hok : ∀ x ∈ (DL.run (gatherFlags ce) inputs ops).agg.log, x.2.isFailure = false) :
    ∃ vs, gatherFires (DL.run (gatherFlags ce) inputs ops) = [.values vs] ∧ vs.length = inputs.length ∧
      ∀ i, i < inputs.length → ∃ r, (i, r) ∈ (DL.run (gatherFlags ce) inputs ops).agg.log ∧ vs[i]? = some r := by
  have hno : ∀ x ∈ (DL.run (gatherFlags ce) inputs ops).agg.log, trigger (gatherFlags ce) x = none := by
    intro x hx; simp [trigger, gatherFlags, hok x hx]
  obtain ⟨L, hL, hlen, hLi⟩ := (dl_all_results_in_input_order _ inputs ops hn hno).1 hall
  have hLs : ∀ i, i < L.length → ∃ r, L[i]? = some (some (true, r)) := by
    intro i hi
    obtain ⟨r, hr, hx⟩ := hLi i (by omega)
    exact ⟨r, by rw [hx]; simp [hok _ hr]⟩
  obtain ⟨vs, h1, h2, h3⟩ := parseList_all L hLs
  refine ⟨vs, by simp [gatherFires, hL, parse, h1], by omega, ?_⟩
  intro i hi
  obtain ⟨r, hr, hx⟩ := hLi i hi
  exact ⟨r, hr, h3 i r (by rw [hx]; simp [hok _ hr])⟩

/-- gatherResults: the first failure in firing order, as `FirstError(failure, index)` -/
theorem gather_first_failure (ce : Bool) (inputs : List Inp) (ops : List Op)
    (pre post : List (Nat × Res)) (i : Nat) (f : Res)
    (hlog : (DL.run (gatherFlags ce) inputs ops).agg.log = pre ++ (i, f) :: post)
    (hf : f.isFailure = true) (hpre : ∀ x ∈ pre, x.2.isFailure = false) :
    gatherFires (DL.run (gatherFlags ce) inputs ops) = [.firstError f i] := by
  have := dl_fireOnOneErrback_FirstError (gatherFlags ce) inputs ops pre post i f rfl hlog hf hpre (Or.inr rfl)
  simp [gatherFires, this, parse]

/-! ### cancellation of the aggregate -/

theorem cancelInput_inputs (s : DL) (j : Nat) (inp : Inp) (h : s.inputs[j]? = some inp) :
    ∃ X : Inp, (DL.cancelInput s j).inputs = s.inputs.set j X ∧ X.cancels = inp.cancels + 1 := by
  unfold DL.cancelInput DL.deliver
  rw [h]
  simp only []
  split
  · exact ⟨_, rfl, rfl⟩
  · split
    · refine ⟨_, rfl, ?_⟩; split <;> rfl
    · refine ⟨_, rfl, ?_⟩; split <;> rfl

theorem cancelInput_cancels (s : DL) (j i : Nat) :
    ((DL.cancelInput s j).inputs[i]?).map (·.cancels) =
      (s.inputs[i]?).map (fun x => x.cancels + if i = j then 1 else 0) := by
  cases hj : s.inputs[j]? with
  | none =>
    have : DL.cancelInput s j = s := by unfold DL.cancelInput; rw [hj]
    rw [this]
    by_cases hij : i = j
    · subst hij; simp [hj]
    · simp [hij]
  | some inp =>
    obtain ⟨X, hX, hc⟩ := cancelInput_inputs s j inp hj
    rw [hX, List.getElem?_set]
    by_cases hij : j = i
    · subst hij
      have hlt := lt_of_getElem?_some hj
      have hg : s.inputs[j] = inp := by
        rw [List.getElem?_eq_getElem hlt] at hj; exact Option.some.inj hj
      simp [hlt, hg, hc]
    · have : ¬ i = j := fun e => hij e.symm
      simp [hij, this]

theorem cancelLoop_cancels (is : List Nat) (s : DL) (i : Nat) :
    ((DL.cancelLoop s is).inputs[i]?).map (·.cancels) = (s.inputs[i]?).map (fun x => x.cancels + is.count i) := by
  induction is generalizing s with
  | nil => simp [DL.cancelLoop]
  | cons j is ih =>
    simp only [DL.cancelLoop]
    rw [ih]
    have h1 := cancelInput_cancels s j i
    cases hx : (DL.cancelInput s j).inputs[i]? with
    | none =>
      rw [hx] at h1
      cases hy : s.inputs[i]? with
      | none => rfl
      | some y => rw [hy] at h1; simp at h1
    | some x =>
      rw [hx] at h1
      cases hy : s.inputs[i]? with
      | none => rw [hy] at h1; simp at h1
      | some y =>
        rw [hy] at h1
        simp only [Option.map_some, List.count_cons, Option.some.injEq] at h1 ⊢
        by_cases hij : i = j
        · subst hij; simp at h1 ⊢; omega
        · have : ¬ j = i := fun e => hij e.symm
          simp [hij, this] at h1 ⊢; omega

/-- **cancelling an unfired DeferredList (or gatherResults) calls `cancel()` on every input, once** —
    also on inputs that have fired and on those whose canceller raises; a fired one is left alone -/
theorem dl_cancel_unfired_cancels_inputs (s : DL) (i : Nat) (inp : Inp) (h : s.inputs[i]? = some inp) :
    ∃ inp', (DL.cancelAgg s).inputs[i]? = some inp' ∧
      inp'.cancels = inp.cancels + (if s.agg.called then 0 else 1) := by
  unfold DL.cancelAgg
  by_cases hc : s.agg.called = true
  · simp [hc, h]
  · have hc' : s.agg.called = false := by simpa using hc
    simp only [hc', Bool.not_false, if_true]
    have := cancelLoop_cancels (List.range s.inputs.length) s i
    rw [h] at this
    simp only [Option.map_some, List.count_range, lt_of_getElem?_some h, if_true] at this
    cases hx : (DL.cancelLoop s (List.range s.inputs.length)).inputs[i]? with
    | none => rw [hx] at this; simp at this
    | some inp' => rw [hx] at this; simp at this; exact ⟨inp', rfl, by simpa using this⟩


/-! ### the log is the firing order -/

/-- firing an unfired input appends exactly `(i, r)` to the log; firing a fired one changes nothing -/
theorem dl_fire_appends_log (s : DL) (i : Nat) (r : Res) (inp : Inp) (h : s.inputs[i]? = some inp) :
    (inp.res = none → (DL.fireInput s i r).agg.log = s.agg.log ++ [(i, r)] ∧ Fired (DL.fireInput s i r) i) ∧
    (inp.res ≠ none → DL.fireInput s i r = s) := by
  unfold DL.fireInput
  rw [h]
  constructor
  · intro hn
    simp only [hn, DL.deliver, cbDeferred_log, true_and]
    exact ⟨{ inp with res := some (cbDeferred s.agg i r).2, canc := .none }, (cbDeferred s.agg i r).2,
      by simp [lt_of_getElem?_some h], rfl⟩
  · intro hn
    cases hr : inp.res with
    | none => exact absurd hr hn
    | some x => simp [hr]

/-! ### non-vacuity (concrete runs of the model) -/

example : (DL.run {} [{}, {}, {}] [.fire 2 (.val 1), .fire 0 (.err 2), .fire 1 (.val 3)]).agg.fires
    = [.list [some (false, .err 2), some (true, .val 3), some (true, .val 1)]] := by decide
example : (DL.run {} [{}, {}, {}] [.fire 2 (.val 1), .fire 0 (.err 2)]).agg.fires = [] := by decide
example : (DL.run { foc := true, ce := true } [{}, { res := some (.err 4) }, {}]
    [.fire 2 (.val 1), .fire 0 (.val 2)]).agg.fires = [.one (.val 1) 2] := by decide
example : (DL.run { foe := true, ce := true } [{}, {}] [.fire 1 (.err 5), .fire 0 (.val 2)]).agg.fires
    = [.firstError (.err 5) 1] := by decide
example : ((DL.run { foe := true, ce := true } [{}, {}] [.fire 1 (.err 5), .fire 0 (.val 2)]).inputs.map (·.res))
    = [some (.val 2), some .pyNone] := by decide
example : gatherFires (DL.run (gatherFlags false) [{}, {}, { res := some (.val 9) }] [.fire 1 (.val 1), .fire 0 (.val 2)])
    = [.values [.val 2, .val 1, .val 9]] := by decide
example : ((DL.run {} [{ canc := .raises }, { canc := .firesOk 7 }, { canc := .noop }] [.cancelAgg]).inputs.map (·.cancels))
    = [1, 1, 1] := by decide

/-- **the first success cancels every other input exactly once and never the winner** — whatever the
    other inputs' state and cancellers (also one that raises), for every state in which no input has won yet -/
theorem race_first_success_cancels_all_others (s : Race) (hw : s.winner = none) (i : Nat) (v : Res)
    (k : Nat) (inp : Inp) (h : s.inputs[k]? = some inp) :
    ∃ inp', (Race.succeeded s i v).1.inputs[k]? = some inp' ∧
      inp'.cancels = inp.cancels + (if k = i then 0 else 1) := by
  unfold Race.succeeded Race.fireFinal
  simp only [hw, Option.isNone_none, if_true]
  have hc := cancelOthers_cancels i (List.range s.inputs.length)
    { s with log := s.log ++ [(i, v)], winner := some i } k
  simp only [h, Option.map_some, List.count_range, getElem?_some_lt h, if_true] at hc
  cases hx : (Race.cancelOthers { s with log := s.log ++ [(i, v)], winner := some i } i
      (List.range s.inputs.length)).inputs[k]? with
  | none => rw [hx] at hc; simp at hc
  | some inp' =>
    rw [hx] at hc; simp at hc
    refine ⟨inp', ?_, hc⟩
    split <;> exact hx

/-- a success arriving when some input has already won changes no input (it is ignored) -/
theorem race_later_success_ignored (s : Race) (w : Nat) (hw : s.winner = some w) (i : Nat) (v : Res) :
    (Race.succeeded s i v).1.inputs = s.inputs ∧ (Race.succeeded s i v).1.fires = s.fires ∧
    (Race.succeeded s i v).1.winner = some w := by
  unfold Race.succeeded
  simp [hw]


/-! ### race: every history -/

/-- **race fires at most once** (and the model never takes its `unmodelled` branch) -/
theorem race_fires_at_most_once (inputs : List Inp) (ops : List Op) :
    (Race.run inputs ops).fires.length ≤ 1 ∧ (Race.run inputs ops).unmodelled = false :=
  ⟨(run_ri inputs ops).ni.once, (run_ri inputs ops).ni.unm⟩

/-- the winner is the input of the first success in firing order -/
theorem race_winner_is_first_success (inputs : List Inp) (ops : List Op) :
    (Race.run inputs ops).winner = ((Race.run inputs ops).log.find? isSucc).map (·.1) :=
  (run_ri inputs ops).ni.win

/-- **whatever the race fires with is right**: a success result is the first success's `(index, value)`;
    a FailureGroup holds `n` delivered failures in input order (sorted by index) -/
theorem race_result_sound (inputs : List Inp) (ops : List Op) :
    (∀ i v, RaceRes.won i v ∈ (Race.run inputs ops).fires →
        (Race.run inputs ops).log.find? isSucc = some (i, v)) ∧
    (∀ fs, RaceRes.failureGroup fs ∈ (Race.run inputs ops).fires →
        ∃ st : List (Nat × Res), fs = st.map (·.2) ∧ st.Pairwise (fun a b => a.1 ≤ b.1) ∧
          st.length = inputs.length ∧ ∀ x ∈ st, x ∈ (Race.run inputs ops).log ∧ x.2.isFailure = true) :=
  ⟨(run_ri inputs ops).ni.won, (run_ri inputs ops).ni.fg⟩

/-- **every input is delivered to the race's callbacks at most once** (the indices in the log are pairwise
    distinct), only inputs of the list are, and only after they fired -/
theorem race_delivers_each_input_at_most_once (inputs : List Inp) (ops : List Op) :
    ((Race.run inputs ops).log.map (·.1)).Nodup ∧
    ∀ x ∈ (Race.run inputs ops).log, x.1 < inputs.length ∧ RFired (Race.run inputs ops).inputs x.1 :=
  have h := (run_ci inputs ops true (fun e => by cases e)).base
  ⟨h.nd, fun x hx => ⟨h.lt x hx, h.fired x hx⟩⟩

/-- a race that has fired has fired with exactly one result -/
theorem race_fired_singleton {n : Nat} {s : Race} (h : NI n s) (hc : s.finalCalled = true) : ∃ x, s.fires = [x] := by
  have hcalled := h.called
  have honce := h.once
  rw [hc] at hcalled
  cases hf : s.fires with
  | nil => rw [hf] at hcalled; simp at hcalled
  | cons x rest =>
    rw [hf] at honce
    cases rest with
    | nil => exact ⟨x, rfl⟩
    | cons y ys => simp at honce

/-- once some input has succeeded the race never fires a FailureGroup: `failure_state` holds at most the failures
    delivered, each input is delivered at most once, so it stays below `n` entries -/
theorem race_no_failureGroup_after_success (inputs : List Inp) (ops : List Op) (x : Nat × Res)
    (hx : x ∈ (Race.run inputs ops).log) (hs : x.2.isFailure = false) (fs : List Res) :
    RaceRes.failureGroup fs ∉ (Race.run inputs ops).fires := by
  intro hm
  have h := (run_ci inputs ops true (fun e => by cases e)).base
  have h1 := (h.fgx fs hm).2.2
  have h2 := h.fsp.length_eq
  have h3 : ((Race.run inputs ops).log.filter isFail).length < (Race.run inputs ops).log.length :=
    List.length_filter_lt_length_iff_exists.2 ⟨x, hx, by simp [isFail, hs]⟩
  have h4 := nodup_lt_length (n := inputs.length) h.nd (by
    intro y hy
    obtain ⟨z, hz, rfl⟩ := List.mem_map.1 hy
    exact h.lt z hz)
  simp only [List.length_map] at h4
  omega

/-- **race fires with the first success.**  Once some input has succeeded — `(i, v)` being the first success in
    firing order — input `i` is the winner and the race HAS fired, exactly once, with `(i, v)`; the only other
    possibility is that it had been cancelled before (it then fired, exactly once, with `CancelledError`:
    `race_cancelledErr_only_if_cancelled`). -/
theorem race_first_success (inputs : List Inp) (ops : List Op) (i : Nat) (v : Res)
    (h : (Race.run inputs ops).log.find? isSucc = some (i, v)) :
    (Race.run inputs ops).winner = some i ∧
    ((Race.run inputs ops).fires = [.won i v] ∨ (Race.run inputs ops).fires = [.cancelledErr]) := by
  have hri := run_ri inputs ops
  have hw : (Race.run inputs ops).winner = some i := by rw [hri.ni.win, h]; rfl
  refine ⟨hw, ?_⟩
  obtain ⟨x, hf⟩ := race_fired_singleton hri.ni (hri.done (by rw [hw]; rfl))
  cases x with
  | won i' v' =>
    have := hri.ni.won i' v' (by rw [hf]; simp)
    rw [h] at this
    injection this with this; injection this with h1 h2
    subst h1; subst h2; exact Or.inl hf
  | failureGroup fs =>
    have hmem := List.mem_of_find?_eq_some h
    have hsucc := List.find?_some h
    exact absurd (by rw [hf]; simp) (race_no_failureGroup_after_success inputs ops (i, v) hmem
      (by simpa [isSucc] using hsucc) fs)
  | cancelledErr => exact Or.inr hf

/-- the race fires with `CancelledError` only if the history cancels the race -/
theorem race_cancelledErr_only_if_cancelled (inputs : List Inp) (ops : List Op)
    (h : RaceRes.cancelledErr ∈ (Race.run inputs ops).fires) : Op.cancelAgg ∈ ops := by
  apply Classical.byContradiction
  intro hn
  exact (run_ci inputs ops false (fun _ => hn)).base.nce rfl h

/-- a race that is never cancelled fires with the first success, exactly once, as soon as there is one -/
theorem race_first_success_uncancelled (inputs : List Inp) (ops : List Op) (hc : Op.cancelAgg ∉ ops) (i : Nat) (v : Res)
    (h : (Race.run inputs ops).log.find? isSucc = some (i, v)) : (Race.run inputs ops).fires = [.won i v] := by
  rcases (race_first_success inputs ops i v h).2 with hf | hf
  · exact hf
  · exact absurd (race_cancelledErr_only_if_cancelled inputs ops (by rw [hf]; simp)) hc

/-- **race fires with all failures in input order when every input failed.**  When all `n ≥ 1` inputs have been
    delivered and none succeeded, the race HAS fired, exactly once, with a FailureGroup of exactly `n` failures, the
    `i`-th being the failure input `i` was delivered with (each input is delivered at most once:
    `race_delivers_each_input_at_most_once`) — unless it had been cancelled before (`CancelledError`). -/
theorem race_all_fail (inputs : List Inp) (ops : List Op) (hne : inputs ≠ [])
    (hall : ∀ i, i < inputs.length → ∃ f, (i, f) ∈ (Race.run inputs ops).log)
    (hfail : ∀ x ∈ (Race.run inputs ops).log, x.2.isFailure = true) :
    (Race.run inputs ops).fires = [.cancelledErr] ∨
    ∃ fs, (Race.run inputs ops).fires = [.failureGroup fs] ∧ fs.length = inputs.length ∧
      ∀ i (hi : i < fs.length), (i, fs[i]) ∈ (Race.run inputs ops).log := by
  have hri := run_ri inputs ops
  have hci := run_ci inputs ops true (fun e => by cases e)
  have h := hci.base
  have hn : 0 < inputs.length := List.length_pos_iff.2 hne
  have hfilt : (Race.run inputs ops).log.filter isFail = (Race.run inputs ops).log :=
    List.filter_eq_self.2 (fun x hx => by simpa [isFail] using hfail x hx)
  have hperm := h.fsp
  rw [hfilt] at hperm
  have hle := nodup_lt_length (n := inputs.length) h.nd (by
    intro y hy
    obtain ⟨z, hz, rfl⟩ := List.mem_map.1 hy
    exact h.lt z hz)
  have hge := nodup_subset_length (a := List.range inputs.length) (b := (Race.run inputs ops).log.map (·.1))
    List.nodup_range (by
      intro i hi
      obtain ⟨f, hf⟩ := hall i (List.mem_range.1 hi)
      exact List.mem_map.2 ⟨(i, f), hf, rfl⟩)
  simp only [List.length_map, List.length_range] at hle hge
  have hlen : (Race.run inputs ops).failureState.length = inputs.length := by rw [hperm.length_eq]; omega
  obtain ⟨x, hf⟩ := race_fired_singleton hri.ni (hci.fc hlen hn)
  cases x with
  | won i v =>
    have h1 := hri.ni.won i v (by rw [hf]; simp)
    have h2 := hfail _ (List.mem_of_find?_eq_some h1)
    have h3 := List.find?_some h1
    simp [isSucc] at h3
    rw [h2] at h3; cases h3
  | cancelledErr => exact Or.inl hf
  | failureGroup fs =>
    right
    obtain ⟨hfs, hsorted, _⟩ := h.fgx fs (by rw [hf]; simp)
    have hnd : ((Race.run inputs ops).failureState.map (·.1)).Nodup := (hperm.map (·.1)).nodup_iff.2 h.nd
    have hstrict : ((Race.run inputs ops).failureState.map (·.1)).Pairwise (· < ·) := by
      have h1 : ((Race.run inputs ops).failureState.map (·.1)).Pairwise (· ≤ ·) := List.pairwise_map.2 hsorted
      exact (h1.and hnd).imp (fun hab => Nat.lt_of_le_of_ne hab.1 hab.2)
    have hrange := strict_range' _ 0 hstrict (by
      intro y hy
      obtain ⟨z, hz, rfl⟩ := List.mem_map.1 hy
      have := h.lt z (hperm.mem_iff.1 hz)
      simp only [List.length_map, hlen]; omega)
    simp only [List.length_map, hlen] at hrange
    refine ⟨fs, hf, by rw [hfs, List.length_map, hlen], ?_⟩
    intro i hi
    have hi' : i < (Race.run inputs ops).failureState.length := by rw [hfs, List.length_map] at hi; exact hi
    have h1 : ((Race.run inputs ops).failureState.map (·.1))[i]'(by simpa using hi') = i := by
      simp only [hrange, List.getElem_range']; omega
    have h2 : fs[i] = ((Race.run inputs ops).failureState[i]).2 := by simp only [hfs, List.getElem_map]
    have h3 : (i, fs[i]) = (Race.run inputs ops).failureState[i] := by
      rw [h2]
      rw [List.getElem_map] at h1
      exact Prod.ext h1.symm rfl
    rw [h3]
    exact hperm.mem_iff.1 (List.getElem_mem hi')

/-- **cancelling an unfired race calls `cancel()` on every input**: exactly once from the race's canceller — on
    fired inputs too, and also when some canceller raises (the repaired code logs it and carries on) — plus, if
    one of the cancellers makes its input SUCCEED (the first success, `w`), the one `cancel()` that `succeeded` gives
    every input other than `w` (`extra (some w) k = if k = w then 0 else 1`, `extra none k = 0`).  For every state in
    which the race has not fired and no input has won (every reachable unfired state: `race_unfired_no_winner`). -/
theorem race_cancel_unfired_cancels_inputs (s : Race) (hf : s.finalCalled = false) (hw : s.winner = none)
    (k : Nat) (inp : Inp) (h : s.inputs[k]? = some inp) :
    ∃ inp', (Race.cancelAgg s).inputs[k]? = some inp' ∧
      inp'.cancels = inp.cancels + 1 + extra (Race.cancelAgg s).winner k := by
  have hr := (cancelAgg_R k s hf).cnt
  simp only [cancelsOf, h, hw, Option.map_some, Option.isNone_none, if_true, List.count_range, getElem?_some_lt h] at hr
  cases hx : (Race.cancelAgg s).inputs[k]? with
  | none => rw [hx] at hr; simp at hr
  | some inp' => rw [hx] at hr; simp at hr; exact ⟨inp', rfl, hr⟩

/-- … so when no canceller produces a success, every input gets exactly one `cancel()` -/
theorem race_cancel_unfired_exactly_once (s : Race) (hf : s.finalCalled = false) (hw : s.winner = none)
    (hn : (Race.cancelAgg s).winner = none) (k : Nat) (inp : Inp) (h : s.inputs[k]? = some inp) :
    ∃ inp', (Race.cancelAgg s).inputs[k]? = some inp' ∧ inp'.cancels = inp.cancels + 1 := by
  obtain ⟨inp', h1, h2⟩ := race_cancel_unfired_cancels_inputs s hf hw k inp h
  exact ⟨inp', h1, by rw [h2, hn]; simp [extra]⟩

/-- a reachable race that has not fired has no winner and `final_result.called` is false -/
theorem race_unfired_no_winner (inputs : List Inp) (ops : List Op) (hf : (Race.run inputs ops).fires = []) :
    (Race.run inputs ops).finalCalled = false ∧ (Race.run inputs ops).winner = none := by
  have hri := run_ri inputs ops
  have hc : (Race.run inputs ops).finalCalled = false := by rw [hri.ni.called, hf]; rfl
  refine ⟨hc, ?_⟩
  cases hw : (Race.run inputs ops).winner with
  | none => rfl
  | some w => have := hri.done (by rw [hw]; rfl); rw [hc] at this; cases this

theorem race_exec_append (s : Race) (a b : List Op) : Race.exec s (a ++ b) = Race.exec (Race.exec s a) b := by
  induction a generalizing s with
  | nil => rfl
  | cons op a ih => simp only [List.cons_append, Race.exec]; exact ih _

/-- the same for histories: cancelling the race after ANY history that left it unfired -/
theorem race_cancel_unfired_cancels_inputs_history (inputs : List Inp) (ops : List Op)
    (hf : (Race.run inputs ops).fires = []) (k : Nat) (inp : Inp) (h : (Race.run inputs ops).inputs[k]? = some inp) :
    ∃ inp', (Race.run inputs (ops ++ [.cancelAgg])).inputs[k]? = some inp' ∧
      inp'.cancels = inp.cancels + 1 + extra (Race.run inputs (ops ++ [.cancelAgg])).winner k := by
  have e : Race.run inputs (ops ++ [.cancelAgg]) = Race.cancelAgg (Race.run inputs ops) := by
    unfold Race.run; rw [race_exec_append]; rfl
  rw [e]
  obtain ⟨h1, h2⟩ := race_unfired_no_winner inputs ops hf
  exact race_cancel_unfired_cancels_inputs _ h1 h2 k inp h

example : (Race.run [{}, {}, {}] [.fire 1 (.err 1), .fire 2 (.val 2), .fire 0 (.val 3)]).fires = [.won 2 (.val 2)] := by decide
example : ((Race.run [{}, {}, {}] [.fire 1 (.err 1), .fire 2 (.val 2), .fire 0 (.val 3)]).inputs.map (·.cancels)) = [1, 1, 0] := by decide
example : (Race.run [{}, { res := some (.err 1) }, {}] [.fire 2 (.err 2), .fire 0 (.err 3)]).fires
    = [.failureGroup [.err 3, .err 1, .err 2]] := by decide
example : (Race.run [{}, { canc := .raises }, {}] [.fire 0 (.val 1)]).fires = [.won 0 (.val 1)] := by decide
example : ((Race.run [{}, { canc := .raises }, {}] [.cancelAgg]).inputs.map (·.cancels)) = [1, 1, 1] := by decide
-- the `cancelledErr` alternative of `race_first_success` / `race_all_fail` is real: cancelled while an input whose
-- canceller raises stays unfired, which then succeeds / fails
example : (Race.run [{ canc := .raises }] [.cancelAgg, .fire 0 (.val 1)]).fires = [.cancelledErr] ∧
    (Race.run [{ canc := .raises }] [.cancelAgg, .fire 0 (.val 1)]).log.find? isSucc = some (0, .val 1) := by decide
example : (Race.run [{ canc := .raises }] [.cancelAgg, .fire 0 (.err 1)]).fires = [.cancelledErr] ∧
    (Race.run [{ canc := .raises }] [.cancelAgg, .fire 0 (.err 1)]).log = [(0, .err 1)] := by decide
-- a canceller that makes its input succeed during the race's cancellation: the others get a second `cancel()`
example : (Race.run [{}, { canc := .firesOk 7 }, {}] [.cancelAgg]).fires = [.won 1 (.val 7)] ∧
    ((Race.run [{}, { canc := .firesOk 7 }, {}] [.cancelAgg]).inputs.map (·.cancels)) = [2, 1, 2] := by decide
-- all failed, fired in the order 1, 2, 0: the FailureGroup is in input order
example : (Race.run [{}, {}, {}] [.fire 1 (.err 1), .fire 2 (.err 2), .fire 0 (.err 0)]).fires
    = [.failureGroup [.err 0, .err 1, .err 2]] := by decide

end TwistedProps.C04
