import TwistedProps.C40.Client
import TwistedProps.C40.Server
/-!
C40 — SMTP transfers message bodies transparently.

Statement (fixed): for any message body made of LF-terminated lines without CR (including lines that
start with or consist of '.') sent by the SMTP client to the SMTP server, with any chunking of the
client's reads and any segmentation of the network stream, the server-side message receives exactly
the body's lines (after the server's documented header handling).  The transfer ends only at the
client's terminating '.', and no body content is ever interpreted as an SMTP command.

Theorems (all unbounded: every body, every chunking of the reads, every segmentation of the stream):
* `body_transparent`               — the headline: the server's calls are exactly
                                     `lineReceived` for `hdr (lines)`, then `eomReceived`; it ends in
                                     COMMAND mode with an empty buffer;
* `ends_only_at_client_terminator` — cut the client's stream anywhere before its end and deliver the
                                     part before the cut in any segmentation: the server is still in
                                     DATA mode, `eomReceived` has not been called, and it was handed
                                     only (the first j) body lines;
* `no_body_line_becomes_command`   — in neither situation is any line handed to `state_COMMAND`,
                                     nor `connectionLost`/`lineLengthExceeded` called;
* `body_transparent_after_any_history`, `afterSession_fresh`, `body_transparent_in_session` — the accepted
                                     `DATA` command (`doData`) puts the server into the fresh DATA state whatever
                                     state earlier commands/messages left (flags, mode), so the headline holds
                                     for a message sent after any in-scope earlier messages of the same session;
* `client_wire` (Client.lean)      — what the client writes is the dot-stuffed image, for every chunking;
* `feed_eq` (Server.lean)          — segmentation invariance of the receiver for every stream that
                                     hits no length limit;
* `unrepaired_client_counterexample`, `unrepaired_client_boundary_counterexample`,
  `unrepaired_client_empty_body_counterexample` — the client as it was before the repair falsifies
                                     the property (dot line first / after a read boundary: the rest
                                     of the body is run as commands; empty body: one line too many);
* `long_line_is_not_transparent`   — why the length hypothesis is there; it is the exact boundary.

Hypotheses, all decidable: every line is CR- and LF-free (`LineOK`, the property's precondition; the
proofs use CR-freeness to identify the two `bytes.replace` calls with the transducer — it is not claimed
to be necessary);
every dot-stuffed line is at most the server's `MAX_LENGTH` bytes long and `MAX_LENGTH ≥ 1` (the
server's documented line-length limit: `LineOnlyReceiver.MAX_LENGTH = 16384`); chunks are non-empty (an
empty read is EOF) and concatenate to the body; the segments concatenate to what the client wrote.
-/
namespace TwistedProps.C40
open Twisted.Mail.SmtpData

/-- the server's documented header handling: "Add a blank line between the generated Received:-header
    and the message body if the message comes in without any headers" -/
def hdr : List Bytes → List Bytes
  | [] => []
  | l :: ls => if l ≠ [] ∧ (58 : UInt8) ∉ l then [] :: l :: ls else l :: ls

theorem dataLine_stuff (s : Srv) (l : Bytes) : dataLine s (stuff l) = bodyLine s l := by
  unfold stuff dataLine
  by_cases h : l.take 1 = [46]
  · have hne : l ≠ [] := by intro e; subst e; simp at h
    simp [h, hne]
  · simp [h]

theorem bodyLine_later (s : Srv) (l : Bytes) (h : (s.inheader || s.inbody) = true) :
    (bodyLine s l).2 = [Ev.line l] ∧ (bodyLine s l).1.mode = s.mode ∧ (bodyLine s l).1.buffer = s.buffer ∧
    ((bodyLine s l).1.inheader || (bodyLine s l).1.inbody) = true := by
  obtain ⟨buf, mode, ih, ib⟩ := s
  by_cases h3 : l = [] <;> by_cases h5 : (58 : UInt8) ∈ l <;> cases ih <;> cases ib <;>
    simp_all [bodyLine]

theorem bodyLine_first (s : Srv) (l : Bytes) (h1 : s.inheader = false) (h2 : s.inbody = false) :
    (bodyLine s l).2 = (hdr [l]).map Ev.line ∧ (bodyLine s l).1.mode = s.mode ∧
    (bodyLine s l).1.buffer = s.buffer ∧ ((bodyLine s l).1.inheader || (bodyLine s l).1.inbody) = true := by
  obtain ⟨buf, mode, ih, ib⟩ := s
  simp only at h1 h2
  subst h1 h2
  by_cases h3 : l = [] <;> by_cases h5 : (58 : UInt8) ∈ l <;> simp_all [bodyLine, hdr]

theorem runLines_cons (s : Srv) (l : Bytes) (ls : List Bytes) :
    runLines s (l :: ls) = ((runLines (lineReceived s l).1 ls).1, (lineReceived s l).2 ++ (runLines (lineReceived s l).1 ls).2) := rfl

theorem lineReceived_data (s : Srv) (l : Bytes) (h : s.mode = .data) : lineReceived s l = dataLine s l := by
  simp [lineReceived, h]

/-- after the first line, every stuffed line is delivered unstuffed, one call each -/
theorem run_later (ls : List Bytes) : ∀ s : Srv, s.mode = .data → (s.inheader || s.inbody) = true →
    (runLines s (ls.map stuff)).2 = ls.map Ev.line ∧ (runLines s (ls.map stuff)).1.mode = .data ∧
    (runLines s (ls.map stuff)).1.buffer = s.buffer := by
  induction ls with
  | nil => intro s hm _; exact ⟨rfl, hm, rfl⟩
  | cons l ls ih =>
    intro s hm hf
    obtain ⟨e1, e2, e3, e4⟩ := bodyLine_later s l hf
    have := ih (bodyLine s l).1 (by rw [e2, hm]) e4
    simp only [List.map_cons, runLines_cons, lineReceived_data s _ hm, dataLine_stuff, e1]
    exact ⟨by simp [this.1], this.2.1, by rw [this.2.2, e3]⟩

/-- from the state right after `354`: the body's lines with the blank-line insertion -/
theorem run_body (ls : List Bytes) (s : Srv) (hm : s.mode = .data) (h1 : s.inheader = false) (h2 : s.inbody = false) :
    (runLines s (ls.map stuff)).2 = (hdr ls).map Ev.line ∧ (runLines s (ls.map stuff)).1.mode = .data ∧
    (runLines s (ls.map stuff)).1.buffer = s.buffer := by
  cases ls with
  | nil => exact ⟨rfl, hm, rfl⟩
  | cons l ls =>
    obtain ⟨e1, e2, e3, e4⟩ := bodyLine_first s l h1 h2
    have := run_later ls (bodyLine s l).1 (by rw [e2, hm]) e4
    simp only [List.map_cons, runLines_cons, lineReceived_data s _ hm, dataLine_stuff, e1]
    refine ⟨?_, this.2.1, by rw [this.2.2, e3]⟩
    rw [this.1]
    unfold hdr
    by_cases hc : l ≠ [] ∧ (58 : UInt8) ∉ l <;> simp [hc]

theorem wire_eq_lineStream (ls : List Bytes) : wire ls = lineStream (ls.map stuff ++ [[46]]) := by
  simp [wire, lineStream, List.flatMap_map]

theorem stuff_no_lf (l : Bytes) (h : 10 ∉ l) : 10 ∉ stuff l := by
  unfold stuff
  by_cases h1 : l.take 1 = [46]
  · simp only [h1, if_true]; intro hm
    rcases List.mem_cons.mp hm with e | e
    · exact absurd e (by decide)
    · exact h e
  · simpa [h1] using h

/-- the lines that travel, as a list: hypotheses for the framing lemmas -/
theorem wireLines_ok (maxLen : Nat) (ls : List Bytes) (hl : ∀ l ∈ ls, LineOK l)
    (hlen : ∀ l ∈ ls, (stuff l).length ≤ maxLen) (hmax : 1 ≤ maxLen) :
    (∀ x ∈ ls.map stuff ++ [[46]], 10 ∉ x) ∧ (∀ x ∈ ls.map stuff ++ [[46]], x.length ≤ maxLen) := by
  constructor
  · intro x hx
    rcases List.mem_append.mp hx with h | h
    · obtain ⟨l, hl', rfl⟩ := List.mem_map.mp h
      exact stuff_no_lf l (hl l hl').2
    · have : x = [46] := by simpa using h
      subst this; decide
  · intro x hx
    rcases List.mem_append.mp hx with h | h
    · obtain ⟨l, hl', rfl⟩ := List.mem_map.mp h
      exact hlen l hl'
    · have : x = [46] := by simpa using h
      subst this; simp; omega

/-- **C40 (headline).** For every body of CR-free LF-terminated lines `ls` (dot lines anywhere), every
    chunking `cs` of the client's reads, every segmentation `segs` of what the client writes, and every
    server line limit the stuffed lines stay within: the server's calls are exactly
    `message.lineReceived` for each line of `hdr ls` in order, then `message.eomReceived()` — nothing is
    handed to the command interpreter — and it ends in COMMAND mode with an empty buffer. -/
theorem body_transparent (maxLen : Nat) (ls cs segs : List Bytes)
    (hl : ∀ l ∈ ls, LineOK l) (hlen : ∀ l ∈ ls, (stuff l).length ≤ maxLen) (hmax : 1 ≤ maxLen)
    (hne : ∀ c ∈ cs, c ≠ []) (hcs : cs.flatten = joinLF ls) (hsegs : segs.flatten = sendFile cs) :
    (feed maxLen initData segs).2 = (hdr ls).map Ev.line ++ [Ev.eom] ∧
    (feed maxLen initData segs).1.mode = .command ∧ (feed maxLen initData segs).1.buffer = [] := by
  obtain ⟨h10, hlen'⟩ := wireLines_ok maxLen ls hl hlen hmax
  have hw : lineStream (ls.map stuff ++ [[46]]) = segs.flatten ++ [] := by
    rw [List.append_nil, hsegs, client_wire ls cs hl hne hcs, wire_eq_lineStream]
  have hf := feed_lineStream_prefix maxLen _ h10 hlen' segs [] hw initData rfl
  have hsp : splitLines segs.flatten = (ls.map stuff ++ [[46]], []) := by
    have := split_lineStream _ h10
    rw [hw, List.append_nil] at this; exact this
  rw [hf, hsp]
  obtain ⟨b1, b2, b3⟩ := run_body ls initData rfl rfl rfl
  simp only [runLines_append, withBuf_buffer, withBuf_mode]
  have hlast : runLines (runLines initData (ls.map stuff)).1 [[46]] =
      ({ (runLines initData (ls.map stuff)).1 with mode := .command }, [Ev.eom]) := by
    simp [runLines, lineReceived, b2, dataLine]
  rw [hlast, b1]
  exact ⟨rfl, rfl, trivial⟩

/-- non-vacuity: dot line first, a lone dot after a read boundary, `RSET` as body text, stream cut in odd places -/
example :
    let ls : List Bytes := [[46], [97, 98], [46], [82, 83, 69, 84], [46, 46, 120]]
    let cs : List Bytes := [[46, 10, 97], [98, 10], [46, 10, 82, 83, 69, 84, 10, 46], [46, 120, 10]]
    let w := sendFile cs
    (∀ l ∈ ls, LineOK l) ∧ (∀ l ∈ ls, (stuff l).length < 6) ∧ cs.flatten = joinLF ls ∧
    (feed 6 initData [w.take 1, w.drop 1 |>.take 4, [], w.drop 5]).2 =
      [Ev.line [], Ev.line [46], Ev.line [97, 98], Ev.line [46], Ev.line [82, 83, 69, 84], Ev.line [46, 46, 120], Ev.eom] := by
  decide

/-- **The transfer ends only at the client's terminator.** Cut what the client writes anywhere before
    its end (`q ≠ []` is what has not arrived yet) and deliver the part before the cut in any
    segmentation: the server is still in DATA mode and has been handed only body lines — those of
    the first `j` lines of the body, for some `j` — so `eomReceived` has not been called. -/
theorem ends_only_at_client_terminator (maxLen : Nat) (ls cs segs : List Bytes) (q : Bytes)
    (hl : ∀ l ∈ ls, LineOK l) (hlen : ∀ l ∈ ls, (stuff l).length ≤ maxLen) (hmax : 1 ≤ maxLen)
    (hne : ∀ c ∈ cs, c ≠ []) (hcs : cs.flatten = joinLF ls)
    (hsegs : sendFile cs = segs.flatten ++ q) (hq : q ≠ []) :
    ∃ j, (feed maxLen initData segs).2 = (hdr (ls.take j)).map Ev.line ∧
      (feed maxLen initData segs).1.mode = .data := by
  obtain ⟨h10, hlen'⟩ := wireLines_ok maxLen ls hl hlen hmax
  have hw : lineStream (ls.map stuff ++ [[46]]) = segs.flatten ++ q := by
    rw [← hsegs, client_wire ls cs hl hne hcs, wire_eq_lineStream]
  have hf := feed_lineStream_prefix maxLen _ h10 hlen' segs q hw initData rfl
  -- the complete lines before the cut are a proper prefix of the lines that travel
  have hsp := split_append segs.flatten q
  rw [← hw, split_lineStream _ h10] at hsp
  have e1 : ls.map stuff ++ [[46]] = (splitLines segs.flatten).1 ++ (splitLines ((splitLines segs.flatten).2 ++ q)).1 :=
    congrArg Prod.fst hsp
  have e2 : [] = (splitLines ((splitLines segs.flatten).2 ++ q)).2 := congrArg Prod.snd hsp
  have hl2 : (splitLines ((splitLines segs.flatten).2 ++ q)).1 ≠ [] := by
    intro h0
    have := splitLines_rem_of_no_lines _ h0
    rw [← e2] at this
    exact hq (List.append_eq_nil_iff.mp this.symm).2
  have hlen1 : (splitLines segs.flatten).1.length ≤ (ls.map stuff).length := by
    have := congrArg List.length e1
    have h2 : 0 < (splitLines ((splitLines segs.flatten).2 ++ q)).1.length := List.length_pos_iff.mpr hl2
    simp only [List.length_append, List.length_cons, List.length_nil] at this
    omega
  have hpre : ∃ k, (splitLines segs.flatten).1 = (ls.take k).map stuff := by
    have := congrArg (List.take (splitLines segs.flatten).1.length) e1
    rw [List.take_append_of_le_length hlen1, List.take_left' rfl] at this
    exact ⟨_, by rw [List.map_take]; exact this.symm⟩
  obtain ⟨k, hk⟩ := hpre
  refine ⟨k, ?_⟩
  rw [hf]
  simp only [withBuf_mode]
  rw [hk]
  obtain ⟨b1, b2, _⟩ := run_body (ls.take k) initData rfl rfl rfl
  exact ⟨b1, b2⟩

/-- non-vacuity: everything but the last byte of the terminator's CR LF has arrived -/
example :
    let cs : List Bytes := [[46, 10, 97], [98, 10]]
    let w := sendFile cs
    w = w.take 10 ++ [10] ∧ (feed 16384 initData [w.take 3, w.drop 3 |>.take 7]).2 = [Ev.line [], Ev.line [46], Ev.line [97, 98]] ∧
    (feed 16384 initData [w.take 3, w.drop 3 |>.take 7]).1.mode = .data := by
  decide

/-- **No body content is interpreted as an SMTP command**: whatever part of the client's stream has
    arrived (all of it, `q = []`, or any proper part), in any segmentation, every call the server made
    is `message.lineReceived` or `message.eomReceived` — never `state_COMMAND`, `connectionLost`
    or `lineLengthExceeded`. -/
theorem no_body_line_becomes_command (maxLen : Nat) (ls cs segs : List Bytes) (q : Bytes)
    (hl : ∀ l ∈ ls, LineOK l) (hlen : ∀ l ∈ ls, (stuff l).length ≤ maxLen) (hmax : 1 ≤ maxLen)
    (hne : ∀ c ∈ cs, c ≠ []) (hcs : cs.flatten = joinLF ls)
    (hsegs : sendFile cs = segs.flatten ++ q) :
    ∀ e ∈ (feed maxLen initData segs).2, (∃ l, e = Ev.line l) ∨ e = Ev.eom := by
  intro e he
  by_cases hq : q = []
  · subst hq
    rw [List.append_nil] at hsegs
    rw [(body_transparent maxLen ls cs segs hl hlen hmax hne hcs hsegs.symm).1] at he
    rcases List.mem_append.mp he with h | h
    · obtain ⟨l, _, rfl⟩ := List.mem_map.mp h; exact Or.inl ⟨l, rfl⟩
    · exact Or.inr (by simpa using h)
  · obtain ⟨j, h1, _⟩ := ends_only_at_client_terminator maxLen ls cs segs q hl hlen hmax hne hcs hsegs hq
    rw [h1] at he
    obtain ⟨l, _, rfl⟩ := List.mem_map.mp he; exact Or.inl ⟨l, rfl⟩

/-- non-vacuity: a body whose every line is a command word or a dot, read one byte at a time, delivered byte by byte -/
example :
    let cs : List Bytes := [46, 10, 82, 83, 69, 84, 10, 46, 10, 81, 85, 73, 84, 10].map fun b => [b]
    (feed 16384 initData ((sendFile cs).map fun b => [b])).2 =
      [Ev.line [], Ev.line [46], Ev.line [82, 83, 69, 84], Ev.line [46], Ev.line [81, 85, 73, 84], Ev.eom] := by
  decide

/-! ### the client before the repair falsifies the property -/


/-! ## the message as part of a session (added by the mutation audit: state left over from earlier messages) -/
/-- `do_DATA` forgets the header/body flags and the mode of whatever came before: with nothing buffered (the
    client sends nothing between `DATA` and the `354`) the server is the fresh DATA-mode server. -/
theorem doData_fresh (s : Srv) (hb : s.buffer = []) : doData s = initData := by
  obtain ⟨buf, mode, ih, ib⟩ := s
  simp only at hb
  subst hb
  rfl

theorem body_transparent_after_any_history (maxLen : Nat) (s0 : Srv) (hb : s0.buffer = []) (ls cs segs : List Bytes)
    (hl : ∀ l ∈ ls, LineOK l) (hlen : ∀ l ∈ ls, (stuff l).length ≤ maxLen) (hmax : 1 ≤ maxLen)
    (hne : ∀ c ∈ cs, c ≠ []) (hcs : cs.flatten = joinLF ls) (hsegs : segs.flatten = sendFile cs) :
    (feed maxLen (doData s0) segs).2 = (hdr ls).map Ev.line ++ [Ev.eom] ∧
    (feed maxLen (doData s0) segs).1.mode = .command ∧ (feed maxLen (doData s0) segs).1.buffer = [] := by
  rw [doData_fresh s0 hb]
  exact body_transparent maxLen ls cs segs hl hlen hmax hne hcs hsegs


/-- an earlier message of the session that is itself within the property's preconditions -/
def PrevOK (prevMax : Nat) (ls : List Bytes) : Prop :=
  (∀ l ∈ ls, LineOK l) ∧ (∀ l ∈ ls, (stuff l).length ≤ prevMax)

instance (m : Nat) (ls : List Bytes) : Decidable (PrevOK m ls) := by unfold PrevOK; infer_instance

/-- after any number of earlier in-scope messages (each read in one chunk, delivered in one piece) the accepted
    `DATA` command leaves the server exactly in the fresh DATA state: nothing of the earlier messages (header/body
    flags, mode, buffered bytes) leaks into the next one -/
theorem afterSession_fresh (prevMax : Nat) (hmax : 1 ≤ prevMax) (prevs : List (List Bytes)) :
    ∀ s : Srv, s.buffer = [] → (∀ ls ∈ prevs, PrevOK prevMax ls) →
      afterSession prevMax s (prevs.map joinLF) = initData := by
  induction prevs with
  | nil => intro s hb _; exact doData_fresh s hb
  | cons ls rest ih =>
    intro s hb hok
    have h1 : PrevOK prevMax ls := hok ls (by simp)
    simp only [List.map_cons, afterSession]
    apply ih
    · rw [doData_fresh s hb]
      have hne : ∀ c ∈ (if joinLF ls = [] then ([] : List Bytes) else [joinLF ls]), c ≠ [] := by
        intro c hc; by_cases e : joinLF ls = [] <;> simp [e] at hc; subst hc; exact e
      have hcs : (if joinLF ls = [] then ([] : List Bytes) else [joinLF ls]).flatten = joinLF ls := by
        by_cases e : joinLF ls = [] <;> simp [e]
      exact (body_transparent prevMax ls _ [sendFile _] h1.1 h1.2 hmax hne hcs (by simp)).2.2
    · intro l hl; exact hok l (by simp [hl])

/-- **C40 for a whole session.** The message under test is transferred transparently whatever in-scope messages
    the same connection carried before it. -/
theorem body_transparent_in_session (maxLen prevMax : Nat) (prevs : List (List Bytes)) (ls cs segs : List Bytes)
    (hpm : 1 ≤ prevMax) (hprev : ∀ p ∈ prevs, PrevOK prevMax p)
    (hl : ∀ l ∈ ls, LineOK l) (hlen : ∀ l ∈ ls, (stuff l).length ≤ maxLen) (hmax : 1 ≤ maxLen)
    (hne : ∀ c ∈ cs, c ≠ []) (hcs : cs.flatten = joinLF ls) (hsegs : segs.flatten = sendFile cs) :
    let s := afterSession prevMax {} (prevs.map joinLF)
    (feed maxLen s segs).2 = (hdr ls).map Ev.line ++ [Ev.eom] ∧
    (feed maxLen s segs).1.mode = .command ∧ (feed maxLen s segs).1.buffer = [] := by
  intro s
  have : s = initData := afterSession_fresh prevMax hpm prevs {} rfl hprev
  rw [this]
  exact body_transparent maxLen ls cs segs hl hlen hmax hne hcs hsegs

/-- non-vacuity: a header-only message, a headerless one and an empty one first; then a dot-first body -/
example :
    let prevs : List (List Bytes) := [[[83, 58, 120], []], [[46], [120]], []]
    let s := afterSession 16384 {} (prevs.map joinLF)
    (∀ p ∈ prevs, PrevOK 16384 p) ∧ s = initData ∧
    (feed 6 s [sendFile [[46, 10, 82, 83, 69, 84, 10]]]).2 = [Ev.line [], Ev.line [46], Ev.line [82, 83, 69, 84], Ev.eom] := by
  decide
/-- A dot line at the very start of the message (`".\nRSET\n"`, one read): the unrepaired client does not
    double the dot, the server ends DATA there and runs the body line `RSET` (and the real terminator)
    as commands. Replayed on the implementation by `harness/corpus/C40/dot-line-at-start-runs-body-as-commands.json`. -/
theorem unrepaired_client_counterexample :
    (feed 16384 initData [sendFileOld [[46, 10, 82, 83, 69, 84, 10]]]).2 =
      [Ev.eom, Ev.cmd [82, 83, 69, 84], Ev.cmd [46]] := by decide

/-- A dot line right after a read boundary (`"ab\n.\nNOOP\n"` read 3 bytes at a time): same failure. -/
theorem unrepaired_client_boundary_counterexample :
    (feed 16384 initData [sendFileOld [[97, 98, 10], [46, 10, 78], [79, 79, 80], [10]]]).2 =
      [Ev.line [], Ev.line [97, 98], Ev.eom, Ev.cmd [78, 79, 79, 80], Ev.cmd [46]] := by decide

/-- An empty body: the unrepaired `finishedFileTransfer("")` sent CR LF before the terminator and the
    message received one (empty) line instead of none. -/
theorem unrepaired_client_empty_body_counterexample :
    (feed 16384 initData [sendFileOld []]).2 = [Ev.line [], Ev.eom] ∧
    (feed 16384 initData [sendFile []]).2 = [Ev.eom] := by decide

/-! ### why the length hypothesis is there -/

/-- A line longer than `MAX_LENGTH` (here 5 bytes against a limit of 4): the server answers
    `500 Line too long` and drops the message; delivered in one piece the rest of that packet is
    dropped with it, delivered byte by byte the rest of the body (`RSET`) is handed to the command
    interpreter.  A line of exactly `MAX_LENGTH` bytes is transferred in every segmentation — also
    when a segment ends between its CR and its LF (the buffer check allows for a partial
    delimiter) — hence `(stuff l).length ≤ maxLen` is exactly the boundary. -/
theorem long_line_is_not_transparent :
    (feed 4 initData [sendFile [[97, 98, 99, 100, 101, 10, 82, 83, 69, 84, 10]]]).2 = [Ev.tooLong, Ev.lost] ∧
    (feed 4 initData ((sendFile [[97, 98, 99, 100, 101, 10, 82, 83, 69, 84, 10]]).map fun b => [b])).2 =
      [Ev.tooLong, Ev.lost, Ev.tooLong, Ev.cmd [82, 83, 69, 84], Ev.cmd [46]] ∧
    (feed 4 initData ((sendFile [[97, 98, 99, 100, 10]]).map fun b => [b])).2 =
      [Ev.line [], Ev.line [97, 98, 99, 100], Ev.eom] := by decide

end TwistedProps.C40
