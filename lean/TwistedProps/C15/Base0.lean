import TwistedProps.C15.Stream
/-!
C15 lemmas — the REACTION-FREE transition functions and their agreement with the model.

The model's protocol callbacks may call the transport back re-entrantly: `dataReceived` runs the `onData` script
inside `doRead`, `writeConnectionLost` runs `onWriteLost` inside `doWrite` (`Tcp.dataReceived`, `Tcp.afterSend`).
The one-closer discipline of the clean-close theorems (`Close.lean` … `Written.lean`) is about protocols that
react only to `readConnectionLost`; those proofs are carried out on the functions below — the model's functions
with the two scripts taken to be empty — and transported to the model by `run_eq_run0` / `runFair_eq_runFair0`:
on a system whose two protocols have empty `onData` / `onWriteLost` scripts (`NoReactS`, e.g. every `start p ha hb ra rb`)
the model and the reaction-free functions coincide on every schedule.
-/
namespace TwistedProps.C15
open Twisted.Transport.Tcp

/-- `Connection.doRead` of a protocol whose dataReceived does not call the transport -/
def doRead0 (p : Params) (v : View) (n : Nat) : Option Reason × View :=
  if v.c.aborting then (none, v)
  else match kRecv p v n with
    | (.again, v) => (none, v)
    | (.err, v) => (some .lost, v)
    | (.eof, v) => (some .done, v)
    | (.data d, v) => (none, { v with c := { v.c with received := v.c.received ++ d } })

/-- rest of `FileDescriptor.doWrite` for a protocol whose writeConnectionLost does not call the transport -/
def afterSend0 (v : View) (off : Bytes) (l : Nat) : Option Reason × View :=
  let c := { v.c with offset := v.c.offset + l, sent := v.c.sent ++ off.take l }
  if c.offset == c.dataBuffer.length && c.temp.isEmpty then
    let c := { c with dataBuffer := [], offset := 0, writing := false }
    if c.disconnecting then (some .done, { v with c := c })
    else if c.writeDisconnecting then
      let v := kShutWr { v with c := { c with writeDisconnected := true } }
      (none, if c.halfCloseable then { v with c := { v.c with writeLost := v.c.writeLost + 1 } } else v)
    else (none, { v with c := c })
  else (none, { v with c := c })

def doWrite0 (p : Params) (v : View) (n : Nat) : Option Reason × View :=
  if v.c.aborting then (none, v)
  else
    let c := mergeBuf p v.c
    match kSend p { v with c := c } (offered p c) n with
    | (none, v) => (some .lost, v)
    | (some l, v) => afterSend0 v (offered p c) l

def readThenWrite0 (p : Params) (v : View) (inE outE : Bool) (nr nw : Nat) : View :=
  let r := if inE then doRead0 p v nr else (none, v)
  match r.1 with
  | some w => disconnectSelectable r.2 w inE
  | none =>
    if outE then
      let r2 := doWrite0 p r.2 nw
      match r2.1 with
      | some w => disconnectSelectable r2.2 w false
      | none => r2.2
    else r.2

def io0 (p : Params) (v : View) (inn out hup : Bool) (nr nw : Nat) : View :=
  let hupE := hup && hupCond v.k && (v.c.reading || v.c.writing)
  let inE := (inn || hupE) && v.c.reading
  let outE := out && v.c.writing
  if !(inE || outE || hupE) then v
  else if hupE && !inE then
    if v.c.reading then disconnectSelectable v .done true
    else disconnectSelectable v .lost false
  else if !v.c.hasSocket then disconnectSelectable v .other false
  else readThenWrite0 p v inE outE nr nw

def step0 (s : Sys) : Ev → Sys
  | .app e op => s.put e (appOp (s.view e) op)
  | .io e i o h nr nw => s.put e (io0 s.p (s.view e) i o h nr nw)
  | .timer e => s.put e (timer (s.view e))

def run0 (s : Sys) (evs : List Ev) : Sys := evs.foldl step0 s

def runFair0 : Nat → Sys → Sys
  | 0, s => s
  | fuel + 1, s => if s.quiescent then s else runFair0 fuel (run0 s fairRound)

/-- whatever the three handlers preserve, one dispatched readiness report preserves -/
theorem rtw0_preserves (P : View → Prop) (p : Params)
    (hR : ∀ v n, P v → P (doRead0 p v n).2) (hW : ∀ v n, P v → P (doWrite0 p v n).2)
    (hD : ∀ v w r, P v → P (disconnectSelectable v w r))
    (v : View) (i o : Bool) (nr nw : Nat) (hv : P v) : P (readThenWrite0 p v i o nr nw) := by
  unfold readThenWrite0
  have h1 : P (if i = true then doRead0 p v nr else (none, v)).2 := by
    split
    · exact hR v nr hv
    · exact hv
  generalize (if i = true then doRead0 p v nr else (none, v)) = r at h1
  dsimp only
  split
  · exact hD _ _ _ h1
  · split
    · have h2 := hW r.2 nw h1
      generalize doWrite0 p r.2 nw = r2 at h2
      split
      · exact hD _ _ _ h2
      · exact h2
    · exact h1

theorem io0_preserves (P : View → Prop) (p : Params)
    (hR : ∀ v n, P v → P (doRead0 p v n).2) (hW : ∀ v n, P v → P (doWrite0 p v n).2)
    (hD : ∀ v w r, P v → P (disconnectSelectable v w r))
    (v : View) (i o h : Bool) (nr nw : Nat) (hv : P v) : P (io0 p v i o h nr nw) := by
  unfold io0
  dsimp only
  split
  · exact hv
  · split
    · split <;> exact hD _ _ _ hv
    · split
      · exact hD _ _ _ hv
      · exact rtw0_preserves P p hR hW hD v _ _ nr nw hv

/-! ### no re-entrant reaction configured ⇒ the model runs the reaction-free functions -/

/-- the protocol of this endpoint calls the transport neither from dataReceived nor from writeConnectionLost -/
def NoReact (v : View) : Prop := v.c.onData = [] ∧ v.c.onWriteLost = []

theorem noReact_conn (v : View) (c' : Conn) (e1 : c'.onData = v.c.onData) (e2 : c'.onWriteLost = v.c.onWriteLost)
    (h : NoReact v) : NoReact { v with c := c' } := ⟨by rw [e1]; exact h.1, by rw [e2]; exact h.2⟩

theorem noReact_connLost (v : View) (r : Reason) (h : NoReact v) : NoReact (connLost v r) := by
  unfold connLost; split
  · exact h
  · exact h

theorem noReact_appOp (v : View) (op : AppOp) (h : NoReact v) : NoReact (appOp v op) := by
  cases op with
  | write d => simp only [appOp, doWriteOp]; split; exact h; split; exact h; exact h
  | writeSeq ds => simp only [appOp, doWriteSeqOp]; split; exact h; exact h
  | lose =>
    simp only [appOp]; split
    · split
      · exact noReact_connLost _ _ h
      · exact h
    · exact h
  | loseWrite => exact h
  | abort => simp only [appOp]; split; exact h; exact h
  | pause => exact h
  | resume => simp only [appOp]; split; exact h; exact h

theorem noReact_appOps (ops : List AppOp) (v : View) (h : NoReact v) : NoReact (appOps v ops) := by
  induction ops generalizing v with
  | nil => exact h
  | cons op ops ih => exact ih _ (noReact_appOp v op h)

theorem noReact_timer (v : View) (h : NoReact v) : NoReact (timer v) := by
  unfold timer; split
  · exact noReact_connLost _ _ h
  · exact h

theorem noReact_disconnectSelectable (v : View) (w : Reason) (r : Bool) (h : NoReact v) :
    NoReact (disconnectSelectable v w r) := by
  unfold disconnectSelectable
  dsimp only
  split
  · unfold readConnLost
    split
    · exact noReact_appOps _ _ h
    · exact noReact_connLost _ _ h
  · exact noReact_connLost _ _ h

theorem noReact_doRead0 (p : Params) (v : View) (n : Nat) (h : NoReact v) : NoReact (doRead0 p v n).2 := by
  obtain ⟨h1, h2⟩ := h
  by_cases ha : v.c.aborting = true
  · simp [doRead0, ha, NoReact, h1, h2]
  by_cases hn : n = 0
  · simp [doRead0, kRecv, ha, hn, NoReact, h1, h2]
  by_cases hq : v.k.inq.isEmpty = true
  · by_cases hr : v.k.inRst = true
    · simp [doRead0, kRecv, ha, hn, hq, hr, NoReact, h1, h2]
    · by_cases hf : v.k.inFin = true
      · simp [doRead0, kRecv, ha, hn, hq, hr, hf, NoReact, h1, h2]
      · simp [doRead0, kRecv, ha, hn, hq, hr, hf, NoReact, h1, h2]
  · simp [doRead0, kRecv, ha, hn, hq, NoReact, h1, h2]

theorem noReact_doWrite0 (p : Params) (v : View) (n : Nat) (h : NoReact v) : NoReact (doWrite0 p v n).2 := by
  have hm : NoReact { v with c := mergeBuf p v.c } := by
    unfold mergeBuf; split <;> exact h
  unfold doWrite0
  split
  · exact h
  · dsimp only
    have hk := kSend_c p { v with c := mergeBuf p v.c } (offered p (mergeBuf p v.c)) n
    generalize kSend p { v with c := mergeBuf p v.c } (offered p (mergeBuf p v.c)) n = r at hk
    obtain ⟨r, v'⟩ := r
    have hv' : NoReact v' := by
      simp only at hk
      exact ⟨by rw [hk]; exact hm.1, by rw [hk]; exact hm.2⟩
    cases r with
    | none => exact hv'
    | some l =>
      show NoReact (afterSend0 v' _ l).2
      unfold afterSend0
      dsimp only
      split
      · split
        · exact hv'
        · split
          · split <;> exact hv'
          · exact hv'
      · exact hv'

theorem noReact_io0 (p : Params) (v : View) (i o h : Bool) (nr nw : Nat) (hv : NoReact v) :
    NoReact (io0 p v i o h nr nw) :=
  io0_preserves NoReact p (fun v n => noReact_doRead0 p v n) (fun v n => noReact_doWrite0 p v n)
    (fun v w r => noReact_disconnectSelectable v w r) v i o h nr nw hv

theorem dataReceived_noReact (v : View) (d : Bytes) (h : v.c.onData = []) :
    dataReceived v d = { v with c := { v.c with received := v.c.received ++ d } } := by
  obtain ⟨c, k, pk⟩ := v
  simp only at h
  have e : { c with received := c.received ++ d, onData := [] } = { c with received := c.received ++ d } := by
    rw [← h]
  simp only [dataReceived, h, dueOps, restData, appOps, List.foldl_nil, e]

theorem doRead_eq0 (p : Params) (v : View) (n : Nat) (h : NoReact v) : doRead p v n = doRead0 p v n := by
  unfold doRead doRead0
  split
  · rfl
  · have hk : (kRecv p v n).2.c = v.c := by
      unfold kRecv; split; rfl; split; rfl; split; rfl; split <;> rfl
    generalize kRecv p v n = r at hk
    obtain ⟨r, v'⟩ := r
    cases r with
    | data d => simp only; rw [dataReceived_noReact v' d (by simp only at hk; rw [hk]; exact h.1)]
    | eof => rfl
    | err => rfl
    | again => rfl

theorem afterSend_eq0 (v : View) (off : Bytes) (l : Nat) (h : v.c.onWriteLost = []) :
    afterSend v off l = afterSend0 v off l := by
  unfold afterSend afterSend0
  simp [h, appOps]

theorem doWrite_eq0 (p : Params) (v : View) (n : Nat) (h : NoReact v) : doWrite p v n = doWrite0 p v n := by
  unfold doWrite doWrite0
  split
  · rfl
  · dsimp only
    have hk := kSend_c p { v with c := mergeBuf p v.c } (offered p (mergeBuf p v.c)) n
    have hm : (mergeBuf p v.c).onWriteLost = v.c.onWriteLost := by unfold mergeBuf; split <;> rfl
    generalize kSend p { v with c := mergeBuf p v.c } (offered p (mergeBuf p v.c)) n = r at hk
    obtain ⟨r, v'⟩ := r
    cases r with
    | none => rfl
    | some l =>
      simp only at hk ⊢
      exact afterSend_eq0 v' _ l (by rw [hk, hm]; exact h.2)

theorem rtw_eq0 (p : Params) (v : View) (i o : Bool) (nr nw : Nat) (h : NoReact v) :
    readThenWrite p v i o nr nw = readThenWrite0 p v i o nr nw := by
  unfold readThenWrite readThenWrite0
  have e1 : (if i = true then doRead p v nr else (none, v)) = (if i = true then doRead0 p v nr else (none, v)) := by
    split
    · exact doRead_eq0 p v nr h
    · rfl
  have h1 : NoReact (if i = true then doRead0 p v nr else (none, v)).2 := by
    split
    · exact noReact_doRead0 p v nr h
    · exact h
  rw [e1]
  generalize (if i = true then doRead0 p v nr else (none, v)) = r at h1
  dsimp only
  simp only [doWrite_eq0 p r.2 nw h1]
  obtain ⟨r1, r2⟩ := r
  cases r1 with
  | some w => rfl
  | none =>
    cases o with
    | false => rfl
    | true =>
      dsimp only
      generalize (doWrite0 p r2 nw) = q
      obtain ⟨q1, q2⟩ := q
      cases q1 <;> rfl

theorem io_eq0 (p : Params) (v : View) (i o hh : Bool) (nr nw : Nat) (h : NoReact v) :
    io p v i o hh nr nw = io0 p v i o hh nr nw := by
  unfold io io0
  simp only [rtw_eq0 p v _ _ nr nw h]

/-- neither protocol reacts from dataReceived / writeConnectionLost -/
def NoReactS (s : Sys) : Prop := NoReact (s.view .A) ∧ NoReact (s.view .B)

theorem step_eq0 (s : Sys) (ev : Ev) (h : NoReactS s) : step s ev = step0 s ev := by
  cases ev with
  | app e op => rfl
  | io e i o hh nr nw =>
    cases e
    · simp only [step, step0, io_eq0 s.p _ i o hh nr nw h.1]
    · simp only [step, step0, io_eq0 s.p _ i o hh nr nw h.2]
  | timer e => rfl

theorem noReactS_step0 (s : Sys) (ev : Ev) (h : NoReactS s) : NoReactS (step0 s ev) := by
  cases ev with
  | app e op =>
    cases e
    · exact ⟨noReact_appOp _ op h.1, h.2⟩
    · exact ⟨h.1, noReact_appOp _ op h.2⟩
  | io e i o hh nr nw =>
    cases e
    · exact ⟨noReact_io0 s.p _ i o hh nr nw h.1, h.2⟩
    · exact ⟨h.1, noReact_io0 s.p _ i o hh nr nw h.2⟩
  | timer e =>
    cases e
    · exact ⟨noReact_timer _ h.1, h.2⟩
    · exact ⟨h.1, noReact_timer _ h.2⟩

theorem noReactS_run0 (evs : List Ev) (s : Sys) (h : NoReactS s) : NoReactS (run0 s evs) := by
  induction evs generalizing s with
  | nil => exact h
  | cons ev evs ih => exact ih _ (noReactS_step0 s ev h)

/-- **Agreement.**  On a system without dataReceived / writeConnectionLost reactions the model's `run` is `run0`. -/
theorem run_eq_run0 (evs : List Ev) (s : Sys) (h : NoReactS s) : run s evs = run0 s evs := by
  induction evs generalizing s with
  | nil => rfl
  | cons ev evs ih =>
    show run (step s ev) evs = run0 (step0 s ev) evs
    rw [step_eq0 s ev h]
    exact ih _ (noReactS_step0 s ev h)

theorem runFair_eq_runFair0 (fuel : Nat) (s : Sys) (h : NoReactS s) : runFair fuel s = runFair0 fuel s := by
  induction fuel generalizing s with
  | zero => rfl
  | succ n ih =>
    simp only [runFair, runFair0]
    split
    · rfl
    · rw [run_eq_run0 _ s h]
      exact ih _ (noReactS_run0 _ s h)

end TwistedProps.C15
