import TwistedProps.C15.Stream
import TwistedProps.C15.Frozen
import TwistedProps.C15.Liveness
import TwistedProps.C15.Written
/-!
C15 lemmas — the liveness / clean-close theorems of the one-closer discipline, on the reaction-free transition
functions (`run0`, `runFair0` of `Base0.lean`).  `TwistedProps/C15.lean` restates each of them on the model's `run` /
`runFair` and transports it with `run_eq_run0` (a `start p ha hb ra rb` system has no dataReceived /
writeConnectionLost reaction).
-/
namespace TwistedProps.C15
open Twisted.Transport.Tcp

/-- the system of the one-closer discipline: protocols react to readConnectionLost only -/
abbrev start0 (p : Params) (ha hb : Bool) (ra rb : List AppOp) : Sys :=
  Sys.init p (Conn.fresh ha ra) (Conn.fresh hb rb)

theorem noReact_start0 (p : Params) (ha hb : Bool) (ra rb : List AppOp) : NoReactS (start0 p ha hb ra rb) :=
  noReact_fresh p ha hb ra rb

theorem run_start0 (p : Params) (ha hb : Bool) (ra rb : List AppOp) (evs : List Ev) :
    run (start0 p ha hb ra rb) evs = run0 (start0 p ha hb ra rb) evs :=
  run_eq_run0 evs _ (noReact_start0 p ha hb ra rb)

theorem runFair_start0 (p : Params) (ha hb : Bool) (ra rb : List AppOp) (evs : List Ev) (fuel : Nat) :
    runFair fuel (run0 (start0 p ha hb ra rb) evs) = runFair0 fuel (run0 (start0 p ha hb ra rb) evs) :=
  runFair_eq_runFair0 fuel _ (noReactS_run0 evs _ (noReact_start0 p ha hb ra rb))

theorem peer_receives_prefix0 (p : Params) (ha hb : Bool) (ra rb : List AppOp) (evs : List Ev) :
    let s := run0 (start0 p ha hb ra rb) evs
    s.b.received <+: s.a.accepted ∧ s.a.received <+: s.b.accepted := by
  intro s
  have hg := good_run evs _ (good_fresh p ha hb ra rb)
  rw [show run (fresh p ha hb ra rb) evs = run0 (start0 p ha hb ra rb) evs from run_start0 p ha hb ra rb evs] at hg
  obtain ⟨⟨a1, _, ⟨r1, e1, _⟩, _⟩, ⟨b1, _, ⟨r2, e2, _⟩, _⟩⟩ := hg
  simp only [Inv1, Sys.view] at a1 b1 e1 e2
  exact ⟨⟨s.kb.inq ++ r1 ++ pending s.a, by rw [← a1, e1]; simp only [List.append_assoc]; rfl⟩,
         ⟨s.ka.inq ++ r2 ++ pending s.b, by rw [← b1, e2]; simp only [List.append_assoc]; rfl⟩⟩


/-- the peer of `w` -/
abbrev peer (w : Side) : Side := swapSide w

/-- **Cross-endpoint invariants (loseConnection).**  In every state a disciplined schedule reaches after the
    close: no RST, FIN only after the flush, the peer's socket closes only after EOF, nothing discarded,
    pending bytes ⇒ writer registered.  (Closer on side A; side B is the mirror image, `lose_A`/`swapSys`.) -/
theorem discipline_invariants_lose0 (p : Params) (hp : 0 < p.sendLimit) (hc : 0 < p.cap) (ha hb : Bool)
    (ra rb : List AppOp) (hcfg : closeOk hb rb) (pre post : List Ev)
    (hpre : ∀ ev ∈ pre, preEv .A ev = true) (hpost : ∀ ev ∈ post, noise ev = true)
    (hrd : (run0 (start0 p ha hb ra rb) pre).b.reading = true) :
    let s := run0 (start0 p ha hb ra rb) (pre ++ .app .A .lose :: post)
    DiscFacts s.a s.b s.ka s.kb :=
  lose_facts false _ _ _ _ (lose_A p hp hc ha hb ra rb hcfg pre post hpre hpost hrd).1

/-- **Cross-endpoint invariants (half-close).**  As above; here each socket closes only after EOF. -/
theorem discipline_invariants_half0 (p : Params) (hp : 0 < p.sendLimit) (hc : 0 < p.cap) (ha hb : Bool)
    (ra rb : List AppOp) (hcfa : closeOk ha ra) (hcfg : replyOk hb rb) (pre post : List Ev)
    (hpre : ∀ ev ∈ pre, preEv .A ev = true) (hpost : ∀ ev ∈ post, noise ev = true)
    (hra : (run0 (start0 p ha hb ra rb) pre).a.reading = true)
    (hrd : (run0 (start0 p ha hb ra rb) pre).b.reading = true) :
    let s := run0 (start0 p ha hb ra rb) (pre ++ .app .A .loseWrite :: post)
    DiscFacts s.a s.b s.ka s.kb ∧ (s.ka.closed = true → s.ka.inFin = true) :=
  half_facts _ _ _ _ (half_A p hp hc ha hb ra rb hcfa hcfg pre post hpre hpost hra hrd).1

/-- **Pending bytes ⇒ writer registered**, in every state before the close operation. -/
theorem writer_registered_before_close0 (p : Params) (hp : 0 < p.sendLimit) (ha hb : Bool) (ra rb : List AppOp)
    (pre : List Ev) (hpre : ∀ ev ∈ pre, preEv .A ev = true) :
    let s := run0 (start0 p ha hb ra rb) pre
    (pending s.a ≠ [] → s.a.writing = true) ∧ pending s.b = [] :=
  have h := P0_run pre _ (by simpa [fresh, Sys.init] using hp) hpre (P0_fresh p ha hb ra rb)
  ⟨h.1, h.2.2.2.2.2.2.2.1⟩

/-- **The progress measure.**  A fair round started in a non-quiescent state of a disciplined run0 (closer `w`)
    strictly decreases `mu` and stays inside the discipline's invariant. -/
theorem fair_round_decreases_measure0 (w : Side) (s : Sys) (h : FInvW w s) (hq : s.quiescent = false) :
    FInvW w (run0 s fairRound) ∧ mu (run0 s fairRound) < mu s :=
  fairRound_dec (FInvW w) (roundOK_W w) s h hq

/-- **Orderly close, any quiescent state**: whatever readiness reports follow the loseConnection, if the system
    is at rest then both protocols were told ConnectionDone exactly once and the reader has every byte. -/
theorem loseConnection_at_rest0 (p : Params) (hp : 0 < p.sendLimit) (hc : 0 < p.cap) (w : Side) (ha hb : Bool)
    (ra rb : List AppOp) (hcfg : match w with | .A => closeOk hb rb | .B => closeOk ha ra) (pre post : List Ev)
    (hpre : ∀ ev ∈ pre, preEv w ev = true) (hpost : ∀ ev ∈ post, noise ev = true)
    (hrd : (connOf (run0 (start0 p ha hb ra rb) pre) (peer w)).reading = true) :
    let s := run0 (start0 p ha hb ra rb) (pre ++ .app w .lose :: post)
    s.quiescent = true → s.a.lost = [.done] ∧ s.b.lost = [.done] ∧ s.b.received = s.a.accepted ∧
      s.a.received = s.b.accepted :=
  lose_any p hp hc w ha hb ra rb hcfg pre post hpre hpost hrd

/-- **Orderly close, liveness**: the fair completion (`runFair0`, fuel ≥ `mu`) of a disciplined schedule with
    loseConnection is quiescent, each protocol's connectionLost was called exactly once with ConnectionDone, and
    each side received exactly the bytes the other wrote. -/
theorem loseConnection_clean_close0 (p : Params) (hp : 0 < p.sendLimit) (hr : 0 < p.recvMax) (hc : 0 < p.cap)
    (w : Side) (ha hb : Bool) (ra rb : List AppOp)
    (hcfg : match w with | .A => closeOk hb rb | .B => closeOk ha ra) (pre post : List Ev)
    (hpre : ∀ ev ∈ pre, preEv w ev = true) (hpost : ∀ ev ∈ post, noise ev = true)
    (hrd : (connOf (run0 (start0 p ha hb ra rb) pre) (peer w)).reading = true) (fuel : Nat)
    (hf : mu (run0 (start0 p ha hb ra rb) (pre ++ .app w .lose :: post)) ≤ fuel) :
    let s := runFair0 fuel (run0 (start0 p ha hb ra rb) (pre ++ .app w .lose :: post))
    s.quiescent = true ∧ s.a.lost = [.done] ∧ s.b.lost = [.done] ∧ s.b.received = s.a.accepted ∧
      s.a.received = s.b.accepted := by
  intro s
  have hI := finv_lose p hp hr hc w ha hb ra rb hcfg pre post hpre hpost hrd
  have hq := (runFair_quiescent _ (roundOK_W w) fuel _ hI hf).1
  obtain ⟨post', hn, e⟩ := runFair_after fuel (start0 p ha hb ra rb) pre post (.app w .lose) hpost
  have hq' : (run0 (start0 p ha hb ra rb) (pre ++ .app w .lose :: post')).quiescent = true := by rw [← e]; exact hq
  have := lose_any p hp hc w ha hb ra rb hcfg pre post' hpre hn hrd hq'
  show s.quiescent = true ∧ _
  rw [show s = run0 (start0 p ha hb ra rb) (pre ++ .app w .lose :: post') from e]
  exact ⟨hq', this⟩

/-- **Half-close, any quiescent state.** -/
theorem halfClose_at_rest0 (p : Params) (hp : 0 < p.sendLimit) (hc : 0 < p.cap) (w : Side) (ha hb : Bool)
    (ra rb : List AppOp)
    (hcfg : match w with | .A => closeOk ha ra ∧ replyOk hb rb | .B => closeOk hb rb ∧ replyOk ha ra)
    (pre post : List Ev)
    (hpre : ∀ ev ∈ pre, preEv w ev = true) (hpost : ∀ ev ∈ post, noise ev = true)
    (hra : (run0 (start0 p ha hb ra rb) pre).a.reading = true)
    (hrb : (run0 (start0 p ha hb ra rb) pre).b.reading = true) :
    let s := run0 (start0 p ha hb ra rb) (pre ++ .app w .loseWrite :: post)
    s.quiescent = true → s.a.lost = [.done] ∧ s.b.lost = [.done] ∧ s.b.received = s.a.accepted ∧
      s.a.received = s.b.accepted :=
  half_any p hp hc w ha hb ra rb hcfg pre post hpre hpost hra hrb

/-- **Half-close, liveness**: after loseWriteConnection the fair completion is quiescent, both reasons are
    ConnectionDone, the peer got everything the initiator wrote and the initiator got the whole reply. -/
theorem halfClose_clean_close0 (p : Params) (hp : 0 < p.sendLimit) (hr : 0 < p.recvMax) (hc : 0 < p.cap)
    (w : Side) (ha hb : Bool) (ra rb : List AppOp)
    (hcfg : match w with | .A => closeOk ha ra ∧ replyOk hb rb | .B => closeOk hb rb ∧ replyOk ha ra)
    (pre post : List Ev)
    (hpre : ∀ ev ∈ pre, preEv w ev = true) (hpost : ∀ ev ∈ post, noise ev = true)
    (hra : (run0 (start0 p ha hb ra rb) pre).a.reading = true)
    (hrb : (run0 (start0 p ha hb ra rb) pre).b.reading = true) (fuel : Nat)
    (hf : mu (run0 (start0 p ha hb ra rb) (pre ++ .app w .loseWrite :: post)) ≤ fuel) :
    let s := runFair0 fuel (run0 (start0 p ha hb ra rb) (pre ++ .app w .loseWrite :: post))
    s.quiescent = true ∧ s.a.lost = [.done] ∧ s.b.lost = [.done] ∧ s.b.received = s.a.accepted ∧
      s.a.received = s.b.accepted := by
  intro s
  have hI := finv_half p hp hr hc w ha hb ra rb hcfg pre post hpre hpost hra hrb
  have hq := (runFair_quiescent _ (roundOK_W w) fuel _ hI hf).1
  obtain ⟨post', hn, e⟩ := runFair_after fuel (start0 p ha hb ra rb) pre post (.app w .loseWrite) hpost
  have hq' : (run0 (start0 p ha hb ra rb) (pre ++ .app w .loseWrite :: post')).quiescent = true := by
    rw [← e]; exact hq
  have := half_any p hp hc w ha hb ra rb hcfg pre post' hpre hn hra hrb hq'
  show s.quiescent = true ∧ _
  rw [show s = run0 (start0 p ha hb ra rb) (pre ++ .app w .loseWrite :: post') from e]
  exact ⟨hq', this⟩

/-- **Abort, any quiescent state.** -/
theorem abortConnection_at_rest0 (p : Params) (hp : 0 < p.sendLimit) (w : Side) (ha hb : Bool) (ra rb : List AppOp)
    (pre post : List Ev)
    (hpre : ∀ ev ∈ pre, preEv w ev = true) (hpost : ∀ ev ∈ post, noise ev = true)
    (hrd : (connOf (run0 (start0 p ha hb ra rb) pre) (peer w)).reading = true) :
    let s := run0 (start0 p ha hb ra rb) (pre ++ .app w .abort :: post)
    s.quiescent = true → (connOf s w).lost = [.aborted] ∧ (connOf s (peer w)).lost = [.lost] :=
  abort_any p hp w ha hb ra rb pre post hpre hpost hrd

/-- **Abort, liveness**: after abortConnection the fair completion is quiescent; the aborting side's protocol
    was told ConnectionAborted (once), the other side exactly one reason (ConnectionLost); what the reader got is
    a prefix of what was written (`peer_receives_prefix_of_written`, valid in every state). -/
theorem abortConnection_close0 (p : Params) (hp : 0 < p.sendLimit) (hr : 0 < p.recvMax)
    (w : Side) (ha hb : Bool) (ra rb : List AppOp) (pre post : List Ev)
    (hpre : ∀ ev ∈ pre, preEv w ev = true) (hpost : ∀ ev ∈ post, noise ev = true)
    (hrd : (connOf (run0 (start0 p ha hb ra rb) pre) (peer w)).reading = true) (fuel : Nat)
    (hf : mu (run0 (start0 p ha hb ra rb) (pre ++ .app w .abort :: post)) ≤ fuel) :
    let s := runFair0 fuel (run0 (start0 p ha hb ra rb) (pre ++ .app w .abort :: post))
    s.quiescent = true ∧ (connOf s w).lost = [.aborted] ∧ (connOf s (peer w)).lost = [.lost] ∧
      s.b.received <+: s.a.accepted ∧ s.a.received <+: s.b.accepted := by
  intro s
  have hI := finv_abort p hp hr w ha hb ra rb pre post hpre hpost hrd
  have hq := (runFair_quiescent _ (roundOK_W w) fuel _ hI hf).1
  obtain ⟨post', hn, e⟩ := runFair_after fuel (start0 p ha hb ra rb) pre post (.app w .abort) hpost
  have hq' : (run0 (start0 p ha hb ra rb) (pre ++ .app w .abort :: post')).quiescent = true := by rw [← e]; exact hq
  have := abort_any p hp w ha hb ra rb pre post' hpre hn hrd hq'
  have hpre' := peer_receives_prefix0 p ha hb ra rb (pre ++ .app w .abort :: post')
  show s.quiescent = true ∧ _
  rw [show s = run0 (start0 p ha hb ra rb) (pre ++ .app w .abort :: post') from e]
  exact ⟨hq', this.1, this.2, hpre'⟩

/-- **`accepted` is what was written.**  For a disciplined schedule with any close operation of side `w` whose
    protocol does not write from readConnectionLost: the closer's `accepted` is the concatenation of the bytes
    passed to write()/writeSequence() by the schedule; a peer that does not write there has accepted nothing. -/
theorem closer_accepted_is_written0 (p : Params) (hp : 0 < p.sendLimit) (w : Side) (ha hb : Bool) (ra rb : List AppOp)
    (hcw : match w with | .A => noWrites ha ra | .B => noWrites hb rb)
    (pre post : List Ev) (op : AppOp) (hop : AppOp.isWrite op = false)
    (hpre : ∀ ev ∈ pre, preEv w ev = true) (hpost : ∀ ev ∈ post, noise ev = true) :
    let s := run0 (start0 p ha hb ra rb) (pre ++ .app w op :: post)
    (connOf s w).accepted = written w pre ∧
    ((match w with | .A => noWrites hb rb | .B => noWrites ha ra) → (connOf s (peer w)).accepted = []) :=
  accepted_any p hp w ha hb ra rb hcw pre post op hop hpre hpost

/-- **loseConnection delivers exactly the bytes written** (closer on side A; side B is the mirror image): at the
    end of the fair completion B's protocol holds `written .A pre`, A's nothing, both were told ConnectionDone. -/
theorem loseConnection_delivers_written0 (p : Params) (hp : 0 < p.sendLimit) (hr : 0 < p.recvMax) (hc : 0 < p.cap)
    (ha hb : Bool) (ra rb : List AppOp) (hca : noWrites ha ra) (hcfg : closeOk hb rb) (pre post : List Ev)
    (hpre : ∀ ev ∈ pre, preEv .A ev = true) (hpost : ∀ ev ∈ post, noise ev = true)
    (hrd : (run0 (start0 p ha hb ra rb) pre).b.reading = true) (fuel : Nat)
    (hf : mu (run0 (start0 p ha hb ra rb) (pre ++ .app .A .lose :: post)) ≤ fuel) :
    let s := runFair0 fuel (run0 (start0 p ha hb ra rb) (pre ++ .app .A .lose :: post))
    s.quiescent = true ∧ s.a.lost = [.done] ∧ s.b.lost = [.done] ∧ s.b.received = written .A pre ∧
      s.a.received = [] := by
  intro s
  have h := loseConnection_clean_close0 p hp hr hc .A ha hb ra rb hcfg pre post hpre hpost hrd fuel hf
  obtain ⟨post', hn, e⟩ := runFair_after fuel (start0 p ha hb ra rb) pre post (.app .A .lose) hpost
  have hacc := closer_accepted_is_written0 p hp .A ha hb ra rb hca pre post' .lose rfl hpre hn
  have hs : s = run0 (start0 p ha hb ra rb) (pre ++ .app .A .lose :: post') := e
  obtain ⟨h1, h2, h3, h4, h5⟩ := h
  refine ⟨h1, h2, h3, ?_, ?_⟩
  · rw [show s.b.received = s.a.accepted from h4, hs]; exact hacc.1
  · rw [show s.a.received = s.b.accepted from h5, hs]; exact hacc.2 (closeOk_noWrites hb rb hcfg)

/-- **Half-close delivers exactly the bytes written** to the peer (closer on side A); what the initiator receives
    is exactly what the peer's reply was accepted as (`halfClose_clean_close0`). -/
theorem halfClose_delivers_written0 (p : Params) (hp : 0 < p.sendLimit) (hr : 0 < p.recvMax) (hc : 0 < p.cap)
    (ha hb : Bool) (ra rb : List AppOp) (hcfa : closeOk ha ra) (hcfg : replyOk hb rb) (pre post : List Ev)
    (hpre : ∀ ev ∈ pre, preEv .A ev = true) (hpost : ∀ ev ∈ post, noise ev = true)
    (hra : (run0 (start0 p ha hb ra rb) pre).a.reading = true)
    (hrb : (run0 (start0 p ha hb ra rb) pre).b.reading = true) (fuel : Nat)
    (hf : mu (run0 (start0 p ha hb ra rb) (pre ++ .app .A .loseWrite :: post)) ≤ fuel) :
    let s := runFair0 fuel (run0 (start0 p ha hb ra rb) (pre ++ .app .A .loseWrite :: post))
    s.quiescent = true ∧ s.a.lost = [.done] ∧ s.b.lost = [.done] ∧ s.b.received = written .A pre ∧
      s.a.received = s.b.accepted := by
  intro s
  have h := halfClose_clean_close0 p hp hr hc .A ha hb ra rb ⟨hcfa, hcfg⟩ pre post hpre hpost hra hrb fuel hf
  obtain ⟨post', hn, e⟩ := runFair_after fuel (start0 p ha hb ra rb) pre post (.app .A .loseWrite) hpost
  have hacc := closer_accepted_is_written0 p hp .A ha hb ra rb (closeOk_noWrites ha ra hcfa) pre post' .loseWrite rfl
    hpre hn
  have hs : s = run0 (start0 p ha hb ra rb) (pre ++ .app .A .loseWrite :: post') := e
  obtain ⟨h1, h2, h3, h4, h5⟩ := h
  refine ⟨h1, h2, h3, ?_, h5⟩
  rw [show s.b.received = s.a.accepted from h4, hs]; exact hacc.1


end TwistedProps.C15
