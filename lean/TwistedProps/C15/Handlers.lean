import TwistedProps.C15.Base0
/-!
C15 lemmas — closed forms of the handlers on a transport whose sockets are in a normal state
(used by the clean-close proofs in `Close.lean`).
-/
namespace TwistedProps.C15
open Twisted.Transport.Tcp

/-! ### dispatch -/

theorem io_idle (p : Params) (v : View) (i o h : Bool) (nr nw : Nat)
    (hr : v.c.reading = false) (hw : v.c.writing = false) : io0 p v i o h nr nw = v := by
  simp [io0, hr, hw]

theorem rtw_ff (p : Params) (v : View) (nr nw : Nat) : readThenWrite0 p v false false nr nw = v := by
  simp [readThenWrite0]

theorem rtw_ft (p : Params) (v : View) (nr nw : Nat) :
    readThenWrite0 p v false true nr nw =
      match doWrite0 p v nw with
      | (some w, v') => disconnectSelectable v' w false
      | (none, v') => v' := by
  cases h : doWrite0 p v nw with
  | mk r v' => cases r <;> simp [readThenWrite0, h]

theorem rtw_t (p : Params) (v : View) (o : Bool) (nr nw : Nat) :
    readThenWrite0 p v true o nr nw =
      match doRead0 p v nr with
      | (some w, v') => disconnectSelectable v' w true
      | (none, v') => readThenWrite0 p v' false o nr nw := by
  cases h : doRead0 p v nr with
  | mk r v' => cases r <;> simp [readThenWrite0, h]

/-- a live transport on which a hang-up is only ever reported together with readability: the dispatch is
    `doRead0` (if registered for reading) then `doWrite0` (if registered for writing) -/
theorem io_rtw (p : Params) (v : View) (i o h : Bool) (nr nw : Nat)
    (hh : hupCond v.k = true → v.c.reading = true ∨ v.c.writing = true → v.c.reading = true)
    (hs : v.c.hasSocket = true) :
    ∃ ie oe, (ie = true → v.c.reading = true) ∧ (oe = true → v.c.writing = true) ∧
      (i = true → v.c.reading = true → ie = true) ∧ (o = true → v.c.writing = true → oe = true) ∧
      io0 p v i o h nr nw = readThenWrite0 p v ie oe nr nw := by
  unfold io0
  dsimp only
  split
  · rename_i h0
    refine ⟨false, false, by simp, by simp, ?_, ?_, (rtw_ff p v nr nw).symm⟩
    · intro hi hr; simp [hi, hr] at h0
    · intro ho hw; simp [ho, hw] at h0
  · split
    · rename_i h1 h2
      exfalso
      simp only [Bool.and_eq_true, Bool.or_eq_true, Bool.not_eq_true'] at h2
      obtain ⟨⟨⟨_, hc⟩, hrw⟩, h3⟩ := h2
      have := hh hc hrw
      simp [this, hc] at h3
      grind
    · simp only [hs, Bool.not_true, Bool.false_eq_true, if_false]
      refine ⟨_, _, by simp, by simp, ?_, ?_, rfl⟩
      · intro hi hr; simp [hi, hr]
      · intro ho hw; simp [ho, hw]

/-! ### doRead0 -/

/-- the four outcomes of `doRead0` on a transport that is not aborting -/
theorem doRead_cases (p : Params) (v : View) (n : Nat) (ha : v.c.aborting = false) :
    ((n = 0 ∨ (v.k.inq = [] ∧ v.k.inRst = false ∧ v.k.inFin = false)) ∧ doRead0 p v n = (none, v)) ∨
    (n ≠ 0 ∧ v.k.inq ≠ [] ∧ doRead0 p v n =
      (none, { v with c := { v.c with received := v.c.received ++ v.k.inq.take (min n p.recvMax) },
                      k := { v.k with inq := v.k.inq.drop (min n p.recvMax) } })) ∨
    (n ≠ 0 ∧ v.k.inq = [] ∧ v.k.inRst = true ∧ doRead0 p v n = (some .lost, v)) ∨
    (n ≠ 0 ∧ v.k.inq = [] ∧ v.k.inRst = false ∧ v.k.inFin = true ∧ doRead0 p v n = (some .done, v)) := by
  by_cases hn : n = 0
  · exact Or.inl ⟨Or.inl hn, by simp [doRead0, kRecv, ha, hn]⟩
  by_cases hq : v.k.inq = []
  · by_cases hr : v.k.inRst = true
    · exact Or.inr (Or.inr (Or.inl ⟨hn, hq, hr, by simp [doRead0, kRecv, ha, hn, hq, hr]⟩))
    · by_cases hf : v.k.inFin = true
      · exact Or.inr (Or.inr (Or.inr ⟨hn, hq, by simpa using hr, hf, by simp [doRead0, kRecv, ha, hn, hq, hr, hf]⟩))
      · exact Or.inl ⟨Or.inr ⟨hq, by simpa using hr, by simpa using hf⟩, by simp [doRead0, kRecv, ha, hn, hq, hr, hf]⟩
  · exact Or.inr (Or.inl ⟨hn, hq, by simp [doRead0, kRecv, ha, hn, hq]⟩)

/-! ### doWrite0 -/

/-- what `doWrite0` does once the buffers are empty -/
def finishW (v : View) : Option Reason × View :=
  if v.c.disconnecting then (some .done, v)
  else if v.c.writeDisconnecting then
    let v1 := kShutWr { v with c := { v.c with writeDisconnected := true } }
    (none, if v.c.halfCloseable then { v1 with c := { v1.c with writeLost := v1.c.writeLost + 1 } } else v1)
  else (none, v)

theorem pending_consume (p : Params) (c : Conn) (l : Nat) (hl : l ≤ (offered p c).length) :
    pending c = (offered p c).take l ++ (c.dataBuffer.drop (c.offset + l) ++ c.temp) := by
  simp only [pending, offered] at *
  have hl' : l ≤ p.sendLimit := by simp [List.length_take] at hl; omega
  rw [List.take_take, Nat.min_eq_left hl']
  have : List.drop (c.offset + l) c.dataBuffer = List.drop l (List.drop c.offset c.dataBuffer) := by
    rw [List.drop_drop]
  rw [this, ← List.append_assoc, List.take_append_drop]

theorem pending_mergeBuf (p : Params) (c : Conn) : pending (mergeBuf p c) = pending c :=
  (sameData_mergeBuf p c).2.2.1

/-- after the merge step0, an empty offer means that nothing at all is pending and the flush test succeeds -/
theorem offered_empty (p : Params) (c : Conn) (hp : 0 < p.sendLimit) (h : offered p (mergeBuf p c) = []) :
    (mergeBuf p c).offset = (mergeBuf p c).dataBuffer.length ∧ (mergeBuf p c).temp = [] := by
  by_cases hc : c.dataBuffer.length - c.offset < p.sendLimit
  · simp only [mergeBuf, hc, if_true, offered, List.drop_zero] at h ⊢
    have : c.dataBuffer.drop c.offset ++ c.temp = [] := by
      rcases List.take_eq_nil_iff.mp h with h | h
      · omega
      · exact h
    simp [this]
  · simp only [mergeBuf, hc, if_false, offered] at h ⊢
    rcases List.take_eq_nil_iff.mp h with h | h
    · omega
    · have : c.dataBuffer.length - c.offset = 0 := by simpa using congrArg List.length h
      omega

theorem afterSend_eq (v : View) (off : Bytes) (l : Nat) :
    afterSend0 v off l =
      if (v.c.offset + l == v.c.dataBuffer.length && v.c.temp.isEmpty) = true then
        finishW { v with c := { v.c with offset := 0, sent := v.c.sent ++ off.take l, dataBuffer := [],
                                          writing := false } }
      else (none, { v with c := { v.c with offset := v.c.offset + l, sent := v.c.sent ++ off.take l } }) := by
  unfold afterSend0 finishW
  dsimp only

theorem mergeBuf_eq (p : Params) (c : Conn) :
    mergeBuf p c = { c with dataBuffer := (mergeBuf p c).dataBuffer, offset := (mergeBuf p c).offset,
                            temp := (mergeBuf p c).temp } := by
  unfold mergeBuf; split <;> rfl

/-- `doWrite0` on a transport whose socket pair is in the normal state: some prefix `d` of the pending bytes
    moves to the peer's receive queue; either something stays buffered, or the buffers are now empty and
    `finishW` decides (CONNECTION_DONE / shutdown(SHUT_WR) / stop writing). -/
theorem doWrite_clean (p : Params) (v : View) (n : Nat) (ha : v.c.aborting = false)
    (hr : v.k.inRst = false) (hw : v.k.shutWr = false) (hc : v.pk.closed = false) (hp : 0 < p.sendLimit) :
    ∃ d : Bytes,
      (∃ db off tmp, pending v.c = d ++ (List.drop off db ++ tmp) ∧
          (0 < n → v.pk.inq.length < p.cap → d ≠ []) ∧
          doWrite0 p v n = (none, ⟨{ v.c with dataBuffer := db, offset := off, temp := tmp, sent := v.c.sent ++ d },
                                  v.k, { v.pk with inq := v.pk.inq ++ d }⟩)) ∨
      (pending v.c = d ∧
          doWrite0 p v n = finishW ⟨{ v.c with dataBuffer := [], offset := 0, temp := [], sent := v.c.sent ++ d,
                                               writing := false }, v.k, { v.pk with inq := v.pk.inq ++ d }⟩) := by
  have hm := mergeBuf_eq p v.c
  have hpm := pending_mergeBuf p v.c
  have hoe := offered_empty p v.c hp
  have hdw : ∀ l v', kSend p { v with c := mergeBuf p v.c } (offered p (mergeBuf p v.c)) n = (some l, v') →
      doWrite0 p v n = afterSend0 v' (offered p (mergeBuf p v.c)) l := by
    intro l v' h
    simp [doWrite0, ha, h]
  generalize mergeBuf p v.c = m at hm hpm hdw hoe
  by_cases he : offered p m = []
  · -- nothing to send
    obtain ⟨h1, h2⟩ := hoe he
    have hks : kSend p { v with c := m } (offered p m) n = (some 0, { v with c := m }) := by
      simp [kSend, hr, hw, he]
    refine ⟨[], Or.inr ⟨?_, ?_⟩⟩
    · rw [← hpm]; simp [pending, h1, h2]
    · rw [hdw _ _ hks]
      simp only [afterSend_eq]
      rw [if_pos (by simp [h1, h2])]
      congr 1
      rw [hm]
      simp [h2]
  · -- `l` bytes go to the peer's queue
    let l := min n (min (offered p m).length (p.cap - v.pk.inq.length))
    have hks : kSend p { v with c := m } (offered p m) n =
        (some l, { v with c := m, pk := { v.pk with inq := v.pk.inq ++ (offered p m).take l } }) := by
      simp [kSend, hr, hw, he, hc, l]
    have hl : l ≤ (offered p m).length := by omega
    have hcons := pending_consume p m l hl
    rw [hdw _ _ hks]
    simp only [afterSend_eq]
    refine ⟨(offered p m).take l, ?_⟩
    by_cases hfl : (m.offset + l == m.dataBuffer.length && m.temp.isEmpty) = true
    · right
      rw [if_pos hfl]
      simp only [Bool.and_eq_true, beq_iff_eq, List.isEmpty_iff] at hfl
      refine ⟨?_, ?_⟩
      · rw [← hpm, hcons, hfl.1, hfl.2]; simp
      · congr 1
        rw [hm]
        simp [hfl.2]
    · left
      rw [if_neg hfl]
      refine ⟨m.dataBuffer, m.offset + l, m.temp, ?_, ?_, ?_⟩
      · rw [← hpm, hcons]
      · intro hn hsp
        have : 0 < (offered p m).length := List.length_pos_iff.mpr he
        have hl0 : 0 < l := by
          show 0 < min n (min (offered p m).length (p.cap - v.pk.inq.length))
          omega
        intro h0
        have h1 := congrArg List.length h0
        rw [List.length_take, Nat.min_eq_left hl] at h1
        simp at h1
        omega
      · congr 1
        rw [hm]

/-- `doWrite0` with nothing buffered (whatever the state of the peer's socket) -/
theorem doWrite_empty (p : Params) (v : View) (n : Nat) (ha : v.c.aborting = false)
    (hr : v.k.inRst = false) (hw : v.k.shutWr = false) (hp : 0 < p.sendLimit) (he : pending v.c = []) :
    doWrite0 p v n = finishW ⟨{ v.c with dataBuffer := [], offset := 0, temp := [], writing := false }, v.k, v.pk⟩ := by
  have hm := mergeBuf_eq p v.c
  have hpm := pending_mergeBuf p v.c
  have hoe := offered_empty p v.c hp
  have hdw : ∀ l v', kSend p { v with c := mergeBuf p v.c } (offered p (mergeBuf p v.c)) n = (some l, v') →
      doWrite0 p v n = afterSend0 v' (offered p (mergeBuf p v.c)) l := by
    intro l v' h
    simp [doWrite0, ha, h]
  generalize mergeBuf p v.c = m at hm hpm hdw hoe
  have he' : offered p m = [] := by
    rw [he] at hpm
    simp only [pending, List.append_eq_nil_iff] at hpm
    simp [offered, hpm.1]
  obtain ⟨h1, h2⟩ := hoe he'
  have hks : kSend p { v with c := m } (offered p m) n = (some 0, { v with c := m }) := by
    simp [kSend, hr, hw, he']
  rw [hdw _ _ hks]
  simp only [afterSend_eq]
  rw [if_pos (by simp [h1, h2])]
  congr 1
  rw [hm]
  simp [h2]

theorem appOps_one (v : View) (op : AppOp) : appOps v [op] = appOp v op := rfl

end TwistedProps.C15
