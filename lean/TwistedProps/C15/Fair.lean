import TwistedProps.C15.Progress
/-!
C15 lemmas — a fair round started in a non-quiescent disciplined state strictly decreases `mu`; hence `runFair0`
with enough fuel ends in a quiescent state.
-/
namespace TwistedProps.C15
open Twisted.Transport.Tcp

def enA (s : Sys) : Bool := enIO s.p (s.view .A)
def enB (s : Sys) : Bool := enIO s.p (s.view .B)
def tmA (s : Sys) : Bool := s.a.abortCall
def tmB (s : Sys) : Bool := s.b.abortCall

theorem quiescent_flags (s : Sys) (h : s.quiescent = false) :
    enA s = true ∨ enB s = true ∨ tmA s = true ∨ tmB s = true := by
  simp only [Sys.quiescent, quietView_eq] at h
  simp only [enA, enB, tmA, tmB]
  revert h
  cases enIO s.p (s.view .A) <;> cases enIO s.p (s.view .B) <;> cases hA : s.a.abortCall <;> cases hB : s.b.abortCall <;>
    simp [Sys.view, hA, hB]

/-- the system follows the discipline after the close operation (closer = A) -/
def FInv (s : Sys) : Prop :=
  0 < s.p.sendLimit ∧ 0 < s.p.recvMax ∧ ((∃ wd, SysLose wd s) ∨ SysHalf s ∨ SysAbort s)

structure StepOK (I : Sys → Prop) (en : Sys → Bool) (s s' : Sys) : Prop where
  inv : I s'
  le : mu s' ≤ mu s
  lt : en s = true → mu s' < mu s
  kEnA : enA s = true → enA s' = true ∨ mu s' < mu s
  kEnB : enB s = true → enB s' = true ∨ mu s' < mu s
  kTmA : tmA s = true → tmA s' = true ∨ mu s' < mu s
  kTmB : tmB s = true → tmB s' = true ∨ mu s' < mu s

theorem stepOK_id (I : Sys → Prop) (en : Sys → Bool) (s : Sys) (h : I s) (he : en s = false) : StepOK I en s s :=
  ⟨h, Nat.le_refl _, fun h' => by simp [he] at h', Or.inl, Or.inl, Or.inl, Or.inl⟩

def BIG : Nat := 1000000000

theorem finv_abortCall (s : Sys) (h : FInv s) : s.b.abortCall = false ∧
    (s.a.abortCall = true → SysAbort s) := by
  obtain ⟨-, -, h | h | h⟩ := h
  · obtain ⟨wd, h⟩ := h
    have := lose_abortCall wd _ _ _ _ h
    exact ⟨this.2, fun h' => by simp [this.1] at h'⟩
  · have := half_abortCall _ _ _ _ h
    exact ⟨this.2, fun h' => by simp [this.1] at h'⟩
  · exact ⟨abort_abortCallB _ _ _ _ h, fun _ => h⟩

theorem stepOK_ioA (s : Sys) (h : FInv s) : StepOK FInv enA s (step0 s (.io .A true true true BIG BIG)) := by
  obtain ⟨hp, hrm, hk⟩ := h
  have hinv : FInv (step0 s (.io .A true true true BIG BIG)) := by
    refine ⟨by rw [step_p]; exact hp, by rw [step_p]; exact hrm, ?_⟩
    rcases hk with ⟨wd, hk⟩ | hk | hk
    · exact Or.inl ⟨wd, lose_step wd s hp _ rfl hk⟩
    · exact Or.inr (Or.inl (half_step s hp _ rfl hk))
    · exact Or.inr (Or.inr (abort_step s _ rfl hk))
  have hdec : Dec s.p s.b (s.view .A) (io0 s.p (s.view .A) true true true BIG BIG) true true BIG BIG := by
    rcases hk with ⟨wd, hk⟩ | hk | hk
    · exact lose_ioA_mu wd s.p hp (s.view .A) s.b _ _ _ _ _ hk
    · exact half_ioA_mu s.p hp hrm (s.view .A) s.b _ _ _ _ _ hk
    · rw [abort_ioA s.p (s.view .A) s.b _ _ _ _ _ hk]
      have H : (s.view .A).c.reading = false ∧ (s.view .A).c.writing = false := by
        rcases hk with hk | hk | hk
        · simp only [X1, AbortingC] at hk; exact ⟨hk.1.2.2.2.2.2.1, hk.1.2.2.2.2.2.2.1⟩
        · simp only [X2, DeadC] at hk; exact ⟨hk.1.2.2.2.2.1, hk.1.2.2.2.2.2.1⟩
        · simp only [X3, DeadC] at hk; exact ⟨hk.1.2.2.2.2.1, hk.1.2.2.2.2.2.1⟩
      exact dec_refl_idle s.p s.b _ _ _ _ _ H.1 H.2
  have hlt : enA s = true → mu (step0 s (.io .A true true true BIG BIG)) < mu s :=
    fun he => hdec.2 rfl rfl (by decide) (by decide) he
  refine ⟨hinv, hdec.1, hlt, fun he => Or.inr (hlt he), ?_, ?_, fun h' => Or.inl h'⟩
  · intro he
    exact Or.inl (mono_enIO s.p s.b _ _ (mono_io s.p (s.view .A) true true true BIG BIG) he)
  · intro h'
    have hab := (finv_abortCall s ⟨hp, hrm, hk⟩).2 h'
    left
    show (io0 s.p (s.view .A) true true true BIG BIG).c.abortCall = true
    rw [abort_ioA s.p (s.view .A) s.b _ _ _ _ _ hab]; exact h'

theorem mu_viewB (s : Sys) (v' : View) :
    mu { s with b := v'.c, kb := v'.k, ka := v'.pk } = muV s.a v' := by
  simp only [mu, muV]; omega

theorem stepOK_ioB (s : Sys) (h : FInv s) : StepOK FInv enB s (step0 s (.io .B true true true BIG BIG)) := by
  obtain ⟨hp, hrm, hk⟩ := h
  have hinv : FInv (step0 s (.io .B true true true BIG BIG)) := by
    refine ⟨by rw [step_p]; exact hp, by rw [step_p]; exact hrm, ?_⟩
    rcases hk with ⟨wd, hk⟩ | hk | hk
    · exact Or.inl ⟨wd, lose_step wd s hp _ rfl hk⟩
    · exact Or.inr (Or.inl (half_step s hp _ rfl hk))
    · exact Or.inr (Or.inr (abort_step s _ rfl hk))
  have hdec : Dec s.p s.a (s.view .B) (io0 s.p (s.view .B) true true true BIG BIG) true true BIG BIG := by
    rcases hk with ⟨wd, hk⟩ | hk | hk
    · exact lose_ioB_mu wd s.p hp hrm (s.view .B) s.a _ _ _ _ _ hk
    · exact half_ioB_mu s.p hp hrm (s.view .B) s.a _ _ _ _ _ hk
    · exact abort_ioB_mu s.p hrm (s.view .B) s.a _ _ _ _ _ hk
  have e1 : mu (step0 s (.io .B true true true BIG BIG)) = muV s.a (io0 s.p (s.view .B) true true true BIG BIG) :=
    mu_viewB s _
  have e0 : mu s = muV s.a (s.view .B) := by simp only [mu, muV, Sys.view]; omega
  have hlt : enB s = true → mu (step0 s (.io .B true true true BIG BIG)) < mu s := by
    intro he; rw [e1, e0]; exact hdec.2 rfl rfl (by decide) (by decide) he
  refine ⟨hinv, by rw [e1, e0]; exact hdec.1, hlt, ?_, fun he => Or.inr (hlt he), fun h' => Or.inl h', ?_⟩
  · intro he
    exact Or.inl (mono_enIO s.p s.a _ _ (mono_io s.p (s.view .B) true true true BIG BIG) he)
  · intro h'
    have := (finv_abortCall s ⟨hp, hrm, hk⟩).1
    simp [tmB, this] at h'

theorem step_timerA_id (s : Sys) (h : s.a.abortCall = false) : step0 s (.timer .A) = s := by
  simp [step0, Sys.put, Sys.view, timer, h]

theorem step_timerB_id (s : Sys) (h : s.b.abortCall = false) : step0 s (.timer .B) = s := by
  simp [step0, Sys.put, Sys.view, timer, h]

theorem stepOK_tB (s : Sys) (h : FInv s) : StepOK FInv tmB s (step0 s (.timer .B)) := by
  have hb := (finv_abortCall s h).1
  rw [step_timerB_id s hb]
  exact stepOK_id FInv tmB s h hb

theorem stepOK_tA (s : Sys) (h : FInv s) : StepOK FInv tmA s (step0 s (.timer .A)) := by
  by_cases ha : s.a.abortCall = true
  · have hab := (finv_abortCall s h).2 ha
    obtain ⟨hp, hrm, -⟩ := h
    have hm := abort_timerA_mu (s.view .A) s.b hab
    have hlt : mu (step0 s (.timer .A)) < mu s := hm.2 ha
    refine ⟨⟨by rw [step_p]; exact hp, by rw [step_p]; exact hrm, Or.inr (Or.inr (abort_timerA (s.view .A) s.b hab))⟩,
      hm.1, fun _ => hlt, fun _ => Or.inr hlt, fun _ => Or.inr hlt, fun _ => Or.inr hlt, fun _ => Or.inr hlt⟩
  · have ha' : s.a.abortCall = false := by simpa using ha
    rw [step_timerA_id s ha']
    exact stepOK_id FInv tmA s h ha'

/-- the four events of a fair round, each well-behaved w.r.t. an invariant `I` and the measure -/
structure RoundOK (I : Sys → Prop) : Prop where
  ioA : ∀ s, I s → StepOK I enA s (step0 s (.io .A true true true BIG BIG))
  ioB : ∀ s, I s → StepOK I enB s (step0 s (.io .B true true true BIG BIG))
  tA : ∀ s, I s → StepOK I tmA s (step0 s (.timer .A))
  tB : ∀ s, I s → StepOK I tmB s (step0 s (.timer .B))

theorem roundOK_FInv : RoundOK FInv := ⟨stepOK_ioA, stepOK_ioB, stepOK_tA, stepOK_tB⟩

/-- one fair round from a non-quiescent state -/
theorem fairRound_dec (I : Sys → Prop) (R : RoundOK I) (s : Sys) (h : I s) (hq : s.quiescent = false) :
    I (run0 s fairRound) ∧ mu (run0 s fairRound) < mu s := by
  have k1 := R.ioA s h
  have k2 := R.ioB _ k1.inv
  have k3 := R.tA _ k2.inv
  have k4 := R.tB _ k3.inv
  have e : run0 s fairRound =
      step0 (step0 (step0 (step0 s (.io .A true true true BIG BIG)) (.io .B true true true BIG BIG)) (.timer .A))
        (.timer .B) := rfl
  rw [e]
  refine ⟨k4.inv, ?_⟩
  have l1 := k1.le; have l2 := k2.le; have l3 := k3.le; have l4 := k4.le
  rcases quiescent_flags s hq with hf | hf | hf | hf
  · have := k1.lt hf; omega
  · rcases k1.kEnB hf with h1 | h1
    · have := k2.lt h1; omega
    · omega
  · rcases k1.kTmA hf with h1 | h1
    · rcases k2.kTmA h1 with h2 | h2
      · have := k3.lt h2; omega
      · omega
    · omega
  · rcases k1.kTmB hf with h1 | h1
    · rcases k2.kTmB h1 with h2 | h2
      · rcases k3.kTmB h2 with h3 | h3
        · have := k4.lt h3; omega
        · omega
      · omega
    · omega

/-- **Progress.**  From any state satisfying such an invariant, `runFair0` with fuel ≥ `mu s` ends in a
    quiescent state (still inside the invariant). -/
theorem runFair_quiescent (I : Sys → Prop) (R : RoundOK I) (fuel : Nat) (s : Sys) (h : I s) (hf : mu s ≤ fuel) :
    (runFair0 fuel s).quiescent = true ∧ I (runFair0 fuel s) := by
  induction fuel generalizing s with
  | zero =>
    cases hq : s.quiescent with
    | true => exact ⟨by simpa [runFair0] using hq, h⟩
    | false => have := (fairRound_dec I R s h hq).2; omega
  | succ n ih =>
    unfold runFair0
    cases hq : s.quiescent with
    | true => simp only [if_true]; exact ⟨hq, h⟩
    | false =>
      simp only [Bool.false_eq_true, if_false]
      have := fairRound_dec I R s h hq
      exact ih _ this.1 (by omega)

/-! ### closer on side B: the same through the symmetry -/

theorem mu_swap (s : Sys) : mu (swapSys s) = mu s := by simp only [mu, swapSys]; omega

theorem stepOK_swap (en en' : Sys → Bool) (hen : ∀ s, en' (swapSys s) = en s) (s s' : Sys)
    (h : StepOK FInv en' (swapSys s) (swapSys s')) : StepOK (fun s => FInv (swapSys s)) en s s' := by
  obtain ⟨h1, h2, h3, h4, h5, h6, h7⟩ := h
  simp only [mu_swap] at h2 h3 h4 h5 h6 h7
  exact ⟨h1, h2, fun he => h3 (by rw [hen]; exact he), h5, h4, h7, h6⟩

theorem roundOK_swap : RoundOK (fun s => FInv (swapSys s)) := by
  refine ⟨fun s h => ?_, fun s h => ?_, fun s h => ?_, fun s h => ?_⟩
  · exact stepOK_swap enA enB (fun _ => rfl) s _ (by rw [← step_swap]; exact stepOK_ioB _ h)
  · exact stepOK_swap enB enA (fun _ => rfl) s _ (by rw [← step_swap]; exact stepOK_ioA _ h)
  · exact stepOK_swap tmA tmB (fun _ => rfl) s _ (by rw [← step_swap]; exact stepOK_tB _ h)
  · exact stepOK_swap tmB tmA (fun _ => rfl) s _ (by rw [← step_swap]; exact stepOK_tA _ h)

end TwistedProps.C15
