import TwistedProps.C15.Half
import TwistedProps.C15.Cfg
/-!
C15 lemmas — the one-closer discipline at system level (closer = side A; side B by `Sys.swap`).
-/
namespace TwistedProps.C15
open Twisted.Transport.Tcp

/-- events that need no application: readiness reports and delayed calls, with any parameters -/
def noise : Ev → Bool
  | .io .. => true
  | .timer _ => true
  | .app .. => false

/-- events allowed before the close operation of side `w`: `w` writes, both sides pause/resume, any noise -/
def preEv (w : Side) : Ev → Bool
  | .io .. => true
  | .timer _ => true
  | .app e (.write _) => e == w
  | .app e (.writeSeq _) => e == w
  | .app _ .pause => true
  | .app _ .resume => true
  | .app .. => false

abbrev SysP0 (s : Sys) : Prop := TwistedProps.C15.P0 s.a s.b s.ka s.kb
abbrev SysLose (wd : Bool) (s : Sys) : Prop := LoseInv wd s.a s.b s.ka s.kb
abbrev SysHalf (s : Sys) : Prop := HalfInv s.a s.b s.ka s.kb
abbrev SysAbort (s : Sys) : Prop := AbortInv s.a s.b s.ka s.kb

theorem step_p (s : Sys) (ev : Ev) : (step0 s ev).p = s.p := by
  cases ev with
  | app e op => cases e <;> rfl
  | io e i o h nr nw => cases e <;> rfl
  | timer e => cases e <;> rfl

theorem run_p (evs : List Ev) (s : Sys) : (run0 s evs).p = s.p := by
  induction evs generalizing s with
  | nil => rfl
  | cons ev evs ih => exact (ih _).trans (step_p s ev)

theorem lose_step (wd : Bool) (s : Sys) (hp : 0 < s.p.sendLimit) (ev : Ev) (hn : noise ev = true)
    (h : SysLose wd s) : SysLose wd (step0 s ev) := by
  cases ev with
  | app e op => simp [noise] at hn
  | io e i o hh nr nw =>
    cases e
    · exact lose_ioA wd s.p hp (s.view .A) s.b i o hh nr nw h
    · exact lose_ioB wd s.p hp (s.view .B) s.a i o hh nr nw h
  | timer e =>
    have := lose_abortCall wd _ _ _ _ h
    cases e
    · show LoseInv wd (timer (s.view .A)).c s.b (timer (s.view .A)).k (timer (s.view .A)).pk
      rw [timer_idle _ this.1]; exact h
    · show LoseInv wd s.a (timer (s.view .B)).c (timer (s.view .B)).pk (timer (s.view .B)).k
      rw [timer_idle _ this.2]; exact h

theorem half_step (s : Sys) (hp : 0 < s.p.sendLimit) (ev : Ev) (hn : noise ev = true)
    (h : SysHalf s) : SysHalf (step0 s ev) := by
  cases ev with
  | app e op => simp [noise] at hn
  | io e i o hh nr nw =>
    cases e
    · exact half_ioA s.p hp (s.view .A) s.b i o hh nr nw h
    · exact half_ioB s.p hp (s.view .B) s.a i o hh nr nw h
  | timer e =>
    have := half_abortCall _ _ _ _ h
    cases e
    · show HalfInv (timer (s.view .A)).c s.b (timer (s.view .A)).k (timer (s.view .A)).pk
      rw [timer_idle _ this.1]; exact h
    · show HalfInv s.a (timer (s.view .B)).c (timer (s.view .B)).pk (timer (s.view .B)).k
      rw [timer_idle _ this.2]; exact h

theorem abort_step (s : Sys) (ev : Ev) (hn : noise ev = true) (h : SysAbort s) : SysAbort (step0 s ev) := by
  cases ev with
  | app e op => simp [noise] at hn
  | io e i o hh nr nw =>
    cases e
    · show AbortInv (io0 s.p (s.view .A) i o hh nr nw).c s.b (io0 s.p (s.view .A) i o hh nr nw).k
        (io0 s.p (s.view .A) i o hh nr nw).pk
      rw [abort_ioA s.p (s.view .A) s.b i o hh nr nw h]; exact h
    · exact abort_ioB s.p (s.view .B) s.a i o hh nr nw h
  | timer e =>
    cases e
    · exact abort_timerA (s.view .A) s.b h
    · show AbortInv s.a (timer (s.view .B)).c (timer (s.view .B)).pk (timer (s.view .B)).k
      rw [timer_idle _ (abort_abortCallB _ _ _ _ h)]; exact h

theorem P0_step (s : Sys) (hp : 0 < s.p.sendLimit) (ev : Ev) (hn : preEv .A ev = true)
    (h : SysP0 s) : SysP0 (step0 s ev) := by
  have H := h.2
  simp only [OpenC, SockOk, pending] at H
  cases ev with
  | io e i o hh nr nw =>
    cases e
    · exact P0_ioA s.p hp (s.view .A) s.b i o hh nr nw h
    · exact P0_ioB s.p (s.view .B) s.a i o hh nr nw h
  | timer e =>
    cases e
    · show TwistedProps.C15.P0 (timer (s.view .A)).c s.b (timer (s.view .A)).k (timer (s.view .A)).pk
      rw [timer_idle _ (by simp [Sys.view, H])]; exact h
    · show TwistedProps.C15.P0 s.a (timer (s.view .B)).c (timer (s.view .B)).pk (timer (s.view .B)).k
      rw [timer_idle _ (by simp [Sys.view, H])]; exact h
  | app e op =>
    cases op with
    | write d =>
      have : e = .A := by simpa [preEv] using hn
      subst this
      refine ⟨?_, ?_⟩
      · intro hne
        by_cases hd : d = []
        · have := h.1
          simp only [step0, Sys.put, Sys.view, appOp, hd, doWriteOp_nil] at hne ⊢
          exact this hne
        · simp [step0, Sys.put, Sys.view, appOp, doWriteOp, H, hd]
      · simp only [OpenC, SockOk, pending, step0, Sys.put, Sys.view, appOp, doWriteOp]
        by_cases hd : d = [] <;> simp [H, hd]
    | writeSeq ds =>
      have : e = .A := by simpa [preEv] using hn
      subst this
      refine ⟨?_, ?_⟩
      · intro hne
        by_cases hd : ds = []
        · have := h.1
          simp only [step0, Sys.put, Sys.view, appOp, hd, doWriteSeqOp_nil] at hne ⊢
          exact this hne
        · simp [step0, Sys.put, Sys.view, appOp, doWriteSeqOp, H, hd]
      · simp only [OpenC, SockOk, pending, step0, Sys.put, Sys.view, appOp, doWriteSeqOp]
        by_cases hd : ds = [] <;> simp [H, hd]
    | pause =>
      cases e
      · exact ⟨h.1, by simp only [OpenC, SockOk, pending, step0, Sys.put, Sys.view, appOp]; simp [H]⟩
      · exact ⟨h.1, by simp only [OpenC, SockOk, pending, step0, Sys.put, Sys.view, appOp]; simp [H]⟩
    | resume =>
      cases e
      · have e1 : step0 s (.app .A .resume) = { s with a := { s.a with reading := true } } := by
          simp [step0, Sys.put, Sys.view, appOp, H]
        rw [e1]
        exact ⟨h.1, by simp only [OpenC, SockOk, pending]; simp [H]⟩
      · have e1 : step0 s (.app .B .resume) = { s with b := { s.b with reading := true } } := by
          simp [step0, Sys.put, Sys.view, appOp, H]
        rw [e1]
        exact ⟨h.1, by simp only [OpenC, SockOk, pending]; simp [H]⟩
    | lose => simp [preEv] at hn
    | loseWrite => simp [preEv] at hn
    | abort => simp [preEv] at hn

/-! ### the three close operations on a system in which nothing was closed yet -/

theorem lose_entry (s : Sys) (h : SysP0 s) (hr : s.b.reading = true) (hc : LoseCfg s.b) :
    SysLose false (step0 s (.app .A .lose)) := by
  have H := h.2
  simp only [OpenC, SockOk, pending] at H
  left
  refine ⟨hc, ?_⟩
  simp only [ClosingC, OpenC, SockOk, pending, step0, Sys.put, Sys.view, appOp]
  simp [H, hr]

theorem half_entry (s : Sys) (h : SysP0 s) (hra : s.a.reading = true) (hr : s.b.reading = true)
    (hca : LoseCfg s.a) (hc : ReplyCfg s.b) : SysHalf (step0 s (.app .A .loseWrite)) := by
  have H := h.2
  simp only [OpenC, SockOk, pending] at H
  left
  refine ⟨hc, hca, ?_⟩
  simp only [HalfC, OpenC, SockOk, pending, step0, Sys.put, Sys.view, appOp]
  simp [H, hr, hra]

theorem abort_entry (s : Sys) (h : SysP0 s) (hr : s.b.reading = true) :
    SysAbort (step0 s (.app .A .abort)) := by
  have H := h.2
  simp only [OpenC, SockOk, pending] at H
  left
  simp only [X1, AbortingC, OpenC, SockOk, step0, Sys.put, Sys.view, appOp]
  simp [H, hr]

/-! ### runs -/

theorem P0_run (evs : List Ev) (s : Sys) (hp : 0 < s.p.sendLimit) (hn : ∀ ev ∈ evs, preEv .A ev = true)
    (h : SysP0 s) : SysP0 (run0 s evs) := by
  induction evs generalizing s with
  | nil => exact h
  | cons ev evs ih =>
    exact ih _ (by rw [step_p]; exact hp) (fun e he => hn e (by simp [he])) (P0_step s hp ev (hn ev (by simp)) h)

theorem lose_run (wd : Bool) (evs : List Ev) (s : Sys) (hp : 0 < s.p.sendLimit) (hn : ∀ ev ∈ evs, noise ev = true)
    (h : SysLose wd s) : SysLose wd (run0 s evs) := by
  induction evs generalizing s with
  | nil => exact h
  | cons ev evs ih =>
    exact ih _ (by rw [step_p]; exact hp) (fun e he => hn e (by simp [he])) (lose_step wd s hp ev (hn ev (by simp)) h)

theorem half_run (evs : List Ev) (s : Sys) (hp : 0 < s.p.sendLimit) (hn : ∀ ev ∈ evs, noise ev = true)
    (h : SysHalf s) : SysHalf (run0 s evs) := by
  induction evs generalizing s with
  | nil => exact h
  | cons ev evs ih =>
    exact ih _ (by rw [step_p]; exact hp) (fun e he => hn e (by simp [he])) (half_step s hp ev (hn ev (by simp)) h)

theorem abort_run (evs : List Ev) (s : Sys) (hn : ∀ ev ∈ evs, noise ev = true)
    (h : SysAbort s) : SysAbort (run0 s evs) := by
  induction evs generalizing s with
  | nil => exact h
  | cons ev evs ih => exact ih _ (fun e he => hn e (by simp [he])) (abort_step s ev (hn ev (by simp)) h)

/-! ### at rest -/

/-- in the clean-close phases the system can only come to rest in the final one -/
theorem lose_quiescent (wd : Bool) (p : Params) (hc : 0 < p.cap) (a b : Conn) (ka kb : Sock)
    (h : LoseInv wd a b ka kb) (qa : quietView p ⟨a, ka, kb⟩ = true) (qb : quietView p ⟨b, kb, ka⟩ = true) :
    L4 a b ka kb := by
  rcases h with h | h | ⟨-, h⟩ | h
  · exfalso
    simp only [L1, ClosingC, OpenC, SockOk] at h
    simp [quietView, readable, writable, h] at qa qb
    rw [qb] at qa
    simp at qa
    omega
  · exfalso
    simp only [L2, DeadC, OpenC, SockOk, SockClosed] at h
    simp [quietView, readable, h] at qb
  · exfalso
    simp only [L3, DeadC, ClosingC, SockOk, SockClosed] at h
    simp [quietView, writable, h] at qb
  · exact h

theorem half_quiescent (p : Params) (hc : 0 < p.cap) (a b : Conn) (ka kb : Sock)
    (h : HalfInv a b ka kb) (qa : quietView p ⟨a, ka, kb⟩ = true) (qb : quietView p ⟨b, kb, ka⟩ = true) :
    L4 b a kb ka := by
  rcases h with h | h | h
  · exfalso
    simp only [H1, HalfC, OpenC, SockOk] at h
    obtain ⟨-, -, h⟩ := h
    simp [quietView, readable, writable, h] at qa qb
    rw [qb] at qa
    simp at qa
    omega
  · exfalso
    simp only [H2, OpenC, SockOk] at h
    obtain ⟨-, -, h⟩ := h
    simp [quietView, readable, h] at qb
  · exact lose_quiescent true p hc b a kb ka h qb qa

theorem abort_quiescent (p : Params) (a b : Conn) (ka kb : Sock)
    (h : AbortInv a b ka kb) (qa : quietView p ⟨a, ka, kb⟩ = true) (qb : quietView p ⟨b, kb, ka⟩ = true) :
    X3 a b ka kb := by
  rcases h with h | h | h
  · exfalso
    simp only [X1, AbortingC] at h
    simp [quietView, h] at qa
  · exfalso
    simp only [X2, DeadC, OpenC, SockRst] at h
    simp [quietView, readable, h] at qb
  · exact h

/-- what the final phase says in the property's words -/
theorem L4_facts (a b : Conn) (ka kb : Sock) (h : L4 a b ka kb) (ia : Inv1 a) (ib : Inv1 b) :
    a.lost = [.done] ∧ b.lost = [.done] ∧ b.received = a.accepted ∧ a.received = b.accepted := by
  simp only [L4, DeadC] at h
  obtain ⟨ha, hb, -, -, pa, pb, fa, fb⟩ := h
  refine ⟨ha.2.2.2.2.2.2, hb.2.2.2.2.2.2, ?_, ?_⟩
  · rw [← ia, pa, ← fa]; simp
  · rw [← ib, pb, ← fb]; simp

end TwistedProps.C15
