import TwistedProps.C15.Acc
import TwistedProps.C15.Liveness
/-!
C15 lemmas — under the discipline the closer's `accepted` is exactly the concatenation of what the schedule's
write()/writeSequence() calls passed, and a peer that does not reply has accepted nothing.
-/
namespace TwistedProps.C15
open Twisted.Transport.Tcp

/-- bytes side `w` passes to write()/writeSequence() in one event -/
def evBytes (w : Side) : Ev → Bytes
  | .app e op => if e == w then opBytes op else []
  | _ => []

/-- … in a schedule -/
def written (w : Side) (evs : List Ev) : Bytes := (evs.map (evBytes w)).flatten

theorem written_cons (w : Side) (ev : Ev) (evs : List Ev) : written w (ev :: evs) = evBytes w ev ++ written w evs := by
  simp [written]

/-- one pre-close event, seen from the closer A -/
theorem accA_pre_step (acc : Bytes) (s : Sys) (ev : Ev) (hpre : preEv .A ev = true) (h0 : SysP0 s)
    (h : AccIs acc (s.view .A)) : AccIs (acc ++ evBytes .A ev) ((step0 s ev).view .A) := by
  have H := h0.2
  simp only [OpenC] at H
  cases ev with
  | io e i o hh nr nw =>
    have e0 : evBytes .A (.io e i o hh nr nw) = [] := rfl
    rw [e0, List.append_nil]
    cases e
    · exact acc_io acc s.p _ i o hh nr nw h
    · exact h
  | timer e =>
    have e0 : evBytes .A (.timer e) = [] := rfl
    rw [e0, List.append_nil]
    cases e
    · exact acc_timer acc _ h
    · exact h
  | app e op =>
    cases e with
    | B =>
      have : evBytes .A (.app .B op) = [] := by simp [evBytes]
      rw [this, List.append_nil]; exact h
    | A =>
      cases op with
      | write d =>
        by_cases hd : d = []
        · subst hd
          have e0 : evBytes .A (.app .A (.write [])) = [] := rfl
          rw [e0, List.append_nil]
          show AccIs acc { s.view .A with c := doWriteOp (s.view .A).c [] }
          rw [doWriteOp_nil]; exact h
        · have e1 : (step0 s (.app .A (.write d))).view .A =
              { s.view .A with c := addBytes (s.view .A).c d true } := by
            simp [step0, Sys.put, Sys.view, appOp, doWriteOp, H, hd, addBytes]
          rw [e1]
          exact ⟨by simp [addBytes, evBytes, opBytes, h.1], h.2⟩
      | writeSeq ds =>
        by_cases hd : ds = []
        · subst hd
          have e0 : evBytes .A (.app .A (.writeSeq [])) = [] := rfl
          rw [e0, List.append_nil]
          show AccIs acc { s.view .A with c := doWriteSeqOp (s.view .A).c [] }
          rw [doWriteSeqOp_nil]; exact h
        · have e1 : (step0 s (.app .A (.writeSeq ds))).view .A =
              { s.view .A with c := addBytes (s.view .A).c ds.flatten true } := by
            simp [step0, Sys.put, Sys.view, appOp, doWriteSeqOp, H, hd, addBytes]
          rw [e1]
          exact ⟨by simp [addBytes, evBytes, opBytes, h.1], h.2⟩
      | pause =>
        have e0 : evBytes .A (.app .A .pause) = [] := rfl
        rw [e0, List.append_nil]
        exact acc_appOp acc _ .pause rfl h
      | resume =>
        have e0 : evBytes .A (.app .A .resume) = [] := rfl
        rw [e0, List.append_nil]
        exact acc_appOp acc _ .resume rfl h
      | lose => simp [preEv] at hpre
      | loseWrite => simp [preEv] at hpre
      | abort => simp [preEv] at hpre

theorem accA_pre_run (pre : List Ev) (acc : Bytes) (s : Sys) (hp : 0 < s.p.sendLimit)
    (hpre : ∀ ev ∈ pre, preEv .A ev = true) (h0 : SysP0 s) (h : AccIs acc (s.view .A)) :
    AccIs (acc ++ written .A pre) ((run0 s pre).view .A) := by
  induction pre generalizing acc s with
  | nil =>
    have e0 : written .A [] = [] := rfl
    rw [e0, List.append_nil]; exact h
  | cons ev evs ih =>
    have := ih (acc ++ evBytes .A ev) (step0 s ev) (by rw [step_p]; exact hp) (fun e he => hpre e (by simp [he]))
      (P0_step s hp ev (hpre ev (by simp)) h0) (accA_pre_step acc s ev (hpre ev (by simp)) h0 h)
    rw [written_cons, ← List.append_assoc]
    exact this

/-- events that are not application calls on side A leave A's `accepted` alone -/
theorem accA_noise_step (acc : Bytes) (s : Sys) (ev : Ev) (hn : noise ev = true) (h : AccIs acc (s.view .A)) :
    AccIs acc ((step0 s ev).view .A) := by
  cases ev with
  | io e i o hh nr nw =>
    cases e
    · exact acc_io acc s.p _ i o hh nr nw h
    · exact h
  | timer e =>
    cases e
    · exact acc_timer acc _ h
    · exact h
  | app e op => simp [noise] at hn

theorem accA_noise_run (post : List Ev) (acc : Bytes) (s : Sys) (hn : ∀ ev ∈ post, noise ev = true)
    (h : AccIs acc (s.view .A)) : AccIs acc ((run0 s post).view .A) := by
  induction post generalizing s with
  | nil => exact h
  | cons ev evs ih => exact ih _ (fun e he => hn e (by simp [he])) (accA_noise_step acc s ev (hn ev (by simp)) h)

/-- the same for side B, which never calls write before the close -/
theorem accB_step (acc : Bytes) (s : Sys) (ev : Ev) (hpre : preEv .A ev = true ∨ noise ev = true)
    (h : AccIs acc (s.view .B)) : AccIs acc ((step0 s ev).view .B) := by
  cases ev with
  | io e i o hh nr nw =>
    cases e
    · exact h
    · exact acc_io acc s.p _ i o hh nr nw h
  | timer e =>
    cases e
    · exact h
    · exact acc_timer acc _ h
  | app e op =>
    cases e with
    | A => exact h
    | B =>
      cases op with
      | pause => exact acc_appOp acc _ .pause rfl h
      | resume => exact acc_appOp acc _ .resume rfl h
      | write d => simp [preEv, noise] at hpre
      | writeSeq ds => simp [preEv, noise] at hpre
      | lose => simp [preEv, noise] at hpre
      | loseWrite => simp [preEv, noise] at hpre
      | abort => simp [preEv, noise] at hpre

theorem accB_run (evs : List Ev) (acc : Bytes) (s : Sys)
    (hn : ∀ ev ∈ evs, preEv .A ev = true ∨ noise ev = true ∨ ∃ op, ev = .app .A op)
    (h : AccIs acc (s.view .B)) : AccIs acc ((run0 s evs).view .B) := by
  induction evs generalizing s with
  | nil => exact h
  | cons ev evs ih =>
    refine ih _ (fun e he => hn e (by simp [he])) ?_
    rcases hn ev (by simp) with h1 | h1 | ⟨op, rfl⟩
    · exact accB_step acc s ev (Or.inl h1) h
    · exact accB_step acc s ev (Or.inr h1) h
    · exact h

def noWrites (half : Bool) (rl : List AppOp) : Prop := half = true → ∀ op ∈ rl, AppOp.isWrite op = false

theorem closeOk_noWrites (half : Bool) (rl : List AppOp) (h : closeOk half rl) : noWrites half rl := by
  intro hh op hop
  rw [h hh] at hop
  simp at hop
  subst hop; rfl

/-- closer A, any close operation: `accepted` of A = the bytes written by the schedule; B accepted nothing if its
    protocol does not write from readConnectionLost -/
theorem accepted_A (p : Params) (hp : 0 < p.sendLimit) (ha hb : Bool) (ra rb : List AppOp) (hca : noWrites ha ra)
    (pre post : List Ev) (op : AppOp) (hop : AppOp.isWrite op = false)
    (hpre : ∀ ev ∈ pre, preEv .A ev = true) (hpost : ∀ ev ∈ post, noise ev = true) :
    let s := run0 (fresh p ha hb ra rb) (pre ++ .app .A op :: post)
    s.a.accepted = written .A pre ∧ (noWrites hb rb → s.b.accepted = []) := by
  intro s
  constructor
  · have h0 : AccIs [] ((fresh p ha hb ra rb).view .A) := ⟨rfl, hca⟩
    have h1 := accA_pre_run pre [] _ (by simpa [fresh, Sys.init] using hp) hpre (P0_fresh p ha hb ra rb) h0
    have h2 : AccIs ([] ++ written .A pre) ((step0 (run0 (fresh p ha hb ra rb) pre) (.app .A op)).view .A) :=
      acc_appOp _ _ op hop h1
    have h3 := accA_noise_run post _ _ hpost h2
    have hs : s = run0 (step0 (run0 (fresh p ha hb ra rb) pre) (.app .A op)) post := by
      show run0 _ _ = _
      rw [run_append]; rfl
    rw [hs]
    have h4 : (run0 (step0 (run0 (fresh p ha hb ra rb) pre) (.app .A op)) post).a.accepted =
        [] ++ written .A pre := h3.1
    simpa using h4
  · intro hcb
    have h0 : AccIs [] ((fresh p ha hb ra rb).view .B) := ⟨rfl, hcb⟩
    have := accB_run (pre ++ .app .A op :: post) [] _ (by
      intro ev hev
      rcases List.mem_append.mp hev with h | h
      · exact Or.inl (hpre ev h)
      · rcases List.mem_cons.mp h with h | h
        · exact Or.inr (Or.inr ⟨op, h⟩)
        · exact Or.inr (Or.inl (hpost ev h))) h0
    exact this.1

theorem evBytes_swap (ev : Ev) : evBytes .A (swapEv ev) = evBytes .B ev := by
  cases ev with
  | app e op => cases e <;> rfl
  | io e i o h nr nw => rfl
  | timer e => rfl

theorem written_swap (evs : List Ev) : written .A (evs.map swapEv) = written .B evs := by
  induction evs with
  | nil => rfl
  | cons ev evs ih => simp only [List.map_cons, written_cons, ih, evBytes_swap]

/-- either side closing: the closer's `accepted` is what the schedule wrote; a non-replying peer accepted nothing -/
theorem accepted_any (p : Params) (hp : 0 < p.sendLimit) (w : Side) (ha hb : Bool) (ra rb : List AppOp)
    (hcw : match w with | .A => noWrites ha ra | .B => noWrites hb rb)
    (pre post : List Ev) (op : AppOp) (hop : AppOp.isWrite op = false)
    (hpre : ∀ ev ∈ pre, preEv w ev = true) (hpost : ∀ ev ∈ post, noise ev = true) :
    let s := run0 (fresh p ha hb ra rb) (pre ++ .app w op :: post)
    (connOf s w).accepted = written w pre ∧
    ((match w with | .A => noWrites hb rb | .B => noWrites ha ra) → (connOf s (swapSide w)).accepted = []) := by
  cases w with
  | A => exact accepted_A p hp ha hb ra rb hcw pre post op hop hpre hpost
  | B =>
    intro s
    have key := accepted_A p hp hb ha rb ra hcw (pre.map swapEv) (post.map swapEv) op hop (pre_swap pre hpre)
      (post_swap post hpost)
    rw [← map_swap_close, fresh_swap, written_swap] at key
    exact key

end TwistedProps.C15
