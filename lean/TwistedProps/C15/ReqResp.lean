import TwistedProps.C15.Liveness
/-!
C15 lemmas — the close requested RE-ENTRANTLY from `dataReceived` (request/response).

`RR a b ka kb ws`: the responder `a` (socket `ka`) is about to read the last request bytes of the requester `b`:
both transports open, no FIN/RST anywhere, `b` has flushed everything it ever wrote (nothing pending, writer not
registered) and what is still unread sits in `ka.inq`; `a`'s dataReceived script has one entry left, armed for exactly
that total, which writes a last reply `ws` and calls `loseConnection()`; replies written earlier may still be pending
on `a` (writer registered or not — any state of `a`'s buffers).  `rr_entry`: ONE readiness report for `a` that
reads the whole queue — with any IN/OUT/HUP bits, so in particular IN|OUT with the `doWrite` of the same report
flushing everything and answering CONNECTION_DONE — puts the system into the clean-close invariant `LoseInv`
(phase `L1` flushing, or directly `L2`: connectionLost(ConnectionDone) delivered, socket closed), after which the
protocols no longer react from dataReceived (`NoReact`) and everything proved for the one-closer discipline applies.
-/
namespace TwistedProps.C15
open Twisted.Transport.Tcp

def RR (a b : Conn) (ka kb : Sock) (ws : List AppOp) : Prop :=
  LoseCfg b ∧ b.onData = [] ∧ b.onWriteLost = [] ∧ a.onWriteLost = [] ∧
  a.onData = [((a.received ++ ka.inq).length, ws ++ [.lose])] ∧ (∀ op ∈ ws, AppOp.isWrite op = true) ∧
  OpenC a false ∧ OpenC b false ∧ SockOk ka false false ∧ SockOk kb false false ∧
  a.reading = true ∧ b.reading = true ∧ b.writing = false ∧ pending b = [] ∧ ka.inq ≠ [] ∧
  a.sent = b.received ++ kb.inq ∧ b.sent = a.received ++ ka.inq

/-- the responder's state right after the `doRead` of the closing report: bytes recorded, script exhausted, last
    reply buffered, `loseConnection()` called -/
def rrClosing (v : View) (ws : List AppOp) : View :=
  { v with c := { addBytes { v.c with received := v.c.received ++ v.k.inq, onData := [] } (replyBytes ws) true with
                    reading := false, disconnecting := true },
           k := { v.k with inq := [] } }

theorem rr_doRead (p : Params) (v : View) (b : Conn) (ws : List AppOp) (nr : Nat)
    (H : RR v.c b v.k v.pk ws) (hfull : v.k.inq.length ≤ min nr p.recvMax) :
    doRead p v nr = (none, rrClosing v ws) := by
  obtain ⟨-, -, -, -, hod, hws, hoa, -, -, -, -, -, -, -, hq, -, -⟩ := H
  simp only [OpenC] at hoa
  have hn : nr ≠ 0 := by
    intro h0; subst h0
    have : v.k.inq.length = 0 := by simpa using hfull
    exact hq (List.eq_nil_of_length_eq_zero this)
  have hqe : v.k.inq.isEmpty = false := by simpa using hq
  have htake : v.k.inq.take (min nr p.recvMax) = v.k.inq := List.take_of_length_le hfull
  have hdrop : v.k.inq.drop (min nr p.recvMax) = [] := List.drop_of_length_le hfull
  simp only [doRead, hoa.2.2.2.1, Bool.false_eq_true, if_false, kRecv, hn, hqe, Bool.not_false, if_true, htake, hdrop]
  congr 1
  simp only [dataReceived, hod, List.length_append, dueOps, restData, Nat.le_refl, if_true, List.append_nil]
  rw [appOps_reply ws hws _ (by simp [hoa.1]) (by simp [hoa.2.2.2.2.2.2.2.1]) (by simp [hoa.2.2.1])]
  rfl

theorem rrClosing_L1 (v : View) (b : Conn) (ws : List AppOp) (H : RR v.c b v.k v.pk ws) :
    L1 false (rrClosing v ws).c b (rrClosing v ws).k (rrClosing v ws).pk := by
  obtain ⟨hcb, -, -, -, -, -, hoa, hob, hka, hkb, -, hrb, hwb, hpb, -, fa, fb⟩ := H
  simp only [OpenC, SockOk] at hoa hka hkb
  refine ⟨hcb, ?_, hob, ?_, hkb, rfl, hrb, hwb, hpb, ?_, ?_⟩
  · simp [ClosingC, rrClosing, addBytes, hoa]
  · simp [SockOk, rrClosing, hka]
  · simpa [rrClosing, addBytes] using fa
  · simpa [rrClosing, addBytes] using fb

theorem rrClosing_noReact (v : View) (ws : List AppOp) (h : v.c.onWriteLost = []) : NoReact (rrClosing v ws) :=
  ⟨rfl, by simpa [rrClosing, addBytes] using h⟩

/-- **The closing report.**  Whatever bits the poller reports together with IN, and however much the kernel takes:
    after the report the system is in the clean-close invariant, and no protocol reacts from dataReceived any more. -/
theorem rr_entry (p : Params) (hp : 0 < p.sendLimit) (v : View) (b : Conn) (ws : List AppOp) (o h : Bool) (nr nw : Nat)
    (H : RR v.c b v.k v.pk ws) (hfull : v.k.inq.length ≤ min nr p.recvMax) :
    LoseA false b (io p v true o h nr nw) ∧ NoReact (io p v true o h nr nw) := by
  have hrd := rr_doRead p v b ws nr H hfull
  have hL1 := rrClosing_L1 v b ws H
  have hnr := rrClosing_noReact v ws H.2.2.2.1
  have H' := H
  obtain ⟨-, -, -, -, -, -, hoa, -, hka, -, hra, -⟩ := H'
  simp only [OpenC, SockOk] at hoa hka
  have e : io p v true o h nr nw = io0 p (rrClosing v ws) false (o && v.c.writing) false nr nw := by
    have e1 : io p v true o h nr nw = readThenWrite p v true (o && v.c.writing) nr nw := by
      simp [io, hupCond, hka, hra, hoa]
    rw [e1]
    unfold readThenWrite
    simp only [if_true, hrd]
    cases hoe : (o && v.c.writing)
    · simp [io0, rrClosing, addBytes]
    · have e2 : io0 p (rrClosing v ws) false true false nr nw = readThenWrite0 p (rrClosing v ws) false true nr nw := by
        simp [io0, rrClosing, addBytes, hoa]
      rw [e2]
      unfold readThenWrite0
      simp only [Bool.false_eq_true, if_false, if_true, doWrite_eq0 p (rrClosing v ws) nw hnr]
      generalize doWrite0 p (rrClosing v ws) nw = q
      obtain ⟨q1, q2⟩ := q
      cases q1 <;> rfl
  rw [e]
  exact ⟨L1_ioA false p hp (rrClosing v ws) b false _ false nr nw hL1, noReact_io0 p _ _ _ _ nr nw hnr⟩

theorem step_p' (s : Sys) (ev : Ev) : (step s ev).p = s.p := by
  cases ev with
  | app e op => cases e <;> rfl
  | io e i o h nr nw => cases e <;> rfl
  | timer e => cases e <;> rfl

theorem run_p' (evs : List Ev) (s : Sys) : (run s evs).p = s.p := by
  induction evs generalizing s with
  | nil => rfl
  | cons ev evs ih => exact (ih _).trans (step_p' s ev)

/-- system level (responder on side A): the closing report, then any readiness reports / delayed calls -/
theorem rr_run (s : Sys) (hp : 0 < s.p.sendLimit) (ws : List AppOp) (o h : Bool) (nr nw : Nat) (post : List Ev)
    (H : RR s.a s.b s.ka s.kb ws) (hfull : s.ka.inq.length ≤ min nr s.p.recvMax)
    (hpost : ∀ ev ∈ post, noise ev = true) :
    SysLose false (run s (.io .A true o h nr nw :: post)) ∧ NoReactS (run s (.io .A true o h nr nw :: post)) ∧
    run s (.io .A true o h nr nw :: post) = run0 (step s (.io .A true o h nr nw)) post := by
  obtain ⟨h1, h2⟩ := rr_entry s.p hp (s.view .A) s.b ws o h nr nw H hfull
  have hs1 : SysLose false (step s (.io .A true o h nr nw)) := h1
  have hn1 : NoReactS (step s (.io .A true o h nr nw)) := ⟨h2, ⟨H.2.1, H.2.2.1⟩⟩
  have e : run s (.io .A true o h nr nw :: post) = run0 (step s (.io .A true o h nr nw)) post :=
    run_eq_run0 post _ hn1
  refine ⟨?_, ?_, e⟩
  · rw [e]; exact lose_run false post _ (by rw [step_p']; exact hp) hpost hs1
  · rw [e]; exact noReactS_run0 post _ hn1

end TwistedProps.C15
