import TwistedProps.C15.Stream
/-!
C15 lemmas — a requested close is never forgotten.

`Armed c`: while `loseConnection` is pending on a live transport (socket attribute present, `disconnecting`, not
aborting) the transport is registered for writing and not for reading — so the `doWrite` that finds the buffers
empty will run, answer CONNECTION_DONE, and `_doReadOrWrite` turns that answer into `connectionLost`.  The
invariant holds in every state of every run, whatever the protocols do from `dataReceived`,
`readConnectionLost` and `writeConnectionLost` (re-entrant calls included).  The one place where it could break is
the dispatch of a CONNECTION_DONE that `doWrite` returned: `_disconnectSelectable(…, isRead = False)` must call
`connectionLost`; reporting it as a read-side half-close (isRead = True) would leave the transport disconnecting,
unregistered, and its protocol never told.
-/
namespace TwistedProps.C15
open Twisted.Transport.Tcp

def Armed (c : Conn) : Prop :=
  c.hasSocket = true → c.disconnecting = true → c.aborting = false → c.writing = true ∧ c.reading = false

theorem armed_dead (c : Conn) (h : c.hasSocket = false) : Armed c := by
  intro hs; rw [h] at hs; cases hs

theorem armed_mono (c c' : Conn) (e1 : c'.hasSocket = c.hasSocket) (e2 : c'.disconnecting = c.disconnecting)
    (e3 : c'.aborting = c.aborting) (hw : c.writing = true → c'.writing = true)
    (hr : c.reading = false → c'.reading = false) (h : Armed c) : Armed c' := by
  intro a b d
  obtain ⟨x, y⟩ := h (by rw [← e1]; exact a) (by rw [← e2]; exact b) (by rw [← e3]; exact d)
  exact ⟨hw x, hr y⟩

theorem connLost_dead (v : View) (r : Reason) : (connLost v r).c.hasSocket = false := by
  unfold connLost
  split
  · rename_i h; simpa using h
  · rfl

theorem armed_connLost (v : View) (r : Reason) : Armed (connLost v r).c := armed_dead _ (connLost_dead v r)

theorem armed_appOp (v : View) (op : AppOp) (h : Armed v.c) : Armed (appOp v op).c := by
  cases op with
  | write d =>
    simp only [appOp, doWriteOp]
    split
    · exact h
    · split
      · exact h
      · exact armed_mono v.c _ rfl rfl rfl (fun _ => rfl) (fun x => x) h
  | writeSeq ds =>
    simp only [appOp, doWriteSeqOp]
    split
    · exact h
    · exact armed_mono v.c _ rfl rfl rfl (fun _ => rfl) (fun x => x) h
  | lose =>
    simp only [appOp]
    split
    · split
      · exact armed_connLost _ _
      · intro _ _ _; exact ⟨rfl, rfl⟩
    · exact h
  | loseWrite => exact armed_mono v.c _ rfl rfl rfl (fun _ => rfl) (fun x => x) h
  | abort =>
    simp only [appOp]
    split
    · exact h
    · intro _ _ ha; cases ha
  | pause => exact armed_mono v.c _ rfl rfl rfl (fun x => x) (fun _ => rfl) h
  | resume =>
    simp only [appOp]
    split
    · rename_i hc
      simp only [Bool.and_eq_true, Bool.not_eq_true'] at hc
      intro _ hd _
      rw [show ({ v.c with reading := true } : Conn).disconnecting = v.c.disconnecting from rfl, hc.2] at hd
      cases hd
    · exact h

theorem armed_appOps (ops : List AppOp) (v : View) (h : Armed v.c) : Armed (appOps v ops).c := by
  induction ops generalizing v with
  | nil => exact h
  | cons op ops ih => exact ih _ (armed_appOp v op h)

theorem armed_timer (v : View) (h : Armed v.c) : Armed (timer v).c := by
  unfold timer
  split
  · exact armed_connLost _ _
  · exact h

theorem armed_disconnectSelectable (v : View) (w : Reason) (r : Bool) (h : Armed v.c) :
    Armed (disconnectSelectable v w r).c := by
  unfold disconnectSelectable
  dsimp only
  split
  · unfold readConnLost
    split
    · exact armed_appOps _ _ (armed_mono v.c _ rfl rfl rfl (fun x => x) (fun _ => rfl) h)
    · exact armed_connLost _ _
  · exact armed_connLost _ _

/-- a reason returned by `doWrite` is dispatched with `isRead = False`: the transport is dead afterwards -/
theorem disconnect_notRead_dead (v : View) (w : Reason) : (disconnectSelectable v w false).c.hasSocket = false := by
  unfold disconnectSelectable
  simp only [Bool.and_false, Bool.false_eq_true, if_false]
  exact connLost_dead _ _

theorem armed_doRead (p : Params) (v : View) (n : Nat) (h : Armed v.c) : Armed (doRead p v n).2.c := by
  unfold doRead
  split
  · exact h
  · have hk : (kRecv p v n).2.c = v.c := by
      unfold kRecv; split; rfl; split; rfl; split; rfl; split <;> rfl
    generalize kRecv p v n = r at hk
    obtain ⟨r, v'⟩ := r
    simp only at hk
    cases r with
    | data d =>
      simp only
      unfold dataReceived
      apply armed_appOps
      exact armed_mono v.c _ (by simp [hk]) (by simp [hk]) (by simp [hk]) (by simp [hk]) (by simp [hk]) h
    | eof => simp only; rw [hk]; exact h
    | err => simp only; rw [hk]; exact h
    | again => simp only; rw [hk]; exact h

/-- `doWrite` either keeps the invariant, or reports a reason (which the dispatch turns into `connectionLost`) -/
theorem armed_doWrite (p : Params) (v : View) (n : Nat) (h : Armed v.c) (hn : (doWrite p v n).1 = none) :
    Armed (doWrite p v n).2.c := by
  unfold doWrite at hn ⊢
  split
  · exact h
  · rename_i ha
    simp only [ha] at hn
    have hm : Armed (mergeBuf p v.c) := by
      unfold mergeBuf; split
      · exact armed_mono v.c _ rfl rfl rfl (fun x => x) (fun x => x) h
      · exact h
    dsimp only at hn ⊢
    have hk := kSend_c p { v with c := mergeBuf p v.c } (offered p (mergeBuf p v.c)) n
    generalize kSend p { v with c := mergeBuf p v.c } (offered p (mergeBuf p v.c)) n = r at hk hn
    obtain ⟨r, v'⟩ := r
    simp only at hk
    cases r with
    | none => simp at hn
    | some l =>
      simp only at hn ⊢
      have hv' : Armed v'.c := by rw [hk]; exact hm
      unfold afterSend at hn ⊢
      dsimp only at hn ⊢
      split
      · split
        · rename_i h1 h2
          simp [h1, h2] at hn
        · rename_i hd
          split
          · split
            · apply armed_appOps
              intro _ hdd _
              simp [kShutWr] at hdd hd
              rw [hd] at hdd; cases hdd
            · intro _ hdd _
              simp [kShutWr] at hdd hd
              rw [hd] at hdd; cases hdd
          · intro _ hdd _
            simp at hdd hd
            rw [hd] at hdd; cases hdd
      · exact armed_mono v'.c _ rfl rfl rfl (fun x => x) (fun x => x) hv'

theorem armed_rtw (p : Params) (v : View) (i o : Bool) (nr nw : Nat) (h : Armed v.c) :
    Armed (readThenWrite p v i o nr nw).c := by
  unfold readThenWrite
  have h1 : Armed (if i = true then doRead p v nr else (none, v)).2.c := by
    split
    · exact armed_doRead p v nr h
    · exact h
  generalize (if i = true then doRead p v nr else (none, v)) = r at h1
  dsimp only
  split
  · exact armed_disconnectSelectable _ _ _ h1
  · split
    · have h2 := armed_doWrite p r.2 nw h1
      generalize doWrite p r.2 nw = r2 at h2
      split
      · exact armed_dead _ (disconnect_notRead_dead _ _)
      · rename_i hn; exact h2 hn
    · exact h1

theorem armed_io (p : Params) (v : View) (i o h : Bool) (nr nw : Nat) (hv : Armed v.c) :
    Armed (io p v i o h nr nw).c := by
  unfold io
  dsimp only
  split
  · exact hv
  · split
    · split <;> exact armed_disconnectSelectable _ _ _ hv
    · split
      · exact armed_disconnectSelectable _ _ _ hv
      · exact armed_rtw p v _ _ nr nw hv

def ArmedS (s : Sys) : Prop := Armed s.a ∧ Armed s.b

theorem armedS_step (s : Sys) (ev : Ev) (h : ArmedS s) : ArmedS (step s ev) := by
  cases ev with
  | app e op =>
    cases e
    · exact ⟨armed_appOp (s.view .A) op h.1, h.2⟩
    · exact ⟨h.1, armed_appOp (s.view .B) op h.2⟩
  | io e i o hh nr nw =>
    cases e
    · exact ⟨armed_io s.p (s.view .A) i o hh nr nw h.1, h.2⟩
    · exact ⟨h.1, armed_io s.p (s.view .B) i o hh nr nw h.2⟩
  | timer e =>
    cases e
    · exact ⟨armed_timer (s.view .A) h.1, h.2⟩
    · exact ⟨h.1, armed_timer (s.view .B) h.2⟩

theorem armedS_run (evs : List Ev) (s : Sys) (h : ArmedS s) : ArmedS (run s evs) := by
  induction evs generalizing s with
  | nil => exact h
  | cons ev evs ih => exact ih _ (armedS_step s ev h)

end TwistedProps.C15
