import TwistedProps.C15.Close
/-!
C15 lemmas — before the close (`P0`), the first half of a half-close (`H1`, `H2`) and the abort (`X1`–`X3`).

  `P0`  nobody closed anything: only `a` has written; pending bytes ⇒ writer registered
  `H1`  a called loseWriteConnection and is flushing
  `H2`  a flushed and sent FIN (shutdown(SHUT_WR)) — only now; b has not seen EOF.  When b sees EOF it either
        closes (plain protocol) or writes its reply and calls loseConnection: from there on the system is in
        the clean-close phases of `Close.lean` with the roles swapped (`wd = true`)
  `X1`  a called abortConnection, the delayed connectionLost is pending
  `X2`  a's socket was closed with RST; b drains and then reads the error
  `X3`  a was told ConnectionAborted, b ConnectionLost
-/
namespace TwistedProps.C15
open Twisted.Transport.Tcp

def AppOp.isWrite : AppOp → Bool
  | .write _ => true
  | .writeSeq _ => true
  | _ => false

def opBytes : AppOp → Bytes
  | .write d => d
  | .writeSeq ds => ds.flatten
  | _ => []

def replyBytes (rs : List AppOp) : Bytes := (rs.map opBytes).flatten

/-- a half-closeable protocol's reaction to readConnectionLost under the discipline: write a reply, then close -/
def ReplyCfg (c : Conn) : Prop :=
  c.halfCloseable = true → ∃ rs, (∀ op ∈ rs, AppOp.isWrite op = true) ∧ c.onReadLost = rs ++ [.lose]

def LoseCfg (c : Conn) : Prop := c.halfCloseable = true → c.onReadLost = [.lose]

def addBytes (c : Conn) (d : Bytes) (w : Bool) : Conn :=
  { c with temp := c.temp ++ d, accepted := c.accepted ++ d, writing := w }

theorem addBytes_nil (c : Conn) : addBytes c [] c.writing = c := by simp [addBytes]

theorem doWriteOp_nil (c : Conn) : doWriteOp c [] = c := by
  unfold doWriteOp; split
  · rfl
  · rfl

theorem doWriteSeqOp_nil (c : Conn) : doWriteSeqOp c [] = c := by
  unfold doWriteSeqOp; split
  · rfl
  · rename_i h; simp at h

theorem appOps_writes (rs : List AppOp) (hw : ∀ op ∈ rs, AppOp.isWrite op = true) (v : View)
    (h1 : v.c.connected = true) (h2 : v.c.writeDisconnected = false) :
    ∃ w, appOps v rs = { v with c := addBytes v.c (replyBytes rs) w } := by
  induction rs generalizing v with
  | nil => exact ⟨v.c.writing, by simp [appOps, replyBytes, addBytes]⟩
  | cons op rs ih =>
    have hop := hw op (by simp)
    have hws : ∀ op ∈ rs, AppOp.isWrite op = true := fun o ho => hw o (by simp [ho])
    have key : ∃ w, appOp v op = { v with c := addBytes v.c (opBytes op) w } := by
      cases op with
      | write d =>
        by_cases hd : d = []
        · subst hd
          exact ⟨v.c.writing, by simp only [appOp, doWriteOp_nil, opBytes, addBytes_nil]⟩
        · exact ⟨true, by simp [appOp, doWriteOp, h1, h2, hd, opBytes, addBytes]⟩
      | writeSeq ds =>
        by_cases hd : ds = []
        · subst hd
          exact ⟨v.c.writing, by simp only [appOp, doWriteSeqOp_nil, opBytes, List.flatten_nil, addBytes_nil]⟩
        · exact ⟨true, by simp [appOp, doWriteSeqOp, h1, h2, hd, opBytes, addBytes]⟩
      | _ => simp [AppOp.isWrite] at hop
    obtain ⟨w, e⟩ := key
    obtain ⟨w', e'⟩ := ih hws (appOp v op) (by rw [e]; exact h1) (by rw [e]; exact h2)
    refine ⟨w', ?_⟩
    show appOps (appOp v op) rs = _
    rw [e', e]
    simp [replyBytes, addBytes]

/-- reply then loseConnection on an open transport -/
theorem appOps_reply (rs : List AppOp) (hw : ∀ op ∈ rs, AppOp.isWrite op = true) (v : View)
    (h1 : v.c.connected = true) (h2 : v.c.writeDisconnected = false) (h3 : v.c.disconnecting = false) :
    appOps v (rs ++ [.lose]) =
      { v with c := { addBytes v.c (replyBytes rs) true with reading := false, disconnecting := true } } := by
  obtain ⟨w, e⟩ := appOps_writes rs hw v h1 h2
  simp only [appOps, List.foldl_append, List.foldl_cons, List.foldl_nil] at e ⊢
  rw [e]
  simp [appOp, h1, h2, h3, addBytes]

/-- the initiator of a half-close while it flushes (`wd = false`, still writing) -/
def HalfC (c : Conn) : Prop :=
  c.connected = true ∧ c.disconnected = false ∧ c.disconnecting = false ∧ c.aborting = false ∧
  c.abortCall = false ∧ c.hasSocket = true ∧ c.writeDisconnecting = true ∧ c.writeDisconnected = false ∧ c.lost = []

def AbortingC (c : Conn) : Prop :=
  c.connected = true ∧ c.disconnected = false ∧ c.aborting = true ∧ c.abortCall = true ∧ c.hasSocket = true ∧
  c.reading = false ∧ c.writing = false ∧ c.lost = []

/-- open socket that received a reset -/
def SockRst (k : Sock) : Prop :=
  k.closed = false ∧ k.inRst = true ∧ k.inFin = true ∧ k.shutWr = false

/-- pending bytes ⇒ the transport is registered as a writer -/
def Reg (c : Conn) : Prop := pending c ≠ [] → c.writing = true

def P0 (a b : Conn) (ka kb : Sock) : Prop :=
  Reg a ∧ OpenC a false ∧ OpenC b false ∧ SockOk ka false false ∧ SockOk kb false false ∧ ka.inq = [] ∧
  b.writing = false ∧ pending b = [] ∧ a.sent = b.received ++ kb.inq ∧ b.sent = a.received

def H1 (a b : Conn) (ka kb : Sock) : Prop :=
  ReplyCfg b ∧ LoseCfg a ∧
  HalfC a ∧ OpenC b false ∧ SockOk ka false false ∧ SockOk kb false false ∧ ka.inq = [] ∧
  a.reading = true ∧ a.writing = true ∧ b.reading = true ∧ b.writing = false ∧ pending b = [] ∧
  a.sent = b.received ++ kb.inq ∧ b.sent = a.received

def H2 (a b : Conn) (ka kb : Sock) : Prop :=
  ReplyCfg b ∧ LoseCfg a ∧
  OpenC a true ∧ OpenC b false ∧ SockOk ka false true ∧ SockOk kb true false ∧ ka.inq = [] ∧
  a.reading = true ∧ a.writing = false ∧ b.reading = true ∧ b.writing = false ∧ pending a = [] ∧ pending b = [] ∧
  a.sent = b.received ++ kb.inq ∧ b.sent = a.received

/-- the half-close, initiator `a`: after `b` has seen EOF the roles are swapped -/
def HalfInv (a b : Conn) (ka kb : Sock) : Prop :=
  H1 a b ka kb ∨ H2 a b ka kb ∨ LoseInv true b a kb ka

def X1 (a b : Conn) (ka kb : Sock) : Prop :=
  AbortingC a ∧ OpenC b false ∧ SockOk ka false false ∧ SockOk kb false false ∧ ka.inq = [] ∧
  b.reading = true ∧ b.writing = false

def X2 (a b : Conn) (ka kb : Sock) : Prop :=
  DeadC a .aborted ∧ OpenC b false ∧ ka.closed = true ∧ SockRst kb ∧ b.reading = true ∧ b.writing = false

def X3 (a b : Conn) (_ka _kb : Sock) : Prop :=
  DeadC a .aborted ∧ DeadC b .lost

def AbortInv (a b : Conn) (ka kb : Sock) : Prop := X1 a b ka kb ∨ X2 a b ka kb ∨ X3 a b ka kb

macro "close_ph " H:ident : tactic =>
  `(tactic| (simp only [L1, L2, L3, L4, P0, H1, H2, X1, X2, X3, ClosingC, OpenC, DeadC, HalfC, AbortingC, SockOk,
               SockClosed, SockRst, pending, disconnectSelectable, connLost, kClose, kShutWr, finishW, addBytes]
             simp [$H:ident]))

/-! ### half-close, first half -/

theorem H1_ioA (p : Params) (hp : 0 < p.sendLimit) (v : View) (b : Conn) (i o h : Bool) (nr nw : Nat)
    (hs : H1 v.c b v.k v.pk) :
    HalfInv (io0 p v i o h nr nw).c b (io0 p v i o h nr nw).k (io0 p v i o h nr nw).pk := by
  have H := hs
  simp only [H1, HalfC, OpenC, SockOk, pending] at H
  obtain ⟨hc1, hc2, H⟩ := H
  obtain ⟨ie, oe, h1, h2, -, -, e⟩ := io_rtw p v i o h nr nw (by simp [hupCond, H]) (by simp [H])
  rw [e]
  have hrd : ∀ n, doRead0 p v n = (none, v) := by
    intro n
    rcases doRead_cases p v n (by simp [H]) with ⟨-, e⟩ | ⟨-, hq, -⟩ | ⟨-, -, hr, -⟩ | ⟨-, -, -, hf, -⟩
    · exact e
    · simp [H] at hq
    · simp [H] at hr
    · simp [H] at hf
  have hw : readThenWrite0 p v false oe nr nw = readThenWrite0 p v ie oe nr nw := by
    cases ie
    · rfl
    · rw [rtw_t, hrd]
  rw [← hw]
  cases oe
  · rw [rtw_ff]; exact Or.inl hs
  · rw [rtw_ft]
    obtain ⟨d, hd⟩ := doWrite_clean p v nw (by simp [H]) (by simp [H]) (by simp [H]) (by simp [H]) hp
    rcases hd with ⟨db, off, tmp, hpe, -, e⟩ | ⟨hpe, e⟩
    · rw [e]
      left
      refine ⟨hc1, hc2, ?_⟩
      close_ph H
    · rw [e]
      right; left
      refine ⟨hc1, ?_⟩
      by_cases hh : v.c.halfCloseable = true
      · refine ⟨by simpa [LoseCfg, finishW, kShutWr, H, hh] using hc2, ?_⟩
        close_ph H
        simp [hh]
      · refine ⟨by simp [LoseCfg, finishW, kShutWr, H, hh], ?_⟩
        close_ph H
        simp [hh]

/-- a peer that is open, reading, not writing, whose socket saw neither FIN nor RST: a readiness report can only
    deliver data -/
theorem peer_reads (p : Params) (v : View) (i o h : Bool) (nr nw : Nat)
    (ho : OpenC v.c false) (hk : SockOk v.k false false) (hw : v.c.writing = false) :
    io0 p v i o h nr nw = v ∨
    (v.k.inq ≠ [] ∧ ∃ m, io0 p v i o h nr nw =
      { v with c := { v.c with received := v.c.received ++ v.k.inq.take m }, k := { v.k with inq := v.k.inq.drop m } }) := by
  simp only [OpenC, SockOk] at ho hk
  by_cases hr : v.c.reading = true
  · obtain ⟨ie, oe, h1, h2, -, -, e⟩ := io_rtw p v i o h nr nw (by simp [hupCond, hk]) (by simp [ho])
    rw [e]
    have : oe = false := by cases oe; rfl; simp [hw] at h2
    subst this
    cases ie
    · rw [rtw_ff]; exact Or.inl rfl
    · rw [rtw_t]
      rcases doRead_cases p v nr (by simp [ho]) with ⟨-, e⟩ | ⟨-, hq, e⟩ | ⟨-, -, hr, -⟩ | ⟨-, -, -, hf, -⟩
      · rw [e]; simp only [rtw_ff]; exact Or.inl trivial
      · rw [e]; simp only [rtw_ff]; exact Or.inr ⟨hq, _, rfl⟩
      · simp [hk] at hr
      · simp [hk] at hf
  · exact Or.inl (io_idle p v i o h nr nw (by simpa using hr) hw)

theorem H1_ioB (p : Params) (v : View) (a : Conn) (i o h : Bool) (nr nw : Nat)
    (hs : H1 a v.c v.pk v.k) :
    HalfInv a (io0 p v i o h nr nw).c (io0 p v i o h nr nw).pk (io0 p v i o h nr nw).k := by
  have H := hs
  simp only [H1, HalfC, OpenC, SockOk, pending] at H
  obtain ⟨hc1, hc2, H⟩ := H
  rcases peer_reads p v i o h nr nw hs.2.2.2.1 hs.2.2.2.2.2.1 (by simp [H]) with e | ⟨-, m, e⟩
  · rw [e]; exact Or.inl hs
  · rw [e]
    left
    refine ⟨hc1, hc2, ?_⟩
    close_ph H

theorem H2_ioA (p : Params) (v : View) (b : Conn) (i o h : Bool) (nr nw : Nat)
    (hs : H2 v.c b v.k v.pk) :
    HalfInv (io0 p v i o h nr nw).c b (io0 p v i o h nr nw).k (io0 p v i o h nr nw).pk := by
  have H := hs
  simp only [H2, OpenC, SockOk, pending] at H
  obtain ⟨hc1, hc2, H⟩ := H
  obtain ⟨ie, oe, h1, h2, -, -, e⟩ := io_rtw p v i o h nr nw (by simp [hupCond, H]) (by simp [H])
  rw [e]
  have : oe = false := by cases oe; rfl; simp [H] at h2
  subst this
  cases ie
  · rw [rtw_ff]; exact Or.inr (Or.inl hs)
  · rw [rtw_t]
    rcases doRead_cases p v nr (by simp [H]) with ⟨-, e⟩ | ⟨-, hq, -⟩ | ⟨-, -, hr, -⟩ | ⟨-, -, -, hf, -⟩
    · rw [e]; simp only [rtw_ff]; exact Or.inr (Or.inl hs)
    · simp [H] at hq
    · simp [H] at hr
    · simp [H] at hf

theorem H2_ioB (p : Params) (v : View) (a : Conn) (i o h : Bool) (nr nw : Nat)
    (hs : H2 a v.c v.pk v.k) :
    HalfInv a (io0 p v i o h nr nw).c (io0 p v i o h nr nw).pk (io0 p v i o h nr nw).k := by
  have H := hs
  simp only [H2, OpenC, SockOk, pending] at H
  obtain ⟨hc1, hc2, H⟩ := H
  obtain ⟨ie, oe, h1, h2, -, -, e⟩ := io_rtw p v i o h nr nw (by simp [hupCond, H]) (by simp [H])
  rw [e]
  have : oe = false := by cases oe; rfl; simp [H] at h2
  subst this
  cases ie
  · rw [rtw_ff]; exact Or.inr (Or.inl hs)
  · rw [rtw_t]
    rcases doRead_cases p v nr (by simp [H]) with ⟨-, e⟩ | ⟨-, -, e⟩ | ⟨-, -, hr, -⟩ | ⟨-, hq, -, -, e⟩
    · rw [e]; simp only [rtw_ff]; exact Or.inr (Or.inl hs)
    · rw [e]; simp only [rtw_ff]
      right; left
      refine ⟨hc1, hc2, ?_⟩
      close_ph H
    · simp [H] at hr
    · rw [e]
      right; right
      by_cases hh : v.c.halfCloseable = true
      · obtain ⟨rs, hrs, hl⟩ := hc1 hh
        left
        refine ⟨hc2, ?_⟩
        simp only [disconnectSelectable, readConnLost, hh, hl, if_true, beq_self_eq_true, Bool.and_self]
        rw [appOps_reply rs hrs _ (by simp [H]) (by simp [H]) (by simp [H])]
        close_ph H
        simp [hq]
      · right; left
        refine ⟨hc2, ?_⟩
        simp only [disconnectSelectable, readConnLost, hh]
        close_ph H
        simp [hq]

theorem half_ioA (p : Params) (hp : 0 < p.sendLimit) (v : View) (b : Conn) (i o h : Bool) (nr nw : Nat)
    (hs : HalfInv v.c b v.k v.pk) :
    HalfInv (io0 p v i o h nr nw).c b (io0 p v i o h nr nw).k (io0 p v i o h nr nw).pk := by
  rcases hs with hs | hs | hs
  · exact H1_ioA p hp v b i o h nr nw hs
  · exact H2_ioA p v b i o h nr nw hs
  · exact Or.inr (Or.inr (lose_ioB true p hp v b i o h nr nw hs))

theorem half_ioB (p : Params) (hp : 0 < p.sendLimit) (v : View) (a : Conn) (i o h : Bool) (nr nw : Nat)
    (hs : HalfInv a v.c v.pk v.k) :
    HalfInv a (io0 p v i o h nr nw).c (io0 p v i o h nr nw).pk (io0 p v i o h nr nw).k := by
  rcases hs with hs | hs | hs
  · exact H1_ioB p v a i o h nr nw hs
  · exact H2_ioB p v a i o h nr nw hs
  · exact Or.inr (Or.inr (lose_ioA true p hp v a i o h nr nw hs))

theorem half_abortCall (a b : Conn) (ka kb : Sock) (hs : HalfInv a b ka kb) :
    a.abortCall = false ∧ b.abortCall = false := by
  rcases hs with hs | hs | hs
  · simp only [H1, HalfC, OpenC] at hs; simp [hs]
  · simp only [H2, OpenC] at hs; simp [hs]
  · exact (lose_abortCall true b a kb ka hs).symm

/-! ### abort -/

theorem abort_ioA (p : Params) (v : View) (b : Conn) (i o h : Bool) (nr nw : Nat)
    (hs : AbortInv v.c b v.k v.pk) : io0 p v i o h nr nw = v := by
  rcases hs with hs | hs | hs
  · simp only [X1, AbortingC] at hs; exact io_idle p v i o h nr nw (by simp [hs]) (by simp [hs])
  · simp only [X2, DeadC] at hs; exact io_idle p v i o h nr nw (by simp [hs]) (by simp [hs])
  · simp only [X3, DeadC] at hs; exact io_idle p v i o h nr nw (by simp [hs]) (by simp [hs])

theorem abort_ioB (p : Params) (v : View) (a : Conn) (i o h : Bool) (nr nw : Nat)
    (hs : AbortInv a v.c v.pk v.k) :
    AbortInv a (io0 p v i o h nr nw).c (io0 p v i o h nr nw).pk (io0 p v i o h nr nw).k := by
  rcases hs with hs | hs | hs
  · have H := hs
    simp only [X1, AbortingC, OpenC, SockOk] at H
    rcases peer_reads p v i o h nr nw hs.2.1 hs.2.2.2.1 (by simp [H]) with e | ⟨-, m, e⟩
    · rw [e]; exact Or.inl hs
    · rw [e]; left; close_ph H
  · have H := hs
    simp only [X2, DeadC, OpenC, SockRst] at H
    obtain ⟨ie, oe, h1, h2, -, -, e⟩ := io_rtw p v i o h nr nw (by simp [H]) (by simp [H])
    rw [e]
    have : oe = false := by cases oe; rfl; simp [H] at h2
    subst this
    cases ie
    · rw [rtw_ff]; exact Or.inr (Or.inl hs)
    · rw [rtw_t]
      rcases doRead_cases p v nr (by simp [H]) with ⟨-, e⟩ | ⟨-, -, e⟩ | ⟨-, -, -, e⟩ | ⟨-, -, hr, -⟩
      · rw [e]; simp only [rtw_ff]; exact Or.inr (Or.inl hs)
      · rw [e]; simp only [rtw_ff]; right; left; close_ph H
      · rw [e]; right; right; close_ph H
      · simp [H] at hr
  · have H := hs
    simp only [X3, DeadC] at H
    rw [io_idle p v i o h nr nw (by simp [H]) (by simp [H])]; exact Or.inr (Or.inr hs)

theorem abort_timerA (v : View) (b : Conn) (hs : AbortInv v.c b v.k v.pk) :
    AbortInv (timer v).c b (timer v).k (timer v).pk := by
  rcases hs with hs | hs | hs
  · have H := hs
    simp only [X1, AbortingC, OpenC, SockOk] at H
    right; left
    simp only [timer]
    close_ph H
  · have H := hs
    simp only [X2, DeadC] at H
    rw [timer_idle v (by simp [H])]; exact Or.inr (Or.inl hs)
  · have H := hs
    simp only [X3, DeadC] at H
    rw [timer_idle v (by simp [H])]; exact Or.inr (Or.inr hs)

theorem abort_abortCallB (a b : Conn) (ka kb : Sock) (hs : AbortInv a b ka kb) : b.abortCall = false := by
  rcases hs with hs | hs | hs
  · simp only [X1, OpenC] at hs; simp [hs]
  · simp only [X2, OpenC] at hs; simp [hs]
  · simp only [X3, DeadC] at hs; simp [hs]

/-! ### before the close -/

theorem P0_ioA (p : Params) (hp : 0 < p.sendLimit) (v : View) (b : Conn) (i o h : Bool) (nr nw : Nat)
    (hs : P0 v.c b v.k v.pk) :
    P0 (io0 p v i o h nr nw).c b (io0 p v i o h nr nw).k (io0 p v i o h nr nw).pk := by
  have H := hs.2
  simp only [OpenC, SockOk, pending] at H
  obtain ⟨ie, oe, h1, h2, -, -, e⟩ := io_rtw p v i o h nr nw (by simp [hupCond, H]) (by simp [H])
  rw [e]
  have hrd : ∀ n, doRead0 p v n = (none, v) := by
    intro n
    rcases doRead_cases p v n (by simp [H]) with ⟨-, e⟩ | ⟨-, hq, -⟩ | ⟨-, -, hr, -⟩ | ⟨-, -, -, hf, -⟩
    · exact e
    · simp [H] at hq
    · simp [H] at hr
    · simp [H] at hf
  have hw : readThenWrite0 p v false oe nr nw = readThenWrite0 p v ie oe nr nw := by
    cases ie
    · rfl
    · rw [rtw_t, hrd]
  rw [← hw]
  cases oe
  · rw [rtw_ff]; exact hs
  · rw [rtw_ft]
    have hwr : v.c.writing = true := h2 rfl
    obtain ⟨d, hd⟩ := doWrite_clean p v nw (by simp [H]) (by simp [H]) (by simp [H]) (by simp [H]) hp
    rcases hd with ⟨db, off, tmp, hpe, -, e⟩ | ⟨hpe, e⟩
    · rw [e]
      refine ⟨fun _ => hwr, ?_⟩
      simp only [OpenC, SockOk, pending]
      simp [H]
    · rw [e]
      refine ⟨fun hne => absurd (by simp [finishW, H, pending]) hne, ?_⟩
      simp only [OpenC, SockOk, finishW, pending]
      simp [H]

theorem P0_ioB (p : Params) (v : View) (a : Conn) (i o h : Bool) (nr nw : Nat)
    (hs : P0 a v.c v.pk v.k) :
    P0 a (io0 p v i o h nr nw).c (io0 p v i o h nr nw).pk (io0 p v i o h nr nw).k := by
  have H := hs.2
  simp only [OpenC, SockOk, pending] at H
  rcases peer_reads p v i o h nr nw hs.2.2.1 hs.2.2.2.2.1 (by simp [H]) with e | ⟨-, m, e⟩
  · rw [e]; exact hs
  · rw [e]
    refine ⟨hs.1, ?_⟩
    simp only [OpenC, SockOk, pending]
    simp [H]

end TwistedProps.C15
