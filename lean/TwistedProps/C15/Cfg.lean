import TwistedProps.C15.Base0
/-!
C15 lemmas — the protocol's configuration (IHalfCloseableProtocol or not, what readConnectionLost does) is never
changed by the transport.
-/
namespace TwistedProps.C15
open Twisted.Transport.Tcp

def CfgIs (hc : Bool) (orl : List AppOp) (v : View) : Prop :=
  v.c.halfCloseable = hc ∧ v.c.onReadLost = orl

theorem cfg_connLost (hc : Bool) (orl : List AppOp) (v : View) (r : Reason) (h : CfgIs hc orl v) :
    CfgIs hc orl (connLost v r) := by
  unfold connLost; split
  · exact h
  · exact h

theorem cfg_appOp (hc : Bool) (orl : List AppOp) (v : View) (op : AppOp) (h : CfgIs hc orl v) :
    CfgIs hc orl (appOp v op) := by
  cases op with
  | write d => simp only [appOp, doWriteOp]; split; exact h; split; exact h; exact h
  | writeSeq ds => simp only [appOp, doWriteSeqOp]; split; exact h; exact h
  | lose =>
    simp only [appOp]; split
    · split
      · exact cfg_connLost hc orl _ _ h
      · exact h
    · exact h
  | loseWrite => exact h
  | abort => simp only [appOp]; split; exact h; exact h
  | pause => exact h
  | resume => simp only [appOp]; split; exact h; exact h

theorem cfg_appOps (hc : Bool) (orl : List AppOp) (ops : List AppOp) (v : View) (h : CfgIs hc orl v) :
    CfgIs hc orl (appOps v ops) := by
  induction ops generalizing v with
  | nil => exact h
  | cons op ops ih => exact ih _ (cfg_appOp hc orl v op h)

theorem cfg_timer (hc : Bool) (orl : List AppOp) (v : View) (h : CfgIs hc orl v) : CfgIs hc orl (timer v) := by
  unfold timer; split
  · exact cfg_connLost hc orl _ _ h
  · exact h

theorem cfg_disconnectSelectable (hc : Bool) (orl : List AppOp) (v : View) (w : Reason) (r : Bool)
    (h : CfgIs hc orl v) : CfgIs hc orl (disconnectSelectable v w r) := by
  unfold disconnectSelectable
  dsimp only
  split
  · unfold readConnLost
    split
    · exact cfg_appOps hc orl _ _ h
    · exact cfg_connLost hc orl _ _ h
  · exact cfg_connLost hc orl _ _ h

theorem cfg_doRead (hc : Bool) (orl : List AppOp) (p : Params) (v : View) (n : Nat) (h : CfgIs hc orl v) :
    CfgIs hc orl (doRead0 p v n).2 := by
  obtain ⟨h1, h2⟩ := h
  by_cases ha : v.c.aborting = true
  · simp [doRead0, ha, CfgIs, h1, h2]
  by_cases hn : n = 0
  · simp [doRead0, kRecv, ha, hn, CfgIs, h1, h2]
  by_cases hq : v.k.inq.isEmpty = true
  · by_cases hr : v.k.inRst = true
    · simp [doRead0, kRecv, ha, hn, hq, hr, CfgIs, h1, h2]
    · by_cases hf : v.k.inFin = true
      · simp [doRead0, kRecv, ha, hn, hq, hr, hf, CfgIs, h1, h2]
      · simp [doRead0, kRecv, ha, hn, hq, hr, hf, CfgIs, h1, h2]
  · simp [doRead0, kRecv, ha, hn, hq, CfgIs, h1, h2]

theorem cfg_doWrite (hc : Bool) (orl : List AppOp) (p : Params) (v : View) (n : Nat) (h : CfgIs hc orl v) :
    CfgIs hc orl (doWrite0 p v n).2 := by
  have hm : CfgIs hc orl { v with c := mergeBuf p v.c } := by
    unfold mergeBuf; split <;> exact h
  unfold doWrite0
  split
  · exact h
  · dsimp only
    have hk := kSend_c p { v with c := mergeBuf p v.c } (offered p (mergeBuf p v.c)) n
    generalize kSend p { v with c := mergeBuf p v.c } (offered p (mergeBuf p v.c)) n = r at hk
    obtain ⟨r, v'⟩ := r
    have hv' : CfgIs hc orl v' := by
      simp only at hk
      exact ⟨by rw [hk]; exact hm.1, by rw [hk]; exact hm.2⟩
    cases r with
    | none => exact hv'
    | some l =>
      show CfgIs hc orl (afterSend0 v' _ l).2
      unfold afterSend0
      dsimp only
      split
      · split
        · exact hv'
        · split
          · split <;> exact hv'
          · exact hv'
      · exact hv'

theorem cfg_io (hc : Bool) (orl : List AppOp) (p : Params) (v : View) (i o h : Bool) (nr nw : Nat)
    (hv : CfgIs hc orl v) : CfgIs hc orl (io0 p v i o h nr nw) :=
  io0_preserves (CfgIs hc orl) p (fun v n => cfg_doRead hc orl p v n) (fun v n => cfg_doWrite hc orl p v n)
    (fun v w r => cfg_disconnectSelectable hc orl v w r) v i o h nr nw hv

/-- both protocols' configuration, read off the system -/
def SysCfg (ha hb : Bool) (ra rb : List AppOp) (s : Sys) : Prop :=
  CfgIs ha ra (s.view .A) ∧ CfgIs hb rb (s.view .B)

theorem sysCfg_step (ha hb : Bool) (ra rb : List AppOp) (s : Sys) (ev : Ev) (h : SysCfg ha hb ra rb s) :
    SysCfg ha hb ra rb (step0 s ev) := by
  cases ev with
  | app e op =>
    cases e
    · exact ⟨cfg_appOp ha ra _ op h.1, h.2⟩
    · exact ⟨h.1, cfg_appOp hb rb _ op h.2⟩
  | io e i o hh nr nw =>
    cases e
    · exact ⟨cfg_io ha ra s.p _ i o hh nr nw h.1, h.2⟩
    · exact ⟨h.1, cfg_io hb rb s.p _ i o hh nr nw h.2⟩
  | timer e =>
    cases e
    · exact ⟨cfg_timer ha ra _ h.1, h.2⟩
    · exact ⟨h.1, cfg_timer hb rb _ h.2⟩

theorem sysCfg_run (ha hb : Bool) (ra rb : List AppOp) (evs : List Ev) (s : Sys) (h : SysCfg ha hb ra rb s) :
    SysCfg ha hb ra rb (run0 s evs) := by
  induction evs generalizing s with
  | nil => exact h
  | cons ev evs ih => exact ih _ (sysCfg_step ha hb ra rb s ev h)

end TwistedProps.C15
