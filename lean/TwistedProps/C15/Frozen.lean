import TwistedProps.C15.Stream
/-!
C15 lemmas — once `Connection.connectionLost` ran (the `socket` attribute is gone) nothing any schedule
does reaches the protocol again: `received` and `lost` are frozen.
-/
namespace TwistedProps.C15
open Twisted.Transport.Tcp

/-- the transport is dead and its protocol's log is exactly `(r0, l0)` -/
def Frozen (r0 : Bytes) (l0 : List Reason) (v : View) : Prop :=
  v.c.hasSocket = false ∧ v.c.received = r0 ∧ v.c.lost = l0

theorem frozen_conn (r0 : Bytes) (l0 : List Reason) (v : View) (c' : Conn)
    (e1 : c'.hasSocket = v.c.hasSocket) (e2 : c'.received = v.c.received) (e3 : c'.lost = v.c.lost)
    (h : Frozen r0 l0 v) : Frozen r0 l0 { v with c := c' } := by
  obtain ⟨a, b, c⟩ := h
  exact ⟨by rw [e1]; exact a, by rw [e2]; exact b, by rw [e3]; exact c⟩

theorem frozen_connLost (r0 : Bytes) (l0 : List Reason) (v : View) (r : Reason) (h : Frozen r0 l0 v) :
    Frozen r0 l0 (connLost v r) := by
  unfold connLost
  simp [h.1]
  exact h

theorem frozen_appOp (r0 : Bytes) (l0 : List Reason) (v : View) (op : AppOp) (h : Frozen r0 l0 v) :
    Frozen r0 l0 (appOp v op) := by
  cases op with
  | write d =>
    simp only [appOp, doWriteOp]
    split
    · exact h
    · split
      · exact h
      · exact frozen_conn r0 l0 v _ rfl rfl rfl h
  | writeSeq ds =>
    simp only [appOp, doWriteSeqOp]
    split
    · exact h
    · exact frozen_conn r0 l0 v _ rfl rfl rfl h
  | lose =>
    simp only [appOp]
    split
    · split
      · exact frozen_connLost r0 l0 _ _ (frozen_conn r0 l0 v _ rfl rfl rfl h)
      · exact frozen_conn r0 l0 v _ rfl rfl rfl h
    · exact h
  | loseWrite => exact frozen_conn r0 l0 v _ rfl rfl rfl h
  | abort =>
    simp only [appOp]
    split
    · exact h
    · exact frozen_conn r0 l0 v _ rfl rfl rfl h
  | pause => exact frozen_conn r0 l0 v _ rfl rfl rfl h
  | resume =>
    simp only [appOp]
    split
    · exact frozen_conn r0 l0 v _ rfl rfl rfl h
    · exact h

theorem frozen_appOps (r0 : Bytes) (l0 : List Reason) (ops : List AppOp) (v : View) (h : Frozen r0 l0 v) :
    Frozen r0 l0 (appOps v ops) := by
  induction ops generalizing v with
  | nil => exact h
  | cons op ops ih => exact ih _ (frozen_appOp r0 l0 v op h)

theorem frozen_timer (r0 : Bytes) (l0 : List Reason) (v : View) (h : Frozen r0 l0 v) :
    Frozen r0 l0 (timer v) := by
  unfold timer
  split
  · exact frozen_connLost r0 l0 _ _ (frozen_conn r0 l0 v _ rfl rfl rfl h)
  · exact h

theorem frozen_disconnectSelectable (r0 : Bytes) (l0 : List Reason) (v : View) (w : Reason) (r : Bool)
    (h : Frozen r0 l0 v) : Frozen r0 l0 (disconnectSelectable v w r) := by
  unfold disconnectSelectable
  have h' := frozen_conn r0 l0 v { v.c with reading := false } rfl rfl rfl h
  dsimp only
  split
  · unfold readConnLost
    split
    · exact frozen_appOps r0 l0 _ _ (frozen_conn r0 l0 _ _ rfl rfl rfl h')
    · exact frozen_connLost r0 l0 _ _ h'
  · exact frozen_connLost r0 l0 _ _ (frozen_conn r0 l0 _ _ rfl rfl rfl h')

/-- `_doReadOrWrite` never reaches `doRead`/`doWrite` of a dead transport (`fileno() == -1`) -/
theorem frozen_io (r0 : Bytes) (l0 : List Reason) (p : Params) (v : View) (i o hh : Bool) (nr nw : Nat)
    (h : Frozen r0 l0 v) : Frozen r0 l0 (io p v i o hh nr nw) := by
  unfold io
  dsimp only
  split
  · exact h
  · split
    · split <;> exact frozen_disconnectSelectable r0 l0 _ _ _ h
    · split
      · exact frozen_disconnectSelectable r0 l0 _ _ _ h
      · rename_i hs
        simp [h.1] at hs

/-- the dead side's log, read off the system -/
def FrozenAt (e : Side) (r0 : Bytes) (l0 : List Reason) (s : Sys) : Prop := Frozen r0 l0 (s.view e)

theorem frozenAt_step (e : Side) (r0 : Bytes) (l0 : List Reason) (s : Sys) (ev : Ev)
    (h : FrozenAt e r0 l0 s) : FrozenAt e r0 l0 (step s ev) := by
  cases ev with
  | app e' op =>
    cases e <;> cases e'
    · exact frozen_appOp r0 l0 _ op h
    · exact h
    · exact h
    · exact frozen_appOp r0 l0 _ op h
  | io e' i o hh nr nw =>
    cases e <;> cases e'
    · exact frozen_io r0 l0 s.p _ i o hh nr nw h
    · exact h
    · exact h
    · exact frozen_io r0 l0 s.p _ i o hh nr nw h
  | timer e' =>
    cases e <;> cases e'
    · exact frozen_timer r0 l0 _ h
    · exact h
    · exact h
    · exact frozen_timer r0 l0 _ h

theorem frozenAt_run (e : Side) (r0 : Bytes) (l0 : List Reason) (evs : List Ev) (s : Sys)
    (h : FrozenAt e r0 l0 s) : FrozenAt e r0 l0 (run s evs) := by
  induction evs generalizing s with
  | nil => exact h
  | cons ev evs ih => exact ih _ (frozenAt_step e r0 l0 s ev h)

end TwistedProps.C15
