import TwistedProps.C15.Handlers
/-!
C15 lemmas — the clean-close phases.  A closer `a` (with its socket `ka`) and its peer `b` (`kb`):

  `L1`  a called loseConnection and is flushing; b is open and reading
  `L2`  a flushed, got CONNECTION_DONE from doWrite0 and closed its socket; b drains its queue
  `L3`  b (half-closeable, reacting to readConnectionLost with loseConnection) is closing
  `L4`  both protocols were told ConnectionDone, both sockets closed, nothing discarded

`wd = true` is the second half of a half-close: the peer `b` had shut down its write side before.
Every phase carries the cross-endpoint facts: no RST anywhere, FIN only with empty buffers, the peer's socket
closes only after EOF, and the exact stream equations `a.sent = b.received ++ kb.inq` (nothing discarded).
-/
namespace TwistedProps.C15
open Twisted.Transport.Tcp

def OpenC (c : Conn) (wd : Bool) : Prop :=
  c.connected = true ∧ c.disconnected = false ∧ c.disconnecting = false ∧ c.aborting = false ∧
  c.abortCall = false ∧ c.hasSocket = true ∧ c.writeDisconnecting = wd ∧ c.writeDisconnected = wd ∧ c.lost = []

def ClosingC (c : Conn) : Prop :=
  c.connected = true ∧ c.disconnected = false ∧ c.disconnecting = true ∧ c.aborting = false ∧
  c.abortCall = false ∧ c.hasSocket = true ∧ c.writeDisconnecting = false ∧ c.writeDisconnected = false ∧
  c.reading = false ∧ c.writing = true ∧ c.lost = []

def DeadC (c : Conn) (r : Reason) : Prop :=
  c.connected = false ∧ c.disconnected = true ∧ c.abortCall = false ∧ c.hasSocket = false ∧
  c.reading = false ∧ c.writing = false ∧ c.lost = [r]

/-- open socket, never reset; `fin` = the peer's FIN has arrived, `wd` = our FIN was sent -/
def SockOk (k : Sock) (fin wd : Bool) : Prop :=
  k.closed = false ∧ k.inRst = false ∧ k.inFin = fin ∧ k.shutWr = wd

/-- socket closed in an orderly way with nothing unread, never reset -/
def SockClosed (k : Sock) (fin : Bool) : Prop :=
  k.closed = true ∧ k.inRst = false ∧ k.inFin = fin ∧ k.shutWr = true ∧ k.inq = []

def L1 (wd : Bool) (a b : Conn) (ka kb : Sock) : Prop :=
  (b.halfCloseable = true → b.onReadLost = [.lose]) ∧
  ClosingC a ∧ OpenC b wd ∧ SockOk ka wd false ∧ SockOk kb false wd ∧ ka.inq = [] ∧
  b.reading = true ∧ b.writing = false ∧ pending b = [] ∧
  a.sent = b.received ++ kb.inq ∧ b.sent = a.received

def L2 (wd : Bool) (a b : Conn) (ka kb : Sock) : Prop :=
  (b.halfCloseable = true → b.onReadLost = [.lose]) ∧
  DeadC a .done ∧ OpenC b wd ∧ SockClosed ka wd ∧ SockOk kb true wd ∧
  b.reading = true ∧ b.writing = false ∧ pending a = [] ∧ pending b = [] ∧
  a.sent = b.received ++ kb.inq ∧ b.sent = a.received

def L3 (a b : Conn) (ka kb : Sock) : Prop :=
  DeadC a .done ∧ ClosingC b ∧ SockClosed ka false ∧ SockOk kb true false ∧ kb.inq = [] ∧
  pending a = [] ∧ pending b = [] ∧ a.sent = b.received ∧ b.sent = a.received

def L4 (a b : Conn) (ka kb : Sock) : Prop :=
  DeadC a .done ∧ DeadC b .done ∧ SockClosed ka true ∧ SockClosed kb true ∧
  pending a = [] ∧ pending b = [] ∧ a.sent = b.received ∧ b.sent = a.received

def LoseInv (wd : Bool) (a b : Conn) (ka kb : Sock) : Prop :=
  L1 wd a b ka kb ∨ L2 wd a b ka kb ∨ (wd = false ∧ L3 a b ka kb) ∨ L4 a b ka kb

/-- the predicate read off a view of the closer's side / of the peer's side -/
abbrev LoseA (wd : Bool) (b : Conn) (v : View) : Prop := LoseInv wd v.c b v.k v.pk
abbrev LoseB (wd : Bool) (a : Conn) (v : View) : Prop := LoseInv wd a v.c v.pk v.k

/-- unfold the phase predicates in the goal and discharge every conjunct from the facts `H` of the source phase -/
macro "close_phase " H:ident : tactic =>
  `(tactic| (simp only [L1, L2, L3, L4, ClosingC, OpenC, DeadC, SockOk, SockClosed, pending,
               disconnectSelectable, connLost, kClose, finishW]
             simp [$H:ident] <;> exact ($H).1))

macro "close_phase " H:ident ", " h:ident : tactic =>
  `(tactic| (simp only [L1, L2, L3, L4, ClosingC, OpenC, DeadC, SockOk, SockClosed, pending,
               disconnectSelectable, connLost, kClose, finishW]
             simp [$H:ident, $h:ident] <;> exact ($H).1))

theorem L1_ioA (wd : Bool) (p : Params) (hp : 0 < p.sendLimit) (v : View) (b : Conn) (i o h : Bool) (nr nw : Nat)
    (hs : L1 wd v.c b v.k v.pk) : LoseA wd b (io0 p v i o h nr nw) := by
  have H := hs
  simp only [L1, ClosingC, OpenC, SockOk, pending] at H
  obtain ⟨ie, oe, h1, h2, -, -, e⟩ := io_rtw p v i o h nr nw (by simp [hupCond, H]) (by simp [H])
  rw [e]
  have : ie = false := by cases ie; rfl; simp [H] at h1
  subst this
  cases oe
  · rw [rtw_ff]; exact Or.inl hs
  · rw [rtw_ft]
    obtain ⟨d, hd⟩ := doWrite_clean p v nw (by simp [H]) (by simp [H]) (by simp [H]) (by simp [H]) hp
    rcases hd with ⟨db, off, tmp, hpe, -, e⟩ | ⟨hpe, e⟩
    · rw [e]
      left
      close_phase H
    · rw [e]
      right; left
      close_phase H

theorem L1_ioB (wd : Bool) (p : Params) (v : View) (a : Conn) (i o h : Bool) (nr nw : Nat)
    (hs : L1 wd a v.c v.pk v.k) : LoseB wd a (io0 p v i o h nr nw) := by
  have H := hs
  simp only [L1, ClosingC, OpenC, SockOk, pending] at H
  obtain ⟨ie, oe, h1, h2, -, -, e⟩ := io_rtw p v i o h nr nw (by simp [hupCond, H]) (by simp [H])
  rw [e]
  have : oe = false := by cases oe; rfl; simp [H] at h2
  subst this
  cases ie
  · rw [rtw_ff]; exact Or.inl hs
  · rw [rtw_t]
    rcases doRead_cases p v nr (by simp [H]) with ⟨-, e⟩ | ⟨-, -, e⟩ | ⟨-, -, hr, -⟩ | ⟨-, -, -, hf, -⟩
    · rw [e]; simp only [rtw_ff]; exact Or.inl hs
    · rw [e]; simp only [rtw_ff]
      left
      close_phase H
    · simp [H] at hr
    · simp [H] at hf

theorem L2_ioB (wd : Bool) (p : Params) (v : View) (a : Conn) (i o h : Bool) (nr nw : Nat)
    (hs : L2 wd a v.c v.pk v.k) : LoseB wd a (io0 p v i o h nr nw) := by
  have H := hs
  simp only [L2, DeadC, OpenC, SockOk, SockClosed, pending] at H
  obtain ⟨ie, oe, h1, h2, -, -, e⟩ := io_rtw p v i o h nr nw (by simp [H]) (by simp [H])
  rw [e]
  have : oe = false := by cases oe; rfl; simp [H] at h2
  subst this
  cases ie
  · rw [rtw_ff]; exact Or.inr (Or.inl hs)
  · rw [rtw_t]
    rcases doRead_cases p v nr (by simp [H]) with ⟨-, e⟩ | ⟨-, -, e⟩ | ⟨-, -, hr, -⟩ | ⟨-, hq, -, -, e⟩
    · rw [e]; simp only [rtw_ff]; exact Or.inr (Or.inl hs)
    · rw [e]; simp only [rtw_ff]
      right; left
      close_phase H
    · simp [H] at hr
    · rw [e]
      by_cases hh : v.c.halfCloseable = true
      · have hl := H.1 hh
        cases wd
        · right; right; left
          refine ⟨rfl, ?_⟩
          simp only [disconnectSelectable, readConnLost, hh, hl, appOps_one, appOp]
          close_phase H, hq
        · right; right; right
          simp only [disconnectSelectable, readConnLost, hh, hl, appOps_one, appOp]
          close_phase H, hq
      · right; right; right
        simp only [disconnectSelectable, readConnLost, hh]
        close_phase H, hq

theorem L3_ioB (p : Params) (hp : 0 < p.sendLimit) (v : View) (a : Conn) (i o h : Bool) (nr nw : Nat)
    (hs : L3 a v.c v.pk v.k) : LoseB false a (io0 p v i o h nr nw) := by
  have H := hs
  simp only [L3, DeadC, ClosingC, SockOk, SockClosed, pending] at H
  obtain ⟨ie, oe, h1, h2, -, -, e⟩ := io_rtw p v i o h nr nw (by simp [hupCond, H]) (by simp [H])
  rw [e]
  have : ie = false := by cases ie; rfl; simp [H] at h1
  subst this
  cases oe
  · rw [rtw_ff]; exact Or.inr (Or.inr (Or.inl ⟨rfl, hs⟩))
  · rw [rtw_ft, doWrite_empty p v nw (by simp [H]) (by simp [H]) (by simp [H]) hp (by simp [pending, H])]
    right; right; right
    close_phase H

/-- the closer's side: any readiness report keeps the system inside the clean-close phases -/
theorem lose_ioA (wd : Bool) (p : Params) (hp : 0 < p.sendLimit) (v : View) (b : Conn) (i o h : Bool) (nr nw : Nat)
    (hs : LoseA wd b v) : LoseA wd b (io0 p v i o h nr nw) := by
  rcases hs with hs | hs | ⟨rfl, hs⟩ | hs
  · exact L1_ioA wd p hp v b i o h nr nw hs
  · rw [io_idle p v i o h nr nw hs.2.1.2.2.2.2.1 hs.2.1.2.2.2.2.2.1]; exact Or.inr (Or.inl hs)
  · rw [io_idle p v i o h nr nw hs.1.2.2.2.2.1 hs.1.2.2.2.2.2.1]; exact Or.inr (Or.inr (Or.inl ⟨rfl, hs⟩))
  · rw [io_idle p v i o h nr nw hs.1.2.2.2.2.1 hs.1.2.2.2.2.2.1]; exact Or.inr (Or.inr (Or.inr hs))

/-- the peer's side -/
theorem lose_ioB (wd : Bool) (p : Params) (hp : 0 < p.sendLimit) (v : View) (a : Conn) (i o h : Bool) (nr nw : Nat)
    (hs : LoseB wd a v) : LoseB wd a (io0 p v i o h nr nw) := by
  rcases hs with hs | hs | ⟨rfl, hs⟩ | hs
  · exact L1_ioB wd p v a i o h nr nw hs
  · exact L2_ioB wd p v a i o h nr nw hs
  · exact L3_ioB p hp v a i o h nr nw hs
  · rw [io_idle p v i o h nr nw hs.2.1.2.2.2.2.1 hs.2.1.2.2.2.2.2.1]; exact Or.inr (Or.inr (Or.inr hs))

theorem timer_idle (v : View) (h : v.c.abortCall = false) : timer v = v := by simp [timer, h]

theorem lose_abortCall (wd : Bool) (a b : Conn) (ka kb : Sock) (hs : LoseInv wd a b ka kb) :
    a.abortCall = false ∧ b.abortCall = false := by
  rcases hs with hs | hs | ⟨rfl, hs⟩ | hs
  · simp only [L1, ClosingC, OpenC] at hs; simp [hs]
  · simp only [L2, DeadC, OpenC] at hs; simp [hs]
  · simp only [L3, DeadC, ClosingC] at hs; simp [hs]
  · simp only [L4, DeadC] at hs; simp [hs]

end TwistedProps.C15
