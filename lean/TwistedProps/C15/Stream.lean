import TwistedModel.Transport.Tcp
/-!
C15 lemmas — the stream invariant `Good` and its preservation by every transition of the model.

  `Inv1 c`        sent ++ (unsent part of dataBuffer ++ _tempDataBuffer) = everything write() accepted
  `Inv3 c`        connectionLost was called 0 times while the socket attribute exists, once afterwards
  `Flow w r kr`   bytes the kernel took from w = bytes delivered to r's protocol ++ r's receive queue ++ rest,
                  where rest is non-empty only if r's socket is closed (discarded bytes)
-/
namespace TwistedProps.C15
open Twisted.Transport.Tcp

def pending (c : Conn) : Bytes := c.dataBuffer.drop c.offset ++ c.temp

def Inv1 (c : Conn) : Prop := c.sent ++ pending c = c.accepted
def Inv3 (c : Conn) : Prop := c.lost.length = if c.hasSocket then 0 else 1
def Flow (cw cr : Conn) (kr : Sock) : Prop :=
  ∃ rest, cw.sent = cr.received ++ kr.inq ++ rest ∧ (kr.closed = true ∨ rest = [])
def GoodV (o : Conn) (v : View) : Prop :=
  Inv1 v.c ∧ Inv3 v.c ∧ Flow v.c o v.pk ∧ Flow o v.c v.k

theorem good_connLost (o : Conn) (v : View) (r : Reason) (h : GoodV o v) : GoodV o (connLost v r) := by
  obtain ⟨h1, h3, f1, f2⟩ := h
  unfold connLost
  split
  · exact ⟨h1, h3, f1, f2⟩
  · rename_i hs
    simp at hs
    refine ⟨?_, ?_, ?_, ?_⟩
    · simpa [Inv1, pending, kClose] using h1
    · simp [Inv3, kClose, hs] at h3 ⊢; exact h3
    · simpa [Flow, kClose] using f1
    · obtain ⟨rest, e, _⟩ := f2
      exact ⟨v.k.inq ++ rest, by simp [kClose, e], Or.inl (by simp [kClose])⟩

def SameData (c c' : Conn) : Prop :=
  c'.sent = c.sent ∧ c'.accepted = c.accepted ∧ pending c' = pending c ∧ c'.received = c.received ∧
  c'.lost = c.lost ∧ c'.hasSocket = c.hasSocket

theorem good_sameData (o : Conn) (v : View) (c' : Conn) (hd : SameData v.c c') (h : GoodV o v) :
    GoodV o { v with c := c' } := by
  obtain ⟨h1, h3, f1, f2⟩ := h
  obtain ⟨e1, e2, e3, e4, e5, e6⟩ := hd
  refine ⟨?_, ?_, ?_, ?_⟩
  · simp only [Inv1] at h1 ⊢; rw [e1, e2, e3]; exact h1
  · simp only [Inv3] at h3 ⊢; rw [e5, e6]; exact h3
  · simp only [Flow] at f1 ⊢; rw [e1]; exact f1
  · simp only [Flow] at f2 ⊢; rw [e4]; exact f2

theorem good_write (o : Conn) (v : View) (d : Bytes) (h : GoodV o v) :
    GoodV o { v with c := doWriteOp v.c d } := by
  unfold doWriteOp
  split
  · exact h
  · split
    · exact h
    · obtain ⟨h1, h3, f1, f2⟩ := h
      refine ⟨?_, h3, f1, f2⟩
      simp only [Inv1, pending] at h1 ⊢
      simp [← h1]

theorem good_writeSeq (o : Conn) (v : View) (ds : List Bytes) (h : GoodV o v) :
    GoodV o { v with c := doWriteSeqOp v.c ds } := by
  unfold doWriteSeqOp
  split
  · exact h
  · obtain ⟨h1, h3, f1, f2⟩ := h
    refine ⟨?_, h3, f1, f2⟩
    simp only [Inv1, pending] at h1 ⊢
    simp [← h1]

theorem good_appOp (o : Conn) (v : View) (op : AppOp) (h : GoodV o v) : GoodV o (appOp v op) := by
  cases op with
  | write d => exact good_write o v d h
  | writeSeq ds => exact good_writeSeq o v ds h
  | lose =>
    simp only [appOp]
    split
    · split
      · apply good_connLost
        exact good_sameData o v _ (by simp [SameData, pending]) h
      · exact good_sameData o v _ (by simp [SameData, pending]) h
    · exact h
  | loseWrite => exact good_sameData o v _ (by simp [SameData, pending]) h
  | abort =>
    simp only [appOp]
    split
    · exact h
    · exact good_sameData o v _ (by simp [SameData, pending]) h
  | pause => exact good_sameData o v _ (by simp [SameData, pending]) h
  | resume =>
    simp only [appOp]
    split
    · exact good_sameData o v _ (by simp [SameData, pending]) h
    · exact h

theorem good_appOps (o : Conn) (ops : List AppOp) (v : View) (h : GoodV o v) : GoodV o (appOps v ops) := by
  induction ops generalizing v with
  | nil => exact h
  | cons op ops ih => exact ih _ (good_appOp o v op h)

theorem good_timer (o : Conn) (v : View) (h : GoodV o v) : GoodV o (timer v) := by
  unfold timer
  split
  · exact good_connLost o _ _ (good_sameData o v _ (by simp [SameData, pending]) h)
  · exact h

theorem good_readConnLost (o : Conn) (v : View) (h : GoodV o v) : GoodV o (readConnLost v) := by
  unfold readConnLost
  split
  · exact good_appOps o _ _ (good_sameData o v _ (by simp [SameData, pending]) h)
  · exact good_connLost o _ _ h

theorem good_disconnectSelectable (o : Conn) (v : View) (w : Reason) (r : Bool) (h : GoodV o v) :
    GoodV o (disconnectSelectable v w r) := by
  unfold disconnectSelectable
  have h' := good_sameData o v { v.c with reading := false } (by simp [SameData, pending]) h
  dsimp only
  split
  · exact good_readConnLost o _ h'
  · exact good_connLost o _ _ (good_sameData o _ _ (by simp [SameData, pending]) h')

theorem good_doRead (o : Conn) (p : Params) (v : View) (n : Nat) (h : GoodV o v) :
    GoodV o (doRead p v n).2 := by
  by_cases ha : v.c.aborting = true
  · simp [doRead, ha]; exact h
  by_cases hn : n = 0
  · simp [doRead, kRecv, ha, hn]; exact h
  by_cases hq : v.k.inq.isEmpty = true
  · by_cases hr : v.k.inRst = true
    · simp [doRead, kRecv, ha, hn, hq, hr]; exact h
    · by_cases hf : v.k.inFin = true
      · simp [doRead, kRecv, ha, hn, hq, hr, hf]; exact h
      · simp [doRead, kRecv, ha, hn, hq, hr, hf]; exact h
  · simp [doRead, kRecv, ha, hn, hq]
    -- dataReceived: the protocol records the bytes, then runs the due part of its `onData` script
    unfold dataReceived
    apply good_appOps
    obtain ⟨h1, h3, f1, f2⟩ := h
    refine ⟨?_, ?_, ?_, ?_⟩
    · simpa [Inv1, pending] using h1
    · simpa [Inv3] using h3
    · simpa [Flow] using f1
    · obtain ⟨rest, e, hc⟩ := f2
      refine ⟨rest, ?_, by simpa using hc⟩
      simp [e]

theorem sameData_mergeBuf (p : Params) (c : Conn) : SameData c (mergeBuf p c) := by
  unfold mergeBuf; split <;> simp [SameData, pending]

theorem inv1_consume (p : Params) (c : Conn) (l : Nat) (hl : l ≤ (offered p c).length) (h : Inv1 c) :
    Inv1 { c with offset := c.offset + l, sent := c.sent ++ (offered p c).take l } := by
  simp only [Inv1, pending, offered] at *
  have hl' : l ≤ p.sendLimit := by simp [List.length_take] at hl; omega
  rw [List.take_take, Nat.min_eq_left hl', ← h]
  have : List.drop (c.offset + l) c.dataBuffer = List.drop l (List.drop c.offset c.dataBuffer) := by
    rw [List.drop_drop]
  simp only [List.append_assoc, List.append_cancel_left_eq]
  rw [this, ← List.append_assoc, List.take_append_drop]

theorem kSend_flow (p : Params) (o : Conn) (v : View) (data : Bytes) (n l : Nat) (v' : View)
    (hk : kSend p v data n = (some l, v')) (f1 : Flow v.c o v.pk) :
    v'.c = v.c ∧ v'.k.inq = v.k.inq ∧ v'.k.closed = v.k.closed ∧ l ≤ data.length ∧
    ∀ c' : Conn, c'.sent = v.c.sent ++ data.take l → Flow c' o v'.pk := by
  unfold kSend at hk
  obtain ⟨rest, e, hc⟩ := f1
  split at hk
  · simp at hk
  · split at hk
    · simp at hk
      obtain ⟨rfl, rfl⟩ := hk
      refine ⟨rfl, rfl, rfl, Nat.zero_le _, ?_⟩
      intro c' hs
      exact ⟨rest, by simp [hs, e], hc⟩
    · split at hk
      · rename_i hcl
        simp at hk
        obtain ⟨rfl, rfl⟩ := hk
        refine ⟨rfl, rfl, rfl, Nat.min_le_right _ _, ?_⟩
        intro c' hs
        exact ⟨rest ++ data.take (min n data.length), by simp [hs, e], Or.inl hcl⟩
      · rename_i hcl
        simp at hk
        obtain ⟨rfl, rfl⟩ := hk
        refine ⟨rfl, rfl, rfl, by omega, ?_⟩
        intro c' hs
        have : rest = [] := by
          rcases hc with hc | hc
          · exact absurd hc hcl
          · exact hc
        subst this
        exact ⟨[], by simp [hs, e], Or.inr rfl⟩

theorem good_kShutWr (o : Conn) (v : View) (h : GoodV o v) : GoodV o (kShutWr v) := by
  obtain ⟨h1, h3, f1, f2⟩ := h
  exact ⟨h1, h3, by simpa [Flow, kShutWr] using f1, by simpa [Flow, kShutWr] using f2⟩

theorem good_afterSend (o : Conn) (v : View) (off : Bytes) (l : Nat)
    (h : GoodV o { v with c := { v.c with offset := v.c.offset + l, sent := v.c.sent ++ off.take l } }) :
    GoodV o (afterSend v off l).2 := by
  unfold afterSend
  dsimp only
  split
  · rename_i hfin
    simp only [Bool.and_eq_true, beq_iff_eq, List.isEmpty_iff] at hfin
    have hclr := good_sameData o _
      { v.c with offset := 0, sent := v.c.sent ++ off.take l, dataBuffer := [], writing := false }
      (by simp [SameData, pending, hfin.1, hfin.2]) h
    split
    · exact hclr
    · split
      · have h2 := good_kShutWr o _ (good_sameData o _
          { v.c with offset := 0, sent := v.c.sent ++ off.take l, dataBuffer := [], writing := false,
                     writeDisconnected := true } (by simp [SameData, pending]) hclr)
        split
        · exact good_appOps o _ _ (good_sameData o _ _ (by simp [SameData, pending, kShutWr]) h2)
        · exact h2
      · exact hclr
  · exact h

theorem good_doWrite (o : Conn) (p : Params) (v : View) (n : Nat) (h : GoodV o v) :
    GoodV o (doWrite p v n).2 := by
  unfold doWrite
  split
  · exact h
  · have hm := good_sameData o v (mergeBuf p v.c) (sameData_mergeBuf p v.c) h
    dsimp only
    split
    · rename_i v' hk
      unfold kSend at hk
      split at hk
      · simp at hk; rw [← hk]; exact hm
      · split at hk
        · simp at hk
        · split at hk <;> simp at hk
    · rename_i l v' hk
      obtain ⟨h1, h3, f1, f2⟩ := hm
      obtain ⟨ec, eq, ecl, hl, hf⟩ := kSend_flow p o _ _ n l v' hk f1
      apply good_afterSend
      refine ⟨?_, ?_, ?_, ?_⟩
      · rw [ec]; exact inv1_consume p _ l hl h1
      · rw [ec]; simpa [Inv3] using h3
      · exact hf _ (by simp [ec])
      · obtain ⟨rest, e, hc⟩ := f2
        exact ⟨rest, by simpa [ec, eq] using e, by simpa [ecl] using hc⟩

/-- whatever the three handlers preserve, one dispatched readiness report preserves -/
theorem rtw_preserves (P : View → Prop) (p : Params)
    (hR : ∀ v n, P v → P (doRead p v n).2) (hW : ∀ v n, P v → P (doWrite p v n).2)
    (hD : ∀ v w r, P v → P (disconnectSelectable v w r))
    (v : View) (i o : Bool) (nr nw : Nat) (hv : P v) : P (readThenWrite p v i o nr nw) := by
  unfold readThenWrite
  have h1 : P (if i = true then doRead p v nr else (none, v)).2 := by
    split
    · exact hR v nr hv
    · exact hv
  generalize (if i = true then doRead p v nr else (none, v)) = r at h1
  dsimp only
  split
  · exact hD _ _ _ h1
  · split
    · have h2 := hW r.2 nw h1
      generalize doWrite p r.2 nw = r2 at h2
      split
      · exact hD _ _ _ h2
      · exact h2
    · exact h1

theorem io_preserves (P : View → Prop) (p : Params)
    (hR : ∀ v n, P v → P (doRead p v n).2) (hW : ∀ v n, P v → P (doWrite p v n).2)
    (hD : ∀ v w r, P v → P (disconnectSelectable v w r))
    (v : View) (i o h : Bool) (nr nw : Nat) (hv : P v) : P (io p v i o h nr nw) := by
  unfold io
  dsimp only
  split
  · exact hv
  · split
    · split <;> exact hD _ _ _ hv
    · split
      · exact hD _ _ _ hv
      · exact rtw_preserves P p hR hW hD v _ _ nr nw hv

theorem good_io (o : Conn) (p : Params) (v : View) (i ou h : Bool) (nr nw : Nat) (hv : GoodV o v) :
    GoodV o (io p v i ou h nr nw) :=
  io_preserves (GoodV o) p (fun v n => good_doRead o p v n) (fun v n => good_doWrite o p v n)
    (fun v w r => good_disconnectSelectable o v w r) v i ou h nr nw hv

/-! ### when does `doWrite` answer CONNECTION_DONE -/

theorem afterSend_done (v : View) (off : Bytes) (l : Nat) (hd : (afterSend v off l).1 = some .done) :
    v.c.disconnecting = true ∧ pending (afterSend v off l).2.c = [] := by
  unfold afterSend at hd ⊢
  dsimp only at hd ⊢
  by_cases hfin : (v.c.offset + l == v.c.dataBuffer.length && v.c.temp.isEmpty) = true
  · simp only [hfin, if_true] at hd ⊢
    by_cases hdis : v.c.disconnecting = true
    · simp only [hdis, if_true]
      simp only [Bool.and_eq_true, List.isEmpty_iff] at hfin
      exact ⟨trivial, by simp [pending, hfin.2]⟩
    · simp only [hdis, Bool.false_eq_true, if_false] at hd
      split at hd <;> simp at hd
  · simp [hfin] at hd

theorem kSend_c (p : Params) (v : View) (data : Bytes) (n : Nat) : (kSend p v data n).2.c = v.c := by
  unfold kSend
  split
  · rfl
  · split
    · rfl
    · split <;> rfl

theorem mergeBuf_disconnecting (p : Params) (c : Conn) : (mergeBuf p c).disconnecting = c.disconnecting := by
  unfold mergeBuf; split <;> rfl

theorem doWrite_done (p : Params) (v : View) (n : Nat) (hd : (doWrite p v n).1 = some .done) :
    v.c.disconnecting = true ∧ pending (doWrite p v n).2.c = [] := by
  unfold doWrite at hd ⊢
  by_cases ha : v.c.aborting = true
  · simp [ha] at hd
  · simp only [ha] at hd ⊢
    have hc := kSend_c p { v with c := mergeBuf p v.c } (offered p (mergeBuf p v.c)) n
    cases hk : kSend p { v with c := mergeBuf p v.c } (offered p (mergeBuf p v.c)) n with
    | mk r v' =>
      rw [hk] at hd hc
      cases r with
      | none => simp at hd
      | some l =>
        dsimp only at hd hc ⊢
        have := afterSend_done v' _ l hd
        rw [hc, mergeBuf_disconnecting] at this
        exact this

/-! ### system level -/

def Good (s : Sys) : Prop :=
  GoodV s.b (s.view .A) ∧ GoodV s.a (s.view .B)

theorem goodV_swap (o : Conn) (v : View) (ho1 : Inv1 o) (ho3 : Inv3 o) (h : GoodV o v) :
    GoodV v.c ⟨o, v.pk, v.k⟩ := ⟨ho1, ho3, h.2.2.2, h.2.2.1⟩

/-- lifting: a view transformer that preserves `GoodV o` for every `o` preserves `Good` on either side -/
theorem good_put (s : Sys) (e : Side) (f : View → View) (hf : ∀ o v, GoodV o v → GoodV o (f v))
    (h : Good s) : Good (s.put e (f (s.view e))) := by
  obtain ⟨ha, hb⟩ := h
  cases e with
  | A =>
    have h' := hf s.b _ ha
    exact ⟨h', goodV_swap s.b _ hb.1 hb.2.1 h'⟩
  | B =>
    have h' := hf s.a _ hb
    exact ⟨goodV_swap s.a _ ha.1 ha.2.1 h', h'⟩

theorem good_step (s : Sys) (ev : Ev) (h : Good s) : Good (step s ev) := by
  cases ev with
  | app e op => exact good_put s e (fun v => appOp v op) (fun o v => good_appOp o v op) h
  | io e i o hh nr nw => exact good_put s e (fun v => io s.p v i o hh nr nw) (fun o' v => good_io o' s.p v i o hh nr nw) h
  | timer e => exact good_put s e timer good_timer h

theorem good_run (evs : List Ev) (s : Sys) (h : Good s) : Good (run s evs) := by
  induction evs generalizing s with
  | nil => exact h
  | cons ev evs ih => exact ih _ (good_step s ev h)
end TwistedProps.C15
