import TwistedProps.C15.Discipline
/-!
C15 lemmas — symmetry of the model (swap the two endpoints), fair runs are runs of noise, and the clean-close
conclusions for a closer on side A.
-/
namespace TwistedProps.C15
open Twisted.Transport.Tcp

def swapSide : Side → Side
  | .A => .B
  | .B => .A

def swapEv : Ev → Ev
  | .app e op => .app (swapSide e) op
  | .io e i o h nr nw => .io (swapSide e) i o h nr nw
  | .timer e => .timer (swapSide e)

def swapSys (s : Sys) : Sys := { p := s.p, a := s.b, b := s.a, ka := s.kb, kb := s.ka }

theorem step_swap (s : Sys) (ev : Ev) : step0 (swapSys s) (swapEv ev) = swapSys (step0 s ev) := by
  cases ev with
  | app e op => cases e <;> rfl
  | io e i o h nr nw => cases e <;> rfl
  | timer e => cases e <;> rfl

theorem run_swap (evs : List Ev) (s : Sys) : run0 (swapSys s) (evs.map swapEv) = swapSys (run0 s evs) := by
  induction evs generalizing s with
  | nil => rfl
  | cons ev evs ih =>
    show run0 (step0 (swapSys s) (swapEv ev)) (evs.map swapEv) = _
    rw [step_swap, ih]
    rfl

theorem quiescent_swap (s : Sys) : (swapSys s).quiescent = s.quiescent := by
  simp only [Sys.quiescent, swapSys, Sys.view]
  exact Bool.and_comm _ _

theorem noise_swap (ev : Ev) : noise (swapEv ev) = noise ev := by cases ev <;> rfl

theorem preEv_swap (ev : Ev) : preEv .A (swapEv ev) = preEv .B ev := by
  cases ev with
  | app e op => cases e <;> cases op <;> rfl
  | io e i o h nr nw => rfl
  | timer e => rfl

theorem run_append (s : Sys) (l1 l2 : List Ev) : run0 s (l1 ++ l2) = run0 (run0 s l1) l2 := by
  simp [run0, List.foldl_append]

theorem fairRound_noise : ∀ ev ∈ fairRound, noise ev = true := by decide

/-- the fair completion is a run of readiness reports and delayed calls -/
theorem runFair_eq_run (fuel : Nat) (s : Sys) :
    ∃ evs, (∀ ev ∈ evs, noise ev = true) ∧ runFair0 fuel s = run0 s evs := by
  induction fuel generalizing s with
  | zero => exact ⟨[], by simp, rfl⟩
  | succ n ih =>
    unfold runFair0
    split
    · exact ⟨[], by simp, rfl⟩
    · obtain ⟨evs, h1, h2⟩ := ih (run0 s fairRound)
      refine ⟨fairRound ++ evs, ?_, ?_⟩
      · intro ev hev
        rcases List.mem_append.mp hev with h | h
        · exact fairRound_noise ev h
        · exact h1 ev h
      · rw [h2, run_append]

def fresh (p : Params) (ha hb : Bool) (ra rb : List AppOp) : Sys :=
  Sys.init p (Conn.fresh ha ra) (Conn.fresh hb rb)

theorem P0_fresh (p : Params) (ha hb : Bool) (ra rb : List AppOp) : SysP0 (fresh p ha hb ra rb) := by
  refine ⟨?_, ?_⟩
  · intro h; simp [fresh, Sys.init, Conn.fresh, pending] at h
  · simp [fresh, Sys.init, Conn.fresh, OpenC, SockOk, pending]

theorem good_fresh (p : Params) (ha hb : Bool) (ra rb : List AppOp) : Good (fresh p ha hb ra rb) := by
  have f : ∀ (c o : Conn) (k : Sock), c.sent = [] → o.received = [] → k.inq = [] → Flow c o k :=
    fun c o k h1 h2 h3 => ⟨[], by simp [h1, h2, h3], Or.inr rfl⟩
  refine ⟨⟨?_, ?_, f _ _ _ rfl rfl rfl, f _ _ _ rfl rfl rfl⟩, ⟨?_, ?_, f _ _ _ rfl rfl rfl, f _ _ _ rfl rfl rfl⟩⟩ <;>
    simp [fresh, Sys.init, Sys.view, Conn.fresh, Inv1, Inv3, pending]

theorem cfg_fresh (p : Params) (ha hb : Bool) (ra rb : List AppOp) : SysCfg ha hb ra rb (fresh p ha hb ra rb) :=
  ⟨⟨rfl, rfl⟩, ⟨rfl, rfl⟩⟩

/-- a fresh system of the discipline has no dataReceived / writeConnectionLost reaction: `run = run0` on it -/
theorem noReact_fresh (p : Params) (ha hb : Bool) (ra rb : List AppOp) : NoReactS (fresh p ha hb ra rb) :=
  ⟨⟨rfl, rfl⟩, ⟨rfl, rfl⟩⟩

theorem inv1_run (p : Params) (ha hb : Bool) (ra rb : List AppOp) (evs : List Ev) :
    Inv1 (run0 (fresh p ha hb ra rb) evs).a ∧ Inv1 (run0 (fresh p ha hb ra rb) evs).b := by
  have := good_run evs _ (good_fresh p ha hb ra rb)
  rw [run_eq_run0 evs _ (noReact_fresh p ha hb ra rb)] at this
  exact ⟨this.1.1, this.2.1⟩

/-- what a protocol reacting to readConnectionLost may do under the discipline -/
def replyOk (half : Bool) (rl : List AppOp) : Prop :=
  half = true → ∃ rs, (∀ op ∈ rs, AppOp.isWrite op = true) ∧ rl = rs ++ [.lose]

def closeOk (half : Bool) (rl : List AppOp) : Prop := half = true → rl = [.lose]

/-- closer on side A, loseConnection -/
theorem lose_A (p : Params) (hp : 0 < p.sendLimit) (hc : 0 < p.cap) (ha hb : Bool) (ra rb : List AppOp)
    (hcfg : closeOk hb rb) (pre post : List Ev)
    (hpre : ∀ ev ∈ pre, preEv .A ev = true) (hpost : ∀ ev ∈ post, noise ev = true)
    (hrd : (run0 (fresh p ha hb ra rb) pre).b.reading = true) :
    let s := run0 (fresh p ha hb ra rb) (pre ++ .app .A .lose :: post)
    SysLose false s ∧
    (s.quiescent = true → s.a.lost = [.done] ∧ s.b.lost = [.done] ∧ s.b.received = s.a.accepted ∧
      s.a.received = s.b.accepted) := by
  intro s
  have h0 := P0_run pre _ (by simpa [fresh, Sys.init] using hp) hpre (P0_fresh p ha hb ra rb)
  have hcf := sysCfg_run ha hb ra rb pre _ (cfg_fresh p ha hb ra rb)
  have hcb : LoseCfg (run0 (fresh p ha hb ra rb) pre).b := by
    intro hh
    have := hcf.2
    simp only [CfgIs, Sys.view] at this
    rw [this.2]; exact hcfg (by rw [← this.1]; exact hh)
  have h1 := lose_entry _ h0 hrd hcb
  have hs : s = run0 (step0 (run0 (fresh p ha hb ra rb) pre) (.app .A .lose)) post := by
    show run0 _ _ = _
    rw [run_append]; rfl
  have hpp : ∀ evs, (run0 (fresh p ha hb ra rb) evs).p = p := fun evs => run_p evs _
  have h2 : SysLose false s := by
    rw [hs]
    exact lose_run false post _ (by rw [step_p, hpp]; exact hp) hpost h1
  refine ⟨h2, ?_⟩
  intro hq
  simp only [Sys.quiescent, Bool.and_eq_true] at hq
  have hsp : s.p = p := hpp _
  rw [hsp] at hq
  have h4 := lose_quiescent false p hc _ _ _ _ h2 hq.1 hq.2
  have hi := inv1_run p ha hb ra rb (pre ++ .app .A .lose :: post)
  exact L4_facts _ _ _ _ h4 hi.1 hi.2

/-- closer on side A, loseWriteConnection (half-close); the peer replies and closes when it sees EOF -/
theorem half_A (p : Params) (hp : 0 < p.sendLimit) (hc : 0 < p.cap) (ha hb : Bool) (ra rb : List AppOp)
    (hcfa : closeOk ha ra) (hcfg : replyOk hb rb) (pre post : List Ev)
    (hpre : ∀ ev ∈ pre, preEv .A ev = true) (hpost : ∀ ev ∈ post, noise ev = true)
    (hra : (run0 (fresh p ha hb ra rb) pre).a.reading = true)
    (hrd : (run0 (fresh p ha hb ra rb) pre).b.reading = true) :
    let s := run0 (fresh p ha hb ra rb) (pre ++ .app .A .loseWrite :: post)
    SysHalf s ∧
    (s.quiescent = true → s.a.lost = [.done] ∧ s.b.lost = [.done] ∧ s.b.received = s.a.accepted ∧
      s.a.received = s.b.accepted) := by
  intro s
  have h0 := P0_run pre _ (by simpa [fresh, Sys.init] using hp) hpre (P0_fresh p ha hb ra rb)
  have hcf := sysCfg_run ha hb ra rb pre _ (cfg_fresh p ha hb ra rb)
  have hca : LoseCfg (run0 (fresh p ha hb ra rb) pre).a := by
    intro hh
    have := hcf.1
    simp only [CfgIs, Sys.view] at this
    rw [this.2]; exact hcfa (by rw [← this.1]; exact hh)
  have hcb : ReplyCfg (run0 (fresh p ha hb ra rb) pre).b := by
    intro hh
    have := hcf.2
    simp only [CfgIs, Sys.view] at this
    rw [this.2]; exact hcfg (by rw [← this.1]; exact hh)
  have h1 := half_entry _ h0 hra hrd hca hcb
  have hs : s = run0 (step0 (run0 (fresh p ha hb ra rb) pre) (.app .A .loseWrite)) post := by
    show run0 _ _ = _
    rw [run_append]; rfl
  have hpp : ∀ evs, (run0 (fresh p ha hb ra rb) evs).p = p := fun evs => run_p evs _
  have h2 : SysHalf s := by
    rw [hs]
    exact half_run post _ (by rw [step_p, hpp]; exact hp) hpost h1
  refine ⟨h2, ?_⟩
  intro hq
  simp only [Sys.quiescent, Bool.and_eq_true] at hq
  have hsp : s.p = p := hpp _
  rw [hsp] at hq
  have h4 := half_quiescent p hc _ _ _ _ h2 hq.1 hq.2
  have hi := inv1_run p ha hb ra rb (pre ++ .app .A .loseWrite :: post)
  have := L4_facts _ _ _ _ h4 hi.2 hi.1
  exact ⟨this.2.1, this.1, this.2.2.2, this.2.2.1⟩

/-- closer on side A, abortConnection -/
theorem abort_A (p : Params) (ha hb : Bool) (ra rb : List AppOp) (pre post : List Ev)
    (hp : 0 < p.sendLimit)
    (hpre : ∀ ev ∈ pre, preEv .A ev = true) (hpost : ∀ ev ∈ post, noise ev = true)
    (hrd : (run0 (fresh p ha hb ra rb) pre).b.reading = true) :
    let s := run0 (fresh p ha hb ra rb) (pre ++ .app .A .abort :: post)
    SysAbort s ∧ (s.quiescent = true → s.a.lost = [.aborted] ∧ s.b.lost = [.lost]) := by
  intro s
  have h0 := P0_run pre _ (by simpa [fresh, Sys.init] using hp) hpre (P0_fresh p ha hb ra rb)
  have h1 := abort_entry _ h0 hrd
  have hs : s = run0 (step0 (run0 (fresh p ha hb ra rb) pre) (.app .A .abort)) post := by
    show run0 _ _ = _
    rw [run_append]; rfl
  have h2 : SysAbort s := by
    rw [hs]
    exact abort_run post _ hpost h1
  refine ⟨h2, ?_⟩
  intro hq
  simp only [Sys.quiescent, Bool.and_eq_true] at hq
  have h4 := abort_quiescent s.p _ _ _ _ h2 hq.1 hq.2
  simp only [X3, DeadC] at h4
  exact ⟨h4.1.2.2.2.2.2.2, h4.2.2.2.2.2.2.2⟩

/-! ### either side may be the closer -/

def connOf (s : Sys) : Side → Conn
  | .A => s.a
  | .B => s.b

theorem fresh_swap (p : Params) (ha hb : Bool) (ra rb : List AppOp) (evs : List Ev) :
    run0 (fresh p hb ha rb ra) (evs.map swapEv) = swapSys (run0 (fresh p ha hb ra rb) evs) :=
  run_swap evs (fresh p ha hb ra rb)

theorem map_swap_close (pre post : List Ev) (op : AppOp) :
    (pre ++ Ev.app .B op :: post).map swapEv = pre.map swapEv ++ Ev.app .A op :: post.map swapEv := by
  simp [swapEv, swapSide]

theorem pre_swap (pre : List Ev) (h : ∀ ev ∈ pre, preEv .B ev = true) : ∀ ev ∈ pre.map swapEv, preEv .A ev = true := by
  intro ev hev
  obtain ⟨e, he, rfl⟩ := List.mem_map.mp hev
  rw [preEv_swap]; exact h e he

theorem post_swap (post : List Ev) (h : ∀ ev ∈ post, noise ev = true) : ∀ ev ∈ post.map swapEv, noise ev = true := by
  intro ev hev
  obtain ⟨e, he, rfl⟩ := List.mem_map.mp hev
  rw [noise_swap]; exact h e he

/-- loseConnection by side `w`, the other side closes when it sees EOF -/
theorem lose_any (p : Params) (hp : 0 < p.sendLimit) (hc : 0 < p.cap) (w : Side) (ha hb : Bool) (ra rb : List AppOp)
    (hcfg : match w with | .A => closeOk hb rb | .B => closeOk ha ra) (pre post : List Ev)
    (hpre : ∀ ev ∈ pre, preEv w ev = true) (hpost : ∀ ev ∈ post, noise ev = true)
    (hrd : (connOf (run0 (fresh p ha hb ra rb) pre) (swapSide w)).reading = true) :
    let s := run0 (fresh p ha hb ra rb) (pre ++ .app w .lose :: post)
    s.quiescent = true → s.a.lost = [.done] ∧ s.b.lost = [.done] ∧ s.b.received = s.a.accepted ∧
      s.a.received = s.b.accepted := by
  cases w with
  | A => exact (lose_A p hp hc ha hb ra rb hcfg pre post hpre hpost hrd).2
  | B =>
    intro s hq
    have key := (lose_A p hp hc hb ha rb ra hcfg (pre.map swapEv) (post.map swapEv) (pre_swap pre hpre)
      (post_swap post hpost) (by rw [fresh_swap]; exact hrd)).2
    rw [← map_swap_close, fresh_swap] at key
    have := key (by rw [quiescent_swap]; exact hq)
    exact ⟨this.2.1, this.1, this.2.2.2, this.2.2.1⟩

/-- loseWriteConnection by side `w`; the other side replies and closes when it sees EOF -/
theorem half_any (p : Params) (hp : 0 < p.sendLimit) (hc : 0 < p.cap) (w : Side) (ha hb : Bool) (ra rb : List AppOp)
    (hcfg : match w with | .A => closeOk ha ra ∧ replyOk hb rb | .B => closeOk hb rb ∧ replyOk ha ra)
    (pre post : List Ev)
    (hpre : ∀ ev ∈ pre, preEv w ev = true) (hpost : ∀ ev ∈ post, noise ev = true)
    (hra : (run0 (fresh p ha hb ra rb) pre).a.reading = true)
    (hrb : (run0 (fresh p ha hb ra rb) pre).b.reading = true) :
    let s := run0 (fresh p ha hb ra rb) (pre ++ .app w .loseWrite :: post)
    s.quiescent = true → s.a.lost = [.done] ∧ s.b.lost = [.done] ∧ s.b.received = s.a.accepted ∧
      s.a.received = s.b.accepted := by
  cases w with
  | A => exact (half_A p hp hc ha hb ra rb hcfg.1 hcfg.2 pre post hpre hpost hra hrb).2
  | B =>
    intro s hq
    have key := (half_A p hp hc hb ha rb ra hcfg.1 hcfg.2 (pre.map swapEv) (post.map swapEv) (pre_swap pre hpre)
      (post_swap post hpost) (by rw [fresh_swap]; exact hrb) (by rw [fresh_swap]; exact hra)).2
    rw [← map_swap_close, fresh_swap] at key
    have := key (by rw [quiescent_swap]; exact hq)
    exact ⟨this.2.1, this.1, this.2.2.2, this.2.2.1⟩

/-- abortConnection by side `w` -/
theorem abort_any (p : Params) (hp : 0 < p.sendLimit) (w : Side) (ha hb : Bool) (ra rb : List AppOp)
    (pre post : List Ev)
    (hpre : ∀ ev ∈ pre, preEv w ev = true) (hpost : ∀ ev ∈ post, noise ev = true)
    (hrd : (connOf (run0 (fresh p ha hb ra rb) pre) (swapSide w)).reading = true) :
    let s := run0 (fresh p ha hb ra rb) (pre ++ .app w .abort :: post)
    s.quiescent = true → (connOf s w).lost = [.aborted] ∧ (connOf s (swapSide w)).lost = [.lost] := by
  cases w with
  | A => exact (abort_A p ha hb ra rb pre post hp hpre hpost hrd).2
  | B =>
    intro s hq
    have key := (abort_A p hb ha rb ra (pre.map swapEv) (post.map swapEv) hp (pre_swap pre hpre)
      (post_swap post hpost) (by rw [fresh_swap]; exact hrd)).2
    rw [← map_swap_close, fresh_swap] at key
    exact key (by rw [quiescent_swap]; exact hq)

end TwistedProps.C15
