import TwistedProps.C15.Fair
/-!
C15 lemmas — the disciplined schedules put the system into the invariant of `Fair.lean`; assembling
progress (`runFair_quiescent`) with the conclusions at rest (`lose_any`, `half_any`, `abort_any`).
-/
namespace TwistedProps.C15
open Twisted.Transport.Tcp

/-- the discipline's invariant with closer `w` -/
def FInvW (w : Side) (s : Sys) : Prop :=
  match w with
  | .A => FInv s
  | .B => FInv (swapSys s)

theorem roundOK_W (w : Side) : RoundOK (FInvW w) := by
  cases w
  · exact roundOK_FInv
  · exact roundOK_swap

theorem finv_lose (p : Params) (hp : 0 < p.sendLimit) (hr : 0 < p.recvMax) (hc : 0 < p.cap) (w : Side)
    (ha hb : Bool) (ra rb : List AppOp)
    (hcfg : match w with | .A => closeOk hb rb | .B => closeOk ha ra) (pre post : List Ev)
    (hpre : ∀ ev ∈ pre, preEv w ev = true) (hpost : ∀ ev ∈ post, noise ev = true)
    (hrd : (connOf (run0 (fresh p ha hb ra rb) pre) (swapSide w)).reading = true) :
    FInvW w (run0 (fresh p ha hb ra rb) (pre ++ .app w .lose :: post)) := by
  cases w with
  | A =>
    have := (lose_A p hp hc ha hb ra rb hcfg pre post hpre hpost hrd).1
    exact ⟨by rw [run_p]; exact hp, by rw [run_p]; exact hr, Or.inl ⟨false, this⟩⟩
  | B =>
    have := (lose_A p hp hc hb ha rb ra hcfg (pre.map swapEv) (post.map swapEv) (pre_swap pre hpre)
      (post_swap post hpost) (by rw [fresh_swap]; exact hrd)).1
    rw [← map_swap_close, fresh_swap] at this
    exact ⟨by show 0 < (run0 _ _).p.sendLimit; rw [run_p]; exact hp,
           by show 0 < (run0 _ _).p.recvMax; rw [run_p]; exact hr, Or.inl ⟨false, this⟩⟩

theorem finv_half (p : Params) (hp : 0 < p.sendLimit) (hr : 0 < p.recvMax) (hc : 0 < p.cap) (w : Side)
    (ha hb : Bool) (ra rb : List AppOp)
    (hcfg : match w with | .A => closeOk ha ra ∧ replyOk hb rb | .B => closeOk hb rb ∧ replyOk ha ra)
    (pre post : List Ev)
    (hpre : ∀ ev ∈ pre, preEv w ev = true) (hpost : ∀ ev ∈ post, noise ev = true)
    (hra : (run0 (fresh p ha hb ra rb) pre).a.reading = true)
    (hrb : (run0 (fresh p ha hb ra rb) pre).b.reading = true) :
    FInvW w (run0 (fresh p ha hb ra rb) (pre ++ .app w .loseWrite :: post)) := by
  cases w with
  | A =>
    have := (half_A p hp hc ha hb ra rb hcfg.1 hcfg.2 pre post hpre hpost hra hrb).1
    exact ⟨by rw [run_p]; exact hp, by rw [run_p]; exact hr, Or.inr (Or.inl this)⟩
  | B =>
    have := (half_A p hp hc hb ha rb ra hcfg.1 hcfg.2 (pre.map swapEv) (post.map swapEv) (pre_swap pre hpre)
      (post_swap post hpost) (by rw [fresh_swap]; exact hrb) (by rw [fresh_swap]; exact hra)).1
    rw [← map_swap_close, fresh_swap] at this
    exact ⟨by show 0 < (run0 _ _).p.sendLimit; rw [run_p]; exact hp,
           by show 0 < (run0 _ _).p.recvMax; rw [run_p]; exact hr, Or.inr (Or.inl this)⟩

theorem finv_abort (p : Params) (hp : 0 < p.sendLimit) (hr : 0 < p.recvMax) (w : Side)
    (ha hb : Bool) (ra rb : List AppOp) (pre post : List Ev)
    (hpre : ∀ ev ∈ pre, preEv w ev = true) (hpost : ∀ ev ∈ post, noise ev = true)
    (hrd : (connOf (run0 (fresh p ha hb ra rb) pre) (swapSide w)).reading = true) :
    FInvW w (run0 (fresh p ha hb ra rb) (pre ++ .app w .abort :: post)) := by
  cases w with
  | A =>
    have := (abort_A p ha hb ra rb pre post hp hpre hpost hrd).1
    exact ⟨by rw [run_p]; exact hp, by rw [run_p]; exact hr, Or.inr (Or.inr this)⟩
  | B =>
    have := (abort_A p hb ha rb ra (pre.map swapEv) (post.map swapEv) hp (pre_swap pre hpre)
      (post_swap post hpost) (by rw [fresh_swap]; exact hrd)).1
    rw [← map_swap_close, fresh_swap] at this
    exact ⟨by show 0 < (run0 _ _).p.sendLimit; rw [run_p]; exact hp,
           by show 0 < (run0 _ _).p.recvMax; rw [run_p]; exact hr, Or.inr (Or.inr this)⟩

/-- the fair completion of a schedule is the schedule followed by more noise -/
theorem runFair_after (fuel : Nat) (s0 : Sys) (pre post : List Ev) (ev : Ev) (hpost : ∀ e ∈ post, noise e = true) :
    ∃ post', (∀ e ∈ post', noise e = true) ∧
      runFair0 fuel (run0 s0 (pre ++ ev :: post)) = run0 s0 (pre ++ ev :: post') := by
  obtain ⟨evs, hn, e⟩ := runFair_eq_run fuel (run0 s0 (pre ++ ev :: post))
  refine ⟨post ++ evs, ?_, ?_⟩
  · intro x hx
    rcases List.mem_append.mp hx with h | h
    · exact hpost x h
    · exact hn x h
  · rw [e, ← run_append]; simp

/-! ### the cross-endpoint invariants in plain words -/

/-- closer `a`, peer `b`: no reset anywhere; a FIN was only sent with empty buffers; the peer's socket is closed
    only after the closer's FIN arrived; nothing was discarded (exact stream equations); buffered bytes ⇒ the
    transport is registered as a writer -/
def DiscFacts (a b : Conn) (ka kb : Sock) : Prop :=
  ka.inRst = false ∧ kb.inRst = false ∧
  (kb.inFin = true → pending a = []) ∧ (ka.inFin = true → pending b = []) ∧
  (kb.closed = true → kb.inFin = true) ∧
  a.sent = b.received ++ kb.inq ∧ b.sent = a.received ++ ka.inq ∧
  (pending a ≠ [] → a.writing = true) ∧ (pending b ≠ [] → b.writing = true)

theorem lose_facts (wd : Bool) (a b : Conn) (ka kb : Sock) (h : LoseInv wd a b ka kb) : DiscFacts a b ka kb := by
  rcases h with h | h | ⟨-, h⟩ | h
  · simp only [L1, ClosingC, OpenC, SockOk] at h
    simp [DiscFacts, h]
  · simp only [L2, DeadC, OpenC, SockOk, SockClosed] at h
    simp [DiscFacts, h]
  · simp only [L3, DeadC, ClosingC, SockOk, SockClosed] at h
    simp [DiscFacts, h]
  · simp only [L4, DeadC, SockClosed] at h
    simp [DiscFacts, h]

theorem discFacts_swap (a b : Conn) (ka kb : Sock) (h : DiscFacts b a kb ka) (hc : kb.closed = true → kb.inFin = true) :
    DiscFacts a b ka kb := by
  obtain ⟨h1, h2, h3, h4, -, h6, h7, h8, h9⟩ := h
  exact ⟨h2, h1, h4, h3, hc, h7, h6, h9, h8⟩

theorem half_facts (a b : Conn) (ka kb : Sock) (h : HalfInv a b ka kb) :
    DiscFacts a b ka kb ∧ (ka.closed = true → ka.inFin = true) := by
  rcases h with h | h | h
  · simp only [H1, HalfC, OpenC, SockOk] at h
    obtain ⟨-, -, h⟩ := h
    simp [DiscFacts, h]
  · simp only [H2, OpenC, SockOk] at h
    obtain ⟨-, -, h⟩ := h
    simp [DiscFacts, h]
  · have hf := lose_facts true b a kb ka h
    refine ⟨discFacts_swap a b ka kb hf ?_, hf.2.2.2.2.1⟩
    rcases h with h | h | ⟨h0, -⟩ | h
    · simp only [L1, SockOk] at h; intro hc; simp [h] at hc
    · simp only [L2, SockClosed] at h; intro _; simp [h]
    · simp at h0
    · simp only [L4, SockClosed] at h; intro _; simp [h]

end TwistedProps.C15
