import TwistedProps.C15.Final
/-!
C15 lemmas — progress: under the discipline every fair round that starts in a non-quiescent state strictly
decreases the measure `mu`, so `runFair0` reaches a quiescent state.

  `wt c k`  = 2·|pending c| + |k.inq| + [c.writing] + [c.reading]·(3 + 2·|reply of c|) + [c.abortCall]
  `mu s`    = wt a ka + wt b kb
-/
namespace TwistedProps.C15
open Twisted.Transport.Tcp

/-- something is reported to this endpoint by a fair poller -/
def enIO (p : Params) (v : View) : Bool :=
  (v.c.reading && readable v.k) || (v.c.writing && writable p v.k v.pk)

theorem quietView_eq (p : Params) (v : View) : quietView p v = (!v.c.abortCall && !enIO p v) := by
  simp only [quietView, enIO]
  cases v.c.abortCall <;> cases (v.c.reading && readable v.k) <;> cases (v.c.writing && writable p v.k v.pk) <;> rfl

/-! ### what one endpoint does never disables the other -/

def MonoS (v v' : View) : Prop :=
  (readable v.pk = true → readable v'.pk = true) ∧
  (∀ p : Params, writable p v.pk v.k = true → writable p v'.pk v'.k = true)

theorem mono_refl (v : View) : MonoS v v := ⟨id, fun _ => id⟩

theorem mono_trans (v1 v2 v3 : View) (h1 : MonoS v1 v2) (h2 : MonoS v2 v3) : MonoS v1 v3 :=
  ⟨fun h => h2.1 (h1.1 h), fun p h => h2.2 p (h1.2 p h)⟩

theorem mono_conn (v : View) (c : Conn) : MonoS v { v with c := c } := ⟨id, fun _ => id⟩

theorem mono_connLost (v : View) (r : Reason) : MonoS v (connLost v r) := by
  unfold connLost
  split
  · exact mono_refl v
  · refine ⟨fun _ => by simp [kClose, readable], fun p _ => by simp [kClose, writable]⟩

theorem mono_appOp (v : View) (op : AppOp) : MonoS v (appOp v op) := by
  cases op with
  | lose =>
    simp only [appOp]; split
    · split
      · exact mono_trans _ _ _ (mono_conn v _) (mono_connLost _ _)
      · exact mono_conn v _
    · exact mono_refl v
  | abort => simp only [appOp]; split; exact mono_refl v; exact mono_conn v _
  | resume => simp only [appOp]; split; exact mono_conn v _; exact mono_refl v
  | write d => exact mono_conn v _
  | writeSeq ds => exact mono_conn v _
  | loseWrite => exact mono_conn v _
  | pause => exact mono_conn v _

theorem mono_appOps (ops : List AppOp) (v : View) : MonoS v (appOps v ops) := by
  induction ops generalizing v with
  | nil => exact mono_refl v
  | cons op ops ih => exact mono_trans _ _ _ (mono_appOp v op) (ih _)

theorem mono_timer (v : View) : MonoS v (timer v) := by
  unfold timer; split
  · exact mono_trans _ _ _ (mono_conn v _) (mono_connLost _ _)
  · exact mono_refl v

theorem mono_disconnectSelectable (v : View) (w : Reason) (r : Bool) : MonoS v (disconnectSelectable v w r) := by
  unfold disconnectSelectable
  dsimp only
  split
  · unfold readConnLost
    split
    · exact mono_trans _ _ _ (mono_conn v _) (mono_trans _ _ _ (mono_conn _ _) (mono_appOps _ _))
    · exact mono_trans _ _ _ (mono_conn v _) (mono_connLost _ _)
  · exact mono_trans _ _ _ (mono_conn v _) (mono_trans _ _ _ (mono_conn _ _) (mono_connLost _ _))

theorem mono_doRead (p : Params) (v : View) (n : Nat) : MonoS v (doRead0 p v n).2 := by
  by_cases ha : v.c.aborting = true
  · simp [doRead0, ha]; exact mono_refl v
  by_cases hn : n = 0
  · simp [doRead0, kRecv, ha, hn]; exact mono_refl v
  by_cases hq : v.k.inq.isEmpty = true
  · by_cases hr : v.k.inRst = true
    · simp [doRead0, kRecv, ha, hn, hq, hr]; exact mono_refl v
    · by_cases hf : v.k.inFin = true
      · simp [doRead0, kRecv, ha, hn, hq, hr, hf]; exact mono_refl v
      · simp [doRead0, kRecv, ha, hn, hq, hr, hf]; exact mono_refl v
  · simp [doRead0, kRecv, ha, hn, hq]
    refine ⟨id, fun p' h => ?_⟩
    simp only [writable, Bool.or_eq_true, decide_eq_true_eq, List.length_drop] at h ⊢
    rcases h with h | h
    · exact Or.inl h
    · exact Or.inr (by omega)

theorem mono_kSend (p : Params) (v : View) (data : Bytes) (n : Nat) : MonoS v (kSend p v data n).2 := by
  unfold kSend
  split
  · exact mono_refl v
  · split
    · exact mono_refl v
    · split
      · exact ⟨id, fun p' h => by simpa [writable] using h⟩
      · refine ⟨fun h => ?_, fun p' h => by simpa [writable] using h⟩
        simp only [readable, Bool.or_eq_true, Bool.not_eq_true', List.isEmpty_eq_false_iff] at h ⊢
        rcases h with (h | h) | h
        · exact Or.inl (Or.inl (by simp [h]))
        · exact Or.inl (Or.inr h)
        · exact Or.inr h

theorem mono_kShutWr (v : View) : MonoS v (kShutWr v) :=
  ⟨fun _ => by simp [kShutWr, readable], fun _ h => h⟩

theorem mono_finishW (v : View) : MonoS v (finishW v).2 := by
  unfold finishW
  split
  · exact mono_refl v
  · split
    · dsimp only
      have hk := mono_trans _ _ _ (mono_conn v { v.c with writeDisconnected := true }) (mono_kShutWr _)
      split
      · exact mono_trans _ _ _ hk (mono_conn _ _)
      · exact hk
    · exact mono_refl v

theorem mono_afterSend (v : View) (off : Bytes) (l : Nat) : MonoS v (afterSend0 v off l).2 := by
  rw [afterSend_eq]
  split
  · exact mono_trans _ _ _ (mono_conn v _) (mono_finishW _)
  · exact mono_conn v _

theorem mono_doWrite (p : Params) (v : View) (n : Nat) : MonoS v (doWrite0 p v n).2 := by
  unfold doWrite0
  split
  · exact mono_refl v
  · dsimp only
    have hk := mono_kSend p { v with c := mergeBuf p v.c } (offered p (mergeBuf p v.c)) n
    generalize kSend p { v with c := mergeBuf p v.c } (offered p (mergeBuf p v.c)) n = r at hk
    obtain ⟨r, v'⟩ := r
    have hv' : MonoS v v' := mono_trans _ _ _ (mono_conn v _) hk
    cases r with
    | none => exact hv'
    | some l => exact mono_trans _ _ _ hv' (mono_afterSend v' _ l)

theorem mono_io (p : Params) (v : View) (i o h : Bool) (nr nw : Nat) : MonoS v (io0 p v i o h nr nw) :=
  io0_preserves (MonoS v) p (fun v' n h => mono_trans _ _ _ h (mono_doRead p v' n))
    (fun v' n h => mono_trans _ _ _ h (mono_doWrite p v' n))
    (fun v' w r h => mono_trans _ _ _ h (mono_disconnectSelectable v' w r)) v i o h nr nw (mono_refl v)

/-- the other endpoint (`o` on the sockets `pk`, `k`) stays enabled -/
theorem mono_enIO (p : Params) (o : Conn) (v v' : View) (h : MonoS v v')
    (he : enIO p ⟨o, v.pk, v.k⟩ = true) : enIO p ⟨o, v'.pk, v'.k⟩ = true := by
  simp only [enIO, Bool.or_eq_true, Bool.and_eq_true] at he ⊢
  rcases he with ⟨h1, h2⟩ | ⟨h1, h2⟩
  · exact Or.inl ⟨h1, h.1 h2⟩
  · exact Or.inr ⟨h1, h.2 p h2⟩

/-! ### the measure -/

/-- bytes the protocol will still write when it is told readConnectionLost -/
def rbound (c : Conn) : Nat := if c.halfCloseable then (replyBytes c.onReadLost).length else 0

def wt (c : Conn) (k : Sock) : Nat :=
  2 * (pending c).length + k.inq.length + (if c.writing then 1 else 0) +
    (if c.reading then 3 + 2 * rbound c else 0) + (if c.abortCall then 1 else 0)

def mu (s : Sys) : Nat := wt s.a s.ka + wt s.b s.kb

/-- the measure seen from one endpoint's view (`o` = the other transport) -/
def muV (o : Conn) (v : View) : Nat := wt v.c v.k + wt o v.pk

/-- `v'` is what a readiness report made of `v`: the measure does not grow, and it shrinks if the report was a
    fair one and the endpoint had something to do -/
def Dec (p : Params) (o : Conn) (v v' : View) (i ou : Bool) (nr nw : Nat) : Prop :=
  muV o v' ≤ muV o v ∧
  (i = true → ou = true → 0 < nr → 0 < nw → enIO p v = true → muV o v' < muV o v)

theorem dec_refl_idle (p : Params) (o : Conn) (v : View) (i ou : Bool) (nr nw : Nat)
    (hr : v.c.reading = false) (hw : v.c.writing = false) : Dec p o v v i ou nr nw :=
  ⟨Nat.le_refl _, fun _ _ _ _ he => by simp [enIO, hr, hw] at he⟩

theorem dec_of_lt (p : Params) (o : Conn) (v v' : View) (i ou : Bool) (nr nw : Nat)
    (h : muV o v' < muV o v) : Dec p o v v' i ou nr nw := ⟨Nat.le_of_lt h, fun _ _ _ _ _ => h⟩

theorem L1_ioA_mu (wd : Bool) (p : Params) (hp : 0 < p.sendLimit) (v : View) (b : Conn) (i o h : Bool) (nr nw : Nat)
    (hs : L1 wd v.c b v.k v.pk) : Dec p b v (io0 p v i o h nr nw) i o nr nw := by
  have H := hs
  simp only [L1, ClosingC, OpenC, SockOk] at H
  obtain ⟨ie, oe, h1, h2, -, ho, e⟩ := io_rtw p v i o h nr nw (by simp [hupCond, H]) (by simp [H])
  rw [e]
  have : ie = false := by cases ie; rfl; simp [H] at h1
  subst this
  cases oe
  · rw [rtw_ff]
    exact ⟨Nat.le_refl _, fun _ ho' _ _ _ => by simp [H] at ho; exact absurd ho' (by simp [ho])⟩
  · rw [rtw_ft]
    obtain ⟨d, hd⟩ := doWrite_clean p v nw (by simp [H]) (by simp [H]) (by simp [H]) (by simp [H]) hp
    rcases hd with ⟨db, off, tmp, hpe, hne, e⟩ | ⟨hpe, e⟩
    · rw [e]
      have hlen := congrArg List.length hpe
      refine ⟨?_, ?_⟩
      · simp only [muV, wt, rbound, pending, List.length_append, List.length_drop] at hlen ⊢
        simp [H]
        omega
      · intro _ _ _ hnw hen
        have hsp : v.pk.inq.length < p.cap := by simpa [enIO, writable, H] using hen
        have hd0 : 0 < d.length := List.length_pos_iff.mpr (hne hnw hsp)
        simp only [muV, wt, rbound, pending, List.length_append, List.length_drop] at hlen ⊢
        simp [H]
        omega
    · rw [e]
      have hlen := congrArg List.length hpe
      apply dec_of_lt
      simp only [finishW, disconnectSelectable, connLost, kClose, muV, wt, rbound, pending, List.length_append,
        List.length_drop] at hlen ⊢
      simp [H]
      omega

/-- reading `m > 0` bytes off a non-empty queue shrinks the measure -/
theorem dec_data (p : Params) (hrm : 0 < p.recvMax) (o : Conn) (v : View) (n : Nat) (hn : n ≠ 0) (hq : v.k.inq ≠ [])
    (i ou : Bool) (nr nw : Nat) :
    Dec p o v { v with c := { v.c with received := v.c.received ++ v.k.inq.take (min n p.recvMax) },
                       k := { v.k with inq := v.k.inq.drop (min n p.recvMax) } } i ou nr nw := by
  apply dec_of_lt
  have : 0 < v.k.inq.length := List.length_pos_iff.mpr hq
  simp only [muV, wt, rbound, pending, List.length_drop]
  omega

theorem peer_reads_mu (wd : Bool) (p : Params) (hrm : 0 < p.recvMax) (o : Conn) (v : View) (i ou h : Bool)
    (nr nw : Nat) (ho : OpenC v.c wd) (hk : SockOk v.k false wd) (hw : v.c.writing = false) :
    Dec p o v (io0 p v i ou h nr nw) i ou nr nw := by
  simp only [OpenC, SockOk] at ho hk
  by_cases hr : v.c.reading = true
  · obtain ⟨ie, oe, h1, h2, hi, -, e⟩ := io_rtw p v i ou h nr nw (by simp [hupCond, hk]) (by simp [ho])
    rw [e]
    have : oe = false := by cases oe; rfl; simp [hw] at h2
    subst this
    cases ie
    · rw [rtw_ff]
      exact ⟨Nat.le_refl _, fun hi' _ _ _ _ => by simp [hi' , hr] at hi⟩
    · rw [rtw_t]
      rcases doRead_cases p v nr (by simp [ho]) with ⟨hc, e⟩ | ⟨hn, hq, e⟩ | ⟨-, -, hr, -⟩ | ⟨-, -, -, hf, -⟩
      · rw [e]; simp only [rtw_ff]
        refine ⟨Nat.le_refl _, fun _ _ hnr _ hen => ?_⟩
        rcases hc with hc | hc
        · omega
        · simp [enIO, readable, hw, hc] at hen
      · rw [e]; simp only [rtw_ff]; exact dec_data p hrm o v nr hn hq i ou nr nw
      · simp [hk] at hr
      · simp [hk] at hf
  · rw [io_idle p v i ou h nr nw (by simpa using hr) hw]
    exact dec_refl_idle p o v i ou nr nw (by simpa using hr) hw

theorem rbound_lose (c : Conn) (h : c.halfCloseable = true → c.onReadLost = [.lose]) : rbound c = 0 := by
  unfold rbound
  split
  · rename_i hh; rw [h hh]; rfl
  · rfl

theorem L2_ioB_mu (wd : Bool) (p : Params) (hrm : 0 < p.recvMax) (v : View) (a : Conn) (i o h : Bool) (nr nw : Nat)
    (hs : L2 wd a v.c v.pk v.k) : Dec p a v (io0 p v i o h nr nw) i o nr nw := by
  have H := hs
  simp only [L2, DeadC, OpenC, SockOk, SockClosed] at H
  obtain ⟨ie, oe, h1, h2, hi, -, e⟩ := io_rtw p v i o h nr nw (by simp [H]) (by simp [H])
  rw [e]
  have : oe = false := by cases oe; rfl; simp [H] at h2
  subst this
  cases ie
  · rw [rtw_ff]
    exact ⟨Nat.le_refl _, fun hi' _ _ _ _ => by simp [hi', H] at hi⟩
  · rw [rtw_t]
    rcases doRead_cases p v nr (by simp [H]) with ⟨hc, e⟩ | ⟨hn, hq, e⟩ | ⟨-, -, hr, -⟩ | ⟨-, hq, -, -, e⟩
    · rw [e]; simp only [rtw_ff]
      refine ⟨Nat.le_refl _, fun _ _ hnr _ _ => ?_⟩
      rcases hc with hc | hc
      · omega
      · simp [H] at hc
    · rw [e]; simp only [rtw_ff]; exact dec_data p hrm a v nr hn hq i o nr nw
    · simp [H] at hr
    · rw [e]
      apply dec_of_lt
      by_cases hh : v.c.halfCloseable = true
      · have hl := H.1 hh
        cases wd
        · simp only [disconnectSelectable, readConnLost, hh, hl, appOps_one, appOp, connLost, kClose, muV, wt, rbound, pending]
          simp [H, hq] <;> omega
        · simp only [disconnectSelectable, readConnLost, hh, hl, appOps_one, appOp, connLost, kClose, muV, wt, rbound, pending]
          simp [H, hq] <;> omega
      · simp only [disconnectSelectable, readConnLost, hh, connLost, kClose, muV, wt, rbound, pending]
        simp [H, hq] <;> omega

theorem L3_ioB_mu (p : Params) (hp : 0 < p.sendLimit) (v : View) (a : Conn) (i o h : Bool) (nr nw : Nat)
    (hs : L3 a v.c v.pk v.k) : Dec p a v (io0 p v i o h nr nw) i o nr nw := by
  have H := hs
  simp only [L3, DeadC, ClosingC, SockOk, SockClosed] at H
  obtain ⟨ie, oe, h1, h2, -, ho, e⟩ := io_rtw p v i o h nr nw (by simp [hupCond, H]) (by simp [H])
  rw [e]
  have : ie = false := by cases ie; rfl; simp [H] at h1
  subst this
  cases oe
  · rw [rtw_ff]
    exact ⟨Nat.le_refl _, fun _ ho' _ _ _ => by simp [ho', H] at ho⟩
  · rw [rtw_ft, doWrite_empty p v nw (by simp [H]) (by simp [H]) (by simp [H]) hp (by simp [H])]
    apply dec_of_lt
    simp only [finishW, disconnectSelectable, connLost, kClose, muV, wt, rbound, pending]
    simp [H]

theorem lose_ioA_mu (wd : Bool) (p : Params) (hp : 0 < p.sendLimit) (v : View) (b : Conn) (i o h : Bool) (nr nw : Nat)
    (hs : LoseA wd b v) : Dec p b v (io0 p v i o h nr nw) i o nr nw := by
  rcases hs with hs | hs | ⟨rfl, hs⟩ | hs
  · exact L1_ioA_mu wd p hp v b i o h nr nw hs
  · rw [io_idle p v i o h nr nw hs.2.1.2.2.2.2.1 hs.2.1.2.2.2.2.2.1]
    exact dec_refl_idle p b v i o nr nw hs.2.1.2.2.2.2.1 hs.2.1.2.2.2.2.2.1
  · rw [io_idle p v i o h nr nw hs.1.2.2.2.2.1 hs.1.2.2.2.2.2.1]
    exact dec_refl_idle p b v i o nr nw hs.1.2.2.2.2.1 hs.1.2.2.2.2.2.1
  · rw [io_idle p v i o h nr nw hs.1.2.2.2.2.1 hs.1.2.2.2.2.2.1]
    exact dec_refl_idle p b v i o nr nw hs.1.2.2.2.2.1 hs.1.2.2.2.2.2.1

theorem lose_ioB_mu (wd : Bool) (p : Params) (hp : 0 < p.sendLimit) (hrm : 0 < p.recvMax) (v : View) (a : Conn)
    (i o h : Bool) (nr nw : Nat) (hs : LoseB wd a v) : Dec p a v (io0 p v i o h nr nw) i o nr nw := by
  rcases hs with hs | hs | ⟨rfl, hs⟩ | hs
  · have H := hs
    simp only [L1] at H
    exact peer_reads_mu wd p hrm a v i o h nr nw H.2.2.1 H.2.2.2.2.1
      H.2.2.2.2.2.2.2.1
  · exact L2_ioB_mu wd p hrm v a i o h nr nw hs
  · exact L3_ioB_mu p hp v a i o h nr nw hs
  · rw [io_idle p v i o h nr nw hs.2.1.2.2.2.2.1 hs.2.1.2.2.2.2.2.1]
    exact dec_refl_idle p a v i o nr nw hs.2.1.2.2.2.2.1 hs.2.1.2.2.2.2.2.1

theorem replyBytes_reply (rs : List AppOp) : replyBytes (rs ++ [.lose]) = replyBytes rs := by
  simp [replyBytes, opBytes]

theorem H1_ioA_mu (p : Params) (hp : 0 < p.sendLimit) (v : View) (b : Conn) (i o h : Bool) (nr nw : Nat)
    (hs : H1 v.c b v.k v.pk) : Dec p b v (io0 p v i o h nr nw) i o nr nw := by
  have H := hs
  simp only [H1, HalfC, OpenC, SockOk] at H
  obtain ⟨hc1, hc2, H⟩ := H
  obtain ⟨ie, oe, h1, h2, -, ho, e⟩ := io_rtw p v i o h nr nw (by simp [hupCond, H]) (by simp [H])
  rw [e]
  have hrd : ∀ n, doRead0 p v n = (none, v) := by
    intro n
    rcases doRead_cases p v n (by simp [H]) with ⟨-, e⟩ | ⟨-, hq, -⟩ | ⟨-, -, hr, -⟩ | ⟨-, -, -, hf, -⟩
    · exact e
    · simp [H] at hq
    · simp [H] at hr
    · simp [H] at hf
  have hw : readThenWrite0 p v false oe nr nw = readThenWrite0 p v ie oe nr nw := by
    cases ie
    · rfl
    · rw [rtw_t, hrd]
  rw [← hw]
  cases oe
  · rw [rtw_ff]
    exact ⟨Nat.le_refl _, fun _ ho' _ _ _ => by simp [ho', H] at ho⟩
  · rw [rtw_ft]
    obtain ⟨d, hd⟩ := doWrite_clean p v nw (by simp [H]) (by simp [H]) (by simp [H]) (by simp [H]) hp
    rcases hd with ⟨db, off, tmp, hpe, hne, e⟩ | ⟨hpe, e⟩
    · rw [e]
      have hlen := congrArg List.length hpe
      refine ⟨?_, ?_⟩
      · simp only [muV, wt, rbound, pending, List.length_append, List.length_drop] at hlen ⊢
        simp [H]
        omega
      · intro _ _ _ hnw hen
        have hsp : v.pk.inq.length < p.cap := by simpa [enIO, writable, readable, H] using hen
        have hd0 : 0 < d.length := List.length_pos_iff.mpr (hne hnw hsp)
        simp only [muV, wt, rbound, pending, List.length_append, List.length_drop] at hlen ⊢
        simp [H]
        omega
    · rw [e]
      have hlen := congrArg List.length hpe
      apply dec_of_lt
      by_cases hh : v.c.halfCloseable = true
      · simp only [finishW, kShutWr, muV, wt, rbound, pending, List.length_append, List.length_drop] at hlen ⊢
        simp [H, hh]
        omega
      · simp only [finishW, kShutWr, muV, wt, rbound, pending, List.length_append, List.length_drop] at hlen ⊢
        simp [H, hh]
        omega

theorem H2_ioA_mu (p : Params) (v : View) (b : Conn) (i o h : Bool) (nr nw : Nat)
    (hs : H2 v.c b v.k v.pk) : Dec p b v (io0 p v i o h nr nw) i o nr nw := by
  have H := hs
  simp only [H2, OpenC, SockOk] at H
  obtain ⟨hc1, hc2, H⟩ := H
  obtain ⟨ie, oe, h1, h2, -, -, e⟩ := io_rtw p v i o h nr nw (by simp [hupCond, H]) (by simp [H])
  rw [e]
  have : oe = false := by cases oe; rfl; simp [H] at h2
  subst this
  have hne : enIO p v = false := by simp [enIO, readable, H]
  cases ie
  · rw [rtw_ff]; exact ⟨Nat.le_refl _, fun _ _ _ _ he => by simp [hne] at he⟩
  · rw [rtw_t]
    rcases doRead_cases p v nr (by simp [H]) with ⟨-, e⟩ | ⟨-, hq, -⟩ | ⟨-, -, hr, -⟩ | ⟨-, -, -, hf, -⟩
    · rw [e]; simp only [rtw_ff]; exact ⟨Nat.le_refl _, fun _ _ _ _ he => by simp [hne] at he⟩
    · simp [H] at hq
    · simp [H] at hr
    · simp [H] at hf

theorem H2_ioB_mu (p : Params) (hrm : 0 < p.recvMax) (v : View) (a : Conn) (i o h : Bool) (nr nw : Nat)
    (hs : H2 a v.c v.pk v.k) : Dec p a v (io0 p v i o h nr nw) i o nr nw := by
  have H := hs
  simp only [H2, OpenC, SockOk] at H
  obtain ⟨hc1, hc2, H⟩ := H
  obtain ⟨ie, oe, h1, h2, hi, -, e⟩ := io_rtw p v i o h nr nw (by simp [hupCond, H]) (by simp [H])
  rw [e]
  have : oe = false := by cases oe; rfl; simp [H] at h2
  subst this
  cases ie
  · rw [rtw_ff]
    exact ⟨Nat.le_refl _, fun hi' _ _ _ _ => by simp [hi', H] at hi⟩
  · rw [rtw_t]
    rcases doRead_cases p v nr (by simp [H]) with ⟨hc, e⟩ | ⟨hn, hq, e⟩ | ⟨-, -, hr, -⟩ | ⟨-, hq, -, -, e⟩
    · rw [e]; simp only [rtw_ff]
      refine ⟨Nat.le_refl _, fun _ _ hnr _ _ => ?_⟩
      rcases hc with hc | hc
      · omega
      · simp [H] at hc
    · rw [e]; simp only [rtw_ff]; exact dec_data p hrm a v nr hn hq i o nr nw
    · simp [H] at hr
    · rw [e]
      apply dec_of_lt
      by_cases hh : v.c.halfCloseable = true
      · obtain ⟨rs, hrs, hl⟩ := hc1 hh
        simp only [disconnectSelectable, readConnLost, hh, hl, if_true, beq_self_eq_true, Bool.and_self]
        rw [appOps_reply rs hrs _ (by simp [H]) (by simp [H]) (by simp [H])]
        have hpb : v.c.temp = [] := by
          have := H.2.2.2.2.2.2.2.2.2.2.1
          simp only [pending, List.append_eq_nil_iff] at this
          exact this.2
        have hpd : v.c.dataBuffer.length - v.c.offset = 0 := by
          have := H.2.2.2.2.2.2.2.2.2.2.1
          simp only [pending, List.append_eq_nil_iff] at this
          simpa using congrArg List.length this.1
        simp only [muV, wt, rbound, pending, addBytes, List.length_append, List.length_drop, hh, hl, replyBytes_reply,
          if_true, hpb, hpd]
        simp [H, hq]
        omega
      · simp only [disconnectSelectable, readConnLost, hh, connLost, kClose, muV, wt, rbound, pending]
        simp [H, hq] <;> omega

theorem half_ioA_mu (p : Params) (hp : 0 < p.sendLimit) (hrm : 0 < p.recvMax) (v : View) (b : Conn)
    (i o h : Bool) (nr nw : Nat) (hs : HalfInv v.c b v.k v.pk) : Dec p b v (io0 p v i o h nr nw) i o nr nw := by
  rcases hs with hs | hs | hs
  · exact H1_ioA_mu p hp v b i o h nr nw hs
  · exact H2_ioA_mu p v b i o h nr nw hs
  · exact lose_ioB_mu true p hp hrm v b i o h nr nw hs

theorem half_ioB_mu (p : Params) (hp : 0 < p.sendLimit) (hrm : 0 < p.recvMax) (v : View) (a : Conn)
    (i o h : Bool) (nr nw : Nat) (hs : HalfInv a v.c v.pk v.k) : Dec p a v (io0 p v i o h nr nw) i o nr nw := by
  rcases hs with hs | hs | hs
  · have H := hs
    simp only [H1] at H
    exact peer_reads_mu false p hrm a v i o h nr nw H.2.2.2.1 H.2.2.2.2.2.1 H.2.2.2.2.2.2.2.2.2.2.1
  · exact H2_ioB_mu p hrm v a i o h nr nw hs
  · exact lose_ioA_mu true p hp v a i o h nr nw hs

theorem abort_ioB_mu (p : Params) (hrm : 0 < p.recvMax) (v : View) (a : Conn) (i o h : Bool) (nr nw : Nat)
    (hs : AbortInv a v.c v.pk v.k) : Dec p a v (io0 p v i o h nr nw) i o nr nw := by
  rcases hs with hs | hs | hs
  · have H := hs
    simp only [X1] at H
    exact peer_reads_mu false p hrm a v i o h nr nw H.2.1 H.2.2.2.1 H.2.2.2.2.2.2
  · have H := hs
    simp only [X2, DeadC, OpenC, SockRst] at H
    obtain ⟨ie, oe, h1, h2, hi, -, e⟩ := io_rtw p v i o h nr nw (by simp [H]) (by simp [H])
    rw [e]
    have : oe = false := by cases oe; rfl; simp [H] at h2
    subst this
    cases ie
    · rw [rtw_ff]
      exact ⟨Nat.le_refl _, fun hi' _ _ _ _ => by simp [hi', H] at hi⟩
    · rw [rtw_t]
      rcases doRead_cases p v nr (by simp [H]) with ⟨hc, e⟩ | ⟨hn, hq, e⟩ | ⟨-, hq, -, e⟩ | ⟨-, -, hr, -⟩
      · rw [e]; simp only [rtw_ff]
        refine ⟨Nat.le_refl _, fun _ _ hnr _ _ => ?_⟩
        rcases hc with hc | hc
        · omega
        · simp [H] at hc
      · rw [e]; simp only [rtw_ff]; exact dec_data p hrm a v nr hn hq i o nr nw
      · rw [e]
        apply dec_of_lt
        simp only [disconnectSelectable, connLost, kClose, muV, wt, rbound, pending]
        simp [H, hq] <;> omega
      · simp [H] at hr
  · have H := hs
    simp only [X3, DeadC] at H
    rw [io_idle p v i o h nr nw (by simp [H]) (by simp [H])]
    exact dec_refl_idle p a v i o nr nw (by simp [H]) (by simp [H])

theorem abort_timerA_mu (v : View) (b : Conn) (hs : AbortInv v.c b v.k v.pk) :
    muV b (timer v) ≤ muV b v ∧ (v.c.abortCall = true → muV b (timer v) < muV b v) := by
  by_cases hc : v.c.abortCall = true
  · have : muV b (timer v) < muV b v := by
      rcases hs with hs | hs | hs
      · have H := hs
        simp only [X1, AbortingC, OpenC, SockOk] at H
        simp only [timer, connLost, kClose, muV, wt, rbound, pending]
        simp [H]
      · simp only [X2, DeadC] at hs; simp [hs] at hc
      · simp only [X3, DeadC] at hs; simp [hs] at hc
    exact ⟨Nat.le_of_lt this, fun _ => this⟩
  · rw [timer_idle v (by simpa using hc)]
    exact ⟨Nat.le_refl _, fun h => absurd h hc⟩

end TwistedProps.C15
