import TwistedProps.C15.Half
/-!
C15 lemmas — `accepted` (the bytes taken by write()/writeSequence()) of a transport whose protocol does not write
from readConnectionLost changes only when the application writes.
-/
namespace TwistedProps.C15
open Twisted.Transport.Tcp

/-- `accepted = acc`, and the protocol's readConnectionLost reaction contains no write -/
def AccIs (acc : Bytes) (v : View) : Prop :=
  v.c.accepted = acc ∧ (v.c.halfCloseable = true → ∀ op ∈ v.c.onReadLost, AppOp.isWrite op = false)

theorem acc_conn (acc : Bytes) (v : View) (c : Conn) (h1 : c.accepted = v.c.accepted)
    (h2 : c.halfCloseable = v.c.halfCloseable) (h3 : c.onReadLost = v.c.onReadLost) (h : AccIs acc v) :
    AccIs acc { v with c := c } := by
  refine ⟨h1.trans h.1, ?_⟩
  show c.halfCloseable = true → ∀ op ∈ c.onReadLost, _
  rw [h2, h3]; exact h.2

theorem acc_connLost (acc : Bytes) (v : View) (r : Reason) (h : AccIs acc v) : AccIs acc (connLost v r) := by
  unfold connLost; split
  · exact h
  · exact h

theorem acc_appOp (acc : Bytes) (v : View) (op : AppOp) (hop : AppOp.isWrite op = false) (h : AccIs acc v) :
    AccIs acc (appOp v op) := by
  cases op with
  | write d => simp [AppOp.isWrite] at hop
  | writeSeq ds => simp [AppOp.isWrite] at hop
  | lose =>
    simp only [appOp]; split
    · split
      · exact acc_connLost acc _ _ (acc_conn acc v _ rfl rfl rfl h)
      · exact acc_conn acc v _ rfl rfl rfl h
    · exact h
  | loseWrite => exact acc_conn acc v _ rfl rfl rfl h
  | abort => simp only [appOp]; split; exact h; exact acc_conn acc v _ rfl rfl rfl h
  | pause => exact acc_conn acc v _ rfl rfl rfl h
  | resume => simp only [appOp]; split; exact acc_conn acc v _ rfl rfl rfl h; exact h

theorem acc_appOps (acc : Bytes) (ops : List AppOp) (hops : ∀ op ∈ ops, AppOp.isWrite op = false) (v : View)
    (h : AccIs acc v) : AccIs acc (appOps v ops) := by
  induction ops generalizing v with
  | nil => exact h
  | cons op ops ih =>
    exact ih (fun o ho => hops o (by simp [ho])) _ (acc_appOp acc v op (hops op (by simp)) h)

theorem acc_timer (acc : Bytes) (v : View) (h : AccIs acc v) : AccIs acc (timer v) := by
  unfold timer; split
  · exact acc_connLost acc _ _ (acc_conn acc v _ rfl rfl rfl h)
  · exact h

theorem acc_disconnectSelectable (acc : Bytes) (v : View) (w : Reason) (r : Bool) (h : AccIs acc v) :
    AccIs acc (disconnectSelectable v w r) := by
  unfold disconnectSelectable
  dsimp only
  have h' := acc_conn acc v { v.c with reading := false } rfl rfl rfl h
  split
  · unfold readConnLost
    split
    · rename_i hh
      exact acc_appOps acc _ (h.2 hh) _ (acc_conn acc _ _ rfl rfl rfl h')
    · exact acc_connLost acc _ _ h'
  · exact acc_connLost acc _ _ (acc_conn acc _ _ rfl rfl rfl h')

theorem acc_doRead (acc : Bytes) (p : Params) (v : View) (n : Nat) (h : AccIs acc v) :
    AccIs acc (doRead0 p v n).2 := by
  by_cases ha : v.c.aborting = true
  · simp [doRead0, ha]; exact h
  by_cases hn : n = 0
  · simp [doRead0, kRecv, ha, hn]; exact h
  by_cases hq : v.k.inq.isEmpty = true
  · by_cases hr : v.k.inRst = true
    · simp [doRead0, kRecv, ha, hn, hq, hr]; exact h
    · by_cases hf : v.k.inFin = true
      · simp [doRead0, kRecv, ha, hn, hq, hr, hf]; exact h
      · simp [doRead0, kRecv, ha, hn, hq, hr, hf]; exact h
  · simp [doRead0, kRecv, ha, hn, hq]; exact h

theorem acc_doWrite (acc : Bytes) (p : Params) (v : View) (n : Nat) (h : AccIs acc v) :
    AccIs acc (doWrite0 p v n).2 := by
  have hm : AccIs acc { v with c := mergeBuf p v.c } := by
    unfold mergeBuf; split
    · exact acc_conn acc v _ rfl rfl rfl h
    · exact h
  unfold doWrite0
  split
  · exact h
  · dsimp only
    have hk := kSend_c p { v with c := mergeBuf p v.c } (offered p (mergeBuf p v.c)) n
    generalize kSend p { v with c := mergeBuf p v.c } (offered p (mergeBuf p v.c)) n = r at hk
    obtain ⟨r, v'⟩ := r
    have hv' : AccIs acc v' := by
      simp only at hk
      unfold AccIs
      rw [hk]; exact hm
    cases r with
    | none => exact hv'
    | some l =>
      show AccIs acc (afterSend0 v' _ l).2
      rw [afterSend_eq]
      split
      · unfold finishW
        dsimp only
        split
        · exact acc_conn acc v' _ rfl rfl rfl hv'
        · split
          · split
            · exact acc_conn acc v' _ rfl rfl rfl hv'
            · exact acc_conn acc v' _ rfl rfl rfl hv'
          · exact acc_conn acc v' _ rfl rfl rfl hv'
      · exact acc_conn acc v' _ rfl rfl rfl hv'

theorem acc_io (acc : Bytes) (p : Params) (v : View) (i o h : Bool) (nr nw : Nat) (hv : AccIs acc v) :
    AccIs acc (io0 p v i o h nr nw) :=
  io0_preserves (AccIs acc) p (fun v n => acc_doRead acc p v n) (fun v n => acc_doWrite acc p v n)
    (fun v w r => acc_disconnectSelectable acc v w r) v i o h nr nw hv

end TwistedProps.C15
