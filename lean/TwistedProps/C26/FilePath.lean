import TwistedProps.C26.Lex
namespace TwistedProps.C26
open Twisted.Fs.Path

/-! Lemmas for C26 at the FilePath level: join of a normalised path with a name, `child`. -/

/-- `p` is `init` slashes followed by the clean components `comps` joined by `/` -/
def Struct (p : Bytes) (init : Nat) (comps : List Bytes) : Prop :=
  (init = 1 ∨ init = 2) ∧ Clean comps ∧ p = render init comps

theorem abspath_abs (cwd p : Bytes) (h : p.head? = some slash) : abspath cwd p = normpath p := by
  simp [abspath, h]

theorem mk_render (cwd : Bytes) (init : Nat) (hi : init = 1 ∨ init = 2) (comps : List Bytes)
    (h : Clean comps) : mk cwd (render init comps) = render init comps := by
  unfold mk
  rw [abspath_abs _ _ (render_head init hi comps), normpath_render init hi comps h]

theorem joinSlash_getLast (comps : List Bytes) (h : Clean comps) (hne : comps ≠ []) :
    (joinSlash comps).getLast? ≠ some slash := by
  obtain ⟨xs, c, rfl⟩ : ∃ xs c, comps = xs ++ [c] :=
    ⟨comps.dropLast, comps.getLast hne, (List.dropLast_concat_getLast hne).symm⟩
  have hc := h c (by simp)
  have hcl : c.getLast? ≠ some slash := by
    intro e
    exact hc.2.1 (List.mem_of_getLast? e)
  by_cases hx : xs = []
  · subst hx; simpa [joinSlash] using hcl
  · rw [joinSlash_snoc xs c hx]
    have : (joinSlash xs ++ slash :: c).getLast? = c.getLast? := by
      cases c with
      | nil => exact absurd rfl hc.1
      | cons y ys =>
        rw [show joinSlash xs ++ slash :: y :: ys = (joinSlash xs ++ [slash]) ++ (y :: ys) by simp]
        rw [List.getLast?_append]
        cases hl : (y :: ys).getLast? with
        | none => simp at hl
        | some z => simp
    rw [this]; exact hcl

theorem joinPath_render (init : Nat) (hi : init = 1 ∨ init = 2) (comps : List Bytes) (h : Clean comps)
    (t : Bytes) (ht : t.head? ≠ some slash) :
    joinPath (render init comps) t =
      List.replicate init slash ++ (if comps = [] then t else joinSlash comps ++ slash :: t) := by
  unfold joinPath
  rw [if_neg ht]
  by_cases hne : comps = []
  · subst hne
    have : (render init []).getLast? = some slash := by
      rcases hi with rfl | rfl <;> simp [render, joinSlash, List.replicate]
    rw [if_pos (Or.inr this)]
    simp [render, joinSlash]
  · have h1 : render init comps ≠ [] := render_ne_nil init hi comps
    have h2 : (render init comps).getLast? ≠ some slash := by
      unfold render
      rw [List.getLast?_append]
      have := joinSlash_getLast comps h hne
      cases hj : (joinSlash comps).getLast? with
      | none =>
        have : joinSlash comps = [] := by simpa using hj
        exfalso
        cases comps with
        | nil => exact hne rfl
        | cons c cs =>
          have hc := h c (by simp)
          cases cs with
          | nil => simp [joinSlash] at this; exact hc.1 this
          | cons d ds => rw [joinSlash_cons2] at this; simp at this
      | some x => rw [hj] at this; simpa using this
    have : ¬ (render init comps = [] ∨ (render init comps).getLast? = some slash) := by
      intro hh; rcases hh with hh | hh
      · exact h1 hh
      · exact h2 hh
    rw [if_neg this]
    simp [render, hne]

/-- (E) normalising a clean absolute path joined with a relative tail continues the loop
    from `new_comps = comps` over the pieces of the tail -/
theorem normpath_join_render (init : Nat) (hi : init = 1 ∨ init = 2) (comps : List Bytes)
    (h : Clean comps) (t : Bytes) (ht : t.head? ≠ some slash) :
    normpath (joinPath (render init comps) t) =
      render init ((splitSlash t).foldl (normStep init) comps) := by
  rw [joinPath_render init hi comps h t ht]
  by_cases hne : comps = []
  · subst hne
    simp only [if_true]
    rw [normpath_replicate_body init hi t ht]
  · simp only [hne, if_false]
    have hb : (joinSlash comps ++ slash :: t).head? ≠ some slash := by
      have := joinSlash_head comps h
      cases hj : joinSlash comps with
      | nil =>
        exfalso
        cases comps with
        | nil => exact hne rfl
        | cons c cs =>
          have hc := h c (by simp)
          cases cs with
          | nil => simp [joinSlash] at hj; exact hc.1 hj
          | cons d ds => rw [joinSlash_cons2] at hj; simp at hj
      | cons x xs => rw [hj] at this; simpa using this
    rw [normpath_replicate_body init hi _ hb, splitSlash_append_slash, splitSlash_body comps h hne,
      List.foldl_append, foldl_normStep_clean _ _ _ h]
    simp

theorem joinPath_render_head (init : Nat) (hi : init = 1 ∨ init = 2) (comps : List Bytes) (h : Clean comps)
    (t : Bytes) (ht : t.head? ≠ some slash) : (joinPath (render init comps) t).head? = some slash := by
  rw [joinPath_render init hi comps h t ht]
  rcases hi with rfl | rfl <;> simp [List.replicate]

theorem head_of_noslash (t : Bytes) (h : slash ∉ t) : t.head? ≠ some slash := by
  intro e
  exact h (List.mem_of_head? e)

/-- one slash-free name appended to a clean absolute path: the three outcomes of the loop body -/
theorem normStep_single (init : Nat) (hi : init = 1 ∨ init = 2) (comps : List Bytes) (h : Clean comps)
    (t : Bytes) (ht : slash ∉ t) :
    normStep init comps t = comps ∨ (t = [dot, dot] ∧ normStep init comps t = comps.dropLast) ∨
      (CleanC t ∧ normStep init comps t = comps ++ [t]) := by
  by_cases h1 : t = [] ∨ t = [dot]
  · left; unfold normStep; rw [if_pos h1]
  · by_cases h2 : t = [dot, dot]
    · right; left
      refine ⟨h2, ?_⟩
      unfold normStep
      rw [if_neg h1]
      have hlast : comps.getLast? ≠ some [dot, dot] := by
        intro e
        exact (h _ (List.mem_of_getLast? e)).2.2.2 rfl
      have : ¬ (t ≠ [dot, dot] ∨ (init = 0 ∧ comps = []) ∨ comps.getLast? = some [dot, dot]) := by
        intro hh
        rcases hh with hh | hh | hh
        · exact hh h2
        · omega
        · exact hlast hh
      rw [if_neg this]
    · right; right
      have hc : CleanC t := ⟨fun e => h1 (Or.inl e), ht, fun e => h1 (Or.inr e), h2⟩
      exact ⟨hc, normStep_clean init comps t hc⟩

theorem render_length_snoc (init : Nat) (xs : List Bytes) (c : Bytes) (hc : c ≠ []) :
    (render init xs).length < (render init (xs ++ [c])).length := by
  unfold render
  by_cases hx : xs = []
  · subst hx
    have : 0 < c.length := List.length_pos_iff.mpr hc
    simp [joinSlash] <;> omega
  · rw [joinSlash_snoc xs c hx]; simp <;> omega

theorem render_dropLast_lt (init : Nat) (comps : List Bytes) (h : Clean comps) (hne : comps ≠ []) :
    (render init comps.dropLast).length < (render init comps).length := by
  have e := List.dropLast_concat_getLast hne
  have hc := h (comps.getLast hne) (List.getLast_mem hne)
  have := render_length_snoc init comps.dropLast (comps.getLast hne) hc.1
  rw [e] at this
  exact this

/-- the single-name join, fully evaluated -/
theorem normpath_join_single (init : Nat) (hi : init = 1 ∨ init = 2) (comps : List Bytes)
    (h : Clean comps) (t : Bytes) (ht : slash ∉ t) :
    normpath (joinPath (render init comps) t) = render init (normStep init comps t) := by
  rw [normpath_join_render init hi comps h t (head_of_noslash t ht), splitSlash_noslash t ht]
  simp

theorem normpath_ne_nil (p : Bytes) : normpath p ≠ [] := by
  unfold normpath
  by_cases h : p = []
  · simp [h]
  · simp only [h, if_false]
    by_cases h2 : render (initialSlashes p) (List.foldl (normStep (initialSlashes p)) [] (splitSlash p)) = []
    · simp [h2]
    · simp [h2]

/-- decidable class invariant of `FilePath.path`: absolute and normalised -/
def wf (p : Bytes) : Bool := p.head? == some slash && normpath p == p

/-- normalised absolute path: every segment is a real name -/
def Normal (p : Bytes) : Prop := p.head? = some slash ∧ ∀ s ∈ segs p, s ≠ [] ∧ s ≠ [dot] ∧ s ≠ [dot, dot]

/-- `p` lies in the subtree of `root`: segment-wise prefix (not string prefix) -/
def Inside (root p : Bytes) : Prop := Normal p ∧ segs root <+: segs p

/-- **child**, structurally: the result is the parent itself or the parent plus one clean component -/
theorem child_struct (cwd our name r : Bytes) (init : Nat) (comps : List Bytes)
    (hs : Struct our init comps) (h : child cwd our name = some r) :
    r = our ∨ ∃ s, CleanC s ∧ r = render init (comps ++ [s]) := by
  obtain ⟨hi, hcl, rfl⟩ := hs
  unfold child at h
  simp only at h
  by_cases hsl : slash ∈ normpath name
  · simp [hsl] at h
  · rw [if_neg hsl] at h
    have hhead := joinPath_render_head init hi comps hcl _ (head_of_noslash _ hsl)
    rw [abspath_abs _ _ hhead, normpath_join_single init hi comps hcl _ hsl] at h
    by_cases hst : startsWith (render init (normStep init comps (normpath name))) (render init comps) = true
    · rw [if_pos hst] at h
      simp only [Option.some.injEq] at h
      rcases normStep_single init hi comps hcl (normpath name) hsl with e | ⟨_, e⟩ | ⟨hc, e⟩
      · left; rw [e, mk_render cwd init hi comps hcl] at h; exact h.symm
      · by_cases hne : comps = []
        · left
          rw [e, hne] at h
          simp only [List.dropLast_nil] at h
          rw [mk_render cwd init hi [] (by intro c hc; simp at hc)] at h
          rw [hne]; exact h.symm
        · exfalso
          rw [e] at hst
          unfold startsWith at hst
          have hp := List.isPrefixOf_iff_prefix.mp hst
          have := hp.length_le
          have := render_dropLast_lt init comps hcl hne
          omega
      · right
        refine ⟨normpath name, hc, ?_⟩
        have hcl' : Clean (comps ++ [normpath name]) := by
          apply clean_append _ _ hcl
          intro x hx
          simp only [List.mem_singleton] at hx
          subst hx; exact hc
        rw [e, mk_render cwd init hi _ hcl'] at h
        exact h.symm
    · rw [if_neg hst] at h
      simp at h

theorem wf_struct (p : Bytes) (h : wf p = true) : ∃ init comps, Struct p init comps := by
  unfold wf at h
  simp only [Bool.and_eq_true, beq_iff_eq] at h
  obtain ⟨init, comps, hi, hcl, e⟩ := normpath_abs_struct p h.1
  exact ⟨init, comps, hi, hcl, by rw [← h.2, e]⟩

theorem struct_wf (p : Bytes) (init : Nat) (comps : List Bytes) (h : Struct p init comps) : wf p = true := by
  obtain ⟨hi, hcl, rfl⟩ := h
  unfold wf
  simp [render_head init hi comps, normpath_render init hi comps hcl]

theorem struct_normal (p : Bytes) (init : Nat) (comps : List Bytes) (h : Struct p init comps) :
    Normal p ∧ segs p = comps := by
  obtain ⟨hi, hcl, rfl⟩ := h
  refine ⟨⟨render_head init hi comps, ?_⟩, segs_render init comps hcl⟩
  intro s hs
  rw [segs_render init comps hcl] at hs
  exact ⟨(hcl s hs).1, (hcl s hs).2.2.1, (hcl s hs).2.2.2⟩

theorem mk_struct (cwd p : Bytes) (hcwd : cwd.head? = some slash) : ∃ init comps, Struct (mk cwd p) init comps := by
  unfold mk abspath
  have : (if p.head? = some slash then p else joinPath cwd p).head? = some slash := by
    by_cases h : p.head? = some slash
    · simp [h]
    · simp only [h, if_false]
      unfold joinPath
      rw [if_neg h]
      have hne : cwd ≠ [] := by intro e; simp [e] at hcwd
      by_cases h2 : cwd = [] ∨ cwd.getLast? = some slash
      · rw [if_pos h2]
        cases cwd with
        | nil => exact absurd rfl hne
        | cons x xs => simpa using hcwd
      · rw [if_neg h2]
        cases cwd with
        | nil => exact absurd rfl hne
        | cons x xs => simpa using hcwd
  obtain ⟨init, comps, hi, hcl, e⟩ := normpath_abs_struct _ this
  exact ⟨init, comps, hi, hcl, e⟩

theorem mk_wf (cwd p : Bytes) (hcwd : cwd.head? = some slash) : wf (mk cwd p) = true := by
  obtain ⟨init, comps, h⟩ := mk_struct cwd p hcwd
  exact struct_wf _ init comps h

theorem mk_idem (cwd p : Bytes) (init : Nat) (comps : List Bytes) (h : Struct p init comps) : mk cwd p = p := by
  obtain ⟨hi, hcl, rfl⟩ := h
  exact mk_render cwd init hi comps hcl

/-- **preauthChild** structural core -/
theorem preauthChild_core (cwd our name r : Bytes) (hcwd : cwd.head? = some slash)
    (h : preauthChild cwd our name = some r) :
    (∃ init comps, Struct r init comps) ∧ segs our <+: segs r := by
  unfold preauthChild at h
  simp only at h
  obtain ⟨init, comps, hst⟩ := mk_struct cwd (joinPath our (normpath name)) hcwd
  unfold mk at hst
  by_cases hc : abspath cwd (joinPath our (normpath name)) = our ∨
      startsWith (abspath cwd (joinPath our (normpath name))) (withSep our) = true
  · rw [if_pos hc] at h
    simp only [Option.some.injEq] at h
    rw [mk_idem cwd _ init comps hst] at h
    subst h
    refine ⟨⟨init, comps, hst⟩, ?_⟩
    rcases hc with e | hp
    · rw [e]; exact List.prefix_refl _
    · unfold startsWith at hp
      obtain ⟨rest, hr⟩ := List.isPrefixOf_iff_prefix.mp hp
      rw [← hr]
      unfold withSep
      by_cases hl : our.getLast? = some slash
      · rw [if_pos hl]
        obtain ⟨o', ho⟩ : ∃ o', our = o' ++ [slash] := by
          have hne : our ≠ [] := by intro e; simp [e] at hl
          refine ⟨our.dropLast, ?_⟩
          have := List.dropLast_concat_getLast hne
          rw [List.getLast?_eq_some_getLast hne] at hl
          simp only [Option.some.injEq] at hl
          rw [hl] at this
          exact this.symm
        rw [ho]
        have e1 : o' ++ [slash] ++ rest = o' ++ slash :: rest := by simp
        have e2 : segs (o' ++ [slash]) = segs o' := by
          have := segs_append_slash o' []
          simpa [segs_nil] using this
        rw [e1, e2, segs_append_slash]
        exact List.prefix_append _ _
      · rw [if_neg hl]
        have e1 : our ++ [slash] ++ rest = our ++ slash :: rest := by simp
        rw [e1, segs_append_slash]
        exact List.prefix_append _ _
  · rw [if_neg hc] at h
    simp at h

end TwistedProps.C26
