import TwistedProps.C26.FilePath
namespace TwistedProps.C26
open Twisted.Fs.Path

/-! Lemmas for C26: `static.File.getChild` and `getChildForRequest` keep every located path below the root. -/

/-- joining one configured/listed name (no `/`, not `..`) below a normalised path -/
theorem join_name_struct (cwd our n : Bytes) (init : Nat) (comps : List Bytes) (hs : Struct our init comps)
    (hn : slash ∉ n) (hdd : n ≠ [dot, dot]) :
    ∃ comps', Struct (mk cwd (joinPath our n)) init comps' ∧ (comps' = comps ∨ ∃ s, comps' = comps ++ [s]) := by
  obtain ⟨hi, hcl, rfl⟩ := hs
  have hhead := joinPath_render_head init hi comps hcl n (head_of_noslash n hn)
  unfold mk
  rw [abspath_abs _ _ hhead, normpath_join_single init hi comps hcl n hn]
  rcases normStep_single init hi comps hcl n hn with e | ⟨e, _⟩ | ⟨hc, e⟩
  · exact ⟨comps, ⟨hi, hcl, by rw [e]⟩, Or.inl rfl⟩
  · exact absurd e hdd
  · refine ⟨comps ++ [n], ⟨hi, ?_, by rw [e]⟩, Or.inr ⟨n, rfl⟩⟩
    apply clean_append _ _ hcl
    intro x hx
    simp only [List.mem_singleton] at hx
    subst hx; exact hc

theorem childSearchPreauth_struct (fs : FS) (cwd our : Bytes) (names : List Bytes) (init : Nat)
    (comps : List Bytes) (hs : Struct our init comps)
    (hnames : ∀ n ∈ names, slash ∉ n ∧ n ≠ [dot, dot]) (r : Bytes)
    (h : childSearchPreauth fs cwd our names = some r) :
    ∃ comps', Struct r init comps' ∧ (comps' = comps ∨ ∃ s, comps' = comps ++ [s]) := by
  induction names with
  | nil => simp [childSearchPreauth] at h
  | cons n ns ih =>
    simp only [childSearchPreauth] at h
    by_cases he : fs.exists (normpath (joinPath our n)) = true
    · rw [if_pos he] at h
      simp only [Option.some.injEq] at h
      subst h
      exact join_name_struct cwd our n init comps hs (hnames n (by simp)).1 (hnames n (by simp)).2
    · rw [if_neg he] at h
      exact ih (fun x hx => hnames x (by simp [hx])) h

theorem render_snoc_append (init : Nat) (comps : List Bytes) (s ext : Bytes) :
    render init (comps ++ [s]) ++ ext = render init (comps ++ [s ++ ext]) := by
  unfold render
  by_cases hx : comps = []
  · subst hx; simp [joinSlash]
  · rw [joinSlash_snoc comps s hx, joinSlash_snoc comps (s ++ ext) hx]; simp

theorem cleanC_append (s ext : Bytes) (hs : CleanC s) (he : slash ∉ ext) : CleanC (s ++ ext) := by
  obtain ⟨h1, h2, h3, h4⟩ := hs
  refine ⟨by simp [h1], ?_, ?_, ?_⟩
  · intro hm
    simp only [List.mem_append] at hm
    rcases hm with hm | hm
    · exact h2 hm
    · exact he hm
  · intro e
    cases s with
    | nil => exact h1 rfl
    | cons x xs =>
      cases xs with
      | nil => simp at e; exact h3 (by simp [e.1])
      | cons y ys => simp at e
  · intro e
    cases s with
    | nil => exact h1 rfl
    | cons x xs =>
      cases xs with
      | nil => simp at e; exact h3 (by simp [e.1])
      | cons y ys =>
        cases ys with
        | nil => simp at e; exact h4 (by simp [e.1, e.2.1])
        | cons z zs => simp at e

theorem dropWhile_append_all {α} (p : α → Bool) (l r : List α) (h : ∀ x ∈ l, p x = true) :
    (l ++ r).dropWhile p = r.dropWhile p := by
  induction l with
  | nil => simp
  | cons x xs ih =>
    simp only [List.cons_append, List.dropWhile_cons, h x (by simp), if_true]
    exact ih (fun y hy => h y (by simp [hy]))

theorem takeWhile_append_all {α} (p : α → Bool) (l r : List α) (h : ∀ x ∈ l, p x = true) :
    (l ++ r).takeWhile p = l ++ r.takeWhile p := by
  induction l with
  | nil => simp
  | cons x xs ih =>
    simp only [List.cons_append, List.takeWhile_cons, h x (by simp), if_true]
    rw [ih (fun y hy => h y (by simp [hy]))]

theorem headPart_split (a s : Bytes) (hs : slash ∉ s) : headPart (a ++ slash :: s) = a ++ [slash] := by
  unfold headPart
  have : (a ++ slash :: s).reverse = s.reverse ++ slash :: a.reverse := by simp
  rw [this, dropWhile_append_all]
  · simp
  · intro x hx
    simp only [List.mem_reverse] at hx
    simp only [ne_eq, decide_not, Bool.not_eq_eq_eq_not, Bool.not_true, decide_eq_false_iff_not]
    intro e; exact hs (e ▸ hx)

theorem basename_split (a s : Bytes) (hs : slash ∉ s) : basename (a ++ slash :: s) = s := by
  unfold basename
  have : (a ++ slash :: s).reverse = s.reverse ++ slash :: a.reverse := by simp
  rw [this, takeWhile_append_all]
  · simp
  · intro x hx
    simp only [List.mem_reverse] at hx
    simp only [ne_eq, decide_not, Bool.not_eq_eq_eq_not, Bool.not_true, decide_eq_false_iff_not]
    intro e; exact hs (e ▸ hx)

theorem rstripSlash_snoc (b : Bytes) (hne : b ≠ []) (hl : b.getLast? ≠ some slash) :
    rstripSlash (b ++ [slash]) = b := by
  unfold rstripSlash
  have : (b ++ [slash]).reverse = slash :: b.reverse := by simp
  rw [this]
  simp only [List.dropWhile_cons, decide_true, if_true]
  cases hr : b.reverse with
  | nil => simp at hr; exact absurd hr hne
  | cons x xs =>
    have hx : b.getLast? = some x := by
      rw [List.getLast?_eq_head?_reverse, hr]; simp
    have : x ≠ slash := by intro e; exact hl (by rw [hx, e])
    simp only [List.dropWhile_cons, this, decide_false, Bool.false_eq_true, if_false]
    rw [← hr]; simp

theorem joinSlash_ne_nil (comps : List Bytes) (h : Clean comps) (hne : comps ≠ []) : joinSlash comps ≠ [] := by
  intro hj
  cases comps with
  | nil => exact hne rfl
  | cons c cs =>
    have hc := h c (by simp)
    cases cs with
    | nil => simp [joinSlash] at hj; exact hc.1 hj
    | cons d ds => rw [joinSlash_cons2] at hj; simp at hj

theorem render_getLast (init : Nat) (comps : List Bytes) (h : Clean comps) (hne : comps ≠ []) :
    (render init comps).getLast? ≠ some slash := by
  unfold render
  rw [List.getLast?_append]
  have := joinSlash_getLast comps h hne
  cases hj : (joinSlash comps).getLast? with
  | none =>
    have : joinSlash comps = [] := by simpa using hj
    exact absurd this (joinSlash_ne_nil comps h hne)
  | some x => rw [hj] at this; simpa using this

theorem dirname_basename_child (init : Nat) (hi : init = 1 ∨ init = 2) (comps : List Bytes) (h : Clean comps)
    (s : Bytes) (hs : slash ∉ s) :
    dirname (render init (comps ++ [s])) = render init comps ∧ basename (render init (comps ++ [s])) = s := by
  by_cases hne : comps = []
  · subst hne
    have e : render init ([] ++ [s]) = List.replicate (init - 1) slash ++ slash :: s := by
      rcases hi with rfl | rfl <;> simp [render, joinSlash, List.replicate]
    rw [e]
    refine ⟨?_, basename_split _ s hs⟩
    unfold dirname
    rw [headPart_split _ s hs]
    have hall : (List.replicate (init - 1) slash ++ [slash]).all (· = slash) = true := by
      rcases hi with rfl | rfl <;> simp
    simp only [hall, not_true_eq_false, and_false, if_false]
    rcases hi with rfl | rfl <;> simp [render, joinSlash, List.replicate]
  · have e : render init (comps ++ [s]) = render init comps ++ slash :: s := by
      unfold render; rw [joinSlash_snoc comps s hne]; simp
    rw [e]
    refine ⟨?_, basename_split _ s hs⟩
    unfold dirname
    rw [headPart_split _ s hs]
    have hl := render_getLast init comps h hne
    have hnn := render_ne_nil init hi comps
    have hnall : ¬ (render init comps ++ [slash]).all (· = slash) = true := by
      intro hall
      rw [List.all_eq_true] at hall
      have hm : (render init comps).getLast hnn ∈ render init comps ++ [slash] := by
        simp [List.getLast_mem]
      have := hall _ hm
      simp only [decide_eq_true_eq] at this
      apply hl
      rw [List.getLast?_eq_some_getLast hnn, this]
    have hcond : render init comps ++ [slash] ≠ [] ∧ ¬ (render init comps ++ [slash]).all (· = slash) = true :=
      ⟨by simp, hnall⟩
    rw [if_pos hcond]
    exact rstripSlash_snoc _ hnn hl


/-- `os.listdir` never returns a name containing `/` -/
def fsOK (fs : FS) : Prop := ∀ d ∈ fs.dirs, ∀ e ∈ d.2, slash ∉ e

theorem listdir_noslash (fs : FS) (hfs : fsOK fs) (p fn : Bytes) (h : fn ∈ fs.listdir p) : slash ∉ fn := by
  unfold FS.listdir at h
  cases hf : fs.dirs.find? (·.1 = p) with
  | none => simp [hf] at h
  | some d =>
    rw [hf] at h
    exact hfs d (List.mem_of_find?_eq_some hf) fn h

/-- a directory entry whose name starts with `<clean name>.` is itself a clean component -/
theorem cleanC_of_startsWith (s fn : Bytes) (hs : CleanC s) (hfn : slash ∉ fn)
    (h : startsWith fn (s ++ [dot]) = true) : CleanC fn := by
  unfold startsWith at h
  obtain ⟨rest, hr⟩ := List.isPrefixOf_iff_prefix.mp h
  subst hr
  obtain ⟨h1, h2, h3, h4⟩ := hs
  cases s with
  | nil => exact absurd rfl h1
  | cons x xs =>
    refine ⟨by simp, hfn, by simp, ?_⟩
    intro e
    cases xs with
    | nil => simp at e; exact h3 (by simp [e.1])
    | cons y ys => simp at e

/-- `siblingExtensionSearch` (including the `*` wildcard): same directory, another clean last component -/
theorem siblingExtensionSearch_struct (fs : FS) (cwd : Bytes) (exts : List Bytes) (init : Nat)
    (comps : List Bytes) (s : Bytes) (hi : init = 1 ∨ init = 2) (hcl : Clean comps) (hs : CleanC s)
    (hfs : fsOK fs) (hexts : ∀ e ∈ exts, slash ∉ e) (g : Bytes)
    (h : siblingExtensionSearch fs cwd (render init (comps ++ [s])) exts = some g) :
    ∃ s', CleanC s' ∧ g = render init (comps ++ [s']) := by
  induction exts with
  | nil => simp [siblingExtensionSearch] at h
  | cons e es ih =>
    have he := hexts e (by simp)
    have hdb := dirname_basename_child init hi comps hcl s hs.2.1
    have plain : (if fs.exists (render init (comps ++ [s]) ++ e) = true then some (mk cwd (render init (comps ++ [s]) ++ e))
        else siblingExtensionSearch fs cwd (render init (comps ++ [s])) es) = some g →
        ∃ s', CleanC s' ∧ g = render init (comps ++ [s']) := by
      intro h
      by_cases hex : fs.exists (render init (comps ++ [s]) ++ e) = true
      · rw [if_pos hex] at h
        simp only [Option.some.injEq] at h
        have hc' := cleanC_append s e hs he
        have hcl' : Clean (comps ++ [s ++ e]) := by
          apply clean_append _ _ hcl
          intro x hx
          simp only [List.mem_singleton] at hx
          subst hx; exact hc'
        rw [render_snoc_append, mk_render cwd init hi _ hcl'] at h
        exact ⟨s ++ e, hc', h.symm⟩
      · rw [if_neg hex] at h
        exact ih (fun x hx => hexts x (by simp [hx])) h
    simp only [siblingExtensionSearch] at h
    by_cases hst : e = star
    · rw [if_pos hst, hdb.1, hdb.2] at h
      cases hf : (fs.listdir (render init comps)).find? (fun fn => startsWith fn (s ++ [dot])) with
      | none =>
        rw [hf] at h
        simp only [Option.map_none] at h
        exact plain h
      | some fn =>
        rw [hf] at h
        simp only [Option.map_some, Option.some.injEq] at h
        have hmem := List.mem_of_find?_eq_some hf
        have hpred := List.find?_some hf
        have hfn := listdir_noslash fs hfs _ fn hmem
        have hc' := cleanC_of_startsWith s fn hs hfn hpred
        refine ⟨fn, hc', ?_⟩
        have hhead := joinPath_render_head init hi comps hcl fn (head_of_noslash fn hfn)
        unfold mk at h
        rw [abspath_abs _ _ hhead, normpath_join_single init hi comps hcl fn hfn,
          normStep_clean init comps fn hc'] at h
        exact h.symm
    · rw [if_neg hst] at h
      exact plain h

/-- administrator-supplied configuration is sane: index names and ignored extensions contain no
    `/`, and no index name is `..` -/
def cfgOK (cfg : Cfg) : Prop :=
  (∀ n ∈ cfg.indexNames, slash ∉ n ∧ n ≠ [dot, dot]) ∧ (∀ e ∈ cfg.ignoredExts, slash ∉ e)

/-- what is known about a located resource: its path is normalised and below the root's components -/
def RInv (init : Nat) (rc : List Bytes) : Rsrc → Prop
  | .file p => ∃ comps, Struct p init comps ∧ rc <+: comps
  | .listing p => ∃ comps, Struct p init comps ∧ rc <+: comps
  | .notFound => True
  | .error => True

theorem FS.exists_of_isdir (fs : FS) (p : Bytes) (h : fs.isdir p = true) : fs.exists p = true := by
  simp [FS.exists, h]

theorem getChild_inv (cfg : Cfg) (fs : FS) (cwd our seg : Bytes) (hcfg : cfgOK cfg) (hfs : fsOK fs) (init : Nat)
    (rc comps : List Bytes) (hs : Struct our init comps) (hrc : rc <+: comps) :
    RInv init rc (getChild cfg fs cwd our seg) := by
  unfold getChild
  by_cases hu : validUtf8 seg = true
  case neg => simp [hu, RInv]
  by_cases hd : fs.isdir our = true
  case neg => simp [hu, hd, RInv]
  simp only [hu, hd, Bool.not_true, Bool.false_eq_true, if_false]
  -- the continuation after `fpath` is known
  have cont : ∀ f comps', Struct f init comps' → (comps' = comps ∨ ∃ s, comps' = comps ++ [s]) →
      RInv init rc (if (0 : UInt8) ∈ f then Rsrc.error
        else if (!fs.exists f) = true then
          match siblingExtensionSearch fs cwd f cfg.ignoredExts with
          | none => Rsrc.notFound
          | some g => Rsrc.file g
        else Rsrc.file f) := by
    intro f comps' hsf hstep
    have hpre : rc <+: comps' := by
      rcases hstep with e | ⟨s, e⟩
      · rw [e]; exact hrc
      · rw [e]; exact List.IsPrefix.trans hrc (List.prefix_append _ _)
    by_cases h0 : (0 : UInt8) ∈ f
    · simp [h0, RInv]
    · rw [if_neg h0]
      by_cases hex : fs.exists f = true
      · simp only [hex, Bool.not_true, Bool.false_eq_true, if_false]
        exact ⟨comps', hsf, hpre⟩
      · simp only [hex, Bool.not_false, if_true]
        cases hg : siblingExtensionSearch fs cwd f cfg.ignoredExts with
        | none => simp [RInv]
        | some g =>
          simp only [RInv]
          rcases hstep with e | ⟨s, e⟩
          · -- `f` is the directory itself, which exists
            exfalso
            have : f = our := by rw [hsf.2.2, hs.2.2, e]
            rw [this] at hex
            exact hex (FS.exists_of_isdir fs our hd)
          · subst e
            have hcs : CleanC s := hsf.2.1 s (by simp)
            rw [hsf.2.2] at hg
            obtain ⟨s', hc', eg⟩ := siblingExtensionSearch_struct fs cwd cfg.ignoredExts init comps s
              hsf.1 hs.2.1 hcs hfs hcfg.2 g hg
            refine ⟨comps ++ [s'], ⟨hsf.1, ?_, eg⟩, List.IsPrefix.trans hrc (List.prefix_append _ _)⟩
            apply clean_append _ _ hs.2.1
            intro x hx
            simp only [List.mem_singleton] at hx
            subst hx; exact hc'
  by_cases hseg : seg = []
  · simp only [hseg, ne_eq, not_true_eq_false, if_false]
    cases hcs : childSearchPreauth fs cwd our cfg.indexNames with
    | none => exact ⟨comps, hs, hrc⟩
    | some f =>
      obtain ⟨comps', hsf, hstep⟩ := childSearchPreauth_struct fs cwd our cfg.indexNames init comps hs hcfg.1 f hcs
      exact cont f comps' hsf hstep
  · simp only [ne_eq, hseg, not_false_eq_true, if_true]
    cases hc : child cwd our seg with
    | none => simp [RInv]
    | some f =>
      simp only
      rcases child_struct cwd our seg f init comps hs hc with e | ⟨s, hcs, e⟩
      · exact cont f comps (by rw [e]; exact hs) (Or.inl rfl)
      · refine cont f (comps ++ [s]) ⟨hs.1, ?_, e⟩ (Or.inr ⟨s, rfl⟩)
        apply clean_append _ _ hs.2.1
        intro x hx
        simp only [List.mem_singleton] at hx
        subst hx; exact hcs

theorem walk_inv (cfg : Cfg) (fs : FS) (cwd : Bytes) (hcfg : cfgOK cfg) (hfs : fsOK fs) (init : Nat) (rc : List Bytes)
    (pp : List Bytes) (r : Rsrc) (hr : RInv init rc r) : RInv init rc (walk cfg fs cwd r pp) := by
  induction pp generalizing r with
  | nil => cases r <;> simpa [walk] using hr
  | cons s rest ih =>
    cases r with
    | file p =>
      simp only [walk]
      obtain ⟨comps, hs, hpre⟩ := hr
      exact ih _ (getChild_inv cfg fs cwd p s hcfg hfs init rc comps hs hpre)
    | listing p => simp only [walk]; exact ih _ (by simp [RInv])
    | notFound => simp only [walk]; exact ih _ (by simp [RInv])
    | error => simp [walk, RInv]

end TwistedProps.C26
