import TwistedModel.Fs.Path
/-!
Lemmas for C26: algebra of `split("/")` / `"/".join`, the `normpath` loop invariant, and the
structure of normalised absolute paths (`render init comps` with clean components).
-/
namespace TwistedProps.C26
open Twisted.Fs.Path

/-- the non-empty pieces between slashes: the *segments* of a path -/
def segs (p : Bytes) : List Bytes := (splitSlash p).filter (· ≠ [])

/-- a component of a normalised path: non-empty, no `/`, not `.`, not `..` -/
def CleanC (c : Bytes) : Prop := c ≠ [] ∧ slash ∉ c ∧ c ≠ [dot] ∧ c ≠ [dot, dot]
def Clean (comps : List Bytes) : Prop := ∀ c ∈ comps, CleanC c

/-! ### split / join -/

theorem split1_cons (c : UInt8) (rest : Bytes) :
    split1 (c :: rest) = if c = slash then ([], (split1 rest).1 :: (split1 rest).2)
      else (c :: (split1 rest).1, (split1 rest).2) := by
  simp [split1]

theorem splitSlash_nil : splitSlash [] = [[]] := by simp [splitSlash, split1]

theorem splitSlash_slash (x : Bytes) : splitSlash (slash :: x) = [] :: splitSlash x := by
  simp [splitSlash, split1_cons]

theorem split1_append_slash (a b : Bytes) :
    split1 (a ++ slash :: b) = ((split1 a).1, (split1 a).2 ++ splitSlash b) := by
  induction a with
  | nil => simp [split1_cons, split1, splitSlash]
  | cons c a ih =>
    simp only [List.cons_append, split1_cons, ih]
    by_cases h : c = slash <;> simp [h, splitSlash]

theorem splitSlash_append_slash (a b : Bytes) :
    splitSlash (a ++ slash :: b) = splitSlash a ++ splitSlash b := by
  simp [splitSlash, split1_append_slash]

theorem split1_noslash (c : Bytes) (h : slash ∉ c) : split1 c = (c, []) := by
  induction c with
  | nil => simp [split1]
  | cons x c ih =>
    have hx : x ≠ slash := fun e => h (by simp [e])
    have hc : slash ∉ c := fun e => h (by simp [e])
    simp [split1_cons, hx, ih hc]

theorem splitSlash_noslash (c : Bytes) (h : slash ∉ c) : splitSlash c = [c] := by
  simp [splitSlash, split1_noslash c h]

theorem split1_pieces_noslash (p : Bytes) :
    slash ∉ (split1 p).1 ∧ ∀ c ∈ (split1 p).2, slash ∉ c := by
  induction p with
  | nil => simp [split1]
  | cons x p ih =>
    rw [split1_cons]
    by_cases h : x = slash
    · simp only [h, if_true]
      refine ⟨by simp, ?_⟩
      intro c hc
      simp only [List.mem_cons] at hc
      rcases hc with rfl | hc
      · exact ih.1
      · exact ih.2 c hc
    · simp only [h, if_false]
      refine ⟨?_, ih.2⟩
      intro hm
      simp only [List.mem_cons] at hm
      rcases hm with e | hm
      · exact h e.symm
      · exact ih.1 hm

theorem splitSlash_pieces_noslash (p : Bytes) : ∀ c ∈ splitSlash p, slash ∉ c := by
  intro c hc
  simp only [splitSlash, List.mem_cons] at hc
  rcases hc with rfl | hc
  · exact (split1_pieces_noslash p).1
  · exact (split1_pieces_noslash p).2 c hc

theorem segs_append_slash (a b : Bytes) : segs (a ++ slash :: b) = segs a ++ segs b := by
  simp [segs, splitSlash_append_slash]

theorem segs_nil : segs [] = [] := by simp [segs, splitSlash_nil]

theorem segs_slash (x : Bytes) : segs (slash :: x) = segs x := by
  simp [segs, splitSlash_slash]

theorem joinSlash_cons2 (c d : Bytes) (cs : List Bytes) :
    joinSlash (c :: d :: cs) = c ++ slash :: joinSlash (d :: cs) := rfl

theorem joinSlash_snoc (xs : List Bytes) (c : Bytes) (h : xs ≠ []) :
    joinSlash (xs ++ [c]) = joinSlash xs ++ slash :: c := by
  induction xs with
  | nil => exact absurd rfl h
  | cons x xs ih =>
    cases xs with
    | nil => simp [joinSlash]
    | cons y ys =>
      have := ih (by simp)
      simp only [List.cons_append] at this ⊢
      rw [joinSlash_cons2, this, joinSlash_cons2]
      simp

theorem splitSlash_joinSlash (comps : List Bytes) (hne : comps ≠ []) (h : ∀ c ∈ comps, slash ∉ c) :
    splitSlash (joinSlash comps) = comps := by
  induction comps with
  | nil => exact absurd rfl hne
  | cons c cs ih =>
    cases cs with
    | nil => simpa [joinSlash] using splitSlash_noslash c (h c (by simp))
    | cons d ds =>
      rw [joinSlash_cons2, splitSlash_append_slash, splitSlash_noslash c (h c (by simp)),
        ih (by simp) (fun x hx => h x (by simp [hx]))]
      simp

theorem splitSlash_replicate (n : Nat) (x : Bytes) :
    splitSlash (List.replicate n slash ++ x) = List.replicate n [] ++ splitSlash x := by
  induction n with
  | zero => simp
  | succ n ih => simp [List.replicate_succ, splitSlash_slash, ih]

theorem joinSlash_head (comps : List Bytes) (h : Clean comps) : (joinSlash comps).head? ≠ some slash := by
  cases comps with
  | nil => simp [joinSlash]
  | cons c cs =>
    have hc := h c (by simp)
    have : (joinSlash (c :: cs)).head? = c.head? := by
      cases cs with
      | nil => simp [joinSlash]
      | cons d ds =>
        rw [joinSlash_cons2]
        cases c with
        | nil => exact absurd rfl hc.1
        | cons x xs => simp
    rw [this]
    cases c with
    | nil => exact absurd rfl hc.1
    | cons x xs =>
      simp only [List.head?_cons, ne_eq, Option.some.injEq]
      intro e
      exact hc.2.1 (by simp [e])

/-! ### the `normpath` loop -/

theorem normStep_empty (init : Nat) (acc : List Bytes) : normStep init acc [] = acc := by
  simp [normStep]

theorem normStep_clean (init : Nat) (acc : List Bytes) (c : Bytes) (hc : CleanC c) :
    normStep init acc c = acc ++ [c] := by
  simp [normStep, hc.1, hc.2.2.1, hc.2.2.2]

theorem foldl_normStep_empties (init n : Nat) (acc : List Bytes) :
    (List.replicate n ([] : Bytes)).foldl (normStep init) acc = acc := by
  induction n with
  | zero => simp
  | succ n ih => simp [List.replicate_succ, normStep_empty, ih]

theorem foldl_normStep_clean (init : Nat) (acc comps : List Bytes) (h : Clean comps) :
    comps.foldl (normStep init) acc = acc ++ comps := by
  induction comps generalizing acc with
  | nil => simp
  | cons c cs ih =>
    simp only [List.foldl_cons]
    rw [normStep_clean init acc c (h c (by simp)), ih _ (fun x hx => h x (by simp [hx]))]
    simp

theorem clean_dropLast (comps : List Bytes) (h : Clean comps) : Clean comps.dropLast :=
  fun c hc => h c (List.dropLast_subset comps hc)

theorem clean_append (a b : List Bytes) (ha : Clean a) (hb : Clean b) : Clean (a ++ b) := by
  intro c hc
  simp only [List.mem_append] at hc
  rcases hc with hc | hc
  · exact ha c hc
  · exact hb c hc

/-- the loop invariant: for an absolute path (`init ≠ 0`) `new_comps` only ever holds clean components -/
theorem normStep_inv (init : Nat) (hi : init ≠ 0) (acc : List Bytes) (c : Bytes) (hacc : Clean acc)
    (hc : slash ∉ c) : Clean (normStep init acc c) := by
  unfold normStep
  by_cases h1 : c = [] ∨ c = [dot]
  · rw [if_pos h1]; exact hacc
  · rw [if_neg h1]
    have hlast : acc.getLast? ≠ some [dot, dot] := by
      intro e
      have := List.mem_of_getLast? e
      exact (hacc _ this).2.2.2 rfl
    by_cases h2 : c ≠ [dot, dot]
    · rw [if_pos (Or.inl h2)]
      apply clean_append _ _ hacc
      intro x hx
      simp only [List.mem_singleton] at hx
      subst hx
      exact ⟨fun e => h1 (Or.inl e), hc, fun e => h1 (Or.inr e), h2⟩
    · have : ¬ (c ≠ [dot, dot] ∨ (init = 0 ∧ acc = []) ∨ acc.getLast? = some [dot, dot]) := by
        intro hh
        rcases hh with hh | hh | hh
        · exact h2 hh
        · exact hi hh.1
        · exact hlast hh
      rw [if_neg this]
      exact clean_dropLast _ hacc

theorem foldl_normStep_inv (init : Nat) (hi : init ≠ 0) (acc pieces : List Bytes) (hacc : Clean acc)
    (hp : ∀ c ∈ pieces, slash ∉ c) : Clean (pieces.foldl (normStep init) acc) := by
  induction pieces generalizing acc with
  | nil => simpa using hacc
  | cons c cs ih =>
    simp only [List.foldl_cons]
    exact ih _ (normStep_inv init hi acc c hacc (hp c (by simp))) (fun x hx => hp x (by simp [hx]))

/-! ### initial slashes, render -/

theorem initialSlashes_abs (p : Bytes) (h : p.head? = some slash) :
    initialSlashes p = 1 ∨ initialSlashes p = 2 := by
  match p, h with
  | [a], h => simp at h; simp [initialSlashes, h]
  | [a, b], h => simp at h; by_cases hb : b = slash <;> simp [initialSlashes, h, hb]
  | a :: b :: c :: r, h =>
    simp at h
    by_cases hb : b = slash ∧ c ≠ slash <;> simp [initialSlashes, h, hb]

theorem initialSlashes_replicate (init : Nat) (hi : init = 1 ∨ init = 2) (body : Bytes)
    (hb : body.head? ≠ some slash) : initialSlashes (List.replicate init slash ++ body) = init := by
  rcases hi with rfl | rfl
  · match body, hb with
    | [], _ => simp [initialSlashes]
    | [x], hb => simp at hb; simp [initialSlashes, List.replicate, hb]
    | x :: y :: r, hb => simp at hb; simp [initialSlashes, List.replicate, hb]
  · match body, hb with
    | [], _ => simp [initialSlashes, List.replicate]
    | x :: r, hb => simp at hb; simp [initialSlashes, List.replicate, hb]

theorem render_head (init : Nat) (hi : init = 1 ∨ init = 2) (comps : List Bytes) :
    (render init comps).head? = some slash := by
  rcases hi with rfl | rfl <;> simp [render, List.replicate]

theorem render_ne_nil (init : Nat) (hi : init = 1 ∨ init = 2) (comps : List Bytes) :
    render init comps ≠ [] := by
  intro e
  have := render_head init hi comps
  rw [e] at this
  simp at this

/-- (F) normalising `init` slashes followed by a body that does not start with a slash -/
theorem normpath_replicate_body (init : Nat) (hi : init = 1 ∨ init = 2) (body : Bytes)
    (hb : body.head? ≠ some slash) :
    normpath (List.replicate init slash ++ body) =
      render init ((splitSlash body).foldl (normStep init) []) := by
  have hne : List.replicate init slash ++ body ≠ [] := by
    rcases hi with rfl | rfl <;> simp [List.replicate]
  unfold normpath
  simp only [hne, if_false]
  rw [initialSlashes_replicate init hi body hb, splitSlash_replicate, List.foldl_append,
    foldl_normStep_empties]
  simp [render_ne_nil init hi]

/-- (A) the normal form of any absolute path -/
theorem normpath_abs_struct (p : Bytes) (h : p.head? = some slash) :
    ∃ init comps, (init = 1 ∨ init = 2) ∧ Clean comps ∧ normpath p = render init comps := by
  have hne : p ≠ [] := by intro e; simp [e] at h
  have hi := initialSlashes_abs p h
  refine ⟨initialSlashes p, (splitSlash p).foldl (normStep (initialSlashes p)) [], hi, ?_, ?_⟩
  · apply foldl_normStep_inv _ (by omega) _ _ (by intro c hc; simp at hc) (splitSlash_pieces_noslash p)
  · unfold normpath
    simp [hne, render_ne_nil _ hi]

theorem clean_noslash (comps : List Bytes) (h : Clean comps) : ∀ c ∈ comps, slash ∉ c :=
  fun c hc => (h c hc).2.1

/-- `split` of a rendered body -/
theorem splitSlash_body (comps : List Bytes) (h : Clean comps) (hne : comps ≠ []) :
    splitSlash (joinSlash comps) = comps :=
  splitSlash_joinSlash comps hne (clean_noslash comps h)

/-- (B) the segments of a rendered path are its components -/
theorem segs_render (init : Nat) (comps : List Bytes) (h : Clean comps) :
    segs (render init comps) = comps := by
  unfold segs render
  rw [splitSlash_replicate]
  by_cases hne : comps = []
  · subst hne; simp [joinSlash, splitSlash_nil]
  · rw [splitSlash_body comps h hne, List.filter_append]
    have h1 : (List.replicate init ([] : Bytes)).filter (· ≠ []) = [] := by
      simp
    have h2 : comps.filter (· ≠ []) = comps := by
      rw [List.filter_eq_self]
      intro c hc
      simpa using (h c hc).1
    rw [h1, h2]; simp

/-- (C) `normpath` is the identity on rendered clean paths -/
theorem normpath_render (init : Nat) (hi : init = 1 ∨ init = 2) (comps : List Bytes) (h : Clean comps) :
    normpath (render init comps) = render init comps := by
  unfold render
  rw [normpath_replicate_body init hi _ (joinSlash_head comps h)]
  by_cases hne : comps = []
  · subst hne; simp [joinSlash, splitSlash_nil, normStep_empty, render]
  · rw [splitSlash_body comps h hne, foldl_normStep_clean _ _ _ h]; simp [render]

end TwistedProps.C26
