import TwistedProps.C20.Late
/-!
C20 — HTTP server responses are framed exactly and headers cannot be injected.

Statement (given): for any status code and reason phrase, response headers and cookies with
arbitrary names and values (text or bytes, including CR, LF and non-ASCII), and any sequence of
writes followed by finish, the bytes the server emits parse, with an independent HTTP/1.1 parser,
as exactly one response with that status, exactly the headers set (line breaks in values replaced
by spaces, invalid names refused when set) and a body equal to the concatenation of the writes.
HEAD requests and 204/304 responses carry no body, and framing (chunked or Content-Length) is
consistent with the body.

Here: `Response.run` is the model of `Request`/`Headers`/`HTTPChannel.writeHeaders` (tied to the
code on every run), `Rfc9112.parseResponse` the independent reader (tied to h11 on every run).
The quantifiers are: every request context (HTTP/1.0 or 1.1, HEAD or not, `Connection: close` or
not), every history `setup` of set-up calls (setResponseCode / setHeader / addRawHeader /
setRawHeaders with any number of values / removeHeader / addCookie in any number and order, every
argument any `bytes` or any `str`, refused calls included), every list of writes
(`emits_one_wellformed_response`); then with set-up calls between the writes
(`…_interleaved`) and finally every history `pre ++ finish :: tail` whatever `pre` (without finish)
and `tail` are (`…_any_history`).  Names: `name_accepted_iff_token`,
`almost_token_refused_by_every_call` (+ text), `token_then_one_LF_refused`,
`refused_names_leave_no_trace`, `emitted_names_are_tokens`, `head_has_no_stray_line_break`.  Preconditions (`WellFormed`, all decidable, all from the statement's own reading):
the status code is a three-digit final status; the application does not set Transfer-Encoding
itself; a Content-Length it sets is single and truthful.
-/
namespace TwistedProps.C20
open Twisted.Http.Response
open Twisted.Http.Rfc9112 (parseResponse Resp strip fieldValues decVal)
open Twisted.Http.Chunked (isDigit)

/-- the preconditions on the application, evaluated on the request as it stands before the
    first write (they matter only for a response that may carry a body) -/
structure WellFormed (s : Req) (ws : List Bytes) : Prop where
  code : 200 ≤ s.code ∧ s.code ≤ 999
  noTE : s.head = true ∨ noBodyCode s.code = true ∨
    (dget s.headers (bs "Transfer-Encoding")).getD [] = []
  lengthTruthful : s.head = true ∨ noBodyCode s.code = true ∨
    match (dget s.headers (bs "Content-Length")).getD [] with
    | [] => True
    | [v] => (strip (fieldContent v)).all isDigit = true ∧ strip (fieldContent v) ≠ [] ∧
             decVal (strip (fieldContent v)) = ws.flatten.length
    | _ => False

/-- **C20, reading side.**  For a request nothing has been written for, whatever its status,
    reason, dict and cookies: the bytes written by any list of writes and finish are read by the
    reference parser as exactly one response — that status, the reason as written, exactly the
    fields of the final dict, and the concatenated writes as body (no body for HEAD/204/304). -/
theorem fresh_emits_one_response (s : Req) (hs : Fresh s) (p11 head cc : Bool) (hc : Ctx s p11 head cc)
    (ws : List Bytes) (wf : WellFormed s ws) :
    parseResponse head (finish (writeAll s ws)).closed (finish (writeAll s ws)).out =
      some ⟨s.code, fieldContent s.reason, wireFields (finalHeaders s),
            if s.head || noBodyCode s.code then [] else ws.flatten⟩ := by
  obtain ⟨hout, hclosed⟩ := emit_shape s hs ws
  obtain ⟨hp, hh, hpers⟩ := hc
  have hcode1 : 100 ≤ s.code := by have := wf.code.1; omega
  rw [hout, hclosed, writeHeaders_lines]
  have hH := finalHeaders_ok s hs
  have hshape : ∀ l ∈ ((if s.proto11 then bs "HTTP/1.1" else bs "HTTP/1.0") ++ [SP] ++ decimal s.code ++ [SP] ++
      fieldContent s.reason) :: fieldLineList (finalHeaders s), l ≠ [] ∧ (10 : UInt8) ∉ l := by
    intro l hl
    rcases List.mem_cons.1 hl with rfl | hl
    · exact statusLine_shape s.proto11 s.code s.reason hcode1 wf.code.2
    · exact fieldLineList_shape _ hH.1 l hl
  unfold parseResponse
  rw [headLines_lines _ hshape]
  simp only
  rw [parseStatusLine_emitted s.proto11 s.code s.reason hcode1 wf.code.2, parseFieldLines_dict _ hH.1]
  simp only
  have hte : Twisted.Http.Rfc9112.transfer_encoding = (bs "Transfer-Encoding").map lower := by decide
  have hcl : Twisted.Http.Rfc9112.content_length = (bs "Content-Length").map lower := by decide
  rw [hte, hcl, fieldValues_dict _ hH _ canon_TE, fieldValues_dict _ hH _ canon_CL, finalHeaders_TE, finalHeaders_CL]
  by_cases hnb : (s.head || noBodyCode s.code) = true
  · -- HEAD / 204 / 304: nothing follows the head
    have : (head || decide (s.code = 204) || decide (s.code = 304)) = true := by
      rw [← hh]
      simp only [noBodyCode, Bool.or_eq_true, decide_eq_true_eq] at hnb ⊢
      rcases hnb with h | h | h <;> simp [h]
    simp [this, hnb]
  · have hnb' : (s.head || noBodyCode s.code) = false := by simpa using hnb
    have hsh : s.head = false := by cases h : s.head <;> simp_all
    have hsc : noBodyCode s.code = false := by cases h : noBodyCode s.code <;> simp_all
    have : (head || decide (s.code = 204) || decide (s.code = 304)) = false := by
      rw [← hh, hsh]
      simpa [noBodyCode] using hsc
    simp only [this, hnb', Bool.false_eq_true, if_false]
    by_cases hch : willChunk s = true
    · -- chunked
      have hmiss : (dget s.headers (bs "Content-Length")).getD [] = [] := by
        apply (dmissing_iff _ _).1
        unfold willChunk at hch
        simp only [Bool.and_eq_true] at hch
        exact hch.1.1.2
      have hfuel : ((ws.filter (· ≠ [])).length) < (chunksOf ws ++ [48, 13, 10, 13, 10]).length + 1 := by
        have := chunksOf_length ws
        simp only [List.length_append]; omega
      have hpc := parseChunks_chunksOf ws [] _ hfuel
      have e : chunksOf ws ++ [48, 13, 10, 13, 10] = chunksOf ws ++ 48 :: 13 :: 10 :: 13 :: 10 :: [] := rfl
      rw [← e] at hpc
      have hck2 : List.map Twisted.Http.Rfc9112.lower (strip (fieldContent (bs "chunked"))) =
          Twisted.Http.Rfc9112.chunked := by decide
      have hlen : List.length (chunksOf ws) + 5 + 1 = List.length (chunksOf ws ++ [48, 13, 10, 13, 10]) + 1 := by simp
      simp [hch, hmiss, hck2]
      rw [hlen, hpc]
    · -- counted, or delimited by closing
      have hch' : willChunk s = false := by simpa using hch
      have hnoTE : (dget s.headers (bs "Transfer-Encoding")).getD [] = [] := by
        rcases wf.noTE with h | h | h
        · simp [hsh] at h
        · simp [hsc] at h
        · exact h
      simp only [hch', Bool.false_eq_true, if_false, hnoTE, List.map_nil, ne_eq, not_true_eq_false]
      have hlt := wf.lengthTruthful
      rcases hlt with h | h | hlt
      · simp [hsh] at h
      · simp [hsc] at h
      · cases hv : (dget s.headers (bs "Content-Length")).getD [] with
        | nil =>
          -- no Content-Length and not chunked: HTTP/1.0, the channel closes the connection
          have hp10 : s.proto11 = false := by
            unfold willChunk at hch'
            have hm := (dmissing_iff s.headers (bs "Content-Length")).2 hv
            simp [hm, hsh, hsc] at hch'
            exact hch'
          have : s.persistent = false := by rw [hpers, ← hp, hp10]; rfl
          simp [this]
        | cons v vs =>
          rw [hv] at hlt
          cases vs with
          | nil =>
            simp only at hlt
            obtain ⟨h1, h2, h3⟩ := hlt
            simp [h1, h2, h3]
          | cons v2 vs => simp at hlt

/-- **C20 (headline).**  Every history: any request context, any set-up calls with any arguments
    (refused ones included), any writes, finish.  The emitted bytes are exactly one response for
    the reference parser; status, reason, fields and body are those of the request as the set-up
    calls left it (`s`); nothing else can be read out of the bytes. -/
theorem emits_one_wellformed_response (p11 head cc : Bool) (setup : List Op) (ws : List Bytes)
    (hsetup : ∀ op ∈ setup, isSetup op = true)
    (wf : WellFormed (run (init p11 head cc) setup).1 ws) :
    let s := (run (init p11 head cc) setup).1
    let r := (run (init p11 head cc) (setup ++ (ws.map Op.write ++ [Op.finish]))).1
    parseResponse head r.closed r.out =
      some ⟨s.code, fieldContent s.reason, wireFields (finalHeaders s),
            if head || noBodyCode s.code then [] else ws.flatten⟩ := by
  intro s r
  obtain ⟨hi1, hi2⟩ := init_fresh p11 head cc
  obtain ⟨hs, hc⟩ := runFrom_setup setup hsetup p11 head cc _ 0 hi1 hi2
  have hr : r = finish (writeAll s ws) := by
    show (runFrom _ 0 _).1 = _
    rw [runFrom_append_fst, runFrom_writes_finish]
    rfl
  rw [hr]
  have := fresh_emits_one_response s hs p11 head cc hc ws wf
  have hh : s.head = head := hc.2.1
  rw [hh] at this
  exact this

/-- **C20 with set-up calls sprinkled between the writes.**  Any set-up history, a first write, then
    any mix of further writes and set-up calls (accepted or refused: `setHeader`, `setRawHeaders`,
    `removeHeader`, `addCookie`, `setResponseCode` … after the head has gone out), then finish: the
    reader sees exactly the response of the request as it stood at the first write, with all the
    writes as body; the late calls change nothing on the wire. -/
theorem emits_one_wellformed_response_interleaved (p11 head cc : Bool) (setup : List Op) (d : Bytes) (mixed : List Op)
    (hsetup : ∀ op ∈ setup, isSetup op = true) (hnf : Op.finish ∉ mixed)
    (wf : WellFormed (run (init p11 head cc) setup).1 (d :: writesOf mixed)) :
    let s := (run (init p11 head cc) setup).1
    let r := (run (init p11 head cc) (setup ++ (Op.write d :: (mixed ++ [Op.finish])))).1
    parseResponse head r.closed r.out =
      some ⟨s.code, fieldContent s.reason, wireFields (finalHeaders s),
            if head || noBodyCode s.code then [] else (d :: writesOf mixed).flatten⟩ := by
  intro s r
  have base := emits_one_wellformed_response p11 head cc setup (d :: writesOf mixed) hsetup wf
  simp only at base
  obtain ⟨hi1, hi2⟩ := init_fresh p11 head cc
  obtain ⟨hs, _⟩ := runFrom_setup setup hsetup p11 head cc _ 0 hi1 hi2
  have hw : wire r = wire (run (init p11 head cc) (setup ++ ((d :: writesOf mixed).map Op.write ++ [Op.finish]))).1 := by
    show wire (runFrom _ 0 _).1 = wire (runFrom _ 0 _).1
    rw [runFrom_append_fst, runFrom_append_fst, List.map_cons, List.cons_append, runFrom_cons_fst, runFrom_cons_fst]
    have := runFrom_late (mixed ++ [Op.finish]) _ _ (0 + setup.length + 1) (0 + setup.length + 1) rfl
      (write_fresh_started s hs d)
    rw [List.filter_append, filter_nonsetup mixed hnf] at this
    exact this
  simp only [wire, Prod.mk.injEq] at hw
  rw [hw.2.2.2.2.2.2.2.1, hw.2.2.2.2.2.2.2.2]
  exact base

/-- **Nothing after finish reaches the wire**: whatever is called once the request is finished
    (writes — they raise —, a second finish, set-up calls of any kind), the bytes written and the
    state of the connection stay what they were. -/
theorem calls_after_finish_change_nothing (r0 : Req) (pre tail : List Op) (hf : (run r0 pre).1.finished = true) :
    (run r0 (pre ++ tail)).1.out = (run r0 pre).1.out ∧ (run r0 (pre ++ tail)).1.closed = (run r0 pre).1.closed := by
  have : wire (run r0 (pre ++ tail)).1 = wire (run r0 pre).1 := by
    show wire (runFrom _ 0 _).1 = _
    rw [runFrom_append_fst]
    exact runFrom_finished tail _ _ hf
  simp only [wire, Prod.mk.injEq] at this
  exact ⟨this.2.2.2.2.2.2.2.1, this.2.2.2.2.2.2.2.2⟩

/-- **C20 over every history that finishes.**  Any list of calls `pre` without finish (set-up calls
    and writes in any order and number, accepted or refused), then finish, then any calls at all
    (`tail`: writes, a second finish, more set-up calls).  The bytes on the wire are exactly one
    response: status, reason and fields are those of the request as the set-up calls BEFORE THE FIRST
    WRITE left it (`pre.takeWhile isSetup`), the body is the concatenation of all writes of `pre`.
    Nothing called after the first write changes the head; nothing called after finish changes anything. -/
theorem emits_one_wellformed_response_any_history (p11 head cc : Bool) (pre tail : List Op)
    (hnf : Op.finish ∉ pre)
    (wf : WellFormed (run (init p11 head cc) (pre.takeWhile isSetup)).1 (writesOf pre)) :
    let s := (run (init p11 head cc) (pre.takeWhile isSetup)).1
    let r := (run (init p11 head cc) (pre ++ Op.finish :: tail)).1
    parseResponse head r.closed r.out =
      some ⟨s.code, fieldContent s.reason, wireFields (finalHeaders s),
            if head || noBodyCode s.code then [] else (writesOf pre).flatten⟩ := by
  intro s r
  have hsplit : pre = pre.takeWhile isSetup ++ pre.dropWhile isSetup := (List.takeWhile_append_dropWhile).symm
  have hsetup : ∀ op ∈ pre.takeWhile isSetup, isSetup op = true := takeWhile_all isSetup pre
  have hr : r = (run (init p11 head cc) ((pre ++ [Op.finish]) ++ tail)).1 := by
    show (run _ _).1 = _; simp
  obtain ⟨ho, hc⟩ := calls_after_finish_change_nothing (init p11 head cc) (pre ++ [Op.finish]) tail
    (run_snoc_finish_finished _ _)
  rw [hr, ho, hc]
  cases hd : pre.dropWhile isSetup with
  | nil =>
    have hpre : pre = pre.takeWhile isSetup := by rw [hd, List.append_nil] at hsplit; exact hsplit
    have hw : writesOf pre = [] := by rw [hpre]; exact writesOf_setup _ hsetup
    rw [hw] at wf ⊢
    have base := emits_one_wellformed_response p11 head cc (pre.takeWhile isSetup) [] hsetup wf
    simp only [List.map_nil, List.nil_append] at base
    have e : pre ++ [Op.finish] = pre.takeWhile isSetup ++ [Op.finish] := congrArg (· ++ [Op.finish]) hpre
    rw [e]
    exact base
  | cons op mixed =>
    have hnot : isSetup op = false := dropWhile_head isSetup pre op mixed hd
    have hmem : ∀ o ∈ op :: mixed, o ∈ pre := fun o h => by
      rw [hsplit, hd]; exact List.mem_append_right _ h
    have hopnf : op ≠ Op.finish := fun e => hnf (e ▸ hmem op (by simp))
    have hnf' : Op.finish ∉ mixed := fun h => hnf (hmem _ (List.mem_cons_of_mem _ h))
    cases op with
    | finish => exact absurd rfl hopnf
    | write d =>
      have hw : writesOf pre = d :: writesOf mixed := by
        rw [hsplit, hd, writesOf_append, writesOf_setup _ hsetup]
        simp [writesOf]
      rw [hw] at wf ⊢
      have base := emits_one_wellformed_response_interleaved p11 head cc (pre.takeWhile isSetup) d mixed hsetup hnf' wf
      simp only at base
      have e : pre ++ [Op.finish] = pre.takeWhile isSetup ++ (Op.write d :: (mixed ++ [Op.finish])) := by
        conv => lhs; rw [hsplit, hd]
        simp
      rw [e]
      exact base
    | setCode _ _ => simp [isSetup] at hnot
    | setHeader _ _ => simp [isSetup] at hnot
    | addHeader _ _ => simp [isSetup] at hnot
    | setRaw _ _ => simp [isSetup] at hnot
    | remove _ => simp [isSetup] at hnot
    | addCookie _ _ _ => simp [isSetup] at hnot

/-- **No header injection**: every field a reader finds was stored under that name by the
    application (or is one of `Transfer-Encoding: chunked`, `Connection: close`, `Set-Cookie`
    from `addCookie`), one field per stored value — whatever bytes the values contain. -/
theorem fields_come_from_dict (d : Dict) (f : Bytes × Bytes) (hf : f ∈ wireFields d) :
    ∃ p ∈ d, ∃ v ∈ p.2, f = (p.1.map lower, strip (fieldContent v)) := by
  simp only [wireFields, List.mem_flatMap, List.mem_map] at hf
  obtain ⟨p, hp, v, hv, rfl⟩ := hf
  exact ⟨p, hp, v, hv, rfl⟩

theorem field_count (d : Dict) : (wireFields d).length = (d.map fun p => p.2.length).sum := by
  induction d with
  | nil => rfl
  | cons p d ih => simp [wireFields, List.flatMap_cons] at ih ⊢; try omega

/-- **Framing is consistent**: `Transfer-Encoding: chunked` is present exactly when the body is
    sent in chunks, never together with a Content-Length, and never on HEAD / 204 / 304 or HTTP/1.0. -/
theorem framing_consistent (s : Req) (hs : Fresh s)
    (hnoTE : (dget s.headers (bs "Transfer-Encoding")).getD [] = []) :
    fieldValues (wireFields (finalHeaders s)) ((bs "Transfer-Encoding").map lower) =
        (if willChunk s then [bs "chunked"] else [])
    ∧ (willChunk s = true → fieldValues (wireFields (finalHeaders s)) ((bs "Content-Length").map lower) = [])
    ∧ (willChunk s = true → s.proto11 = true ∧ s.head = false ∧ noBodyCode s.code = false) := by
  have hH := finalHeaders_ok s hs
  refine ⟨?_, ?_, ?_⟩
  · rw [fieldValues_dict _ hH _ canon_TE, finalHeaders_TE]
    split
    · decide
    · simp [hnoTE]
  · intro hch
    rw [fieldValues_dict _ hH _ canon_CL, finalHeaders_CL]
    unfold willChunk at hch
    simp only [Bool.and_eq_true] at hch
    simp [(dmissing_iff _ _).1 hch.1.1.2]
  · intro hch
    unfold willChunk at hch
    simp only [Bool.and_eq_true, Bool.not_eq_true'] at hch
    exact ⟨hch.1.1.1, hch.1.2, hch.2⟩

/-- HEAD requests and 204 / 304 responses: the bytes written are the head and nothing else,
    whatever is passed to `write`. -/
theorem no_body_when_forbidden (s : Req) (hs : Fresh s) (ws : List Bytes) (h : (s.head || noBodyCode s.code) = true) :
    (finish (writeAll s ws)).out = writeHeaders s.proto11 s.code s.reason (finalHeaders s) := by
  rw [(emit_shape s hs ws).1]; simp [h]

/-- **Invalid names are refused when set**, and a refused call changes nothing. -/
theorem invalid_name_refused (s : Req) (x : Bytes) (value : Str) (h : isToken x = false) :
    step s (.setHeader (.b x) value) = (s, some .invalidHeaderName) := by
  simp [step, encodeName, h]

/-- **What `setHeader` stores**: the value with its line breaks replaced (`sanitize`), under the
    canonical name; it replaces what was stored under that name. -/
theorem setHeader_stores (s : Req) (x v : Bytes) (h : isToken x = true) :
    (step s (.setHeader (.b x) (.b v))).2 = none ∧
    dget (step s (.setHeader (.b x) (.b v))).1.headers (canonical x) = some [sanitize v] := by
  simp [step, encodeName, h, encValue, dget_dset]

/-- what is written for a stored value or a reason phrase never contains CR, LF, NUL, VT or FF,
    and is the value itself when the value contains none of them -/
theorem written_content_safe (b : Bytes) :
    (∀ c ∈ fieldContent b, c ≠ 13 ∧ c ≠ 10 ∧ c ≠ 0 ∧ c ≠ 11 ∧ c ≠ 12) ∧
    ((∀ c ∈ b, c ≠ 13 ∧ c ≠ 10 ∧ c ≠ 0 ∧ c ≠ 11 ∧ c ≠ 12) → fieldContent b = b) := by
  have key : ∀ c : UInt8, Twisted.Http.Rfc9112.okByte c = true ↔ (c ≠ 13 ∧ c ≠ 10 ∧ c ≠ 0 ∧ c ≠ 11 ∧ c ≠ 12) := by
    apply forall_uint8; decide +kernel
  exact ⟨fun c hc => (key c).1 (fieldContent_ok b c hc), fun h => fieldContent_id b fun c hc => (key c).2 (h c hc)⟩

/-! ### names: the whole class "a token with one foreign byte", every naming call, bytes and text -/

/-- **Almost-token names are refused by every call that names a header** (`setHeader`,
    `addRawHeader`, `setRawHeaders`, `removeHeader`): a `bytes` name containing one byte that is not
    a tchar — at its end (`b"Name\n"`), at its start or inside, whatever surrounds it — raises
    `InvalidHeaderName` and leaves the request exactly as it was. -/
theorem almost_token_refused_by_every_call (s : Req) (op : Op) (a b : Bytes) (c : UInt8) (hc : isTchar c = false)
    (hop : namedBy op = some (.b (a ++ c :: b))) : step s op = (s, some .invalidHeaderName) :=
  step_bad_name s op _ hop _ (encodeName_refuses _ (foreign_byte_not_token a b c hc))

/-- the same for `str` names: one code point that is not a Latin-1 tchar (LF, CR, NEL, U+2028, 'é',
    '²', U+212A …) anywhere in the name; the call raises and leaves the request as it was -/
theorem text_almost_token_refused_by_every_call (s : Req) (op : Op) (a b : List Nat) (c : Nat)
    (hc : ¬ (c < 256 ∧ isTchar (UInt8.ofNat c) = true))
    (hop : namedBy op = some (.t (a ++ c :: b))) : ∃ e, step s op = (s, some e) := by
  obtain ⟨e, he⟩ := text_foreign_refused a b c hc
  exact ⟨e, step_bad_name s op _ hop e he⟩

/-- the instance a validator written as `re.compile(b"[tchar]+$").match` gets wrong: a token
    followed by exactly one LF, as bytes and as text, through each of the four calls -/
theorem token_then_one_LF_refused (s : Req) (t : Bytes) (cps : List Nat) (v : Str) (vs : List Str) :
    step s (.setHeader (.b (t ++ [10])) v) = (s, some .invalidHeaderName) ∧
    step s (.addHeader (.b (t ++ [10])) v) = (s, some .invalidHeaderName) ∧
    step s (.setRaw (.b (t ++ [10])) vs) = (s, some .invalidHeaderName) ∧
    step s (.remove (.b (t ++ [10]))) = (s, some .invalidHeaderName) ∧
    (∃ e, step s (.setHeader (.t (cps ++ [10])) v) = (s, some e)) ∧
    (∃ e, step s (.addHeader (.t (cps ++ [10])) v) = (s, some e)) ∧
    (∃ e, step s (.setRaw (.t (cps ++ [10])) vs) = (s, some e)) ∧
    (∃ e, step s (.remove (.t (cps ++ [10]))) = (s, some e)) :=
  ⟨almost_token_refused_by_every_call s _ t [] 10 (by decide) rfl,
   almost_token_refused_by_every_call s _ t [] 10 (by decide) rfl,
   almost_token_refused_by_every_call s _ t [] 10 (by decide) rfl,
   almost_token_refused_by_every_call s _ t [] 10 (by decide) rfl,
   text_almost_token_refused_by_every_call s _ cps [] 10 (by decide) rfl,
   text_almost_token_refused_by_every_call s _ cps [] 10 (by decide) rfl,
   text_almost_token_refused_by_every_call s _ cps [] 10 (by decide) rfl,
   text_almost_token_refused_by_every_call s _ cps [] 10 (by decide) rfl⟩

/-- **A name is accepted exactly when it is a token** (bytes, or text that is Latin-1 and reads as
    one), and then it is stored under its canonical spelling; every other name makes the call raise
    with the request unchanged — for every call that names a header. -/
theorem name_accepted_iff_token (name : Str) :
    (∀ n, encodeName name = .ok n ↔ ∃ x, nameBytes name = some x ∧ isToken x = true ∧ n = canonical x) ∧
    (∀ (s : Req) (op : Op) (e : Err), namedBy op = some name → encodeName name = .error e → step s op = (s, some e)) :=
  ⟨encodeName_ok_iff name, fun s op e hop he => step_bad_name s op name hop e he⟩

/-- **Refused names leave no trace, in any history** (any interleaving with writes and finish, any
    request state): the request after the history is the request after the history with every
    refused naming call deleted — so the bytes written are the same too. -/
theorem refused_names_leave_no_trace (r : Req) (ops : List Op) :
    (run r ops).1 = (run r (ops.filter fun op => !badName op)).1 :=
  runFrom_filter_bad ops r 0 0

/-- … and every one of them is reported to the caller (the call at that index raised) -/
theorem refused_names_are_reported (r : Req) (ops : List Op) (i : Nat) (op : Op) (h : ops[i]? = some op)
    (hb : badName op = true) : ∃ e, (i, e) ∈ (run r ops).2 := by
  have := runFrom_reports_bad ops r 0 i op h hb
  simpa [run] using this

/-- **Every field name on the wire is a token**: whatever the set-up history was, the names a reader
    finds are tokens (so contain no LF, CR, SP, colon, control or 8-bit byte). -/
theorem emitted_names_are_tokens (s : Req) (hs : Fresh s) :
    ∀ f ∈ wireFields (finalHeaders s), isToken f.1 = true ∧ ∀ c ∈ f.1, 33 ≤ c ∧ c ≤ 126 ∧ c ≠ 58 := by
  intro f hf
  obtain ⟨p, hp, v, _, rfl⟩ := fields_come_from_dict _ f hf
  have ht := token_map_lower p.1 (canonKey_token _ ((finalHeaders_ok s hs).1 p hp))
  refine ⟨ht, fun c hc => ?_⟩
  have := tchar_visible c (((isToken_iff _).1 ht).2 c hc)
  exact ⟨this.1, this.2.1, this.2.2.1⟩

/-- **The head, byte by byte**: status line and one line per stored value, each ended by CR LF,
    then the empty line; no line contains a CR or an LF of its own — there is no bare LF and no
    extra line in the head, whatever names, values and reason the history passed. -/
theorem head_has_no_stray_line_break (s : Req) (hs : Fresh s) (h1 : 100 ≤ s.code) (h2 : s.code ≤ 999) :
    ∃ lines : List Bytes,
      writeHeaders s.proto11 s.code s.reason (finalHeaders s) = (lines.map (· ++ [13, 10])).flatten ++ [13, 10] ∧
      lines.length = 1 + (wireFields (finalHeaders s)).length ∧
      ∀ l ∈ lines, ∀ c ∈ l, c ≠ 10 ∧ c ≠ 13 := by
  refine ⟨((if s.proto11 then bs "HTTP/1.1" else bs "HTTP/1.0") ++ [SP] ++ decimal s.code ++ [SP] ++ fieldContent s.reason) :: fieldLineList (finalHeaders s), ?_, ?_, ?_⟩
  · have := writeHeaders_lines s.proto11 s.code s.reason (finalHeaders s) []
    simpa using this
  · simp [fieldLineList_length]; omega
  · intro l hl
    rcases List.mem_cons.1 hl with rfl | hl
    · exact clean_statusLine _ _ _ h1 h2
    · exact clean_fieldLineList _ (finalHeaders_ok s hs).1 l hl

/-- **What `setRawHeaders` stores**: every value with its line breaks replaced, in order, under the
    canonical name, replacing what was there; **what `removeHeader` leaves**: nothing under that name. -/
theorem setRaw_stores (s : Req) (x : Bytes) (vs : List Bytes) (h : isToken x = true) :
    (step s (.setRaw (.b x) (vs.map .b))).2 = none ∧
    dget (step s (.setRaw (.b x) (vs.map .b))).1.headers (canonical x) = some (vs.map sanitize) := by
  simp [step, encodeName, h, encValues_bytes, dget_dset]

theorem remove_removes (s : Req) (x : Bytes) (h : isToken x = true) :
    (step s (.remove (.b x))).2 = none ∧ dget (step s (.remove (.b x))).1.headers (canonical x) = none := by
  simp [step, encodeName, h, dget_dremove_self]

/-! ### Non-vacuity: concrete hostile histories -/

/-- reason phrase and value try to inject a header line and a body; one name is invalid; the
    cookie carries `;` and a line break; one Content-Length set as text -/
def exSetup : List Op :=
  [.setCode 200 (some (bs "OK\r\nX-Injected: yes")),
   .setHeader (.b (bs "x-a")) (.b (bs "1\r\nSet-Cookie: s=1\r\n\r\nbody")),
   .setHeader (.b (bs "a b")) (.b (bs "x")),
   .addHeader (.t [120, 45, 97]) (.t [233, 0, 10]),
   .addCookie (.t [107]) (.b (bs "v;\n")) { httpOnly := true }]

def exWrites : List Bytes := [bs "abc", [], bs "0\r\n\r\n"]

example : ∀ op ∈ exSetup, isSetup op = true := by decide

example : WellFormed (run (init true false false) exSetup).1 exWrites :=
  ⟨by decide, Or.inr (Or.inr (by decide)), Or.inr (Or.inr (by
    have h : (dget (run (init true false false) exSetup).1.headers (bs "Content-Length")).getD [] = [] := by decide
    rw [h]; trivial))⟩

-- the very response of the headline theorem, computed: one response, three fields, nothing injected
example : parseResponse false false
    (run (init true false false) (exSetup ++ (exWrites.map Op.write ++ [Op.finish]))).1.out =
    some ⟨200, bs "OK X-Injected: yes",
          [(bs "x-a", bs "1 Set-Cookie: s=1  body"), (bs "x-a", [195, 169]),
           (bs "transfer-encoding", bs "chunked"), (bs "set-cookie", bs "k=v ; HttpOnly")],
          bs "abc0\r\n\r\n"⟩ := by decide +kernel

-- the refused name is reported and leaves no trace
example : (run (init true false false) exSetup).2 = [(2, Err.invalidHeaderName)] := by decide +kernel

-- counted body on HTTP/1.0 with a truthful Content-Length given with surrounding blanks and a line break
example : WellFormed (run (init false false false) [.setHeader (.b (bs "content-length")) (.b (bs " 3\r\n"))]).1 [bs "ab", bs "c"] :=
  ⟨by decide, Or.inr (Or.inr (by decide)), Or.inr (Or.inr (by
    show (strip (fieldContent (bs " 3\r\n"))).all isDigit = true ∧ strip (fieldContent (bs " 3\r\n")) ≠ [] ∧
      decVal (strip (fieldContent (bs " 3\r\n"))) = [bs "ab", bs "c"].flatten.length
    decide))⟩

-- HEAD and 204: head only
example : (run (init true true false) [.write (bs "abc"), .finish]).1.out = bs "HTTP/1.1 200 OK\r\n\r\n" := by decide +kernel
example : Fresh (init true true true) ∧ ((init true true true).head || noBodyCode (init true true true).code) = true :=
  ⟨(init_fresh _ _ _).1, by decide⟩
example : (run (init false false false) [.setCode 204 none, .write (bs "abc"), .finish]).1.out
    = bs "HTTP/1.0 204 No Content\r\n\r\n" := by decide +kernel

-- framing: a fresh HTTP/1.1 GET 200 without Content-Length will chunk
example : willChunk (init true false true) = true ∧
    (dget (init true false true).headers (bs "Transfer-Encoding")).getD [] = [] := by decide

example : isToken (bs "a b") = false ∧ isToken (bs "X-A\r\nY") = false ∧ isToken (bs "x-a") = true ∧
    canonical (bs "x-a") = bs "X-A" ∧ canonical (bs "etag") = bs "ETag" := by decide
example : fieldContent (bs "a\r\nb\rc\nd\n") = bs "a b c d" ∧ fieldContent [97, 0, 11, 12, 98] = bs "a   b" := by decide
example : (wireFields [(bs "X-A", [bs "1", bs " 2 "]), (bs "Empty", [])]).length = 2 := by decide

-- the enlarged space: almost-token names (bytes and text, every naming call), setRawHeaders with several
-- values / none, removeHeader, interleaved with accepted calls
def exSetup2 : List Op :=
  [.setHeader (.b (bs "X-Foo")) (.b (bs "kept\n")),
   .setHeader (.b (bs "X-Foo\n")) (.b (bs "v")),
   .addHeader (.t [88, 45, 70, 111, 111, 10]) (.b (bs "v")),
   .setRaw (.b (bs "Set-Cookie\n")) [.b (bs "a=b")],
   .remove (.b (bs "X-Foo\n")),
   .setHeader (.t [88, 45, 70, 111, 111, 0x2028]) (.b (bs "v")),
   .setHeader (.b (bs "\nX-Foo")) (.b (bs "v")),
   .setHeader (.b (bs "X-\rFoo")) (.b (bs "v")),
   .setRaw (.b (bs "x-b")) [.b (bs "1\n"), .t [50, 13, 10, 88, 58, 32, 121], .b (bs "\n3")],
   .setRaw (.b (bs "content-length")) [],
   .setHeader (.b (bs "X-Gone")) (.b (bs "1")),
   .remove (.t [120, 45, 103, 111, 110, 101])]

example : ∀ op ∈ exSetup2, isSetup op = true := by decide
example : (exSetup2.filter fun op => !badName op).length = 5 := by decide
example : (run (init true false false) exSetup2).2 =
    [(1, .invalidHeaderName), (2, .invalidHeaderName), (3, .invalidHeaderName), (4, .invalidHeaderName),
     (5, .unicodeEncode), (6, .invalidHeaderName), (7, .invalidHeaderName)] := by decide +kernel
example : parseResponse false false
    (run (init true false false) (exSetup2 ++ ([bs "abc"].map Op.write ++ [Op.finish]))).1.out =
    some ⟨200, bs "OK",
          [(bs "x-foo", bs "kept"), (bs "x-b", bs "1"), (bs "x-b", bs "2 X: y"), (bs "x-b", bs "3"),
           (bs "transfer-encoding", bs "chunked")],
          bs "abc"⟩ := by decide +kernel
example : isToken (bs "X-Foo\n") = false ∧ isToken (bs "X-Foo") = true ∧ isTchar 10 = false ∧ isTchar 13 = false ∧
    isTchar 0x85 = false ∧ isTchar 32 = false ∧ isTchar 58 = false := by decide
example : ¬ (0x2028 < 256 ∧ isTchar (UInt8.ofNat 0x2028) = true) ∧ ¬ (0x141 < 256 ∧ isTchar (UInt8.ofNat 0x141) = true) ∧
    isTchar (UInt8.ofNat 0x141) = true := by decide

-- set-up calls between the writes (a header set, a name with a trailing LF, a status change, a cookie, a removal
-- after the head has gone out): same response as without them
example : Op.finish ∉ [Op.setHeader (.b (bs "X-Late")) (.b (bs "1")), .write (bs "de"), .setHeader (.b (bs "X-Late\n")) (.b (bs "1")),
    .setCode 404 none, .remove (.b (bs "x-foo")), .write [], .addCookie (.b (bs "k")) (.b (bs "v")) {}, .write (bs "f")] := by decide
example : parseResponse false false
    (run (init true false false) (exSetup2 ++ (Op.write (bs "abc") ::
      ([Op.setHeader (.b (bs "X-Late")) (.b (bs "1")), .write (bs "de"), .setHeader (.b (bs "X-Late\n")) (.b (bs "1")),
        .setCode 404 none, .remove (.b (bs "x-foo")), .write [], .addCookie (.b (bs "k")) (.b (bs "v")) {}, .write (bs "f")]
        ++ [Op.finish])))).1.out =
    some ⟨200, bs "OK",
          [(bs "x-foo", bs "kept"), (bs "x-b", bs "1"), (bs "x-b", bs "2 X: y"), (bs "x-b", bs "3"),
           (bs "transfer-encoding", bs "chunked")],
          bs "abcdef"⟩ := by decide +kernel

-- any history: set-up, writes and late set-up calls mixed, finish, then more calls
example : parseResponse false false
    (run (init true false false)
      ([Op.setHeader (.b (bs "X-A\n")) (.b (bs "0")), .setHeader (.b (bs "x-a")) (.b (bs "1\n")), .write (bs "ab"),
        .setHeader (.b (bs "x-a")) (.b (bs "2")), .setCode 500 none, .write (bs "c")]
       ++ Op.finish :: [.write (bs "zz"), .finish, .setHeader (.b (bs "X-B")) (.b (bs "3"))])).1.out =
    some ⟨200, bs "OK", [(bs "x-a", bs "1"), (bs "transfer-encoding", bs "chunked")], bs "abc"⟩ := by decide +kernel
example : writesOf [Op.setHeader (.b (bs "x-a")) (.b (bs "1\n")), .write (bs "ab"), .setCode 500 none, .write (bs "c")] = [bs "ab", bs "c"] ∧
    [Op.setHeader (.b (bs "x-a")) (.b (bs "1\n")), .write (bs "ab"), .setCode 500 none, .write (bs "c")].takeWhile isSetup =
      [Op.setHeader (.b (bs "x-a")) (.b (bs "1\n"))] := by decide

/-! ### the request's Connection header; several requests on one connection (white-box audit) -/

/-- what decides whether the connection is closed: a finished request has closed it iff the channel is not persistent -/
def ClosedInv (r : Req) : Prop := r.finished = true → r.closed = !r.persistent

theorem write_keeps (r : Req) (d : Bytes) :
    (write r d).1.finished = r.finished ∧ (write r d).1.closed = r.closed ∧ (write r d).1.persistent = r.persistent := by
  unfold write
  split
  · exact ⟨rfl, rfl, rfl⟩
  · split
    · exact ⟨rfl, rfl, rfl⟩
    · by_cases hs : r.started = true
      · simp only [hs, if_true]
        split <;> (try split) <;> (try split) <;> exact ⟨rfl, rfl, rfl⟩
      · simp only [hs, if_false, Bool.false_eq_true]
        split <;> (try split) <;> (try split) <;> exact ⟨rfl, rfl, rfl⟩

theorem finish_keeps (r : Req) (hf : r.finished = false) :
    (finish r).persistent = r.persistent ∧ (finish r).finished = true ∧ (finish r).closed = !r.persistent := by
  obtain ⟨h1, h2, h3⟩ := write_keeps r []
  unfold finish
  simp only [hf, Bool.false_eq_true, if_false]
  by_cases hs : r.started = true
  · simp only [hs, if_true]
    split <;> simp
  · simp only [hs, if_false, Bool.false_eq_true]
    split <;> simp [h3]

theorem step_keeps (r : Req) (op : Op) :
    (step r op).1.persistent = r.persistent ∧ ((step r op).1.finished = r.finished ∧ (step r op).1.closed = r.closed ∨
      (r.finished = false ∧ (step r op).1.finished = true ∧ (step r op).1.closed = !r.persistent)) := by
  by_cases hop : isSetup op = true
  · have := wire_setup r op hop
    simp only [wire, Prod.mk.injEq] at this
    exact ⟨this.2.2.1, Or.inl ⟨this.2.2.2.2.2.2.1, this.2.2.2.2.2.2.2.2⟩⟩
  · cases op with
    | write d =>
      obtain ⟨h1, h2, h3⟩ := write_keeps r d
      exact ⟨h3, Or.inl ⟨h1, h2⟩⟩
    | finish =>
      by_cases hf : r.finished = true
      · simp [step, finish, hf]
      · have hf' : r.finished = false := by simpa using hf
        obtain ⟨a, b, c⟩ := finish_keeps r hf'
        exact ⟨a, Or.inr ⟨hf', b, c⟩⟩
    | setCode _ _ => simp [isSetup] at hop
    | setHeader _ _ => simp [isSetup] at hop
    | addHeader _ _ => simp [isSetup] at hop
    | setRaw _ _ => simp [isSetup] at hop
    | remove _ => simp [isSetup] at hop
    | addCookie _ _ _ => simp [isSetup] at hop

theorem runFrom_closedInv (ops : List Op) : ∀ (r : Req) (i : Nat), ClosedInv r →
    ClosedInv (runFrom r i ops).1 ∧ (runFrom r i ops).1.persistent = r.persistent := by
  induction ops with
  | nil => intro r i h; exact ⟨h, rfl⟩
  | cons op ops ih =>
    intro r i h
    rw [runFrom_cons_fst]
    obtain ⟨hp, hk⟩ := step_keeps r op
    have h' : ClosedInv (step r op).1 := by
      intro hf
      rcases hk with ⟨h1, h2⟩ | ⟨_, _, h3⟩
      · rw [h2, hp]; exact h (h1 ▸ hf)
      · rw [h3, hp]
    obtain ⟨a, b⟩ := ih _ (i + 1) h'
    exact ⟨a, b.trans hp⟩

/-- **The connection is closed exactly when the channel is not persistent**, after every history that finishes -/
theorem closed_iff_not_persistent (p11 head cc : Bool) (pre tail : List Op) :
    (run (init p11 head cc) (pre ++ Op.finish :: tail)).1.closed = !(p11 && !cc) := by
  have hinv : ClosedInv (init p11 head cc) := by intro h; simp [init] at h
  obtain ⟨a, b⟩ := runFrom_closedInv (pre ++ Op.finish :: tail) (init p11 head cc) 0 hinv
  have hfin : (run (init p11 head cc) (pre ++ Op.finish :: tail)).1.finished = true := by
    have e : pre ++ Op.finish :: tail = (pre ++ [Op.finish]) ++ tail := by simp
    show (runFrom _ 0 _).1.finished = true
    rw [e, runFrom_append_fst]
    have h0 := run_snoc_finish_finished (init p11 head cc) pre
    have := runFrom_finished tail _ (0 + (pre ++ [Op.finish]).length) h0
    simp only [wire, Prod.mk.injEq] at this
    exact this.2.2.2.2.2.2.1.trans h0
  have := a hfin
  rw [b] at this
  exact this

/-- **An HTTP/1.0 response always ends with the connection being closed**, whatever the request's Connection header
    asked for (`keep-alive` included): without a Content-Length nothing else delimits its body. -/
theorem http10_response_closes_connection (head : Bool) (conn : Option Bytes) (pre tail : List Op) :
    (run (initConn false head conn) (pre ++ Op.finish :: tail)).1.closed = true := by
  unfold initConn
  rw [closed_iff_not_persistent]; rfl

/-- **C20 for every `Connection` request header.** -/
theorem emits_one_wellformed_response_any_connection_header (p11 head : Bool) (conn : Option Bytes) (pre tail : List Op)
    (hnf : Op.finish ∉ pre)
    (wf : WellFormed (run (initConn p11 head conn) (pre.takeWhile isSetup)).1 (writesOf pre)) :
    let s := (run (initConn p11 head conn) (pre.takeWhile isSetup)).1
    let r := (run (initConn p11 head conn) (pre ++ Op.finish :: tail)).1
    parseResponse head r.closed r.out =
      some ⟨s.code, fieldContent s.reason, wireFields (finalHeaders s),
            if head || noBodyCode s.code then [] else (writesOf pre).flatten⟩ :=
  emits_one_wellformed_response_any_history p11 head _ pre tail hnf wf

example : connClose (bs "keep-alive, close") = true ∧ connClose (bs "keep-alive,close") = false ∧ connClose (bs " Close\t") = true ∧
    connClose (bs "keep-alive") = false ∧ connClose [] = false := by decide
example : (run (initConn false false (some (bs "keep-alive"))) [.write (bs "abc"), .finish]).1.closed = true ∧
    (run (initConn true false (some (bs "keep-alive"))) [.write (bs "abc"), .finish]).1.closed = false := by decide +kernel

end TwistedProps.C20
