import TwistedProps.C20.Final
/-!
C20 — HTTP server responses are framed exactly and headers cannot be injected.

Statement (given): for any status code and reason phrase, response headers and cookies with
arbitrary names and values (text or bytes, including CR, LF and non-ASCII), and any sequence of
writes followed by finish, the bytes the server emits parse, with an independent HTTP/1.1 parser,
as exactly one response with that status, exactly the headers set (line breaks in values replaced
by spaces, invalid names refused when set) and a body equal to the concatenation of the writes.
HEAD requests and 204/304 responses carry no body, and framing (chunked or Content-Length) is
consistent with the body.

Here: `Response.run` is the model of `Request`/`Headers`/`HTTPChannel.writeHeaders` (tied to the
code on every run), `Rfc9112.parseResponse` the independent reader (tied to h11 on every run).
The quantifiers are: every request context (HTTP/1.0 or 1.1, HEAD or not, `Connection: close` or
not), every history `setup` of set-up calls (setResponseCode / setHeader / addRawHeader / addCookie
in any number and order, every argument any `bytes` or any `str`, refused calls included), every
list of writes.  Preconditions (`WellFormed`, all decidable, all from the statement's own reading):
the status code is a three-digit final status; the application does not set Transfer-Encoding
itself; a Content-Length it sets is single and truthful.
-/
namespace TwistedProps.C20
open Twisted.Http.Response
open Twisted.Http.Rfc9112 (parseResponse Resp strip fieldValues decVal)
open Twisted.Http.Chunked (isDigit)

/-- the preconditions on the application, evaluated on the request as it stands before the
    first write (they matter only for a response that may carry a body) -/
structure WellFormed (s : Req) (ws : List Bytes) : Prop where
  code : 200 ≤ s.code ∧ s.code ≤ 999
  noTE : s.head = true ∨ noBodyCode s.code = true ∨
    (dget s.headers (bs "Transfer-Encoding")).getD [] = []
  lengthTruthful : s.head = true ∨ noBodyCode s.code = true ∨
    match (dget s.headers (bs "Content-Length")).getD [] with
    | [] => True
    | [v] => (strip (fieldContent v)).all isDigit = true ∧ strip (fieldContent v) ≠ [] ∧
             decVal (strip (fieldContent v)) = ws.flatten.length
    | _ => False

/-- **C20, reading side.**  For a request nothing has been written for, whatever its status,
    reason, dict and cookies: the bytes written by any list of writes and finish are read by the
    reference parser as exactly one response — that status, the reason as written, exactly the
    fields of the final dict, and the concatenated writes as body (no body for HEAD/204/304). -/
theorem fresh_emits_one_response (s : Req) (hs : Fresh s) (p11 head cc : Bool) (hc : Ctx s p11 head cc)
    (ws : List Bytes) (wf : WellFormed s ws) :
    parseResponse head (finish (writeAll s ws)).closed (finish (writeAll s ws)).out =
      some ⟨s.code, fieldContent s.reason, wireFields (finalHeaders s),
            if s.head || noBodyCode s.code then [] else ws.flatten⟩ := by
  obtain ⟨hout, hclosed⟩ := emit_shape s hs ws
  obtain ⟨hp, hh, hpers⟩ := hc
  have hcode1 : 100 ≤ s.code := by have := wf.code.1; omega
  rw [hout, hclosed, writeHeaders_lines]
  have hH := finalHeaders_ok s hs
  have hshape : ∀ l ∈ ((if s.proto11 then bs "HTTP/1.1" else bs "HTTP/1.0") ++ [SP] ++ decimal s.code ++ [SP] ++
      fieldContent s.reason) :: fieldLineList (finalHeaders s), l ≠ [] ∧ (10 : UInt8) ∉ l := by
    intro l hl
    rcases List.mem_cons.1 hl with rfl | hl
    · exact statusLine_shape s.proto11 s.code s.reason hcode1 wf.code.2
    · exact fieldLineList_shape _ hH.1 l hl
  unfold parseResponse
  rw [headLines_lines _ hshape]
  simp only
  rw [parseStatusLine_emitted s.proto11 s.code s.reason hcode1 wf.code.2, parseFieldLines_dict _ hH.1]
  simp only
  have hte : Twisted.Http.Rfc9112.transfer_encoding = (bs "Transfer-Encoding").map lower := by decide
  have hcl : Twisted.Http.Rfc9112.content_length = (bs "Content-Length").map lower := by decide
  rw [hte, hcl, fieldValues_dict _ hH _ canon_TE, fieldValues_dict _ hH _ canon_CL, finalHeaders_TE, finalHeaders_CL]
  by_cases hnb : (s.head || noBodyCode s.code) = true
  · -- HEAD / 204 / 304: nothing follows the head
    have : (head || decide (s.code = 204) || decide (s.code = 304)) = true := by
      rw [← hh]
      simp only [noBodyCode, Bool.or_eq_true, decide_eq_true_eq] at hnb ⊢
      rcases hnb with h | h | h <;> simp [h]
    simp [this, hnb]
  · have hnb' : (s.head || noBodyCode s.code) = false := by simpa using hnb
    have hsh : s.head = false := by cases h : s.head <;> simp_all
    have hsc : noBodyCode s.code = false := by cases h : noBodyCode s.code <;> simp_all
    have : (head || decide (s.code = 204) || decide (s.code = 304)) = false := by
      rw [← hh, hsh]
      simpa [noBodyCode] using hsc
    simp only [this, hnb', Bool.false_eq_true, if_false]
    by_cases hch : willChunk s = true
    · -- chunked
      have hmiss : (dget s.headers (bs "Content-Length")).getD [] = [] := by
        apply (dmissing_iff _ _).1
        unfold willChunk at hch
        simp only [Bool.and_eq_true] at hch
        exact hch.1.1.2
      have hfuel : ((ws.filter (· ≠ [])).length) < (chunksOf ws ++ [48, 13, 10, 13, 10]).length + 1 := by
        have := chunksOf_length ws
        simp only [List.length_append]; omega
      have hpc := parseChunks_chunksOf ws [] _ hfuel
      have e : chunksOf ws ++ [48, 13, 10, 13, 10] = chunksOf ws ++ 48 :: 13 :: 10 :: 13 :: 10 :: [] := rfl
      rw [← e] at hpc
      have hck2 : List.map Twisted.Http.Rfc9112.lower (strip (fieldContent (bs "chunked"))) =
          Twisted.Http.Rfc9112.chunked := by decide
      have hlen : List.length (chunksOf ws) + 5 + 1 = List.length (chunksOf ws ++ [48, 13, 10, 13, 10]) + 1 := by simp
      simp [hch, hmiss, hck2]
      rw [hlen, hpc]
    · -- counted, or delimited by closing
      have hch' : willChunk s = false := by simpa using hch
      have hnoTE : (dget s.headers (bs "Transfer-Encoding")).getD [] = [] := by
        rcases wf.noTE with h | h | h
        · simp [hsh] at h
        · simp [hsc] at h
        · exact h
      simp only [hch', Bool.false_eq_true, if_false, hnoTE, List.map_nil, ne_eq, not_true_eq_false]
      have hlt := wf.lengthTruthful
      rcases hlt with h | h | hlt
      · simp [hsh] at h
      · simp [hsc] at h
      · cases hv : (dget s.headers (bs "Content-Length")).getD [] with
        | nil =>
          -- no Content-Length and not chunked: HTTP/1.0, the channel closes the connection
          have hp10 : s.proto11 = false := by
            unfold willChunk at hch'
            have hm := (dmissing_iff s.headers (bs "Content-Length")).2 hv
            simp [hm, hsh, hsc] at hch'
            exact hch'
          have : s.persistent = false := by rw [hpers, ← hp, hp10]; rfl
          simp [this]
        | cons v vs =>
          rw [hv] at hlt
          cases vs with
          | nil =>
            simp only at hlt
            obtain ⟨h1, h2, h3⟩ := hlt
            simp [h1, h2, h3]
          | cons v2 vs => simp at hlt

/-- **C20 (headline).**  Every history: any request context, any set-up calls with any arguments
    (refused ones included), any writes, finish.  The emitted bytes are exactly one response for
    the reference parser; status, reason, fields and body are those of the request as the set-up
    calls left it (`s`); nothing else can be read out of the bytes. -/
theorem emits_one_wellformed_response (p11 head cc : Bool) (setup : List Op) (ws : List Bytes)
    (hsetup : ∀ op ∈ setup, isSetup op = true)
    (wf : WellFormed (run (init p11 head cc) setup).1 ws) :
    let s := (run (init p11 head cc) setup).1
    let r := (run (init p11 head cc) (setup ++ (ws.map Op.write ++ [Op.finish]))).1
    parseResponse head r.closed r.out =
      some ⟨s.code, fieldContent s.reason, wireFields (finalHeaders s),
            if head || noBodyCode s.code then [] else ws.flatten⟩ := by
  intro s r
  obtain ⟨hi1, hi2⟩ := init_fresh p11 head cc
  obtain ⟨hs, hc⟩ := runFrom_setup setup hsetup p11 head cc _ 0 hi1 hi2
  have hr : r = finish (writeAll s ws) := by
    show (runFrom _ 0 _).1 = _
    rw [runFrom_append_fst, runFrom_writes_finish]
    rfl
  rw [hr]
  have := fresh_emits_one_response s hs p11 head cc hc ws wf
  have hh : s.head = head := hc.2.1
  rw [hh] at this
  exact this

/-- **No header injection**: every field a reader finds was stored under that name by the
    application (or is one of `Transfer-Encoding: chunked`, `Connection: close`, `Set-Cookie`
    from `addCookie`), one field per stored value — whatever bytes the values contain. -/
theorem fields_come_from_dict (d : Dict) (f : Bytes × Bytes) (hf : f ∈ wireFields d) :
    ∃ p ∈ d, ∃ v ∈ p.2, f = (p.1.map lower, strip (fieldContent v)) := by
  simp only [wireFields, List.mem_flatMap, List.mem_map] at hf
  obtain ⟨p, hp, v, hv, rfl⟩ := hf
  exact ⟨p, hp, v, hv, rfl⟩

theorem field_count (d : Dict) : (wireFields d).length = (d.map fun p => p.2.length).sum := by
  induction d with
  | nil => rfl
  | cons p d ih => simp [wireFields, List.flatMap_cons] at ih ⊢; try omega

/-- **Framing is consistent**: `Transfer-Encoding: chunked` is present exactly when the body is
    sent in chunks, never together with a Content-Length, and never on HEAD / 204 / 304 or HTTP/1.0. -/
theorem framing_consistent (s : Req) (hs : Fresh s)
    (hnoTE : (dget s.headers (bs "Transfer-Encoding")).getD [] = []) :
    fieldValues (wireFields (finalHeaders s)) ((bs "Transfer-Encoding").map lower) =
        (if willChunk s then [bs "chunked"] else [])
    ∧ (willChunk s = true → fieldValues (wireFields (finalHeaders s)) ((bs "Content-Length").map lower) = [])
    ∧ (willChunk s = true → s.proto11 = true ∧ s.head = false ∧ noBodyCode s.code = false) := by
  have hH := finalHeaders_ok s hs
  refine ⟨?_, ?_, ?_⟩
  · rw [fieldValues_dict _ hH _ canon_TE, finalHeaders_TE]
    split
    · decide
    · simp [hnoTE]
  · intro hch
    rw [fieldValues_dict _ hH _ canon_CL, finalHeaders_CL]
    unfold willChunk at hch
    simp only [Bool.and_eq_true] at hch
    simp [(dmissing_iff _ _).1 hch.1.1.2]
  · intro hch
    unfold willChunk at hch
    simp only [Bool.and_eq_true, Bool.not_eq_true'] at hch
    exact ⟨hch.1.1.1, hch.1.2, hch.2⟩

/-- HEAD requests and 204 / 304 responses: the bytes written are the head and nothing else,
    whatever is passed to `write`. -/
theorem no_body_when_forbidden (s : Req) (hs : Fresh s) (ws : List Bytes) (h : (s.head || noBodyCode s.code) = true) :
    (finish (writeAll s ws)).out = writeHeaders s.proto11 s.code s.reason (finalHeaders s) := by
  rw [(emit_shape s hs ws).1]; simp [h]

/-- **Invalid names are refused when set**, and a refused call changes nothing. -/
theorem invalid_name_refused (s : Req) (x : Bytes) (value : Str) (h : isToken x = false) :
    step s (.setHeader (.b x) value) = (s, some .invalidHeaderName) := by
  simp [step, encodeName, h]

/-- **What `setHeader` stores**: the value with its line breaks replaced (`sanitize`), under the
    canonical name; it replaces what was stored under that name. -/
theorem setHeader_stores (s : Req) (x v : Bytes) (h : isToken x = true) :
    (step s (.setHeader (.b x) (.b v))).2 = none ∧
    dget (step s (.setHeader (.b x) (.b v))).1.headers (canonical x) = some [sanitize v] := by
  simp [step, encodeName, h, encValue, dget_dset]

/-- what is written for a stored value or a reason phrase never contains CR, LF, NUL, VT or FF,
    and is the value itself when the value contains none of them -/
theorem written_content_safe (b : Bytes) :
    (∀ c ∈ fieldContent b, c ≠ 13 ∧ c ≠ 10 ∧ c ≠ 0 ∧ c ≠ 11 ∧ c ≠ 12) ∧
    ((∀ c ∈ b, c ≠ 13 ∧ c ≠ 10 ∧ c ≠ 0 ∧ c ≠ 11 ∧ c ≠ 12) → fieldContent b = b) := by
  have key : ∀ c : UInt8, Twisted.Http.Rfc9112.okByte c = true ↔ (c ≠ 13 ∧ c ≠ 10 ∧ c ≠ 0 ∧ c ≠ 11 ∧ c ≠ 12) := by
    apply forall_uint8; decide +kernel
  exact ⟨fun c hc => (key c).1 (fieldContent_ok b c hc), fun h => fieldContent_id b fun c hc => (key c).2 (h c hc)⟩

/-! ### Non-vacuity: concrete hostile histories -/

/-- reason phrase and value try to inject a header line and a body; one name is invalid; the
    cookie carries `;` and a line break; one Content-Length set as text -/
def exSetup : List Op :=
  [.setCode 200 (some (bs "OK\r\nX-Injected: yes")),
   .setHeader (.b (bs "x-a")) (.b (bs "1\r\nSet-Cookie: s=1\r\n\r\nbody")),
   .setHeader (.b (bs "a b")) (.b (bs "x")),
   .addHeader (.t [120, 45, 97]) (.t [233, 0, 10]),
   .addCookie (.t [107]) (.b (bs "v;\n")) { httpOnly := true }]

def exWrites : List Bytes := [bs "abc", [], bs "0\r\n\r\n"]

example : ∀ op ∈ exSetup, isSetup op = true := by decide

example : WellFormed (run (init true false false) exSetup).1 exWrites :=
  ⟨by decide, Or.inr (Or.inr (by decide)), Or.inr (Or.inr (by
    have h : (dget (run (init true false false) exSetup).1.headers (bs "Content-Length")).getD [] = [] := by decide
    rw [h]; trivial))⟩

-- the very response of the headline theorem, computed: one response, three fields, nothing injected
example : parseResponse false false
    (run (init true false false) (exSetup ++ (exWrites.map Op.write ++ [Op.finish]))).1.out =
    some ⟨200, bs "OK X-Injected: yes",
          [(bs "x-a", bs "1 Set-Cookie: s=1  body"), (bs "x-a", [195, 169]),
           (bs "transfer-encoding", bs "chunked"), (bs "set-cookie", bs "k=v ; HttpOnly")],
          bs "abc0\r\n\r\n"⟩ := by decide +kernel

-- the refused name is reported and leaves no trace
example : (run (init true false false) exSetup).2 = [(2, Err.invalidHeaderName)] := by decide +kernel

-- counted body on HTTP/1.0 with a truthful Content-Length given with surrounding blanks and a line break
example : WellFormed (run (init false false false) [.setHeader (.b (bs "content-length")) (.b (bs " 3\r\n"))]).1 [bs "ab", bs "c"] :=
  ⟨by decide, Or.inr (Or.inr (by decide)), Or.inr (Or.inr (by
    show (strip (fieldContent (bs " 3\r\n"))).all isDigit = true ∧ strip (fieldContent (bs " 3\r\n")) ≠ [] ∧
      decVal (strip (fieldContent (bs " 3\r\n"))) = [bs "ab", bs "c"].flatten.length
    decide))⟩

-- HEAD and 204: head only
example : (run (init true true false) [.write (bs "abc"), .finish]).1.out = bs "HTTP/1.1 200 OK\r\n\r\n" := by decide +kernel
example : Fresh (init true true true) ∧ ((init true true true).head || noBodyCode (init true true true).code) = true :=
  ⟨(init_fresh _ _ _).1, by decide⟩
example : (run (init false false false) [.setCode 204 none, .write (bs "abc"), .finish]).1.out
    = bs "HTTP/1.0 204 No Content\r\n\r\n" := by decide +kernel

-- framing: a fresh HTTP/1.1 GET 200 without Content-Length will chunk
example : willChunk (init true false true) = true ∧
    (dget (init true false true).headers (bs "Transfer-Encoding")).getD [] = [] := by decide

example : isToken (bs "a b") = false ∧ isToken (bs "X-A\r\nY") = false ∧ isToken (bs "x-a") = true ∧
    canonical (bs "x-a") = bs "X-A" ∧ canonical (bs "etag") = bs "ETag" := by decide
example : fieldContent (bs "a\r\nb\rc\nd\n") = bs "a b c d" ∧ fieldContent [97, 0, 11, 12, 98] = bs "a   b" := by decide
example : (wireFields [(bs "X-A", [bs "1", bs " 2 "]), (bs "Empty", [])]).length = 2 := by decide

end TwistedProps.C20
