import TwistedProps.C52.FsLemmas
import TwistedModel.Fs.SetContent
/-!
C52 — atomic file replacement keeps old or new content at every crash point.

For any old and new content, a process crash at any point during `FilePath.setContent`, or
while a persisted application is saved (`sob.Persistent.save`), leaves the target path with
either the complete old content or the complete new content; only temporary files may be
left behind.

"At any point" = every cut `(k, p)` of the primitive trace (`Fs/Sim.lean`): `k` primitives done,
and if the next one is a write, any prefix (`p` bytes) of it.  "Old content" includes "the
target did not exist" (`get fs target = none`).  All theorems are for every directory state
`fs` (any bystander files, stale temporaries, …), every name, every content, every cut.

Second half (white-box audit): the same when the process dies by an exception raised at the cut (`failAt`),
when the dump function of `save` raises, and after any history of earlier calls on the same object.
-/
namespace TwistedProps.C52
open Twisted.Fs Twisted.Fs.SetContent

/-- write-to-temporary-then-rename, the common shape of both functions -/
def replaceTrace (s t : Name) (c : Bytes) : List Prim := [.create s] ++ writeP s c ++ [.rename s t]

/-- Every crash state of write-temporary-then-rename is, as a finite map, one of three shapes:
    untouched; untouched plus a temporary holding a prefix of the content; or replaced
    (temporary gone). -/
theorem replace_crash_shapes (fs : Fs) (s t : Name) (c : Bytes) (k p : Nat) :
    (∀ m, get (crashAt (replaceTrace s t c) k p fs) m = get fs m) ∨
    (∃ q, q <+: c ∧ ∀ m, get (crashAt (replaceTrace s t c) k p fs) m = if m = s then some q else get fs m) ∨
    (∀ m, get (crashAt (replaceTrace s t c) k p fs) m =
        if m = t then some c else if m = s then none else get fs m) := by
  by_cases hc : c = []
  · subst hc
    rcases k with _ | _ | k
    · left; intro m; simp [replaceTrace, writeP, crashAt]
    · right; left; refine ⟨[], List.prefix_refl _, ?_⟩
      intro m; simp [replaceTrace, writeP, crashAt, get_apply_create]
    · right; right; intro m
      simp [replaceTrace, writeP, crashAt, get_apply_create, get_apply_rename]
      by_cases h1 : m = t <;> by_cases h2 : m = s <;> simp [h1, h2]
  · have hw : writeP s c = [.write s c] := by
      cases c with
      | nil => exact absurd rfl hc
      | cons x xs => simp [writeP]
    rcases k with _ | _ | _ | k
    · left; intro m; simp [replaceTrace, hw, crashAt]
    · right; left; refine ⟨c.take p, List.take_prefix _ _, ?_⟩
      intro m; simp [replaceTrace, hw, crashAt, get_apply_create, get_apply_write]
      by_cases h2 : m = s <;> simp [h2]
    · right; left; refine ⟨c, List.prefix_refl _, ?_⟩
      intro m; simp [replaceTrace, hw, crashAt, get_apply_create, get_apply_write]
      by_cases h2 : m = s <;> simp [h2]
    · right; right; intro m
      simp [replaceTrace, hw, crashAt, get_apply_create, get_apply_write, get_apply_rename]
      by_cases h1 : m = t <;> by_cases h2 : m = s <;> simp [h1, h2]

/-- target: old or new, at every cut (needs only that the temporary is not the target itself) -/
theorem replace_target_old_or_new (fs : Fs) (s t : Name) (c : Bytes) (hst : s ≠ t) (k p : Nat) :
    get (crashAt (replaceTrace s t c) k p fs) t = get fs t ∨
    get (crashAt (replaceTrace s t c) k p fs) t = some c := by
  have hts : ¬ t = s := fun h => hst h.symm
  rcases replace_crash_shapes fs s t c k p with h | ⟨q, _, h⟩ | h
  · left; exact h t
  · left; rw [h t]; simp [hts]
  · right; rw [h t]; simp

/-- everything except the target and the temporary is untouched, at every cut -/
theorem replace_others_untouched (fs : Fs) (s t : Name) (c : Bytes) (k p : Nat) (m : Name)
    (hmt : m ≠ t) (hms : m ≠ s) :
    get (crashAt (replaceTrace s t c) k p fs) m = get fs m := by
  rcases replace_crash_shapes fs s t c k p with h | ⟨q, _, h⟩ | h
  · exact h m
  · rw [h m]; simp [hms]
  · rw [h m]; simp [hmt, hms]

/-- the uncut run installs the new content and leaves no temporary -/
theorem replace_complete (fs : Fs) (s t : Name) (c : Bytes) (hst : s ≠ t) :
    get (run (replaceTrace s t c) fs) t = some c ∧ get (run (replaceTrace s t c) fs) s = none := by
  have h3 := replace_crash_shapes fs s t c ((replaceTrace s t c).length) 0
  rw [crashAt_ge _ _ _ _ (Nat.le_refl _)] at h3
  -- identify the shape by looking at the completed run directly
  have hfull : ∀ m, get (run (replaceTrace s t c) fs) m =
      if m = t then some c else if m = s then none else get fs m := by
    intro m
    by_cases hc : c = []
    · subst hc
      simp [replaceTrace, writeP, get_apply_create, get_apply_rename]
      by_cases h1 : m = t <;> by_cases h2 : m = s <;> simp [h1, h2]
    · have hw : writeP s c = [.write s c] := by
        cases c with
        | nil => exact absurd rfl hc
        | cons x xs => simp [writeP]
      simp [replaceTrace, hw, get_apply_create, get_apply_write, get_apply_rename]
      by_cases h1 : m = t <;> by_cases h2 : m = s <;> simp [h1, h2]
  constructor
  · rw [hfull t]; simp
  · rw [hfull s]; simp [hst]

/-! ### `FilePath.setContent` -/

theorem setContentTrace_ok (fs : Fs) (base rnd ext : Name) (content : Bytes) (tr : List Prim)
    (h : setContentTrace fs base rnd ext content = .ok tr) :
    tr = replaceTrace (sibName rnd base ext) base content := by
  simp only [setContentTrace] at h
  split at h
  · cases h
  · injection h with h; exact h.symm

/-- the temporary sibling is never the target: its name is strictly longer (16 random characters in
    front — one suffices) -/
theorem sibName_ne_base (rnd base ext : Name) (hr : rnd ≠ []) : sibName rnd base ext ≠ base := by
  intro h
  have hl := congrArg List.length h
  simp [sibName] at hl
  have : 0 < rnd.length := List.length_pos_iff.mpr hr
  omega

/-- **C52 (setContent), target.**  For every directory state, names, new content and every crash
    point `(k, p)` of `setContent`, the target holds exactly what it held before (possibly: did
    not exist) or exactly the complete new content. -/
theorem setContent_target_old_or_new (fs : Fs) (base rnd ext : Name) (content : Bytes)
    (tr : List Prim) (hr : rnd ≠ [])
    (h : setContentTrace fs base rnd ext content = .ok tr) (k p : Nat) :
    get (crashAt tr k p fs) base = get fs base ∨ get (crashAt tr k p fs) base = some content := by
  rw [setContentTrace_ok fs base rnd ext content tr h]
  exact replace_target_old_or_new fs _ base content (sibName_ne_base rnd base ext hr) k p

/-- **C52 (setContent), only temporaries.**  At every crash point every name other than the
    target and the temporary sibling `rnd ++ basename ++ ext` is bound exactly as before. -/
theorem setContent_only_temporary_left (fs : Fs) (base rnd ext : Name) (content : Bytes)
    (tr : List Prim) (h : setContentTrace fs base rnd ext content = .ok tr) (k p : Nat) (m : Name)
    (hm : m ≠ base) (hs : m ≠ sibName rnd base ext) :
    get (crashAt tr k p fs) m = get fs m := by
  rw [setContentTrace_ok fs base rnd ext content tr h]
  exact replace_others_untouched fs _ base content k p m hm hs

/-- **C52 (setContent), completion.**  Without a crash the target holds the new content and the
    temporary is gone. -/
theorem setContent_complete (fs : Fs) (base rnd ext : Name) (content : Bytes)
    (tr : List Prim) (hr : rnd ≠ [])
    (h : setContentTrace fs base rnd ext content = .ok tr) :
    get (run tr fs) base = some content ∧ get (run tr fs) (sibName rnd base ext) = none := by
  rw [setContentTrace_ok fs base rnd ext content tr h]
  exact replace_complete fs _ base content (sibName_ne_base rnd base ext hr)

/-- `setContent` refuses to run (FileExistsError from `O_EXCL`, nothing touched) exactly when the
    "unpredictable" sibling already exists. -/
theorem setContent_refused_iff (fs : Fs) (base rnd ext : Name) (content : Bytes) :
    setContentTrace fs base rnd ext content = .error .fileExists ↔
      exists_ fs (sibName rnd base ext) = true := by
  simp only [setContentTrace]
  split <;> simp_all

/-! ### `sob.Persistent.save` -/

theorem saveTrace_eq (name : Name) (filename tag : Option Name) (ext : Name) (data : Bytes) :
    saveTrace name filename tag ext data =
      replaceTrace (getFilename name filename tag ext).2 (getFilename name filename tag ext).1 data := rfl

/-- the temporary name is two bytes longer than the final name (`-2` inserted or appended) -/
theorem getFilename_length (name : Name) (filename tag : Option Name) (ext : Name) :
    (getFilename name filename tag ext).2.length = (getFilename name filename tag ext).1.length + 2 := by
  unfold getFilename
  split <;> (try split) <;> (try split) <;> (try split) <;>
    simp [sDot, sDash, sDash2, sDash2Dot] <;> omega

theorem getFilename_tmp_ne_final (name : Name) (filename tag : Option Name) (ext : Name) :
    (getFilename name filename tag ext).2 ≠ (getFilename name filename tag ext).1 := by
  intro h
  have := getFilename_length name filename tag ext
  rw [h] at this
  omega

/-- **C52 (save), target.**  For every directory state (stale `-2` temporary included), every
    name/tag/filename, every serialised form `data` and every crash point of `Persistent.save`,
    the final file holds exactly its old content (or is still absent) or exactly `data`. -/
theorem save_target_old_or_new (fs : Fs) (name : Name) (filename tag : Option Name) (ext : Name)
    (data : Bytes) (k p : Nat) :
    let final := (getFilename name filename tag ext).1
    get (crashAt (saveTrace name filename tag ext data) k p fs) final = get fs final ∨
    get (crashAt (saveTrace name filename tag ext data) k p fs) final = some data := by
  intro final
  rw [saveTrace_eq]
  exact replace_target_old_or_new fs _ _ data (getFilename_tmp_ne_final name filename tag ext) k p

/-- **C52 (save), only temporaries.**  Every name other than the final name and the `-2`
    temporary is bound exactly as before, at every crash point. -/
theorem save_only_temporary_left (fs : Fs) (name : Name) (filename tag : Option Name) (ext : Name)
    (data : Bytes) (k p : Nat) (m : Name)
    (hm : m ≠ (getFilename name filename tag ext).1) (hs : m ≠ (getFilename name filename tag ext).2) :
    get (crashAt (saveTrace name filename tag ext data) k p fs) m = get fs m := by
  rw [saveTrace_eq]
  exact replace_others_untouched fs _ _ data k p m hm hs

/-- **C52 (save), completion.** -/
theorem save_complete (fs : Fs) (name : Name) (filename tag : Option Name) (ext : Name) (data : Bytes) :
    get (run (saveTrace name filename tag ext data) fs) (getFilename name filename tag ext).1 = some data ∧
    get (run (saveTrace name filename tag ext data) fs) (getFilename name filename tag ext).2 = none := by
  rw [saveTrace_eq]
  exact replace_complete fs _ _ data (getFilename_tmp_ne_final name filename tag ext)

/-- what a temporary left behind can hold: a prefix of the new content, nothing else -/
theorem temporary_holds_prefix (fs : Fs) (s t : Name) (c : Bytes) (k p : Nat) (q : Bytes)
    (h : get (crashAt (replaceTrace s t c) k p fs) s = some q) (hold : get fs s = none) (hst : s ≠ t) :
    q <+: c := by
  rcases replace_crash_shapes fs s t c k p with h' | ⟨q', hq, h'⟩ | h'
  · rw [h' s, hold] at h; cases h
  · rw [h' s] at h; simp at h; exact h ▸ hq
  · rw [h' s] at h; simp [hst] at h

/-! ### non-vacuity: concrete runs (target `t` = [116], old content "old", new content [1,2,3]) -/

/-- crash in the middle of the write: target still old, temporary holds the 2-byte prefix -/
example :
    let fs : Fs := [([116], [111, 108, 100])]
    ∃ tr, setContentTrace fs [116] [65, 65] [46, 110] [1, 2, 3] = .ok tr ∧
      get (crashAt tr 1 2 fs) [116] = some [111, 108, 100] ∧
      get (crashAt tr 1 2 fs) [65, 65, 116, 46, 110] = some [1, 2] ∧
      get (crashAt tr 3 0 fs) [116] = some [1, 2, 3] ∧
      get (crashAt tr 3 0 fs) [65, 65, 116, 46, 110] = none :=
  ⟨_, rfl, by decide, by decide, by decide, by decide⟩

/-- save with a tag: names `app-x.tap` / `app-x-2.tap`; crash before the rename keeps the old file -/
example :
    getFilename [97] none (some [120]) [116] = ([97, 45, 120, 46, 116], [97, 45, 120, 45, 50, 46, 116]) ∧
    get (crashAt (saveTrace [97] none (some [120]) [116] [9, 9]) 2 0 [([97, 45, 120, 46, 116], [7])])
        [97, 45, 120, 46, 116] = some [7] ∧
    get (run (saveTrace [97] none (some [120]) [116] [9, 9]) [([97, 45, 120, 46, 116], [7])])
        [97, 45, 120, 46, 116] = some [9, 9] := by decide

/-! ### a primitive that raises instead of the process being killed (`failAt`) -/

/-- **C52 (setContent), dying by exception.**  When the primitive at the cut raises (ENOSPC after `p`
    bytes, EMFILE, EIO, KeyboardInterrupt…) and the exception unwinds through `setContent`, the
    target still holds exactly its old binding or exactly the new content. -/
theorem setContent_exception_target_old_or_new (fs : Fs) (base rnd ext : Name) (content : Bytes)
    (tr : List Prim) (hr : rnd ≠ [])
    (h : setContentTrace fs base rnd ext content = .ok tr) (k p : Nat) :
    get (failAt tr k p fs) base = get fs base ∨ get (failAt tr k p fs) base = some content :=
  setContent_target_old_or_new fs base rnd ext content tr hr h k p

theorem setContent_exception_only_temporary_left (fs : Fs) (base rnd ext : Name) (content : Bytes)
    (tr : List Prim) (h : setContentTrace fs base rnd ext content = .ok tr) (k p : Nat) (m : Name)
    (hm : m ≠ base) (hs : m ≠ sibName rnd base ext) :
    get (failAt tr k p fs) m = get fs m :=
  setContent_only_temporary_left fs base rnd ext content tr h k p m hm hs

/-- **C52 (save), dying by exception.** -/
theorem save_exception_target_old_or_new (fs : Fs) (name : Name) (filename tag : Option Name) (ext : Name)
    (data : Bytes) (k p : Nat) :
    let final := (getFilename name filename tag ext).1
    get (failAt (saveTrace name filename tag ext data) k p fs) final = get fs final ∨
    get (failAt (saveTrace name filename tag ext data) k p fs) final = some data :=
  save_target_old_or_new fs name filename tag ext data k p

theorem save_exception_only_temporary_left (fs : Fs) (name : Name) (filename tag : Option Name) (ext : Name)
    (data : Bytes) (k p : Nat) (m : Name)
    (hm : m ≠ (getFilename name filename tag ext).1) (hs : m ≠ (getFilename name filename tag ext).2) :
    get (failAt (saveTrace name filename tag ext data) k p fs) m = get fs m :=
  save_only_temporary_left fs name filename tag ext data k p m hm hs

/-! ### the dump function raises (object that cannot be serialised) -/

/-- every name except the `-2` temporary is untouched, at every cut and in the complete run -/
theorem save_dump_fails_only_temporary_touched (fs : Fs) (name : Name) (filename tag : Option Name) (ext : Name)
    (k p : Nat) (m : Name) (hs : m ≠ (getFilename name filename tag ext).2) :
    get (crashAt (saveFailTrace name filename tag ext) k p fs) m = get fs m := by
  rcases k with _ | k
  · simp [saveFailTrace, crashAt]
  · simp [saveFailTrace, crashAt, get_apply_create, hs]

/-- **C52 (save), failing dump.**  The final file keeps its old binding. -/
theorem save_dump_fails_target_old (fs : Fs) (name : Name) (filename tag : Option Name) (ext : Name) (k p : Nat) :
    get (crashAt (saveFailTrace name filename tag ext) k p fs) (getFilename name filename tag ext).1 =
      get fs (getFilename name filename tag ext).1 :=
  save_dump_fails_only_temporary_touched fs name filename tag ext k p _
    (fun h => getFilename_tmp_ne_final name filename tag ext h.symm)

/-! ### histories: earlier complete calls on the same object, then a call that is cut -/

/-- **C52 (setContent), any history.**  Whatever calls were made before on the same path (`ops`), a
    crash / failing primitive during the next call leaves the target with what it held after the
    history, or the new content. -/
theorem setContent_history_target_old_or_new (fs : Fs) (base : Name) (ops : List SCOp) (last : SCOp)
    (tr : List Prim) (hr : last.rnd ≠ [])
    (h : setContentTrace (setContentHist fs base ops) base last.rnd last.ext last.content = .ok tr) (k p : Nat) :
    get (crashAt tr k p (setContentHist fs base ops)) base = get (setContentHist fs base ops) base ∨
    get (crashAt tr k p (setContentHist fs base ops)) base = some last.content :=
  setContent_target_old_or_new _ base last.rnd last.ext last.content tr hr h k p

/-- a completed call: target = its content unless it was refused; every other name but its sibling untouched -/
theorem setContentDone_target (fs : Fs) (base : Name) (op : SCOp) (hr : op.rnd ≠ [])
    (hfree : exists_ fs (sibName op.rnd base op.ext) = false) :
    get (setContentDone base fs op) base = some op.content := by
  unfold setContentDone
  cases h : setContentTrace fs base op.rnd op.ext op.content with
  | ok tr => exact (setContent_complete fs base op.rnd op.ext op.content tr hr h).1
  | error e =>
    cases e
    have := (setContent_refused_iff fs base op.rnd op.ext op.content).mp h
    rw [hfree] at this; cases this

theorem setContentDone_others (fs : Fs) (base : Name) (op : SCOp) (m : Name)
    (hm : m ≠ base) (hs : m ≠ sibName op.rnd base op.ext) :
    get (setContentDone base fs op) m = get fs m := by
  unfold setContentDone
  cases h : setContentTrace fs base op.rnd op.ext op.content with
  | ok tr =>
    have := setContent_only_temporary_left fs base op.rnd op.ext op.content tr h tr.length 0 m hm hs
    rwa [crashAt_ge _ _ _ _ (Nat.le_refl _)] at this
  | error e => rfl

/-- a whole history of `setContent` calls touches nothing but the target and the siblings it used -/
theorem setContentHist_others (fs : Fs) (base : Name) (ops : List SCOp) (m : Name)
    (hm : m ≠ base) (hs : ∀ op ∈ ops, m ≠ sibName op.rnd base op.ext) :
    get (setContentHist fs base ops) m = get fs m := by
  induction ops generalizing fs with
  | nil => rfl
  | cons op rest ih =>
    simp only [setContentHist, List.foldl_cons]
    have h1 := ih (setContentDone base fs op) (fun o ho => hs o (List.mem_cons_of_mem _ ho))
    simp only [setContentHist] at h1
    rw [h1, setContentDone_others fs base op m hm (hs op List.mem_cons_self)]

/-- one complete save (dump succeeding or raising) touches only its own final and temporary name -/
theorem saveOp_others (fs : Fs) (name : Name) (op : SaveOp) (m : Name)
    (hm : m ≠ op.final name) (hs : m ≠ op.tmp name) :
    get (run (saveOpTrace name op) fs) m = get fs m := by
  unfold saveOpTrace
  cases hd : op.data with
  | some d =>
    have := save_only_temporary_left fs name op.filename op.tag op.ext d
      (saveTrace name op.filename op.tag op.ext d).length 0 m hm hs
    rwa [crashAt_ge _ _ _ _ (Nat.le_refl _)] at this
  | none =>
    have := save_dump_fails_only_temporary_touched fs name op.filename op.tag op.ext
      (saveFailTrace name op.filename op.tag op.ext).length 0 m hs
    rwa [crashAt_ge _ _ _ _ (Nat.le_refl _)] at this

/-- **C52 (save), reused `Persistent`.**  A history of saves (any tags / filenames / styles, dumps
    that raise included) leaves every file that is not the final or temporary name of one of THOSE
    saves exactly as it was — an earlier save's names play no part in a later one. -/
theorem saveHist_others (fs : Fs) (name : Name) (ops : List SaveOp) (m : Name)
    (h : ∀ op ∈ ops, m ≠ op.final name ∧ m ≠ op.tmp name) :
    get (saveHist fs name ops) m = get fs m := by
  induction ops generalizing fs with
  | nil => rfl
  | cons op rest ih =>
    simp only [saveHist, List.foldl_cons]
    have h1 := ih (run (saveOpTrace name op) fs) (fun o ho => h o (List.mem_cons_of_mem _ ho))
    simp only [saveHist] at h1
    rw [h1, saveOp_others fs name op m (h op List.mem_cons_self).1 (h op List.mem_cons_self).2]

/-- **C52 (save), any history.**  After any earlier saves through the same object, a crash / failing
    primitive during the next save leaves ITS final file with what it held after the history or with
    the complete new data; a failing dump leaves it as it was. -/
theorem save_history_target_old_or_new (fs : Fs) (name : Name) (ops : List SaveOp) (last : SaveOp) (k p : Nat) :
    let mid := saveHist fs name ops
    get (crashAt (saveOpTrace name last) k p mid) (last.final name) = get mid (last.final name) ∨
    (∃ d, last.data = some d ∧ get (crashAt (saveOpTrace name last) k p mid) (last.final name) = some d) := by
  intro mid
  unfold saveOpTrace SaveOp.final
  cases hd : last.data with
  | some d =>
    rcases save_target_old_or_new mid name last.filename last.tag last.ext d k p with h | h
    · left; exact h
    · right; exact ⟨d, rfl, h⟩
  | none => left; exact save_dump_fails_target_old mid name last.filename last.tag last.ext k p

theorem save_history_only_temporary_left (fs : Fs) (name : Name) (ops : List SaveOp) (last : SaveOp) (k p : Nat)
    (m : Name) (hm : m ≠ last.final name) (hs : m ≠ last.tmp name) :
    get (crashAt (saveOpTrace name last) k p (saveHist fs name ops)) m = get (saveHist fs name ops) m := by
  unfold saveOpTrace
  cases hd : last.data with
  | some d => exact save_only_temporary_left _ name last.filename last.tag last.ext d k p m hm hs
  | none => exact save_dump_fails_only_temporary_touched _ name last.filename last.tag last.ext k p m hs

/-- non-vacuity: save(), then save(tag="x") whose dump raises, then save() cut inside the write:
    `app.tap` keeps the first save's data, `app-x.tap` was never created -/
example :
    let ops : List SaveOp := [⟨none, none, [116], some [1, 2]⟩, ⟨none, some [120], [116], none⟩]
    let last : SaveOp := ⟨none, none, [116], some [3, 4]⟩
    let mid := saveHist [] [97] ops
    get mid [97, 46, 116] = some [1, 2] ∧ get mid [97, 45, 120, 46, 116] = none ∧
    get mid [97, 45, 120, 45, 50, 46, 116] = some [] ∧
    get (crashAt (saveOpTrace [97] last) 1 1 mid) [97, 46, 116] = some [1, 2] ∧
    get (crashAt (saveOpTrace [97] last) 1 1 mid) [97, 45, 50, 46, 116] = some [3] ∧
    get (crashAt (saveOpTrace [97] last) 3 0 mid) [97, 46, 116] = some [3, 4] := by decide

/-- non-vacuity: two `setContent` calls on the same path, the second refused, a third cut -/
example :
    let fs : Fs := [([66, 66, 116], [9])]
    let mid := setContentHist fs [116] [⟨[65, 65], [], [1]⟩, ⟨[66, 66], [], [2]⟩]
    get mid [116] = some [1] ∧ get mid [66, 66, 116] = some [9] ∧
    ∃ tr, setContentTrace mid [116] [67] [46] [7, 8] = .ok tr ∧
      get (failAt tr 1 1 mid) [116] = some [1] ∧ get (failAt tr 1 1 mid) [67, 116, 46] = some [7] :=
  ⟨by decide, by decide, _, rfl, by decide, by decide⟩

end TwistedProps.C52
