import TwistedProps.C52.FsLemmas
import TwistedModel.Fs.SetContent
/-!
C52 — atomic file replacement keeps old or new content at every crash point.

For any old and new content, a process crash at any point during `FilePath.setContent`, or
while a persisted application is saved (`sob.Persistent.save`), leaves the target path with
either the complete old content or the complete new content; only temporary files may be
left behind.

"At any point" = every cut `(k, p)` of the primitive trace (`Fs/Sim.lean`): `k` primitives done,
and if the next one is a write, any prefix (`p` bytes) of it.  "Old content" includes "the
target did not exist" (`get fs target = none`).  All theorems are for every directory state
`fs` (any bystander files, stale temporaries, …), every name, every content, every cut.
-/
namespace TwistedProps.C52
open Twisted.Fs Twisted.Fs.SetContent

/-- write-to-temporary-then-rename, the common shape of both functions -/
def replaceTrace (s t : Name) (c : Bytes) : List Prim := [.create s] ++ writeP s c ++ [.rename s t]

/-- Every crash state of write-temporary-then-rename is, as a finite map, one of three shapes:
    untouched; untouched plus a temporary holding a prefix of the content; or replaced
    (temporary gone). -/
theorem replace_crash_shapes (fs : Fs) (s t : Name) (c : Bytes) (k p : Nat) :
    (∀ m, get (crashAt (replaceTrace s t c) k p fs) m = get fs m) ∨
    (∃ q, q <+: c ∧ ∀ m, get (crashAt (replaceTrace s t c) k p fs) m = if m = s then some q else get fs m) ∨
    (∀ m, get (crashAt (replaceTrace s t c) k p fs) m =
        if m = t then some c else if m = s then none else get fs m) := by
  by_cases hc : c = []
  · subst hc
    rcases k with _ | _ | k
    · left; intro m; simp [replaceTrace, writeP, crashAt]
    · right; left; refine ⟨[], List.prefix_refl _, ?_⟩
      intro m; simp [replaceTrace, writeP, crashAt, get_apply_create]
    · right; right; intro m
      simp [replaceTrace, writeP, crashAt, get_apply_create, get_apply_rename]
      by_cases h1 : m = t <;> by_cases h2 : m = s <;> simp [h1, h2]
  · have hw : writeP s c = [.write s c] := by
      cases c with
      | nil => exact absurd rfl hc
      | cons x xs => simp [writeP]
    rcases k with _ | _ | _ | k
    · left; intro m; simp [replaceTrace, hw, crashAt]
    · right; left; refine ⟨c.take p, List.take_prefix _ _, ?_⟩
      intro m; simp [replaceTrace, hw, crashAt, get_apply_create, get_apply_write]
      by_cases h2 : m = s <;> simp [h2]
    · right; left; refine ⟨c, List.prefix_refl _, ?_⟩
      intro m; simp [replaceTrace, hw, crashAt, get_apply_create, get_apply_write]
      by_cases h2 : m = s <;> simp [h2]
    · right; right; intro m
      simp [replaceTrace, hw, crashAt, get_apply_create, get_apply_write, get_apply_rename]
      by_cases h1 : m = t <;> by_cases h2 : m = s <;> simp [h1, h2]

/-- target: old or new, at every cut (needs only that the temporary is not the target itself) -/
theorem replace_target_old_or_new (fs : Fs) (s t : Name) (c : Bytes) (hst : s ≠ t) (k p : Nat) :
    get (crashAt (replaceTrace s t c) k p fs) t = get fs t ∨
    get (crashAt (replaceTrace s t c) k p fs) t = some c := by
  have hts : ¬ t = s := fun h => hst h.symm
  rcases replace_crash_shapes fs s t c k p with h | ⟨q, _, h⟩ | h
  · left; exact h t
  · left; rw [h t]; simp [hts]
  · right; rw [h t]; simp

/-- everything except the target and the temporary is untouched, at every cut -/
theorem replace_others_untouched (fs : Fs) (s t : Name) (c : Bytes) (k p : Nat) (m : Name)
    (hmt : m ≠ t) (hms : m ≠ s) :
    get (crashAt (replaceTrace s t c) k p fs) m = get fs m := by
  rcases replace_crash_shapes fs s t c k p with h | ⟨q, _, h⟩ | h
  · exact h m
  · rw [h m]; simp [hms]
  · rw [h m]; simp [hmt, hms]

/-- the uncut run installs the new content and leaves no temporary -/
theorem replace_complete (fs : Fs) (s t : Name) (c : Bytes) (hst : s ≠ t) :
    get (run (replaceTrace s t c) fs) t = some c ∧ get (run (replaceTrace s t c) fs) s = none := by
  have h3 := replace_crash_shapes fs s t c ((replaceTrace s t c).length) 0
  rw [crashAt_ge _ _ _ _ (Nat.le_refl _)] at h3
  -- identify the shape by looking at the completed run directly
  have hfull : ∀ m, get (run (replaceTrace s t c) fs) m =
      if m = t then some c else if m = s then none else get fs m := by
    intro m
    by_cases hc : c = []
    · subst hc
      simp [replaceTrace, writeP, get_apply_create, get_apply_rename]
      by_cases h1 : m = t <;> by_cases h2 : m = s <;> simp [h1, h2]
    · have hw : writeP s c = [.write s c] := by
        cases c with
        | nil => exact absurd rfl hc
        | cons x xs => simp [writeP]
      simp [replaceTrace, hw, get_apply_create, get_apply_write, get_apply_rename]
      by_cases h1 : m = t <;> by_cases h2 : m = s <;> simp [h1, h2]
  constructor
  · rw [hfull t]; simp
  · rw [hfull s]; simp [hst]

/-! ### `FilePath.setContent` -/

theorem setContentTrace_ok (fs : Fs) (base rnd ext : Name) (content : Bytes) (tr : List Prim)
    (h : setContentTrace fs base rnd ext content = .ok tr) :
    tr = replaceTrace (sibName rnd base ext) base content := by
  simp only [setContentTrace] at h
  split at h
  · cases h
  · injection h with h; exact h.symm

/-- the temporary sibling is never the target: its name is strictly longer (16 random characters in
    front — one suffices) -/
theorem sibName_ne_base (rnd base ext : Name) (hr : rnd ≠ []) : sibName rnd base ext ≠ base := by
  intro h
  have hl := congrArg List.length h
  simp [sibName] at hl
  have : 0 < rnd.length := List.length_pos_iff.mpr hr
  omega

/-- **C52 (setContent), target.**  For every directory state, names, new content and every crash
    point `(k, p)` of `setContent`, the target holds exactly what it held before (possibly: did
    not exist) or exactly the complete new content. -/
theorem setContent_target_old_or_new (fs : Fs) (base rnd ext : Name) (content : Bytes)
    (tr : List Prim) (hr : rnd ≠ [])
    (h : setContentTrace fs base rnd ext content = .ok tr) (k p : Nat) :
    get (crashAt tr k p fs) base = get fs base ∨ get (crashAt tr k p fs) base = some content := by
  rw [setContentTrace_ok fs base rnd ext content tr h]
  exact replace_target_old_or_new fs _ base content (sibName_ne_base rnd base ext hr) k p

/-- **C52 (setContent), only temporaries.**  At every crash point every name other than the
    target and the temporary sibling `rnd ++ basename ++ ext` is bound exactly as before. -/
theorem setContent_only_temporary_left (fs : Fs) (base rnd ext : Name) (content : Bytes)
    (tr : List Prim) (h : setContentTrace fs base rnd ext content = .ok tr) (k p : Nat) (m : Name)
    (hm : m ≠ base) (hs : m ≠ sibName rnd base ext) :
    get (crashAt tr k p fs) m = get fs m := by
  rw [setContentTrace_ok fs base rnd ext content tr h]
  exact replace_others_untouched fs _ base content k p m hm hs

/-- **C52 (setContent), completion.**  Without a crash the target holds the new content and the
    temporary is gone. -/
theorem setContent_complete (fs : Fs) (base rnd ext : Name) (content : Bytes)
    (tr : List Prim) (hr : rnd ≠ [])
    (h : setContentTrace fs base rnd ext content = .ok tr) :
    get (run tr fs) base = some content ∧ get (run tr fs) (sibName rnd base ext) = none := by
  rw [setContentTrace_ok fs base rnd ext content tr h]
  exact replace_complete fs _ base content (sibName_ne_base rnd base ext hr)

/-- `setContent` refuses to run (FileExistsError from `O_EXCL`, nothing touched) exactly when the
    "unpredictable" sibling already exists. -/
theorem setContent_refused_iff (fs : Fs) (base rnd ext : Name) (content : Bytes) :
    setContentTrace fs base rnd ext content = .error .fileExists ↔
      exists_ fs (sibName rnd base ext) = true := by
  simp only [setContentTrace]
  split <;> simp_all

/-! ### `sob.Persistent.save` -/

theorem saveTrace_eq (name : Name) (filename tag : Option Name) (ext : Name) (data : Bytes) :
    saveTrace name filename tag ext data =
      replaceTrace (getFilename name filename tag ext).2 (getFilename name filename tag ext).1 data := rfl

/-- the temporary name is two bytes longer than the final name (`-2` inserted or appended) -/
theorem getFilename_length (name : Name) (filename tag : Option Name) (ext : Name) :
    (getFilename name filename tag ext).2.length = (getFilename name filename tag ext).1.length + 2 := by
  unfold getFilename
  split <;> (try split) <;> (try split) <;> (try split) <;>
    simp [sDot, sDash, sDash2, sDash2Dot] <;> omega

theorem getFilename_tmp_ne_final (name : Name) (filename tag : Option Name) (ext : Name) :
    (getFilename name filename tag ext).2 ≠ (getFilename name filename tag ext).1 := by
  intro h
  have := getFilename_length name filename tag ext
  rw [h] at this
  omega

/-- **C52 (save), target.**  For every directory state (stale `-2` temporary included), every
    name/tag/filename, every serialised form `data` and every crash point of `Persistent.save`,
    the final file holds exactly its old content (or is still absent) or exactly `data`. -/
theorem save_target_old_or_new (fs : Fs) (name : Name) (filename tag : Option Name) (ext : Name)
    (data : Bytes) (k p : Nat) :
    let final := (getFilename name filename tag ext).1
    get (crashAt (saveTrace name filename tag ext data) k p fs) final = get fs final ∨
    get (crashAt (saveTrace name filename tag ext data) k p fs) final = some data := by
  intro final
  rw [saveTrace_eq]
  exact replace_target_old_or_new fs _ _ data (getFilename_tmp_ne_final name filename tag ext) k p

/-- **C52 (save), only temporaries.**  Every name other than the final name and the `-2`
    temporary is bound exactly as before, at every crash point. -/
theorem save_only_temporary_left (fs : Fs) (name : Name) (filename tag : Option Name) (ext : Name)
    (data : Bytes) (k p : Nat) (m : Name)
    (hm : m ≠ (getFilename name filename tag ext).1) (hs : m ≠ (getFilename name filename tag ext).2) :
    get (crashAt (saveTrace name filename tag ext data) k p fs) m = get fs m := by
  rw [saveTrace_eq]
  exact replace_others_untouched fs _ _ data k p m hm hs

/-- **C52 (save), completion.** -/
theorem save_complete (fs : Fs) (name : Name) (filename tag : Option Name) (ext : Name) (data : Bytes) :
    get (run (saveTrace name filename tag ext data) fs) (getFilename name filename tag ext).1 = some data ∧
    get (run (saveTrace name filename tag ext data) fs) (getFilename name filename tag ext).2 = none := by
  rw [saveTrace_eq]
  exact replace_complete fs _ _ data (getFilename_tmp_ne_final name filename tag ext)

/-- what a temporary left behind can hold: a prefix of the new content, nothing else -/
theorem temporary_holds_prefix (fs : Fs) (s t : Name) (c : Bytes) (k p : Nat) (q : Bytes)
    (h : get (crashAt (replaceTrace s t c) k p fs) s = some q) (hold : get fs s = none) (hst : s ≠ t) :
    q <+: c := by
  rcases replace_crash_shapes fs s t c k p with h' | ⟨q', hq, h'⟩ | h'
  · rw [h' s, hold] at h; cases h
  · rw [h' s] at h; simp at h; exact h ▸ hq
  · rw [h' s] at h; simp [hst] at h

/-! ### non-vacuity: concrete runs (target `t` = [116], old content "old", new content [1,2,3]) -/

/-- crash in the middle of the write: target still old, temporary holds the 2-byte prefix -/
example :
    let fs : Fs := [([116], [111, 108, 100])]
    ∃ tr, setContentTrace fs [116] [65, 65] [46, 110] [1, 2, 3] = .ok tr ∧
      get (crashAt tr 1 2 fs) [116] = some [111, 108, 100] ∧
      get (crashAt tr 1 2 fs) [65, 65, 116, 46, 110] = some [1, 2] ∧
      get (crashAt tr 3 0 fs) [116] = some [1, 2, 3] ∧
      get (crashAt tr 3 0 fs) [65, 65, 116, 46, 110] = none :=
  ⟨_, rfl, by decide, by decide, by decide, by decide⟩

/-- save with a tag: names `app-x.tap` / `app-x-2.tap`; crash before the rename keeps the old file -/
example :
    getFilename [97] none (some [120]) [116] = ([97, 45, 120, 46, 116], [97, 45, 120, 45, 50, 46, 116]) ∧
    get (crashAt (saveTrace [97] none (some [120]) [116] [9, 9]) 2 0 [([97, 45, 120, 46, 116], [7])])
        [97, 45, 120, 46, 116] = some [7] ∧
    get (run (saveTrace [97] none (some [120]) [116] [9, 9]) [([97, 45, 120, 46, 116], [7])])
        [97, 45, 120, 46, 116] = some [9, 9] := by decide

end TwistedProps.C52
