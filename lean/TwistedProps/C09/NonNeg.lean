import TwistedProps.C09.Guarded
/-!
C09 — `causal` is a theorem for admissible (in particular: non-negative) histories.

`Fwd st`: the log is causal, and no call that ran was scheduled after the clock's current time.
With non-negative `advance` amounts the clock never goes back, so a `callLater(delay ≥ 0)` or
`reset(secs ≥ 0)` lands at or after `seconds()`, hence at or after every call that ran; a `delay()`
that keeps the call at or after `seconds()` likewise; a `delay(secs ≥ 0)` moves a pending call
forward from a time that (by `OrdInv.floor`) was already no earlier than any call that ran.

`NonNeg h` is the syntactic condition "every number in the history is `≥ 0`"; it implies
`Admissible h` (`admissible_of_nonneg`) because the scripts stored in pending calls stay
non-negative (`BodiesNN`).
-/
namespace TwistedProps.C09
open Twisted.Reactor.Clock
open Twisted.Reactor

/-! ### the invariant -/

structure Fwd (st : St) : Prop where
  ord : Ordered st
  causal : causal st.log = true
  /-- every call that ran was scheduled no later than the clock's current time -/
  past : ∀ y ∈ runTimes st.log, y ≤ st.now

theorem Fwd.inv {st : St} (h : Fwd st) : Inv st := h.ord.1
theorem Fwd.ordInv {st : St} (h : Fwd st) : OrdInv st := h.ord.2 h.causal

theorem fresh_getTime (now delay : Int) (body : Script) : (fresh now delay body).getTime = now + delay := by
  simp [fresh, DC.getTime]

/-- steps logging an event that neither runs nor (re)schedules and leave the clock alone -/
theorem Fwd.plain {st st' : St} (e : Ev) (hlog : st'.log = e :: st.log) (h1 : runTime? e = none)
    (h2 : setsTime? e = none) (hnow : st'.now = st.now) (ho : Ordered st') (h : Fwd st) : Fwd st' where
  ord := ho
  causal := by rw [hlog, causal_cons_plain e _ h2]; exact h.causal
  past := by
    intro y hy
    rw [hlog, runTimes_cons_plain e _ h1] at hy
    rw [hnow]; exact h.past y hy

/-- steps logging an event that gives a call the time `t`, with `seconds() ≤ t` or — for a call
    that was pending at time `t0 ≤ t` — nothing that ran later than `t0` -/
theorem Fwd.sets {st st' : St} (e : Ev) (t : Int) (hlog : st'.log = e :: st.log) (h1 : runTime? e = none)
    (h2 : setsTime? e = some t) (hnow : st'.now = st.now) (ho : Ordered st')
    (ht : ∀ y ∈ runTimes st.log, y ≤ t) (h : Fwd st) : Fwd st' where
  ord := ho
  causal := by rw [hlog]; exact (causal_cons_sets e _ t h2).2 ⟨ht, h.causal⟩
  past := by
    intro y hy
    rw [hlog, runTimes_cons_plain e _ h1] at hy
    rw [hnow]; exact h.past y hy

theorem fwd_closedG : ClosedG Fwd where
  quiet := fun st e hq h => by
    obtain ⟨q1, q2⟩ := quiet_noTime hq
    exact h.plain e rfl q1 q2 rfl (ordered_closed.quiet st e hq h.ord)
  valueError := fun st i d hd h1 h2 h3 h => absurd ((h.inv.mem_iff i).2 ⟨d, hd, h1, h2⟩) h3
  look := fun st h => h.plain (.look st.calls (activeIds st.objs)) rfl rfl rfl rfl (ordered_closed.look st h.ord)
  setNow := fun st a ha h => ⟨ordered_closed.setNow st a h.ord, h.causal, fun y hy => by
    have := h.past y hy
    show y ≤ st.now + a
    omega⟩
  sort := fun st h => ⟨ordered_closed.sort st h.ord, h.causal, h.past⟩
  create := fun st delay body hd h =>
    h.sets (.sched st.objs.length (fresh st.now delay body).getTime) _ rfl rfl rfl rfl
      (ordered_closed.create st delay body h.ord) (fun y hy => by
        have := h.past y hy
        rw [fresh_getTime]; omega)
  cancelOk := fun st i d hd h1 h2 h3 h =>
    h.plain (.cancelled i) rfl rfl rfl rfl (ordered_closed.cancelOk st i d hd h1 h2 h3 h.ord)
  resetOk := fun st i d secs hd h1 h2 hs h =>
    h.sets (.resched false i (resetDC st.now secs d).getTime) _ rfl rfl rfl rfl
      (ordered_closed.reschedOk st false i d _ hd h1 h2 (resetDC_same _ _ _) (Or.inl ⟨rfl, secs, rfl⟩) h.ord)
      (fun y hy => by
        have := h.past y hy
        rw [resetDC_getTime]; omega)
  delayOk := fun st i d secs hd h1 h2 hs h =>
    h.sets (.resched true i (delayDC secs d).getTime) _ rfl rfl rfl rfl
      (ordered_closed.reschedOk st true i d _ hd h1 h2 (delayDC_same _ _) (Or.inr ⟨rfl, secs, rfl⟩) h.ord)
      (fun y hy => by
        rw [delayDC_getTime]
        rcases hs with hs | hs
        · have hi : i ∈ st.calls := (h.inv.mem_iff i).2 ⟨d, hd, h1, h2⟩
          have hk : st.key i = d.getTime := by simp [key_eq, hd]
          have := h.ordInv.floor y hy i hi
          omega
        · have := h.past y hy
          omega)
  beginRun := fun st i rest d hc hd hdue hsorted h =>
    { ord := ordered_closed.beginRun st i rest d hc hd hdue hsorted h.ord
      causal := by
        show causal (.run i d.getTime st.now :: st.log) = true
        rw [causal_cons_plain _ _ rfl]; exact h.causal
      past := by
        intro y hy
        have hy' : y ∈ d.getTime :: runTimes st.log := by
          have : runTimes (beginRun st i rest d).log = d.getTime :: runTimes st.log := by
            show runTimes (_ :: st.log) = _
            simp [runTimes, runTime?]
          rw [this] at hy; exact hy
        show y ≤ st.now
        rcases List.mem_cons.1 hy' with hh | hh
        · rw [hh]; exact hdue
        · exact h.past y hh }

theorem fwd_init : Fwd init := ⟨ordered_init, rfl, by simp [init, runTimes]⟩

theorem fwd_run (h : List Top) (ha : Admissible h = true) : Fwd (run h) :=
  fwd_closedG.run (fun _ h => h.inv) fwd_init h ha

/-- `causal` of a log gives `causal` of every earlier log (suffix: the log is newest first) -/
theorem causal_suffix (l1 l2 : List Ev) (h : causal (l1 ++ l2) = true) : causal l2 = true := by
  induction l1 with
  | nil => exact h
  | cons e l ih =>
    apply ih
    have : causal (e :: (l ++ l2)) = true := h
    simp only [causal, Bool.and_eq_true] at this
    exact this.2

/-! ### the syntactic condition -/

-- `nonnegScript`, `nonnegTop`, `NonNeg`: `TwistedModel/Reactor/ClockDomain.lean`

/-- the scripts of all created calls are non-negative -/
def BodiesNN (st : St) : Prop := ∀ d ∈ st.objs, nonnegScript d.body = true

theorem BodiesNN.of_objs {st st' : St} (h : BodiesNN st) (ho : st'.objs = st.objs) : BodiesNN st' := by
  intro d hd; rw [ho] at hd; exact h d hd

theorem BodiesNN.set {st st' : St} (h : BodiesNN st) (i : Nat) (d d' : DC) (hd : st.objs[i]? = some d)
    (hb : d'.body = d.body) (ho : st'.objs = st.objs.set i d') : BodiesNN st' := by
  intro x hx
  rw [ho] at hx
  rcases List.mem_or_eq_of_mem_set hx with hh | hh
  · exact h x hh
  · rw [hh, hb]; exact h d (List.mem_of_getElem? hd)

theorem BodiesNN.callLater {st : St} (h : BodiesNN st) (delay : Int) (body : Script)
    (hb : nonnegScript body = true) : BodiesNN (callLater st delay body) := by
  intro x hx
  have hx' : x ∈ st.objs ++ [fresh st.now delay body] := hx
  rcases List.mem_append.1 hx' with hh | hh
  · exact h x hh
  · have : x = fresh st.now delay body := by simpa using hh
    rw [this]; exact hb

theorem BodiesNN.cancel {st : St} (h : BodiesNN st) (i : Nat) : BodiesNN (cancel st i) := by
  cases hd : st.objs[i]? with
  | none => rw [cancel_none hd]; exact h.of_objs rfl
  | some d =>
    cases h1 : d.cancelled with
    | true => rw [cancel_cancelled hd h1]; exact h.of_objs rfl
    | false =>
      cases h2 : d.called with
      | true => rw [cancel_called hd h1 h2]; exact h.of_objs rfl
      | false =>
        by_cases h3 : i ∈ st.calls
        · rw [cancel_ok hd h1 h2 h3]; exact h.set i d { d with cancelled := true } hd rfl rfl
        · rw [cancel_valueError hd h1 h2 h3]; exact h.of_objs rfl

theorem BodiesNN.reset {st : St} (h : BodiesNN st) (i : Nat) (secs : Int) : BodiesNN (reset st i secs) := by
  cases hd : st.objs[i]? with
  | none => rw [reset_none hd]; exact h.of_objs rfl
  | some d =>
    cases h1 : d.cancelled with
    | true => rw [reset_cancelled hd h1]; exact h.of_objs rfl
    | false =>
      cases h2 : d.called with
      | true => rw [reset_called hd h1 h2]; exact h.of_objs rfl
      | false => rw [reset_ok hd h1 h2]; exact h.set i d _ hd (resetDC_same _ _ _).2.2 rfl

theorem BodiesNN.delay {st : St} (h : BodiesNN st) (i : Nat) (secs : Int) : BodiesNN (delay st i secs) := by
  cases hd : st.objs[i]? with
  | none => rw [delay_none hd]; exact h.of_objs rfl
  | some d =>
    cases h1 : d.cancelled with
    | true => rw [delay_cancelled hd h1]; exact h.of_objs rfl
    | false =>
      cases h2 : d.called with
      | true => rw [delay_called hd h1 h2]; exact h.of_objs rfl
      | false => rw [delay_ok hd h1 h2]; exact h.set i d _ hd (delayDC_same _ _).2.2 rfl

theorem delayAdm_of_nonneg (st : St) (i : Nat) (secs : Int) (hs : 0 ≤ secs) : delayAdm st i secs = true := by
  unfold delayAdm
  split <;> simp [hs]

theorem okExec_of_nonneg (s : Script) :
    ∀ st, nonnegScript s = true → BodiesNN st → okExec s st = true ∧ BodiesNN (exec s st) := by
  induction s with
  | nil => intro st _ hb; exact ⟨rfl, hb⟩
  | callLater d body rest _ ih =>
    intro st hn hb
    simp only [nonnegScript, Bool.and_eq_true, decide_eq_true_eq] at hn
    have := ih _ hn.2 (hb.callLater d body hn.1.2)
    exact ⟨by simp only [okExec, Bool.and_eq_true, decide_eq_true_eq]; exact ⟨hn.1.1, this.1⟩, this.2⟩
  | cancel i rest ih => intro st hn hb; exact ih _ hn (hb.cancel i)
  | reset i s rest ih =>
    intro st hn hb
    simp only [nonnegScript, Bool.and_eq_true, decide_eq_true_eq] at hn
    have := ih _ hn.2 (hb.reset i s)
    exact ⟨by simp only [okExec, Bool.and_eq_true, decide_eq_true_eq]; exact ⟨hn.1, this.1⟩, this.2⟩
  | delay i s rest ih =>
    intro st hn hb
    simp only [nonnegScript, Bool.and_eq_true, decide_eq_true_eq] at hn
    have := ih _ hn.2 (hb.delay i s)
    exact ⟨by simp only [okExec, Bool.and_eq_true]; exact ⟨delayAdm_of_nonneg st i s hn.1, this.1⟩, this.2⟩
  | look rest ih => intro st hn hb; exact ih _ hn (hb.of_objs rfl)

theorem okLoop_of_nonneg : ∀ fuel st, BodiesNN st → okLoop fuel st = true ∧ BodiesNN (runLoop fuel st) := by
  intro fuel
  induction fuel with
  | zero => intro st hb; exact ⟨rfl, hb.of_objs rfl⟩
  | succ n ih =>
    intro st hb
    have hs : BodiesNN (sortCalls st) := hb.of_objs rfl
    rw [okLoop_succ, runLoop_succ]
    cases hc : (sortCalls st).calls with
    | nil => exact ⟨rfl, hs⟩
    | cons i rest =>
      dsimp only
      cases hd : (sortCalls st).objs[i]? with
      | none => exact ⟨rfl, hs⟩
      | some d =>
        dsimp only
        by_cases hdue : d.getTime ≤ (sortCalls st).now
        · rw [if_pos hdue, if_pos hdue]
          have hd' : st.objs[i]? = some d := hd
          have hbody : nonnegScript d.body = true := hb d (List.mem_of_getElem? hd')
          have hbr : BodiesNN (beginRun (sortCalls st) i rest d) :=
            hs.set i d { d with called := true } hd rfl rfl
          have he := okExec_of_nonneg d.body _ hbody hbr
          have hl := ih ((exec d.body (beginRun (sortCalls st) i rest d)).emit (.endrun i)) (he.2.of_objs rfl)
          exact ⟨by rw [Bool.and_eq_true]; exact ⟨he.1, hl.1⟩, hl.2⟩
        · rw [if_neg hdue, if_neg hdue]; exact ⟨rfl, hs⟩

theorem okAdvance_of_nonneg (st : St) (a : Int) (ha : 0 ≤ a) (hb : BodiesNN st) :
    okAdvance st a = true ∧ BodiesNN (advance st a) := by
  have h := okLoop_of_nonneg (Clock.measure ((setNow st a).emit .advBegin) + 1) ((setNow st a).emit .advBegin)
    (hb.of_objs rfl)
  refine ⟨by simp only [okAdvance, advStart_eq, Bool.and_eq_true, decide_eq_true_eq]; exact ⟨ha, h.1⟩, ?_⟩
  unfold Twisted.Reactor.Clock.advance
  exact h.2.of_objs rfl

theorem okPump_of_nonneg (ts : List Int) :
    ∀ st, (ts.all fun a => decide (0 ≤ a)) = true → BodiesNN st → okPump st ts = true ∧ BodiesNN (pump st ts) := by
  induction ts with
  | nil => intro st _ hb; exact ⟨rfl, hb⟩
  | cons a as ih =>
    intro st hn hb
    simp only [List.all_cons, Bool.and_eq_true, decide_eq_true_eq] at hn
    have h1 := okAdvance_of_nonneg st a hn.1 hb
    have h2 := ih _ hn.2 h1.2
    exact ⟨by simp only [okPump, Bool.and_eq_true]; exact ⟨h1.1, h2.1⟩, h2.2⟩

theorem okTop_of_nonneg (t : Top) (st : St) (hn : nonnegTop t = true) (hb : BodiesNN st) :
    okTop st t = true ∧ BodiesNN (t.apply st) := by
  cases t with
  | advance a => exact okAdvance_of_nonneg st a (by simpa [nonnegTop] using hn) hb
  | pump ts => exact okPump_of_nonneg ts st hn hb
  | script s => exact okExec_of_nonneg s st hn hb

theorem okFrom_of_nonneg (h : List Top) :
    ∀ st, h.all nonnegTop = true → BodiesNN st → okFrom st h = true := by
  induction h with
  | nil => intro st _ _; rfl
  | cons t ts ih =>
    intro st hn hb
    simp only [List.all_cons, Bool.and_eq_true] at hn
    have h1 := okTop_of_nonneg t st hn.1 hb
    simp only [okFrom, Bool.and_eq_true]
    exact ⟨h1.1, ih _ hn.2 h1.2⟩

/-- a history with no negative number in it is admissible -/
theorem admissible_of_nonneg (h : List Top) (hn : NonNeg h = true) : Admissible h = true :=
  okFrom_of_nonneg h init hn (fun d hd => by simp [init] at hd)

end TwistedProps.C09
