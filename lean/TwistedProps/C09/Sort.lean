import TwistedModel.Reactor.Clock
/-! Lemmas about the stable insertion sort that models `list.sort(key=…)` (C09). -/
namespace TwistedProps.C09
open Twisted.Reactor.Clock

theorem insertBy_perm (key : Nat → Int) (x : Nat) (l : List Nat) : (insertBy key x l).Perm (x :: l) := by
  induction l with
  | nil => exact List.Perm.refl _
  | cons y ys ih =>
    simp only [insertBy]
    split
    · exact List.Perm.refl _
    · exact (List.Perm.cons y ih).trans (List.Perm.swap x y ys)

theorem isort_perm (key : Nat → Int) (l : List Nat) : (isort key l).Perm l := by
  induction l with
  | nil => exact List.Perm.refl _
  | cons x xs ih => exact (insertBy_perm key x _).trans (List.Perm.cons x ih)

theorem mem_isort {key : Nat → Int} {l : List Nat} {a : Nat} : a ∈ isort key l ↔ a ∈ l :=
  (isort_perm key l).mem_iff

theorem nodup_isort {key : Nat → Int} {l : List Nat} : (isort key l).Nodup ↔ l.Nodup :=
  (isort_perm key l).nodup_iff

/-- inserting keeps a pairwise relation that holds from `x` to everything already there, provided
    the relation also holds from any strictly-smaller-key element to `x` (the elements `x` is moved
    behind) -/
theorem insertBy_pairwise {R : Nat → Nat → Prop} (key : Nat → Int) (x : Nat) (l : List Nat)
    (hx : ∀ y ∈ l, R x y) (hswap : ∀ y ∈ l, key y < key x → R y x) (hl : l.Pairwise R) :
    (insertBy key x l).Pairwise R := by
  induction l with
  | nil => simp [insertBy]
  | cons y ys ih =>
    simp only [insertBy]
    split
    · exact List.pairwise_cons.2 ⟨hx, hl⟩
    · rename_i hlt
      have hy := List.pairwise_cons.1 hl
      refine List.pairwise_cons.2 ⟨?_, ih (fun z hz => hx z (by simp [hz])) (fun z hz => hswap z (by simp [hz])) hy.2⟩
      intro z hz
      rcases List.mem_cons.1 (((insertBy_perm key x ys).mem_iff).1 hz) with h | h
      · subst h; exact hswap y (by simp) (by omega)
      · exact hy.1 z h

/-- **Stability**, in the form used here: a relation that holds along the list order is kept by
    the sort as long as it also holds from smaller to strictly larger keys (the only pairs the
    sort ever swaps are strictly out of order). -/
theorem isort_pairwise {R : Nat → Nat → Prop} (key : Nat → Int) (l : List Nat)
    (hl : l.Pairwise R) (hswap : ∀ a ∈ l, ∀ b ∈ l, key a < key b → R a b) :
    (isort key l).Pairwise R := by
  induction l with
  | nil => simp [isort]
  | cons x xs ih =>
    have hx := List.pairwise_cons.1 hl
    simp only [isort]
    apply insertBy_pairwise
    · intro y hy; exact hx.1 y (mem_isort.1 hy)
    · intro y hy hlt; exact hswap y (by simp [mem_isort.1 hy]) x (by simp) hlt
    · exact ih hx.2 (fun a ha b hb => hswap a (by simp [ha]) b (by simp [hb]))

theorem insertBy_sorted (key : Nat → Int) (x : Nat) (l : List Nat)
    (hl : l.Pairwise (fun a b => key a ≤ key b)) :
    (insertBy key x l).Pairwise (fun a b => key a ≤ key b) := by
  induction l with
  | nil => simp [insertBy]
  | cons y ys ih =>
    have hy := List.pairwise_cons.1 hl
    simp only [insertBy]
    split
    · rename_i hle
      refine List.pairwise_cons.2 ⟨?_, hl⟩
      intro z hz
      rcases List.mem_cons.1 hz with h | h
      · subst h; exact hle
      · have := hy.1 z h; omega
    · refine List.pairwise_cons.2 ⟨?_, ih hy.2⟩
      intro z hz
      rcases List.mem_cons.1 (((insertBy_perm key x ys).mem_iff).1 hz) with h | h
      · subst h; omega
      · exact hy.1 z h

theorem isort_sorted (key : Nat → Int) (l : List Nat) :
    (isort key l).Pairwise (fun a b => key a ≤ key b) := by
  induction l with
  | nil => simp [isort]
  | cons x xs ih => exact insertBy_sorted key x _ ih

end TwistedProps.C09
