import TwistedProps.C09.Order
import TwistedModel.Reactor.ClockDomain
/-!
C09 — induction over histories whose *operation parameters* are constrained.

`Closed` (Steps.lean) asks a predicate to survive every atomic step whatever the arguments of
`callLater`, `reset`, `delay` and `advance` are.  `ClosedG` asks it only for

* `advance(a)` with `0 ≤ a`,
* `callLater(delay, f)` with `0 ≤ delay`,
* `reset(secs)` with `0 ≤ secs`,
* `delay(secs)` on a live call with `0 ≤ secs` or `seconds() ≤ getTime() + secs` (the call stays at
  or after the clock's current time).

`Admissible h` says that every operation of the history `h` — at top level and inside every
callable at the moment it runs — has such parameters; it is a (computable) function of the history
alone.  `ClosedG.run` is the induction principle: a `ClosedG` predicate holds after every admissible
history.  `NonNeg h` is the purely syntactic special case (every number written in the history is
`≥ 0`); `admissible_of_nonneg` shows it implies `Admissible h`.
-/
namespace TwistedProps.C09
open Twisted.Reactor.Clock
open Twisted.Reactor

/-! ### the guarded closure conditions -/

structure ClosedG (P : St → Prop) : Prop where
  quiet : ∀ st e, quiet e = true → P st → P (st.emit e)
  valueError : ∀ st i d, st.objs[i]? = some d → d.cancelled = false → d.called = false → i ∉ st.calls →
    P st → P (st.emit (.refused i .valueError))
  look : ∀ st, P st → P (st.emit (.look st.calls (activeIds st.objs)))
  setNow : ∀ st a, 0 ≤ a → P st → P (setNow st a)
  sort : ∀ st, P st → P (sortCalls st)
  create : ∀ st delay body, 0 ≤ delay → P st → P (create st (fresh st.now delay body))
  cancelOk : ∀ st i d, st.objs[i]? = some d → d.cancelled = false → d.called = false → i ∈ st.calls →
    P st → P (cancelOk st i d)
  resetOk : ∀ st i d secs, st.objs[i]? = some d → d.cancelled = false → d.called = false → 0 ≤ secs →
    P st → P (reschedOk st false i (resetDC st.now secs d))
  delayOk : ∀ st i d secs, st.objs[i]? = some d → d.cancelled = false → d.called = false →
    (0 ≤ secs ∨ st.now ≤ d.getTime + secs) → P st → P (reschedOk st true i (delayDC secs d))
  beginRun : ∀ st i rest d, st.calls = i :: rest → st.objs[i]? = some d → d.getTime ≤ st.now →
    Sorted st → P st → P (beginRun st i rest d)

/-- an unconditionally closed predicate is in particular closed under the guarded steps -/
theorem Closed.toG {P : St → Prop} (h : Closed P) : ClosedG P where
  quiet := h.quiet
  valueError := h.valueError
  look := h.look
  setNow := fun st a _ => h.setNow st a
  sort := h.sort
  create := fun st delay body _ => h.create st delay body
  cancelOk := h.cancelOk
  resetOk := fun st i d secs hd h1 h2 _ hp =>
    h.reschedOk st false i d _ hd h1 h2 (resetDC_same _ _ _) (Or.inl ⟨rfl, secs, rfl⟩) hp
  delayOk := fun st i d secs hd h1 h2 _ hp =>
    h.reschedOk st true i d _ hd h1 h2 (delayDC_same _ _) (Or.inr ⟨rfl, secs, rfl⟩) hp
  beginRun := h.beginRun

/-! ### admissible parameters, checked where each operation executes

The predicates themselves (`delayAdm`, `okExec`, `okLoop`, `okAdvance`, `okPump`, `okTop`, `okFrom`,
`Admissible`, and the syntactic `NonNeg`) are defined in `TwistedModel/Reactor/ClockDomain.lean`, so
that the driver can evaluate them and the tie compare them with `harness/corr/C09.py`'s own. -/

theorem advStart_eq (st : St) (a : Int) : advStart st a = (setNow st a).emit .advBegin := rfl

/-! ### lifting a `ClosedG` predicate through admissible scripts, loops and histories -/

variable {P : St → Prop}

theorem ClosedG.callLater (h : ClosedG P) (st : St) (delay : Int) (body : Script) (hd : 0 ≤ delay)
    (hp : P st) : P (callLater st delay body) :=
  h.sort _ (h.create st delay body hd hp)

theorem ClosedG.cancel (h : ClosedG P) (st : St) (i : Nat) (hp : P st) : P (cancel st i) := by
  cases hd : st.objs[i]? with
  | none => rw [cancel_none hd]; exact h.quiet _ _ rfl hp
  | some d =>
    cases h1 : d.cancelled with
    | true => rw [cancel_cancelled hd h1]; exact h.quiet _ _ rfl hp
    | false =>
      cases h2 : d.called with
      | true => rw [cancel_called hd h1 h2]; exact h.quiet _ _ rfl hp
      | false =>
        by_cases h3 : i ∈ st.calls
        · rw [cancel_ok hd h1 h2 h3]; exact h.cancelOk st i d hd h1 h2 h3 hp
        · rw [cancel_valueError hd h1 h2 h3]; exact h.valueError st i d hd h1 h2 h3 hp

theorem ClosedG.reset (h : ClosedG P) (st : St) (i : Nat) (secs : Int) (hs : 0 ≤ secs) (hp : P st) :
    P (reset st i secs) := by
  cases hd : st.objs[i]? with
  | none => rw [reset_none hd]; exact h.quiet _ _ rfl hp
  | some d =>
    cases h1 : d.cancelled with
    | true => rw [reset_cancelled hd h1]; exact h.quiet _ _ rfl hp
    | false =>
      cases h2 : d.called with
      | true => rw [reset_called hd h1 h2]; exact h.quiet _ _ rfl hp
      | false => rw [reset_ok hd h1 h2]; exact h.resetOk st i d secs hd h1 h2 hs hp

theorem ClosedG.delay (h : ClosedG P) (st : St) (i : Nat) (secs : Int) (hs : delayAdm st i secs = true)
    (hp : P st) : P (delay st i secs) := by
  cases hd : st.objs[i]? with
  | none => rw [delay_none hd]; exact h.quiet _ _ rfl hp
  | some d =>
    cases h1 : d.cancelled with
    | true => rw [delay_cancelled hd h1]; exact h.quiet _ _ rfl hp
    | false =>
      cases h2 : d.called with
      | true => rw [delay_called hd h1 h2]; exact h.quiet _ _ rfl hp
      | false =>
        rw [delay_ok hd h1 h2]
        refine h.delayOk st i d secs hd h1 h2 ?_ hp
        simpa [delayAdm, hd, h1, h2] using hs

theorem ClosedG.exec (h : ClosedG P) (s : Script) : ∀ st, okExec s st = true → P st → P (exec s st) := by
  induction s with
  | nil => intro st _ hp; exact hp
  | callLater d body rest _ ih =>
    intro st hk hp
    simp only [okExec, Bool.and_eq_true, decide_eq_true_eq] at hk
    exact ih _ hk.2 (h.callLater st d body hk.1 hp)
  | cancel i rest ih => intro st hk hp; exact ih _ hk (h.cancel st i hp)
  | reset i s rest ih =>
    intro st hk hp
    simp only [okExec, Bool.and_eq_true, decide_eq_true_eq] at hk
    exact ih _ hk.2 (h.reset st i s hk.1 hp)
  | delay i s rest ih =>
    intro st hk hp
    simp only [okExec, Bool.and_eq_true] at hk
    exact ih _ hk.2 (h.delay st i s hk.1 hp)
  | look rest ih => intro st hk hp; exact ih _ hk (h.look st hp)

theorem okLoop_succ (n : Nat) (st : St) :
    okLoop (n + 1) st =
      match (sortCalls st).calls with
      | [] => true
      | i :: rest =>
        match (sortCalls st).objs[i]? with
        | none => true
        | some d =>
          if d.getTime ≤ (sortCalls st).now then
            okExec d.body (beginRun (sortCalls st) i rest d) &&
              okLoop n ((exec d.body (beginRun (sortCalls st) i rest d)).emit (.endrun i))
          else true := rfl

theorem ClosedG.runLoop (h : ClosedG P) (hinv : ∀ st, P st → Inv st) :
    ∀ fuel st, Clock.measure st < fuel → okLoop fuel st = true → P st → P (runLoop fuel st) := by
  intro fuel
  induction fuel with
  | zero => intro st hm; omega
  | succ n ih =>
    intro st hm hk hp
    have hs := h.sort st hp
    have hsorted := sortCalls_sorted st
    have hms := measure_sort st
    rw [okLoop_succ] at hk
    rw [runLoop_succ]
    split
    · exact hs
    · rename_i i rest hc
      rw [hc] at hk
      split
      · exact hs
      · rename_i d hd
        simp only [hd] at hk
        split
        · rename_i hdue
          rw [if_pos hdue, Bool.and_eq_true] at hk
          have hlt := measure_iteration (hinv _ hs) i rest d hc hd hdue
          exact ih _ (by omega) hk.2
            (h.quiet _ _ rfl (h.exec d.body _ hk.1 (h.beginRun _ i rest d hc hd hdue hsorted hs)))
        · exact hs

theorem ClosedG.advance (h : ClosedG P) (hinv : ∀ st, P st → Inv st) (st : St) (a : Int)
    (hk : okAdvance st a = true) (hp : P st) : P (advance st a) := by
  simp only [okAdvance, advStart_eq, Bool.and_eq_true, decide_eq_true_eq] at hk
  unfold Twisted.Reactor.Clock.advance
  exact h.quiet _ _ rfl
    (h.runLoop hinv _ _ (Nat.lt_succ_self _) hk.2 (h.quiet _ _ rfl (h.setNow st a hk.1 hp)))

theorem ClosedG.pump (h : ClosedG P) (hinv : ∀ st, P st → Inv st) (ts : List Int) :
    ∀ st, okPump st ts = true → P st → P (pump st ts) := by
  induction ts with
  | nil => intro st _ hp; exact hp
  | cons a as ih =>
    intro st hk hp
    simp only [okPump, Bool.and_eq_true] at hk
    exact ih _ hk.2 (h.advance hinv st a hk.1 hp)

theorem ClosedG.apply (h : ClosedG P) (hinv : ∀ st, P st → Inv st) (t : Top) (st : St)
    (hk : okTop st t = true) (hp : P st) : P (t.apply st) := by
  cases t with
  | advance a => exact h.advance hinv st a hk hp
  | pump ts => exact h.pump hinv ts st hk hp
  | script s => exact h.exec s st hk hp

theorem ClosedG.runFrom (h : ClosedG P) (hinv : ∀ st, P st → Inv st) (hist : List Top) :
    ∀ st, okFrom st hist = true → P st → P (runFrom st hist) := by
  induction hist with
  | nil => intro st _ hp; exact hp
  | cons t ts ih =>
    intro st hk hp
    simp only [okFrom, Bool.and_eq_true] at hk
    exact ih _ hk.2 (h.apply hinv t st hk.1 hp)

/-- **Induction over admissible histories.** -/
theorem ClosedG.run (h : ClosedG P) (hinv : ∀ st, P st → Inv st) (h0 : P init) (hist : List Top)
    (ha : Admissible hist = true) : P (run hist) :=
  h.runFrom hinv hist init ha h0

end TwistedProps.C09
