import TwistedProps.C09.Lift
/-!
C09 — run times are nondecreasing for causal histories (no operation moves a call to a time
earlier than a call that has already run).
-/
namespace TwistedProps.C09
open Twisted.Reactor.Clock

def runTime? : Ev → Option Int
  | .run _ t _ => some t
  | _ => none

/-- scheduled times of the calls that ran, newest first -/
def runTimes (log : List Ev) : List Int := log.filterMap runTime?

/-- the time an event gives to a call (`callLater`, `reset`, `delay`) -/
def setsTime? : Ev → Option Int
  | .sched _ t => some t
  | .resched _ _ t => some t
  | _ => none

/-- no `callLater`/`reset`/`delay` put a call at a time earlier than the scheduled time of a call
    that had already run (log newest first) -/
def causal : List Ev → Bool
  | [] => true
  | e :: older =>
    (match setsTime? e with
      | some t => (runTimes older).all (fun y => decide (y ≤ t))
      | none => true) && causal older

theorem key_eq (st : St) (j : Nat) : st.key j = match st.objs[j]? with | some d => d.getTime | none => 0 := rfl

theorem key_set (st : St) (i j : Nat) (d d' : DC) (hd : st.objs[i]? = some d) (objs' : List DC)
    (h : objs' = st.objs.set i d') (st' : St) (hs : st'.objs = objs') :
    st'.key j = if j = i then d'.getTime else st.key j := by
  rw [key_eq, key_eq, hs, h, getElem?_set' st.objs i j d d' hd]
  by_cases hj : j = i <;> simp [hj]

theorem key_create (st : St) (dc : DC) (j : Nat) :
    (create st dc).key j = if j = st.objs.length then dc.getTime else st.key j := by
  rw [key_eq, key_eq, getElem?_create]
  by_cases hj : j = st.objs.length <;> simp [hj]

/-- run times so far are nondecreasing, and nothing pending is earlier than a call that ran -/
structure OrdInv (st : St) : Prop where
  mono : (runTimes st.log).Pairwise (· ≥ ·)
  floor : ∀ y ∈ runTimes st.log, ∀ i ∈ st.calls, y ≤ st.key i

def Ordered (st : St) : Prop := Inv st ∧ (causal st.log = true → OrdInv st)

theorem causal_cons_plain (e : Ev) (log : List Ev) (h : setsTime? e = none) :
    causal (e :: log) = causal log := by simp [causal, h]

theorem runTimes_cons_plain (e : Ev) (log : List Ev) (h : runTime? e = none) :
    runTimes (e :: log) = runTimes log := by simp [runTimes, h]

theorem causal_cons_sets (e : Ev) (log : List Ev) (t : Int) (h : setsTime? e = some t) :
    causal (e :: log) = true ↔ (∀ y ∈ runTimes log, y ≤ t) ∧ causal log = true := by
  simp [causal, h]

/-- steps that log an event which neither runs nor (re)schedules, keep `calls` within the old
    `calls`, and keep every key -/
theorem OrdInv.plain {st st' : St} (e : Ev) (hlog : st'.log = e :: st.log) (h1 : runTime? e = none)
    (hcalls : ∀ i ∈ st'.calls, i ∈ st.calls) (hkey : ∀ i, st'.key i = st.key i) (h : OrdInv st) : OrdInv st' := by
  constructor
  · rw [hlog, runTimes_cons_plain e _ h1]; exact h.mono
  · intro y hy i hi
    rw [hlog, runTimes_cons_plain e _ h1] at hy
    rw [hkey i]; exact h.floor y hy i (hcalls i hi)

theorem quiet_noTime {e : Ev} (hq : quiet e = true) : runTime? e = none ∧ setsTime? e = none := by
  cases e <;> simp [quiet, runTime?, setsTime?] at hq ⊢

theorem ordered_closed : Closed Ordered where
  quiet := fun st e hq h => ⟨inv_closed.quiet st e hq h.1, fun hc => by
    obtain ⟨q1, q2⟩ := quiet_noTime hq
    have hc' : causal st.log = true := by rw [← causal_cons_plain e st.log q2]; exact hc
    exact (h.2 hc').plain e rfl q1 (fun _ hi => hi) (fun _ => rfl)⟩
  valueError := fun st i d hd h1 h2 h3 h => absurd ((h.1.mem_iff i).2 ⟨d, hd, h1, h2⟩) h3
  look := fun st h => ⟨inv_closed.look st h.1, fun hc => by
    have hc' : causal st.log = true := by
      rw [← causal_cons_plain (.look st.calls (activeIds st.objs)) st.log rfl]; exact hc
    exact (h.2 hc').plain (.look st.calls (activeIds st.objs)) rfl rfl (fun _ hi => hi) (fun _ => rfl)⟩
  setNow := fun st a h => ⟨h.1.setNow a, fun hc => ⟨(h.2 hc).mono, (h.2 hc).floor⟩⟩
  sort := fun st h => ⟨h.1.sort, fun hc => ⟨(h.2 hc).mono, fun y hy i hi =>
    (h.2 hc).floor y hy i ((mem_sortCalls st i).1 hi)⟩⟩
  create := fun st delay body h => ⟨h.1.create delay body, fun hc => by
    have hc2 := (causal_cons_sets _ st.log _ rfl).1 hc
    have ho := h.2 hc2.2
    constructor
    · show (runTimes (_ :: st.log)).Pairwise _
      rw [runTimes_cons_plain _ _ rfl]; exact ho.mono
    · intro y hy i hi
      have hy' : y ∈ runTimes st.log := by
        have : runTimes (create st (fresh st.now delay body)).log = runTimes st.log :=
          runTimes_cons_plain _ _ rfl
        rw [this] at hy; exact hy
      rw [key_create]
      have hi' : i ∈ st.calls ++ [st.objs.length] := hi
      rcases List.mem_append.1 hi' with hh | hh
      · have : i ≠ st.objs.length := fun he => by
          have := h.1.lt_length hh; omega
        simp only [this, if_false]; exact ho.floor y hy' i hh
      · have : i = st.objs.length := by simpa using hh
        simp only [this, if_true]; exact hc2.1 y hy'⟩
  cancelOk := fun st i d hd h1 h2 h3 h => ⟨h.1.cancelOk i d hd h1 h2 h3, fun hc => by
    have hc' : causal st.log = true := by rw [← causal_cons_plain (.cancelled i) st.log rfl]; exact hc
    refine (h.2 hc').plain (.cancelled i) rfl rfl (fun j hj => List.mem_of_mem_erase hj) (fun j => ?_)
    rw [key_set st i j d { d with cancelled := true } hd _ rfl (cancelOk st i d) rfl]
    by_cases hj : j = i
    · subst hj; simp [key_eq, hd, DC.getTime]
    · simp [hj]⟩
  reschedOk := fun st b i d d' hd h1 h2 hs _ h => ⟨h.1.reschedOk b i d d' hd hs, fun hc => by
    have hc2 := (causal_cons_sets (.resched b i d'.getTime) st.log _ rfl).1 hc
    have ho := h.2 hc2.2
    constructor
    · show (runTimes (_ :: st.log)).Pairwise _
      rw [runTimes_cons_plain _ _ rfl]; exact ho.mono
    · intro y hy j hj
      have hy' : y ∈ runTimes st.log := by
        have : runTimes (reschedOk st b i d').log = runTimes st.log := runTimes_cons_plain _ _ rfl
        rw [this] at hy; exact hy
      rw [key_set st i j d d' hd _ rfl (reschedOk st b i d') rfl]
      by_cases hji : j = i
      · simp only [hji, if_true]; exact hc2.1 y hy'
      · simp only [hji, if_false]; exact ho.floor y hy' j hj⟩
  beginRun := fun st i rest d hc hd hdue hsorted h => ⟨h.1.beginRun i rest d hc hd hdue, fun hcs => by
    have hc' : causal st.log = true := by
      rw [← causal_cons_plain (.run i d.getTime st.now) st.log rfl]; exact hcs
    have ho := h.2 hc'
    have hrt : runTimes (beginRun st i rest d).log = d.getTime :: runTimes st.log := by
      show runTimes (_ :: st.log) = _
      simp [runTimes, runTime?]
    have hki : st.key i = d.getTime := by simp [key_eq, hd]
    have hi : i ∈ st.calls := by rw [hc]; simp
    have hkey : ∀ j, (beginRun st i rest d).key j = st.key j := by
      intro j
      rw [key_set st i j d { d with called := true } hd _ rfl (beginRun st i rest d) rfl]
      by_cases hj : j = i
      · subst hj; simp [hki, DC.getTime]
      · simp [hj]
    unfold Sorted at hsorted
    rw [hc] at hsorted
    have hp := List.pairwise_cons.1 hsorted
    constructor
    · rw [hrt]
      refine List.pairwise_cons.2 ⟨?_, ho.mono⟩
      intro y hy
      have := ho.floor y hy i hi
      show d.getTime ≥ y
      omega
    · intro y hy j hj
      have hj' : j ∈ rest := hj
      rw [hrt] at hy
      rw [hkey j]
      rcases List.mem_cons.1 hy with hh | hh
      · rw [hh, ← hki]; exact hp.1 j hj'
      · exact ho.floor y hh j (by rw [hc]; exact List.mem_cons_of_mem _ hj')⟩

theorem ordered_init : Ordered init := ⟨inv_init, fun _ => ⟨by simp [init, runTimes], by simp [init, runTimes]⟩⟩

theorem ordered_run (h : List Top) : Ordered (run h) := ordered_closed.run (fun _ h => h.1) ordered_init h

end TwistedProps.C09
