import TwistedProps.C09.Inv
/-!
C09 — the loop measure of `advance` (Σ over pending calls of 1 + script size): a script adds at
most its own size to it, so every loop iteration lowers it.
-/
namespace TwistedProps.C09
open Twisted.Reactor.Clock

def bsize (objs : List DC) (i : Nat) : Nat :=
  match objs[i]? with
  | some d => 1 + d.body.size
  | none => 0

theorem measure_eq (st : St) : measure st = (st.calls.map (bsize st.objs)).sum := rfl

theorem sum_map_congr {f g : Nat → Nat} {l : List Nat} (h : ∀ i ∈ l, f i = g i) :
    (l.map f).sum = (l.map g).sum := by
  rw [List.map_congr_left h]

theorem sum_map_erase_le (f : Nat → Nat) (l : List Nat) (i : Nat) :
    ((l.erase i).map f).sum ≤ (l.map f).sum := by
  induction l with
  | nil => simp
  | cons x xs ih =>
    by_cases hx : x = i
    · subst hx; simp
    · have : (x :: xs).erase i = x :: xs.erase i := by
        rw [List.erase_cons]; simp [hx]
      rw [this]; simp only [List.map_cons, List.sum_cons]; omega

theorem measure_emit (st : St) (e : Ev) : measure (st.emit e) = measure st := rfl
theorem measure_setNow (st : St) (a : Int) : measure (setNow st a) = measure st := rfl

theorem measure_sort (st : St) : measure (sortCalls st) = measure st := by
  rw [measure_eq, measure_eq]
  exact ((isort_perm st.key st.calls).map _).sum_nat

theorem measure_create {st : St} (h : Inv st) (dc : DC) :
    measure (create st dc) = measure st + (1 + dc.body.size) := by
  rw [measure_eq, measure_eq]
  show ((st.calls ++ [st.objs.length]).map (bsize (st.objs ++ [dc]))).sum = _
  rw [List.map_append, List.sum_append]
  have h1 : (st.calls.map (bsize (st.objs ++ [dc]))).sum = (st.calls.map (bsize st.objs)).sum := by
    apply sum_map_congr
    intro i hi
    unfold bsize
    rw [List.getElem?_append_left (h.lt_length hi)]
  rw [h1]
  simp [bsize]

theorem bsize_set (objs : List DC) (i : Nat) (d d' : DC) (hd : objs[i]? = some d) (hb : d'.body = d.body) (j : Nat) :
    bsize (objs.set i d') j = bsize objs j := by
  unfold bsize
  rw [getElem?_set' objs i j d d' hd]
  by_cases hj : j = i
  · subst hj; simp [hd, hb]
  · simp [hj]

theorem measure_cancelOk (st : St) (i : Nat) (d : DC) (hd : st.objs[i]? = some d) :
    measure (cancelOk st i d) ≤ measure st := by
  rw [measure_eq, measure_eq]
  show ((st.calls.erase i).map (bsize (st.objs.set i { d with cancelled := true }))).sum ≤ _
  rw [sum_map_congr (fun j _ => bsize_set st.objs i d { d with cancelled := true } hd rfl j)]
  exact sum_map_erase_le _ _ _

theorem measure_reschedOk (st : St) (b : Bool) (i : Nat) (d d' : DC) (hd : st.objs[i]? = some d)
    (hs : SameBut d d') : measure (reschedOk st b i d') = measure st := by
  rw [measure_eq, measure_eq]
  show (st.calls.map (bsize (st.objs.set i d'))).sum = _
  exact sum_map_congr (fun j _ => bsize_set st.objs i d d' hd hs.2.2 j)

theorem measure_beginRun (st : St) (i : Nat) (rest : List Nat) (d : DC) (hc : st.calls = i :: rest)
    (hd : st.objs[i]? = some d) : measure (beginRun st i rest d) + (1 + d.body.size) = measure st := by
  rw [measure_eq, measure_eq, hc]
  show (rest.map (bsize (st.objs.set i { d with called := true }))).sum + _ = _
  rw [sum_map_congr (fun j _ => bsize_set st.objs i d { d with called := true } hd rfl j)]
  simp [bsize, hd]; omega

/-- `P st ∧ measure st ≤ m + k`-style bound through one script -/
theorem measure_exec_le (s : Script) : ∀ st, Inv st → measure (exec s st) ≤ measure st + s.size := by
  induction s with
  | nil => intro st _; simp [exec, Script.size]
  | callLater d body rest _ ih =>
    intro st h
    have h' : Inv (callLater st d body) := inv_closed.callLater st d body h
    have := ih _ h'
    have e : measure (callLater st d body) = measure st + (1 + body.size) := by
      show measure ((sortCalls _).emit _) = _
      rw [measure_emit, measure_sort]
      exact measure_create h (fresh st.now d body)
    simp only [exec, Script.size]; omega
  | cancel i rest ih =>
    intro st h
    have h' : Inv (cancel st i) := inv_closed.cancel st i h
    have := ih _ h'
    have e : measure (cancel st i) ≤ measure st := by
      cases hd : st.objs[i]? with
      | none => rw [cancel_none hd, measure_emit]; exact Nat.le_refl _
      | some d =>
        cases h1 : d.cancelled with
        | true => rw [cancel_cancelled hd h1, measure_emit]; exact Nat.le_refl _
        | false =>
          cases h2 : d.called with
          | true => rw [cancel_called hd h1 h2, measure_emit]; exact Nat.le_refl _
          | false =>
            by_cases h3 : i ∈ st.calls
            · rw [cancel_ok hd h1 h2 h3]; exact measure_cancelOk st i d hd
            · rw [cancel_valueError hd h1 h2 h3, measure_emit]; exact Nat.le_refl _
    simp only [exec, Script.size]; omega
  | reset i secs rest ih =>
    intro st h
    have h' : Inv (reset st i secs) := inv_closed.reset st i secs h
    have := ih _ h'
    have e : measure (reset st i secs) = measure st := by
      cases hd : st.objs[i]? with
      | none => rw [reset_none hd, measure_emit]
      | some d =>
        cases h1 : d.cancelled with
        | true => rw [reset_cancelled hd h1, measure_emit]
        | false =>
          cases h2 : d.called with
          | true => rw [reset_called hd h1 h2, measure_emit]
          | false => rw [reset_ok hd h1 h2]; exact measure_reschedOk st _ i d _ hd (resetDC_same _ _ _)
    simp only [exec, Script.size]; omega
  | delay i secs rest ih =>
    intro st h
    have h' : Inv (delay st i secs) := inv_closed.delay st i secs h
    have := ih _ h'
    have e : measure (delay st i secs) = measure st := by
      cases hd : st.objs[i]? with
      | none => rw [delay_none hd, measure_emit]
      | some d =>
        cases h1 : d.cancelled with
        | true => rw [delay_cancelled hd h1, measure_emit]
        | false =>
          cases h2 : d.called with
          | true => rw [delay_called hd h1 h2, measure_emit]
          | false => rw [delay_ok hd h1 h2]; exact measure_reschedOk st _ i d _ hd (delayDC_same _ _)
    simp only [exec, Script.size]; omega
  | look rest ih =>
    intro st h
    have h' : Inv (look st) := inv_closed.look st h
    have := ih _ h'
    have e : measure (look st) = measure st := rfl
    simp only [exec, Script.size]; omega

end TwistedProps.C09
