import TwistedProps.C09.Sort
/-!
C09 — every operation of the model is a composition of nine atomic state changes (`Closed`);
`TwistedProps/C09/Lift.lean` shows a predicate closed under them holds after every history.
-/
namespace TwistedProps.C09
open Twisted.Reactor.Clock

/-- `Clock.calls` is sorted by `getTime` -/
def Sorted (st : St) : Prop := st.calls.Pairwise (fun a b => st.key a ≤ st.key b)

/-- `callLater` before its `_sortCalls()` -/
def create (st : St) (dc : DC) : St :=
  { st with objs := st.objs ++ [dc], calls := st.calls ++ [st.objs.length],
            log := .sched st.objs.length dc.getTime :: st.log }

def cancelOk (st : St) (i : Nat) (d : DC) : St :=
  { st with calls := st.calls.erase i, objs := st.objs.set i { d with cancelled := true },
            log := .cancelled i :: st.log }

def reschedOk (st : St) (b : Bool) (i : Nat) (d' : DC) : St :=
  { st with objs := st.objs.set i d', log := .resched b i d'.getTime :: st.log }

def setNow (st : St) (a : Int) : St := { st with now := st.now + a }

/-- events that only record something -/
def quiet : Ev → Bool
  | .refused _ .alreadyCancelled | .refused _ .alreadyCalled | .noref _ | .endrun _ | .advBegin
  | .advEnd _ => true
  | _ => false

/-- a fresh `DelayedCall` -/
def fresh (now delay : Int) (body : Script) : DC :=
  { time := now + delay, delayed := 0, cancelled := false, called := false, body := body }

/-- what `reset(secs)` makes of `d` -/
def resetDC (now secs : Int) (d : DC) : DC :=
  if now + secs < d.time then { d with delayed := 0, time := now + secs }
  else { d with delayed := now + secs - d.time }

/-- what `delay(secs)` makes of `d` -/
def delayDC (secs : Int) (d : DC) : DC :=
  if d.delayed + secs < 0 then { d with time := d.time + (d.delayed + secs), delayed := 0 }
  else { d with delayed := d.delayed + secs }

/-- same flags and script (only the time changed) -/
def SameBut (d d' : DC) : Prop := d'.cancelled = d.cancelled ∧ d'.called = d.called ∧ d'.body = d.body

theorem resetDC_same (now secs : Int) (d : DC) : SameBut d (resetDC now secs d) := by
  unfold resetDC SameBut; split <;> simp
theorem delayDC_same (secs : Int) (d : DC) : SameBut d (delayDC secs d) := by
  unfold delayDC SameBut; split <;> simp
theorem resetDC_getTime (now secs : Int) (d : DC) : (resetDC now secs d).getTime = now + secs := by
  unfold resetDC DC.getTime; split <;> simp <;> omega
theorem delayDC_getTime (secs : Int) (d : DC) : (delayDC secs d).getTime = d.getTime + secs := by
  unfold delayDC DC.getTime; split <;> simp <;> omega

/-- how a (re)scheduling operation picked the new time: `reset` → `now + secs`; `delay` → old + secs -/
def ReschedBy (st : St) (b : Bool) (d d' : DC) : Prop :=
  (b = false ∧ ∃ secs, d' = resetDC st.now secs d) ∨ (b = true ∧ ∃ secs, d' = delayDC secs d)

structure Closed (P : St → Prop) : Prop where
  quiet : ∀ st e, quiet e = true → P st → P (st.emit e)
  valueError : ∀ st i d, st.objs[i]? = some d → d.cancelled = false → d.called = false → i ∉ st.calls →
    P st → P (st.emit (.refused i .valueError))
  look : ∀ st, P st → P (st.emit (.look st.calls (activeIds st.objs)))
  setNow : ∀ st a, P st → P (setNow st a)
  sort : ∀ st, P st → P (sortCalls st)
  create : ∀ st delay body, P st → P (create st (fresh st.now delay body))
  cancelOk : ∀ st i d, st.objs[i]? = some d → d.cancelled = false → d.called = false → i ∈ st.calls →
    P st → P (cancelOk st i d)
  reschedOk : ∀ st b i d d', st.objs[i]? = some d → d.cancelled = false → d.called = false →
    SameBut d d' → ReschedBy st b d d' → P st → P (reschedOk st b i d')
  beginRun : ∀ st i rest d, st.calls = i :: rest → st.objs[i]? = some d → d.getTime ≤ st.now →
    Sorted st → P st → P (beginRun st i rest d)

variable {P : St → Prop}

theorem sortCalls_sorted (st : St) : Sorted (sortCalls st) := isort_sorted st.key st.calls

theorem Closed.callLater (h : Closed P) (st : St) (delay : Int) (body : Script) (hp : P st) :
    P (callLater st delay body) :=
  h.sort _ (h.create st delay body hp)

theorem cancel_none {st : St} {i : Nat} (hd : st.objs[i]? = none) : cancel st i = st.emit (.noref i) := by
  simp [Twisted.Reactor.Clock.cancel, hd]
theorem reset_none {st : St} {i : Nat} {secs : Int} (hd : st.objs[i]? = none) :
    reset st i secs = st.emit (.noref i) := by
  simp [Twisted.Reactor.Clock.reset, hd]
theorem delay_none {st : St} {i : Nat} {secs : Int} (hd : st.objs[i]? = none) :
    delay st i secs = st.emit (.noref i) := by
  simp [Twisted.Reactor.Clock.delay, hd]

theorem cancel_cancelled {st : St} {i : Nat} {d : DC} (hd : st.objs[i]? = some d) (h1 : d.cancelled = true) :
    cancel st i = st.emit (.refused i .alreadyCancelled) := by
  simp [Twisted.Reactor.Clock.cancel, hd, h1]
theorem reset_cancelled {st : St} {i : Nat} {secs : Int} {d : DC} (hd : st.objs[i]? = some d)
    (h1 : d.cancelled = true) : reset st i secs = st.emit (.refused i .alreadyCancelled) := by
  simp [Twisted.Reactor.Clock.reset, hd, h1]
theorem delay_cancelled {st : St} {i : Nat} {secs : Int} {d : DC} (hd : st.objs[i]? = some d)
    (h1 : d.cancelled = true) : delay st i secs = st.emit (.refused i .alreadyCancelled) := by
  simp [Twisted.Reactor.Clock.delay, hd, h1]

theorem cancel_called {st : St} {i : Nat} {d : DC} (hd : st.objs[i]? = some d) (h1 : d.cancelled = false)
    (h2 : d.called = true) : cancel st i = st.emit (.refused i .alreadyCalled) := by
  simp [Twisted.Reactor.Clock.cancel, hd, h1, h2]
theorem reset_called {st : St} {i : Nat} {secs : Int} {d : DC} (hd : st.objs[i]? = some d)
    (h1 : d.cancelled = false) (h2 : d.called = true) :
    reset st i secs = st.emit (.refused i .alreadyCalled) := by
  simp [Twisted.Reactor.Clock.reset, hd, h1, h2]
theorem delay_called {st : St} {i : Nat} {secs : Int} {d : DC} (hd : st.objs[i]? = some d)
    (h1 : d.cancelled = false) (h2 : d.called = true) :
    delay st i secs = st.emit (.refused i .alreadyCalled) := by
  simp [Twisted.Reactor.Clock.delay, hd, h1, h2]

theorem cancel_ok {st : St} {i : Nat} {d : DC} (hd : st.objs[i]? = some d) (h1 : d.cancelled = false)
    (h2 : d.called = false) (h3 : i ∈ st.calls) : cancel st i = cancelOk st i d := by
  simp [Twisted.Reactor.Clock.cancel, cancelOk, hd, h1, h2, h3]
theorem cancel_valueError {st : St} {i : Nat} {d : DC} (hd : st.objs[i]? = some d) (h1 : d.cancelled = false)
    (h2 : d.called = false) (h3 : i ∉ st.calls) : cancel st i = st.emit (.refused i .valueError) := by
  simp [Twisted.Reactor.Clock.cancel, hd, h1, h2, h3]
theorem reset_ok {st : St} {i : Nat} {secs : Int} {d : DC} (hd : st.objs[i]? = some d)
    (h1 : d.cancelled = false) (h2 : d.called = false) :
    reset st i secs = reschedOk st false i (resetDC st.now secs d) := by
  simp [Twisted.Reactor.Clock.reset, reschedOk, resetDC, hd, h1, h2]
theorem delay_ok {st : St} {i : Nat} {secs : Int} {d : DC} (hd : st.objs[i]? = some d)
    (h1 : d.cancelled = false) (h2 : d.called = false) :
    delay st i secs = reschedOk st true i (delayDC secs d) := by
  simp [Twisted.Reactor.Clock.delay, reschedOk, delayDC, hd, h1, h2]

theorem Closed.cancel (h : Closed P) (st : St) (i : Nat) (hp : P st) : P (cancel st i) := by
  cases hd : st.objs[i]? with
  | none => rw [cancel_none hd]; exact h.quiet _ _ rfl hp
  | some d =>
    cases h1 : d.cancelled with
    | true => rw [cancel_cancelled hd h1]; exact h.quiet _ _ rfl hp
    | false =>
      cases h2 : d.called with
      | true => rw [cancel_called hd h1 h2]; exact h.quiet _ _ rfl hp
      | false =>
        by_cases h3 : i ∈ st.calls
        · rw [cancel_ok hd h1 h2 h3]; exact h.cancelOk st i d hd h1 h2 h3 hp
        · rw [cancel_valueError hd h1 h2 h3]; exact h.valueError st i d hd h1 h2 h3 hp

theorem Closed.reset (h : Closed P) (st : St) (i : Nat) (secs : Int) (hp : P st) : P (reset st i secs) := by
  cases hd : st.objs[i]? with
  | none => rw [reset_none hd]; exact h.quiet _ _ rfl hp
  | some d =>
    cases h1 : d.cancelled with
    | true => rw [reset_cancelled hd h1]; exact h.quiet _ _ rfl hp
    | false =>
      cases h2 : d.called with
      | true => rw [reset_called hd h1 h2]; exact h.quiet _ _ rfl hp
      | false =>
        rw [reset_ok hd h1 h2]
        exact h.reschedOk st false i d _ hd h1 h2 (resetDC_same _ _ _) (Or.inl ⟨rfl, secs, rfl⟩) hp

theorem Closed.delay (h : Closed P) (st : St) (i : Nat) (secs : Int) (hp : P st) : P (delay st i secs) := by
  cases hd : st.objs[i]? with
  | none => rw [delay_none hd]; exact h.quiet _ _ rfl hp
  | some d =>
    cases h1 : d.cancelled with
    | true => rw [delay_cancelled hd h1]; exact h.quiet _ _ rfl hp
    | false =>
      cases h2 : d.called with
      | true => rw [delay_called hd h1 h2]; exact h.quiet _ _ rfl hp
      | false =>
        rw [delay_ok hd h1 h2]
        exact h.reschedOk st true i d _ hd h1 h2 (delayDC_same _ _) (Or.inr ⟨rfl, secs, rfl⟩) hp

theorem Closed.exec (h : Closed P) (s : Script) : ∀ st, P st → P (exec s st) := by
  induction s with
  | nil => intro st hp; exact hp
  | callLater d body rest _ ih => intro st hp; exact ih _ (h.callLater st d body hp)
  | cancel i rest ih => intro st hp; exact ih _ (h.cancel st i hp)
  | reset i s rest ih => intro st hp; exact ih _ (h.reset st i s hp)
  | delay i s rest ih => intro st hp; exact ih _ (h.delay st i s hp)
  | look rest ih => intro st hp; exact ih _ (h.look st hp)

theorem runLoop_zero (st : St) : runLoop 0 st = st.emit .stuck := rfl

theorem runLoop_succ (n : Nat) (st : St) :
    runLoop (n + 1) st =
      match (sortCalls st).calls with
      | [] => sortCalls st
      | i :: rest =>
        match (sortCalls st).objs[i]? with
        | none => sortCalls st
        | some d =>
          if d.getTime ≤ (sortCalls st).now then
            runLoop n ((exec d.body (beginRun (sortCalls st) i rest d)).emit (.endrun i))
          else sortCalls st := rfl

end TwistedProps.C09
