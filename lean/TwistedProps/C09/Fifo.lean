import TwistedProps.C09.Order
/-!
C09 — calls created for the same instant and never rescheduled run in creation order
(stability of the sort + append-at-the-end in `callLater`).
-/
namespace TwistedProps.C09
open Twisted.Reactor.Clock

/-- no `reset()`/`delay()` on call `i` ever returned normally -/
def unresched (log : List Ev) (i : Nat) : Prop := ∀ b t, Ev.resched b i t ∉ log

/-- call `i` started running -/
def ran (log : List Ev) (i : Nat) : Prop := ∃ t now, Ev.run i t now ∈ log

/-- both created by `callLater` for the same time `t`, neither rescheduled -/
def SameSlot (log : List Ev) (i j : Nat) : Prop :=
  ∃ t, Ev.sched i t ∈ log ∧ Ev.sched j t ∈ log ∧ unresched log i ∧ unresched log j

theorem SameSlot.symm {log : List Ev} {i j : Nat} (h : SameSlot log i j) : SameSlot log j i := by
  obtain ⟨t, a, b, c, d⟩ := h; exact ⟨t, b, a, d, c⟩

structure FifoInv (st : St) : Prop where
  schedLt : ∀ i t, Ev.sched i t ∈ st.log → i < st.objs.length
  keyOf : ∀ i t, Ev.sched i t ∈ st.log → unresched st.log i → st.key i = t
  order : st.calls.Pairwise (fun a b => SameSlot st.log a b → a < b)
  done : ∀ i j, i < j → SameSlot st.log i j → ran st.log j → i ∉ st.calls
  before : ∀ i j, i < j → SameSlot st.log i j → ∀ l1 l2 ti ni,
    st.log = l1 ++ Ev.run i ti ni :: l2 → ¬ ran l2 j

def Fifo (st : St) : Prop := Inv st ∧ FifoInv st

theorem ran_runCount {log : List Ev} {i : Nat} (h : ran log i) : 0 < runCount log i := by
  obtain ⟨t, now, hm⟩ := h
  unfold runCount
  rw [List.countP_pos_iff]
  exact ⟨_, hm, by simp [isRun]⟩

theorem Inv.not_ran_of_none {st : St} (h : Inv st) {i : Nat} (hn : st.objs[i]? = none) : ¬ ran st.log i := by
  intro hr
  have := ran_runCount hr
  have h2 := h.runs i
  rw [hn] at h2
  simp at h2
  omega

/-- an event that is no `sched`, `resched` or `run` -/
def PlainEv (e : Ev) : Prop :=
  (∀ i t, e ≠ .sched i t) ∧ (∀ b i t, e ≠ .resched b i t) ∧ (∀ i t n, e ≠ .run i t n)

theorem unresched_of_cons {e : Ev} {log : List Ev} {i : Nat} (h : unresched (e :: log) i) : unresched log i :=
  fun b t hm => h b t (List.mem_cons_of_mem _ hm)

theorem unresched_cons {e : Ev} {log : List Ev} {i : Nat} (he : ∀ b t, e ≠ .resched b i t)
    (h : unresched log i) : unresched (e :: log) i := by
  intro b t hm
  rcases List.mem_cons.1 hm with hh | hh
  · exact he b t hh.symm
  · exact h b t hh

theorem sameSlot_of_cons {e : Ev} {log : List Ev} {i j : Nat} (he : ∀ k t, e ≠ .sched k t)
    (h : SameSlot (e :: log) i j) : SameSlot log i j := by
  obtain ⟨t, a, b, c, d⟩ := h
  refine ⟨t, ?_, ?_, unresched_of_cons c, unresched_of_cons d⟩
  · rcases List.mem_cons.1 a with hh | hh
    · exact absurd hh.symm (he i t)
    · exact hh
  · rcases List.mem_cons.1 b with hh | hh
    · exact absurd hh.symm (he j t)
    · exact hh

theorem ran_of_cons {e : Ev} {log : List Ev} {j : Nat} (he : ∀ t n, e ≠ .run j t n)
    (h : ran (e :: log) j) : ran log j := by
  obtain ⟨t, n, hm⟩ := h
  rcases List.mem_cons.1 hm with hh | hh
  · exact absurd hh.symm (he t n)
  · exact ⟨t, n, hh⟩

/-- splitting `e :: log` at a `run` event when `e` is not that event -/
theorem split_cons {e x : Ev} {log l1 l2 : List Ev} (hne : e ≠ x) (h : e :: log = l1 ++ x :: l2) :
    ∃ l1', l1 = e :: l1' ∧ log = l1' ++ x :: l2 := by
  cases l1 with
  | nil => simp at h; exact absurd h.1 hne
  | cons a l1' =>
    simp at h
    exact ⟨l1', by rw [h.1], h.2⟩

/-- steps that log a plain event, shrink `calls` to a sublist and keep keys and the store size -/
theorem FifoInv.plain {st st' : St} (e : Ev) (hlog : st'.log = e :: st.log) (he : PlainEv e)
    (hsub : st'.calls.Sublist st.calls) (hkey : ∀ i, st'.key i = st.key i)
    (hlen : st'.objs.length = st.objs.length) (h : FifoInv st) : FifoInv st' := by
  obtain ⟨e1, e2, e3⟩ := he
  have hsched : ∀ i t, Ev.sched i t ∈ st'.log → Ev.sched i t ∈ st.log := by
    intro i t hm
    rw [hlog] at hm
    rcases List.mem_cons.1 hm with hh | hh
    · exact absurd hh.symm (e1 i t)
    · exact hh
  constructor
  · intro i t hm; rw [hlen]; exact h.schedLt i t (hsched i t hm)
  · intro i t hm hu
    rw [hkey]; rw [hlog] at hu
    exact h.keyOf i t (hsched i t hm) (unresched_of_cons hu)
  · refine (h.order.sublist hsub).imp ?_
    intro a b hab hs
    rw [hlog] at hs
    exact hab (sameSlot_of_cons e1 hs)
  · intro i j hij hs hr hi
    rw [hlog] at hs hr
    exact h.done i j hij (sameSlot_of_cons e1 hs) (ran_of_cons (e3 j) hr) (hsub.subset hi)
  · intro i j hij hs l1 l2 ti ni hsplit
    rw [hlog] at hs hsplit
    obtain ⟨l1', _, hl⟩ := split_cons (e3 i ti ni) hsplit
    exact h.before i j hij (sameSlot_of_cons e1 hs) l1' l2 ti ni hl

theorem quiet_plainEv {e : Ev} (hq : quiet e = true) : PlainEv e := by
  cases e <;> simp [quiet] at hq <;> simp [PlainEv]

theorem fifo_closed : Closed Fifo where
  quiet := fun st e hq h => ⟨inv_closed.quiet st e hq h.1,
    h.2.plain e rfl (quiet_plainEv hq) (List.Sublist.refl _) (fun _ => rfl) rfl⟩
  valueError := fun st i d hd h1 h2 h3 h => absurd ((h.1.mem_iff i).2 ⟨d, hd, h1, h2⟩) h3
  look := fun st h => ⟨inv_closed.look st h.1,
    h.2.plain (.look st.calls (activeIds st.objs)) rfl (by simp [PlainEv]) (List.Sublist.refl _) (fun _ => rfl) rfl⟩
  setNow := fun st a h => ⟨h.1.setNow a, ⟨h.2.schedLt, h.2.keyOf, h.2.order, h.2.done, h.2.before⟩⟩
  sort := fun st h => ⟨h.1.sort, by
    refine ⟨h.2.schedLt, h.2.keyOf, ?_, ?_, h.2.before⟩
    · show (isort st.key st.calls).Pairwise _
      refine isort_pairwise st.key st.calls h.2.order ?_
      intro a _ b _ hlt hs
      obtain ⟨t, sa, sb, ua, ub⟩ := hs
      have ka := h.2.keyOf a t sa ua
      have kb := h.2.keyOf b t sb ub
      omega
    · intro i j hij hs hr hi
      exact h.2.done i j hij hs hr ((mem_sortCalls st i).1 hi)⟩
  create := fun st delay body h => ⟨h.1.create delay body, by
    have hnone : st.objs[st.objs.length]? = none := List.getElem?_eq_none_iff.2 (Nat.le_refl _)
    have hnr : ¬ ran st.log st.objs.length := h.1.not_ran_of_none hnone
    -- facts about the new log
    have hsched : ∀ i t, Ev.sched i t ∈ (create st (fresh st.now delay body)).log →
        (i = st.objs.length ∧ t = (fresh st.now delay body).getTime) ∨ (Ev.sched i t ∈ st.log ∧ i < st.objs.length) := by
      intro i t hm
      rcases List.mem_cons.1 hm with hh | hh
      · left; cases hh; exact ⟨rfl, rfl⟩
      · right; exact ⟨hh, h.2.schedLt i t hh⟩
    have hss : ∀ i j, i < st.objs.length → j < st.objs.length →
        SameSlot (create st (fresh st.now delay body)).log i j → SameSlot st.log i j := by
      intro i j hi hj hs
      obtain ⟨t, a, b, c, d⟩ := hs
      refine ⟨t, ?_, ?_, unresched_of_cons c, unresched_of_cons d⟩
      · rcases hsched i t a with hh | hh
        · omega
        · exact hh.1
      · rcases hsched j t b with hh | hh
        · omega
        · exact hh.1
    have hslt : ∀ i j, SameSlot (create st (fresh st.now delay body)).log i j → i ≤ st.objs.length ∧ j ≤ st.objs.length := by
      intro i j hs
      obtain ⟨t, a, b, _, _⟩ := hs
      constructor
      · rcases hsched i t a with hh | hh <;> omega
      · rcases hsched j t b with hh | hh <;> omega
    constructor
    · intro i t hm
      show i < (st.objs ++ [_]).length
      rw [List.length_append]
      rcases hsched i t hm with hh | hh <;> simp <;> omega
    · intro i t hm hu
      rw [key_create]
      rcases hsched i t hm with hh | hh
      · simp [hh.1, hh.2]
      · have : i ≠ st.objs.length := by omega
        simp only [this, if_false]
        exact h.2.keyOf i t hh.1 (unresched_of_cons hu)
    · show (st.calls ++ [st.objs.length]).Pairwise _
      rw [List.pairwise_append]
      refine ⟨?_, by simp, ?_⟩
      · refine h.2.order.imp_of_mem ?_
        intro a b ha hb hab hs
        exact hab (hss a b (h.1.lt_length ha) (h.1.lt_length hb) hs)
      · intro a ha b hb _
        have : b = st.objs.length := by simpa using hb
        have := h.1.lt_length ha
        omega
    · intro i j hij hs hr hi
      have hr' : ran st.log j := ran_of_cons (by intro t n; simp) hr
      have hj : j ≠ st.objs.length := fun hh => hnr (hh ▸ hr')
      have hb := hslt i j hs
      have hi' : i ∈ st.calls ++ [st.objs.length] := hi
      rcases List.mem_append.1 hi' with hh | hh
      · exact h.2.done i j hij (hss i j (by omega) (by omega) hs) hr' hh
      · have : i = st.objs.length := by simpa using hh
        omega
    · intro i j hij hs l1 l2 ti ni hsplit
      obtain ⟨l1', _, hl⟩ := split_cons (by simp) hsplit
      have hb := hslt i j hs
      by_cases hj : j = st.objs.length
      · intro hr
        apply hnr
        obtain ⟨t, n, hm⟩ := hr
        subst hj
        exact ⟨t, n, by rw [hl]; exact List.mem_append_right _ (List.mem_cons_of_mem _ hm)⟩
      · exact h.2.before i j hij (hss i j (by omega) (by omega) hs) l1' l2 ti ni hl⟩
  cancelOk := fun st i d hd h1 h2 h3 h => ⟨h.1.cancelOk i d hd h1 h2 h3, by
    refine h.2.plain (.cancelled i) rfl (by simp [PlainEv]) List.erase_sublist (fun j => ?_) (by simp [cancelOk])
    rw [key_set st i j d { d with cancelled := true } hd _ rfl (cancelOk st i d) rfl]
    by_cases hj : j = i
    · subst hj; simp [key_eq, hd, DC.getTime]
    · simp [hj]⟩
  reschedOk := fun st b i d d' hd h1 h2 hs _ h => ⟨h.1.reschedOk b i d d' hd hs, by
    have hne : ∀ k, unresched (reschedOk st b i d').log k → k ≠ i := by
      intro k hu hk
      subst hk
      exact hu b d'.getTime (by simp [reschedOk])
    have hss : ∀ a c, SameSlot (reschedOk st b i d').log a c → SameSlot st.log a c :=
      fun a c hs => sameSlot_of_cons (by simp) hs
    constructor
    · intro k t hm
      have : Ev.sched k t ∈ st.log := by
        rcases List.mem_cons.1 hm with hh | hh
        · cases hh
        · exact hh
      show k < (st.objs.set i d').length
      rw [List.length_set]; exact h.2.schedLt k t this
    · intro k t hm hu
      have : Ev.sched k t ∈ st.log := by
        rcases List.mem_cons.1 hm with hh | hh
        · cases hh
        · exact hh
      rw [key_set st i k d d' hd _ rfl (reschedOk st b i d') rfl]
      simp only [hne k hu, if_false]
      exact h.2.keyOf k t this (unresched_of_cons hu)
    · exact h.2.order.imp (fun hab hs => hab (hss _ _ hs))
    · intro a c hac hs hr hi
      exact h.2.done a c hac (hss a c hs) (ran_of_cons (by intro t n; simp) hr) hi
    · intro a c hac hs l1 l2 ti ni hsplit
      obtain ⟨l1', _, hl⟩ := split_cons (by simp) hsplit
      exact h.2.before a c hac (hss a c hs) l1' l2 ti ni hl⟩
  beginRun := fun st i rest d hc hd hdue _ h => ⟨h.1.beginRun i rest d hc hd hdue, by
    have hi : i ∈ st.calls := by rw [hc]; simp
    have hss : ∀ a c, SameSlot (beginRun st i rest d).log a c → SameSlot st.log a c :=
      fun a c hs => sameSlot_of_cons (by simp) hs
    have hkey : ∀ j, (beginRun st i rest d).key j = st.key j := by
      intro j
      rw [key_set st i j d { d with called := true } hd _ rfl (beginRun st i rest d) rfl]
      by_cases hj : j = i
      · subst hj; simp [key_eq, hd, DC.getTime]
      · simp [hj]
    have hord := h.2.order
    rw [hc] at hord
    have hp := List.pairwise_cons.1 hord
    constructor
    · intro k t hm
      have : Ev.sched k t ∈ st.log := by
        rcases List.mem_cons.1 hm with hh | hh
        · cases hh
        · exact hh
      show k < (st.objs.set i _).length
      rw [List.length_set]; exact h.2.schedLt k t this
    · intro k t hm hu
      have : Ev.sched k t ∈ st.log := by
        rcases List.mem_cons.1 hm with hh | hh
        · cases hh
        · exact hh
      rw [hkey]
      exact h.2.keyOf k t this (unresched_of_cons hu)
    · exact hp.2.imp (fun hab hs => hab (hss _ _ hs))
    · intro a c hac hs hr ha
      have ha' : a ∈ rest := ha
      by_cases hci : c = i
      · subst hci
        have := hp.1 a ha' (hss _ _ hs).symm
        omega
      · have hr' : ran st.log c := ran_of_cons (by intro t n hh; cases hh; exact hci rfl) hr
        exact h.2.done a c hac (hss a c hs) hr' (by rw [hc]; exact List.mem_cons_of_mem _ ha')
    · intro a c hac hs l1 l2 ti ni hsplit
      have hsplit' : Ev.run i d.getTime st.now :: st.log = l1 ++ Ev.run a ti ni :: l2 := hsplit
      cases l1 with
      | nil =>
        simp at hsplit'
        obtain ⟨⟨ha, _, _⟩, hl⟩ := hsplit'
        subst ha; subst hl
        intro hr
        exact h.2.done i c hac (hss i c hs) hr hi
      | cons x l1' =>
        simp at hsplit'
        exact h.2.before a c hac (hss a c hs) l1' l2 ti ni hsplit'.2⟩

theorem fifo_init : Fifo init :=
  ⟨inv_init, by
    constructor <;> simp [init]⟩

theorem fifo_run (h : List Top) : Fifo (run h) := fifo_closed.run (fun _ h => h.1) fifo_init h

end TwistedProps.C09
