import TwistedProps.C09.Measure
/-!
C09 — lifting a `Closed` predicate through the `advance` loop and whole histories.  The loop has
fuel `measure + 1`; because every iteration lowers the measure the fuel is never exhausted
(`runLoop_noStuck`), so no obligation arises for the `stuck` event.
-/
namespace TwistedProps.C09
open Twisted.Reactor.Clock
open Twisted.Reactor

variable {P : St → Prop}

/-- the state at the end of one loop iteration has a strictly smaller measure -/
theorem measure_iteration {st : St} (h : Inv st) (i : Nat) (rest : List Nat) (d : DC)
    (hc : st.calls = i :: rest) (hd : st.objs[i]? = some d) (hdue : d.getTime ≤ st.now) :
    Clock.measure ((exec d.body (beginRun st i rest d)).emit (.endrun i)) < Clock.measure st := by
  have h1 := measure_beginRun st i rest d hc hd
  have h2 := measure_exec_le d.body _ (h.beginRun i rest d hc hd hdue)
  rw [measure_emit]; omega

theorem Closed.runLoop (h : Closed P) (hinv : ∀ st, P st → Inv st) :
    ∀ fuel st, Clock.measure st < fuel → P st → P (runLoop fuel st) := by
  intro fuel
  induction fuel with
  | zero => intro st hm; omega
  | succ n ih =>
    intro st hm hp
    have hs := h.sort st hp
    have hsorted := sortCalls_sorted st
    have hms := measure_sort st
    rw [runLoop_succ]
    split
    · exact hs
    · rename_i i rest hc
      split
      · exact hs
      · rename_i d hd
        split
        · rename_i hdue
          have hlt := measure_iteration (hinv _ hs) i rest d hc hd hdue
          exact ih _ (by omega)
            (h.quiet _ _ rfl (h.exec d.body _ (h.beginRun _ i rest d hc hd hdue hsorted hs)))
        · exact hs

theorem Closed.advance (h : Closed P) (hinv : ∀ st, P st → Inv st) (st : St) (a : Int) (hp : P st) :
    P (advance st a) := by
  unfold Twisted.Reactor.Clock.advance
  exact h.quiet _ _ rfl (h.runLoop hinv _ _ (Nat.lt_succ_self _) (h.quiet _ _ rfl (h.setNow st a hp)))

theorem Closed.pump (h : Closed P) (hinv : ∀ st, P st → Inv st) (ts : List Int) :
    ∀ st, P st → P (pump st ts) := by
  induction ts with
  | nil => intro st hp; exact hp
  | cons a as ih => intro st hp; exact ih _ (h.advance hinv st a hp)

theorem Closed.apply (h : Closed P) (hinv : ∀ st, P st → Inv st) (t : Top) (st : St) (hp : P st) :
    P (t.apply st) := by
  cases t with
  | advance a => exact h.advance hinv st a hp
  | pump ts => exact h.pump hinv ts st hp
  | script s => exact h.exec s st hp

theorem Closed.runFrom (h : Closed P) (hinv : ∀ st, P st → Inv st) (hist : List Top) :
    ∀ st, P st → P (runFrom st hist) := by
  induction hist with
  | nil => intro st hp; exact hp
  | cons t ts ih => intro st hp; exact ih _ (h.apply hinv t st hp)

/-- **Induction over histories**: a predicate that holds of a fresh clock, is closed under the
    atomic steps and implies `Inv`, holds after every history. -/
theorem Closed.run (h : Closed P) (hinv : ∀ st, P st → Inv st) (h0 : P init) (hist : List Top) :
    P (run hist) :=
  h.runFrom hinv hist init h0

theorem inv_run (h : List Top) : Inv (run h) := inv_closed.run (fun _ h => h) inv_init h

/-- no pending call is due -/
def Settled (st : St) : Prop := ∀ i ∈ st.calls, st.now < st.key i

/-- the loop of `advance` ends through its own condition: nothing due is left -/
theorem runLoop_settled : ∀ fuel st, Inv st → Clock.measure st < fuel → Settled (runLoop fuel st) := by
  intro fuel
  induction fuel with
  | zero => intro st _ hm; omega
  | succ n ih =>
    intro st hinv hm
    have hs : Inv (sortCalls st) := hinv.sort
    have hsorted := sortCalls_sorted st
    have hms := measure_sort st
    rw [runLoop_succ]
    split
    · rename_i hc
      intro i hi; rw [hc] at hi; cases hi
    · rename_i i rest hc
      split
      · rename_i hnone
        have : i < (sortCalls st).objs.length := hs.lt_length (by rw [hc]; simp)
        rw [List.getElem?_eq_none_iff] at hnone
        omega
      · rename_i d hd
        split
        · rename_i hdue
          have hlt := measure_iteration hs i rest d hc hd hdue
          exact ih _ (inv_closed.quiet _ _ rfl (inv_closed.exec d.body _ (hs.beginRun i rest d hc hd hdue)))
            (by omega)
        · rename_i hnot
          intro j hj
          have hd' : st.objs[i]? = some d := hd
          have hki : (sortCalls st).key i = d.getTime := by simp [St.key, hd']
          unfold Sorted at hsorted
          rw [hc] at hsorted hj
          have hp := List.pairwise_cons.1 hsorted
          rcases List.mem_cons.1 hj with hh | hh
          · subst hh; omega
          · have := hp.1 j hh; omega

theorem advance_settled {st : St} (h : Inv st) (a : Int) : Settled (advance st a) := by
  unfold Twisted.Reactor.Clock.advance
  exact runLoop_settled _ _ (inv_closed.quiet _ _ rfl (h.setNow a)) (Nat.lt_succ_self _)

/-- the fuel never runs out: no `stuck` event is ever logged -/
def NoStuck (st : St) : Prop := Inv st ∧ Ev.stuck ∉ st.log

theorem noStuck_closed : Closed NoStuck where
  quiet := fun st e hq h => ⟨inv_closed.quiet st e hq h.1, by
    intro hm; rcases List.mem_cons.1 hm with hh | hh
    · rw [← hh] at hq; simp [quiet] at hq
    · exact h.2 hh⟩
  valueError := fun st i d hd h1 h2 h3 h => absurd ((h.1.mem_iff i).2 ⟨d, hd, h1, h2⟩) h3
  look := fun st h => ⟨inv_closed.look st h.1, by
    intro hm; rcases List.mem_cons.1 hm with hh | hh
    · cases hh
    · exact h.2 hh⟩
  setNow := fun st a h => ⟨h.1.setNow a, h.2⟩
  sort := fun st h => ⟨h.1.sort, h.2⟩
  create := fun st delay body h => ⟨h.1.create delay body, by
    intro hm; rcases List.mem_cons.1 hm with hh | hh
    · cases hh
    · exact h.2 hh⟩
  cancelOk := fun st i d hd h1 h2 h3 h => ⟨h.1.cancelOk i d hd h1 h2 h3, by
    intro hm; rcases List.mem_cons.1 hm with hh | hh
    · cases hh
    · exact h.2 hh⟩
  reschedOk := fun st b i d d' hd _ _ hs _ h => ⟨h.1.reschedOk b i d d' hd hs, by
    intro hm; rcases List.mem_cons.1 hm with hh | hh
    · cases hh
    · exact h.2 hh⟩
  beginRun := fun st i rest d hc hd hdue _ h => ⟨h.1.beginRun i rest d hc hd hdue, by
    intro hm; rcases List.mem_cons.1 hm with hh | hh
    · cases hh
    · exact h.2 hh⟩

theorem noStuck_run (h : List Top) : Ev.stuck ∉ (run h).log :=
  (noStuck_closed.run (fun _ h => h.1) ⟨inv_init, by simp [init]⟩ h).2

end TwistedProps.C09
