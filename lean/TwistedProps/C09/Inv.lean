import TwistedProps.C09.Steps
/-!
C09 — the basic state invariant of the clock model and its preservation by the atomic steps.
-/
namespace TwistedProps.C09
open Twisted.Reactor.Clock

@[simp] theorem emit_objs (st : St) (e : Ev) : (st.emit e).objs = st.objs := rfl
@[simp] theorem emit_calls (st : St) (e : Ev) : (st.emit e).calls = st.calls := rfl
@[simp] theorem emit_now (st : St) (e : Ev) : (st.emit e).now = st.now := rfl
@[simp] theorem emit_log (st : St) (e : Ev) : (st.emit e).log = e :: st.log := rfl
@[simp] theorem emit_key (st : St) (e : Ev) : (st.emit e).key = st.key := rfl
@[simp] theorem sortCalls_objs (st : St) : (sortCalls st).objs = st.objs := rfl
@[simp] theorem sortCalls_now (st : St) : (sortCalls st).now = st.now := rfl
@[simp] theorem sortCalls_log (st : St) : (sortCalls st).log = st.log := rfl
@[simp] theorem sortCalls_key (st : St) : (sortCalls st).key = st.key := rfl
theorem sortCalls_calls (st : St) : (sortCalls st).calls = isort st.key st.calls := rfl
@[simp] theorem mem_sortCalls (st : St) (i : Nat) : i ∈ (sortCalls st).calls ↔ i ∈ st.calls := mem_isort

def isRun (i : Nat) : Ev → Bool
  | .run j _ _ => j == i
  | _ => false

/-- how many times call `i` started running, according to the log -/
def runCount (log : List Ev) (i : Nat) : Nat := log.countP (isRun i)

structure Inv (st : St) : Prop where
  /-- `Clock.calls` holds no call twice -/
  nodup : st.calls.Nodup
  /-- `Clock.calls` = the created calls that are neither cancelled nor called -/
  mem_iff : ∀ i, i ∈ st.calls ↔ ∃ d : DC, st.objs[i]? = some d ∧ d.cancelled = false ∧ d.called = false
  /-- a call has started exactly once if its `called` flag is set, never otherwise -/
  runs : ∀ i, runCount st.log i = if (st.objs[i]?).any DC.called then 1 else 0
  /-- `cancelled` flag = a `cancel()` on it returned normally -/
  canc : ∀ i, Ev.cancelled i ∈ st.log ↔ (st.objs[i]?).any DC.cancelled = true
  /-- never both -/
  excl : ∀ (i : Nat) (d : DC), st.objs[i]? = some d → d.cancelled = true → d.called = true → False
  /-- `self.calls.remove(dc)` never raised -/
  noVE : ∀ i, Ev.refused i .valueError ∉ st.log
  /-- every observation of `getDelayedCalls()` (from the test or from inside a running call) saw
      exactly the calls whose `active()` was true -/
  looks : ∀ c a, Ev.look c a ∈ st.log → c.Perm a
  /-- no call ever started before its scheduled time -/
  notEarly : ∀ i t now, Ev.run i t now ∈ st.log → t ≤ now

theorem runCount_cons (e : Ev) (log : List Ev) (i : Nat) :
    runCount (e :: log) i = runCount log i + if isRun i e then 1 else 0 := by
  simp [runCount, List.countP_cons]

theorem mem_activeIds {objs : List DC} {i : Nat} :
    i ∈ activeIds objs ↔ ∃ d : DC, objs[i]? = some d ∧ d.cancelled = false ∧ d.called = false := by
  unfold activeIds
  rw [List.mem_filter, List.mem_range]
  constructor
  · rintro ⟨hlt, h⟩
    cases hd : objs[i]? with
    | none => simp [hd] at h
    | some d =>
      refine ⟨d, rfl, ?_⟩
      simp [hd, DC.active] at h
      exact h
  · rintro ⟨d, hd, h1, h2⟩
    have hlt : i < objs.length := by
      rcases List.getElem?_eq_some_iff.1 hd with ⟨h, _⟩; exact h
    refine ⟨hlt, ?_⟩
    simp [hd, DC.active, h1, h2]

theorem nodup_activeIds (objs : List DC) : (activeIds objs).Nodup :=
  List.Nodup.sublist List.filter_sublist List.nodup_range

theorem Inv.calls_perm_active {st : St} (h : Inv st) : st.calls.Perm (activeIds st.objs) :=
  (List.perm_ext_iff_of_nodup h.nodup (nodup_activeIds _)).2 fun i => by
    rw [h.mem_iff, mem_activeIds]

theorem Inv.lt_length {st : St} (h : Inv st) {i : Nat} (hi : i ∈ st.calls) : i < st.objs.length := by
  rcases (h.mem_iff i).1 hi with ⟨d, hd, _⟩
  rcases List.getElem?_eq_some_iff.1 hd with ⟨h, _⟩; exact h

/-- events that leave every clause of `Inv` alone -/
theorem Inv.emit_plain {st : St} (h : Inv st) (e : Ev)
    (h1 : ∀ i, isRun i e = false) (h2 : ∀ i, e ≠ .cancelled i) (h3 : ∀ i, e ≠ .refused i .valueError)
    (h4 : ∀ c a, e = .look c a → c.Perm a) : Inv (st.emit e) where
  nodup := h.nodup
  mem_iff := h.mem_iff
  runs := fun i => by
    show runCount (e :: st.log) i = if (st.objs[i]?).any DC.called then 1 else 0
    rw [runCount_cons, h1 i]; simpa using h.runs i
  canc := fun i => by
    show Ev.cancelled i ∈ e :: st.log ↔ (st.objs[i]?).any DC.cancelled = true
    rw [List.mem_cons, ← h.canc i]
    constructor
    · rintro (hh | hh)
      · exact absurd hh.symm (h2 i)
      · exact hh
    · exact Or.inr
  excl := h.excl
  noVE := fun i hm => by
    rcases List.mem_cons.1 hm with hh | hh
    · exact h3 i hh.symm
    · exact h.noVE i hh
  looks := fun c a hm => by
    rcases List.mem_cons.1 hm with hh | hh
    · exact h4 c a hh.symm
    · exact h.looks c a hh
  notEarly := fun i t now hm => by
    rcases List.mem_cons.1 hm with hh | hh
    · have := h1 i; rw [← hh] at this; simp [isRun] at this
    · exact h.notEarly i t now hh

theorem Inv.setNow {st : St} (h : Inv st) (a : Int) : Inv (setNow st a) :=
  ⟨h.nodup, h.mem_iff, h.runs, h.canc, h.excl, h.noVE, h.looks, h.notEarly⟩

theorem Inv.sort {st : St} (h : Inv st) : Inv (sortCalls st) where
  nodup := nodup_isort.2 h.nodup
  mem_iff := fun i => by rw [mem_sortCalls]; exact h.mem_iff i
  runs := h.runs
  canc := h.canc
  excl := h.excl
  noVE := h.noVE
  looks := h.looks
  notEarly := h.notEarly

theorem getElem?_create (st : St) (dc : DC) (j : Nat) :
    (create st dc).objs[j]? = if j = st.objs.length then some dc else st.objs[j]? := by
  show (st.objs ++ [dc])[j]? = _
  by_cases hj : j = st.objs.length
  · subst hj; simp
  · by_cases hlt : j < st.objs.length
    · simp [hj, List.getElem?_append_left hlt]
    · have h1 : st.objs[j]? = none := List.getElem?_eq_none_iff.2 (by omega)
      have h2 : (st.objs ++ [dc])[j]? = none := List.getElem?_eq_none_iff.2 (by simp; omega)
      simp [hj, h1, h2]

theorem Inv.create {st : St} (h : Inv st) (delay : Int) (body : Script) :
    Inv (create st (fresh st.now delay body)) := by
  have hnone : st.objs[st.objs.length]? = none := List.getElem?_eq_none_iff.2 (Nat.le_refl _)
  have hnew : st.objs.length ∉ st.calls := fun hm => Nat.lt_irrefl _ (h.lt_length hm)
  refine ⟨?_, ?_, ?_, ?_, ?_, ?_, ?_, ?_⟩
  · show (st.calls ++ [st.objs.length]).Nodup
    rw [List.nodup_append]
    refine ⟨h.nodup, by simp, ?_⟩
    intro a ha b hb
    have : b = st.objs.length := by simpa using hb
    subst this
    intro hab; subst hab; exact hnew ha
  · intro i
    show i ∈ st.calls ++ [st.objs.length] ↔ _
    rw [getElem?_create, List.mem_append]
    by_cases hi : i = st.objs.length
    · subst hi; simp [fresh]
    · simp only [hi, if_false, List.mem_singleton, or_false]; exact h.mem_iff i
  · intro i
    show runCount (_ :: st.log) i = _
    rw [runCount_cons, getElem?_create]
    by_cases hi : i = st.objs.length
    · subst hi
      have := h.runs st.objs.length
      rw [hnone] at this
      simp [isRun, fresh, this]
    · simpa [hi, isRun] using h.runs i
  · intro i
    show Ev.cancelled i ∈ _ :: st.log ↔ _
    rw [getElem?_create]
    by_cases hi : i = st.objs.length
    · subst hi
      have := h.canc st.objs.length
      rw [hnone] at this
      simp [fresh] at this ⊢
      exact this
    · simpa [hi] using h.canc i
  · intro i d hd
    rw [getElem?_create] at hd
    by_cases hi : i = st.objs.length
    · subst hi; simp at hd; subst hd; simp [fresh]
    · simp only [hi, if_false] at hd; exact h.excl i d hd
  · intro i hm
    rcases List.mem_cons.1 hm with hh | hh
    · cases hh
    · exact h.noVE i hh
  · intro c a hm
    rcases List.mem_cons.1 hm with hh | hh
    · cases hh
    · exact h.looks c a hh
  · intro i t now hm
    rcases List.mem_cons.1 hm with hh | hh
    · cases hh
    · exact h.notEarly i t now hh

theorem getElem?_set' (objs : List DC) (i j : Nat) (d d' : DC) (hd : objs[i]? = some d) :
    (objs.set i d')[j]? = if j = i then some d' else objs[j]? := by
  have hlt : i < objs.length := by
    rcases List.getElem?_eq_some_iff.1 hd with ⟨h, _⟩; exact h
  rw [List.getElem?_set]
  by_cases hj : j = i
  · subst hj; simp [hlt]
  · have : ¬ i = j := fun h => hj h.symm
    simp [hj, this]

theorem Inv.cancelOk {st : St} (h : Inv st) (i : Nat) (d : DC) (hd : st.objs[i]? = some d)
    (h1 : d.cancelled = false) (h2 : d.called = false) (h3 : i ∈ st.calls) : Inv (cancelOk st i d) := by
  have hset := fun j => getElem?_set' st.objs i j d { d with cancelled := true } hd
  refine ⟨?_, ?_, ?_, ?_, ?_, ?_, ?_, ?_⟩
  · exact h.nodup.erase i
  · intro j
    show j ∈ st.calls.erase i ↔ ∃ d' : DC, (st.objs.set i _)[j]? = some d' ∧ _
    rw [h.nodup.mem_erase_iff, hset j]
    by_cases hj : j = i
    · subst hj; simp
    · simp only [hj, if_false, ne_eq, not_false_eq_true, true_and]; exact h.mem_iff j
  · intro j
    show runCount (_ :: st.log) j = if ((st.objs.set i _)[j]?).any DC.called then 1 else 0
    rw [runCount_cons, hset j]
    by_cases hj : j = i
    · subst hj
      have := h.runs j
      rw [hd] at this
      simp [isRun, h2] at this ⊢
      exact this
    · simpa [hj, isRun] using h.runs j
  · intro j
    show Ev.cancelled j ∈ _ :: st.log ↔ ((st.objs.set i _)[j]?).any DC.cancelled = true
    rw [hset j]
    by_cases hj : j = i
    · subst hj; simp
    · have : ¬ i = j := fun hh => hj hh.symm
      simpa [hj, this] using h.canc j
  · intro j d' hd'
    show _
    have hd'' : (st.objs.set i { d with cancelled := true })[j]? = some d' := hd'
    rw [hset j] at hd''
    by_cases hj : j = i
    · subst hj; simp at hd''; subst hd''; simp [h2]
    · simp only [hj, if_false] at hd''; exact h.excl j d' hd''
  · intro j hm
    rcases List.mem_cons.1 hm with hh | hh
    · cases hh
    · exact h.noVE j hh
  · intro c a hm
    rcases List.mem_cons.1 hm with hh | hh
    · cases hh
    · exact h.looks c a hh
  · intro j t now hm
    rcases List.mem_cons.1 hm with hh | hh
    · cases hh
    · exact h.notEarly j t now hh

theorem Inv.reschedOk {st : St} (h : Inv st) (b : Bool) (i : Nat) (d d' : DC) (hd : st.objs[i]? = some d)
    (hs : SameBut d d') : Inv (reschedOk st b i d') := by
  have hset := fun j => getElem?_set' st.objs i j d d' hd
  obtain ⟨s1, s2, _⟩ := hs
  refine ⟨h.nodup, ?_, ?_, ?_, ?_, ?_, ?_, ?_⟩
  · intro j
    show j ∈ st.calls ↔ ∃ x : DC, (st.objs.set i d')[j]? = some x ∧ _
    rw [hset j, h.mem_iff j]
    by_cases hj : j = i
    · subst hj; simp [hd, s1, s2]
    · simp [hj]
  · intro j
    show runCount (_ :: st.log) j = if ((st.objs.set i d')[j]?).any DC.called then 1 else 0
    rw [runCount_cons, hset j]
    by_cases hj : j = i
    · subst hj
      have := h.runs j
      rw [hd] at this
      simpa [isRun, s2] using this
    · simpa [hj, isRun] using h.runs j
  · intro j
    show Ev.cancelled j ∈ _ :: st.log ↔ ((st.objs.set i d')[j]?).any DC.cancelled = true
    rw [hset j]
    by_cases hj : j = i
    · subst hj
      have := h.canc j
      rw [hd] at this
      simpa [s1] using this
    · simpa [hj] using h.canc j
  · intro j x hx
    have hx' : (st.objs.set i d')[j]? = some x := hx
    rw [hset j] at hx'
    by_cases hj : j = i
    · subst hj; simp at hx'; subst hx'; rw [s1, s2]; exact h.excl j d hd
    · simp only [hj, if_false] at hx'; exact h.excl j x hx'
  · intro j hm
    rcases List.mem_cons.1 hm with hh | hh
    · cases hh
    · exact h.noVE j hh
  · intro c a hm
    rcases List.mem_cons.1 hm with hh | hh
    · cases hh
    · exact h.looks c a hh
  · intro j t now hm
    rcases List.mem_cons.1 hm with hh | hh
    · cases hh
    · exact h.notEarly j t now hh

theorem Inv.beginRun {st : St} (h : Inv st) (i : Nat) (rest : List Nat) (d : DC) (hc : st.calls = i :: rest)
    (hd : st.objs[i]? = some d) (hdue : d.getTime ≤ st.now) : Inv (beginRun st i rest d) := by
  have hset := fun j => getElem?_set' st.objs i j d { d with called := true } hd
  have hnd := h.nodup
  rw [hc, List.nodup_cons] at hnd
  have hi : i ∈ st.calls := by rw [hc]; simp
  obtain ⟨d0, hd0, c1, c2⟩ := (h.mem_iff i).1 hi
  rw [hd] at hd0
  cases hd0
  refine ⟨hnd.2, ?_, ?_, ?_, ?_, ?_, ?_, ?_⟩
  · intro j
    show j ∈ rest ↔ ∃ x : DC, (st.objs.set i _)[j]? = some x ∧ _
    rw [hset j]
    by_cases hj : j = i
    · subst hj; simp [hnd.1]
    · have := h.mem_iff j
      rw [hc] at this
      simpa [hj] using this
  · intro j
    show runCount (_ :: st.log) j = if ((st.objs.set i _)[j]?).any DC.called then 1 else 0
    rw [runCount_cons, hset j]
    by_cases hj : j = i
    · subst hj
      have := h.runs j
      rw [hd] at this
      simp [isRun, c2] at this ⊢
      exact this
    · have hji : ¬ i = j := fun hh => hj hh.symm
      simpa [hj, hji, isRun] using h.runs j
  · intro j
    show Ev.cancelled j ∈ _ :: st.log ↔ ((st.objs.set i _)[j]?).any DC.cancelled = true
    rw [hset j]
    by_cases hj : j = i
    · subst hj
      have := h.canc j
      rw [hd] at this
      simpa using this
    · simpa [hj] using h.canc j
  · intro j x hx
    have hx' : (st.objs.set i { d with called := true })[j]? = some x := hx
    rw [hset j] at hx'
    by_cases hj : j = i
    · subst hj; simp at hx'; subst hx'; simp [c1]
    · simp only [hj, if_false] at hx'; exact h.excl j x hx'
  · intro j hm
    rcases List.mem_cons.1 hm with hh | hh
    · cases hh
    · exact h.noVE j hh
  · intro c a hm
    rcases List.mem_cons.1 hm with hh | hh
    · cases hh
    · exact h.looks c a hh
  · intro j t now hm
    rcases List.mem_cons.1 hm with hh | hh
    · cases hh; exact hdue
    · exact h.notEarly j t now hh

theorem quiet_plain {e : Ev} (hq : quiet e = true) :
    (∀ i, isRun i e = false) ∧ (∀ i, e ≠ .cancelled i) ∧ (∀ i, e ≠ .refused i .valueError) ∧
      (∀ c a, e ≠ .look c a) := by
  cases e <;> simp [quiet, isRun] at hq ⊢
  rename_i i err
  cases err <;> simp [quiet] at hq ⊢

theorem inv_closed : Closed Inv where
  quiet := fun st e hq h => by
    obtain ⟨q1, q2, q3, q4⟩ := quiet_plain hq
    exact h.emit_plain e q1 q2 q3 (fun c a hh => absurd hh (q4 c a))
  valueError := fun st i d hd h1 h2 h3 h => absurd ((h.mem_iff i).2 ⟨d, hd, h1, h2⟩) h3
  look := fun st h => h.emit_plain _ (fun _ => rfl) (fun _ => by simp) (fun _ => by simp)
    (fun c a hh => by cases hh; exact h.calls_perm_active)
  setNow := fun st a h => h.setNow a
  sort := fun st h => h.sort
  create := fun st delay body h => h.create delay body
  cancelOk := fun st i d hd h1 h2 h3 h => h.cancelOk i d hd h1 h2 h3
  reschedOk := fun st b i d d' hd _ _ hs _ h => h.reschedOk b i d d' hd hs
  beginRun := fun st i rest d hc hd hdue _ h => h.beginRun i rest d hc hd hdue

theorem inv_init : Inv init where
  nodup := List.nodup_nil
  mem_iff := fun i => by simp [init]
  runs := fun i => by simp [init, runCount]
  canc := fun i => by simp [init]
  excl := fun i d hd => by simp [init] at hd
  noVE := fun i => by simp [init]
  looks := fun c a hm => by simp [init] at hm
  notEarly := fun i t now hm => by simp [init] at hm

end TwistedProps.C09
