import TwistedProps.C29.Inv
import TwistedProps.C29.Drain
import TwistedProps.C29.Ids
/-!
C29 — the HTTP/2 server respects flow control and delivers each stream intact.

Statement (fixed): for any set of concurrent streams whose responses write arbitrary amounts of data and
any sequence of peer WINDOW_UPDATE and SETTINGS frames, the server never sends DATA beyond the connection
or stream flow-control window, each stream's response body reaches the client complete and in order, and
streams blocked on flow control resume when the window opens.

Model: `TwistedModel/Http/H2Flow.lean` (transcription of `_http2.py` after the repair `fix: HTTP/2 send loop
dies on a negative flow-control window …`).  A history is any `List Op`: stream opens, application writes,
producer (un)registration, finish, peer WINDOW_UPDATE / SETTINGS_INITIAL_WINDOW_SIZE (windows may go
negative) / SETTINGS_MAX_FRAME_SIZE, and send-loop iterations each with an arbitrary scheduler choice
(`tick pick`) — no bound on length, sizes, number of streams.  Ops that the harness would skip (write after
finish, WINDOW_UPDATE of 0, …) are skipped by `step` — these are the property's own preconditions and they
are decided by `step`, not assumed.  Helper lemmas: `TwistedProps/C29/Inv.lean` (invariant preservation), `TwistedProps/C29/Drain.lean` (termination).

Proved here, for every history from the initial connection:
* `frames_fit`            — (every state, reachable or not) an iteration never hands h2 a frame it refuses,
                            and every DATA frame is non-empty, ≤ MAX_FRAME_SIZE, ≤ connection window, ≤ stream window;
* `never_exceeds_windows` — the send loop never dies (no FlowControlError / IndexError escapes an iteration);
* `delivered_in_order`    — bytes written = bytes sent in DATA frames ++ bytes still queued, per stream, and
                            a stream whose END_STREAM went out had sent exactly what was written;
* `no_stall`              — a stream with something queued and both windows open (or with END_STREAM
                            queued) is unblocked in the priority tree AND an iteration of the loop is pending;
* `parked_means_flushed`  — whenever the loop is parked, every stream's queue is empty or its window is shut;
* `iteration_progress`    — an iteration that picks a stream with open windows puts ≥ 1 byte of it on the wire
                            (resp. its END_STREAM).
* `blocked_stream_resumes` — (was `eventually_complete_partial`) the three above combined for one stream: queued data
                            and open windows ⇒ schedulable, iteration pending, that iteration emits a non-empty DATA frame;
* `stream_body_complete_in_order` — **termination / eventual completion**: from any reachable state in which every
                            stream's queued bytes fit its stream window and the connection window covers their sum, ANY
                            run of more than `backlog` = Σ over streams (queued bytes + queued chunks, END_STREAM marker
                            included) send-loop iterations — arbitrary scheduler choices, no fairness assumption — ends
                            parked, all queues empty; per stream the DATA frames these iterations put on the wire
                            concatenate (in wire order) to exactly the bytes that were queued, END_STREAM goes out iff
                            the stream was finished, finished streams end in `closed` with sent = wrote, unfinished ones
                            stay open with sent = wrote.
Termination argument (`TwistedProps/C29/Drain.lean`): `sendIter_drain` — under the window hypothesis (`Fit`, itself
preserved) every iteration either finds nothing schedulable (then every queue is empty: `Fit.inactive_empty`) and
parks, or strictly decreases `backlog`; `drain_ticks` is the induction.  The window hypothesis is necessary (last
example): against a shut window the code neither sends nor parks, it reschedules itself every reactor turn.
`stream_table_distinct` (`TwistedProps/C29/Ids.lean`): the key list of the stream table never holds an id twice and holds
every live stream, so `queuedTotal` / `backlog` (sums over that list) count every stream exactly once.
Nothing is left partial in this file.
-/
namespace TwistedProps.C29
open Twisted.Http.H2Flow

/-- **Never beyond the windows (one iteration, any state, any scheduler choice).** -/
theorem frames_fit (s : State) (pick : Nat) :
    Ev.flowErr ∉ (sendIter s pick).2 ∧
    ∀ sid b, Ev.data sid b ∈ (sendIter s pick).2 →
      ∃ st, s.streams sid = some st ∧ st.active = true ∧ 0 < b.length ∧ b.length ≤ s.maxFrame ∧
        (b.length : Int) ≤ s.connWindow ∧ (b.length : Int) ≤ st.window := by
  unfold sendIter
  split
  · simp
  · rename_i sid st hsome
    have hm : (sid, st) ∈ candidates s := List.mem_of_getElem? hsome
    obtain ⟨_, hst, ha⟩ := (mem_candidates s sid st).mp hm
    have h := sendOn_frames_fit' s sid st
    refine ⟨h.1, ?_⟩
    intro sid' b hb
    obtain ⟨rfl, h1, h2, h3, h4⟩ := h.2 sid' b hb
    exact ⟨st, hst, ha, h1, h2, h3, h4⟩

/-- **The send loop never dies**: along every history no iteration raises (h2's FlowControlError for a
    frame beyond the window, IndexError for an empty queue). -/
theorem never_exceeds_windows (ops : List Op) : (runOps init ops).1.loop ≠ .dead :=
  (runOps_inv ops init init_inv).alive

/-- **Complete and in order**: per stream, written = sent ++ queued; ended streams sent exactly what was written. -/
theorem delivered_in_order (ops : List Op) :
    (∀ sid st, (runOps init ops).1.streams sid = some st → st.wrote = st.sent ++ qbytes st.queue) ∧
    (∀ c ∈ (runOps init ops).1.closed, c.2.1 = c.2.2) :=
  ⟨fun sid st h => ((runOps_inv ops init init_inv).ok0 sid st h).conserve, (runOps_inv ops init init_inv).closedOK⟩

/-- END_STREAM is only ever queued last: nothing can be written behind it, and it goes out after all data. -/
theorem end_stream_last (ops : List Op) (sid : Nat) (st : Stream)
    (h : (runOps init ops).1.streams sid = some st) (hf : Chunk.fin ∈ st.queue) :
    ∃ pre, st.queue = pre ++ [.fin] ∧ Chunk.fin ∉ pre := by
  have h0 := (runOps_inv ops init init_inv).ok0 sid st h
  cases hfin : st.finished with
  | true => exact h0.fin_finished hfin
  | false => exact absurd hf (h0.fin_unfinished hfin)

/-- **Blocked streams resume when the window opens**: in every reachable state a stream that has something
    queued and whose connection and stream windows are both open (or that has END_STREAM queued) is
    schedulable and the send loop has an iteration pending. -/
theorem no_stall (ops : List Op) (sid : Nat) (st : Stream)
    (h : (runOps init ops).1.streams sid = some st)
    (hw : (st.queue ≠ [] ∧ 0 < localWindow (runOps init ops).1.connWindow st) ∨ Chunk.fin ∈ st.queue) :
    (sid, st) ∈ candidates (runOps init ops).1 ∧ (runOps init ops).1.loop = .sched := by
  have hi := runOps_inv ops init init_inv
  have ha : st.active = true := by
    rcases hw with ⟨hq, hw⟩ | hf
    · exact hi.open_active sid st h hq hw
    · exact (hi.ok0 sid st h).fin_active hf
  refine ⟨(mem_candidates _ sid st).mpr ⟨hi.dom sid st h, h, ha⟩, ?_⟩
  cases hl : (runOps init ops).1.loop with
  | sched => rfl
  | dead => exact absurd hl hi.alive
  | parked => have := hi.parked hl sid st h; rw [ha] at this; cases this

/-- Whenever the loop is parked (waiting to be woken), nothing sendable is left anywhere. -/
theorem parked_means_flushed (ops : List Op) (hp : (runOps init ops).1.loop = .parked) (sid : Nat) (st : Stream)
    (h : (runOps init ops).1.streams sid = some st) :
    Chunk.fin ∉ st.queue ∧ (st.queue = [] ∨ localWindow (runOps init ops).1.connWindow st ≤ 0) := by
  refine ⟨?_, ?_⟩
  · intro hf
    have := (no_stall ops sid st h (Or.inr hf)).2
    rw [hp] at this; cases this
  · by_cases hq : st.queue = []
    · exact Or.inl hq
    · right
      by_cases hw : 0 < localWindow (runOps init ops).1.connWindow st
      · have := (no_stall ops sid st h (Or.inl ⟨hq, hw⟩)).2
        rw [hp] at this; cases this
      · omega

/-- One iteration on a stream whose windows are open sends at least one byte of its first chunk;
    on a stream whose next item is the end marker it sends END_STREAM — whatever the windows. -/
theorem iteration_progress (s : State) (sid : Nat) (st : Stream) (hmf : 0 < s.maxFrame) :
    (∀ b rest, st.queue = .data b :: rest → b ≠ [] → 0 < localWindow s.connWindow st →
      ∃ frame, frame ≠ [] ∧ Ev.data sid frame ∈ (sendOn s sid st).2) ∧
    (∀ rest, st.queue = .fin :: rest → Ev.fin sid ∈ (sendOn s sid st).2) := by
  refine ⟨?_, ?_⟩
  · intro b rest hq hb hw
    have hf := cutFrame_fits s.maxFrame (localWindow s.connWindow st) b rest
    have hp := cutFrame_progress s.maxFrame (localWindow s.connWindow st) b rest hmf hw hb
    have hl : 0 < (cutFrame s.maxFrame (localWindow s.connWindow st) b rest).1.length := List.length_pos_iff.mpr hp
    refine ⟨_, hp, ?_⟩
    unfold sendOn
    rw [hq]
    simp only
    rw [if_neg (by omega)]
    unfold afterSend
    simp only [hl, if_true]
    exact List.mem_append_left _ (List.mem_singleton.mpr rfl)
  · intro rest hq
    unfold sendOn
    rw [hq]
    simp

/-- A stream blocked on flow control resumes: with data queued and both windows open it is schedulable, the loop
    has an iteration pending, and that iteration puts a non-empty DATA frame of it on the wire. -/
theorem blocked_stream_resumes (ops : List Op) (sid : Nat) (st : Stream)
    (h : (runOps init ops).1.streams sid = some st) (b : Bytes) (rest : List Chunk)
    (hq : st.queue = .data b :: rest) (hb : b ≠ []) (hw : 0 < localWindow (runOps init ops).1.connWindow st) :
    (sid, st) ∈ candidates (runOps init ops).1 ∧ (runOps init ops).1.loop = .sched ∧
    ∃ frame, frame ≠ [] ∧ Ev.data sid frame ∈ (sendOn (runOps init ops).1 sid st).2 := by
  have hn := no_stall ops sid st h (Or.inl ⟨by rw [hq]; simp, hw⟩)
  exact ⟨hn.1, hn.2, (iteration_progress _ sid st (runOps_inv ops init init_inv).mfs).1 b rest hq hb hw⟩

/-- A history followed by more ops is the history, then the ops from the state it reached (state and events). -/
theorem history_append (ops more : List Op) :
    (runOps init (ops ++ more)).1 = (runOps (runOps init ops).1 more).1 ∧
    (runOps init (ops ++ more)).2 = (runOps init ops).2 ++ (runOps (runOps init ops).1 more).2 :=
  ⟨runOps_append ops more init, runOps_append_events ops more init⟩

/-- The stream table's key list (`State.ids`, over which `queuedTotal` and `backlog` sum) holds every live stream,
    and no id twice: the sums count each stream exactly once. -/
theorem stream_table_distinct (ops : List Op) :
    (runOps init ops).1.ids.Nodup ∧ ∀ sid st, (runOps init ops).1.streams sid = some st → sid ∈ (runOps init ops).1.ids :=
  ⟨(runOps_idsOK ops init init_idsOK).nodup, (runOps_inv ops init init_inv).dom⟩

/-- **Every body arrives complete and in order, and the loop terminates.**  Take any reachable state
    `s = (runOps init ops).1` in which every stream's queued bytes fit its stream window and the connection
    window covers their sum (`queuedTotal`), and let the reactor run send-loop iterations with ANY scheduler
    choices `picks`, more than `backlog s` = Σ over streams (queued bytes + queued chunks, END_STREAM marker
    included) of them.  Then
    * the loop ends parked, every remaining stream has an empty queue, is unfinished and has sent all it wrote;
    * for every stream of `s`: the DATA frames put on the wire for it by these iterations, concatenated in wire
      order, are exactly its queued bytes; END_STREAM goes out iff it was finished (after the data: `end_stream_last`,
      `delivered_in_order`); an unfinished stream is still open with sent = wrote; a finished one is gone and
      recorded in `closed` with sent = wrote.
    No fairness assumption is needed: each iteration strictly decreases `backlog` (`sendIter_drain`). -/
theorem stream_body_complete_in_order (ops : List Op) (picks : List Nat)
    (hstream : ∀ sid st, (runOps init ops).1.streams sid = some st → (qlen st.queue : Int) ≤ st.window)
    (hconn : (queuedTotal (runOps init ops).1 : Int) ≤ (runOps init ops).1.connWindow)
    (hlen : backlog (runOps init ops).1 < picks.length) :
    (runOps (runOps init ops).1 (picks.map Op.tick)).1.loop = .parked ∧
    (∀ sid st', (runOps (runOps init ops).1 (picks.map Op.tick)).1.streams sid = some st' →
      st'.queue = [] ∧ st'.finished = false ∧ st'.sent = st'.wrote) ∧
    (∀ sid st, (runOps init ops).1.streams sid = some st →
      dataOf sid (runOps (runOps init ops).1 (picks.map Op.tick)).2.flatten = qbytes st.queue ∧
      (Ev.fin sid ∈ (runOps (runOps init ops).1 (picks.map Op.tick)).2.flatten ↔ st.finished = true) ∧
      (st.finished = false → ∃ st', (runOps (runOps init ops).1 (picks.map Op.tick)).1.streams sid = some st' ∧
        st'.wrote = st.wrote ∧ st'.sent = st.wrote) ∧
      (st.finished = true → (runOps (runOps init ops).1 (picks.map Op.tick)).1.streams sid = none ∧
        (sid, st.wrote, st.wrote) ∈ (runOps (runOps init ops).1 (picks.map Op.tick)).1.closed)) := by
  have hi := runOps_inv ops init init_inv
  obtain ⟨hi', _, ht, hp, he⟩ := drain_ticks picks _ hi ⟨hstream, hconn⟩ hlen
  generalize (runOps init ops).1 = s at *
  generalize (runOps s (picks.map Op.tick)).1 = s' at *
  generalize (runOps s (picks.map Op.tick)).2.flatten = wire at *
  have hend : ∀ sid st', s'.streams sid = some st' → st'.queue = [] ∧ st'.finished = false ∧ st'.sent = st'.wrote := by
    intro sid st' h
    have hq := he sid st' h
    have h0 := hi'.ok0 sid st' h
    refine ⟨hq, ?_, ?_⟩
    · cases hf : st'.finished with
      | false => rfl
      | true =>
        obtain ⟨pre, hpre, _⟩ := h0.fin_finished hf
        rw [hq] at hpre
        simp at hpre
    · rw [h0.conserve, hq]; simp [qbytes]
  refine ⟨hp, hend, ?_⟩
  intro sid st h
  have hcons := (hi.ok0 sid st h).conserve
  rcases ht.strm sid st h with ⟨st', h', hw, hf, hs, hn⟩ | ⟨hf, hnone, hc, hs, hm⟩
  · obtain ⟨_, hf', hsw⟩ := hend sid st' h'
    have hfin : st.finished = false := hf ▸ hf'
    refine ⟨?_, ?_, fun _ => ⟨st', h', hw, by rw [hsw, hw]⟩, fun hc => by rw [hfin] at hc; cases hc⟩
    · have : st.sent ++ dataOf sid wire = st.sent ++ qbytes st.queue := by rw [← hs, hsw, hw, hcons]
      exact List.append_cancel_left this
    · simp [hn, hfin]
  · refine ⟨?_, ?_, fun hx => (by rw [hf] at hx; cases hx), fun _ => ⟨hnone, hc⟩⟩
    · have : st.sent ++ dataOf sid wire = st.sent ++ qbytes st.queue := by rw [← hs, hcons]
      exact List.append_cancel_left this
    · simp [hm, hf]

/-! ### Non-vacuity: concrete histories that exercise the hypotheses -/

/-- negative stream window (SETTINGS lowers INITIAL_WINDOW_SIZE to 2 after 3 bytes went out), data queued:
    the iteration sends nothing and survives; after WINDOW_UPDATE the rest goes out, in order. -/
example : (runOps init [.req 1, .write 1 [1, 2, 3], .tick 0, .write 1 [4, 5], .iws 2, .tick 0, .wu 1 2, .tick 0]).2
    = [[], [], [.data 1 [1, 2, 3]], [], [], [], [], [.data 1 [4]]] := by decide

/-- the witness of the repaired stall: window shut, loop parked, data written, WINDOW_UPDATE — the wake-up
    sends it inside the WINDOW_UPDATE handler. -/
example : (runOps init [.iws 2, .req 1, .write 1 [1, 2], .tick 0, .tick 0, .write 1 [3], .wu 1 5]).2
    = [[], [], [], [.data 1 [1, 2]], [], [], [.data 1 [3]]] := by decide

/-- `no_stall`'s hypothesis is satisfiable in a reachable state (queued data, open windows) … -/
example : ∃ st, (runOps init [.req 1, .write 1 [7, 8]]).1.streams 1 = some st ∧ st.queue ≠ [] ∧
    0 < localWindow (runOps init [.req 1, .write 1 [7, 8]]).1.connWindow st :=
  ⟨_, rfl, by decide, by decide⟩

/-- … and so is `parked_means_flushed`'s (the loop does park), and a stream does end with all bytes sent. -/
example : (runOps init [.req 1, .write 1 [7, 8], .finish 1, .run 5]).1.loop = .parked ∧
    (runOps init [.req 1, .write 1 [7, 8], .finish 1, .run 5]).1.closed = [(1, [7, 8], [7, 8])] := by decide

/-- two streams, scheduler picks the second one first; producer paused when the window is used up -/
example : (runOps init [.iws 3, .req 1, .req 3, .reg 3, .write 1 [1], .pwrite 3 [2, 3, 4], .tick 1, .tick 0]).2
    = [[], [], [], [], [], [.pause 3], [.data 3 [2, 3, 4]], [.data 1 [1]]] := by decide

/-- `stream_body_complete_in_order` on a concrete history: two streams with 3 + 2 bytes queued, the first one
    finished, stream windows lowered to exactly 3 (SETTINGS) so that stream 1 fits with nothing to spare; the
    hypotheses hold (backlog 8), and 9 iterations with an arbitrary pick sequence drain everything. -/
def demo : List Op := [.req 1, .req 3, .write 1 [1, 2, 3], .write 3 [4, 5], .finish 1, .iws 3]

example : fitsB (runOps init demo).1 = true ∧ queuedTotal (runOps init demo).1 = 5 ∧
    (runOps init demo).1.connWindow = 65535 ∧ backlog (runOps init demo).1 = 8 ∧
    (runOps init demo).1.loop = .sched := by decide

example : (runOps (runOps init demo).1 ([7, 4, 1, 1, 0, 5, 2, 0, 0].map Op.tick)).1.loop = .parked ∧
    (runOps (runOps init demo).1 ([7, 4, 1, 1, 0, 5, 2, 0, 0].map Op.tick)).1.closed = [(1, [1, 2, 3], [1, 2, 3])] :=
  have h := stream_body_complete_in_order demo [7, 4, 1, 1, 0, 5, 2, 0, 0]
    (fits_of_fitsB _ (runOps_inv demo init init_inv).dom (by decide)) (by decide) (by decide)
  ⟨h.1, by decide⟩

/-- the wire of that run: stream 3's two bytes, stream 1's three bytes, then stream 1's END_STREAM -/
example : (runOps (runOps init demo).1 ([7, 4, 1, 1, 0, 5, 2, 0, 0].map Op.tick)).2.flatten
    = [.data 3 [4, 5], .data 1 [1, 2, 3], .fin 1] := by decide

/-- the window hypothesis is needed: with stream 1's window one byte short (SETTINGS lowers it to 2) the last byte
    and END_STREAM stay queued and the loop does not park — as in the code, it reschedules itself every reactor
    turn until a WINDOW_UPDATE arrives (then `no_stall` / `blocked_stream_resumes` apply) -/
example : (runOps (runOps init (demo ++ [.iws 2])).1 ((List.replicate 20 0).map Op.tick)).1.loop = .sched ∧
    ((runOps (runOps init (demo ++ [.iws 2])).1 ((List.replicate 20 0).map Op.tick)).1.streams 1).map (·.queue)
      = some [.data [3], .fin] := by decide

end TwistedProps.C29
