import TwistedModel.Telnet.Data
import Generated.Telnet
/-!
C38 — `conch/telnet.py` `TelnetTransport.write` (and the `ProtocolTransportMixin.write` it calls), regenerated from
the Python source by `harness/py2lean.py` on every run (`lean/Generated/Telnet.lean`) and proved equal to the
hand model's `write` (`TwistedModel/Telnet/Data.lean`).

The translator takes each method's value to be the bytes it hands on: `TelnetTransport.write` hands
`data.replace(b"\xff", b"\xff\xff")` to `ProtocolTransportMixin.write(self, ·)`, which hands
`data.replace(b"\n", b"\r\n")` to `self.transport.write`.  `bytes.replace` with a one-byte pattern is the
translator's fixed `pyReplace1`; here `pyReplace1 255 [255, 255] = escIAC`, `pyReplace1 10 [13, 10] = escLF`, and
the order of the two (IAC doubling first) is the model's.
-/
namespace TwistedProps.C38
open Twisted.Telnet.Data

/-- generated `ProtocolTransportMixin.write` = the model's LF → CR LF translation -/
theorem gen_mixinWrite_eq (d : Bytes) : Generated.Telnet.mixinWrite d = escLF d := rfl

/-- generated `TelnetTransport.write` = the model's `write`, on every byte string -/
theorem gen_write_eq (d : Bytes) : Generated.Telnet.write d = write d := rfl

end TwistedProps.C38
