import TwistedProps.C28.Render
import TwistedProps.C28.IO
/-!
C28 — template flattening never lets content become markup.

Model: `Twisted.Web.Flatten` (`_flattenElement` over `_stan` trees, the escapers) and
`Twisted.Web.Tok` (an XML-subset tokenizer and the WHATWG HTML tokenizer states, one machine).
`expect d n` (in `C28/Tree.lean`) is what the tree *means*: the same traversal as `flatten`
(slots, render directives, Deferreds resolved identically, same slot stack) but producing
events — `txt s` for every string that is character data, `tok (start name attrs sc)` /
`tok (close name)` for every `Tag`, `tok (comment (escapedComment s))` for every `Comment`;
an attribute's value is the bytes its own flattening wrote.  `render` merges adjacent
character data.  The markup tokens of `expect` depend on the tree's shape (names, nesting)
only; every string sits inside a payload.

Main statements: for EVERY tree (any strings anywhere, any nesting, any slot/renderer/Deferred
structure) with names the reading accepts, tokenizing the flattened bytes gives exactly
`render (expect …)` — HTML reading in full (`html_roundtrip`); XML reading under the two side
conditions that XML itself imposes (`xml_roundtrip_partial`): no `--` inside comment text and
only XML `Char`s in the output; both are recorded findings with counterexamples below.

Size and chunking (`Twisted.Web.FlattenIO`, `C28/IO.lean`): none of the statements bounds the size of a string or
of the document.  The code writes the document in chunks — every string is escaped whole and written in one `write`,
attribute values pass chunk by chunk through `writeWithAttributeEscaping`, `_flattenTree` buffers the chunks up to
`BUFFER_SIZE` and flushes when the buffer is full, before awaiting a Deferred and at the end.  `buffering_invisible`:
for EVERY buffer size the chunks delivered upstream, joined, are exactly `flattenString`'s bytes; so the round-trip
theorems hold for the document assembled by the chunk-level model (`html_roundtrip_buffered`).  Which escapers could
be applied slice by slice: `per_char_escapers_slice_safe` (text, attribute) vs `cdata_slices_counterexample`,
`comment_slices_counterexample` (the three-byte rewrites cannot).

Full statement of the XML half that is NOT proved (it is false for the code, see the
counterexamples): `∀ n out, wfNames .xml n → flattenString n = .ok out → tokenize .xml out = render …`.
-/
namespace TwistedProps.C28
open Twisted.Py Twisted.Web.Flatten Twisted.Web.Tok Twisted.Web.FlattenIO

/-- **General form** (any dialect, any render-factory flag, any slot stack): if `flatten` in content
    mode succeeds, so does `expect`, with the same slot stack, and the tokenizer started with pending
    character data `cur` and followed by any `rest` behaves as the text merger fed with the events. -/
theorem node_roundtrip (d : Dialect) (n : Node) (rf : Bool) (st st' : Stack) (out : Bytes)
    (hw : wf d n = true) (hf : flatten n .content rf st = .ok (out, st'))
    (hc : ∀ c ∈ out, charOk d c = true) :
    ∃ evs, expect d n rf st = .ok (evs, st') ∧
      ∀ cur rest, run d (.data cur) (out ++ rest) = (feed evs cur).1 ++ run d (.data (feed evs cur).2) rest := by
  obtain ⟨evs, he, hs⟩ := node_ok d n rf st out st' hw hf hc
  exact ⟨evs, he, fun cur rest => (hs cur).run rest⟩

/-- whole documents (`flattenString`): tokenize = render ∘ expect -/
theorem document_roundtrip (d : Dialect) (n : Node) (out : Bytes) (hw : wf d n = true)
    (hf : flattenString n = .ok out) (hc : ∀ c ∈ out, charOk d c = true) :
    ∃ evs st', expect d n false [] = .ok (evs, st') ∧ tokenize d out = render evs := by
  unfold flattenString at hf
  split at hf
  · rename_i o st' h
    cases hf
    obtain ⟨evs, he, hr⟩ := node_roundtrip d n false [] st' out hw h hc
    refine ⟨evs, st', he, ?_⟩
    have := hr [] []
    simpa [tokenize, render, run, finish] using this
  · cases hf

/-- **C28, HTML reading, full strength.**  For every tree whose tag/attribute names the HTML
    tokenizer accepts as names (`wf`: first character an ASCII letter, no whitespace, `/`, `>`, NUL, …;
    CDATA nodes only where CDATA is recognised, `foreign = true`) and whatever its strings are,
    the WHATWG tokenizer run over the flattened document yields exactly the tree's own structure. -/
theorem html_roundtrip (foreign : Bool) (n : Node) (out : Bytes) (hw : wf (.html foreign) n = true)
    (hf : flattenString n = .ok out) :
    ∃ evs st', expect (.html foreign) n false [] = .ok (evs, st') ∧ tokenize (.html foreign) out = render evs :=
  document_roundtrip (.html foreign) n out hw hf (fun _ _ => rfl)

/-- **C28, XML reading, partial.**  Same statement for the XML tokenizer under the conditions XML
    imposes and the flattener does not establish: `wf .xml` additionally asks of every `Comment`
    that its escaped text has no `--` and no trailing `-` (`xmlCommentOk`), and the output must
    consist of XML `Char`s.  Missing for full strength: exactly these two hypotheses — they are false
    for the code (`xml_comment_double_dash_counterexample`, `xml_forbidden_char_counterexample`). -/
theorem xml_roundtrip_partial (n : Node) (out : Bytes) (hw : wf .xml n = true)
    (hf : flattenString n = .ok out) (hc : ∀ c ∈ out, xmlChar c = true) :
    ∃ evs st', expect .xml n false [] = .ok (evs, st') ∧ tokenize .xml out = render evs :=
  document_roundtrip .xml n out hw hf hc

/-- **content_cannot_create_markup** (HTML reading): whatever the strings of the tree are, the markup
    tokens an HTML tokenizer sees in the flattened document are those of the tree's own `Tag`s and
    `Comment`s, and the character data it sees is the tree's strings. -/
theorem content_cannot_create_markup (foreign : Bool) (n : Node) (out : Bytes) (hw : wf (.html foreign) n = true)
    (hf : flattenString n = .ok out) :
    ∃ evs st', expect (.html foreign) n false [] = .ok (evs, st') ∧
      markup (tokenize (.html foreign) out) = evMarkup evs ∧ chars (tokenize (.html foreign) out) = evChars evs := by
  obtain ⟨evs, st', he, ht⟩ := html_roundtrip foreign n out hw hf
  exact ⟨evs, st', he, by rw [ht, markup_render], by rw [ht, chars_render]⟩

/-! ### the single-construct corollaries (any string `s`) -/

/-- text: `escapeForContent s` is one text token `s` (none if `s` is empty) -/
theorem text_roundtrip (foreign : Bool) (s : Bytes) :
    tokenize (.html foreign) (escapeForContent s) = flushText s := by
  have h := text_consumed (.html foreign) s [] (fun _ _ => rfl)
  have := h.run []
  simpa [tokenize, run, finish] using this

/-- comment: `<!--` + `escapedComment s` + `-->` is one comment token, whatever `s` is -/
theorem comment_roundtrip (foreign : Bool) (s : Bytes) :
    tokenize (.html foreign) (commentOpen ++ escapedComment s ++ commentClose) = [Tok.comment (escapedComment s)] := by
  have h := spec_comment (.html foreign) s (by simp) []
  have := h.run []
  simpa [tokenize, run, finish, feed, flushText] using this

/-- attribute: `<a href="` + `attrEsc s` + `"></a>` has the attribute value `s`, whatever `s` is -/
theorem attribute_roundtrip (foreign : Bool) (s : Bytes) :
    tokenize (.html foreign) ([60, 97, 32, 104, 114, 101, 102, 61, 34] ++ attrEsc s ++ [34, 62, 60, 47, 97, 62]) =
      [Tok.start [97] [([104, 114, 101, 102], s)] false, Tok.close [97]] := by
  have s1 : Goes (.html foreign) (.data []) [60, 97, 32, 104, 114, 101, 102, 61, 34]
      (.attrVal ⟨[97], []⟩ [104, 114, 101, 102] []) [] := by
    simp [Goes, steps, step, nameStart, attrStart, attrChar, isAlpha, isSpace, fold, flushText]
  have s2 := attr_consumed (.html foreign) ⟨[97], []⟩ [104, 114, 101, 102] s [] (fun _ _ => rfl)
  have s3 : Goes (.html foreign) (.attrVal ⟨[97], []⟩ [104, 114, 101, 102] ([] ++ s)) [34, 62, 60, 47, 97, 62] (.data [])
      [Tok.start [97] [([104, 114, 101, 102], s)] false, Tok.close [97]] := by
    simp [Goes, steps, step, nameStart, isAlpha, fold, flushText]
  have := (Goes.silent s1 (Goes.silent s2 s3)).run []
  rw [List.append_nil] at this
  unfold tokenize
  rw [List.append_assoc, this]
  simp [run, finish, flushText]

/-- CDATA (where recognised): the section's character data is `s`, whatever `s` is -/
theorem cdata_roundtrip (s : Bytes) :
    tokenize (.html true) (cdataOpen ++ escapedCDATA s ++ cdataClose) = flushText s := by
  have h := spec_cdata (.html true) rfl s (fun _ _ => rfl) []
  have := h.run []
  simpa [tokenize, run, finish, feed] using this

/-! ### size, chunks and the buffer (`_flattenTree.bufferedWrite`, `writeWithAttributeEscaping`) -/

/-- **buffering_invisible**: the chunk-level model — every `write` call of `_flattenElement` kept apart, each chunk
    escaped on its own by the attribute wrappers around it, `bufferedWrite` with `BUFFER_SIZE = B`, a flush before
    every awaited Deferred and at the end, `BytesIO` joining what is delivered — produces exactly the bytes (or the
    error) of `flattenString`, for EVERY `B` and every tree (strings of any length). -/
theorem buffering_invisible (B : Nat) (n : Node) : flattenStringIO B n = flattenString n :=
  flattenStringIO_eq B n

/-- what `flatten(request, root, write)` hands to `write`: non-empty chunks whose join is the document -/
theorem upstream_chunks (B : Nat) (n : Node) (chunks : List Bytes) (h : upstream B n = .ok chunks) :
    flattenString n = .ok chunks.flatten ∧ ∀ c ∈ chunks, c ≠ [] := by
  have hb := buffering_invisible B n
  unfold upstream at h
  unfold flattenStringIO at hb
  split at h
  · rename_i evs st heq
    cases h
    rw [heq] at hb
    exact ⟨hb.symm, deliver_nonempty B evs []⟩
  · cases h

/-- **C28 for the document as the code assembles it** (HTML reading, any buffer size, any string sizes) -/
theorem html_roundtrip_buffered (B : Nat) (foreign : Bool) (n : Node) (out : Bytes) (hw : wf (.html foreign) n = true)
    (hf : flattenStringIO B n = .ok out) :
    ∃ evs st', expect (.html foreign) n false [] = .ok (evs, st') ∧ tokenize (.html foreign) out = render evs :=
  html_roundtrip foreign n out hw (by rw [← buffering_invisible B n]; exact hf)

/-- same for the XML reading (with `xml_roundtrip_partial`'s two side conditions) -/
theorem xml_roundtrip_buffered_partial (B : Nat) (n : Node) (out : Bytes) (hw : wf .xml n = true)
    (hf : flattenStringIO B n = .ok out) (hc : ∀ c ∈ out, xmlChar c = true) :
    ∃ evs st', expect .xml n false [] = .ok (evs, st') ∧ tokenize .xml out = render evs :=
  xml_roundtrip_partial n out hw (by rw [← buffering_invisible B n]; exact hf) hc

/-- the per-character escapers may be applied slice by slice (this is what makes `writeWithAttributeEscaping`,
    which sees the value chunk by chunk, correct): escaping the pieces and joining = escaping the whole -/
theorem per_char_escapers_slice_safe (pieces : List Bytes) :
    (pieces.map escapeForContent).flatten = escapeForContent pieces.flatten ∧
    (pieces.map attrEsc).flatten = attrEsc pieces.flatten :=
  ⟨escapeForContent_slices pieces, attrEsc_slices pieces⟩

/-- `escapedCDATA` may NOT be applied slice by slice (seeded change C28-2 did, in `BUFFER_SIZE` slices): for the data
    `]]><b>` cut after the first byte, both slices are left unchanged, the section ends at the `]]>` of the data and
    `<b>` is an element — whereas the data escaped whole is character data (`cdata_roundtrip`). -/
theorem cdata_slices_counterexample :
    escapedCDATA [93] = [93] ∧ escapedCDATA [93, 62, 60, 98, 62] = [93, 62, 60, 98, 62] ∧
    -- `<![CDATA[` `]` `]><b>` `]]>`
    tokenize (.html true) [60, 33, 91, 67, 68, 65, 84, 65, 91, 93, 93, 62, 60, 98, 62, 93, 93, 62] =
      [Tok.start [98] [] false, Tok.text [93, 93, 62]] ∧
    tokenize .xml [60, 33, 91, 67, 68, 65, 84, 65, 91, 93, 93, 62, 60, 98, 62, 93, 93, 62] = [Tok.start [98] [] false, Tok.bad] ∧
    tokenize (.html true) (cdataOpen ++ escapedCDATA [93, 93, 62, 60, 98, 62] ++ cdataClose) =
      [Tok.text [93, 93, 62, 60, 98, 62]] := by
  refine ⟨?_, ?_, ?_, ?_, ?_⟩
  · simp [escapedCDATA]
  · simp [escapedCDATA]
  · decide +kernel
  · decide +kernel
  · rw [cdata_roundtrip]; simp [flushText]

/-- `escapedComment` may not be applied slice by slice either: `a-` + `b` gives `a- b`, not `a-b` (the trailing-dash
    and leading-`>` rules speak about the ends of the whole comment), and `--` + `>` … the `-->` rewrite needs all
    three bytes in one piece: `a--` + `>b` is `a-- &gt;b`, the whole `a-->b` is `a--&gt;b` -/
theorem comment_slices_counterexample :
    escapedComment [97, 45] ++ escapedComment [98] ≠ escapedComment [97, 45, 98] ∧
    escapedComment [97, 45, 45] ++ escapedComment [62, 98] ≠ escapedComment [97, 45, 45, 62, 98] := by
  constructor <;> simp [escapedComment, subCommentEnd, leadingGt, trailingDash, gt]

/-! ### counterexamples (the recorded findings) and the repaired defect -/

/-- `flattenString n` succeeded with exactly these bytes (`Except` has no `DecidableEq`) -/
def flattensTo (n : Node) (b : Bytes) : Bool :=
  match flattenString n with
  | .ok o => o == b
  | .error _ => false

/-- finding `xml-comment-double-dash`: `Comment("a--b")` is flattened to `<!--a--b-->`, which the XML
    reading rejects -/
theorem xml_comment_double_dash_counterexample :
    flattensTo (.comment [97, 45, 45, 98]) [60, 33, 45, 45, 97, 45, 45, 98, 45, 45, 62] = true ∧
    tokenize .xml [60, 33, 45, 45, 97, 45, 45, 98, 45, 45, 62] = [Tok.bad] := by
  constructor
  · simp [flattensTo, flattenString, flatten, escapedComment, subCommentEnd, leadingGt, trailingDash,
      commentOpen, commentClose]
  · decide +kernel

/-- finding `xml-forbidden-char`: the text `"\\x01"` is passed through and is not an XML `Char` -/
theorem xml_forbidden_char_counterexample :
    flattensTo (.text [1]) [1] = true ∧ tokenize .xml [1] = [Tok.bad] := by decide +kernel

/-- finding `html-cdata-outside-foreign-content`: where `<![CDATA[` is not recognised (HTML content),
    `CDATA("a><b>")` is a bogus comment `[CDATA[a` followed by the *element* `b` and the text `]]>` -/
theorem html_cdata_outside_foreign_counterexample :
    flattensTo (.cdata [97, 62, 60, 98, 62])
      [60, 33, 91, 67, 68, 65, 84, 65, 91, 97, 62, 60, 98, 62, 93, 93, 62] = true ∧
    tokenize (.html false) [60, 33, 91, 67, 68, 65, 84, 65, 91, 97, 62, 60, 98, 62, 93, 93, 62] =
      [Tok.comment [91, 67, 68, 65, 84, 65, 91, 97], Tok.start [98] [] false, Tok.text [93, 93, 62]] := by
  constructor
  · simp [flattensTo, flattenString, flatten, escapedCDATA, cdataOpen, cdataClose]
  · decide +kernel

/-- `escapedComment` before the repair (`data.replace(b"-->", b"--&gt;")` + trailing-dash rule) -/
def replaceArrowOld : Bytes → Bytes
  | [] => []
  | c :: t@(d :: e :: t2) =>
    if c = 45 ∧ d = 45 ∧ e = 62 then [45, 45] ++ gt ++ replaceArrowOld t2 else c :: replaceArrowOld t
  | c :: t => c :: replaceArrowOld t
def escapedCommentOld (s : Bytes) : Bytes := trailingDash (replaceArrowOld s)

/-- the repaired defect: the old escaper left `a--!><b>` and `>` unchanged, so `Comment("a--!><b>")`
    ended at `--!>` and `<b>` was an element; `Comment(">")` was the empty comment followed by the text `-->` -/
theorem unrepaired_comment_counterexample :
    escapedCommentOld [97, 45, 45, 33, 62, 60, 98, 62] = [97, 45, 45, 33, 62, 60, 98, 62] ∧
    tokenize (.html true) (commentOpen ++ [97, 45, 45, 33, 62, 60, 98, 62] ++ commentClose) =
      [Tok.comment [97], Tok.start [98] [] false, Tok.text [45, 45, 62]] ∧
    escapedCommentOld [62] = [62] ∧
    tokenize (.html true) (commentOpen ++ [62] ++ commentClose) = [Tok.comment [], Tok.text [45, 45, 62]] := by
  refine ⟨?_, ?_, ?_, ?_⟩
  · simp [escapedCommentOld, replaceArrowOld, trailingDash]
  · decide +kernel
  · simp [escapedCommentOld, replaceArrowOld, trailingDash]
  · decide +kernel

/-! ### non-vacuity -/

/-- `<Div id=X>T<!--C-->S<br /></Div>` inside an `IRenderable`, with hostile X, T, C, a filled slot S and a render
    directive producing the `br` -/
def sample : Node :=
  .renderable (.tag [68, 105, 118] [[105, 100]] [.text [34, 62, 60]]
    [.text [60, 47, 100, 105, 118, 62, 38], .comment [62, 45, 45, 33, 62, 45], .slot [115],
     .rtag none (.tag [98, 114] [] [] [] none)]
    (some [([115], [93, 93, 62])]))

example : escapedComment [62, 45, 45, 33, 62, 45] = [38, 103, 116, 59, 45, 45, 33, 38, 103, 116, 59, 45, 32] := by
  simp [escapedComment, subCommentEnd, leadingGt, trailingDash, gt]

/-- the flattened sample -/
def sampleDoc : Bytes :=
  [60, 68, 105, 118, 32, 105, 100, 61, 34, 38, 113, 117, 111, 116, 59, 38, 103, 116, 59, 38, 108, 116, 59, 34, 62,
   38, 108, 116, 59, 47, 100, 105, 118, 38, 103, 116, 59, 38, 97, 109, 112, 59,
   60, 33, 45, 45, 38, 103, 116, 59, 45, 45, 33, 38, 103, 116, 59, 45, 32, 45, 45, 62,
   93, 93, 38, 103, 116, 59, 60, 98, 114, 32, 47, 62, 60, 47, 68, 105, 118, 62]

example : wf (.html true) sample = true := by
  simp [sample, wf, wfList, nameOk, attrNameOk, nameStart, attrStart, nameChar, attrChar, isAlpha, isSpace]
example : flattensTo sample sampleDoc = true := by
  simp [flattensTo, flattenString, sample, sampleDoc, flatten, flattenList, flattenAttrs, escData, escapeForContent_eq,
    attrEsc_eq, e1, a1, amp, lt, gt, quot, getSlot, List.lookup, escapedComment, subCommentEnd, leadingGt, trailingDash,
    commentOpen, commentClose, voidElements]
example : tokenize (.html true) sampleDoc =
    [Tok.start [100, 105, 118] [([105, 100], [34, 62, 60])] false,
     Tok.text [60, 47, 100, 105, 118, 62, 38],
     Tok.comment [38, 103, 116, 59, 45, 45, 33, 38, 103, 116, 59, 45, 32],
     Tok.text [93, 93, 62],
     Tok.start [98, 114] [] true,
     Tok.close [100, 105, 118]] := by decide +kernel
example : wf .xml (.tag [97] [[98]] [.text [60]] [.comment [120]] none) = true := by
  simp [wf, wfList, nameOk, attrNameOk, nameStart, attrStart, isAlpha, escapedComment, subCommentEnd, leadingGt,
    trailingDash, xmlCommentOk, xmlChar]
example : tokenize .xml [60, 33, 91, 67, 68, 65, 84, 65, 91, 93, 93, 93, 93, 62, 60, 33, 91, 67, 68, 65, 84, 65, 91, 62, 38, 93, 93, 62] =
    [Tok.text [93, 93, 62, 38]] := by decide +kernel
example : flattensTo (.cdata [93, 93, 62, 38])
    [60, 33, 91, 67, 68, 65, 84, 65, 91, 93, 93, 93, 93, 62, 60, 33, 91, 67, 68, 65, 84, 65, 91, 62, 38, 93, 93, 62] = true := by
  simp [flattensTo, flattenString, flatten, escapedCDATA, cdataOpen, cdataClose]

/-- the upstream `write` calls are exactly these chunks -/
def upstreamIs (B : Nat) (n : Node) (chunks : List Bytes) : Bool :=
  match upstream B n with
  | .ok c => c == chunks
  | .error _ => false
/-- `<p>` + text `ab<` + `</p>` with `BUFFER_SIZE = 4`: the writes `<`, `p`, `>`, `ab&lt;` fill the buffer (one flush),
    `</p>` fills it again -/
example : upstreamIs 4 (.tag [112] [] [] [.text [97, 98, 60]] none)
    [[60, 112, 62, 97, 98, 38, 108, 116, 59], [60, 47, 112, 62]] = true := by
  simp [upstreamIs, upstream, flattenEv, flattenEvList, flattenEvAttrs, deliver, flush, w, escN, escData,
    escapeForContent_eq, e1, lt]
/-- a Deferred flushes whatever is buffered -/
example : upstreamIs 100 (.list [.text [97], .deferred (.text [98])]) [[97], [98]] = true := by
  simp [upstreamIs, upstream, flattenEv, flattenEvList, deliver, flush, w, escN, escData, escapeForContent_eq, e1]
/-- the chunk-level model on the sample tree, 4-byte buffer: the sample document -/
example : flattenStringIO 4 sample = flattenString sample := buffering_invisible 4 sample

end TwistedProps.C28
