import TwistedModel.Spread.JellyHeap
/-!
C45, round trip: `unjelly (jelly g)` is a copy of `g` (lemmas).

A simulation between the jellier and the unjellier of `TwistedModel/Spread/JellyHeap.lean`, by induction on the
jellier's recursion (`Step`, `step_succ`): `Rel` relates the jellier's state (`preserved`, `cooked`) to the
unjellier's (`references`, the new heap) through a renaming `φ` of the finished objects; one body lemma per
shape (`body_seq`: list / tuple / set / frozenset, `body_dict`, `body_inst`), `rel_finish` moves an object from
the stack of objects in progress into `φ` and binds its `reference` id.  The rank hypothesis (`WF.acyclic`) is
used in one place only: a back reference met while jellying never points into the stack (`hback` in `step_succ`),
so `dereference` always finds the finished object and no `NotKnown` placeholder is ever created.
-/
namespace TwistedProps.C45.RT
open Twisted.Spread.JellyHeap
open Twisted.Spread.Jelly (Bytes ObjId Atom Sexp Err)

/-! ### running the unjellier monad -/

theorem bind_ok {α β : Type} {m : UM α} {f : α → UM β} {s s' : USt} {a : α}
    (h : m s = .ok (a, s')) : (m >>= f) s = f a s' := by
  show UM.bind m f s = _
  simp [UM.bind, h]

theorem pure_run {α : Type} (a : α) (s : USt) : (pure a : UM α) s = .ok (a, s) := rfl

theorem classify_list : classify tList = .list := by decide
theorem classify_tuple : classify tTuple = .tuple := by decide
theorem classify_set : classify tSet = .set := by decide
theorem classify_frozenset : classify tFrozenset = .frozenset := by decide
theorem classify_dict : classify tDictionary = .dict := by decide
theorem classify_reference : classify tReference = .reference := by decide
theorem classify_dereference : classify tDereference = .dereference := by decide

theorem classify_leaf {t : Bytes} (h : t ∈ leafTags) : classify t = .leaf := by
  simp only [leafTags, List.mem_cons, List.not_mem_nil, or_false] at h
  rcases h with rfl | rfl | rfl | rfl | rfl | rfl | rfl | rfl | rfl | rfl | rfl <;> decide

theorem unj_tagged (env : Env) (tag : Bytes) (rest : List Sexp) :
    unj env (.list (bsym tag :: rest)) =
    (match classify tag with
    | .list => do
      let p ← alloc (.obj .list (rangeRefs rest.length))
      let _ ← unjInto env p 0 rest
      pure (.ptr p)
    | .tuple => do
      let p ← alloc (.obj .list (rangeRefs rest.length))
      let u ← unjInto env p 0 rest
      finishSeq .tuple p u
    | .set => do
      let p ← alloc (.obj .list (rangeRefs rest.length))
      let u ← unjInto env p 0 rest
      finishSeq .set p u
    | .frozenset => do
      let p ← alloc (.obj .list (rangeRefs rest.length))
      let u ← unjInto env p 0 rest
      finishSeq .frozenset p u
    | .dict => do
      let p ← alloc (.obj .dict [])
      unjDict env p rest
      pure (.ptr p)
    | .reference =>
      match rest with
      | .atom key :: e :: _ => do
        let o ← unj env e
        bindReference key o
      | .list _ :: _ :: _ => raise .type
      | _ => raise .index
    | .dereference =>
      match rest with
      | .atom key :: _ => doDereference key
      | .list _ :: _ => raise .type
      | [] => raise .index
    | .leaf =>
      match allAtoms rest with
      | some args => pure (.imm (.leaf tag args))
      | none => raise .unmodelled
    | .other =>
      match env.resolve tag with
      | none => raise .insecure
      | some c =>
        match rest with
        | st :: _ => do
          let state ← unj env st
          newInstance env c state
        | [] => raise .index) := by
  simp only [bsym]
  rcases rest with _ | ⟨x, _ | ⟨y, tl⟩⟩
  · rw [unj]; cases classify tag <;> rfl
  · cases x <;> (rw [unj]; cases classify tag <;> first | rfl | skip)
    all_goals (intros; simp_all)
  · cases x <;> (rw [unj]; cases classify tag <;> rfl)


/-! ### renaming of addresses -/

def mapRef (φ : Addr → Option Addr) : Ref → Ref
  | .imm i => .imm i
  | .ptr a => .ptr ((φ a).getD 0)

def Covered (φ : Addr → Option Addr) : Ref → Prop
  | .imm _ => True
  | .ptr a => ∃ p, φ a = some p

def Ext (φ φ' : Addr → Option Addr) : Prop := ∀ a p, φ a = some p → φ' a = some p

theorem Ext.refl (φ : Addr → Option Addr) : Ext φ φ := fun _ _ h => h
theorem Ext.trans {φ φ' φ'' : Addr → Option Addr} (h1 : Ext φ φ') (h2 : Ext φ' φ'') : Ext φ φ'' :=
  fun a p h => h2 a p (h1 a p h)

theorem mapRef_ext {φ φ' : Addr → Option Addr} {r : Ref} (hc : Covered φ r) (he : Ext φ φ') :
    mapRef φ' r = mapRef φ r := by
  cases r with
  | imm i => rfl
  | ptr a => obtain ⟨p, hp⟩ := hc; simp [mapRef, hp, he a p hp]

theorem covered_ext {φ φ' : Addr → Option Addr} {r : Ref} (hc : Covered φ r) (he : Ext φ φ') : Covered φ' r := by
  cases r with
  | imm i => trivial
  | ptr a => obtain ⟨p, hp⟩ := hc; exact ⟨p, he a p hp⟩

theorem map_mapRef_ext {φ φ' : Addr → Option Addr} {ks : List Ref} (hc : ∀ r ∈ ks, Covered φ r) (he : Ext φ φ') :
    ks.map (mapRef φ') = ks.map (mapRef φ) :=
  List.map_congr_left fun r hr => mapRef_ext (hc r hr) he

/-- leaves carry one of the leaf tags -/
def RefOK : Ref → Prop
  | .imm (.leaf t _) => t ∈ leafTags
  | _ => True

def keysOf : List Ref → List Ref
  | k :: _ :: rest => k :: keysOf rest
  | _ => []

/-- what is assumed of the graph that is jellied -/
structure WF (env : Env) (h : Heap) (rk : Addr → Nat) : Prop where
  acyclic : ∀ (a : Addr) (o : Obj), h[a]? = some o → ∀ b, Ref.ptr b ∈ o.kids → rk b < rk a
  leaves : ∀ (a : Addr) (o : Obj), h[a]? = some o → ∀ r ∈ o.kids, RefOK r
  dictEven : ∀ (a : Addr) (ks : List Ref), h[a]? = some ⟨.dict, ks⟩ → ks.length % 2 = 0
  dictKeys : ∀ (a : Addr) (ks : List Ref), h[a]? = some ⟨.dict, ks⟩ → (keysOf ks).Nodup
  inst : ∀ (a : Addr) c (ks : List Ref), h[a]? = some ⟨.inst c, ks⟩ → ∃ st, ks = [st] ∧ env.resolve (env.qual c) = some c ∧
      classify (env.qual c) = .other ∧
      (env.hasSetstate c = false → st = noneLeaf ∨ ∃ d k ks', st = .ptr d ∧ h[d]? = some ⟨.dict, k :: ks'⟩)

/-- the simulation relation between the jellier's and the unjellier's state: `φ` maps every *finished*
    object to its copy, `stack` are the objects being jellied -/
structure Rel (h : Heap) (C : List (Addr × Nat)) (sJ : JSt) (sU : USt) (φ : Addr → Option Addr)
    (stack : List Addr) : Prop where
  pres : ∀ a, a ∈ sJ.preserved ↔ ((∃ p, φ a = some p) ∨ a ∈ stack)
  stk : ∀ a ∈ stack, φ a = none
  objs : ∀ a p, φ a = some p → ∃ o : Obj, h[a]? = some o ∧
      sU.heap[p]? = some (.obj o.shape (o.kids.map (mapRef φ))) ∧ ∀ r ∈ o.kids, Covered φ r
  inj : ∀ a b p, φ a = some p → φ b = some p → a = b
  refs : ∀ a k, C.lookup a = some k → sU.refs.lookup (.int k) = (φ a).map Ref.ptr
  nonk : ∀ (p : Addr) (o : DObj), sU.heap[p]? = some o → o.isNK = false
  ck : ∀ a k, sJ.cooked.lookup a = some k → a ∈ sJ.preserved

theorem Rel.lt {h : Heap} {C : List (Addr × Nat)} {sJ : JSt} {sU : USt} {φ : Addr → Option Addr} {stack : List Addr}
    (R : Rel h C sJ sU φ stack) {a p : Addr} (hp : φ a = some p) : p < sU.heap.length := by
  obtain ⟨o, _, ho, _⟩ := R.objs a p hp
  rcases Nat.lt_or_ge p sU.heap.length with hlt | hge
  · exact hlt
  · have hn : sU.heap[p]? = none := List.getElem?_eq_none hge
    simp [hn] at ho

def GrowsX (x : Option Addr) (sU : USt) (φ : Addr → Option Addr) (sU' : USt) (φ' : Addr → Option Addr) : Prop :=
  sU.heap.length ≤ sU'.heap.length ∧
  (∀ j, j < sU.heap.length → some j ≠ x → sU'.heap[j]? = sU.heap[j]?) ∧
  (∀ a q, φ' a = some q → φ a = some q ∨ sU.heap.length ≤ q)

theorem nkIn_false {heap : List DObj} (hn : ∀ (p : Addr) (o : DObj), heap[p]? = some o → o.isNK = false) (r : Ref) :
    nkIn heap r = false := by
  cases r with
  | imm i => rfl
  | ptr p =>
    simp only [nkIn]
    cases hp : heap[p]? with
    | none => rfl
    | some o => exact hn p o hp

theorem mapS_cons_ok {α β σ : Type} {f : α → σ → Except Err (β × σ)} {x : α} {xs : List α} {s s' : σ} {ts : List β}
    (hm : mapS f (x :: xs) s = .ok (ts, s')) :
    ∃ y s1 ys, f x s = .ok (y, s1) ∧ mapS f xs s1 = .ok (ys, s') ∧ ts = y :: ys := by
  simp only [mapS] at hm
  cases h1 : f x s with
  | error e => simp [h1] at hm
  | ok v =>
    obtain ⟨y, s1⟩ := v
    simp only [h1] at hm
    cases h2 : mapS f xs s1 with
    | error e => simp [h2] at hm
    | ok w =>
      obtain ⟨ys, s2⟩ := w
      simp only [h2, Except.ok.injEq, Prod.mk.injEq] at hm
      exact ⟨y, s1, ys, rfl, hm.2 ▸ h2, hm.1.symm⟩

/-- `cooked` only grows -/
def Mono (s s' : JSt) : Prop := ∀ a k, s.cooked.lookup a = some k → s'.cooked.lookup a = some k

theorem mapS_mono {env : Env} {h : Heap} {n : Nat}
    (ih : ∀ r s t s', jelly env h n r s = .ok (t, s') → Mono s s') :
    ∀ ks s ts s', mapS (jelly env h n) ks s = .ok (ts, s') → Mono s s' := by
  intro ks
  induction ks with
  | nil => intro s ts s' hm; simp only [mapS, Except.ok.injEq, Prod.mk.injEq] at hm; rw [← hm.2]; exact fun _ _ h => h
  | cons x xs ihx =>
    intro s ts s' hm
    obtain ⟨y, s1, ys, h1, h2, _⟩ := mapS_cons_ok hm
    exact fun a k hk => ihx s1 ys s' h2 a k (ih x s y s1 h1 a k hk)

theorem jelly_mono (env : Env) (h : Heap) : ∀ n r s t s', jelly env h n r s = .ok (t, s') → Mono s s' := by
  intro n
  induction n with
  | zero => intro r s t s' hj; simp [jelly] at hj
  | succ n ih =>
    intro r s t s' hj
    cases r with
    | imm i => simp only [jelly, Except.ok.injEq, Prod.mk.injEq] at hj; rw [← hj.2]; exact fun _ _ h => h
    | ptr a =>
      simp only [jelly] at hj
      split at hj
      · simp at hj
      · split at hj
        · simp only [Except.ok.injEq, Prod.mk.injEq] at hj; rw [← hj.2]; exact fun _ _ h => h
        · rename_i hck
          split at hj
          · simp only [Except.ok.injEq, Prod.mk.injEq] at hj
            rw [← hj.2]
            intro b k hb
            simp only [List.lookup]
            split
            · rename_i heq
              have : b = a := by simpa using heq
              subst this; simp [hck] at hb
            · exact hb
          · split at hj
            · split at hj
              · simp at hj
              · rename_i ks s2 hm
                simp only [Except.ok.injEq, Prod.mk.injEq] at hj
                rw [← hj.2]
                exact fun b k hb => mapS_mono ih _ _ _ _ hm b k hb
            · simp at hj


/-! ### the unjellier's primitive steps keep the relation -/

theorem rel_setHeap {h : Heap} {C : List (Addr × Nat)} {sJ : JSt} {sU : USt} {φ : Addr → Option Addr} {stack : List Addr}
    (R : Rel h C sJ sU φ stack) {p : Addr} (hp : ∀ a, φ a ≠ some p) (sh : Shape) (ks : List Ref) :
    Rel h C sJ { sU with heap := sU.heap.set p (.obj sh ks) } φ stack where
  pres := R.pres
  stk := R.stk
  objs := by
    intro a q hq
    obtain ⟨o, h1, h2, h3⟩ := R.objs a q hq
    refine ⟨o, h1, ?_, h3⟩
    have : p ≠ q := fun e => hp a (e ▸ hq)
    simp only [List.getElem?_set_ne this, h2]
  inj := R.inj
  refs := R.refs
  nonk := by
    intro q o ho
    simp only [List.getElem?_set] at ho
    split at ho
    · split at ho
      · cases ho; rfl
      · cases ho
    · exact R.nonk q o ho
  ck := R.ck

theorem rel_alloc {h : Heap} {C : List (Addr × Nat)} {sJ : JSt} {sU : USt} {φ : Addr → Option Addr} {stack : List Addr}
    (R : Rel h C sJ sU φ stack) (sh : Shape) (ks : List Ref) :
    Rel h C sJ { sU with heap := sU.heap ++ [.obj sh ks] } φ stack where
  pres := R.pres
  stk := R.stk
  objs := by
    intro a q hq
    obtain ⟨o, h1, h2, h3⟩ := R.objs a q hq
    refine ⟨o, h1, ?_, h3⟩
    have := R.lt hq
    simp only [List.getElem?_append_left this, h2]
  inj := R.inj
  refs := R.refs
  nonk := by
    intro q o ho
    rcases Nat.lt_or_ge q sU.heap.length with hlt | hge
    · rw [List.getElem?_append_left hlt] at ho; exact R.nonk q o ho
    · rw [List.getElem?_append_right hge] at ho
      cases hq : q - sU.heap.length with
      | zero => simp [hq] at ho; cases ho; rfl
      | succ m => simp [hq] at ho
  ck := R.ck

theorem setSlot_run {s : USt} {p : Addr} {sh : Shape} {ks : List Ref} (hp : s.heap[p]? = some (.obj sh ks)) (i : Nat) (v : Ref) :
    setSlot p i v s = .ok ((), { s with heap := s.heap.set p (.obj sh (ks.set i v)) }) := by
  have h1 : getObj p s = .ok (.obj sh ks, s) := by simp [getObj, hp]
  simp only [setSlot]
  rw [bind_ok h1]
  rfl

theorem kidsOf_run {s : USt} {p : Addr} {sh : Shape} {ks : List Ref} (hp : s.heap[p]? = some (.obj sh ks)) :
    kidsOf p s = .ok (ks, s) := by
  have h1 : getObj p s = .ok (.obj sh ks, s) := by simp [getObj, hp]
  simp only [kidsOf]
  rw [bind_ok h1]
  rfl

theorem dictStore_run {s : USt} {p : Addr} {ks : List Ref} (hp : s.heap[p]? = some (.obj .dict ks)) (k v : Ref) :
    dictStore p k v s = .ok ((), { s with heap := s.heap.set p (.obj .dict (storeKV ks k v)) }) := by
  have h1 : getObj p s = .ok (.obj .dict ks, s) := by simp [getObj, hp]
  simp only [dictStore]
  rw [bind_ok h1]
  rfl

/-- the statement proved by induction on the jellier's recursion budget -/
def Step (env : Env) (h : Heap) (C : List (Addr × Nat)) (rk : Addr → Nat) (n : Nat) : Prop :=
  ∀ r sJ t sJ', jelly env h n r sJ = .ok (t, sJ') →
  ∀ sU φ stack, Rel h C sJ sU φ stack →
    (∀ a k, sJ'.cooked.lookup a = some k → C.lookup a = some k) →
    (∀ a, r = .ptr a → ∀ b ∈ stack, rk a < rk b) → RefOK r →
  ∃ sU' φ', unj env (render env C t) sU = .ok (mapRef φ' r, sU') ∧ Rel h C sJ' sU' φ' stack ∧
    Covered φ' r ∧ Ext φ φ' ∧ GrowsX none sU φ sU' φ'

theorem growsX_trans {x : Option Addr} {s1 s2 s3 : USt} {f1 f2 f3 : Addr → Option Addr}
    (g1 : GrowsX x s1 f1 s2 f2) (g2 : GrowsX x s2 f2 s3 f3) : GrowsX x s1 f1 s3 f3 := by
  refine ⟨Nat.le_trans g1.1 g2.1, ?_, ?_⟩
  · intro j hj hx
    rw [g2.2.1 j (Nat.lt_of_lt_of_le hj g1.1) hx, g1.2.1 j hj hx]
  · intro a q hq
    rcases g2.2.2 a q hq with h | h
    · exact g1.2.2 a q h
    · exact Or.inr (Nat.le_trans g1.1 h)

theorem growsX_weaken {x : Option Addr} {s1 s2 : USt} {f1 f2 : Addr → Option Addr}
    (g : GrowsX none s1 f1 s2 f2) : GrowsX x s1 f1 s2 f2 :=
  ⟨g.1, fun j hj _ => g.2.1 j hj (by simp), g.2.2⟩

/-- the `unjellyInto` loop over the kids of a list / tuple / set / frozenset -/
theorem loop_ok {env : Env} {h : Heap} {C : List (Addr × Nat)} {rk : Addr → Nat} {n : Nat}
    (hstep : Step env h C rk n) :
    ∀ ks sJ ts sJ', mapS (jelly env h n) ks sJ = .ok (ts, sJ') →
    ∀ sU φ stack p done rest, Rel h C sJ sU φ stack →
      (∀ a k, sJ'.cooked.lookup a = some k → C.lookup a = some k) →
      (∀ r ∈ ks, (∀ a, r = .ptr a → ∀ b ∈ stack, rk a < rk b) ∧ RefOK r) →
      sU.heap[p]? = some (.obj .list (done ++ rest)) → rest.length = ks.length → (∀ a, φ a ≠ some p) →
    ∃ sU' φ', unjInto env p done.length (renderL env C ts) sU = .ok (false, sU') ∧ Rel h C sJ' sU' φ' stack ∧
      (∀ r ∈ ks, Covered φ' r) ∧ Ext φ φ' ∧ GrowsX (some p) sU φ sU' φ' ∧
      sU'.heap[p]? = some (.obj .list (done ++ ks.map (mapRef φ'))) ∧ (∀ a, φ' a ≠ some p) := by
  intro ks
  induction ks with
  | nil =>
    intro sJ ts sJ' hm sU φ stack p done rest R hC hks hp hlen hfresh
    simp only [mapS, Except.ok.injEq, Prod.mk.injEq] at hm
    obtain ⟨rfl, rfl⟩ := hm
    have : rest = [] := List.eq_nil_of_length_eq_zero (by simpa using hlen)
    subst this
    refine ⟨sU, φ, ?_, R, by simp, Ext.refl φ, ⟨Nat.le_refl _, fun _ _ _ => rfl, fun _ _ hq => Or.inl hq⟩, by simpa using hp, hfresh⟩
    simp only [renderL]
    rw [unjInto]
    rfl
  | cons k ks ih =>
    intro sJ ts sJ' hm sU φ stack p done rest R hC hks hp hlen hfresh
    obtain ⟨t, sJ1, ts', hj, hm', rfl⟩ := mapS_cons_ok hm
    have hmono : Mono sJ1 sJ' := mapS_mono (jelly_mono env h n) _ _ _ _ hm'
    obtain ⟨sU1, φ1, hu, R1, hcov, hext, hg⟩ :=
      hstep k sJ t sJ1 hj sU φ stack R (fun a c hc => hC a c (hmono a c hc)) (hks k List.mem_cons_self).1
        (hks k List.mem_cons_self).2
    have hplt : p < sU.heap.length := by
      rcases Nat.lt_or_ge p sU.heap.length with hlt | hge
      · exact hlt
      · simp [List.getElem?_eq_none hge] at hp
    have hp1 : sU1.heap[p]? = some (.obj .list (done ++ rest)) := by
      rw [hg.2.1 p hplt (by simp), hp]
    have hfresh1 : ∀ a, φ1 a ≠ some p := by
      intro a ha
      rcases hg.2.2 a p ha with h' | h'
      · exact hfresh a h'
      · exact absurd hplt (Nat.not_lt.mpr h')
    cases rest with
    | nil => simp at hlen
    | cons d rest =>
    have hset : (done ++ d :: rest).set done.length (mapRef φ1 k) = (done ++ [mapRef φ1 k]) ++ rest := by
      simp
    -- the state after `l[i] = o`
    let sU2 : USt := { sU1 with heap := sU1.heap.set p (.obj .list ((done ++ [mapRef φ1 k]) ++ rest)) }
    have R2 : Rel h C sJ1 sU2 φ1 stack := rel_setHeap R1 hfresh1 _ _
    have hp2 : sU2.heap[p]? = some (.obj .list ((done ++ [mapRef φ1 k]) ++ rest)) := by
      have : p < sU1.heap.length := Nat.lt_of_lt_of_le hplt hg.1
      simp [sU2, List.getElem?_set, this]
    obtain ⟨sU3, φ3, hu3, R3, hcov3, hext3, hg3, hp3, hfresh3⟩ :=
      ih sJ1 ts' sJ' hm' sU2 φ1 stack p (done ++ [mapRef φ1 k]) rest R2 hC
        (fun r hr => hks r (List.mem_cons_of_mem _ hr)) hp2 (by simpa using hlen) hfresh1
    refine ⟨sU3, φ3, ?_, R3, ?_, hext.trans hext3, ?_, ?_, hfresh3⟩
    · simp only [renderL]
      rw [unjInto, bind_ok hu]
      have hnk : isNK (mapRef φ1 k) sU1 = .ok (false, sU1) := by
        simp [isNK, nkIn_false R1.nonk]
      rw [bind_ok hnk]
      simp only [Bool.false_eq_true, if_false]
      rw [bind_ok (setSlot_run hp1 done.length (mapRef φ1 k))]
      rw [hset]
      have : done.length + 1 = (done ++ [mapRef φ1 k]).length := by simp
      rw [this, bind_ok hu3]
      rfl
    · intro r hr
      rcases List.mem_cons.mp hr with rfl | hr
      · exact covered_ext hcov hext3
      · exact hcov3 r hr
    · have g2 : GrowsX (some p) sU1 φ1 sU2 φ1 := by
        refine ⟨by simp [sU2], ?_, fun _ _ hq => Or.inl hq⟩
        intro j _ hx
        have : p ≠ j := fun e => hx (by simp [e])
        simp [sU2, List.getElem?_set_ne this]
      exact growsX_trans (growsX_trans (growsX_weaken hg) g2) hg3
    · rw [hp3, List.map_cons, mapRef_ext hcov hext3]
      simp


def upd (φ : Addr → Option Addr) (a p : Addr) : Addr → Option Addr := fun x => if x = a then some p else φ x

def newRefs (C : List (Addr × Nat)) (a p : Addr) (refs : List (Atom × Ref)) : List (Atom × Ref) :=
  match C.lookup a with
  | some k => (Atom.int k, Ref.ptr p) :: refs
  | none => refs

/-- object `a` is finished: it moves from the stack into `φ` (and its `reference` id is bound) -/
theorem rel_finish {h : Heap} {C : List (Addr × Nat)} {sJ : JSt} {sU : USt} {φ : Addr → Option Addr} {stack : List Addr}
    {a pa : Addr} {o : Obj}
    (hCinj : ∀ x y k, C.lookup x = some k → C.lookup y = some k → x = y)
    (R : Rel h C sJ sU φ (a :: stack)) (hnot : a ∉ stack) (ha : h[a]? = some o)
    (hobj : sU.heap[pa]? = some (.obj o.shape (o.kids.map (mapRef φ))))
    (hcov : ∀ r ∈ o.kids, Covered φ r) (hfresh : ∀ x, φ x ≠ some pa) :
    Rel h C sJ { sU with refs := newRefs C a pa sU.refs } (upd φ a pa) stack ∧ Ext φ (upd φ a pa) := by
  have hna : φ a = none := R.stk a List.mem_cons_self
  have hext : Ext φ (upd φ a pa) := by
    intro x p hx
    have : x ≠ a := fun e => by simp [e, hna] at hx
    simp [upd, this, hx]
  refine ⟨?_, hext⟩
  refine ⟨?_, ?_, ?_, ?_, ?_, R.nonk, R.ck⟩
  · intro x
    rw [R.pres x]
    by_cases hx : x = a
    · subst hx; simp [upd]
    · simp [upd, hx]
  · intro x hx
    have : x ≠ a := fun e => hnot (e ▸ hx)
    simp only [upd, this, if_false]
    exact R.stk x (List.mem_cons_of_mem _ hx)
  · intro x p hx
    by_cases hxa : x = a
    · subst hxa
      have : p = pa := by simpa [upd] using hx.symm
      subst this
      exact ⟨o, ha, by rw [map_mapRef_ext hcov hext]; exact hobj, fun r hr => covered_ext (hcov r hr) hext⟩
    · simp only [upd, hxa, if_false] at hx
      obtain ⟨o', h1, h2, h3⟩ := R.objs x p hx
      exact ⟨o', h1, by rw [map_mapRef_ext h3 hext]; exact h2, fun r hr => covered_ext (h3 r hr) hext⟩
  · intro x y p hx hy
    by_cases hxa : x = a <;> by_cases hya : y = a
    · rw [hxa, hya]
    · simp only [upd, hxa, hya, if_true, if_false] at hx hy
      cases hx; exact absurd hy (hfresh y)
    · simp only [upd, hxa, hya, if_true, if_false] at hx hy
      cases hy; exact absurd hx (hfresh x)
    · simp only [upd, hxa, hya, if_false] at hx hy
      exact R.inj x y p hx hy
  · intro x k hk
    simp only [newRefs]
    by_cases hxa : x = a
    · subst hxa
      simp [hk, upd, List.lookup]
    · simp only [upd, hxa, if_false]
      cases hca : C.lookup a with
      | none => exact R.refs x k hk
      | some k' =>
        have hkk : k ≠ k' := fun e => hxa (hCinj x a k hk (e ▸ hca))
        simp only [List.lookup]
        have : (Atom.int (k : Int) == Atom.int (k' : Int)) = false := by
          simp; omega
        rw [this]
        exact R.refs x k hk


theorem mapS_length {α β σ : Type} {f : α → σ → Except Err (β × σ)} :
    ∀ (xs : List α) (s s' : σ) (ts : List β), mapS f xs s = .ok (ts, s') → ts.length = xs.length := by
  intro xs
  induction xs with
  | nil => intro s s' ts hm; simp only [mapS, Except.ok.injEq, Prod.mk.injEq] at hm; rw [← hm.1]; rfl
  | cons x xs ih =>
    intro s s' ts hm
    obtain ⟨y, s1, ys, _, h2, rfl⟩ := mapS_cons_ok hm
    simp [ih s1 s' ys h2]

theorem renderL_length (env : Env) (C : List (Addr × Nat)) : ∀ ts : List JT, (renderL env C ts).length = ts.length := by
  intro ts
  induction ts with
  | nil => simp [renderL]
  | cons t ts ih => simp [renderL, ih]

/-- the optional `[reference, n, body]` wrapper around the jelly of a finished object -/
theorem unj_first_wrap {env : Env} {C : List (Addr × Nat)} {a : Addr} {sh : Shape} {ts : List JT} {sU sU' : USt} {pa : Addr}
    (hbody : unj env (.list (bsym (tagOf env sh) :: wrapKids sh (renderL env C ts))) sU = .ok (.ptr pa, sU'))
    (hnk : ∀ (p : Addr) (o : DObj), sU'.heap[p]? = some o → o.isNK = false)
    (href : ∀ k, C.lookup a = some k → sU'.refs.lookup (Atom.int k) = none) :
    unj env (render env C (.first a sh ts)) sU = .ok (.ptr pa, { sU' with refs := newRefs C a pa sU'.refs }) := by
  rw [render]
  cases hca : C.lookup a with
  | none => simp only [newRefs, hca]; exact hbody
  | some k =>
    simp only [newRefs, hca]
    rw [unj_tagged, classify_reference]
    simp only []
    rw [bind_ok hbody]
    simp only [bindReference]
    have h1 : getRef (Atom.int k) sU' = .ok (none, sU') := by simp [getRef, href k hca]
    rw [bind_ok h1]
    simp only []
    have h2 : setRef (Atom.int k) (Ref.ptr pa) sU' = .ok ((), { sU' with refs := (Atom.int k, Ref.ptr pa) :: sU'.refs }) := rfl
    rw [bind_ok h2]
    have h3 : isNK (Ref.ptr pa) { sU' with refs := (Atom.int k, Ref.ptr pa) :: sU'.refs } =
        .ok (false, { sU' with refs := (Atom.int k, Ref.ptr pa) :: sU'.refs }) := by
      simp [isNK, nkIn_false hnk]
    rw [bind_ok h3]
    rfl

/-- what unjellying the body `[tag, kid…]` of a first visit establishes -/
def BodyPost (env : Env) (h : Heap) (C : List (Addr × Nat)) (sJ' : JSt) (sU : USt) (φ : Addr → Option Addr)
    (stack : List Addr) (a : Addr) (o : Obj) (ts : List JT) : Prop :=
  ∃ sU' φk pa, unj env (.list (bsym (tagOf env o.shape) :: wrapKids o.shape (renderL env C ts))) sU = .ok (.ptr pa, sU') ∧
    Rel h C sJ' sU' φk (a :: stack) ∧
    sU'.heap[pa]? = some (.obj o.shape (o.kids.map (mapRef φk))) ∧ (∀ r ∈ o.kids, Covered φk r) ∧
    Ext φ φk ∧ GrowsX none sU φ sU' φk ∧ (∀ x, φk x ≠ some pa) ∧ sU.heap.length ≤ pa

theorem growsX_of_alloc {sU s1 : USt} {φ φ1 : Addr → Option Addr} (d : DObj)
    (g : GrowsX (some sU.heap.length) { sU with heap := sU.heap ++ [d] } φ s1 φ1) : GrowsX none sU φ s1 φ1 := by
  refine ⟨Nat.le_trans (by simp) g.1, ?_, ?_⟩
  · intro j hj _
    have hne : some j ≠ some sU.heap.length := by simp; omega
    rw [g.2.1 j (by simp; omega) hne]
    simp [List.getElem?_append_left hj]
  · intro x q hq
    rcases g.2.2 x q hq with h' | h'
    · exact Or.inl h'
    · right; simp at h'; omega

/-- list, tuple, set, frozenset: `l = list(range(len(lst)))`, the `unjellyInto` loop, then `tuple(l)` / … -/
theorem body_seq {env : Env} {h : Heap} {C : List (Addr × Nat)} {rk : Addr → Nat} {n : Nat}
    (hstep : Step env h C rk n) {sJ1 sJ' : JSt} {sU : USt} {φ : Addr → Option Addr} {stack : List Addr}
    {a : Addr} {o : Obj} {ts : List JT}
    (hsh : o.shape = .list ∨ o.shape = .tuple ∨ o.shape = .set ∨ o.shape = .frozenset)
    (hm : mapS (jelly env h n) o.kids sJ1 = .ok (ts, sJ'))
    (R : Rel h C sJ1 sU φ (a :: stack))
    (hC : ∀ a k, sJ'.cooked.lookup a = some k → C.lookup a = some k)
    (hks : ∀ r ∈ o.kids, (∀ b, r = .ptr b → ∀ c ∈ a :: stack, rk b < rk c) ∧ RefOK r) :
    BodyPost env h C sJ' sU φ stack a o ts := by
  have hlen : (renderL env C ts).length = o.kids.length := by
    rw [renderL_length, mapS_length _ _ _ _ hm]
  let s0 : USt := { sU with heap := sU.heap ++ [.obj .list (rangeRefs o.kids.length)] }
  have R0 : Rel h C sJ1 s0 φ (a :: stack) := rel_alloc R _ _
  have hp0 : s0.heap[sU.heap.length]? = some (.obj .list ([] ++ rangeRefs o.kids.length)) := by
    simp [s0]
  have hfresh0 : ∀ x, φ x ≠ some sU.heap.length := fun x hx => Nat.lt_irrefl _ (R.lt hx)
  obtain ⟨s1, φ1, hu, R1, hcov, hext, hg, hp1, hfresh1⟩ :=
    loop_ok hstep o.kids sJ1 ts sJ' hm s0 φ (a :: stack) sU.heap.length [] (rangeRefs o.kids.length) R0 hC hks hp0
      (by simp [rangeRefs]) hfresh0
  have hg' : GrowsX none sU φ s1 φ1 := growsX_of_alloc _ hg
  have halloc : alloc (.obj .list (rangeRefs (renderL env C ts).length)) sU = .ok (sU.heap.length, s0) := by
    rw [hlen]; rfl
  have hwrap : wrapKids o.shape (renderL env C ts) = renderL env C ts := by
    rcases hsh with e | e | e | e <;> rw [e] <;> rfl
  simp only [List.nil_append, List.length_nil] at hp1 hu
  rcases hsh with e | e | e | e
  · refine ⟨s1, φ1, sU.heap.length, ?_, R1, by rw [e]; exact hp1, hcov, hext, hg', hfresh1, Nat.le_refl _⟩
    rw [hwrap, e]
    simp only [tagOf]
    rw [unj_tagged, classify_list]
    simp only []
    rw [bind_ok halloc, bind_ok hu]
    rfl
  all_goals
    refine ⟨{ s1 with heap := s1.heap ++ [.obj o.shape (o.kids.map (mapRef φ1))] }, φ1, s1.heap.length, ?_,
      rel_alloc R1 _ _, by simp, hcov, hext, ?_, fun x hx => Nat.lt_irrefl _ (R1.lt hx), hg'.1⟩
    · rw [hwrap, e]
      simp only [tagOf]
      rw [unj_tagged]
      first | rw [classify_tuple] | rw [classify_set] | rw [classify_frozenset]
      simp only []
      rw [bind_ok halloc, bind_ok hu]
      simp only [finishSeq, Bool.false_eq_true, if_false]
      rw [bind_ok (kidsOf_run hp1)]
      rfl
    · refine ⟨Nat.le_trans hg'.1 (by simp), ?_, hg'.2.2⟩
      intro j hj hx
      rw [← hg'.2.1 j hj hx]
      simp [List.getElem?_append_left (Nat.lt_of_lt_of_le hj hg'.1)]


theorem mapS_single {α β σ : Type} {f : α → σ → Except Err (β × σ)} {x : α} {s s' : σ} {ts : List β}
    (hm : mapS f [x] s = .ok (ts, s')) : ∃ y, f x s = .ok (y, s') ∧ ts = [y] := by
  obtain ⟨y, s1, ys, h1, h2, rfl⟩ := mapS_cons_ok hm
  simp only [mapS, Except.ok.injEq, Prod.mk.injEq] at h2
  obtain ⟨rfl, rfl⟩ := h2
  exact ⟨y, h1, rfl⟩

/-- instances: `_genericUnjelly(clz, state)` -/
theorem body_inst {env : Env} {h : Heap} {C : List (Addr × Nat)} {rk : Addr → Nat} {n : Nat}
    (hwf : WF env h rk) (hstep : Step env h C rk n) {sJ1 sJ' : JSt} {sU : USt} {φ : Addr → Option Addr} {stack : List Addr}
    {a : Addr} {o : Obj} {ts : List JT} {c : ObjId} (ha : h[a]? = some o)
    (hsh : o.shape = .inst c)
    (hm : mapS (jelly env h n) o.kids sJ1 = .ok (ts, sJ'))
    (R : Rel h C sJ1 sU φ (a :: stack))
    (hC : ∀ a k, sJ'.cooked.lookup a = some k → C.lookup a = some k)
    (hks : ∀ r ∈ o.kids, (∀ b, r = .ptr b → ∀ c ∈ a :: stack, rk b < rk c) ∧ RefOK r) :
    BodyPost env h C sJ' sU φ stack a o ts := by
  obtain ⟨sh, kids⟩ := o
  simp only at hsh hm hks
  subst hsh
  obtain ⟨st, rfl, hres, hcls, hstate⟩ := hwf.inst a c kids ha
  obtain ⟨t1, hj, rfl⟩ := mapS_single hm
  obtain ⟨sU1, φ1, hu, R1, hcov, hext, hg⟩ :=
    hstep st sJ1 t1 sJ' hj sU φ (a :: stack) R hC (hks st (by simp)).1 (hks st (by simp)).2
  have hnew : newInstance env c (mapRef φ1 st) sU1 =
      .ok (.ptr sU1.heap.length, { sU1 with heap := sU1.heap ++ [.obj (.inst c) [mapRef φ1 st]] }) := by
    simp only [newInstance]
    cases hss : env.hasSetstate c with
    | true => simp
    | false =>
      simp only [Bool.false_eq_true, if_false]
      rcases hstate hss with rfl | ⟨d, k, ks', rfl, hd⟩
      · rfl
      · obtain ⟨q, hq⟩ := hcov
        obtain ⟨o', h1, h2, _⟩ := R1.objs d q hq
        rw [hd] at h1
        cases h1
        simp only [mapRef, hq, Option.getD_some, h2, List.map_cons]
  refine ⟨{ sU1 with heap := sU1.heap ++ [.obj (.inst c) [mapRef φ1 st]] }, φ1, sU1.heap.length, ?_,
    rel_alloc R1 _ _, by simp, by simpa using hcov, hext, ?_, fun x hx => Nat.lt_irrefl _ (R1.lt hx), hg.1⟩
  · simp only [tagOf, wrapKids, renderL]
    rw [unj_tagged, hcls]
    simp only [hres]
    rw [bind_ok hu]
    exact hnew
  · refine ⟨Nat.le_trans hg.1 (by simp), ?_, hg.2.2⟩
    intro j hj hx
    rw [← hg.2.1 j hj hx]
    simp [List.getElem?_append_left (Nat.lt_of_lt_of_le hj hg.1)]


theorem allAtoms_map (args : List Atom) : allAtoms (args.map Sexp.atom) = some args := by
  induction args with
  | nil => rfl
  | cons a as ih => simp [allAtoms, ih]

/-- the body lemma for dictionaries, as a parameter of the induction step -/
def DictBody (env : Env) (h : Heap) (C : List (Addr × Nat)) (rk : Addr → Nat) (n : Nat) : Prop :=
  ∀ {sJ1 sJ' : JSt} {sU : USt} {φ : Addr → Option Addr} {stack : List Addr} {a : Addr} {o : Obj} {ts : List JT},
    h[a]? = some o → o.shape = .dict →
    mapS (jelly env h n) o.kids sJ1 = .ok (ts, sJ') →
    Rel h C sJ1 sU φ (a :: stack) →
    (∀ a k, sJ'.cooked.lookup a = some k → C.lookup a = some k) →
    (∀ r ∈ o.kids, (∀ b, r = .ptr b → ∀ c ∈ a :: stack, rk b < rk c) ∧ RefOK r) →
    BodyPost env h C sJ' sU φ stack a o ts

theorem deref_run {env : Env} {sU : USt} {k : Nat} {p : Addr} (hl : sU.refs.lookup (Atom.int k) = some (.ptr p)) :
    unj env (.list [bsym tDereference, .atom (.int k)]) sU = .ok (.ptr p, sU) := by
  rw [unj_tagged, classify_dereference]
  simp only [doDereference]
  have h1 : getRef (Atom.int k) sU = .ok (some (.ptr p), sU) := by simp [getRef, hl]
  rw [bind_ok h1]
  rfl

theorem step_succ {env : Env} {h : Heap} {C : List (Addr × Nat)} {rk : Addr → Nat} {n : Nat}
    (hwf : WF env h rk) (hCinj : ∀ x y k, C.lookup x = some k → C.lookup y = some k → x = y)
    (hstep : Step env h C rk n) (hdict : DictBody env h C rk n) : Step env h C rk (n + 1) := by
  intro r sJ t sJ' hj sU φ stack R hC hrk hok
  have hgrefl : GrowsX none sU φ sU φ := ⟨Nat.le_refl _, fun _ _ _ => rfl, fun _ _ hq => Or.inl hq⟩
  cases r with
  | imm i =>
    simp only [jelly, Except.ok.injEq, Prod.mk.injEq] at hj
    obtain ⟨rfl, rfl⟩ := hj
    refine ⟨sU, φ, ?_, R, trivial, Ext.refl φ, hgrefl⟩
    cases i with
    | atom x => simp only [render, renderImm]; rw [unj]; rfl
    | leaf tag args =>
      simp only [render, renderImm]
      rw [unj_tagged, classify_leaf hok]
      simp only [allAtoms_map]
      rfl
  | ptr a =>
    simp only [jelly] at hj
    split at hj
    · simp at hj
    · rename_i o ha
      -- a back reference can only be to a finished object: the stack holds objects of greater rank
      have hback : a ∈ sJ.preserved → ∃ p, φ a = some p := by
        intro hp
        rcases (R.pres a).mp hp with hp | hp
        · exact hp
        · exact absurd (hrk a rfl a hp) (Nat.lt_irrefl _)
      split at hj
      · rename_i k hck
        simp only [Except.ok.injEq, Prod.mk.injEq] at hj
        obtain ⟨rfl, rfl⟩ := hj
        obtain ⟨p, hp⟩ := hback (R.ck a k hck)
        have hl : sU.refs.lookup (Atom.int k) = some (.ptr p) := by rw [R.refs a k (hC a k hck), hp]; rfl
        refine ⟨sU, φ, ?_, R, ⟨p, hp⟩, Ext.refl φ, hgrefl⟩
        simp only [render, mapRef, hp, Option.getD_some]
        exact deref_run hl
      · rename_i hck
        split at hj
        · rename_i hpres
          simp only [Except.ok.injEq, Prod.mk.injEq] at hj
          obtain ⟨rfl, rfl⟩ := hj
          obtain ⟨p, hp⟩ := hback hpres
          have hca : C.lookup a = some sJ.refId := hC a sJ.refId (by simp [List.lookup])
          have hl : sU.refs.lookup (Atom.int sJ.refId) = some (.ptr p) := by rw [R.refs a _ hca, hp]; rfl
          refine ⟨sU, φ, ?_, ?_, ⟨p, hp⟩, Ext.refl φ, hgrefl⟩
          · simp only [render, mapRef, hp, Option.getD_some]
            exact deref_run hl
          · refine ⟨R.pres, R.stk, R.objs, R.inj, R.refs, R.nonk, ?_⟩
            intro b k hb
            simp only [List.lookup] at hb
            split at hb
            · rename_i heq
              have : b = a := by simpa using heq
              rw [this]; exact hpres
            · exact R.ck b k hb
        · rename_i hpres
          split at hj
          · rename_i hcls
            split at hj
            · simp at hj
            · rename_i ts s2 hm
              simp only [Except.ok.injEq, Prod.mk.injEq] at hj
              obtain ⟨rfl, rfl⟩ := hj
              have hnot : a ∉ stack := fun hs => hpres ((R.pres a).mpr (Or.inr hs))
              have hnone : φ a = none := by
                cases hφ : φ a with
                | none => rfl
                | some p => exact absurd ((R.pres a).mpr (Or.inl ⟨p, hφ⟩)) hpres
              have R1 : Rel h C { sJ with preserved := a :: sJ.preserved } sU φ (a :: stack) := by
                refine ⟨?_, ?_, R.objs, R.inj, R.refs, R.nonk, ?_⟩
                · intro x
                  simp only [List.mem_cons, R.pres x]
                  constructor
                  · rintro (hx | hx | hx)
                    · exact Or.inr (Or.inl hx)
                    · exact Or.inl hx
                    · exact Or.inr (Or.inr hx)
                  · rintro (hx | hx | hx)
                    · exact Or.inr (Or.inl hx)
                    · exact Or.inl hx
                    · exact Or.inr (Or.inr hx)
                · intro x hx
                  rcases List.mem_cons.mp hx with rfl | hx
                  · exact hnone
                  · exact R.stk x hx
                · intro b k hb
                  exact List.mem_cons_of_mem _ (R.ck b k hb)
              have hks : ∀ r ∈ o.kids, (∀ b, r = .ptr b → ∀ c ∈ a :: stack, rk b < rk c) ∧ RefOK r := by
                intro r hr
                refine ⟨?_, hwf.leaves a o ha r hr⟩
                intro b hb c hc
                subst hb
                have h1 := hwf.acyclic a o ha b hr
                rcases List.mem_cons.mp hc with rfl | hc
                · exact h1
                · exact Nat.lt_trans h1 (hrk a rfl c hc)
              have hbody : BodyPost env h C s2 sU φ stack a o ts := by
                cases hsh : o.shape with
                | list => exact body_seq hstep (Or.inl hsh) hm R1 hC hks
                | tuple => exact body_seq hstep (Or.inr (Or.inl hsh)) hm R1 hC hks
                | set => exact body_seq hstep (Or.inr (Or.inr (Or.inl hsh))) hm R1 hC hks
                | frozenset => exact body_seq hstep (Or.inr (Or.inr (Or.inr hsh))) hm R1 hC hks
                | dict => exact hdict ha hsh hm R1 hC hks
                | inst c => exact body_inst hwf hstep ha hsh hm R1 hC hks
              obtain ⟨sU', φk, pa, hu, Rk, hobj, hcov, hext, hg, hfresh, hge⟩ := hbody
              obtain ⟨R', hext'⟩ := rel_finish hCinj Rk hnot ha hobj hcov hfresh
              have hna : φk a = none := Rk.stk a List.mem_cons_self
              refine ⟨{ sU' with refs := newRefs C a pa sU'.refs }, upd φk a pa, ?_, R', ⟨pa, by simp [upd]⟩,
                hext.trans hext', ?_⟩
              · have : mapRef (upd φk a pa) (.ptr a) = .ptr pa := by simp [mapRef, upd]
                rw [this]
                refine unj_first_wrap hu Rk.nonk ?_
                intro k hk
                rw [Rk.refs a k hk, hna]; rfl
              · refine ⟨hg.1, hg.2.1, ?_⟩
                intro x q hq
                by_cases hxa : x = a
                · subst hxa
                  have : q = pa := by simpa [upd] using hq.symm
                  rw [this]; exact Or.inr hge
                · simp only [upd, hxa, if_false] at hq
                  exact hg.2.2 x q hq
          · simp at hj

theorem step_zero {env : Env} {h : Heap} {C : List (Addr × Nat)} {rk : Addr → Nat} : Step env h C rk 0 := by
  intro r sJ t sJ' hj
  simp [jelly] at hj


/-! ### reference ids are distinct -/

def CI (s : JSt) : Prop :=
  (∀ a k, s.cooked.lookup a = some k → k < s.refId) ∧
  (∀ x y k, s.cooked.lookup x = some k → s.cooked.lookup y = some k → x = y)

theorem mapS_ci {env : Env} {h : Heap} {n : Nat}
    (ih : ∀ r s t s', jelly env h n r s = .ok (t, s') → CI s → CI s') :
    ∀ ks s ts s', mapS (jelly env h n) ks s = .ok (ts, s') → CI s → CI s' := by
  intro ks
  induction ks with
  | nil => intro s ts s' hm hc; simp only [mapS, Except.ok.injEq, Prod.mk.injEq] at hm; rw [← hm.2]; exact hc
  | cons x xs ihx =>
    intro s ts s' hm hc
    obtain ⟨y, s1, ys, h1, h2, _⟩ := mapS_cons_ok hm
    exact ihx s1 ys s' h2 (ih x s y s1 h1 hc)

theorem jelly_ci (env : Env) (h : Heap) : ∀ n r s t s', jelly env h n r s = .ok (t, s') → CI s → CI s' := by
  intro n
  induction n with
  | zero => intro r s t s' hj; simp [jelly] at hj
  | succ n ih =>
    intro r s t s' hj hc
    cases r with
    | imm i => simp only [jelly, Except.ok.injEq, Prod.mk.injEq] at hj; rw [← hj.2]; exact hc
    | ptr a =>
      simp only [jelly] at hj
      split at hj
      · simp at hj
      · split at hj
        · simp only [Except.ok.injEq, Prod.mk.injEq] at hj; rw [← hj.2]; exact hc
        · rename_i hck
          split at hj
          · simp only [Except.ok.injEq, Prod.mk.injEq] at hj
            rw [← hj.2]
            have key : ∀ b k, List.lookup b ((a, s.refId) :: s.cooked) = some k →
                (b = a ∧ k = s.refId) ∨ (b ≠ a ∧ s.cooked.lookup b = some k) := by
              intro b k hb
              simp only [List.lookup] at hb
              split at hb
              · rename_i heq
                have : b = a := by simpa using heq
                left; exact ⟨this, by cases hb; rfl⟩
              · rename_i hne
                right; exact ⟨by simpa using hne, hb⟩
            refine ⟨?_, ?_⟩
            · intro b k hb
              rcases key b k hb with ⟨_, rfl⟩ | ⟨_, hb'⟩
              · exact Nat.lt_succ_self _
              · exact Nat.lt_succ_of_lt (hc.1 b k hb')
            · intro x y k hx hy
              rcases key x k hx with ⟨rfl, rfl⟩ | ⟨_, hx'⟩ <;> rcases key y _ hy with ⟨rfl, hk⟩ | ⟨_, hy'⟩
              · rfl
              · exact absurd (hc.1 y _ hy') (Nat.lt_irrefl _)
              · rw [hk] at hx'; exact absurd (hc.1 x _ hx') (Nat.lt_irrefl _)
              · exact hc.2 x y k hx' hy'
          · split at hj
            · split at hj
              · simp at hj
              · rename_i ks s2 hm
                simp only [Except.ok.injEq, Prod.mk.injEq] at hj
                rw [← hj.2]
                exact mapS_ci ih _ _ _ _ hm hc
            · simp at hj

/-! ### the round trip -/

/-- the unjellied graph `(H, r')` is a copy of the graph `(h, root)`: an injective renaming `φ` of the objects
    reachable from `root` (its domain contains `root` and is closed under `kids`) that commutes with the heaps -
    same shapes, same leaves, same sharing -/
def Iso (h : Heap) (root : Ref) (H : List DObj) (r' : Ref) : Prop :=
  ∃ φ : Addr → Option Addr, r' = mapRef φ root ∧ Covered φ root ∧
    (∀ a b p, φ a = some p → φ b = some p → a = b) ∧
    ∀ a p, φ a = some p → ∃ o : Obj, h[a]? = some o ∧
      H[p]? = some (.obj o.shape (o.kids.map (mapRef φ))) ∧ ∀ r ∈ o.kids, Covered φ r

theorem step_all {env : Env} {h : Heap} {C : List (Addr × Nat)} {rk : Addr → Nat}
    (hwf : WF env h rk) (hCinj : ∀ x y k, C.lookup x = some k → C.lookup y = some k → x = y)
    (hdict : ∀ n, Step env h C rk n → DictBody env h C rk n) : ∀ n, Step env h C rk n := by
  intro n
  induction n with
  | zero => exact step_zero
  | succ n ih => exact step_succ hwf hCinj ih (hdict n ih)

theorem roundtrip_of_dictBody {env : Env} {h : Heap} {rk : Addr → Nat} (hwf : WF env h rk)
    (hdict : ∀ C n, Step env h C rk n → DictBody env h C rk n)
    (root : Ref) (hroot : RefOK root) (fuel : Nat) (t : JT) (sJ : JSt)
    (hj : jelly env h fuel root {} = .ok (t, sJ)) :
    ∃ r' sU, unjelly env (render env sJ.cooked t) = .ok (r', sU) ∧ Iso h root sU.heap r' := by
  have hci : CI sJ := jelly_ci env h fuel root {} t sJ hj ⟨by simp, by simp⟩
  have hst := step_all (C := sJ.cooked) hwf hci.2 (hdict sJ.cooked) fuel
  have R0 : Rel h sJ.cooked {} {} (fun _ => none) [] :=
    ⟨by simp, by simp, by simp, by simp, by simp, by simp, by simp⟩
  obtain ⟨sU', φ', hu, R', hcov, _, _⟩ :=
    hst root {} t sJ hj {} (fun _ => none) [] R0 (fun _ _ hk => hk) (by simp) hroot
  exact ⟨mapRef φ' root, sU', hu, φ', rfl, hcov, R'.inj, R'.objs⟩


/-! ### dictionaries -/

theorem keysOf_map (f : Ref → Ref) : ∀ l, keysOf (l.map f) = (keysOf l).map f
  | [] => rfl
  | [_] => rfl
  | k :: v :: rest => by simp [keysOf, keysOf_map f rest]

theorem storeKV_append (k v : Ref) : ∀ l : List Ref, l.length % 2 = 0 → k ∉ keysOf l → storeKV l k v = l ++ [k, v]
  | [], _, _ => rfl
  | [_], h, _ => by simp at h
  | k' :: v' :: rest, h, hk => by
    simp only [keysOf, List.mem_cons, not_or] at hk
    have hne : ¬ k' = k := fun e => hk.1 e.symm
    have hl : rest.length % 2 = 0 := by simp at h; omega
    simp [storeKV, hne, storeKV_append k v rest hl hk.2]

theorem keysOf_append (l2 : List Ref) : ∀ l1 : List Ref, l1.length % 2 = 0 → keysOf (l1 ++ l2) = keysOf l1 ++ keysOf l2
  | [], _ => rfl
  | [_], h => by simp at h
  | k :: v :: rest, h => by
    have hl : rest.length % 2 = 0 := by simp at h; omega
    simp [keysOf, keysOf_append l2 rest hl]

theorem mem_of_mem_keysOf {r : Ref} : ∀ l : List Ref, r ∈ keysOf l → r ∈ l
  | [], h => by simp [keysOf] at h
  | [_], h => by simp [keysOf] at h
  | k :: v :: rest, h => by
    simp only [keysOf, List.mem_cons] at h
    rcases h with rfl | h
    · simp
    · have := mem_of_mem_keysOf rest h
      simp [this]

theorem mapRef_inj {φ : Addr → Option Addr} (hinj : ∀ a b p, φ a = some p → φ b = some p → a = b)
    {r1 r2 : Ref} (h1 : Covered φ r1) (h2 : Covered φ r2) (he : mapRef φ r1 = mapRef φ r2) : r1 = r2 := by
  cases r1 with
  | imm i => cases r2 with
    | imm j => simpa [mapRef] using he
    | ptr b => simp [mapRef] at he
  | ptr a => cases r2 with
    | imm j => simp [mapRef] at he
    | ptr b =>
      obtain ⟨p, hp⟩ := h1
      obtain ⟨q, hq⟩ := h2
      simp only [mapRef, hp, hq, Option.getD_some, Ref.ptr.injEq] at he
      subst he
      rw [hinj a b p hp hq]


theorem lt_of_getElem? {l : List DObj} {p : Addr} {d : DObj} (hp : l[p]? = some d) : p < l.length := by
  rcases Nat.lt_or_ge p l.length with hlt | hge
  · exact hlt
  · simp [List.getElem?_eq_none hge] at hp

/-- the loop of `_unjelly_dictionary` -/
theorem dict_ok {env : Env} {h : Heap} {C : List (Addr × Nat)} {rk : Addr → Nat} {n : Nat}
    (hstep : Step env h C rk n) :
    ∀ m ks sJ ts sJ', ks.length = 2 * m → mapS (jelly env h n) ks sJ = .ok (ts, sJ') →
    ∀ sU φ stack p src, Rel h C sJ sU φ stack →
      (∀ a k, sJ'.cooked.lookup a = some k → C.lookup a = some k) →
      (∀ r ∈ ks, (∀ a, r = .ptr a → ∀ b ∈ stack, rk a < rk b) ∧ RefOK r) →
      sU.heap[p]? = some (.obj .dict (src.map (mapRef φ))) → (∀ r ∈ src, Covered φ r) → src.length % 2 = 0 →
      (keysOf (src ++ ks)).Nodup → (∀ a, φ a ≠ some p) →
    ∃ sU' φ', unjDict env p (pairUp (renderL env C ts)) sU = .ok ((), sU') ∧ Rel h C sJ' sU' φ' stack ∧
      (∀ r ∈ ks, Covered φ' r) ∧ Ext φ φ' ∧ GrowsX (some p) sU φ sU' φ' ∧
      sU'.heap[p]? = some (.obj .dict ((src ++ ks).map (mapRef φ'))) ∧ (∀ a, φ' a ≠ some p) := by
  intro m
  induction m with
  | zero =>
    intro ks sJ ts sJ' hlen hm sU φ stack p src R hC hks hp hsrc hev hnd hfresh
    have : ks = [] := List.eq_nil_of_length_eq_zero (by simpa using hlen)
    subst this
    simp only [mapS, Except.ok.injEq, Prod.mk.injEq] at hm
    obtain ⟨rfl, rfl⟩ := hm
    refine ⟨sU, φ, ?_, R, by simp, Ext.refl φ, ⟨Nat.le_refl _, fun _ _ _ => rfl, fun _ _ hq => Or.inl hq⟩,
      by simpa using hp, hfresh⟩
    simp only [renderL, pairUp]
    rw [unjDict]
    rfl
  | succ m ih =>
    intro ks sJ ts sJ' hlen hm sU φ stack p src R hC hks hp hsrc hev hnd hfresh
    match ks, hlen with
    | k :: v :: rest, hlen =>
    obtain ⟨tk, sJ1, ts1, hjk, hm1, rfl⟩ := mapS_cons_ok hm
    obtain ⟨tv, sJ2, ts2, hjv, hm2, rfl⟩ := mapS_cons_ok hm1
    have hmono2 : Mono sJ2 sJ' := mapS_mono (jelly_mono env h n) _ _ _ _ hm2
    have hmono1 : Mono sJ1 sJ2 := jelly_mono env h n _ _ _ _ hjv
    have hkk := hks k (by simp)
    have hkv := hks v (by simp)
    obtain ⟨sU1, φ1, hu1, R1, hcov1, hext1, hg1⟩ :=
      hstep k sJ tk sJ1 hjk sU φ stack R (fun a c hc => hC a c (hmono2 a c (hmono1 a c hc))) hkk.1 hkk.2
    obtain ⟨sU2, φ2, hu2, R2, hcov2, hext2, hg2⟩ :=
      hstep v sJ1 tv sJ2 hjv sU1 φ1 stack R1 (fun a c hc => hC a c (hmono2 a c hc)) hkv.1 hkv.2
    have hg12 : GrowsX none sU φ sU2 φ2 := growsX_trans hg1 hg2
    have hext12 : Ext φ φ2 := hext1.trans hext2
    have hplt : p < sU.heap.length := lt_of_getElem? hp
    have hp2 : sU2.heap[p]? = some (.obj .dict (src.map (mapRef φ2))) := by
      rw [hg12.2.1 p hplt (by simp), hp, map_mapRef_ext hsrc hext12]
    have hfresh2 : ∀ a, φ2 a ≠ some p := by
      intro a ha
      rcases hg12.2.2 a p ha with h' | h'
      · exact hfresh a h'
      · exact absurd hplt (Nat.not_lt.mpr h')
    have hko : mapRef φ1 k = mapRef φ2 k := (mapRef_ext hcov1 hext2).symm
    have hcovk2 : Covered φ2 k := covered_ext hcov1 hext2
    have hsrc2 : ∀ r ∈ src, Covered φ2 r := fun r hr => covered_ext (hsrc r hr) hext12
    have hkeys : keysOf (src ++ k :: v :: rest) = keysOf src ++ k :: keysOf rest := by
      rw [keysOf_append _ src hev]; rfl
    have hknot : mapRef φ2 k ∉ keysOf (src.map (mapRef φ2)) := by
      rw [keysOf_map]
      intro hmem
      obtain ⟨r, hr, he⟩ := List.mem_map.mp hmem
      have hrk : r = k := mapRef_inj R2.inj (hsrc2 r (mem_of_mem_keysOf src hr)) hcovk2 he
      rw [hkeys] at hnd
      have := (List.nodup_append.mp hnd).2.2 r (hrk ▸ hr) k (by simp)
      exact this hrk
    have hstore : storeKV (src.map (mapRef φ2)) (mapRef φ2 k) (mapRef φ2 v) = (src ++ [k, v]).map (mapRef φ2) := by
      rw [storeKV_append _ _ _ (by simpa using hev) hknot]; simp
    let sU3 : USt := { sU2 with heap := sU2.heap.set p (.obj .dict ((src ++ [k, v]).map (mapRef φ2))) }
    have R3 : Rel h C sJ2 sU3 φ2 stack := rel_setHeap R2 hfresh2 _ _
    have hp3 : sU3.heap[p]? = some (.obj .dict ((src ++ [k, v]).map (mapRef φ2))) := by
      have : p < sU2.heap.length := Nat.lt_of_lt_of_le hplt hg12.1
      simp [sU3, this]
    have hlen' : rest.length = 2 * m := by simp at hlen; omega
    obtain ⟨sU4, φ4, hu4, R4, hcov4, hext4, hg4, hp4, hfresh4⟩ :=
      ih rest sJ2 ts2 sJ' hlen' hm2 sU3 φ2 stack p (src ++ [k, v]) R3 hC
        (fun r hr => hks r (by simp [hr])) hp3
        (by intro r hr; rcases List.mem_append.mp hr with hr | hr
            · exact hsrc2 r hr
            · simp at hr; rcases hr with rfl | rfl
              · exact hcovk2
              · exact hcov2)
        (by simp; omega) (by simpa using hnd) hfresh2
    refine ⟨sU4, φ4, ?_, R4, ?_, hext12.trans hext4, ?_, by simpa using hp4, hfresh4⟩
    · simp only [renderL, pairUp]
      rw [unjDict, bind_ok hu1]
      have hnk1 : isNK (mapRef φ1 k) sU1 = .ok (false, sU1) := by simp [isNK, nkIn_false R1.nonk]
      rw [bind_ok hnk1]
      simp only [Bool.false_eq_true, if_false]
      rw [bind_ok hu2]
      have hnk2 : isNK (mapRef φ2 v) sU2 = .ok (false, sU2) := by simp [isNK, nkIn_false R2.nonk]
      rw [bind_ok hnk2]
      simp only [Bool.false_eq_true, if_false]
      rw [hko, bind_ok (dictStore_run hp2 _ _), hstore]
      exact hu4
    · intro r hr
      simp only [List.mem_cons] at hr
      rcases hr with rfl | rfl | hr
      · exact covered_ext hcovk2 hext4
      · exact covered_ext hcov2 hext4
      · exact hcov4 r hr
    · have g3 : GrowsX (some p) sU2 φ2 sU3 φ2 := by
        refine ⟨by simp [sU3], ?_, fun _ _ hq => Or.inl hq⟩
        intro j _ hx
        have : p ≠ j := fun e => hx (by simp [e])
        simp [sU3, List.getElem?_set_ne this]
      exact growsX_trans (growsX_trans (growsX_weaken hg12) g3) hg4

theorem body_dict {env : Env} {h : Heap} {C : List (Addr × Nat)} {rk : Addr → Nat} {n : Nat}
    (hwf : WF env h rk) (hstep : Step env h C rk n) : DictBody env h C rk n := by
  intro sJ1 sJ' sU φ stack a o ts ha hsh hm R hC hks
  obtain ⟨sh, kids⟩ := o
  simp only at hsh hm hks
  subst hsh
  have hev := hwf.dictEven a kids ha
  have hnd := hwf.dictKeys a kids ha
  let s0 : USt := { sU with heap := sU.heap ++ [.obj .dict []] }
  have R0 : Rel h C sJ1 s0 φ (a :: stack) := rel_alloc R _ _
  have hp0 : s0.heap[sU.heap.length]? = some (.obj .dict (([] : List Ref).map (mapRef φ))) := by simp [s0]
  have hfresh0 : ∀ x, φ x ≠ some sU.heap.length := fun x hx => Nat.lt_irrefl _ (R.lt hx)
  obtain ⟨s1, φ1, hu, R1, hcov, hext, hg, hp1, hfresh1⟩ :=
    dict_ok hstep (kids.length / 2) kids sJ1 ts sJ' (by omega) hm s0 φ (a :: stack) sU.heap.length [] R0 hC hks hp0
      (by simp) (by simp) (by simpa using hnd) hfresh0
  refine ⟨s1, φ1, sU.heap.length, ?_, R1, by simpa using hp1, hcov, hext, growsX_of_alloc _ hg, hfresh1, Nat.le_refl _⟩
  simp only [tagOf, wrapKids]
  rw [unj_tagged, classify_dict]
  simp only []
  have halloc : alloc (.obj .dict []) sU = .ok (sU.heap.length, s0) := rfl
  rw [bind_ok halloc, bind_ok hu]
  rfl


/-- **Round trip, acyclic graphs with sharing.**  See `TwistedProps.C45.jelly_unjelly_roundtrip_partial`. -/
theorem roundtrip_acyclic {env : Env} {h : Heap} {rk : Addr → Nat} (hwf : WF env h rk)
    (root : Ref) (hroot : RefOK root) (fuel : Nat) (t : JT) (sJ : JSt)
    (hj : jelly env h fuel root {} = .ok (t, sJ)) :
    ∃ r' sU, unjelly env (render env sJ.cooked t) = .ok (r', sU) ∧ Iso h root sU.heap r' :=
  roundtrip_of_dictBody hwf (fun _ _ hs => body_dict hwf hs) root hroot fuel t sJ hj

end TwistedProps.C45.RT
