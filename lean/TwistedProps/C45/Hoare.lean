import TwistedModel.Spread.Jelly
/-!
Hoare-style reasoning for the unjellier monad `M` (C45): what the policy allows (`evOK`,
`labelOK`), the state invariant `Good`, the triple `Sat`, and its rules.
-/
namespace TwistedProps.C45
open Twisted.Spread.Jelly

/-- classes registered as unjellyable (`unjellyableRegistry`) or built by a registered factory -/
def regClasses (R : Registry) : List ObjId := R.classes.map (·.2.cls) ++ R.factories.map (·.2)

/-- the module name `m`, or a parent package of it (importing `a.b` imports `a`) -/
def nameOrParent (name m : String) : Prop :=
  name = m ∨ ∃ k, name = ".".intercalate ((splitName m).take k)

/-- the side effect is one the policy allows -/
def evOK (env : Env) : Event → Prop
  | .imp name ok => ok = true → ∃ m, env.P.isModuleAllowed m = true ∧ nameOrParent name m
  | .resolve name => env.P.isModuleAllowed name = true ∨ env.P.isModuleAllowed (modPrefix name) = true
  | .newInst c => env.P.isClassAllowed c = true ∨ c ∈ regClasses env.R

/-- the world object may appear in a result: an allowed module, an allowed class, or neither a
    module nor a class; an instance only of an allowed or registered class -/
def labelOK (env : Env) : Label → Prop
  | .obj id => (∃ m, env.P.isModuleAllowed m = true ∧ env.W.modObj m = id)
      ∨ env.P.isClassAllowed id = true
      ∨ (env.W.kind id ≠ .module ∧ ∀ b, env.W.kind id ≠ .cls b)
  | .instOf c => env.P.isClassAllowed c = true ∨ c ∈ regClasses env.R

def ValOK (env : Env) (v : Val) : Prop := ∀ l ∈ v.labels, labelOK env l
def ValsOK (env : Env) (vs : List Val) : Prop := ∀ l ∈ labelsL vs, labelOK env l

structure Good (env : Env) (s : St) : Prop where
  events : ∀ e ∈ s.events, evOK env e
  refs : ∀ kv ∈ s.refs, ValOK env kv.2

/-- from a good state, `m` ends in a good state (also when it raises) and a returned value satisfies `Q` -/
def Sat (env : Env) (Q : α → Prop) (m : M α) : Prop :=
  ∀ s, Good env s → Good env (m s).2 ∧ ∀ a, (m s).1 = .ok a → Q a

variable {env : Env}

theorem sat_pure {Q : α → Prop} {a : α} (h : Q a) : Sat env Q (pure a : M α) := by
  intro s hs
  exact ⟨hs, fun b hb => by cases hb; exact h⟩

theorem sat_raise {Q : α → Prop} {e : Err} : Sat env Q (raise e : M α) := by
  intro s hs
  exact ⟨hs, fun b hb => by cases hb⟩

theorem sat_bind {Q1 : α → Prop} {Q2 : β → Prop} {m : M α} {f : α → M β}
    (h1 : Sat env Q1 m) (h2 : ∀ a, Q1 a → Sat env Q2 (f a)) : Sat env Q2 (m >>= f) := by
  intro s hs
  have := h1 s hs
  show Good env (M.bind m f s).2 ∧ ∀ a, (M.bind m f s).1 = .ok a → Q2 a
  unfold M.bind
  rcases hm : m s with ⟨r, s'⟩
  rw [hm] at this
  cases r with
  | error e => exact ⟨this.1, fun a ha => by cases ha⟩
  | ok a => exact h2 a (this.2 a rfl) s' this.1

theorem sat_mono {Q Q' : α → Prop} {m : M α} (h : Sat env Q m) (hq : ∀ a, Q a → Q' a) : Sat env Q' m :=
  fun s hs => ⟨(h s hs).1, fun a ha => hq a ((h s hs).2 a ha)⟩

theorem sat_emit {e : Event} (h : evOK env e) : Sat env (fun _ => True) (emit e) := by
  intro s hs
  refine ⟨⟨?_, hs.refs⟩, fun _ _ => trivial⟩
  intro e' he'
  simp only [emit, List.mem_append, List.mem_singleton] at he'
  rcases he' with h' | rfl
  · exact hs.events e' h'
  · exact h

theorem sat_setQuirk : Sat env (fun _ => True) setQuirk :=
  fun _ hs => ⟨⟨hs.events, hs.refs⟩, fun _ _ => trivial⟩

theorem mem_of_lookup {k : Atom} {v : Val} : ∀ {l : List (Atom × Val)}, l.lookup k = some v → (k, v) ∈ l
  | [], h => by simp at h
  | (k', v') :: l, h => by
    simp only [List.lookup] at h
    split at h
    · rename_i heq
      have : k = k' := by simpa using heq
      cases h; subst this; exact List.mem_cons_self
    · exact List.mem_cons_of_mem _ (mem_of_lookup h)

theorem sat_getRef (k : Atom) : Sat env (fun o => ∀ v, o = some v → ValOK env v) (getRef k) := by
  intro s hs
  refine ⟨hs, fun a ha => ?_⟩
  simp only [getRef, Except.ok.injEq] at ha
  intro v hv
  subst ha
  exact hs.refs (k, v) (mem_of_lookup hv)

theorem sat_setRef {k : Atom} {v : Val} (h : ValOK env v) : Sat env (fun _ => True) (setRef k v) := by
  intro s hs
  refine ⟨⟨hs.events, ?_⟩, fun _ _ => trivial⟩
  intro kv hkv
  simp only [setRef, List.mem_cons] at hkv
  rcases hkv with rfl | h'
  · exact h
  · exact hs.refs kv h'

theorem sat_guard {c : Bool} {e : Err} : Sat env (fun _ => c = true) (guardM c e) := by
  unfold guardM
  split
  · exact sat_pure ‹_›
  · exact sat_raise

end TwistedProps.C45
