import TwistedProps.C45.Hoare
/-!
C45: every `_unjelly_*` handler, `reflect.named*`, `_newInstance` keep the invariant — given that
the recursive call (`rec`) does.
-/
namespace TwistedProps.C45
open Twisted.Spread.Jelly

variable {env : Env}

abbrev T {α : Type} : α → Prop := fun _ => True

theorem sat_whenM {c : Bool} {m : M Unit} (h : Sat env T m) : Sat env T (whenM c m) := by
  unfold whenM; split
  · exact h
  · exact sat_pure trivial

theorem sat_ite {α : Type} {Q : α → Prop} {c : Prop} [Decidable c] {a b : M α}
    (ha : Sat env Q a) (hb : Sat env Q b) : Sat env Q (if c then a else b) := by
  split <;> assumption

theorem sat_idx (xs : List Sexp) (i : Nat) : Sat env T (idx xs i) := by
  unfold idx; split
  · exact sat_pure trivial
  · exact sat_raise

theorem sat_refKey (s : Sexp) : Sat env T (refKey s) := by
  unfold refKey; split
  · exact sat_pure trivial
  · exact sat_raise

theorem sat_nativeString (s : Sexp) : Sat env T (nativeString s) := by
  unfold nativeString; split
  · split
    · exact sat_pure trivial
    · exact sat_raise
  · split
    · exact sat_pure trivial
    · exact sat_raise
  · exact sat_raise

theorem sat_typeKey (s : Sexp) : Sat env T (typeKey s) := by
  unfold typeKey; split
  · exact sat_pure trivial
  · exact sat_pure trivial
  · exact sat_raise

theorem sat_unpackPair (s : Sexp) : Sat env T (unpackPair s) := by
  unfold unpackPair; split
  · exact sat_pure trivial
  · exact sat_raise
  · exact sat_pure trivial
  · exact sat_raise
  · split
    · exact sat_pure trivial
    · exact sat_raise
  · exact sat_raise

theorem sat_classAllowedM (k : ObjId) :
    Sat env (fun b => b = true → env.P.isClassAllowed k = true) (classAllowedM env k) := by
  unfold classAllowedM; split
  · exact sat_raise
  · exact sat_pure (fun h => h)

/-! ### imports and `reflect` -/

theorem sat_pyImport {name : String}
    (h : ∃ m, env.P.isModuleAllowed m = true ∧ nameOrParent name m) : Sat env T (pyImport env name) := by
  unfold pyImport
  split
  · exact sat_raise
  · split
    · exact sat_emit (fun _ => h)
    · exact sat_bind (sat_emit (fun hf => by cases hf)) (fun _ _ => sat_raise)

theorem sat_getattrM (o : ObjId) (a : String) : Sat env T (getattrM env o a) := by
  unfold getattrM; split
  · exact sat_pure trivial
  · exact sat_raise

theorem sat_walk (o : ObjId) (as : List String) : Sat env T (walk env o as) := by
  induction as generalizing o with
  | nil => exact sat_pure trivial
  | cons a as ih =>
    unfold walk
    exact sat_bind (sat_getattrM o a) (fun o' _ => ih o')

theorem sat_namedModule {name : String} (h : env.P.isModuleAllowed name = true) :
    Sat env T (namedModule env name) := by
  unfold namedModule
  exact sat_bind (sat_pyImport ⟨name, h, Or.inl rfl⟩) (fun _ _ => sat_walk _ _)

theorem sat_namedObject {name : String} (h : env.P.isModuleAllowed (modPrefix name) = true) :
    Sat env T (namedObject env name) := by
  unfold namedObject
  exact sat_bind (sat_emit (Or.inr h)) (fun _ _ =>
    sat_bind (sat_namedModule h) (fun _ _ => sat_getattrM _ _))

theorem reverse_suffix_eq_take {α : Type} {names pre l : List α} (h : names.reverse = pre ++ l) :
    l.reverse = names.take l.length := by
  have : names = l.reverse ++ pre.reverse := by
    have := congrArg List.reverse h
    simpa using this
  rw [this, List.take_left' (by simp)]

theorem sat_trialImport {m : String} (hm : env.P.isModuleAllowed m = true) (n : Nat) :
    ∀ (l pre : List String), (splitName m).reverse = pre ++ l → Sat env T (trialImport env n l)
  | [], _, _ => by unfold trialImport; exact sat_raise
  | p :: ps, pre, h => by
    unfold trialImport
    have hk : (p :: ps).reverse = (splitName m).take (p :: ps).length := reverse_suffix_eq_take h
    have hok : ∃ m', env.P.isModuleAllowed m' = true ∧
        nameOrParent (".".intercalate (p :: ps).reverse) m' :=
      ⟨m, hm, Or.inr ⟨(p :: ps).length, by rw [hk]⟩⟩
    simp only []
    split
    · exact sat_emit (fun _ => hok)
    · exact sat_bind (sat_emit (fun hf => by cases hf))
        (fun _ _ => sat_trialImport hm n ps (pre ++ [p]) (by simp [h]))

theorem sat_namedAny {name : String} (h : env.P.isModuleAllowed name = true) :
    Sat env T (namedAny env name) := by
  unfold namedAny
  refine sat_bind (sat_emit (Or.inl h)) (fun _ _ => ?_)
  split
  · exact sat_raise
  · split
    · exact sat_raise
    · exact sat_bind (sat_trialImport h _ _ [] (by simp)) (fun _ _ => sat_walk _ _)

/-! ### values -/

theorem valsOK_nil : ValsOK env [] := by intro l hl; simp [labelsL] at hl

theorem valsOK_cons {v : Val} {vs : List Val} (hv : ValOK env v) (hvs : ValsOK env vs) :
    ValsOK env (v :: vs) := by
  intro l hl
  simp only [labelsL, List.mem_append] at hl
  rcases hl with h | h
  · exact hv l h
  · exact hvs l h

theorem valOK_nolabel {v : Val} (h : v.labels = []) : ValOK env v := by
  intro l hl; rw [h] at hl; cases hl

theorem valOK_seq {vs : List Val} (h : ValsOK env vs) :
    ValOK env (.list vs) ∧ ValOK env (.tuple vs) ∧ ValOK env (.set vs) ∧ ValOK env (.frozenset vs)
      ∧ ∀ k, ValOK env (.pending k vs) := by
  refine ⟨?_, ?_, ?_, ?_, fun k => ?_⟩ <;> (intro l hl; simp only [Val.labels] at hl; exact h l hl)

theorem valOK_dict {ks vs : List Val} (hk : ValsOK env ks) (hv : ValsOK env vs) : ValOK env (.dict ks vs) := by
  intro l hl
  simp only [Val.labels, List.mem_append] at hl
  rcases hl with h | h
  · exact hk l h
  · exact hv l h

theorem valOK_inst {c : ObjId} {st : Val} (hc : env.P.isClassAllowed c = true ∨ c ∈ regClasses env.R)
    (hs : ValOK env st) : ValOK env (.inst c st) := by
  intro l hl
  simp only [Val.labels, List.mem_cons] at hl
  rcases hl with rfl | h
  · exact hc
  · exact hs l h

theorem valOK_obj {id : ObjId} (h : labelOK env (.obj id)) : ValOK env (.obj id) := by
  intro l hl
  simp only [Val.labels, List.mem_singleton] at hl
  subst hl; exact h

theorem valOK_method {nm : String} {self : Val} {c : ObjId} (hc : ValOK env (.obj c)) (hs : ValOK env self) :
    ValOK env (.method nm self c) ∧ ValOK env (.instMethod nm self c) := by
  constructor <;>
  · intro l hl
    simp only [Val.labels, List.mem_cons] at hl
    rcases hl with rfl | h
    · exact hc _ (by simp [Val.labels])
    · exact hs l h

theorem sat_mapRec {rec : Sexp → M Val} (hrec : ∀ s, Sat env (ValOK env) (rec s)) (xs : List Sexp) :
    Sat env (ValsOK env) (mapRec rec xs) := by
  induction xs with
  | nil => exact sat_pure valsOK_nil
  | cons x xs ih =>
    unfold mapRec
    exact sat_bind (hrec x) (fun v hv => sat_bind ih (fun vs hvs => sat_pure (valsOK_cons hv hvs)))

theorem sat_newInstance {k : ObjId} {state : Val}
    (hc : env.P.isClassAllowed k = true ∨ k ∈ regClasses env.R) (hs : ValOK env state) :
    Sat env (ValOK env) (newInstance env (.obj k) state) := by
  unfold newInstance
  simp only []
  split
  · refine sat_bind (sat_emit hc) (fun _ _ => ?_)
    split
    · exact sat_pure (valOK_inst hc hs)
    · split
      · exact sat_pure (valOK_inst hc hs)
      · exact sat_pure (valOK_inst hc (valOK_nolabel (by simp [Val.labels, labelsL])))
  · split
    · exact sat_raise
    · exact sat_pure (valOK_nolabel rfl)

/-! ### handlers -/

section
variable {rec : Sexp → M Val} (hrec : ∀ s, Sat env (ValOK env) (rec s))
include hrec

theorem sat_setOrFrozenset (rest : List Sexp) (k : CKind) :
    Sat env (ValOK env) (setOrFrozenset env rec rest k) := by
  unfold setOrFrozenset
  refine sat_bind (sat_mapRec hrec rest) (fun vs hvs => ?_)
  have := valOK_seq hvs
  split
  · exact sat_bind sat_setQuirk (fun _ _ => sat_pure (this.2.2.2.2 k))
  · split
    · split
      · exact sat_pure this.2.2.1
      · exact sat_pure this.2.2.2.1
    · exact sat_raise

theorem sat_dictLoop (xs : List Sexp) :
    Sat env (fun r => ValsOK env r.1 ∧ ValsOK env r.2) (dictLoop env rec xs) := by
  induction xs with
  | nil => exact sat_pure ⟨valsOK_nil, valsOK_nil⟩
  | cons p ps ih =>
    unfold dictLoop
    refine sat_bind (sat_unpackPair p) (fun kv _ => ?_)
    refine sat_bind (hrec _) (fun k hk => ?_)
    refine sat_bind (hrec _) (fun v hv => ?_)
    split
    · exact sat_bind sat_setQuirk (fun _ _ => sat_raise)
    · refine sat_bind sat_guard (fun _ _ => ?_)
      exact sat_bind ih (fun r hr => sat_pure ⟨valsOK_cons hk hr.1, valsOK_cons hv hr.2⟩)

theorem sat_hReference (rest : List Sexp) : Sat env (ValOK env) (hReference rec rest) := by
  unfold hReference
  refine sat_bind (sat_idx _ _) (fun k _ => ?_)
  refine sat_bind (sat_idx _ _) (fun e _ => ?_)
  refine sat_bind (hrec e) (fun o ho => ?_)
  refine sat_bind (sat_refKey _) (fun k' _ => ?_)
  refine sat_bind (sat_getRef _) (fun r _ => ?_)
  refine sat_bind (sat_whenM sat_setQuirk) (fun _ _ => ?_)
  split
  · exact sat_bind (sat_setRef ho) (fun _ _ => sat_pure ho)
  · split
    · exact sat_bind (sat_setRef ho) (fun _ _ => sat_pure ho)
    · exact sat_raise

theorem sat_hTuple (rest : List Sexp) : Sat env (ValOK env) (hTuple rec rest) := by
  unfold hTuple
  refine sat_bind (sat_mapRec hrec rest) (fun vs hvs => ?_)
  have := valOK_seq hvs
  split
  · exact sat_pure (this.2.2.2.2 _)
  · exact sat_pure this.2.1

theorem sat_hList (rest : List Sexp) : Sat env (ValOK env) (hList rec rest) := by
  unfold hList
  exact sat_bind (sat_mapRec hrec rest) (fun vs hvs => sat_pure (valOK_seq hvs).1)

theorem sat_hDictionary (rest : List Sexp) : Sat env (ValOK env) (hDictionary env rec rest) := by
  unfold hDictionary
  exact sat_bind (sat_dictLoop hrec rest) (fun kv h => sat_pure (valOK_dict h.1 h.2))

theorem sat_hInstance (rest : List Sexp) : Sat env (ValOK env) (hInstance env rec rest) := by
  unfold hInstance
  refine sat_bind (sat_idx _ _) (fun c _ => ?_)
  refine sat_bind (hrec c) (fun clz _hclz => ?_)
  refine sat_bind sat_guard (fun _u _hu => ?_)
  split
  · rename_i k
    refine sat_bind (sat_classAllowedM k) (fun ok hok => ?_)
    refine sat_bind sat_guard (fun _ hg => ?_)
    refine sat_bind (sat_idx _ _) (fun s _ => ?_)
    refine sat_bind (hrec s) (fun state hst => ?_)
    exact sat_newInstance (Or.inl (hok hg)) hst
  · exact sat_raise

theorem sat_hMethod (rest : List Sexp) : Sat env (ValOK env) (hMethod env rec rest) := by
  unfold hMethod
  refine sat_bind (sat_idx _ _) (fun n _hn => ?_)
  refine sat_bind (sat_idx _ _) (fun s _hs => ?_)
  refine sat_bind (hrec s) (fun imSelf hself => ?_)
  refine sat_bind (sat_idx _ _) (fun c _hc => ?_)
  refine sat_bind (hrec c) (fun imClass hcls => ?_)
  refine sat_bind sat_guard (fun _u _hu => ?_)
  split
  · rename_i k nm
    split
    · exact sat_raise
    · rename_i f _hf0
      split
      · refine sat_bind sat_guard (fun _v hf => ?_)
        refine sat_pure (valOK_obj (Or.inr (Or.inr ?_)))
        have hf' : env.W.kind f = Kind.func := by simpa using hf
        rw [hf']
        exact ⟨by decide, fun b => by simp⟩
      · split
        · exact sat_bind sat_setQuirk (fun _ _ => sat_pure (valOK_method hcls hself).2)
        · split
          · exact sat_pure (valOK_method hcls hself).1
          · exact sat_raise
  · exact sat_raise
  · exact sat_raise

end

theorem sat_hUnicode (rest : List Sexp) : Sat env (ValOK env) (hUnicode rest) := by
  unfold hUnicode
  refine sat_bind (sat_idx _ _) (fun x _ => ?_)
  split
  · split
    · exact sat_pure (valOK_nolabel rfl)
    · exact sat_raise
  · exact sat_raise

theorem sat_hDecimal (rest : List Sexp) : Sat env (ValOK env) (hDecimal rest) := by
  unfold hDecimal
  refine sat_bind (sat_idx _ _) (fun v _ => sat_bind (sat_idx _ _) (fun e _ => ?_))
  split
  · exact sat_pure (valOK_nolabel rfl)
  · exact sat_raise

theorem sat_hBoolean (rest : List Sexp) : Sat env (ValOK env) (hBoolean rest) := by
  unfold hBoolean
  refine sat_bind (sat_idx _ _) (fun x _ => ?_)
  split
  · split
    · exact sat_pure (valOK_nolabel rfl)
    · split
      · exact sat_pure (valOK_nolabel rfl)
      · exact sat_raise
  · exact sat_raise

theorem sat_hDate (name : String) (rest : List Sexp) : Sat env (ValOK env) (hDate name rest) := by
  unfold hDate
  refine sat_bind (sat_idx _ _) (fun x _ => ?_)
  split
  · exact sat_pure (valOK_nolabel rfl)
  · exact sat_raise

theorem sat_hDereference (rest : List Sexp) : Sat env (ValOK env) (hDereference rest) := by
  unfold hDereference
  refine sat_bind (sat_idx _ _) (fun k _ => ?_)
  refine sat_bind (sat_refKey _) (fun k' _ => ?_)
  refine sat_bind (sat_getRef _) (fun x hx => ?_)
  have hd : ValOK env (.deref k') := valOK_nolabel rfl
  split
  · rename_i v
    split
    · exact sat_bind (sat_setRef hd) (fun _ _ => sat_pure hd)
    · exact sat_bind (sat_whenM sat_setQuirk) (fun _ _ => sat_pure (hx v rfl))
  · exact sat_bind (sat_setRef hd) (fun _ _ => sat_pure hd)

theorem sat_hModule (rest : List Sexp) : Sat env (ValOK env) (hModule env rest) := by
  unfold hModule
  refine sat_bind (sat_idx _ _) (fun x _ => ?_)
  refine sat_bind (sat_nativeString _) (fun name _ => ?_)
  refine sat_bind sat_guard (fun _ hg => ?_)
  refine sat_bind (sat_pyImport ⟨name, hg, Or.inl rfl⟩) (fun _ _ => ?_)
  exact sat_pure (valOK_obj (Or.inl ⟨name, hg, rfl⟩))

theorem sat_hClass (rest : List Sexp) : Sat env (ValOK env) (hClass env rest) := by
  unfold hClass
  refine sat_bind (sat_idx _ _) (fun x _ => ?_)
  refine sat_bind (sat_nativeString _) (fun cname _ => ?_)
  refine sat_bind sat_guard (fun _ hg => ?_)
  refine sat_bind (sat_namedObject hg) (fun klaus _ => ?_)
  refine sat_bind sat_guard (fun _ _ => ?_)
  refine sat_bind sat_guard (fun _ hc => ?_)
  exact sat_pure (valOK_obj (Or.inr (Or.inl hc)))

theorem sat_hFunction (rest : List Sexp) : Sat env (ValOK env) (hFunction env rest) := by
  unfold hFunction
  refine sat_bind (sat_idx _ _) (fun x _ => ?_)
  refine sat_bind (sat_nativeString _) (fun fname _ => ?_)
  refine sat_bind sat_guard (fun _ hg => ?_)
  refine sat_bind (sat_namedAny hg) (fun m _ => ?_)
  refine sat_bind (sat_getattrM _ _) (fun f _ => ?_)
  refine sat_bind sat_guard (fun _ hf => ?_)
  refine sat_pure (valOK_obj (Or.inr (Or.inr ?_)))
  have hf' : env.W.kind f = Kind.func := by simpa using hf
  rw [hf']
  exact ⟨by decide, fun b => by simp⟩

theorem sat_hUnpersistable (rest : List Sexp) : Sat env (ValOK env) (hUnpersistable rest) := by
  unfold hUnpersistable
  exact sat_bind (sat_idx _ _) (fun _ _ => sat_pure (valOK_nolabel rfl))

theorem sat_handlerFor {rec : Sexp → M Val} (hrec : ∀ s, Sat env (ValOK env) (rec s))
    (name : String) (rest : List Sexp) : Sat env (ValOK env) (handlerFor env rec name rest) := by
  unfold handlerFor
  repeat' apply sat_ite
  all_goals first
    | exact sat_pure (valOK_nolabel rfl)
    | exact sat_raise
    | exact sat_hUnicode _ | exact sat_hDecimal _ | exact sat_hBoolean _ | exact sat_hDate _ _
    | exact sat_hDereference _ | exact sat_hReference hrec _ | exact sat_hTuple hrec _
    | exact sat_hList hrec _ | exact sat_setOrFrozenset hrec _ _ | exact sat_hDictionary hrec _
    | exact sat_hModule _ | exact sat_hClass _ | exact sat_hFunction _ | exact sat_hInstance hrec _
    | exact sat_hUnpersistable _ | exact sat_hMethod hrec _

end TwistedProps.C45
