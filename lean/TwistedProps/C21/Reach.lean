import TwistedProps.C21.Step
/-!
C21 lemmas, part 4: every event of a history (delivery, the application finishing, pause, resume, loss)
keeps the invariant, so it holds after any history from a fresh connection.
-/
namespace TwistedProps.C21
open Twisted.Http.Chunked hiding St feed init
open Twisted.Http.Channel

/-- the invariant of a connection between events -/
def Good (app : App) (s : St) : Prop := J app none s.lost s.outs s.chan

theorem good_init (app : App) : Good app init :=
  ⟨T_init app, fun _ => rfl, fun _ => rfl, fun h => by simp [init] at h⟩

/-- a delivery only appends outputs, and keeps `J` (also while Deferreds are owed) -/
theorem feed_J {app ex} (s : St) (d : Bytes) (h : J app ex false s.outs s.chan) :
    ∃ tl, (Twisted.Http.Channel.feed app s d).outs = s.outs ++ tl ∧
      J app ex false (s.outs ++ tl) (Twisted.Http.Channel.feed app s d).chan ∧
      (Twisted.Http.Channel.feed app s d).lost = s.lost := by
  unfold Twisted.Http.Channel.feed
  split
  · exact ⟨[], by simp, by simpa using h, rfl⟩
  · exact ⟨_, rfl, drain_J _ h _, rfl⟩

/-- the owed Deferreds fire -/
theorem J_fire {app o c j} (h : J app (some j) false o c) (N : Nat) (hN : N = nfOf app j o) :
    J app none false (o ++ notifyOuts j N true) c := by
  subst hN
  refine ⟨T_fire h.t, h.i1, h.i2, fun hs hl => ?_⟩
  rw [h.pend hs hl, nfOf_append_nodeliv app _ o _ (delivered_notifyOuts _ _ _)]

/-- the buffered data is replayed, then the owed Deferreds fire -/
theorem fire_after_feed {app} (s1 : St) (d : Bytes) (m N : Nat) (h : J app (some m) false s1.outs s1.chan)
    (hl : s1.lost = false) (hN : N = nfOf app m s1.outs) (hm : m < nReq s1.outs) :
    J app none (Twisted.Http.Channel.feed app s1 d).lost ((Twisted.Http.Channel.feed app s1 d).outs ++ notifyOuts m N true)
      (Twisted.Http.Channel.feed app s1 d).chan := by
  obtain ⟨tl, f1, f2, f3⟩ := feed_J s1 d h
  rw [f1, f3, hl]
  exact J_fire f2 N (by rw [hN, nfOf_append_lt app m _ _ hm])

theorem appw_J {app lost o c} (h : J app none lost o c) (m : Nat) (hn : c.nreq = m + 1) (hs : c.inflight.isSome = true)
    (w : Bytes) : J app none lost (o ++ (if w.isEmpty then [] else [Out.appWrite m w])) c := by
  split
  · simpa using h
  · have ht := h.t
    rw [hn, hs] at ht
    refine ⟨by rw [hn, hs]; exact T_appw ht w, h.i1, h.i2, fun hs hl => ?_⟩
    rw [h.pend hs hl, nfOf_append_nodeliv app _ o _ (by simp [delivered])]

/-- `requestDone` outside `dataReceived`, up to the replay of the buffered data -/
theorem doneLater_J {app o c} (h : J app none false o c) (m : Nat) (hn : c.nreq = m + 1) (hs : c.inflight.isSome = true) :
    J app (some m) false (o ++ (requestDoneCore { c with pendingNotify := 0 }).2) (requestDoneCore { c with pendingNotify := 0 }).1 ∧
    (requestDoneCore { c with pendingNotify := 0 }).1.inflight = none ∧
    (requestDoneCore { c with pendingNotify := 0 }).1.nreq = m + 1 := by
  have ht := h.t
  rw [hn, hs] at ht
  have t1 := T_quiet (T_doneLater ht) (doneQuiet c) (doneQuiet_quiet c)
  have e : (requestDoneCore { c with pendingNotify := 0 }).2 = [Out.done m] ++ doneQuiet c := by
    unfold requestDoneCore doneQuiet
    by_cases hp : c.persistent = true <;> simp [hp, hn]
  have e2 : (requestDoneCore { c with pendingNotify := 0 }).1.inflight = none ∧
      (requestDoneCore { c with pendingNotify := 0 }).1.nreq = m + 1 := by
    unfold requestDoneCore
    by_cases hp : c.persistent = true <;> simp [hp, hn]
  refine ⟨⟨?_, fun _ => e2.1, fun _ => e2.1, fun hs => ?_⟩, e2⟩
  · rw [e, e2.1, e2.2, ← List.append_assoc]; exact t1
  · rw [e2.1] at hs; simp at hs

theorem finishLater_good (app : App) (s : St) (h : Good app s) (hl : s.lost = false) : Good app (finishLater app s) := by
  unfold Good at h ⊢
  rw [hl] at h
  unfold finishLater
  split
  · rw [hl]; exact h
  · rename_i req hi
    dsimp only
    split
    · rw [hl]; exact h
    · have hs : s.chan.inflight.isSome = true := by rw [hi]; rfl
      have hnd := h.t.ndone
      rw [hs] at hnd
      simp [b2n] at hnd
      obtain ⟨m, hm⟩ : ∃ m, s.chan.nreq = m + 1 := ⟨s.chan.nreq - 1, by omega⟩
      have hk : s.chan.nreq - 1 = m := by omega
      have hN : s.chan.pendingNotify = nfOf app m s.outs := by rw [h.pend hs rfl, hk]
      have hmlt : m < nReq s.outs := by rw [h.t.nreq]; omega
      rw [hk]
      -- the response, then requestDone
      have j1 := appw_J h m hm hs (app.onFinish m req)
      obtain ⟨j2, j3, j4⟩ := doneLater_J j1 m hm hs
      rw [List.append_assoc] at j2
      split
      · -- persistent: the buffered data is replayed, then the Deferreds fire
        split
        · simp only [hl]
          have j5 : J app (some m) false
              (s.outs ++ ((if (app.onFinish m req).isEmpty then [] else [Out.appWrite m (app.onFinish m req)]) ++
                (requestDoneCore { s.chan with pendingNotify := 0 }).2))
              { (requestDoneCore { s.chan with pendingNotify := 0 }).1 with dataBuffer := [] } :=
            ⟨j2.t, j2.i1, j2.i2, j2.pend⟩
          exact J_fire j5 s.chan.pendingNotify (by rw [hN, nfOf_append_lt app m _ _ hmlt])
        · have j5 : J app (some m) false
              (s.outs ++ ((if (app.onFinish m req).isEmpty then [] else [Out.appWrite m (app.onFinish m req)]) ++
                (requestDoneCore { s.chan with pendingNotify := 0 }).2))
              { (requestDoneCore { s.chan with pendingNotify := 0 }).1 with dataBuffer := [] } :=
            ⟨j2.t, j2.i1, j2.i2, j2.pend⟩
          refine fire_after_feed
            ({ s with chan := { (requestDoneCore { s.chan with pendingNotify := 0 }).1 with dataBuffer := [] },
                      outs := s.outs ++ ((if (app.onFinish m req).isEmpty then [] else [Out.appWrite m (app.onFinish m req)]) ++
                        (requestDoneCore { s.chan with pendingNotify := 0 }).2) } : St)
            (requestDoneCore { s.chan with pendingNotify := 0 }).1.dataBuffer m s.chan.pendingNotify j5 hl ?_ ?_
          · rw [hN, nfOf_append_lt app m _ _ hmlt]
          · rw [nReq_append]; omega
      · simp only [hl]
        exact J_fire j2 s.chan.pendingNotify (by rw [hN, nfOf_append_lt app m _ _ hmlt])

theorem pause_good (app : App) (s : St) (h : Good app s) : Good app (pauseProducing s) := by
  unfold Good pauseProducing at *
  refine J_quiet h { s.chan with waiting := true } ⟨rfl, rfl, rfl⟩ rfl rfl (if !s.chan.handling then [.tpause true] else []) ?_
  split <;> simp [isQuiet]

theorem resume_good (app : App) (s : St) (h : Good app s) : Good app (resumeProducing s) := by
  unfold Good resumeProducing at *
  refine J_quiet h { s.chan with waiting := false } ⟨rfl, rfl, rfl⟩ rfl rfl (if !s.chan.handling then [.tpause false] else []) ?_
  split <;> simp [isQuiet]

/-- the application drops the client (`request.loseConnection()`): only `transport.loseConnection()` happens -/
theorem close_good (app : App) (s : St) (h : Good app s) : Good app (appClose s) := by
  unfold Good appClose at *
  split
  · exact J_quiet h { s.chan with closed := true } ⟨rfl, rfl, rfl⟩ rfl rfl [Out.lose] rfl
  · exact h

theorem lost_good (app : App) (s : St) (h : Good app s) (hl : s.lost = false) : Good app (connectionLost s) := by
  unfold Good at h ⊢
  rw [hl] at h
  unfold connectionLost
  simp only
  have t := T_lost h.t
  refine ⟨?_, h.i1, h.i2, fun _ x => by simp at x⟩
  by_cases hs : s.chan.inflight.isSome = true
  · simp only [hs, if_true] at t
    simp only [hs, if_true, h.pend hs rfl]
    exact t
  · have hs' : s.chan.inflight.isSome = false := by simpa using hs
    simp only [hs', Bool.false_eq_true, if_false, List.append_nil] at t
    simp only [hs', Bool.false_eq_true, if_false, List.append_nil]
    exact t

theorem step_good (app : App) (s : St) (op : Op) (h : Good app s) : Good app (step app s op) := by
  by_cases hl : s.lost = true
  · cases op <;> simp [step, St.stopped, hl] <;> exact h
  · have hl' : s.lost = false := by simpa using hl
    cases op <;> simp only [step]
    case data b =>
      split
      · exact h
      · unfold Good at h ⊢
        rw [hl'] at h
        obtain ⟨tl, f1, f2, f3⟩ := feed_J s b h
        rw [f1, f3, hl']; exact f2
    case finish =>
      split
      · exact h
      · exact finishLater_good app s h hl'
    case pause => split; exact h; exact pause_good app s h
    case resume => split; exact h; exact resume_good app s h
    case lose => rw [if_neg hl]; exact lost_good app s h hl'
    case close =>
      split
      · exact h
      · exact close_good app s h

/-- **the invariant holds after every history** -/
theorem runOps_good (app : App) (s : St) (ops : List Op) (h : Good app s) : Good app (runOps app s ops) := by
  induction ops generalizing s with
  | nil => exact h
  | cons o os ih => exact ih _ (step_good app s o h)

theorem reach_good (app : App) (ops : List Op) : Good app (runOps app init ops) :=
  runOps_good app init ops (good_init app)

end TwistedProps.C21
