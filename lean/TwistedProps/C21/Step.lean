import TwistedProps.C21.Acct
/-!
C21 lemmas, part 3: the invariant `J` ties the channel state (`nreq`, `inflight`, `pendingNotify`, `lineMode`,
`handling`) to the outputs so far (`T`), and every iteration of the receive loop keeps it.
-/
namespace TwistedProps.C21
open Twisted.Http.Chunked hiding St feed init
open Twisted.Http.Channel

structure J (app : App) (ex : Option Nat) (lost : Bool) (o : List Out) (c : Chan) : Prop where
  t : T app ex lost o c.nreq c.inflight.isSome
  /-- in line mode no request is in flight -/
  i1 : c.lineMode = true → c.inflight = none
  /-- a request in flight means `_handlingRequest` -/
  i2 : c.handling = false → c.inflight = none
  /-- `request.notifications` of the request in flight are the Deferreds it took -/
  pend : c.inflight.isSome = true → lost = false → c.pendingNotify = nfOf app (c.nreq - 1) o

/-- the fields the trace invariant talks about are untouched -/
def Fr (c c' : Chan) : Prop :=
  c'.inflight = c.inflight ∧ c'.nreq = c.nreq ∧ c'.pendingNotify = c.pendingNotify

theorem Fr.refl (c : Chan) : Fr c c := ⟨rfl, rfl, rfl⟩
theorem Fr.trans {a b c : Chan} (h1 : Fr a b) (h2 : Fr b c) : Fr a c :=
  ⟨h2.1.trans h1.1, h2.2.1.trans h1.2.1, h2.2.2.trans h1.2.2⟩

/-- with no request in flight: the channel's own outputs, any change of the other attributes -/
theorem J_idle {app ex o c} (h : J app ex false o c) (hi : c.inflight = none) (c' : Chan) (hf : Fr c c')
    (o' : List Out) (hc : o'.all isChan = true) : J app ex false (o ++ o') c' := by
  obtain ⟨f1, f2, f3⟩ := hf
  have ht := h.t
  rw [hi] at ht
  refine ⟨?_, fun _ => f1.trans hi, fun _ => f1.trans hi, fun hs => ?_⟩
  · rw [f1, f2, hi]; exact T_chan ht o' hc
  · rw [f1, hi] at hs; simp at hs

/-- producer calls and `loseConnection`, modes unchanged -/
theorem J_quiet {app ex lost o c} (h : J app ex lost o c) (c' : Chan) (hf : Fr c c')
    (hl : c'.lineMode = c.lineMode) (hh : c'.handling = c.handling)
    (o' : List Out) (hq : o'.all isQuiet = true) : J app ex lost (o ++ o') c' := by
  obtain ⟨f1, f2, f3⟩ := hf
  refine ⟨?_, fun x => ?_, fun x => ?_, fun hs hl => ?_⟩
  · rw [f1, f2]; exact T_quiet h.t o' hq
  · rw [f1]; exact h.i1 (hl ▸ x)
  · rw [f1]; exact h.i2 (hh ▸ x)
  · rw [f1] at hs
    rw [f2, f3, h.pend hs hl, nfOf_append_nodeliv app _ o o' (delivered_chan o' (chan_of_quiet o' hq))]

/-! ### `allContentReceived` -/

/-- the request `allContentReceived` hands over -/
def acrReq (c : Chan) : Req :=
  { method := c.command, uri := c.path, version := c.version, headers := c.reqHeaders, body := c.decoder.body }

/-- producer call / `loseConnection` of `requestDone` -/
def doneQuiet (c : Chan) : List Out :=
  (if c.waiting then [] else [Out.tpause false]) ++ (if c.persistent then [] else [Out.lose])

theorem doneQuiet_quiet (c : Chan) : (doneQuiet c).all isQuiet = true := by
  unfold doneQuiet; cases c.waiting <;> cases c.persistent <;> simp [isQuiet]

theorem acr_out (app : App) (c : Chan) :
    (allContentReceived app c).2 =
      ([Out.req (acrReq c)] ++ (if (app.onRequest c.nreq (acrReq c)).1.isEmpty then [] else [Out.appWrite c.nreq (app.onRequest c.nreq (acrReq c)).1])) ++
      (if (app.onRequest c.nreq (acrReq c)).2 = true then
        [Out.done c.nreq] ++ doneQuiet c ++ notifyOuts c.nreq (app.notifies c.nreq (acrReq c)) true else []) := by
  unfold allContentReceived acrReq doneQuiet
  simp only
  split
  · dsimp only
    congr 1
    unfold requestDoneBusy requestDoneCore
    by_cases hp : c.persistent = true <;> simp [hp]
  · dsimp only
    rw [List.append_nil]

theorem acr_chan (app : App) (c : Chan) :
    (allContentReceived app c).1.nreq = c.nreq + 1 ∧
    ((app.onRequest c.nreq (acrReq c)).2 = true →
      (allContentReceived app c).1.inflight = none) ∧
    ((app.onRequest c.nreq (acrReq c)).2 = false →
      (allContentReceived app c).1.inflight = some (acrReq c) ∧
      (allContentReceived app c).1.pendingNotify = app.notifies c.nreq (acrReq c) ∧
      (allContentReceived app c).1.lineMode = false ∧ (allContentReceived app c).1.handling = true) := by
  unfold allContentReceived acrReq
  simp only
  refine ⟨?_, fun hf => ?_, fun hf => ?_⟩
  · split
    · unfold requestDoneBusy requestDoneCore
      by_cases hp : c.persistent = true <;> simp [hp]
    · rfl
  · rw [if_pos hf]
    unfold requestDoneBusy requestDoneCore
    by_cases hp : c.persistent = true <;> simp [hp]
  · rw [if_neg (by simp [hf])]
    exact ⟨rfl, rfl, rfl, rfl⟩

/-- **handing over a request keeps the invariant** (finished inside `requestReceived` or not) -/
theorem acr_J {app ex o c} (h : J app ex false o c) (hi : c.inflight = none) :
    J app ex false (o ++ (allContentReceived app c).2) (allContentReceived app c).1 := by
  have ht := h.t
  rw [hi] at ht
  simp only [Option.isSome_none] at ht
  have hn : nReq o = c.nreq := ht.nreq
  obtain ⟨c1, c2, c3⟩ := acr_chan app c
  -- after `requestReceived` and the application's write
  have t1 := T_req ht (acrReq c)
  have t2 : T app ex false (o ++ ([Out.req (acrReq c)] ++ (if (app.onRequest c.nreq (acrReq c)).1.isEmpty then [] else [Out.appWrite c.nreq (app.onRequest c.nreq (acrReq c)).1])))
      (c.nreq + 1) true := by
    split
    · simpa using t1
    · rw [← List.append_assoc]; exact T_appw t1 _
  have hnf : nfOf app c.nreq (o ++ ([Out.req (acrReq c)] ++ (if (app.onRequest c.nreq (acrReq c)).1.isEmpty then [] else [Out.appWrite c.nreq (app.onRequest c.nreq (acrReq c)).1])))
      = app.notifies c.nreq (acrReq c) := by
    have := nfOf_req app o (acrReq c) (if (app.onRequest c.nreq (acrReq c)).1.isEmpty then [] else [Out.appWrite c.nreq (app.onRequest c.nreq (acrReq c)).1])
    rw [hn] at this
    exact this
  rw [acr_out]
  by_cases hf : (app.onRequest c.nreq (acrReq c)).2 = true
  · have hin := c2 hf
    rw [if_pos hf, ← List.append_assoc]
    have t3 := T_doneBusy t2 (doneQuiet c) (doneQuiet_quiet c)
    rw [hnf] at t3
    refine ⟨?_, fun _ => hin, fun _ => hin, fun hs => ?_⟩
    · rw [c1, hin]; exact t3
    · rw [hin] at hs; simp at hs
  · have hf' : (app.onRequest c.nreq (acrReq c)).2 = false := by simpa using hf
    obtain ⟨d1, d2, d3, d4⟩ := c3 hf'
    rw [if_neg hf, List.append_nil]
    refine ⟨?_, fun x => ?_, fun x => ?_, fun _ _ => ?_⟩
    · rw [c1, d1]; exact t2
    · rw [d3] at x; simp at x
    · rw [d4] at x; simp at x
    · rw [c1, d2, Nat.add_sub_cancel, hnf]

/-! ### one line, one piece of body -/

/-- what `lineReceived` / `rawDataReceived` can do: only the channel's own outputs, or those followed
    by `allContentReceived` -/
def Res (app : App) (c : Chan) (r : Chan × List Out) : Prop :=
  (r.2.all isChan = true ∧ Fr c r.1) ∨
  ∃ c0 o0, o0.all isChan = true ∧ Fr c c0 ∧ r.1 = (allContentReceived app c0).1 ∧ r.2 = o0 ++ (allContentReceived app c0).2

theorem Res_J {app ex o c} (h : J app ex false o c) (hi : c.inflight = none) (r : Chan × List Out)
    (hr : Res app c r) : J app ex false (o ++ r.2) r.1 := by
  rcases hr with ⟨hc, hf⟩ | ⟨c0, o0, hc, hf, e1, e2⟩
  · exact J_idle h hi _ hf _ hc
  · rw [e1, e2, ← List.append_assoc]
    exact acr_J (J_idle h hi c0 hf o0 hc) (hf.1.trans hi)

theorem chan_badRequest (c : Chan) : (badRequest c).2.all isChan = true := by simp [badRequest, isChan]
theorem chan_failChoose (c : Chan) : (failChoose c).2.all isChan = true := by simp [failChoose, isChan]

theorem maybeChoose_fr (c : Chan) (h d : Bytes) :
    Fr c (maybeChoose c h d).1.1 ∧ (maybeChoose c h d).1.2.all isChan = true := by
  unfold maybeChoose
  split
  · split
    · exact ⟨Fr.refl c, chan_failChoose c⟩
    · split
      · exact ⟨Fr.refl c, chan_failChoose c⟩
      · split
        · exact ⟨Fr.refl c, chan_failChoose c⟩
        · exact ⟨Fr.refl c, rfl⟩
  · split
    · split
      · split
        · exact ⟨Fr.refl c, chan_failChoose c⟩
        · exact ⟨Fr.refl c, rfl⟩
      · split
        · exact ⟨Fr.refl c, rfl⟩
        · exact ⟨Fr.refl c, chan_failChoose c⟩
    · exact ⟨Fr.refl c, rfl⟩

theorem headerReceived_fr (c : Chan) (l : Bytes) :
    Fr c (headerReceived c l).1.1 ∧ (headerReceived c l).1.2.all isChan = true := by
  unfold headerReceived
  cases hs : splitOnce COLON l with
  | none => exact ⟨Fr.refl c, chan_badRequest c⟩
  | some p =>
    obtain ⟨name, data⟩ := p
    dsimp only
    cases he : encodeName name with
    | none => exact ⟨Fr.refl c, chan_badRequest c⟩
    | some header =>
      dsimp only
      split
      · exact ⟨Fr.refl c, chan_badRequest c⟩
      · have hm := maybeChoose_fr c header (stripSpTab data)
        split
        · rename_i heq
          rw [heq] at hm
          exact hm
        · rename_i heq
          rw [heq] at hm
          split
          · refine ⟨hm.1, ?_⟩
            simp only [List.all_append, hm.2, Bool.true_and]
            exact chan_badRequest _
          · exact hm

theorem lineReceived_res (app : App) (c : Chan) (l : Bytes) : Res app c (lineReceived app c l) := by
  unfold lineReceived
  split
  · exact Or.inl ⟨rfl, Fr.refl c⟩
  · simp only
    split
    · exact Or.inl ⟨chan_badRequest _, Fr.refl c⟩
    · split
      · split
        · exact Or.inl ⟨rfl, Fr.refl c⟩
        · split
          · exact Or.inl ⟨rfl, Fr.refl c⟩
          · split
            · exact Or.inl ⟨chan_badRequest _, Fr.refl c⟩
            · exact Or.inl ⟨rfl, Fr.refl c⟩
      · split
        · -- blank line: end of the headers
          have hr : ∀ r : (Chan × List Out) × Bool, (Fr c r.1.1 ∧ r.1.2.all isChan = true) →
              Res app c (if !r.2 then r.1 else
                let h := allHeadersReceived { r.1.1 with header := [] }
                if h.1.length = some 0 then
                  ((allContentReceived app h.1).1, r.1.2 ++ h.2 ++ (allContentReceived app h.1).2)
                else ({ h.1 with lineMode := false }, r.1.2 ++ h.2)) := by
            intro r ⟨hf, hc⟩
            have hh : (allHeadersReceived { r.1.1 with header := [] }).2.all isChan = true := by
              unfold allHeadersReceived; simp only; split <;> simp [isChan]
            split
            · exact Or.inl ⟨hc, hf⟩
            · simp only
              split
              · refine Or.inr ⟨_, r.1.2 ++ (allHeadersReceived { r.1.1 with header := [] }).2, ?_, ?_, rfl, rfl⟩
                · simp only [List.all_append, hc, hh, Bool.true_and]
                · exact hf
              · refine Or.inl ⟨?_, hf⟩
                simp only [List.all_append, hc, hh, Bool.true_and]
          by_cases hhe : c.header.isEmpty = true
          · simp only [hhe, if_true]
            exact hr (({ c with hdrSize := c.hdrSize + l.length }, []), true) ⟨Fr.refl c, rfl⟩
          · simp only [hhe, Bool.false_eq_true, if_false]
            exact hr _ (headerReceived_fr { c with hdrSize := c.hdrSize + l.length } c.header)
        · split
          · exact Or.inl ⟨rfl, Fr.refl c⟩
          · by_cases hhe : c.header.isEmpty = true
            · simp only [hhe, if_true]
              exact Or.inl ⟨rfl, Fr.refl c⟩
            · simp only [hhe, Bool.false_eq_true, if_false]
              have := headerReceived_fr { c with hdrSize := c.hdrSize + l.length } c.header
              exact Or.inl ⟨this.2, this.1⟩

theorem acr_Res (app : App) (c c0 : Chan) (hf : Fr c c0) : Res app c (allContentReceived app c0) :=
  Or.inr ⟨c0, [], rfl, hf, rfl, rfl⟩

theorem rawDataReceived_res (app : App) (c : Chan) (d : Bytes) (hh : c.handling = false) :
    Res app c (rawDataReceived app c d) := by
  unfold rawDataReceived finishRequestBody
  rw [if_neg (by simp [hh])]
  split
  · exact Or.inl ⟨rfl, Fr.refl c⟩
  · split
    · exact Or.inl ⟨rfl, Fr.refl c⟩
    · split
      · exact Or.inl ⟨rfl, Fr.refl c⟩
      · exact acr_Res app c _ ⟨rfl, rfl, rfl⟩
  · split
    · exact Or.inl ⟨chan_badRequest _, Fr.refl c⟩
    · exact Or.inl ⟨rfl, Fr.refl c⟩
    · split
      · exact Or.inl ⟨rfl, Fr.refl c⟩
      · exact acr_Res app c _ ⟨rfl, rfl, rfl⟩

/-! ### the receive loop -/

theorem raw_handling (app : App) (c : Chan) (buf : Bytes) (hh : c.handling = true) :
    (rawDataReceived app c buf).2.all isQuiet = true ∧ Fr c (rawDataReceived app c buf).1 ∧
    (rawDataReceived app c buf).1.lineMode = c.lineMode ∧ (rawDataReceived app c buf).1.handling = c.handling := by
  have e : rawDataReceived app c buf =
      ({ c with dataBuffer := c.dataBuffer ++ buf },
        if (c.dataBuffer ++ buf).length > optimisticEagerReadSize ∧ !c.waiting then [.tpause true] else []) := by
    simp [rawDataReceived, hh]
  rw [e]
  refine ⟨?_, ⟨rfl, rfl, rfl⟩, rfl, rfl⟩
  dsimp only
  split <;> simp [isQuiet]

theorem stepLoop_J {app ex o c} (h : J app ex false o c) (buf : Bytes) :
    J app ex false (o ++ (stepLoop app c buf).outs) (stepLoop app c buf).chan := by
  have hlose : J app ex false (o ++ [Out.lose]) { c with closed := true } :=
    J_quiet h { c with closed := true } ⟨rfl, rfl, rfl⟩ rfl rfl [Out.lose] rfl
  unfold stepLoop
  split
  · rename_i hl
    have hi := h.i1 hl
    split
    · split
      · exact hlose
      · simpa using h
    · split
      · exact hlose
      · rename_i i _ _
        have := Res_J h hi _ (lineReceived_res app c (buf.take i))
        exact ⟨this.t, this.i1, this.i2, this.pend⟩
  · by_cases hh : c.handling = true
    · obtain ⟨hq, hf, e1, e2⟩ := raw_handling app c buf hh
      have := J_quiet h _ hf e1 e2 _ hq
      exact ⟨this.t, this.i1, this.i2, this.pend⟩
    · have hh' : c.handling = false := by simpa using hh
      have := Res_J h (h.i2 hh') _ (rawDataReceived_res app c buf hh')
      exact ⟨this.t, this.i1, this.i2, this.pend⟩

theorem drain_J {app ex} (fuel : Nat) {o c} (h : J app ex false o c) (buf : Bytes) :
    J app ex false (o ++ (drain app fuel c buf).2.2) (drain app fuel c buf).1 := by
  induction fuel generalizing o c buf with
  | zero => simpa [drain] using h
  | succ n ih =>
    rw [drain]
    split
    · simpa using h
    · have hs := stepLoop_J h buf
      simp only
      split
      · exact hs
      · split
        · have := ih hs (stepLoop app c buf).buffer
          simpa [List.append_assoc] using this
        · exact ⟨hs.t, hs.i1, hs.i2, hs.pend⟩

end TwistedProps.C21
