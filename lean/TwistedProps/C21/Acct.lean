import TwistedProps.C21.Trace
/-!
C21 lemmas, part 2: the invariant of the outputs of a connection, and how each kind of output keeps it.

`T app ex lost o n f`: the outputs `o` so far were accepted by the automaton `alt`, which is now in state
`(n, f)` (`n` requests handed over, `f` = one is in flight), and for EVERY request number `k` the firings of
its Deferreds are exactly what they should be (`expected`):
* `k` finished (`fin`): one batch, with `None`, of all the Deferreds the application took in
  `requestReceived` (`nfOf`) — unless `k` is the one request `ex` whose `requestDone` has run but whose
  `_cleanup` loop has not yet (it runs after the buffered pipelined data was replayed): nothing yet;
* `k` in flight: one batch with a failure if the connection was lost, nothing otherwise;
* `k` not handed over yet: nothing.
-/
namespace TwistedProps.C21
open Twisted.Http.Chunked hiding St feed init
open Twisted.Http.Channel

/-- request `k` has finished, in automaton state `(n, f)` -/
def fin (n : Nat) (f : Bool) (k : Nat) : Prop := k + 1 + b2n f ≤ n

instance (n : Nat) (f : Bool) (k : Nat) : Decidable (fin n f k) := by unfold fin; exact inferInstance

/-- number of `notifyFinish()` Deferreds the application took for request `k` -/
def nfOf (app : App) (k : Nat) (o : List Out) : Nat :=
  match (delivered o)[k]? with
  | some r => app.notifies k r
  | none => 0

def expected (app : App) (ex : Option Nat) (lost : Bool) (o : List Out) (n : Nat) (f : Bool) (k : Nat) : List Out :=
  if fin n f k then (if ex = some k then [] else notifyOuts k (nfOf app k o) true)
  else if k + 1 = n ∧ lost = true then notifyOuts k (nfOf app k o) false
  else []

structure T (app : App) (ex : Option Nat) (lost : Bool) (o : List Out) (n : Nat) (f : Bool) : Prop where
  alt : alt 0 false o = some (n, f)
  acc : ∀ k, notifs k o = expected app ex lost o n f k
  exlt : ∀ k, ex = some k → fin n f k

theorem T.nreq {app ex lost o n f} (h : T app ex lost o n f) : nReq o = n := by
  have := alt_counts _ _ _ _ _ h.alt; omega

theorem T.ndone {app ex lost o n f} (h : T app ex lost o n f) : nDone o + b2n f = n := by
  have := alt_counts _ _ _ _ _ h.alt; simp [b2n] at this ⊢; omega

theorem nfOf_append_lt (app : App) (k : Nat) (o o' : List Out) (h : k < nReq o) :
    nfOf app k (o ++ o') = nfOf app k o := by
  unfold nfOf nReq at *
  rw [delivered_append, List.getElem?_append_left h]

theorem nfOf_append_nodeliv (app : App) (k : Nat) (o o' : List Out) (h : delivered o' = []) :
    nfOf app k (o ++ o') = nfOf app k o := by
  unfold nfOf
  rw [delivered_append, h, List.append_nil]

theorem nfOf_req (app : App) (o : List Out) (r : Req) (o' : List Out) :
    nfOf app (nReq o) (o ++ Out.req r :: o') = app.notifies (nReq o) r := by
  unfold nfOf nReq
  rw [delivered_append]
  simp [delivered]

theorem notifs_req (k : Nat) (r : Req) : notifs k [.req r] = [] := rfl
theorem notifs_done (k j : Nat) : notifs k [.done j] = [] := rfl
theorem notifs_appw (k j : Nat) (w : Bytes) : notifs k [.appWrite j w] = [] := rfl

theorem T_init (app : App) : T app none false [] 0 false :=
  ⟨rfl, fun k => by simp [notifs, expected, fin], fun k h => by simp at h⟩

/-- `requestReceived` when no request is in flight -/
theorem T_req {app ex o n} (h : T app ex false o n false) (r : Req) :
    T app ex false (o ++ [.req r]) (n + 1) true := by
  have hn := h.nreq
  refine ⟨by rw [alt_append_some _ h.alt]; simp [alt], fun k => ?_, fun k hk => ?_⟩
  · rw [notifs_append, h.acc k, notifs_req, List.append_nil]
    unfold expected fin b2n
    by_cases hk : k < n
    · rw [nfOf_append_lt app k o _ (by omega)]
      grind
    · grind
  · have := h.exlt k hk
    unfold fin b2n at this ⊢
    grind

/-- the channel's own outputs while no request is in flight -/
theorem T_chan {app ex o n} (h : T app ex false o n false) (o' : List Out) (hc : o'.all isChan = true) :
    T app ex false (o ++ o') n false := by
  refine ⟨by rw [alt_append_some _ h.alt]; exact alt_chan _ _ hc, fun k => ?_, h.exlt⟩
  rw [notifs_append, notifs_chan k o' hc, List.append_nil, h.acc k]
  unfold expected
  rw [nfOf_append_nodeliv app k o o' (delivered_chan o' hc)]

theorem chan_of_quiet (o : List Out) (hq : o.all isQuiet = true) : o.all isChan = true := by
  rw [List.all_eq_true] at hq ⊢
  exact fun x hx => isChan_of_isQuiet x (hq x hx)

/-- producer calls and `loseConnection` at any time -/
theorem T_quiet {app ex lost o n f} (h : T app ex lost o n f) (o' : List Out) (hq : o'.all isQuiet = true) :
    T app ex lost (o ++ o') n f := by
  have hc := chan_of_quiet o' hq
  refine ⟨by rw [alt_append_some _ h.alt]; exact alt_quiet _ _ _ hq, fun k => ?_, h.exlt⟩
  rw [notifs_append, notifs_chan k o' hc, List.append_nil, h.acc k]
  unfold expected
  rw [nfOf_append_nodeliv app k o o' (delivered_chan o' hc)]

/-- the application writes for the request in flight -/
theorem T_appw {app ex lost o n} (h : T app ex lost o (n + 1) true) (w : Bytes) :
    T app ex lost (o ++ [.appWrite n w]) (n + 1) true := by
  refine ⟨by rw [alt_append_some _ h.alt]; simp [alt], fun k => ?_, h.exlt⟩
  rw [notifs_append, h.acc k, notifs_appw, List.append_nil]
  unfold expected
  rw [nfOf_append_nodeliv app k o _ (by simp [delivered])]

/-- `requestDone` beneath `dataReceived`: the Deferreds fire right after it -/
theorem T_doneBusy {app ex o n} (h : T app ex false o (n + 1) true) (q : List Out) (hq : q.all isQuiet = true) :
    T app ex false (o ++ ([.done n] ++ q ++ notifyOuts n (nfOf app n o) true)) (n + 1) false := by
  have hqc := chan_of_quiet q hq
  have hex : ex ≠ some n := by
    intro he
    have := h.exlt n he
    unfold fin b2n at this
    simp at this
    omega
  have hd : delivered ([Out.done n] ++ q ++ notifyOuts n (nfOf app n o) true) = [] := by
    simp [delivered_append, delivered, delivered_chan q hqc, delivered_notifyOuts]
  refine ⟨?_, fun k => ?_, fun k hk => ?_⟩
  · rw [alt_append_some _ h.alt]
    simp only [List.cons_append, List.nil_append, alt, and_self, if_true]
    rw [alt_append, alt_quiet _ _ _ hq]
    exact alt_notifyOuts _ _ _ _ _ (Or.inl ⟨rfl, by simp [b2n]⟩)
  · rw [notifs_append, notifs_append, notifs_append, notifs_chan k q hqc, h.acc k, notifs_notifyOuts, notifs_done]
    unfold expected
    rw [nfOf_append_nodeliv app k o _ hd]
    unfold fin b2n
    grind
  · have := h.exlt k hk
    unfold fin b2n at this ⊢
    grind

/-- `requestDone` outside `dataReceived`: the Deferreds of `n` are owed -/
theorem T_doneLater {app o n} (h : T app none false o (n + 1) true) :
    T app (some n) false (o ++ [.done n]) (n + 1) false := by
  refine ⟨by rw [alt_append_some _ h.alt]; simp [alt], fun k => ?_, fun k hk => ?_⟩
  · rw [notifs_append, h.acc k, notifs_done, List.append_nil]
    unfold expected
    rw [nfOf_append_nodeliv app k o _ (by simp [delivered])]
    unfold fin b2n
    grind
  · unfold fin b2n
    grind

/-- the owed Deferreds fire -/
theorem T_fire {app o n f j} (h : T app (some j) false o n f) :
    T app none false (o ++ notifyOuts j (nfOf app j o) true) n f := by
  have hj := h.exlt j rfl
  refine ⟨by rw [alt_append_some _ h.alt]; exact alt_notifyOuts _ _ _ _ _ (Or.inl ⟨rfl, hj⟩), fun k => ?_, fun k hk => by simp at hk⟩
  rw [notifs_append, h.acc k, notifs_notifyOuts]
  unfold expected
  rw [nfOf_append_nodeliv app k o _ (delivered_notifyOuts _ _ _)]
  grind

/-- `connectionLost`: the Deferreds of the request in flight fire with a failure -/
theorem T_lost {app o n f} (h : T app none false o n f) :
    T app none true (o ++ (if f = true then notifyOuts (n - 1) (nfOf app (n - 1) o) false else [])) n f := by
  have hd : delivered (if f = true then notifyOuts (n - 1) (nfOf app (n - 1) o) false else []) = [] := by
    split
    · exact delivered_notifyOuts _ _ _
    · rfl
  have hnd := h.ndone
  refine ⟨?_, fun k => ?_, fun k hk => by simp at hk⟩
  · rw [alt_append_some _ h.alt]
    split
    · rename_i hf
      subst hf
      simp only [b2n] at hnd
      exact alt_notifyOuts _ _ _ _ _ (Or.inr ⟨rfl, rfl, by simp at hnd; omega⟩)
    · rfl
  · rw [notifs_append, h.acc k]
    unfold expected
    rw [nfOf_append_nodeliv app k o _ hd]
    unfold fin
    cases f
    · simp only [b2n] at hnd ⊢
      simp [notifs]
      grind
    · simp only [b2n] at hnd ⊢
      simp only [if_true, notifs_notifyOuts]
      grind

end TwistedProps.C21
