import TwistedModel.Http.Channel
/-!
C21 lemmas, part 1: what is read off the list of outputs of a connection (`List Out`).

* `nReq`, `nDone` — how many requests were handed to the application / how many `requestDone` ran;
* `notifs k` — the firings of the `notifyFinish` Deferreds of request `k`, in order;
* `alt` — the automaton "one request at a time": its state is (requests handed over so far, is one in
  flight); `requestReceived` is only accepted when none is in flight, `requestDone(k)` and the
  application's writes for `k` only while `k` is the request in flight, the channel's own writes
  (`100 Continue`, `400 Bad Request`) only when none is; Deferreds of `k` fire with `None` only once `k` is
  done, with a failure only while `k` is the request in flight.
-/
namespace TwistedProps.C21
open Twisted.Http.Chunked hiding St feed init
open Twisted.Http.Channel

theorem written_append (a b : List Out) : written (a ++ b) = written a ++ written b := by
  induction a with
  | nil => rfl
  | cons x r ih => cases x <;> simp [written, ih]

theorem delivered_append (a b : List Out) : delivered (a ++ b) = delivered a ++ delivered b := by
  induction a with
  | nil => rfl
  | cons x r ih => cases x <;> simp [delivered, ih]

/-- number of `requestReceived` -/
def nReq (o : List Out) : Nat := (delivered o).length

def isDone : Out → Bool
  | .done _ => true
  | _ => false

/-- number of `requestDone` -/
def nDone (o : List Out) : Nat := (o.filter isDone).length

def isNotifyOf (k : Nat) : Out → Bool
  | .notify j _ _ => j == k
  | _ => false

/-- the firings of the Deferreds of request `k` -/
def notifs (k : Nat) (o : List Out) : List Out := o.filter (isNotifyOf k)

theorem nReq_append (a b : List Out) : nReq (a ++ b) = nReq a + nReq b := by
  simp [nReq, delivered_append]

theorem nDone_append (a b : List Out) : nDone (a ++ b) = nDone a + nDone b := by
  simp [nDone]

theorem notifs_append (k : Nat) (a b : List Out) : notifs k (a ++ b) = notifs k a ++ notifs k b := by
  simp [notifs]

/-- producer calls and `loseConnection` -/
def isQuiet : Out → Bool
  | .tpause _ => true
  | .lose => true
  | _ => false

/-- what the channel does on its own account: its own writes, producer calls, `loseConnection` -/
def isChan : Out → Bool
  | .write _ => true
  | .tpause _ => true
  | .lose => true
  | _ => false

theorem isChan_of_isQuiet (x : Out) (h : isQuiet x = true) : isChan x = true := by
  cases x <;> simp_all [isQuiet, isChan]

theorem delivered_chan (o : List Out) (h : o.all isChan = true) : delivered o = [] := by
  induction o with
  | nil => rfl
  | cons x r ih => cases x <;> simp_all [delivered, isChan]

theorem notifs_chan (k : Nat) (o : List Out) (h : o.all isChan = true) : notifs k o = [] := by
  induction o with
  | nil => rfl
  | cons x r ih => cases x <;> simp_all [notifs, isNotifyOf, isChan]

theorem nDone_chan (o : List Out) (h : o.all isChan = true) : nDone o = 0 := by
  induction o with
  | nil => rfl
  | cons x r ih => cases x <;> simp_all [nDone, isDone, isChan]

theorem notifs_notifyOuts (k j n : Nat) (ok : Bool) :
    notifs k (notifyOuts j n ok) = if j = k then notifyOuts j n ok else [] := by
  unfold notifyOuts notifs
  by_cases hn : n = 0 <;> by_cases hj : j = k <;> simp [hn, hj, isNotifyOf]

theorem delivered_notifyOuts (j n : Nat) (ok : Bool) : delivered (notifyOuts j n ok) = [] := by
  unfold notifyOuts; split <;> simp [delivered]

/-! ### the automaton -/

def b2n (f : Bool) : Nat := if f then 1 else 0

def alt : Nat → Bool → List Out → Option (Nat × Bool)
  | n, f, [] => some (n, f)
  | n, f, .req _ :: t => if f = true then none else alt (n + 1) true t
  | n, f, .done j :: t => if f = true ∧ j + 1 = n then alt n false t else none
  | n, f, .appWrite j _ :: t => if f = true ∧ j + 1 = n then alt n f t else none
  | n, f, .write _ :: t => if f = true then none else alt n f t
  | n, f, .notify j _ ok :: t =>
    if (ok = true ∧ j + 1 + b2n f ≤ n) ∨ (ok = false ∧ f = true ∧ j + 1 = n) then alt n f t else none
  | n, f, .tpause _ :: t => alt n f t
  | n, f, .lose :: t => alt n f t

theorem alt_append (n : Nat) (f : Bool) (a b : List Out) :
    alt n f (a ++ b) = match alt n f a with
      | some g => alt g.1 g.2 b
      | none => none := by
  induction a generalizing n f with
  | nil => rfl
  | cons x r ih =>
    cases x <;> simp only [List.cons_append, alt] <;> first | exact ih _ _ | (split <;> first | rfl | exact ih _ _)

theorem alt_append_some {n : Nat} {f : Bool} {a : List Out} {n' : Nat} {f' : Bool} (b : List Out)
    (h : alt n f a = some (n', f')) : alt n f (a ++ b) = alt n' f' b := by
  rw [alt_append, h]

theorem alt_quiet (n : Nat) (f : Bool) (o : List Out) (h : o.all isQuiet = true) : alt n f o = some (n, f) := by
  induction o with
  | nil => rfl
  | cons x r ih => cases x <;> simp_all [alt, isQuiet]

theorem alt_chan (n : Nat) (o : List Out) (h : o.all isChan = true) : alt n false o = some (n, false) := by
  induction o with
  | nil => rfl
  | cons x r ih => cases x <;> simp_all [alt, isChan]

theorem alt_notifyOuts (n : Nat) (f : Bool) (j m : Nat) (ok : Bool)
    (h : (ok = true ∧ j + 1 + b2n f ≤ n) ∨ (ok = false ∧ f = true ∧ j + 1 = n)) :
    alt n f (notifyOuts j m ok) = some (n, f) := by
  unfold notifyOuts; split <;> simp [alt, h]

/-- the state of the automaton is determined by the counts -/
theorem nDone_cons (x : Out) (r : List Out) : nDone (x :: r) = (if isDone x = true then 1 else 0) + nDone r := by
  unfold nDone
  by_cases h : isDone x = true <;> simp [h] <;> omega

def isReq : Out → Bool
  | .req _ => true
  | _ => false

theorem nReq_cons (x : Out) (r : List Out) : nReq (x :: r) = (if isReq x = true then 1 else 0) + nReq r := by
  unfold nReq
  cases x <;> simp [delivered, isReq] <;> omega

theorem alt_counts (n : Nat) (f : Bool) (o : List Out) (n' : Nat) (f' : Bool) (h : alt n f o = some (n', f')) :
    n' = n + nReq o ∧ nReq o + b2n f = nDone o + b2n f' := by
  induction o generalizing n f with
  | nil => simp [alt] at h; simp [h.1, h.2, nReq, nDone, delivered]
  | cons x r ih =>
    cases x <;> simp only [alt] at h
    case req q =>
      split at h
      · simp at h
      · rename_i hf
        have := ih _ _ h
        have hf' : f = false := by simpa using hf
        subst hf'
        simp [nReq_cons, nDone_cons, isReq, isDone, b2n] at this ⊢; omega
    case done j =>
      split at h
      · rename_i hf
        have := ih _ _ h
        obtain ⟨hf1, _⟩ := hf
        subst hf1
        simp [nReq_cons, nDone_cons, isReq, isDone, b2n] at this ⊢; omega
      · simp at h
    case appWrite j w =>
      split at h
      · have := ih _ _ h
        simp [nReq_cons, nDone_cons, isReq, isDone] at this ⊢; omega
      · simp at h
    case write w =>
      split at h
      · simp at h
      · have := ih _ _ h
        simp [nReq_cons, nDone_cons, isReq, isDone] at this ⊢; omega
    case notify j m ok =>
      split at h
      · have := ih _ _ h
        simp [nReq_cons, nDone_cons, isReq, isDone] at this ⊢; omega
      · simp at h
    all_goals
      have := ih _ _ h
      simp [nReq_cons, nDone_cons, isReq, isDone] at this ⊢; omega

/-- the automaton accepted a list with `x` in it: it accepted what came before, and `x` was allowed there -/
theorem alt_split (pre : List Out) (x : Out) (suf : List Out) (g : Nat × Bool)
    (h : alt 0 false (pre ++ x :: suf) = some g) :
    ∃ f : Bool, alt 0 false pre = some (nReq pre, f) ∧ nReq pre = nDone pre + b2n f ∧
      (alt (nReq pre) f [x]).isSome = true := by
  rw [alt_append] at h
  cases hp : alt 0 false pre with
  | none => rw [hp] at h; simp at h
  | some g' =>
    obtain ⟨n, f⟩ := g'
    rw [hp] at h
    have hc := alt_counts 0 false pre n f hp
    simp [b2n] at hc
    obtain ⟨hc1, hc2⟩ := hc
    subst hc1
    refine ⟨f, rfl, by simpa [b2n] using hc2, ?_⟩
    simp only at h
    cases x <;> simp only [alt] at h ⊢ <;> first | rfl | (split <;> first | rfl | (rename_i hh; simp [hh] at h))

end TwistedProps.C21
