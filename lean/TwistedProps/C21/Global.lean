import TwistedProps.C21.Reach
/-!
C21 lemmas, part 5: what the invariant says about a list of outputs accepted by the automaton —
membership of `requestDone(k)`, and the bytes written as a concatenation per request.
-/
namespace TwistedProps.C21
open Twisted.Http.Chunked hiding St feed init
open Twisted.Http.Channel

/-- `requestDone` ran for exactly the request numbers below `nDone` -/
theorem done_mem_alt (n : Nat) (f : Bool) (o : List Out) (n' : Nat) (f' : Bool) (k : Nat)
    (hnf : b2n f ≤ n) (h : alt n f o = some (n', f')) :
    Out.done k ∈ o ↔ (n - b2n f ≤ k ∧ k + b2n f' < n') := by
  induction o generalizing n f with
  | nil =>
    simp [alt] at h
    obtain ⟨h1, h2⟩ := h
    subst h1 h2
    simp
  | cons x r ih =>
    cases x <;> simp only [alt] at h
    case req q =>
      split at h
      · simp at h
      · rename_i hf
        have hf' : f = false := by simpa using hf
        subst hf'
        have := ih (n + 1) true (by simp [b2n]) h
        simp [b2n] at this ⊢
        rw [this]
    case done j =>
      split at h
      · rename_i hf
        obtain ⟨hf1, hj⟩ := hf
        subst hf1
        have := ih n false (by simp [b2n]) h
        have hc := alt_counts _ _ _ _ _ h
        simp [b2n] at this hc ⊢
        rw [this]
        cases f' <;> simp at hc ⊢ <;> omega
      · simp at h
    case appWrite j w =>
      split at h
      · have := ih n f hnf h
        simp at this ⊢
        rw [this]
      · simp at h
    case write w =>
      split at h
      · simp at h
      · have := ih n f hnf h
        simp at this ⊢
        rw [this]
    case notify j m ok =>
      split at h
      · have := ih n f hnf h
        simp at this ⊢
        rw [this]
      · simp at h
    all_goals
      have := ih n f hnf h
      simp at this ⊢
      rw [this]

theorem done_mem_iff (o : List Out) (g : Nat × Bool) (h : alt 0 false o = some g) (k : Nat) :
    Out.done k ∈ o ↔ k < nDone o := by
  obtain ⟨n, f⟩ := g
  have hc := alt_counts _ _ _ _ _ h
  rw [done_mem_alt 0 false o n f k (by simp [b2n]) h]
  simp [b2n] at hc ⊢
  cases f <;> simp at hc ⊢ <;> omega

/-! ### the bytes written, request by request -/

/-- the bytes the application wrote for request `k` (its response) -/
def resp (k : Nat) : List Out → Bytes
  | [] => []
  | .appWrite j w :: t => (if j = k then w else []) ++ resp k t
  | .write _ :: t => resp k t
  | .req _ :: t => resp k t
  | .done _ :: t => resp k t
  | .notify _ _ _ :: t => resp k t
  | .tpause _ :: t => resp k t
  | .lose :: t => resp k t

/-- the bytes the channel wrote on its own account (`100 Continue`, `400 Bad Request`) while exactly `k`
    requests had been handed over; `j` = number handed over before this list -/
def own (j k : Nat) : List Out → Bytes
  | [] => []
  | .write w :: t => (if j = k then w else []) ++ own j k t
  | .req _ :: t => own (j + 1) k t
  | .appWrite _ _ :: t => own j k t
  | .done _ :: t => own j k t
  | .notify _ _ _ :: t => own j k t
  | .tpause _ :: t => own j k t
  | .lose :: t => own j k t

/-- `g j ++ g (j+1) ++ … ` (`c` terms) -/
def catN (g : Nat → Bytes) : Nat → Nat → Bytes
  | _, 0 => []
  | j, c + 1 => g j ++ catN g (j + 1) c

theorem catN_congr (g g' : Nat → Bytes) (j c : Nat) (h : ∀ k, j ≤ k → g k = g' k) : catN g j c = catN g' j c := by
  induction c generalizing j with
  | zero => rfl
  | succ c ih => simp only [catN]; rw [h j (Nat.le_refl _), ih (j + 1) (fun k hk => h k (by omega))]

theorem own_lt (j k : Nat) (o : List Out) (h : k < j) : own j k o = [] := by
  induction o generalizing j with
  | nil => rfl
  | cons x t ih =>
    cases x <;> simp only [own] <;> first | exact ih j h | skip
    · rw [if_neg (by omega), ih j h]; rfl
    · exact ih (j + 1) (by omega)

theorem resp_fin (j : Nat) (f : Bool) (o : List Out) (g : Nat × Bool) (k : Nat) (h : alt j f o = some g)
    (hk : k + 1 + b2n f ≤ j) : resp k o = [] := by
  induction o generalizing j f with
  | nil => rfl
  | cons x t ih =>
    cases x <;> simp only [alt] at h <;> simp only [resp]
    case req q =>
      split at h
      · simp at h
      · rename_i hf
        have hf' : f = false := by simpa using hf
        subst hf'
        exact ih _ _ h (by simp [b2n] at hk ⊢; omega)
    case done i =>
      split at h
      · rename_i hf
        obtain ⟨hf1, _⟩ := hf
        subst hf1
        exact ih _ _ h (by simp [b2n] at hk ⊢; omega)
      · simp at h
    case appWrite i w =>
      split at h
      · rename_i hf
        obtain ⟨hf1, hi⟩ := hf
        subst hf1
        simp [b2n] at hk
        rw [if_neg (by omega), ih _ _ h (by simp [b2n]; omega)]; rfl
      · simp at h
    case write w =>
      split at h
      · simp at h
      · exact ih _ _ h hk
    case notify i m ok =>
      split at h
      · exact ih _ _ h hk
      · simp at h
    all_goals exact ih _ _ h hk

/-- the bytes written, from automaton state `(j, f)` on -/
theorem written_alt (j : Nat) (f : Bool) (o : List Out) (n : Nat) (f' : Bool) (h : alt j f o = some (n, f')) :
    written o = (if f = true then resp (j - 1) o else []) ++ catN (fun k => own j k o ++ resp k o) j (n + 1 - j) := by
  induction o generalizing j f with
  | nil =>
    simp [alt] at h
    obtain ⟨h1, h2⟩ := h
    subst h1
    have : j + 1 - j = 1 := by omega
    simp [written, resp, own, catN, this]
  | cons x t ih =>
    have hc := alt_counts _ _ _ _ _ h
    cases x <;> simp only [alt] at h
    case req q =>
      split at h
      · simp at h
      · rename_i hf
        have hf' : f = false := by simpa using hf
        subst hf'
        have hc' := alt_counts _ _ _ _ _ h
        have e : n + 1 - j = (n + 1 - (j + 1)) + 1 := by omega
        rw [e]
        simp only [written, catN, own, resp, Bool.false_eq_true, if_false, List.nil_append]
        rw [ih _ _ h, own_lt (j + 1) j t (by omega)]
        simp only [if_true, Nat.add_sub_cancel, List.nil_append]
    case done i =>
      split at h
      · rename_i hf
        obtain ⟨hf1, hi⟩ := hf
        subst hf1
        simp only [written, own, resp, if_true]
        rw [ih _ _ h, resp_fin j false t _ (j - 1) h (by simp [b2n]; omega)]
        simp
      · simp at h
    case appWrite i w =>
      split at h
      · rename_i hf
        obtain ⟨hf1, hi⟩ := hf
        subst hf1
        have hij : i = j - 1 := by omega
        simp only [written, own, resp, if_true]
        rw [ih _ _ h, if_pos hij]
        simp only [if_true, List.append_assoc]
        congr 2
        exact catN_congr _ _ _ _ (fun k hk => by rw [if_neg (by omega)]; rfl)
      · simp at h
    case write w =>
      split at h
      · simp at h
      · rename_i hf
        have hf' : f = false := by simpa using hf
        subst hf'
        have hc' := alt_counts _ _ _ _ _ h
        have e : n + 1 - j = (n - j) + 1 := by omega
        simp only [written, resp, Bool.false_eq_true, if_false, List.nil_append]
        rw [ih _ _ h, e]
        simp only [catN, own, Bool.false_eq_true, if_false, List.nil_append, if_true, List.append_assoc]
        congr 3
        exact catN_congr _ _ _ _ (fun k hk => by rw [if_neg (by omega)]; rfl)
    case notify i m ok =>
      split at h
      · simp only [written, own, resp]
        exact ih _ _ h
      · simp at h
    all_goals
      simp only [written, own, resp]
      exact ih _ _ h

end TwistedProps.C21
