import TwistedModel.Mail.Utf7
import TwistedModel.Mail.Xtext
import TwistedModel.Drv.C41
import TwistedProps.C41.Gen
/-!
C41 — mail text codecs round-trip.

*IMAP4 modified UTF-7* (`imap4.encoder` / `imap4.decoder`, codec "imap4-utf-7"; model
`TwistedModel/Mail/Utf7.lean`).  For every text: the encoder's output is printable ASCII
(`utf7_output_printable`) and is the rendering of a well-formed RFC 3501 §5.1.3 token list
whose meaning is the text (`utf7_output_rfc3501`); for every text without surrogate code
points the decoder maps it back (`utf7_decode_encode`).  More generally the decoder reads
every well-formed rendering as its meaning (`utf7_decode_render`).  The decoder goes through
CPython's own utf-7 decoder; `unbase64_base64` is the bit-level inversion of
UTF-16BE + base64 by that decoder's shift machine.

*SMTP xtext* (`smtp.xtext_encode` / `smtp.xtext_decode`; model `TwistedModel/Mail/Xtext.lean`).
For every byte string the encoding is RFC 3461 `xtext` (`xtext_output_rfc3461`), printable
(`xtext_output_printable`), and decodes back to the same values (`xtext_decode_encode`).
`gen_*`: `xtext_encode` is regenerated from smtp.py on every run (`Generated.Xtext`, harness/py2lean.py: the loop over
`iterbytes(s)` as a fold) and proved equal to the model's `encode` (`TwistedProps/C41/Gen.lean`).

*Histories* (`utf7_history_decode_encode`, `xtext_history_decode_encode`, `history_outputs_in_form`): the differential
run also replays several round trips made one after the other in one interpreter (driver ops `u7seq`/`xseq`); in the
model no answer depends on an earlier call, stated for the functions the driver runs (`Twisted.Drv.C41.seqU7`/`seqX`).
The round-trip and form theorems quantify over ALL texts / byte strings, so the long inputs, Unicode-special strings and
look-alike texts added to the case generator by the mutation audit (harness/mutants/C41) are inside them as they stand.

Both codecs violated the statement before the repair recorded in known-findings
(`fixed: property=C41 …`); the unrepaired encoders are kept in the model files as
`encodeLegacy` and the witnesses are the `…_legacy_counterexample` theorems at the end.
-/
namespace TwistedProps.C41
open Twisted.Mail

/-! ## SMTP xtext -/

/-- RFC 3461 §4: `xchar` = any ASCII character from `!` to `~` except `+` and `=` -/
def isXchar (c : UInt8) : Bool := 33 ≤ c.toNat && c.toNat ≤ 126 && c != 43 && c != 61
/-- RFC 3461 §4: hex digits of a `hexchar` are upper case -/
def isUpHex (c : UInt8) : Bool := (48 ≤ c.toNat && c.toNat ≤ 57) || (65 ≤ c.toNat && c.toNat ≤ 70)

/-- recogniser for `xtext = *( xchar / hexchar )`, `hexchar = "+" 2(%x30-39 / %x41-46)` -/
def xtextForm : List UInt8 → Bool
  | [] => true
  | 43 :: h1 :: h2 :: rest => isUpHex h1 && isUpHex h2 && xtextForm rest
  | c :: rest => isXchar c && xtextForm rest

theorem xtext_hex_roundtrip : ∀ n, n < 256 →
    Xtext.pyIntHex [Xtext.hexDigit (n / 16), Xtext.hexDigit (n % 16)] = some n := by decide +kernel

theorem xtext_hexDigit_upHex : ∀ n, n < 16 → isUpHex (Xtext.hexDigit n) = true := by decide

theorem xtext_decLoop_esc (a b : UInt8) (rest : List UInt8) (r : List Nat) (v : Nat)
    (h : Xtext.pyIntHex [a, b] = some v) :
    Xtext.decLoop (43 :: a :: b :: rest) r = Xtext.decLoop rest (r ++ [v]) := by
  rw [Xtext.decLoop, h]

theorem xtext_decLoop_lit (c : UInt8) (rest : List UInt8) (r : List Nat) (h : c ≠ 43) :
    Xtext.decLoop (c :: rest) r =
      if c.toNat < 128 then Xtext.decLoop rest (r ++ [c.toNat]) else .error .unicodeDecode := by
  rw [Xtext.decLoop]
  all_goals simp_all


/-- one input byte of `xtext_encode` -/
def xpiece (ch : UInt8) : List UInt8 :=
  if (ch = 43 || ch = 61) || ch.toNat < 33 || ch.toNat > 126 then Xtext.hexEsc ch.toNat else [ch]

theorem xtext_encode_cons (ch : UInt8) (s : List UInt8) :
    Xtext.encode (ch :: s) = xpiece ch ++ Xtext.encode s := by
  simp [Xtext.encode, Xtext.encodeWith, xpiece]

theorem xtext_decLoop_piece (ch : UInt8) (rest : List UInt8) (r : List Nat) :
    Xtext.decLoop (xpiece ch ++ rest) r = Xtext.decLoop rest (r ++ [ch.toNat]) := by
  unfold xpiece
  split
  · have := xtext_hex_roundtrip ch.toNat ch.toNat_lt
    simp only [Xtext.hexEsc, List.cons_append, List.nil_append]
    rw [xtext_decLoop_esc _ _ _ _ _ this]
  · rename_i h
    simp only [Bool.or_eq_true, decide_eq_true_eq, not_or] at h
    have h43 : ch ≠ 43 := by
      intro e; subst e; simp at h
    simp only [List.cons_append, List.nil_append]
    rw [xtext_decLoop_lit _ _ _ h43]
    have : ch.toNat < 128 := by omega
    simp [this]

/-- **C41 (xtext, round trip)**: for every byte string, decoding the encoding gives back a
    `str` whose code points are exactly the bytes. -/
theorem xtext_decode_encode (b : List UInt8) :
    Xtext.decode (Xtext.encode b) = .ok (b.map UInt8.toNat) := by
  unfold Xtext.decode
  suffices h : ∀ r, Xtext.decLoop (Xtext.encode b) r = .ok (r ++ b.map UInt8.toNat) by simpa using h []
  induction b with
  | nil => intro r; simp [Xtext.encode, Xtext.encodeWith, Xtext.decLoop]
  | cons ch s ih =>
    intro r
    rw [xtext_encode_cons, xtext_decLoop_piece, ih]
    simp


theorem xtextForm_esc (a b : UInt8) (rest : List UInt8) :
    xtextForm (43 :: a :: b :: rest) = (isUpHex a && isUpHex b && xtextForm rest) := by
  rw [xtextForm]

theorem xtextForm_lit (c : UInt8) (rest : List UInt8) (h : c ≠ 43) :
    xtextForm (c :: rest) = (isXchar c && xtextForm rest) := by
  rw [xtextForm]
  all_goals simp_all

theorem xtextForm_piece (ch : UInt8) (rest : List UInt8) :
    xtextForm (xpiece ch ++ rest) = xtextForm rest := by
  unfold xpiece
  split
  · simp only [Xtext.hexEsc, List.cons_append, List.nil_append]
    rw [xtextForm_esc, xtext_hexDigit_upHex _ (Nat.div_lt_of_lt_mul (by have := ch.toNat_lt; omega)),
      xtext_hexDigit_upHex _ (Nat.mod_lt _ (by decide))]
    simp
  · rename_i h
    simp only [Bool.or_eq_true, decide_eq_true_eq, not_or] at h
    have h43 : ch ≠ 43 := by
      intro e; subst e; simp at h
    simp only [List.cons_append, List.nil_append]
    rw [xtextForm_lit _ _ h43]
    have : isXchar ch = true := by
      simp only [isXchar, Bool.and_eq_true, decide_eq_true_eq, bne_iff_ne, ne_eq]
      exact ⟨⟨⟨by omega, by omega⟩, h.1.1.1⟩, h.1.1.2⟩
    simp [this]

/-- **C41 (xtext, form)**: the encoding of every byte string is RFC 3461 `xtext`. -/
theorem xtext_output_rfc3461 (b : List UInt8) : xtextForm (Xtext.encode b) = true := by
  induction b with
  | nil => simp [Xtext.encode, Xtext.encodeWith, xtextForm]
  | cons ch s ih => rw [xtext_encode_cons, xtextForm_piece, ih]

/-- anything the recogniser accepts is printable ASCII (`!` … `~`) -/
theorem xtextForm_printable (e : List UInt8) (h : xtextForm e = true) :
    ∀ c ∈ e, 33 ≤ c.toNat ∧ c.toNat ≤ 126 := by
  induction e using xtextForm.induct with
  | case1 => simp
  | case2 a b rest ih =>
    rw [xtextForm_esc] at h
    simp only [Bool.and_eq_true] at h
    intro c hc
    simp only [List.mem_cons] at hc
    rcases hc with rfl | rfl | rfl | hc
    · decide
    · have := h.1.1; simp [isUpHex] at this; omega
    · have := h.1.2; simp [isUpHex] at this; omega
    · exact ih h.2 c hc
  | case3 c rest hne ih =>
    rw [xtextForm] at h
    · simp only [Bool.and_eq_true] at h
      intro d hd
      simp only [List.mem_cons] at hd
      rcases hd with rfl | hd
      · have := h.1; simp [isXchar] at this; omega
      · exact ih h.2 d hd
    · exact hne

/-- **C41 (xtext, printable)**: only printable ASCII is produced. -/
theorem xtext_output_printable (b : List UInt8) :
    ∀ c ∈ Xtext.encode b, 33 ≤ c.toNat ∧ c.toNat ≤ 126 :=
  xtextForm_printable _ (xtext_output_rfc3461 b)


/-! # IMAP4 modified UTF-7 -/

section Utf7Part
open Twisted.Mail.Utf7

/-! ## bits -/

theorem natToBits_length (w n : Nat) : (natToBits w n).length = w := by
  induction w generalizing n with
  | zero => simp [natToBits]
  | succ w ih => simp [natToBits, ih]

theorem bitsToNat_snoc (bs : Bits) (b : Bool) :
    bitsToNat (bs ++ [b]) = 2 * bitsToNat bs + (if b then 1 else 0) := by
  simp [bitsToNat, List.foldl_append]

theorem bitsToNat_natToBits (w n : Nat) : bitsToNat (natToBits w n) = n % 2 ^ w := by
  induction w generalizing n with
  | zero => simp [natToBits, bitsToNat, Nat.mod_one]
  | succ w ih =>
    rw [natToBits, bitsToNat_snoc, ih, Nat.pow_succ', Nat.mod_mul]
    rcases Nat.mod_two_eq_zero_or_one n with h | h <;> simp [h] <;> omega

theorem natToBits_add (a b n : Nat) :
    natToBits (a + b) n = natToBits a (n / 2 ^ b) ++ natToBits b n := by
  induction b generalizing n with
  | zero => simp [natToBits]
  | succ b ih =>
    rw [← Nat.add_assoc, natToBits, ih, natToBits, Nat.div_div_eq_div_mul, ← Nat.pow_succ']
    simp

theorem natToBits_mod (w n : Nat) : natToBits w (n % 2 ^ w) = natToBits w n := by
  induction w generalizing n with
  | zero => simp [natToBits]
  | succ w ih =>
    rw [natToBits, natToBits]
    have h1 : n % 2 ^ (w + 1) / 2 = (n / 2) % 2 ^ w := by
      rw [Nat.pow_succ', Nat.mod_mul]
      omega
    have h2 : n % 2 ^ (w + 1) % 2 = n % 2 := by
      rw [Nat.pow_succ']
      exact Nat.mod_mul_right_mod n 2 (2 ^ w)
    rw [h1, h2, ih]

/-- a six-bit group survives `b64char` / `b64val?` / `natToBits 6` -/
theorem sextet_rt : ∀ a b c d e f : Bool,
    b64val? (b64char (bitsToNat [a, b, c, d, e, f])) = some (bitsToNat [a, b, c, d, e, f]) ∧
    natToBits 6 (bitsToNat [a, b, c, d, e, f]) = [a, b, c, d, e, f] := by decide


/-! ## chunk6 -/

theorem chunk6_length (bs : Bits) : ∀ g ∈ chunk6 bs, g.length = 6 := by
  fun_induction chunk6 bs <;> simp_all

theorem chunk6_flatten (bs : Bits) :
    ∃ k, k < 6 ∧ (chunk6 bs).flatten = bs ++ List.replicate k false := by
  fun_induction chunk6 bs with
  | case1 => exact ⟨0, by simp⟩
  | case2 a => exact ⟨5, by simp [List.replicate]⟩
  | case3 a b => exact ⟨4, by simp [List.replicate]⟩
  | case4 a b c => exact ⟨3, by simp [List.replicate]⟩
  | case5 a b c d => exact ⟨2, by simp [List.replicate]⟩
  | case6 a b c d e => exact ⟨1, by simp [List.replicate]⟩
  | case7 a b c d e f rest ih =>
    obtain ⟨k, hk, h⟩ := ih
    exact ⟨k, hk, by simp [h]⟩

theorem chunk6_ne_nil (bs : Bits) (h : bs ≠ []) : chunk6 bs ≠ [] := by
  fun_induction chunk6 bs <;> simp_all

/-! ## the bit-level shift machine -/

theorem absorb_append (st : Shift) (xs ys : Bits) :
    absorb st (xs ++ ys) = absorb (absorb st xs) ys := by
  simp [absorb, List.foldl_append]

theorem absorbBit_lt (pend : List Bool) (sur : Nat) (out : Text) (b : Bool) (h : pend.length + 1 < 16) :
    absorbBit ⟨pend, sur, out⟩ b = ⟨pend ++ [b], sur, out⟩ := by
  have : ¬ (pend ++ [b]).length = 16 := by
    rw [List.length_append, List.length_singleton]; omega
  simp only [absorbBit, if_neg this]

theorem absorbBit_eq (pend : List Bool) (sur : Nat) (out : Text) (b : Bool) (h : pend.length + 1 = 16) :
    absorbBit ⟨pend, sur, out⟩ b =
      ⟨[], (unitStep sur out (bitsToNat (pend ++ [b]))).1, (unitStep sur out (bitsToNat (pend ++ [b]))).2⟩ := by
  have : (pend ++ [b]).length = 16 := by
    rw [List.length_append, List.length_singleton]; omega
  simp only [absorbBit, if_pos this]

theorem absorb_cons (st : Shift) (b : Bool) (bs : List Bool) :
    absorb st (b :: bs) = absorb (absorbBit st b) bs := rfl

theorem absorb_fill (bs pend : List Bool) (sur : Nat) (out : Text)
    (h : pend.length + bs.length < 16) :
    absorb ⟨pend, sur, out⟩ bs = ⟨pend ++ bs, sur, out⟩ := by
  induction bs generalizing pend with
  | nil => simp [absorb]
  | cons b bs ih =>
    rw [List.length_cons] at h
    rw [absorb_cons, absorbBit_lt _ _ _ _ (by omega),
      ih (pend ++ [b]) (by rw [List.length_append, List.length_singleton]; omega)]
    simp

theorem absorb_unit (bs pend : List Bool) (sur : Nat) (out : Text)
    (h : pend.length + bs.length = 16) (hne : bs ≠ []) :
    absorb ⟨pend, sur, out⟩ bs =
      ⟨[], (unitStep sur out (bitsToNat (pend ++ bs))).1, (unitStep sur out (bitsToNat (pend ++ bs))).2⟩ := by
  induction bs generalizing pend with
  | nil => exact absurd rfl hne
  | cons b bs ih =>
    rw [List.length_cons] at h
    cases bs with
    | nil =>
      rw [List.length_nil] at h
      rw [absorb_cons, absorbBit_eq _ _ _ _ (by omega)]
      rfl
    | cons b' bs' =>
      rw [List.length_cons] at h
      rw [absorb_cons, absorbBit_lt _ _ _ _ (by omega),
        ih (pend ++ [b]) (by rw [List.length_append, List.length_singleton, List.length_cons]; omega) (by simp)]
      simp

/-- the UTF-16 decoding state machine of the shift sequence, run over whole code units -/
def unitsFold (sur : Nat) (out : Text) : List Nat → Nat × Text
  | [] => (sur, out)
  | u :: us => unitsFold (unitStep sur out u).1 (unitStep sur out u).2 us

theorem absorb_units (us : List Nat) (sur : Nat) (out : Text) (h : ∀ u ∈ us, u < 65536) :
    absorb ⟨[], sur, out⟩ (us.flatMap (natToBits 16)) =
      ⟨[], (unitsFold sur out us).1, (unitsFold sur out us).2⟩ := by
  induction us generalizing sur out with
  | nil => simp [absorb, unitsFold]
  | cons u us ih =>
    simp only [List.flatMap_cons]
    have h1 := absorb_unit (natToBits 16 u) [] sur out (by simp [natToBits_length])
      (by intro e; have := congrArg List.length e; simp [natToBits_length] at this)
    rw [absorb_append, h1]
    simp only [List.nil_append]
    rw [bitsToNat_natToBits, Nat.mod_eq_of_lt (h u (by simp)), ih _ _ (fun x hx => h x (by simp [hx]))]
    simp [unitsFold]


/-! ### the translator-regenerated `xtext_encode` (see `TwistedProps/C41/Gen.lean`) -/

/-- `xtext_encode` as regenerated from smtp.py = (the model's `encode`, `len(s)`), on every byte string -/
theorem gen_xtextEncode (s : List UInt8) : Generated.Xtext.xtextEncode s = (Xtext.encode s, s.length) :=
  gen_xtextEncode_eq s

/-- **xtext round trip over the regenerated encoder**: what the translated `xtext_encode` produces, the model's
    `xtext_decode` reads back as the same byte values -/
theorem gen_xtext_decode_encode (b : List UInt8) :
    Xtext.decode (Generated.Xtext.xtextEncode b).1 = .ok (b.map UInt8.toNat) := by
  rw [gen_xtextEncode]; exact xtext_decode_encode b

/-- the regenerated encoder's output is RFC 3461 `xtext` -/
theorem gen_xtext_output_rfc3461 (b : List UInt8) : xtextForm (Generated.Xtext.xtextEncode b).1 = true := by
  rw [gen_xtextEncode]; exact xtext_output_rfc3461 b

example : Generated.Xtext.xtextEncode [97, 43, 61, 32, 255] = ([97, 43, 50, 66, 43, 51, 68, 43, 50, 48, 43, 70, 70], 5) := by
  decide

/-! ## UTF-16 -/

/-- a code point that a `str` without lone surrogates can contain -/
def Scalar (c : Nat) : Prop := c < 0x110000 ∧ ¬ (0xD800 ≤ c ∧ c ≤ 0xDFFF)

instance (c : Nat) : Decidable (Scalar c) := by unfold Scalar; infer_instance

theorem units_lt (c : Nat) (h : c < 0x110000) : ∀ u ∈ units c, u < 65536 := by
  intro u hu
  unfold units at hu
  split at hu
  · simp at hu; omega
  · simp at hu; omega

theorem unitsFold_append (sur : Nat) (out : Text) (xs ys : List Nat) :
    unitsFold sur out (xs ++ ys) = unitsFold (unitsFold sur out xs).1 (unitsFold sur out xs).2 ys := by
  induction xs generalizing sur out with
  | nil => simp [unitsFold]
  | cons x xs ih => simp [unitsFold, ih]

theorem unitsFold_scalar_one (c : Nat) (out : Text) (h : Scalar c) :
    unitsFold 0 out (units c) = (0, out ++ [c]) := by
  obtain ⟨h1, h2⟩ := h
  unfold units
  split
  · have : isHigh c = false := by simp [isHigh]; omega
    simp [unitsFold, unitStep, this]
  · rename_i hc
    have hh : isHigh (0xD800 + (c - 0x10000) / 0x400) = true := by simp [isHigh]; omega
    have hl : isLow (0xDC00 + (c - 0x10000) % 0x400) = true := by simp [isLow]; omega
    have hne : 0xD800 + (c - 0x10000) / 0x400 ≠ 0 := by omega
    have hj : joinSur (0xD800 + (c - 0x10000) / 0x400) (0xDC00 + (c - 0x10000) % 0x400) = c := by
      unfold joinSur; omega
    simp [unitsFold, unitStep, hh, hl, hj]

theorem unitsFold_scalar (t : Text) (out : Text) (h : ∀ c ∈ t, Scalar c) :
    unitsFold 0 out (t.flatMap units) = (0, out ++ t) := by
  induction t generalizing out with
  | nil => simp [unitsFold]
  | cons c t ih =>
    simp only [List.flatMap_cons]
    rw [unitsFold_append, unitsFold_scalar_one c out (h c (by simp))]
    simp only
    rw [ih _ (fun x hx => h x (by simp [hx]))]
    simp

/-- the bits of the UTF-16BE bytes are the bits of the code units -/
theorem utf16be_bits (t : Text) (h : ∀ c ∈ t, c < 0x110000) :
    ((utf16be t).flatMap fun b => natToBits 8 b.toNat) = (t.flatMap units).flatMap (natToBits 16) := by
  induction t with
  | nil => simp [utf16be]
  | cons c t ih =>
    have ih' := ih (fun x hx => h x (by simp [hx]))
    simp only [utf16be] at ih' ⊢
    simp only [List.flatMap_cons, List.flatMap_append, ih']
    congr 1
    have hu := units_lt c (h c (by simp))
    generalize units c = us at hu
    induction us with
    | nil => simp
    | cons u us ihu =>
      have hlt : u < 65536 := hu u (by simp)
      simp only [List.flatMap_cons, List.flatMap_append]
      rw [ihu (fun x hx => hu x (by simp [hx]))]
      congr 1
      have e1 : (u / 256).toUInt8.toNat = u / 256 := by
        simp [Nat.toUInt8]; omega
      have e2 : (u % 256).toUInt8.toNat = u % 256 := by
        simp [Nat.toUInt8]
      rw [e1, e2, show (16 : Nat) = 8 + 8 from rfl, natToBits_add]
      congr 1
      exact (natToBits_mod 8 u)


/-! ## CPython's decoder on a rendered shift sequence -/

/-- the base64 characters of a list of six-bit groups -/
def chars (gs : List Bits) : Bytes := gs.map fun g => b64char (bitsToNat g)

theorem sextet_of_len (g : Bits) (h : g.length = 6) :
    b64val? (b64char (bitsToNat g)) = some (bitsToNat g) ∧ natToBits 6 (bitsToNat g) = g := by
  match g, h with
  | [a, b, c, d, e, f], _ => exact sextet_rt a b c d e f

theorem pyDec_shift_chars (gs : List Bits) (hg : ∀ g ∈ gs, g.length = 6) (rest : Bytes) (st : Shift) :
    pyDecFrom (chars gs ++ rest) (.shift st) = pyDecFrom rest (.shift (absorb st gs.flatten)) := by
  induction gs generalizing st with
  | nil => simp [chars, absorb]
  | cons g gs ih =>
    obtain ⟨h1, h2⟩ := sextet_of_len g (hg g (by simp))
    have := ih (fun x hx => hg x (by simp [hx])) (absorb st g)
    simp only [chars, List.map_cons, List.cons_append, List.flatten_cons] at this ⊢
    rw [pyDecFrom, h1]
    simp only [h2]
    rw [this, absorb_append]

theorem b64char_ne_minus : ∀ a b c d e f : Bool, b64char (bitsToNat [a, b, c, d, e, f]) ≠ 45 := by decide

theorem pyDec_plus_char (g : Bits) (h : g.length = 6) (rest : Bytes) (out : Text) :
    pyDecFrom (b64char (bitsToNat g) :: rest) (.plus out) =
      pyDecFrom rest (.shift (absorb ⟨[], 0, out⟩ g)) := by
  obtain ⟨h1, h2⟩ := sextet_of_len g h
  have hne : b64char (bitsToNat g) ≠ 45 := by
    match g, h with
    | [a, b, c, d, e, f], _ => exact b64char_ne_minus a b c d e f
  rw [pyDecFrom]
  simp only [hne, if_false, h1, h2]

/-- `modified_base64` then `,` → `/` is plain base64 -/
theorem unmap_map : ∀ a b c d e f : Bool,
    (fun c : UInt8 => if c = 44 then 47 else c)
      ((fun c : UInt8 => if c = 47 then 44 else c) (b64char (bitsToNat [a, b, c, d, e, f]))) =
      b64char (bitsToNat [a, b, c, d, e, f]) := by decide

theorem unmap_map_chars (gs : List Bits) (hg : ∀ g ∈ gs, g.length = 6) :
    ((chars gs).map fun c => if c = 47 then 44 else c).map (fun c => if c = 44 then 47 else c) = chars gs := by
  induction gs with
  | nil => simp [chars]
  | cons g gs ih =>
    have := ih (fun x hx => hg x (by simp [hx]))
    simp only [chars, List.map_cons, List.map_map] at this ⊢
    rw [this]
    congr 1
    match g, hg g (by simp) with
    | [a, b, c, d, e, f], _ => exact unmap_map a b c d e f

/-- **base64 / UTF-16 inversion**: CPython's utf-7 decoder reads `+` modified-base64(run) `-`
    (with `,` mapped back to `/`) as exactly `run`, for every non-empty run of scalar values. -/
theorem unbase64_base64 (run : Text) (hne : run ≠ []) (hs : ∀ c ∈ run, Scalar c) :
    modifiedUnbase64 (modifiedBase64 run) = .ok run := by
  have hlt : ∀ c ∈ run, c < 0x110000 := fun c hc => (hs c hc).1
  unfold modifiedUnbase64 modifiedBase64 b64nopad
  rw [utf16be_bits run hlt]
  generalize hB : (run.flatMap units).flatMap (natToBits 16) = B
  have hBne : B ≠ [] := by
    cases run with
    | nil => exact absurd rfl hne
    | cons c t =>
      intro e
      have := congrArg List.length e
      rw [← hB] at this
      simp [List.flatMap_cons, natToBits_length] at this
      unfold units at this
      split at this <;> simp at this
  have hg := chunk6_length B
  obtain ⟨k, hk, hflat⟩ := chunk6_flatten B
  have hcne := chunk6_ne_nil B hBne
  have e : (chunk6 B).map (fun g => b64char (bitsToNat g)) = chars (chunk6 B) := rfl
  rw [e, unmap_map_chars _ hg]
  generalize hgs : chunk6 B = gs at hg hflat hcne
  cases gs with
  | nil => exact absurd rfl hcne
  | cons g gs =>
    have hg0 := hg g (by simp)
    have hgs' : ∀ x ∈ gs, x.length = 6 := fun x hx => hg x (by simp [hx])
    simp only [pyDec, chars, List.map_cons, List.cons_append]
    rw [pyDecFrom]
    simp only [directStep, if_true]
    rw [pyDec_plus_char g hg0]
    have := pyDec_shift_chars gs hgs' [45] (absorb ⟨[], 0, []⟩ g)
    simp only [chars] at this
    rw [this, ← absorb_append]
    have hfl : g ++ gs.flatten = B ++ List.replicate k false := by simpa using hflat
    rw [hfl, absorb_append, ← hB, absorb_units _ _ _ (by
      intro u hu
      simp only [List.mem_flatMap] at hu
      obtain ⟨c, hc, hu⟩ := hu
      exact units_lt c (hlt c hc) u hu), unitsFold_scalar run [] hs]
    simp only [List.nil_append]
    rw [absorb_fill _ _ _ _ (by simp; omega)]
    rw [pyDecFrom]
    simp [b64val?, pyDecFrom]
    omega


/-! ## modified BASE64, as RFC 3501 defines it -/

/-- the modified BASE64 alphabet: `,` in place of `/` -/
def rfcChar (n : Nat) : UInt8 := if n = 63 then 44 else b64char n

/-- RFC 3501 §5.1.3 / RFC 2152: the UTF-16 code units of the run, most significant bit first,
    cut into six-bit groups (the last one padded with zero bits), no `=` padding -/
def rfcBase64 (run : Text) : Bytes :=
  (chunk6 ((run.flatMap units).flatMap (natToBits 16))).map fun g => rfcChar (bitsToNat g)

theorem rfcChar_eq : ∀ a b c d e f : Bool,
    (fun c : UInt8 => if c = 47 then 44 else c) (b64char (bitsToNat [a, b, c, d, e, f])) =
      rfcChar (bitsToNat [a, b, c, d, e, f]) := by decide

/-- `modified_base64` (UTF-16BE bytes through `binascii`, `/` replaced) is that definition -/
theorem modifiedBase64_eq_rfc (run : Text) (h : ∀ c ∈ run, c < 0x110000) :
    modifiedBase64 run = rfcBase64 run := by
  unfold modifiedBase64 b64nopad rfcBase64
  rw [utf16be_bits run h, List.map_map]
  apply List.map_congr_left
  intro g hg
  have hl := chunk6_length _ g hg
  match g, hl with
  | [a, b, c, d, e, f], _ => exact rfcChar_eq a b c d e f

/-! ## RFC 3501 §5.1.3 as a token grammar -/

/-- what a mailbox name in modified UTF-7 is made of -/
inductive Tok where
  | lit (c : Nat)      -- a printable US-ASCII character other than `&`, representing itself
  | amp                -- `&-`, representing `&`
  | b64 (run : Text)   -- `&` + modified BASE64 of the UTF-16BE form of `run` + `-` (`modifiedBase64_eq_rfc`)
  deriving Repr, DecidableEq

def Tok.render : Tok → Bytes
  | .lit c => [c.toUInt8]
  | .amp => [38, 45]
  | .b64 run => 38 :: modifiedBase64 run ++ [45]

def Tok.means : Tok → Text
  | .lit c => [c]
  | .amp => [38]
  | .b64 run => run

/-- printable US-ASCII other than `&` (octets 0x20-0x25 and 0x27-0x7e) -/
def Direct (c : Nat) : Prop := 0x20 ≤ c ∧ c ≤ 0x7e ∧ c ≠ 0x26
/-- printable US-ASCII (which modified BASE64 MUST NOT be used to represent) -/
def Printable (c : Nat) : Prop := 0x20 ≤ c ∧ c ≤ 0x7e

def Tok.WF : Tok → Prop
  | .lit c => Direct c
  | .amp => True
  | .b64 run => run ≠ [] ∧ ∀ c ∈ run, ¬ Printable c

/-- no superfluous shifts: a BASE64 section is never directly followed by another one -/
def NoNullShift : List Tok → Prop
  | .b64 _ :: .b64 _ :: _ => False
  | _ :: ts => NoNullShift ts
  | [] => True

def renderAll (ts : List Tok) : Bytes := ts.flatMap Tok.render
def meaning (ts : List Tok) : Text := ts.flatMap Tok.means

/-- the tokens `encoder` emits: `inn` is its pending `_in` run -/
def flushTok (inn : Text) : List Tok := if inn.isEmpty then [] else [.b64 inn]

def toksOf : Text → Text → List Tok
  | [], inn => flushTok inn
  | c :: s, inn =>
    if isValid c then flushTok inn ++ .lit c :: toksOf s []
    else if c = 0x26 then flushTok inn ++ .amp :: toksOf s []
    else toksOf s (inn ++ [c])

theorem flush_eq (inn : Text) (r : Bytes) :
    flush modifiedBase64 inn r = r ++ renderAll (flushTok inn) := by
  unfold flush flushTok renderAll
  split <;> simp [Tok.render, shiftSection]

theorem encLoop_eq (s inn : Text) (r : Bytes) :
    encLoop modifiedBase64 s inn r = r ++ renderAll (toksOf s inn) := by
  induction s generalizing inn r with
  | nil => simp [encLoop, toksOf, flush_eq]
  | cons c s ih =>
    rw [encLoop, toksOf]
    split
    · rw [ih, flush_eq]; simp [renderAll, Tok.render]
    · split
      · rw [ih, flush_eq]; simp [renderAll, Tok.render]
      · rw [ih]

theorem encode_eq (s : Text) : encode s = renderAll (toksOf s []) := by
  simp [encode, encLoop_eq]

theorem meaning_toksOf (s inn : Text) : meaning (toksOf s inn) = inn ++ s := by
  induction s generalizing inn with
  | nil => unfold toksOf flushTok meaning; split <;> simp_all [Tok.means]
  | cons c s ih =>
    rw [toksOf]
    have hf : meaning (flushTok inn) = inn := by
      unfold flushTok meaning; split <;> simp_all [Tok.means]
    split
    · simp only [meaning, List.flatMap_append, List.flatMap_cons] at ih hf ⊢
      rw [ih, hf]; simp [Tok.means]
    · split
      · rename_i h; subst h
        simp only [meaning, List.flatMap_append, List.flatMap_cons] at ih hf ⊢
        rw [ih, hf]; simp [Tok.means]
      · rw [ih]; simp

theorem isValid_iff (c : Nat) : isValid c = true ↔ Direct c := by
  simp [isValid, Direct]; omega

theorem wf_toksOf (s inn : Text) (hinn : ∀ c ∈ inn, ¬ Printable c) :
    ∀ t ∈ toksOf s inn, t.WF := by
  have hf : ∀ inn : Text, (∀ c ∈ inn, ¬ Printable c) → ∀ t ∈ flushTok inn, t.WF := by
    intro inn hinn t ht
    unfold flushTok at ht
    split at ht
    · simp at ht
    · rename_i hne
      simp only [List.mem_singleton] at ht
      subst ht
      exact ⟨by simpa using hne, hinn⟩
  induction s generalizing inn with
  | nil => simpa [toksOf] using hf inn hinn
  | cons c s ih =>
    rw [toksOf]
    split
    · rename_i hv
      intro t ht
      simp only [List.mem_append, List.mem_cons] at ht
      rcases ht with ht | rfl | ht
      · exact hf inn hinn t ht
      · exact (isValid_iff c).1 hv
      · exact ih [] (by simp) t ht
    · split
      · intro t ht
        simp only [List.mem_append, List.mem_cons] at ht
        rcases ht with ht | rfl | ht
        · exact hf inn hinn t ht
        · trivial
        · exact ih [] (by simp) t ht
      · rename_i hv hamp
        apply ih
        intro x hx
        simp only [List.mem_append, List.mem_singleton] at hx
        rcases hx with hx | rfl
        · exact hinn x hx
        · intro hp
          apply hv
          rw [isValid_iff]
          exact ⟨hp.1, hp.2, hamp⟩

theorem noNullShift_lit (c : Nat) (ts : List Tok) : NoNullShift (.lit c :: ts) = NoNullShift ts := by
  cases ts <;> simp [NoNullShift]
theorem noNullShift_amp (ts : List Tok) : NoNullShift (.amp :: ts) = NoNullShift ts := by
  cases ts <;> simp [NoNullShift]
theorem noNullShift_b64_lit (r : Text) (c : Nat) (ts : List Tok) :
    NoNullShift (.b64 r :: .lit c :: ts) = NoNullShift ts := by
  rw [NoNullShift, noNullShift_lit]
  all_goals simp
theorem noNullShift_b64_amp (r : Text) (ts : List Tok) :
    NoNullShift (.b64 r :: .amp :: ts) = NoNullShift ts := by
  rw [NoNullShift, noNullShift_amp]
  all_goals simp

theorem noNullShift_toksOf (s inn : Text) : NoNullShift (toksOf s inn) := by
  induction s generalizing inn with
  | nil => unfold toksOf flushTok; split <;> simp [NoNullShift]
  | cons c s ih =>
    rw [toksOf]
    split
    · unfold flushTok; split
      · simpa [noNullShift_lit] using ih []
      · simpa [noNullShift_b64_lit] using ih []
    · split
      · unfold flushTok; split
        · simpa [noNullShift_amp] using ih []
        · simpa [noNullShift_b64_amp] using ih []
      · exact ih _


/-! ## `decoder` on rendered tokens -/

theorem mb64_char_props : ∀ a b c d e f : Bool,
    (fun c : UInt8 => if c = 47 then 44 else c) (b64char (bitsToNat [a, b, c, d, e, f])) ≠ 45 ∧
    0x20 ≤ ((fun c : UInt8 => if c = 47 then 44 else c) (b64char (bitsToNat [a, b, c, d, e, f]))).toNat ∧
    ((fun c : UInt8 => if c = 47 then 44 else c) (b64char (bitsToNat [a, b, c, d, e, f]))).toNat ≤ 0x7e := by
  decide

theorem modifiedBase64_chars (run : Text) :
    ∀ x ∈ modifiedBase64 run, x ≠ 45 ∧ 0x20 ≤ x.toNat ∧ x.toNat ≤ 0x7e := by
  intro x hx
  unfold modifiedBase64 b64nopad at hx
  simp only [List.map_map, List.mem_map] at hx
  obtain ⟨g, hg, rfl⟩ := hx
  have hl := chunk6_length _ g hg
  match g, hl with
  | [a, b, c, d, e, f], _ => exact mb64_char_props a b c d e f

theorem modifiedBase64_ne_nil (run : Text) (h : run ≠ []) : modifiedBase64 run ≠ [] := by
  unfold modifiedBase64 b64nopad
  intro e
  simp only [List.map_eq_nil_iff] at e
  revert e
  apply chunk6_ne_nil
  cases run with
  | nil => exact absurd rfl h
  | cons c t =>
    intro e
    have := congrArg List.length e
    simp only [utf16be, List.flatMap_cons, List.length_nil] at this
    unfold units at this
    split at this <;> simp [natToBits_length] at this

theorem decLoop_collect (xs : Bytes) (hx : ∀ x ∈ xs, x ≠ 45) (rest d : Bytes) (out : Text) :
    decLoop (xs ++ 45 :: rest) (some d) out = decLoop (45 :: rest) (some (d ++ xs)) out := by
  induction xs generalizing d with
  | nil => simp
  | cons x xs ih =>
    simp only [List.cons_append]
    rw [decLoop]
    simp only [hx x (by simp), if_false]
    rw [ih (fun y hy => hx y (by simp [hy]))]
    simp

theorem decLoop_tok (t : Tok) (hw : t.WF) (hs : ∀ c ∈ t.means, Scalar c) (rest : Bytes) (out : Text) :
    decLoop (t.render ++ rest) none out = decLoop rest none (out ++ t.means) := by
  cases t with
  | lit c =>
    obtain ⟨h1, h2, h3⟩ := hw
    have e : c.toUInt8.toNat = c := by simp [Nat.toUInt8]; omega
    have hne : c.toUInt8 ≠ 38 := by
      intro h; have := congrArg UInt8.toNat h; rw [e] at this; exact h3 (by simpa using this)
    simp only [Tok.render, Tok.means, List.cons_append, List.nil_append]
    rw [decLoop]
    simp only [hne, if_false, e]
    rw [if_pos (by omega)]
  | amp =>
    simp only [Tok.render, Tok.means, List.cons_append, List.nil_append]
    rw [decLoop]; simp only [if_true]
    rw [decLoop]; simp
  | b64 run =>
    obtain ⟨hne, _⟩ := hw
    simp only [Tok.render, Tok.means, List.cons_append, List.append_assoc] at hs ⊢
    rw [decLoop]; simp only [if_true]
    rw [decLoop_collect _ (fun x hx => (modifiedBase64_chars run x hx).1)]
    rw [decLoop]; simp only [if_true, List.nil_append]
    have : (modifiedBase64 run).isEmpty = false := by
      simpa using modifiedBase64_ne_nil run hne
    rw [this, unbase64_base64 run hne hs]
    simp

theorem decLoop_toks (ts : List Tok) (hw : ∀ t ∈ ts, t.WF) (hs : ∀ c ∈ meaning ts, Scalar c)
    (rest : Bytes) (out : Text) :
    decLoop (renderAll ts ++ rest) none out = decLoop rest none (out ++ meaning ts) := by
  induction ts generalizing out with
  | nil => simp [renderAll, meaning]
  | cons t ts ih =>
    simp only [renderAll, meaning, List.flatMap_cons, List.append_assoc] at ih hs ⊢
    rw [decLoop_tok t (hw t (by simp)) (fun c hc => hs c (by simp [hc]))]
    rw [ih (fun x hx => hw x (by simp [hx])) (fun c hc => hs c (by simp [hc]))]
    simp

/-- **RFC 3501 reading**: `decoder` maps the rendering of *every* well-formed token list
    (not only the encoder's) to its meaning. -/
theorem utf7_decode_render (ts : List Tok) (hw : ∀ t ∈ ts, t.WF) (hs : ∀ c ∈ meaning ts, Scalar c) :
    decode (renderAll ts) = .ok (meaning ts) := by
  have := decLoop_toks ts hw hs [] []
  simpa [decode, decLoop] using this

/-- **C41 (modified UTF-7, form)**: for every text, the encoder's output is the rendering of
    a well-formed RFC 3501 token list (printable ASCII represents itself, `&` is `&-`, every
    other character sits in a BASE64 section that contains no printable ASCII, `,` for `/`,
    no padding, no two adjacent BASE64 sections) whose meaning is exactly the text. -/
theorem utf7_output_rfc3501 (s : Text) :
    ∃ ts : List Tok, renderAll ts = encode s ∧ meaning ts = s ∧ (∀ t ∈ ts, t.WF) ∧ NoNullShift ts :=
  ⟨toksOf s [], (encode_eq s).symm, by simpa using meaning_toksOf s [],
    wf_toksOf s [] (by simp), noNullShift_toksOf s []⟩

/-- **C41 (modified UTF-7, round trip)**: for every `str` without lone surrogates, decoding
    the encoding gives back the same `str`. -/
theorem utf7_decode_encode (s : Text) (hs : ∀ c ∈ s, Scalar c) : decode (encode s) = .ok s := by
  have hm : meaning (toksOf s []) = s := by simpa using meaning_toksOf s []
  rw [encode_eq, utf7_decode_render _ (wf_toksOf s [] (by simp)) (by rw [hm]; exact hs), hm]

/-- **C41 (modified UTF-7, printable)**: only printable ASCII is produced, for every text. -/
theorem utf7_output_printable (s : Text) : ∀ b ∈ encode s, 0x20 ≤ b.toNat ∧ b.toNat ≤ 0x7e := by
  rw [encode_eq]
  intro b hb
  simp only [renderAll, List.mem_flatMap] at hb
  obtain ⟨t, ht, hb⟩ := hb
  have hw := wf_toksOf s [] (by simp) t ht
  cases t with
  | lit c =>
    obtain ⟨h1, h2, _⟩ := hw
    simp only [Tok.render, List.mem_singleton] at hb
    subst hb
    have e : c.toUInt8.toNat = c := by simp [Nat.toUInt8]; omega
    rw [e]; exact ⟨h1, h2⟩
  | amp =>
    simp only [Tok.render, List.mem_cons, List.not_mem_nil, or_false] at hb
    rcases hb with rfl | rfl <;> decide
  | b64 run =>
    simp only [Tok.render, List.mem_cons, List.mem_append, List.not_mem_nil, or_false] at hb
    rcases hb with (rfl | hb) | rfl
    · decide
    · exact (modifiedBase64_chars run b hb).2
    · decide


/-! ## Non-vacuity -/

-- "H&\né😀-\t" : printable, `&`, LF, Latin-1, astral, `-`, TAB
example : ∀ c ∈ [72, 0x26, 10, 0xE9, 0x1F600, 0x2D, 9], Scalar c := by decide
example : encode [72, 0x26, 10, 0xE9, 0x1F600, 0x2D, 9] =
    [72, 38, 45, 38, 65, 65, 111, 65, 54, 100, 103, 57, 51, 103, 65, 45, 45, 38, 65, 65, 107, 45] := by decide
example : (match decode (encode [72, 0x26, 10, 0xE9, 0x1F600, 0x2D, 9]) with
    | .ok t => t == [72, 0x26, 10, 0xE9, 0x1F600, 0x2D, 9]
    | .error _ => false) = true := by decide +kernel
example : (Tok.b64 [10, 0xE9]).WF ∧ (Tok.lit 72).WF ∧ NoNullShift [.b64 [10], .amp, .b64 [0xE9], .lit 72] := by
  refine ⟨⟨by simp, ?_⟩, ?_, ?_⟩
  · intro c hc
    simp only [List.mem_cons, List.not_mem_nil, or_false] at hc
    rcases hc with rfl | rfl <;> simp [Printable]
  · simp [Tok.WF, Direct]
  · simp [NoNullShift]
-- the hypothesis of `utf7_decode_encode` is needed by the *statement*, and tight: a high
-- surrogate followed by a low one does not come back (CPython's decoder joins them)
example : (match decode (encode [0xD800, 0xDC00]) with
    | .ok t => t == [0x10000]
    | .error _ => false) = true := by decide +kernel

end Utf7Part

-- b"a+41=\x00\xff~ "
example : Xtext.encode [97, 43, 52, 49, 61, 0, 255, 126, 32] =
    [97, 43, 50, 66, 52, 49, 43, 51, 68, 43, 48, 48, 43, 70, 70, 126, 43, 50, 48] := by decide
example : (match Xtext.decode (Xtext.encode [97, 43, 52, 49, 61, 0, 255, 126, 32]) with
    | .ok t => t == [97, 43, 52, 49, 61, 0, 255, 126, 32]
    | .error _ => false) = true := by decide +kernel
example : xtextForm [43] = false ∧ xtextForm [43, 52, 97] = false ∧ xtextForm [61] = false := by decide

/-! ## Histories (driver ops `u7seq` / `xseq`)

The differential run also replays *histories*: several round trips made one after the other in the same interpreter
(a scratch buffer or a cache that survives a call would make an answer depend on the calls before it).  The model is a
function of its argument alone; stated for the functions the driver really runs (`Twisted.Drv.C41.seqU7` / `seqX`):
in ANY history every call answers with the encoding of its own argument, in RFC form, and with that argument decoded
back. -/

open Twisted.Drv.C41 in
/-- in any history of modified-UTF-7 round trips over surrogate-free texts, call `k` answers `enc=<encode tₖ> dec=<tₖ>` -/
theorem utf7_history_decode_encode (ts : List (List Nat)) (h : ∀ t ∈ ts, ∀ c ∈ t, Scalar c) :
    seqU7 ts = ts.map fun t => "enc=" ++ encBytes (Utf7.encode t) ++ " dec=" ++ encText t := by
  unfold seqU7
  apply List.map_congr_left
  intro t ht
  simp only [rtU7, utf7_decode_encode t (h t ht), showU7]

open Twisted.Drv.C41 in
/-- in any history of xtext round trips, call `k` answers `enc=<encode bₖ> dec=<bₖ>` -/
theorem xtext_history_decode_encode (bs : List (List UInt8)) :
    seqX bs = bs.map fun b => "enc=" ++ encBytes (Xtext.encode b) ++ " dec=" ++ encText (b.map UInt8.toNat) := by
  unfold seqX
  apply List.map_congr_left
  intro b _
  simp only [rtX, xtext_decode_encode b, showX]

/-- every encoding produced anywhere in a history is in RFC form (printable ASCII, RFC 3461 xtext) -/
theorem history_outputs_in_form (ts : List (List Nat)) (bs : List (List UInt8)) :
    (∀ e ∈ ts.map Utf7.encode, ∀ b ∈ e, 0x20 ≤ b.toNat ∧ b.toNat ≤ 0x7e) ∧
    (∀ e ∈ bs.map Xtext.encode, xtextForm e = true) := by
  constructor
  · intro e he
    obtain ⟨t, _, rfl⟩ := List.mem_map.mp he
    exact utf7_output_printable t
  · intro e he
    obtain ⟨b, _, rfl⟩ := List.mem_map.mp he
    exact xtext_output_rfc3461 b

-- "é" then "abc" then "é": the third answer is that of the first (nothing is left over from "é" when "abc" is encoded)
example : Twisted.Drv.C41.seqU7 [[0xE9], [97, 98, 99], [0xE9]] =
    ["enc=26414f6b2d dec=233", "enc=616263 dec=97,98,99", "enc=26414f6b2d dec=233"] := by decide +kernel
example : Twisted.Drv.C41.seqX [[97, 43], [], [97, 43]] = ["enc=612b3242 dec=97,43", "enc=- dec=-", "enc=612b3242 dec=97,43"] := by
  decide +kernel

/-! ## The defects of the unrepaired encoders (recorded witnesses) -/

/-- Before the repair `xtext_encode(b"a+41")` was `b"a+41"`, which `xtext_decode` reads as `"aA"`. -/
theorem xtext_legacy_counterexample :
    Xtext.encodeLegacy [97, 43, 52, 49] = [97, 43, 52, 49] ∧
    (match Xtext.decode (Xtext.encodeLegacy [97, 43, 52, 49]) with
      | .ok t => t == [97, 65]
      | .error _ => false) = true := by decide +kernel

/-- Before the repair `xtext_encode(b"+")` was `b"+"`, on which `xtext_decode` raises `TypeError`. -/
theorem xtext_legacy_counterexample_raises :
    (match Xtext.decode (Xtext.encodeLegacy [43]) with
      | .error .typeError => true
      | _ => false) = true := by decide

/-- Before the repair `"\n".encode("imap4-utf-7")` was `b"&-"`, which decodes to `"&"`;
    `"\u00e9\t\u00e9"` was encoded with a raw TAB inside the shift sequence. -/
theorem utf7_legacy_counterexample :
    Utf7.encodeLegacy [10] = [38, 45] ∧
    (match Utf7.decode (Utf7.encodeLegacy [10]) with
      | .ok t => t == [38]
      | .error _ => false) = true ∧
    Utf7.encodeLegacy [0xE9, 9, 0xE9] = [38, 65, 79, 107, 9, 43, 65, 79, 107, 45] := by decide

end TwistedProps.C41
