import TwistedProps.C26.Static
/-!
C26 — static files and FilePath never escape their directory.

Containment is the *segment-wise* prefix relation on normalised absolute paths
(`Inside root p`: `p` is absolute, none of its segments is `.`/`..`, and the segment list
of `root` is a prefix of the segment list of `p`) — the notion the statement means, not the
string prefix the code tests.  `wf p` is the (decidable) class invariant of `FilePath.path`:
absolute and a fixed point of `normpath`; every `FilePath(...)` satisfies it (`mk_wf`).

Definitions `segs`, `Normal`, `Inside`, `wf` are in `TwistedProps/C26/{Lex,FilePath}.lean`, `cfgOK` in
`TwistedProps/C26/Static.lean`.
-/
namespace TwistedProps.C26
open Twisted.Fs.Path

/-- every `FilePath(p).path` satisfies the class invariant (cwd is absolute) -/
theorem filepath_invariant (cwd p : Bytes) (hcwd : cwd.head? = some slash) : wf (mk cwd p) = true :=
  mk_wf cwd p hcwd

/-- **C26 / child**: for any name, `child` raises `InsecurePath` or returns a normalised path
    that is the parent itself or directly inside it (exactly one more segment). -/
theorem child_is_self_or_direct_child_or_raises (cwd our name r : Bytes) (hour : wf our = true)
    (h : child cwd our name = some r) :
    wf r = true ∧ Normal r ∧ (segs r = segs our ∨ ∃ s, segs r = segs our ++ [s]) := by
  obtain ⟨init, comps, hs⟩ := wf_struct our hour
  have hn := struct_normal our init comps hs
  rcases child_struct cwd our name r init comps hs h with e | ⟨s, hc, e⟩
  · subst e
    exact ⟨hour, hn.1, Or.inl rfl⟩
  · have hs' : Struct r init (comps ++ [s]) := by
      refine ⟨hs.1, ?_, e⟩
      apply clean_append _ _ hs.2.1
      intro x hx
      simp only [List.mem_singleton] at hx
      subst hx; exact hc
    have hn' := struct_normal r init _ hs'
    exact ⟨struct_wf r init _ hs', hn'.1, Or.inr ⟨s, by rw [hn'.2, hn.2]⟩⟩

/-- **C26 / preauthChild** (repaired containment test): for any parent path and any name,
    `preauthChild` raises `InsecurePath` or returns a normalised path inside the parent's subtree. -/
theorem preauthChild_inside_subtree_or_raises (cwd our name r : Bytes) (hcwd : cwd.head? = some slash)
    (h : preauthChild cwd our name = some r) : wf r = true ∧ Inside our r := by
  obtain ⟨⟨init, comps, hs⟩, hp⟩ := preauthChild_core cwd our name r hcwd h
  exact ⟨struct_wf r init comps hs, (struct_normal r init comps hs).1, hp⟩

/-- The unrepaired test (`newpath.startswith(ourPath)` on strings) does escape: the sibling
    `/tmp/vroot-evil/x` is returned for parent `/tmp/vroot` and name `../vroot-evil/x`. -/
theorem preauthChildOld_counterexample :
    ∃ cwd our name r, cwd.head? = some slash ∧ wf our = true ∧
      preauthChildOld cwd our name = some r ∧ ¬ segs our <+: segs r := by
  refine ⟨[47], [47, 116, 109, 112, 47, 118, 114, 111, 111, 116],
    [46, 46, 47, 118, 114, 111, 111, 116, 45, 101, 118, 105, 108, 47, 120],
    [47, 116, 109, 112, 47, 118, 114, 111, 111, 116, 45, 101, 118, 105, 108, 47, 120], by decide, by decide,
    by decide, by decide⟩

/-- **C26 / descendant**: for any list of names, `descendant` raises `InsecurePath` or returns a
    normalised path inside the parent's subtree, at most one level deeper per name. -/
theorem descendant_inside_subtree_or_raises (cwd : Bytes) (names : List Bytes) (our r : Bytes)
    (hour : wf our = true) (h : descendant cwd our names = some r) :
    wf r = true ∧ Inside our r ∧ (segs r).length ≤ (segs our).length + names.length := by
  induction names generalizing our with
  | nil =>
    simp only [descendant, Option.some.injEq] at h
    subst h
    obtain ⟨init, comps, hs⟩ := wf_struct our hour
    exact ⟨hour, ⟨(struct_normal our init comps hs).1, List.prefix_refl _⟩, by simp⟩
  | cons n ns ih =>
    simp only [descendant] at h
    cases hc : child cwd our n with
    | none => simp [hc] at h
    | some p =>
      rw [hc] at h
      simp only at h
      obtain ⟨hwp, _, hstep⟩ := child_is_self_or_direct_child_or_raises cwd our n p hour hc
      obtain ⟨hwr, ⟨hnr, hpre⟩, hlen⟩ := ih p hwp h
      refine ⟨hwr, ⟨hnr, ?_⟩, ?_⟩
      · rcases hstep with e | ⟨s, e⟩
        · rw [← e]; exact hpre
        · exact List.IsPrefix.trans (by rw [e]; exact List.prefix_append _ _) hpre
      · rcases hstep with e | ⟨s, e⟩
        · rw [e] at hlen; simp only [List.length_cons]; omega
        · rw [e] at hlen; simp only [List.length_append, List.length_cons, List.length_nil] at hlen ⊢; omega

/-- every resource `getChildForRequest` can reach below `File(root)`, for any request URI and any
    (symlink-free) filesystem, has a normalised path inside the root's subtree -/
theorem static_locates_only_inside_root (cfg : Cfg) (fs : FS) (cwd root uri : Bytes)
    (hcwd : cwd.head? = some slash) (hcfg : cfgOK cfg) (hfs : fsOK fs) :
    match locate cfg fs cwd root uri with
    | .file p => Inside (mk cwd root) p
    | .listing p => Inside (mk cwd root) p
    | _ => True := by
  obtain ⟨init, rc, hs⟩ := mk_struct cwd root hcwd
  have hinv := walk_inv cfg fs cwd hcfg hfs init rc (postpath uri) (.file (mk cwd root))
    ⟨rc, hs, List.prefix_refl _⟩
  have hroot := (struct_normal _ init rc hs).2
  unfold locate
  cases hw : walk cfg fs cwd (Rsrc.file (mk cwd root)) (postpath uri) with
  | file p =>
    rw [hw] at hinv
    obtain ⟨comps, hsp, hpre⟩ := hinv
    have hn := struct_normal p init comps hsp
    exact ⟨hn.1, by rw [hroot, hn.2]; exact hpre⟩
  | listing p =>
    rw [hw] at hinv
    obtain ⟨comps, hsp, hpre⟩ := hinv
    have hn := struct_normal p init comps hsp
    exact ⟨hn.1, by rw [hroot, hn.2]; exact hpre⟩
  | notFound => trivial
  | error => trivial

/-- **C26 / static.File**: for every request URI (any bytes: percent-encoded separators, `..`,
    empty or non-UTF-8 segments, NUL), every symlink-free filesystem (`fsOK`: directory entries
    contain no `/`) and every configuration whose index names / ignored extensions contain no `/`
    (`cfgOK`; the `*` wildcard extension included), the file that is opened, the directory that is
    listed or redirected to, lies inside the root's subtree. -/
theorem static_serves_only_inside_root (cfg : Cfg) (fs : FS) (cwd root uri p : Bytes)
    (hcwd : cwd.head? = some slash) (hcfg : cfgOK cfg) (hfs : fsOK fs)
    (h : serve cfg fs cwd root uri = .opened p ∨ serve cfg fs cwd root uri = .redirect p ∨
      serve cfg fs cwd root uri = .listing p) : Inside (mk cwd root) p := by
  have hl := static_locates_only_inside_root cfg fs cwd root uri hcwd hcfg hfs
  unfold serve at h
  by_cases hstar : uriPath uri = star
  · simp [hstar] at h
  rw [if_neg hstar] at h
  cases hloc : locate cfg fs cwd root uri with
  | file q =>
    rw [hloc] at hl h
    simp only at hl h
    by_cases h1 : fs.exists q = true
    · by_cases h2 : fs.isdir q = true
      · simp [h1, h2] at h; rw [← h]; exact hl
      · simp [h1, h2] at h; rw [← h]; exact hl
    · simp [h1] at h
  | listing q =>
    rw [hloc] at hl h
    simp only at hl h
    simp at h; rw [← h]; exact hl
  | notFound => rw [hloc] at h; simp at h
  | error => rw [hloc] at h; simp at h

/-! ### Non-vacuity (concrete, non-trivial values) -/

-- FilePath("/tmp/vroot").child("x") = /tmp/vroot/x ; child("..") and child("a/b") raise
example : child [47] [47, 116, 109, 112, 47, 118, 114, 111, 111, 116] [120]
    = some [47, 116, 109, 112, 47, 118, 114, 111, 111, 116, 47, 120] := by decide
example : child [47] [47, 116, 109, 112, 47, 118, 114, 111, 111, 116] [46, 46] = none := by decide
example : child [47] [47, 116, 109, 112, 47, 118, 114, 111, 111, 116] [97, 47, 98] = none := by decide
example : wf [47, 116, 109, 112, 47, 118, 114, 111, 111, 116] = true := by decide
-- the repaired preauthChild refuses the sibling, accepts sub/../x/./y = /tmp/vroot/x/y
example : preauthChild [47] [47, 116, 109, 112, 47, 118, 114, 111, 111, 116]
    [46, 46, 47, 118, 114, 111, 111, 116, 45, 101, 118, 105, 108, 47, 120] = none := by decide
example : preauthChild [47] [47, 116, 109, 112, 47, 118, 114, 111, 111, 116]
    [115, 117, 98, 47, 46, 46, 47, 120, 47, 46, 47, 121]
    = some [47, 116, 109, 112, 47, 118, 114, 111, 111, 116, 47, 120, 47, 121] := by decide
-- descendant(["a", ".", "b"]) = /tmp/vroot/a/b ; descendant(["a", ".."]) raises
example : descendant [47] [47, 116, 109, 112, 47, 118, 114, 111, 111, 116] [[97], [46], [98]]
    = some [47, 116, 109, 112, 47, 118, 114, 111, 111, 116, 47, 97, 47, 98] := by decide
example : descendant [47] [47, 116, 109, 112, 47, 118, 114, 111, 111, 116] [[97], [46, 46]] = none := by decide

-- static: filesystem { /r/ (dir: a), /r/a, /r-evil/ (dir: s), /r-evil/s }, root /r, default index names
def exFS : FS := ⟨[([47, 114], [[97]]), ([47, 114, 45, 101, 118, 105, 108], [[115]])],
  [[47, 114, 47, 97], [47, 114, 45, 101, 118, 105, 108, 47, 115]]⟩
def exCfg : Cfg := ⟨[[105, 110, 100, 101, 120]], []⟩
-- GET /%61 opens /r/a
example : serve exCfg exFS [47] [47, 114] [47, 37, 54, 49] = .opened [47, 114, 47, 97] := by decide
-- GET /..%2fr-evil/s and GET /%2e%2e/r-evil/s are 404, GET / lists /r
example : serve exCfg exFS [47] [47, 114] [47, 46, 46, 37, 50, 102, 114, 45, 101, 118, 105, 108, 47, 115] = .notFound := by decide
example : serve exCfg exFS [47] [47, 114] [47, 37, 50, 101, 37, 50, 101, 47, 114, 45, 101, 118, 105, 108, 47, 115] = .notFound := by decide
example : serve exCfg exFS [47] [47, 114] [47] = .listing [47, 114] := by decide
example : cfgOK exCfg := by
  refine ⟨?_, by intro e he; simp [exCfg] at he⟩
  intro n hn
  simp only [exCfg, List.mem_singleton] at hn
  subst hn
  decide
example : fsOK exFS := by
  intro d hd e he
  simp only [exFS, List.mem_cons, List.not_mem_nil, or_false] at hd
  rcases hd with rfl | rfl <;> simp at he <;> subst he <;> decide
-- ignoredExts = ["*"], directory /r lists "a.txt": GET /a is served from /r/a.txt
example : serve ⟨[], [[42]]⟩ ⟨[([47, 114], [[97, 46, 116, 120, 116]])], [[47, 114, 47, 97, 46, 116, 120, 116]]⟩
    [47] [47, 114] [47, 97] = .opened [47, 114, 47, 97, 46, 116, 120, 116] := by decide

/-! ### Non-vacuity on the input classes added by the mutation audit (harness/mutants/C26) -/

-- a sibling that differs from the parent only in letter case, or by a trailing line feed, is refused;
-- so is a path that merely contains the parent's path further down
example : preauthChild [47] [47, 116, 109, 112, 47, 118, 114, 111, 111, 116]
    [46, 46, 47, 86, 82, 79, 79, 84, 47, 120] = none := by decide
example : preauthChild [47] [47, 116, 109, 112, 47, 118, 114, 111, 111, 116]
    [46, 46, 47, 118, 114, 111, 111, 116, 10] = none := by decide
example : preauthChild [47] [47, 116, 109, 112, 47, 118, 114, 111, 111, 116]
    [47, 101, 118, 105, 108, 47, 116, 109, 112, 47, 118, 114, 111, 111, 116, 47, 120] = none := by decide
-- `..` followed by a line feed is an ordinary name: a direct child, and `descendant` stays below it
example : child [47] [47, 116, 109, 112, 47, 118, 114, 111, 111, 116] [46, 46, 10]
    = some [47, 116, 109, 112, 47, 118, 114, 111, 111, 116, 47, 46, 46, 10] := by decide
example : descendant [47] [47, 116, 109, 112, 47, 118, 114, 111, 111, 116] [[46, 46, 10], [120]]
    = some [47, 116, 109, 112, 47, 118, 114, 111, 111, 116, 47, 46, 46, 10, 47, 120] := by decide
-- GET /%ff%2f..%2f..%2fr-evil%2fs (one segment: undecodable byte, encoded separators, `..`) and
-- GET /..%0a/r-evil/s are 404
example : serve exCfg exFS [47] [47, 114] [47, 37, 102, 102, 37, 50, 102, 46, 46, 37, 50, 102, 46, 46, 37, 50, 102,
    114, 45, 101, 118, 105, 108, 37, 50, 102, 115] = .notFound := by decide
example : serve exCfg exFS [47] [47, 114] [47, 46, 46, 37, 48, 97, 47, 114, 45, 101, 118, 105, 108, 47, 115] = .notFound := by decide

end TwistedProps.C26
