import TwistedProps.C31.Basic
/-! C31 — the matching invariant: every tag in flight stands for the call it was made for; every fired outcome is justified. -/
namespace TwistedProps.C31
open Twisted.Amp Twisted.Amp.Dispatch

/-- what a responder that answers at once produces -/
def syncKind : Beh → Option Kind
  | .ok => some .ok
  | .err => some .err
  | .fatal => some .fatal
  | .unk => some .unk
  | _ => none

/-- the responder side produced answer kind `k` for call `n`: its responder was invoked and answered at
    once with `k`, or the Deferred it returned was fired with `k`, or there is no responder (`nores`) -/
def Produced (log : List Ev) (n : Nat) (k : Kind) : Prop :=
  (∃ s beh, syncKind beh = some k ∧ Ev.invoked s n beh ∈ log) ∨ Ev.laterFired n k ∈ log ∨
  (k = .unhandled ∧ ∃ s w, Ev.called n s .nores w ∈ log)

/-- the outcome `o` of call `id` is the right one -/
def Good (log : List Ev) (id : Nat) : Outcome → Prop
  | .response m => m = id ∧ Produced log id .ok
  | .declared m => m = id ∧ Produced log id .err
  | .fatalDeclared m => m = id ∧ Produced log id .fatal
  | .unknownRemote => Produced log id .unk
  | .unhandledCommand => Produced log id .unhandled
  | .connLost w => ∃ s beh, Ev.called id s beh true ∈ log ∧ Ev.lost s w ∈ log

theorem Produced.mono {log log' : List Ev} (hl : ∀ e ∈ log, e ∈ log') {n k} (h : Produced log n k) :
    Produced log' n k := by
  rcases h with ⟨s, beh, h1, h2⟩ | h | ⟨h1, s, w, h2⟩
  · exact Or.inl ⟨s, beh, h1, hl _ h2⟩
  · exact Or.inr (Or.inl (hl _ h))
  · exact Or.inr (Or.inr ⟨h1, s, w, hl _ h2⟩)

theorem Good.mono {log log' : List Ev} (hl : ∀ e ∈ log, e ∈ log') {id o} (h : Good log id o) :
    Good log' id o := by
  cases o <;> simp only [Good] at h ⊢
  case connLost w => obtain ⟨s, beh, h1, h2⟩ := h; exact ⟨s, beh, hl _ h1, hl _ h2⟩
  all_goals first | exact ⟨h.1, h.2.mono hl⟩ | exact h.mono hl

/-- tag `t` of caller `s` stands for call `n` -/
def Tok (st : Net) (s : Bool) (t n : Nat) : Prop :=
  t ≤ (st.get s).counter ∧ ∀ r, (t, r) ∈ (st.get s).pending → r.id = n

/-- a box travelling to `s` is justified -/
def BoxOK (st : Net) (s : Bool) : Box → Prop
  | .reply t k n => Tok st s t n ∧ Produced st.log n k
  | .ask tag beh n => (∀ t, tag = some t → Tok st (!s) t n) ∧ ∃ w, Ev.called n (!s) beh w ∈ st.log

/-- boxes on their way to `s`: those `dataReceived` has in hand (`ex s`) and those in the pipe -/
def pipeTo (st : Net) (ex : Bool → List Box) (s : Bool) : List Box := ex s ++ (st.get (!s)).out

structure InvW (st : Net) (ex : Bool → List Box) : Prop where
  tagLe : ∀ s p, p ∈ (st.get s).pending → p.1 ≤ (st.get s).counter
  pipeOK : ∀ s b, b ∈ pipeTo st ex s → BoxOK st s b
  laterTok : ∀ s t n, (n, some t) ∈ (st.get s).laters → Tok st (!s) t n
  pendCalled : ∀ s p, p ∈ (st.get s).pending → ∃ beh, Ev.called p.2.id s beh true ∈ st.log
  lostLogged : ∀ s w, (st.get s).failReason = some w → Ev.lost s w ∈ st.log
  firedGood : ∀ id o, Ev.fired id o ∈ st.log → Good st.log id o

/-- the general preservation lemma: everything new is justified in the new state -/
theorem InvW.step {st st' : Net} {ex ex' : Bool → List Box} (h : InvW st ex)
    (hc : ∀ s, (st.get s).counter ≤ (st'.get s).counter)
    (hlog : ∀ e ∈ st.log, e ∈ st'.log)
    (hpend : ∀ s p, p ∈ (st'.get s).pending → p ∈ (st.get s).pending ∨
      ((st.get s).counter < p.1 ∧ p.1 ≤ (st'.get s).counter ∧ ∃ beh, Ev.called p.2.id s beh true ∈ st'.log))
    (hpipe : ∀ s b, b ∈ pipeTo st' ex' s → b ∈ pipeTo st ex s ∨ BoxOK st' s b)
    (hlat : ∀ s t n, (n, some t) ∈ (st'.get s).laters → (n, some t) ∈ (st.get s).laters ∨ Tok st' (!s) t n)
    (hfr : ∀ s w, (st'.get s).failReason = some w → (st.get s).failReason = some w ∨ Ev.lost s w ∈ st'.log)
    (hfired : ∀ id o, Ev.fired id o ∈ st'.log → Ev.fired id o ∈ st.log ∨ Good st'.log id o) : InvW st' ex' := by
  have htok : ∀ s t n, Tok st s t n → Tok st' s t n := by
    intro s t n ⟨h1, h2⟩
    refine ⟨Nat.le_trans h1 (hc s), ?_⟩
    intro r hr
    rcases hpend s _ hr with h3 | ⟨h3, _, _⟩
    · exact h2 r h3
    · simp at h3; omega
  have hbox : ∀ s b, BoxOK st s b → BoxOK st' s b := by
    intro s b hb
    cases b with
    | reply t k n => exact ⟨htok _ _ _ hb.1, hb.2.mono hlog⟩
    | ask tag beh n =>
      obtain ⟨h1, w, h2⟩ := hb
      exact ⟨fun t ht => htok _ _ _ (h1 t ht), w, hlog _ h2⟩
  refine ⟨?_, ?_, ?_, ?_, ?_, ?_⟩
  · intro s p hp
    rcases hpend s p hp with h1 | ⟨_, h1, _⟩
    · exact Nat.le_trans (h.tagLe s p h1) (hc s)
    · exact h1
  · intro s b hb
    rcases hpipe s b hb with h1 | h1
    · exact hbox s b (h.pipeOK s b h1)
    · exact h1
  · intro s t n hx
    rcases hlat s t n hx with h1 | h1
    · exact htok _ _ _ (h.laterTok s t n h1)
    · exact h1
  · intro s p hp
    rcases hpend s p hp with h1 | ⟨_, _, h1⟩
    · obtain ⟨beh, hb⟩ := h.pendCalled s p h1; exact ⟨beh, hlog _ hb⟩
    · exact h1
  · intro s w hw
    rcases hfr s w hw with h1 | h1
    · exact hlog _ (h.lostLogged s w h1)
    · exact h1
  · intro id o hf
    rcases hfired id o hf with h1 | h1
    · exact (h.firedGood id o h1).mono hlog
    · exact h1


theorem InvW.logEv {st : Net} {ex} (h : InvW st ex) (e : Ev)
    (hgood : ∀ id o, e = .fired id o → Good (st.log ++ [e]) id o) : InvW (logEv st e) ex := by
  refine h.step (by simp) (by simp; intro e he; exact Or.inl he) (fun s p hp => Or.inl (by simpa using hp)) ?_
    (fun s t n hx => Or.inl (by simpa using hx)) (fun s w hw => Or.inl (by simpa using hw)) ?_
  · intro s b hb; left; simpa [pipeTo] using hb
  · intro id o hf
    simp only [logEv_log, List.mem_append, List.mem_singleton] at hf
    rcases hf with hf | hf
    · exact Or.inl hf
    · exact Or.inr (hgood id o hf.symm)

theorem InvW.logEvH {st : Net} {ex} (h : InvW st ex) (e : Ev) (hne : ∀ id o, e ≠ .fired id o) :
    InvW (Twisted.Amp.Dispatch.logEv st e) ex := h.logEv e (fun id o he => absurd he (hne id o))

/-- a side changes only in fields the invariant does not look at -/
theorem InvW.setFrame {st : Net} {ex} (h : InvW st ex) (s : Bool) (v : Side)
    (h1 : v.counter = (st.get s).counter) (h2 : v.pending = (st.get s).pending)
    (h3 : v.laters = (st.get s).laters) (h4 : v.out = (st.get s).out)
    (h5 : v.failReason = (st.get s).failReason) : InvW (st.set s v) ex := by
  have hget : ∀ t, ((st.set s v).get t).counter = (st.get t).counter ∧ ((st.set s v).get t).pending = (st.get t).pending ∧
      ((st.set s v).get t).laters = (st.get t).laters ∧ ((st.set s v).get t).out = (st.get t).out ∧
      ((st.set s v).get t).failReason = (st.get t).failReason := by
    intro t; simp only [get_set]; split
    · subst_vars; exact ⟨h1, h2, h3, h4, h5⟩
    · exact ⟨rfl, rfl, rfl, rfl, rfl⟩
  refine h.step (fun t => by rw [(hget t).1]; exact Nat.le_refl _) (by simp) ?_ ?_ ?_ ?_ (by simp; intro id o hf; exact Or.inl hf)
  · intro t p hp; rw [(hget t).2.1] at hp; exact Or.inl hp
  · intro t b hb; left; simp only [pipeTo] at hb ⊢; rw [(hget (!t)).2.2.2.1] at hb; exact hb
  · intro t x n hx; rw [(hget t).2.2.1] at hx; exact Or.inl hx
  · intro t w hw; rw [(hget t).2.2.2.2] at hw; exact Or.inl hw

theorem InvW.shrinkEx {st : Net} {ex ex' : Bool → List Box} (h : InvW st ex)
    (hsub : ∀ s b, b ∈ ex' s → b ∈ ex s) : InvW st ex' := by
  refine h.step (fun _ => Nat.le_refl _) (fun _ h => h) (fun _ _ h => Or.inl h) ?_ (fun _ _ _ h => Or.inl h)
    (fun _ _ h => Or.inl h) (fun _ _ h => Or.inl h)
  intro s b hb
  left
  simp only [pipeTo, List.mem_append] at hb ⊢
  rcases hb with hb | hb
  · exact Or.inl (hsub s b hb)
  · exact Or.inr hb

theorem Tok.frame {st st' : Net} {s t n} (h : Tok st s t n) (hc : (st'.get s).counter = (st.get s).counter)
    (hp : (st'.get s).pending = (st.get s).pending) : Tok st' s t n := by
  unfold Tok at *; rw [hc, hp]; exact h

theorem invW_loseConnection {st : Net} {ex} (h : InvW st ex) (s : Bool) : InvW (loseConnection st s) ex :=
  h.setFrame s _ rfl rfl rfl rfl rfl

theorem invW_unhandledError {st : Net} {ex} (h : InvW st ex) (s : Bool) : InvW (unhandledError st s) ex := by
  unfold unhandledError; split
  · exact h
  · exact invW_loseConnection h s

/-- side `s` writes justified boxes (nothing else the invariant looks at changes) -/
theorem InvW.setOut {st : Net} {ex} (h : InvW st ex) (s : Bool) (v : Side) (bs : List Box)
    (h1 : v.counter = (st.get s).counter) (h2 : v.pending = (st.get s).pending)
    (h3 : v.laters = (st.get s).laters) (h4 : v.out = (st.get s).out ++ bs)
    (h5 : v.failReason = (st.get s).failReason) (hbs : ∀ b ∈ bs, BoxOK st (!s) b) : InvW (st.set s v) ex := by
  have hget : ∀ t, ((st.set s v).get t).counter = (st.get t).counter ∧ ((st.set s v).get t).pending = (st.get t).pending ∧
      ((st.set s v).get t).laters = (st.get t).laters ∧
      ((st.set s v).get t).failReason = (st.get t).failReason := by
    intro t; simp only [get_set]; split
    · subst_vars; exact ⟨h1, h2, h3, h5⟩
    · exact ⟨rfl, rfl, rfl, rfl⟩
  have hboxframe : ∀ u b, BoxOK st u b → BoxOK (st.set s v) u b := by
    intro u b hb
    cases b with
    | reply t k n => exact ⟨hb.1.frame (hget _).1 (hget _).2.1, by simpa using hb.2⟩
    | ask tag beh n => exact ⟨fun t ht => (hb.1 t ht).frame (hget _).1 (hget _).2.1, by simpa using hb.2⟩
  refine h.step (fun u => by rw [(hget u).1]; exact Nat.le_refl _) (by simp) ?_ ?_ ?_ ?_ (by simp; intro id o hf; exact Or.inl hf)
  · intro u p hp; rw [(hget u).2.1] at hp; exact Or.inl hp
  · intro u b hb
    simp only [pipeTo, get_set, List.mem_append] at hb
    rcases hb with hb | hb
    · exact Or.inl (List.mem_append_left _ hb)
    · split at hb
      · rename_i hu
        rw [h4] at hb
        simp only [List.mem_append] at hb
        rcases hb with hb | hb
        · left; simp only [pipeTo, hu]; exact List.mem_append_right _ hb
        · right
          have hus : u = !s := by cases u <;> cases s <;> simp_all
          subst hus
          exact hboxframe _ _ (hbs b hb)
      · exact Or.inl (List.mem_append_right _ hb)
  · intro u x n hx; rw [(hget u).2.2.1] at hx; exact Or.inl hx
  · intro u w hw; rw [(hget u).2.2.2] at hw; exact Or.inl hw

theorem invW_writeReply {st : Net} {ex} (h : InvW st ex) (s : Bool) (t : Nat) (k : Kind) (n : Nat)
    (htok : Tok st (!s) t n) (hprod : Produced st.log n k) : InvW (write st s (.reply t k n)) ex := by
  unfold write
  refine h.setOut s _ [Box.reply t k n] rfl rfl rfl rfl rfl ?_
  intro b hb
  simp only [List.mem_singleton] at hb
  subst hb
  exact ⟨htok, hprod⟩

theorem invW_respond {st : Net} {ex} (h : InvW st ex) (s : Bool) (tag : Option Nat) (k : Kind) (n : Nat)
    (htok : ∀ t, tag = some t → Tok st (!s) t n) (hprod : Produced st.log n k) :
    InvW (respond st s tag k n) ex := by
  unfold respond
  split
  · rename_i t
    split
    · exact h
    · simp only []
      have h1 := invW_writeReply h s t k n (htok t rfl) hprod
      split
      · exact invW_loseConnection h1 s
      · exact h1
  · split
    · exact h
    · exact invW_unhandledError h s


theorem invW_commandReceived {st : Net} {ex} (h : InvW st ex) (s : Bool) (tag : Option Nat) (beh : Beh) (n : Nat)
    (hok : BoxOK st s (.ask tag beh n)) : InvW (commandReceived st s tag beh n) ex := by
  obtain ⟨htok, w, hcalled⟩ := hok
  have hsync : ∀ k, syncKind beh = some k →
      InvW (respond (logEv st (.invoked s n beh)) s tag k n) ex := by
    intro k hk
    refine invW_respond (h.logEvH _ (by simp)) s tag k n ?_ ?_
    · intro t ht; exact (htok t ht).frame (by simp) (by simp)
    · exact Or.inl ⟨s, beh, hk, by simp⟩
  unfold commandReceived
  cases beh <;> simp only []
  case nores =>
    exact invW_respond h s tag .unhandled n htok (Or.inr (Or.inr ⟨rfl, _, w, hcalled⟩))
  case later =>
    have h1 := h.logEvH (.invoked s n .later) (by simp)
    refine h1.step (ex' := ex) (fun u => ?_) (by simp) ?_ ?_ ?_ ?_ (by simp; intro id o hf; exact Or.inl hf)
    · simp only [get_set]; split
      · subst_vars; exact Nat.le_refl _
      · exact Nat.le_refl _
    · intro u p hp; left
      simp only [get_set] at hp; split at hp
      · subst_vars; exact hp
      · exact hp
    · intro u b hb; left
      simp only [pipeTo, get_set] at hb ⊢; split at hb
      · rename_i hu; rw [hu]; exact hb
      · exact hb
    · intro u t m hx
      simp only [get_set] at hx; split at hx
      · rename_i hu
        simp only [List.mem_append, List.mem_singleton, Prod.mk.injEq] at hx
        rcases hx with hx | ⟨hx1, hx2⟩
        · left; rw [hu]; exact hx
        · right
          subst hu hx1
          have := htok t hx2.symm
          refine this.frame ?_ ?_
          · simp only [get_set]; split <;> simp_all
          · simp only [get_set]; split <;> simp_all
      · exact Or.inl hx
    · intro u w' hw; left
      simp only [get_set] at hw; split at hw
      · subst_vars; exact hw
      · exact hw
  all_goals exact hsync _ rfl


theorem InvW.setHalted {st : Net} {ex} (h : InvW st ex) (b : Bool) : InvW { st with halted := b } ex := by
  refine h.step (by simp) (by simp) (fun s p hp => Or.inl (by simpa using hp)) ?_
    (fun s t n hx => Or.inl (by simpa using hx)) (fun s w hw => Or.inl (by simpa using hw))
    (fun id o hf => Or.inl (by simpa using hf))
  intro s b hb; left; simpa [pipeTo] using hb

theorem InvW.bumpCounter {st : Net} {ex} (h : InvW st ex) (s : Bool) :
    InvW (st.set s { st.get s with counter := (st.get s).counter + 1 }) ex := by
  refine h.step (ex' := ex) (fun u => ?_) (by simp) ?_ ?_ ?_ ?_ (by simp; intro id o hf; exact Or.inl hf)
  · simp only [get_set]; split
    · subst_vars; simp
    · exact Nat.le_refl _
  · intro u p hp; left
    simp only [get_set] at hp; split at hp
    · subst_vars; exact hp
    · exact hp
  · intro u b hb; left
    simp only [pipeTo, get_set] at hb ⊢; split at hb
    · rename_i hu; rw [hu]; exact hb
    · exact hb
  · intro u t m hx; left
    simp only [get_set] at hx; split at hx
    · subst_vars; exact hx
    · exact hx
  · intro u w' hw; left
    simp only [get_set] at hw; split at hw
    · subst_vars; exact hw
    · exact hw

theorem invW_sendBoxCommand {st : Net} {ex} (h : InvW st ex) (s : Bool) (beh : Beh) (wants : Bool) (r : Rec)
    (hcalled : Ev.called r.id s beh wants ∈ st.log) :
    InvW (sendBoxCommand st s beh wants r) ex := by
  have key : InvW ((write st s (.ask (if wants then some ((st.get s).counter + 1) else none) beh r.id)).set s
      { (write st s (.ask (if wants then some ((st.get s).counter + 1) else none) beh r.id)).get s with
        counter := (st.get s).counter + 1,
        pending := if wants then
          ((write st s (.ask (if wants then some ((st.get s).counter + 1) else none) beh r.id)).get s).pending ++
            [((st.get s).counter + 1, r)]
          else ((write st s (.ask (if wants then some ((st.get s).counter + 1) else none) beh r.id)).get s).pending }) ex := by
    unfold write
    refine h.step (ex' := ex) (fun u => ?_) (by simp) ?_ ?_ ?_ ?_ (by simp; intro id o hf; exact Or.inl hf)
    · simp only [get_set]; split
      · subst_vars; simp
      · exact Nat.le_refl _
    · intro u p hp
      simp only [get_set] at hp; split at hp
      · rename_i hu
        subst hu
        simp only [if_true] at hp
        split at hp
        · rename_i hw
          simp only [List.mem_append, List.mem_singleton] at hp
          rcases hp with hp | hp
          · exact Or.inl hp
          · right
            subst hp
            simp only [get_set, if_true, set_log]
            refine ⟨Nat.lt_succ_self _, Nat.le_refl _, beh, ?_⟩
            rw [hw] at hcalled; exact hcalled
        · exact Or.inl hp
      · exact Or.inl hp
    · intro u b hb
      simp only [pipeTo, get_set, List.mem_append] at hb
      rcases hb with hb | hb
      · exact Or.inl (List.mem_append_left _ hb)
      · split at hb
        · rename_i hu
          simp only [if_true, List.mem_append, List.mem_singleton] at hb
          rcases hb with hb | hb
          · left; simp only [pipeTo, hu]; exact List.mem_append_right _ hb
          · right
            subst hb
            have hus : u = !s := by cases u <;> cases s <;> simp_all
            subst hus
            refine ⟨?_, wants, by simpa using hcalled⟩
            intro t ht
            simp only [Bool.not_not]
            cases wants
            · simp at ht
            · simp only [if_true, Option.some.injEq] at ht
              subst ht
              refine ⟨by simp, ?_⟩
              intro r' hr'
              simp only [get_set, if_true, List.mem_append, List.mem_singleton, Prod.mk.injEq] at hr'
              rcases hr' with hr' | hr'
              · have := h.tagLe s _ hr'; simp at this; omega
              · rw [hr'.2]
        · exact Or.inl (List.mem_append_right _ hb)
    · intro u t m hx; left
      simp only [get_set] at hx; split at hx
      · subst_vars; simpa using hx
      · exact hx
    · intro u w' hw; left
      simp only [get_set] at hw; split at hw
      · subst_vars; simpa using hw
      · exact hw
  unfold sendBoxCommand
  split
  · exact ((h.bumpCounter s).logEvH .sendFailed (by simp)).setHalted true
  · cases wants
    · simp only [Bool.false_eq_true, if_false] at key ⊢
      exact key.logEvH (.returnedNone r.id) (by simp)
    · simp only [if_true] at key ⊢
      exact key

theorem invW_callPlain {st : Net} {ex} (h : InvW st ex) (s : Bool) (beh : Beh) :
    InvW (callPlain st s beh) ex := by
  have h0 : InvW (logEv { st with nextId := st.nextId + 1 } (.called st.nextId s beh true)) ex := by
    refine h.step (by simp) (by simp; intro e he; exact Or.inl he) (fun s p hp => Or.inl (by simpa using hp)) ?_
      (fun s t n hx => Or.inl (by simpa using hx)) (fun s w hw => Or.inl (by simpa using hw)) ?_
    · intro s b hb; left; simpa [pipeTo] using hb
    · intro id o hf; left; simpa using hf
  unfold callPlain
  simp only [logEv_get, get_withNextId]
  split
  · rename_i w hw
    refine h0.logEv _ ?_
    intro id o he
    simp only [Ev.fired.injEq] at he
    obtain ⟨h1, h2⟩ := he
    subst h1 h2
    refine ⟨s, beh, by simp, ?_⟩
    have := h.lostLogged s w hw
    simp [this]
  · exact invW_sendBoxCommand h0 s beh true _ (by simp)

theorem invW_foldCallPlain {st : Net} {ex} (h : InvW st ex) (s : Bool) (l : List Beh) :
    InvW (l.foldl (fun st beh => callPlain st s beh) st) ex := by
  induction l generalizing st with
  | nil => exact h
  | cons b bs ih => exact ih (invW_callPlain h s b)

theorem invW_fireUser {st : Net} {ex} (h : InvW st ex) (s : Bool) (r : Rec) (o : Outcome)
    (hgood : Good (st.log ++ [Ev.fired r.id o]) r.id o) : InvW (fireUser st s r o) ex := by
  unfold fireUser
  refine invW_foldCallPlain (h.logEv _ ?_) s _
  intro id o' he
  simp only [Ev.fired.injEq] at he
  obtain ⟨h1, h2⟩ := he
  subst h1 h2
  exact hgood


theorem InvW.shrinkPending {st : Net} {ex} (h : InvW st ex) (s : Bool) (rest : List (Nat × Rec))
    (fr : Option Why) (hfr : fr = (st.get s).failReason ∨ ∃ w, fr = some w ∧ Ev.lost s w ∈ st.log)
    (hsub : ∀ p ∈ rest, p ∈ (st.get s).pending) :
    InvW (st.set s { st.get s with pending := rest, failReason := fr }) ex := by
  refine h.step (ex' := ex) (fun u => ?_) (by simp) ?_ ?_ ?_ ?_ (by simp; intro id o hf; exact Or.inl hf)
  · simp only [get_set]; split
    · subst_vars; exact Nat.le_refl _
    · exact Nat.le_refl _
  · intro u p hp; left
    simp only [get_set] at hp; split at hp
    · subst_vars; exact hsub p hp
    · exact hp
  · intro u b hb; left
    simp only [pipeTo, get_set] at hb ⊢; split at hb
    · rename_i hu; rw [hu]; exact hb
    · exact hb
  · intro u t m hx; left
    simp only [get_set] at hx; split at hx
    · subst_vars; exact hx
    · exact hx
  · intro u w' hw
    simp only [get_set] at hw; split at hw
    · rename_i hu
      subst hu
      rcases hfr with hfr | ⟨w, hfr, hl⟩
      · left; rw [← hfr]; exact hw
      · right
        have hw' : fr = some w' := hw
        rw [hfr] at hw'; cases hw'; simpa using hl
    · exact Or.inl hw

theorem good_outcomeOf {log : List Ev} {k : Kind} {n : Nat} (hp : Produced log n k) : Good log n (outcomeOf k n) := by
  cases k <;> simp only [outcomeOf, Good]
  all_goals first | exact ⟨trivial, hp⟩ | exact ⟨rfl, hp⟩ | exact hp

theorem invW_replyReceived {st : Net} {ex} (h : InvW st ex) (s : Bool) (t : Nat) (k : Kind) (n : Nat)
    (hok : BoxOK st s (.reply t k n)) : InvW (replyReceived st s t k n) ex := by
  obtain ⟨htok, hprod⟩ := hok
  unfold replyReceived
  split
  · exact (h.logEvH .keyError (by simp)).setHalted true
  · rename_i r rest hpop
    have hid : r.id = n := htok.2 r (popTag_mem hpop)
    have h1 : InvW (st.set s { st.get s with pending := rest }) ex :=
      h.shrinkPending s rest _ (Or.inl rfl) (popTag_sub hpop)
    have h2 : InvW (fireUser (st.set s { st.get s with pending := rest }) s r (outcomeOf k n)) ex := by
      refine invW_fireUser h1 s r _ ?_
      rw [hid]
      exact good_outcomeOf (hprod.mono (by simp; intro e he; exact Or.inl he))
    simp only []
    split
    · exact invW_unhandledError h2 s
    · exact h2

/-- `ampBoxReceived` for the first of the boxes `dataReceived` has in hand -/
theorem invW_boxReceived {st : Net} {ex ex' : Bool → List Box} (h : InvW st ex) (s : Bool) (b : Box)
    (hb : b ∈ ex s) (hsub : ∀ u x, x ∈ ex' u → x ∈ ex u) : InvW (boxReceived st s b) ex' := by
  have hok : BoxOK st s b := h.pipeOK s b (List.mem_append_left _ hb)
  unfold boxReceived
  split
  · exact h.shrinkEx hsub
  · cases b with
    | ask tag beh n => exact (invW_commandReceived h s tag beh n hok).shrinkEx hsub
    | reply t k n => exact (invW_replyReceived h s t k n hok).shrinkEx hsub

theorem invW_foldBox {st : Net} (s : Bool) (l : List Box)
    (h : InvW st (fun u => if u = s then l else [])) :
    InvW (l.foldl (fun st b => boxReceived st s b) st) (fun _ => []) := by
  induction l generalizing st with
  | nil => exact h.shrinkEx (by intro u x hx; simp at hx)
  | cons b bs ih =>
    refine ih (invW_boxReceived h s b (by simp) ?_)
    intro u x hx
    by_cases hu : u = s
    · simp only [hu, if_true] at hx ⊢; exact List.mem_cons_of_mem _ hx
    · simp [hu] at hx

theorem consume_sub (l : List Box) (d n : Nat) :
    ∀ b, b ∈ (consume l d n).1 ++ (consume l d n).2.1 → b ∈ l := by
  induction l generalizing d n with
  | nil => simp [consume]
  | cons x xs ih =>
    intro b hb
    unfold consume at hb
    split at hb
    · simp only [List.cons_append, List.mem_cons] at hb
      rcases hb with hb | hb
      · exact hb ▸ List.mem_cons_self
      · exact List.mem_cons_of_mem _ (ih _ _ b hb)
    · simpa using hb

theorem invW_deliver {st : Net} (h : InvW st (fun _ => [])) (s : Bool) (n : Nat) :
    InvW (deliver st s n) (fun _ => []) := by
  unfold deliver
  simp only []
  have h1 : InvW (st.set (!s) { st.get (!s) with
        out := (consume (st.get (!s)).out (st.get (!s)).outDone n).2.1,
        outDone := (consume (st.get (!s)).out (st.get (!s)).outDone n).2.2 })
      (fun u => if u = s then (consume (st.get (!s)).out (st.get (!s)).outDone n).1 else []) := by
    refine h.step (fun u => ?_) (by simp) ?_ ?_ ?_ ?_ (by simp; intro id o hf; exact Or.inl hf)
    · simp only [get_set]; split
      · subst_vars; exact Nat.le_refl _
      · exact Nat.le_refl _
    · intro u p hp; left
      simp only [get_set] at hp; split at hp
      · subst_vars; exact hp
      · exact hp
    · intro u b hb; left
      simp only [pipeTo, get_set, List.nil_append] at hb ⊢
      by_cases hu : u = s
      · subst hu
        simp only [if_true] at hb
        exact consume_sub _ _ _ b hb
      · have hu' : ¬ ((!u) = !s) := by cases u <;> cases s <;> simp_all
        simpa [hu, hu'] using hb
    · intro u t m hx; left
      simp only [get_set] at hx; split at hx
      · subst_vars; exact hx
      · exact hx
    · intro u w' hw; left
      simp only [get_set] at hw; split at hw
      · subst_vars; exact hw
      · exact hw
  split
  · exact h1.shrinkEx (by intro u x hx; simp at hx)
  · exact invW_foldBox s _ h1


theorem invW_fire {st : Net} {ex} (h : InvW st ex) (s : Bool) (j : Nat) (k : Kind) :
    InvW (fire st s j k) ex := by
  unfold fire
  split
  · exact h
  · rename_i n tag hj
    have hmem : (n, tag) ∈ (st.get s).laters := List.mem_of_getElem? hj
    simp only []
    have h1 : InvW (st.set s { st.get s with laters := (st.get s).laters.eraseIdx j }) ex := by
      refine h.step (ex' := ex) (fun u => ?_) (by simp) ?_ ?_ ?_ ?_ (by simp; intro id o hf; exact Or.inl hf)
      · simp only [get_set]; split
        · subst_vars; exact Nat.le_refl _
        · exact Nat.le_refl _
      · intro u p hp; left
        simp only [get_set] at hp; split at hp
        · subst_vars; exact hp
        · exact hp
      · intro u b hb; left
        simp only [pipeTo, get_set] at hb ⊢; split at hb
        · rename_i hu; rw [hu]; exact hb
        · exact hb
      · intro u t m hx; left
        simp only [get_set] at hx; split at hx
        · subst_vars; exact List.mem_of_mem_eraseIdx hx
        · exact hx
      · intro u w' hw; left
        simp only [get_set] at hw; split at hw
        · subst_vars; exact hw
        · exact hw
    refine invW_respond (h1.logEvH (.laterFired n k) (by simp)) s tag k n ?_ (Or.inr (Or.inl (by simp)))
    intro t ht
    subst ht
    refine (h.laterTok s t n hmem).frame ?_ ?_
    · simp only [logEv_get, get_set]; split <;> simp_all
    · simp only [logEv_get, get_set]; split <;> simp_all

theorem mem_log_sendBoxCommand {st : Net} (s : Bool) (beh : Beh) (wants : Bool) (r : Rec) {e : Ev} (he : e ∈ st.log) :
    e ∈ (sendBoxCommand st s beh wants r).log := by
  unfold sendBoxCommand write
  split
  · simp [he]
  · simp only []
    split
    · simpa using he
    · simp [he]

theorem mem_log_callPlain {st : Net} (s : Bool) (beh : Beh) {e : Ev} (he : e ∈ st.log) :
    e ∈ (callPlain st s beh).log := by
  unfold callPlain
  simp only [logEv_get, get_withNextId]
  split
  · simp [he]
  · exact mem_log_sendBoxCommand _ _ _ _ (by simp [he])

theorem mem_log_foldCallPlain {st : Net} (s : Bool) (l : List Beh) {e : Ev} (he : e ∈ st.log) :
    e ∈ (l.foldl (fun st beh => callPlain st s beh) st).log := by
  induction l generalizing st with
  | nil => exact he
  | cons b bs ih => exact ih (mem_log_callPlain s b he)

theorem mem_log_fireUser {st : Net} (s : Bool) (r : Rec) (o : Outcome) {e : Ev} (he : e ∈ st.log) :
    e ∈ (fireUser st s r o).log := by
  unfold fireUser
  exact mem_log_foldCallPlain s _ (by simp [he])

theorem invW_foldFail {st : Net} {ex} (s : Bool) (w : Why) (todo : List (Nat × Rec)) (h : InvW st ex)
    (hc : ∀ p ∈ todo, ∃ beh, Ev.called p.2.id s beh true ∈ st.log) (hl : Ev.lost s w ∈ st.log) :
    InvW (todo.foldl (fun st p => fireUser st s p.2 (.connLost w)) st) ex := by
  induction todo generalizing st with
  | nil => exact h
  | cons p ps ih =>
    simp only [List.foldl_cons]
    refine ih (invW_fireUser h s p.2 _ ?_) ?_ (mem_log_fireUser _ _ _ hl)
    · obtain ⟨beh, hb⟩ := hc p List.mem_cons_self
      exact ⟨s, beh, by simp [hb], by simp [hl]⟩
    · intro q hq
      obtain ⟨beh, hb⟩ := hc q (List.mem_cons_of_mem _ hq)
      exact ⟨beh, mem_log_fireUser _ _ _ hb⟩

theorem invW_connectionLost {st : Net} {ex} (h : InvW st ex) (s : Bool) (w : Why) :
    InvW (connectionLost st s w) ex := by
  unfold connectionLost
  split
  · exact h
  · simp only [logEv_get]
    have h0 := h.logEvH (.lost s w) (by simp)
    have h1 : InvW ((logEv st (.lost s w)).set s { st.get s with failReason := some w, pending := [] }) ex := by
      have := h0.shrinkPending s [] (some w) (Or.inr ⟨w, rfl, by simp⟩) (by simp)
      simpa using this
    have h2 := invW_foldFail s w (st.get s).pending h1 (by
      intro p hp
      obtain ⟨beh, hb⟩ := h.pendCalled s p hp
      exact ⟨beh, by simp [hb]⟩) (by simp)
    exact h2.setFrame s _ rfl rfl rfl rfl rfl

theorem invW_callRemote {st : Net} {ex} (h : InvW st ex) (s : Bool) (beh : Beh) (wants handled : Bool)
    (follow : List Beh) : InvW (callRemote st s beh wants handled follow) ex := by
  have h0 : InvW (logEv { st with nextId := st.nextId + 1 } (.called st.nextId s beh wants)) ex := by
    refine h.step (by simp) (by simp; intro e he; exact Or.inl he) (fun s p hp => Or.inl (by simpa using hp)) ?_
      (fun s t n hx => Or.inl (by simpa using hx)) (fun s w hw => Or.inl (by simpa using hw)) ?_
    · intro s b hb; left; simpa [pipeTo] using hb
    · intro id o hf; left; simpa using hf
  unfold callRemote
  simp only [logEv_get, get_withNextId]
  split
  · rename_i w hw
    split
    · rename_i hwants
      subst hwants
      refine invW_fireUser h0 s _ _ ?_
      refine ⟨s, beh, by simp, ?_⟩
      have := h.lostLogged s w hw
      simp [this]
    · exact h0.logEvH _ (by simp)
  · exact invW_sendBoxCommand h0 s beh wants _ (by simp)

theorem invW_step {st : Net} (h : InvW st (fun _ => [])) (op : Op) : InvW (step st op) (fun _ => []) := by
  unfold step
  split
  · exact h
  · have h1 := h.logEvH .sep (by simp)
    cases op with
    | call s beh wants handled follow => exact invW_callRemote h1 _ _ _ _ _
    | fire s j k => exact invW_fire h1 _ _ _
    | dlv s n => exact invW_deliver h1 _ _
    | lost s w => exact invW_connectionLost h1 _ _

theorem invW_init : InvW {} (fun _ => []) := by
  refine ⟨by simp [Net.get], by simp [pipeTo, Net.get], by simp [Net.get], by simp [Net.get], by simp [Net.get], by simp⟩

theorem invW_foldStep {st : Net} (h : InvW st (fun _ => [])) (ops : List Op) :
    InvW (ops.foldl step st) (fun _ => []) := by
  induction ops generalizing st with
  | nil => exact h
  | cons o os ih => exact ih (invW_step h o)

theorem invW_run (ops : List Op) : InvW (run ops) (fun _ => []) := invW_foldStep invW_init ops

end TwistedProps.C31
