import TwistedModel.Amp.Dispatch
/-! C31 — basic rewriting lemmas for the two-peer state (`get`/`set`/`logEv`), `popTag`, folds. -/
namespace TwistedProps.C31
open Twisted.Amp Twisted.Amp.Dispatch

@[simp] theorem get_set (st : Net) (s t : Bool) (v : Side) :
    (st.set s v).get t = if t = s then v else st.get t := by
  cases s <;> cases t <;> simp [Net.get, Net.set]

@[simp] theorem set_log (st : Net) (s : Bool) (v : Side) : (st.set s v).log = st.log := by
  cases s <;> simp [Net.set]
@[simp] theorem set_nextId (st : Net) (s : Bool) (v : Side) : (st.set s v).nextId = st.nextId := by
  cases s <;> simp [Net.set]
@[simp] theorem set_halted (st : Net) (s : Bool) (v : Side) : (st.set s v).halted = st.halted := by
  cases s <;> simp [Net.set]
@[simp] theorem logEv_get (st : Net) (e : Ev) (s : Bool) : (logEv st e).get s = st.get s := by
  cases s <;> simp [logEv, Net.get]
@[simp] theorem logEv_log (st : Net) (e : Ev) : (logEv st e).log = st.log ++ [e] := rfl
@[simp] theorem logEv_nextId (st : Net) (e : Ev) : (logEv st e).nextId = st.nextId := rfl
@[simp] theorem logEv_halted (st : Net) (e : Ev) : (logEv st e).halted = st.halted := rfl
@[simp] theorem get_withNextId (st : Net) (n : Nat) (s : Bool) : ({ st with nextId := n } : Net).get s = st.get s := by
  cases s <;> simp [Net.get]
@[simp] theorem get_withHalted (st : Net) (h : Bool) (s : Bool) : ({ st with halted := h } : Net).get s = st.get s := by
  cases s <;> simp [Net.get]

theorem get_a (st : Net) : st.a = st.get false := rfl
theorem get_b (st : Net) : st.b = st.get true := rfl

theorem popTag_mem {t : Nat} {l : List (Nat × Rec)} {r : Rec} {rest : List (Nat × Rec)}
    (h : popTag t l = some (r, rest)) : (t, r) ∈ l := by
  induction l generalizing r rest with
  | nil => simp [popTag] at h
  | cons p ps ih =>
    unfold popTag at h
    split at h
    · rename_i hp
      cases h
      simp [← hp]
    · split at h
      · cases h
      · rename_i x r' hr
        cases h
        exact List.mem_cons_of_mem _ (ih hr)

theorem popTag_perm {t : Nat} {l : List (Nat × Rec)} {r : Rec} {rest : List (Nat × Rec)}
    (h : popTag t l = some (r, rest)) : l.Perm ((t, r) :: rest) := by
  induction l generalizing r rest with
  | nil => simp [popTag] at h
  | cons p ps ih =>
    unfold popTag at h
    split at h
    · rename_i hp
      cases h
      have : p = (t, p.2) := by rw [← hp]
      rw [this]
    · split at h
      · cases h
      · rename_i x r' hr
        cases h
        exact (List.Perm.cons p (ih hr)).trans (List.Perm.swap _ _ _)

theorem popTag_sub {t : Nat} {l : List (Nat × Rec)} {r : Rec} {rest : List (Nat × Rec)}
    (h : popTag t l = some (r, rest)) : ∀ p ∈ rest, p ∈ l := by
  intro p hp
  exact (popTag_perm h).symm.subset (List.mem_cons_of_mem _ hp)

theorem count_le_one_of_nodup (l : List Nat) (h : l.Nodup) (a : Nat) : l.count a ≤ 1 := by
  induction l with
  | nil => simp
  | cons x xs ih =>
    rw [List.nodup_cons] at h
    rw [List.count_cons]
    have := ih h.2
    split
    · rename_i hx
      have hx : x = a := by simpa using hx
      subst hx
      have : List.count x xs = 0 := List.count_eq_zero.mpr h.1
      omega
    · omega

end TwistedProps.C31
