import TwistedProps.C31.Basic
/-! C31 — the accounting invariant: every call id is pending at its caller, or fired once. -/
namespace TwistedProps.C31
open Twisted.Amp Twisted.Amp.Dispatch

def ids (l : List (Nat × Rec)) : List Nat := l.map (·.2.id)

def firedId : Ev → Option Nat
  | .fired id _ => some id
  | _ => none

/-- ids of the Deferreds that fired, in order, with multiplicity -/
def firedIds (log : List Ev) : List Nat := log.filterMap firedId

def isCalled : Ev → Bool
  | .called _ _ _ _ => true
  | _ => false

def allIds (st : Net) (gh : List (Nat × Rec)) : List Nat :=
  ids gh ++ (ids (st.get false).pending ++ (ids (st.get true).pending ++ firedIds st.log))

/-- `gh`: Deferreds of side `gs` that `failAllOutgoing` has taken out of `_outstandingRequests`
    and not errbacked yet (empty between operations) -/
structure InvJ (st : Net) (gs : Bool) (gh : List (Nat × Rec)) : Prop where
  nodup : (allIds st gh).Nodup
  lt : ∀ id ∈ allIds st gh, id < st.nextId
  calledLt : ∀ id s beh w, Ev.called id s beh w ∈ st.log → id < st.nextId
  acct : ∀ id s beh, Ev.called id s beh true ∈ st.log →
    id ∈ ids (st.get s).pending ∨ (s = gs ∧ id ∈ ids gh) ∨ id ∈ firedIds st.log
  tn : ∀ s, (st.get s).transportNone = true → (st.get s).failReason ≠ none
  lostPend : ∀ s, (st.get s).failReason ≠ none → (st.get s).pending = []

theorem firedIds_append (l1 l2 : List Ev) : firedIds (l1 ++ l2) = firedIds l1 ++ firedIds l2 := by
  simp [firedIds, List.filterMap_append]

/-- `st'` differs from `st` only in fields the accounting does not look at, and by harmless log entries -/
structure Same (st st' : Net) : Prop where
  pend : ∀ s, (st'.get s).pending = (st.get s).pending
  fr : ∀ s, (st'.get s).failReason = (st.get s).failReason
  tnone : ∀ s, (st'.get s).transportNone = (st.get s).transportNone
  nid : st'.nextId = st.nextId
  log : ∃ es, st'.log = st.log ++ es ∧ ∀ e ∈ es, firedId e = none ∧ isCalled e = false

theorem Same.refl (st : Net) : Same st st :=
  ⟨fun _ => rfl, fun _ => rfl, fun _ => rfl, rfl, [], by simp, by simp⟩

theorem Same.trans {a b c : Net} (h1 : Same a b) (h2 : Same b c) : Same a c := by
  obtain ⟨e1, hl1, he1⟩ := h1.log
  obtain ⟨e2, hl2, he2⟩ := h2.log
  refine ⟨fun s => (h2.pend s).trans (h1.pend s), fun s => (h2.fr s).trans (h1.fr s),
    fun s => (h2.tnone s).trans (h1.tnone s), h2.nid.trans h1.nid, e1 ++ e2, ?_, ?_⟩
  · rw [hl2, hl1, List.append_assoc]
  · intro e he
    rcases List.mem_append.mp he with h | h
    · exact he1 e h
    · exact he2 e h

theorem InvJ.of_same {st st' : Net} {gs gh} (h : InvJ st gs gh) (hs : Same st st') : InvJ st' gs gh := by
  obtain ⟨es, hl, hes⟩ := hs.log
  have hf : firedIds st'.log = firedIds st.log := by
    rw [hl, firedIds_append]
    have : firedIds es = [] := by
      simp only [firedIds, List.filterMap_eq_nil_iff]
      intro e he; exact (hes e he).1
    simp [this]
  have hall : allIds st' gh = allIds st gh := by simp [allIds, hs.pend, hf]
  have hcalled : ∀ id s beh w, Ev.called id s beh w ∈ st'.log → Ev.called id s beh w ∈ st.log := by
    intro id s beh w hm
    rw [hl] at hm
    rcases List.mem_append.mp hm with hm | hm
    · exact hm
    · have := (hes _ hm).2; simp [isCalled] at this
  refine ⟨by rw [hall]; exact h.nodup, by rw [hall, hs.nid]; exact h.lt, ?_, ?_, ?_, ?_⟩
  · intro id s beh w hm; rw [hs.nid]; exact h.calledLt id s beh w (hcalled _ _ _ _ hm)
  · intro id s beh hm
    rw [hs.pend, hf]; exact h.acct id s beh (hcalled _ _ _ _ hm)
  · intro s; rw [hs.tnone, hs.fr]; exact h.tn s
  · intro s; rw [hs.fr, hs.pend]; exact h.lostPend s

/-! ### operations that are `Same` -/

theorem same_logEv (st : Net) (e : Ev) (h1 : firedId e = none) (h2 : isCalled e = false) :
    Same st (logEv st e) :=
  ⟨by simp, by simp, by simp, rfl, [e], rfl, by simp [h1, h2]⟩

theorem same_set (st : Net) (s : Bool) (v : Side) (hp : v.pending = (st.get s).pending)
    (hf : v.failReason = (st.get s).failReason) (ht : v.transportNone = (st.get s).transportNone) :
    Same st (st.set s v) := by
  refine ⟨?_, ?_, ?_, by simp, [], by simp, by simp⟩ <;>
  · intro t; simp only [get_set]; split
    · subst_vars; assumption
    · rfl

theorem same_write (st : Net) (s : Bool) (b : Box) : Same st (write st s b) :=
  same_set _ _ _ rfl rfl rfl

theorem same_loseConnection (st : Net) (s : Bool) : Same st (loseConnection st s) :=
  same_set _ _ _ rfl rfl rfl

theorem same_unhandledError (st : Net) (s : Bool) : Same st (unhandledError st s) := by
  unfold unhandledError; split
  · exact Same.refl _
  · exact same_loseConnection _ _

theorem same_respond (st : Net) (s : Bool) (tag : Option Nat) (k : Kind) (n : Nat) :
    Same st (respond st s tag k n) := by
  unfold respond
  split
  · split
    · exact Same.refl _
    · simp only []
      split
      · exact (same_write _ _ _).trans (same_loseConnection _ _)
      · exact same_write _ _ _
  · split
    · exact Same.refl _
    · exact same_unhandledError _ _

theorem same_commandReceived (st : Net) (s : Bool) (tag : Option Nat) (beh : Beh) (n : Nat) :
    Same st (commandReceived st s tag beh n) := by
  unfold commandReceived
  cases beh <;> simp only []
  case nores => exact same_respond _ _ _ _ _
  case later =>
    exact (same_logEv st _ rfl rfl).trans (same_set _ _ _ rfl rfl rfl)
  all_goals exact (same_logEv st _ rfl rfl).trans (same_respond _ _ _ _ _)

macro "perm_count" : tactic => `(tactic|
  (rw [List.perm_iff_count]; intro x
   simp only [List.count_append, List.count_cons, List.count_nil]; omega))

theorem nodup_lt_of_perm_cons {l l' : List Nat} {n : Nat} (hp : l'.Perm (n :: l)) (hn : l.Nodup)
    (hlt : ∀ x ∈ l, x < n) : l'.Nodup ∧ ∀ x ∈ l', x < n + 1 := by
  constructor
  · rw [hp.nodup_iff, List.nodup_cons]
    exact ⟨fun h => Nat.lt_irrefl _ (hlt _ h), hn⟩
  · intro x hx
    have := hp.subset hx
    rcases List.mem_cons.mp this with h | h
    · omega
    · have := hlt x h; omega

theorem same_halted (st : Net) (b : Bool) : Same st { st with halted := b } :=
  ⟨by simp, by simp, by simp, rfl, [], by simp, by simp⟩

/-- a new call whose Deferred is registered in `_outstandingRequests` -/
theorem InvJ.new_pending {st st' : Net} {gs gh} (h : InvJ st gs gh) (s : Bool) (beh : Beh) (p : Nat × Rec)
    (hid : p.2.id = st.nextId)
    (hn : st'.nextId = st.nextId + 1)
    (hl : st'.log = st.log ++ [Ev.called st.nextId s beh true])
    (hps : (st'.get s).pending = (st.get s).pending ++ [p])
    (hpo : (st'.get (!s)).pending = (st.get (!s)).pending)
    (hf : ∀ t, (st'.get t).failReason = (st.get t).failReason)
    (ht : ∀ t, (st'.get t).transportNone = (st.get t).transportNone)
    (hfs : (st.get s).failReason = none) : InvJ st' gs gh := by
  have hfired : firedIds st'.log = firedIds st.log := by simp [hl, firedIds, firedId]
  have hperm : (allIds st' gh).Perm (st.nextId :: allIds st gh) := by
    cases s
    · simp only [Bool.not_false] at hpo
      simp only [allIds, hps, hpo, hfired, ids, List.map_append, List.map_cons, List.map_nil, hid]
      perm_count
    · simp only [Bool.not_true] at hpo
      simp only [allIds, hps, hpo, hfired, ids, List.map_append, List.map_cons, List.map_nil, hid]
      perm_count
  have hnl := nodup_lt_of_perm_cons hperm h.nodup h.lt
  refine ⟨hnl.1, by rw [hn]; exact hnl.2, ?_, ?_, ?_, ?_⟩
  · intro id t b w hm
    rw [hl] at hm; rw [hn]
    rcases List.mem_append.mp hm with hm | hm
    · have := h.calledLt _ _ _ _ hm; omega
    · simp at hm; omega
  · intro id t b hm
    rw [hl] at hm
    rcases List.mem_append.mp hm with hm | hm
    · rcases h.acct _ _ _ hm with h1 | h1 | h1
      · left
        by_cases hts : t = s
        · subst hts; rw [hps]; simp [ids] at h1 ⊢; left; exact h1
        · have : t = !s := by cases t <;> cases s <;> simp_all
          subst this; rw [hpo]; exact h1
      · right; left; exact h1
      · right; right; rw [hfired]; exact h1
    · simp at hm
      obtain ⟨h1, h2, _⟩ := hm
      subst h1 h2
      left; rw [hps]; simp [ids, hid]
  · intro t; rw [ht, hf]; exact h.tn t
  · intro t
    rw [hf]
    intro hne
    by_cases hts : t = s
    · subst hts; exact absurd hfs hne
    · have : t = !s := by cases t <;> cases s <;> simp_all
      subst this; rw [hpo]; exact h.lostPend _ hne


/-- a new call that fails at once (made after the connection was lost) -/
theorem InvJ.new_fired {st st' : Net} {gs gh} (h : InvJ st gs gh) (s : Bool) (beh : Beh) (o : Outcome)
    (hn : st'.nextId = st.nextId + 1)
    (hl : st'.log = st.log ++ [Ev.called st.nextId s beh true, Ev.fired st.nextId o])
    (hp : ∀ t, (st'.get t).pending = (st.get t).pending)
    (hf : ∀ t, (st'.get t).failReason = (st.get t).failReason)
    (ht : ∀ t, (st'.get t).transportNone = (st.get t).transportNone) : InvJ st' gs gh := by
  have hfired : firedIds st'.log = firedIds st.log ++ [st.nextId] := by
    rw [hl, firedIds_append]; rfl
  have hperm : (allIds st' gh).Perm (st.nextId :: allIds st gh) := by
    simp only [allIds, hp, hfired]
    perm_count
  have hnl := nodup_lt_of_perm_cons hperm h.nodup h.lt
  refine ⟨hnl.1, by rw [hn]; exact hnl.2, ?_, ?_, ?_, ?_⟩
  · intro id t b w hm
    rw [hl] at hm; rw [hn]
    rcases List.mem_append.mp hm with hm | hm
    · have := h.calledLt _ _ _ _ hm; omega
    · simp at hm; omega
  · intro id t b hm
    rw [hl] at hm
    rcases List.mem_append.mp hm with hm | hm
    · rcases h.acct _ _ _ hm with h1 | h1 | h1
      · left; rw [hp]; exact h1
      · right; left; exact h1
      · right; right; rw [hfired]; exact List.mem_append_left _ h1
    · simp at hm
      right; right; rw [hfired]; simp [hm.1]
  · intro t; rw [ht, hf]; exact h.tn t
  · intro t; rw [hf, hp]; exact h.lostPend t

/-- a new call for which no answer is wanted -/
theorem InvJ.new_noanswer {st st' : Net} {gs gh} (h : InvJ st gs gh) (s : Bool) (beh : Beh)
    (hn : st'.nextId = st.nextId + 1)
    (hl : st'.log = st.log ++ [Ev.called st.nextId s beh false])
    (hp : ∀ t, (st'.get t).pending = (st.get t).pending)
    (hf : ∀ t, (st'.get t).failReason = (st.get t).failReason)
    (ht : ∀ t, (st'.get t).transportNone = (st.get t).transportNone) : InvJ st' gs gh := by
  have hfired : firedIds st'.log = firedIds st.log := by simp [hl, firedIds, firedId]
  have hall : allIds st' gh = allIds st gh := by simp only [allIds, hp, hfired]
  refine ⟨by rw [hall]; exact h.nodup, ?_, ?_, ?_, ?_, ?_⟩
  · intro id hid; rw [hall] at hid; rw [hn]; have := h.lt id hid; omega
  · intro id t b w hm
    rw [hl] at hm; rw [hn]
    rcases List.mem_append.mp hm with hm | hm
    · have := h.calledLt _ _ _ _ hm; omega
    · simp at hm; omega
  · intro id t b hm
    rw [hl] at hm
    rcases List.mem_append.mp hm with hm | hm
    · rw [hp, hfired]; exact h.acct _ _ _ hm
    · simp at hm
  · intro t; rw [ht, hf]; exact h.tn t
  · intro t; rw [hf, hp]; exact h.lostPend t

/-- the first Deferred taken out of `_outstandingRequests` fires -/
theorem InvJ.fire_ghost {st st' : Net} {gs} {p : Nat × Rec} {gh} (h : InvJ st gs (p :: gh)) (o : Outcome)
    (hn : st'.nextId = st.nextId)
    (hl : st'.log = st.log ++ [Ev.fired p.2.id o])
    (hp : ∀ t, (st'.get t).pending = (st.get t).pending)
    (hf : ∀ t, (st'.get t).failReason = (st.get t).failReason)
    (ht : ∀ t, (st'.get t).transportNone = (st.get t).transportNone) : InvJ st' gs gh := by
  have hfired : firedIds st'.log = firedIds st.log ++ [p.2.id] := by simp [hl, firedIds, firedId]
  have hperm : (allIds st' gh).Perm (allIds st (p :: gh)) := by
    simp only [allIds, hp, hfired, ids, List.map_cons]
    perm_count
  refine ⟨hperm.nodup_iff.mpr h.nodup, ?_, ?_, ?_, ?_, ?_⟩
  · intro id hid; rw [hn]; exact h.lt id (hperm.subset hid)
  · intro id t b w hm
    rw [hl] at hm; rw [hn]
    rcases List.mem_append.mp hm with hm | hm
    · exact h.calledLt _ _ _ _ hm
    · simp at hm
  · intro id t b hm
    rw [hl] at hm
    rcases List.mem_append.mp hm with hm | hm
    · rcases h.acct _ _ _ hm with h1 | h1 | h1
      · left; rw [hp]; exact h1
      · obtain ⟨h2, h3⟩ := h1
        simp only [ids, List.map_cons, List.mem_cons] at h3
        rcases h3 with h3 | h3
        · right; right; rw [hfired]; simp [h3]
        · right; left; exact ⟨h2, h3⟩
      · right; right; rw [hfired]; exact List.mem_append_left _ h1
    · simp at hm
  · intro t; rw [ht, hf]; exact h.tn t
  · intro t; rw [hf, hp]; exact h.lostPend t

/-! ### the operations -/

theorem invJ_callPlain {st : Net} {gs gh} (h : InvJ st gs gh) (s : Bool) (beh : Beh) :
    InvJ (callPlain st s beh) gs gh := by
  unfold callPlain
  simp only [logEv_get, get_withNextId]
  split
  · rename_i w hw
    exact h.new_fired s beh (.connLost w) (by simp) (by simp) (by simp) (by simp) (by simp)
  · rename_i hw
    have htn : (st.get s).transportNone = false := by
      cases hh : (st.get s).transportNone
      · rfl
      · exact absurd hw (h.tn s hh)
    unfold sendBoxCommand
    simp only [logEv_get, get_withNextId, htn, if_true, Bool.false_eq_true, if_false, write]
    refine h.new_pending s beh ((st.get s).counter + 1, ⟨st.nextId, true, []⟩) rfl (by simp) (by simp)
      (by simp) (by cases s <;> simp) ?_ ?_ hw
    · intro t; simp only [get_set, logEv_get, get_withNextId]; split
      · subst_vars; simp
      · rfl
    · intro t; simp only [get_set, logEv_get, get_withNextId]; split
      · subst_vars; simp [htn]
      · rfl

theorem invJ_foldCallPlain {st : Net} {gs gh} (h : InvJ st gs gh) (s : Bool) (l : List Beh) :
    InvJ (l.foldl (fun st beh => callPlain st s beh) st) gs gh := by
  induction l generalizing st with
  | nil => exact h
  | cons b bs ih => exact ih (invJ_callPlain h s b)

theorem invJ_fireUser {st : Net} {gs} {p : Nat × Rec} {gh} (h : InvJ st gs (p :: gh)) (s : Bool) (o : Outcome) :
    InvJ (fireUser st s p.2 o) gs gh := by
  unfold fireUser
  exact invJ_foldCallPlain (h.fire_ghost o (by simp) (by simp) (by simp) (by simp) (by simp)) s _

/-- `InvJ` with no ghosts does not depend on the ghost side -/
theorem InvJ.ghost_side {st : Net} {gs : Bool} (h : InvJ st gs []) (gs' : Bool) : InvJ st gs' [] := by
  refine ⟨h.nodup, h.lt, h.calledLt, ?_, h.tn, h.lostPend⟩
  intro id s beh hm
  rcases h.acct id s beh hm with h1 | h1 | h1
  · exact Or.inl h1
  · simp [ids] at h1
  · exact Or.inr (Or.inr h1)

/-- Deferreds of side `s` are taken out of `_outstandingRequests` (by `pop`, or all of them by `failAllOutgoing`) -/
theorem InvJ.to_ghost {st st' : Net} {gs} (h : InvJ st gs []) (s : Bool) (gh : List (Nat × Rec))
    (hperm : (gh ++ (st'.get s).pending).Perm (st.get s).pending)
    (hpo : (st'.get (!s)).pending = (st.get (!s)).pending)
    (hn : st'.nextId = st.nextId) (hl : st'.log = st.log)
    (hfo : (st'.get (!s)).failReason = (st.get (!s)).failReason)
    (hfs : (st'.get s).failReason = (st.get s).failReason ∨
      ((st'.get s).failReason ≠ none ∧ (st'.get s).pending = []))
    (ht : ∀ t, (st'.get t).transportNone = (st.get t).transportNone) : InvJ st' s gh := by
  have hperm' : (ids gh ++ ids (st'.get s).pending).Perm (ids (st.get s).pending) := by
    have := hperm.map (·.2.id)
    simpa [ids] using this
  have hall : (allIds st' gh).Perm (allIds st []) := by
    rw [List.perm_iff_count] at hperm' ⊢
    intro x
    have := hperm' x
    cases s
    · simp only [Bool.not_false] at hpo
      simp only [allIds, hpo, hl, ids, List.map_nil, List.count_append, List.count_nil] at this ⊢
      omega
    · simp only [Bool.not_true] at hpo
      simp only [allIds, hpo, hl, ids, List.map_nil, List.count_append, List.count_nil] at this ⊢
      omega
  have hother : ∀ t, t ≠ s → t = !s := by intro t; cases t <;> cases s <;> simp
  refine ⟨hall.nodup_iff.mpr h.nodup, ?_, ?_, ?_, ?_, ?_⟩
  · intro id hid; rw [hn]; exact h.lt id (hall.subset hid)
  · intro id t b w hm; rw [hn]; rw [hl] at hm; exact h.calledLt _ _ _ _ hm
  · intro id t b hm
    rw [hl] at hm ⊢
    rcases h.acct _ _ _ hm with h1 | h1 | h1
    · by_cases hts : t = s
      · subst hts
        have := hperm'.symm.subset h1
        rcases List.mem_append.mp this with h2 | h2
        · exact Or.inr (Or.inl ⟨rfl, h2⟩)
        · exact Or.inl h2
      · have := hother t hts; subst this; rw [hpo]; exact Or.inl h1
    · simp [ids] at h1
    · exact Or.inr (Or.inr h1)
  · intro t htn
    rw [ht] at htn
    by_cases hts : t = s
    · subst hts
      rcases hfs with hfs | hfs
      · rw [hfs]; exact h.tn _ htn
      · exact hfs.1
    · have := hother t hts; subst this; rw [hfo]; exact h.tn _ htn
  · intro t hne
    by_cases hts : t = s
    · subst hts
      rcases hfs with hfs | hfs
      · rw [hfs] at hne
        have := h.lostPend _ hne
        rw [this] at hperm
        exact (List.append_eq_nil_iff.mp hperm.eq_nil).2
      · exact hfs.2
    · have := hother t hts; subst this; rw [hfo] at hne; rw [hpo]; exact h.lostPend _ hne

theorem invJ_replyReceived {st : Net} {gs} (h : InvJ st gs []) (s : Bool) (t : Nat) (k : Kind) (n : Nat) :
    InvJ (replyReceived st s t k n) gs [] := by
  unfold replyReceived
  split
  · exact h.of_same ((same_logEv st _ rfl rfl).trans (same_halted _ _))
  · rename_i r rest hpop
    have h1 : InvJ (st.set s { st.get s with pending := rest }) s [(t, r)] := by
      refine h.to_ghost s [(t, r)] ?_ (by cases s <;> simp) (by simp) (by simp) (by cases s <;> simp)
        (Or.inl (by simp)) ?_
      · simpa using (popTag_perm hpop).symm
      · intro u; simp only [get_set]; split
        · subst_vars; rfl
        · rfl
    have h2 := invJ_fireUser (p := (t, r)) h1 s (outcomeOf k n)
    simp only []
    split
    · exact (h2.of_same (same_unhandledError _ _)).ghost_side gs
    · exact h2.ghost_side gs

theorem invJ_boxReceived {st : Net} {gs} (h : InvJ st gs []) (s : Bool) (b : Box) :
    InvJ (boxReceived st s b) gs [] := by
  unfold boxReceived
  split
  · exact h
  · cases b with
    | ask tag beh n => exact h.of_same (same_commandReceived _ _ _ _ _)
    | reply t k n => exact invJ_replyReceived h s t k n

theorem invJ_foldBox {st : Net} {gs} (h : InvJ st gs []) (s : Bool) (l : List Box) :
    InvJ (l.foldl (fun st b => boxReceived st s b) st) gs [] := by
  induction l generalizing st with
  | nil => exact h
  | cons b bs ih => exact ih (invJ_boxReceived h s b)

theorem invJ_deliver {st : Net} {gs} (h : InvJ st gs []) (s : Bool) (n : Nat) :
    InvJ (deliver st s n) gs [] := by
  unfold deliver
  simp only []
  have h1 := h.of_same (same_set st (!s)
    { st.get (!s) with out := (consume (st.get (!s)).out (st.get (!s)).outDone n).2.1,
                       outDone := (consume (st.get (!s)).out (st.get (!s)).outDone n).2.2 } rfl rfl rfl)
  split
  · exact h1
  · exact invJ_foldBox h1 s _

theorem invJ_fire {st : Net} {gs} (h : InvJ st gs []) (s : Bool) (j : Nat) (k : Kind) :
    InvJ (fire st s j k) gs [] := by
  unfold fire
  split
  · exact h
  · rename_i n tag hj
    simp only []
    have h1 := h.of_same (same_set st s { st.get s with laters := (st.get s).laters.eraseIdx j } rfl rfl rfl)
    have h2 := h1.of_same (same_logEv _ (.laterFired n k) rfl rfl)
    exact h2.of_same (same_respond _ _ _ _ _)

theorem fr_sendBoxCommand (st : Net) (s : Bool) (beh : Beh) (wants : Bool) (r : Rec) (t : Bool) :
    ((sendBoxCommand st s beh wants r).get t).failReason = (st.get t).failReason := by
  unfold sendBoxCommand write
  split
  · simp only [get_withHalted, logEv_get, get_set]; split <;> simp_all
  · simp only []
    split
    · simp only [get_set]; split <;> simp_all
    · simp only [logEv_get, get_set]; split <;> simp_all

theorem fr_callPlain (st : Net) (s : Bool) (beh : Beh) (t : Bool) :
    ((callPlain st s beh).get t).failReason = (st.get t).failReason := by
  unfold callPlain
  simp only [logEv_get, get_withNextId]
  split
  · simp
  · rw [fr_sendBoxCommand]; simp

theorem fr_foldCallPlain (st : Net) (s : Bool) (l : List Beh) (t : Bool) :
    ((l.foldl (fun st beh => callPlain st s beh) st).get t).failReason = (st.get t).failReason := by
  induction l generalizing st with
  | nil => rfl
  | cons b bs ih => simp only [List.foldl_cons]; rw [ih, fr_callPlain]

theorem fr_fireUser (st : Net) (s : Bool) (r : Rec) (o : Outcome) (t : Bool) :
    ((fireUser st s r o).get t).failReason = (st.get t).failReason := by
  unfold fireUser; rw [fr_foldCallPlain]; simp

theorem fr_foldFail (st : Net) (s : Bool) (w : Why) (todo : List (Nat × Rec)) (t : Bool) :
    ((todo.foldl (fun st p => fireUser st s p.2 (.connLost w)) st).get t).failReason = (st.get t).failReason := by
  induction todo generalizing st with
  | nil => rfl
  | cons b bs ih => simp only [List.foldl_cons]; rw [ih, fr_fireUser]

theorem InvJ.set_transportNone {st : Net} {gs gh} (h : InvJ st gs gh) (s : Bool)
    (hf : (st.get s).failReason ≠ none) :
    InvJ (st.set s { st.get s with transportNone := true }) gs gh := by
  have hp : ∀ t, ((st.set s { st.get s with transportNone := true }).get t).pending = (st.get t).pending := by
    intro t; simp only [get_set]; split
    · subst_vars; rfl
    · rfl
  have hfr : ∀ t, ((st.set s { st.get s with transportNone := true }).get t).failReason = (st.get t).failReason := by
    intro t; simp only [get_set]; split
    · subst_vars; rfl
    · rfl
  have hall : allIds (st.set s { st.get s with transportNone := true }) gh = allIds st gh := by
    simp only [allIds, hp, set_log]
  refine ⟨by rw [hall]; exact h.nodup, by rw [hall]; simpa using h.lt, by simpa using h.calledLt, ?_, ?_, ?_⟩
  · intro id t b hm; rw [hp]; simp only [set_log] at hm ⊢; exact h.acct id t b hm
  · intro t htn; rw [hfr]
    by_cases hts : t = s
    · subst hts; exact hf
    · simp only [get_set, hts, if_false] at htn; exact h.tn t htn
  · intro t; rw [hfr, hp]; exact h.lostPend t

theorem invJ_foldFail {st : Net} {s : Bool} {w : Why} (todo : List (Nat × Rec)) (h : InvJ st s todo) :
    InvJ (todo.foldl (fun st p => fireUser st s p.2 (.connLost w)) st) s [] := by
  induction todo generalizing st with
  | nil => exact h
  | cons p ps ih => exact ih (invJ_fireUser h s _)

theorem invJ_connectionLost {st : Net} {gs} (h : InvJ st gs []) (s : Bool) (w : Why) :
    InvJ (connectionLost st s w) gs [] := by
  unfold connectionLost
  split
  · exact h
  · rename_i hfr
    simp only [logEv_get]
    have h0 := h.of_same (same_logEv st (.lost s w) rfl rfl)
    have h1 : InvJ ((logEv st (.lost s w)).set s { st.get s with failReason := some w, pending := [] }) s
        (st.get s).pending := by
      refine h0.to_ghost s _ (by simp) (by cases s <;> simp) (by simp) (by simp) (by cases s <;> simp)
        (Or.inr (by simp)) ?_
      intro u; simp only [get_set, logEv_get]; split
      · subst_vars; rfl
      · rfl
    have h2 := invJ_foldFail (w := w) _ h1
    generalize hst2 : (List.foldl (fun st p => fireUser st s p.2 (.connLost w))
      ((logEv st (.lost s w)).set s { st.get s with failReason := some w, pending := [] })
      (st.get s).pending) = st2 at h2 ⊢
    have hfr : (st2.get s).failReason ≠ none := by
      rw [← hst2, fr_foldFail]; simp
    exact (h2.set_transportNone s hfr).ghost_side gs


theorem same_sendBoxCommand_false (st : Net) (s : Bool) (beh : Beh) (r : Rec)
    (htn : (st.get s).transportNone = false) : Same st (sendBoxCommand st s beh false r) := by
  unfold sendBoxCommand
  simp only [htn, Bool.false_eq_true, if_false]
  refine Same.trans ?_ (same_logEv _ _ rfl rfl)
  refine Same.trans (same_write st s (Box.ask none beh r.id)) ?_
  exact same_set _ s _ rfl rfl rfl

theorem invJ_callRemote {st : Net} {gs} (h : InvJ st gs []) (s : Bool) (beh : Beh) (wants handled : Bool)
    (follow : List Beh) : InvJ (callRemote st s beh wants handled follow) gs [] := by
  unfold callRemote
  simp only [logEv_get, get_withNextId]
  split
  · rename_i w hw
    split
    · rename_i hwants
      subst hwants
      unfold fireUser
      exact invJ_foldCallPlain
        (h.new_fired s beh (.connLost w) (by simp) (by simp) (by simp) (by simp) (by simp)) s _
    · rename_i hwants
      have hwants : wants = false := by simpa using hwants
      subst hwants
      exact (h.new_noanswer s beh (st' := logEv { st with nextId := st.nextId + 1 } (.called st.nextId s beh false))
        (by simp) (by simp) (by simp) (by simp) (by simp)).of_same (same_logEv _ _ rfl rfl)
  · rename_i hw
    have htn : (st.get s).transportNone = false := by
      cases hh : (st.get s).transportNone
      · rfl
      · exact absurd hw (h.tn s hh)
    cases wants
    · refine (h.new_noanswer s beh (st' := logEv { st with nextId := st.nextId + 1 } (.called st.nextId s beh false))
        (by simp) (by simp) (by simp) (by simp) (by simp)).of_same ?_
      exact same_sendBoxCommand_false _ _ _ _ (by simpa using htn)
    · unfold sendBoxCommand
      simp only [logEv_get, get_withNextId, htn, Bool.false_eq_true, if_false, write, if_true]
      refine h.new_pending s beh ((st.get s).counter + 1, ⟨st.nextId, handled, follow⟩) rfl (by simp) (by simp)
        (by simp) (by cases s <;> simp) ?_ ?_ hw
      · intro t; simp only [get_set, logEv_get, get_withNextId]; split
        · subst_vars; simp
        · rfl
      · intro t; simp only [get_set, logEv_get, get_withNextId]; split
        · subst_vars; simp [htn]
        · rfl

theorem invJ_step {st : Net} {gs} (h : InvJ st gs []) (op : Op) : InvJ (step st op) gs [] := by
  unfold step
  split
  · exact h
  · have h1 := h.of_same (same_logEv st .sep rfl rfl)
    cases op with
    | call s beh wants handled follow => exact invJ_callRemote h1 _ _ _ _ _
    | fire s j k => exact invJ_fire h1 _ _ _
    | dlv s n => exact invJ_deliver h1 _ _
    | lost s w => exact invJ_connectionLost h1 _ _

theorem invJ_init : InvJ {} false [] := by
  refine ⟨by simp [allIds, ids, firedIds, Net.get], by simp [allIds, ids, firedIds, Net.get], by simp, by simp,
    by simp [Net.get], by simp [Net.get]⟩

theorem invJ_foldStep {st : Net} {gs} (h : InvJ st gs []) (ops : List Op) : InvJ (ops.foldl step st) gs [] := by
  induction ops generalizing st with
  | nil => exact h
  | cons o os ih => exact ih (invJ_step h o)

theorem invJ_run (ops : List Op) : InvJ (run ops) false [] := invJ_foldStep invJ_init ops

end TwistedProps.C31
