import TwistedProps.C31.Basic
/-! C31 — what `connectionLost` and a `callRemote` after it do (single-step facts, any state). -/
namespace TwistedProps.C31
open Twisted.Amp Twisted.Amp.Dispatch

theorem callPlain_lost {st : Net} {s : Bool} {w : Why} (h : (st.get s).failReason = some w) (beh : Beh) :
    (∀ t, (callPlain st s beh).get t = st.get t) ∧
    (callPlain st s beh).log = st.log ++ [Ev.called st.nextId s beh true, Ev.fired st.nextId (.connLost w)] := by
  unfold callPlain
  simp only [logEv_get, get_withNextId, h]
  constructor
  · intro t; simp
  · simp [logEv]

theorem foldCallPlain_lost {st : Net} {s : Bool} {w : Why} (h : (st.get s).failReason = some w) (l : List Beh) :
    (∀ t, (l.foldl (fun st beh => callPlain st s beh) st).get t = st.get t) ∧
    ∃ es, (l.foldl (fun st beh => callPlain st s beh) st).log = st.log ++ es := by
  induction l generalizing st with
  | nil => exact ⟨fun _ => rfl, [], by simp⟩
  | cons b bs ih =>
    have h1 := callPlain_lost h b
    have h2 : ((callPlain st s b).get s).failReason = some w := by rw [h1.1]; exact h
    obtain ⟨h3, es, h4⟩ := ih h2
    refine ⟨fun t => by simp only [List.foldl_cons]; rw [h3, h1.1], ?_⟩
    refine ⟨_, by simp only [List.foldl_cons]; rw [h4, h1.2, List.append_assoc]⟩

theorem fireUser_lost {st : Net} {s : Bool} {w : Why} (h : (st.get s).failReason = some w) (r : Rec) (o : Outcome) :
    (∀ t, (fireUser st s r o).get t = st.get t) ∧
    ∃ es, (fireUser st s r o).log = st.log ++ Ev.fired r.id o :: es := by
  unfold fireUser
  have h0 : ((logEv st (Ev.fired r.id o)).get s).failReason = some w := by simpa using h
  obtain ⟨h1, es, h2⟩ := foldCallPlain_lost h0 r.follow
  refine ⟨fun t => by rw [h1]; simp, es, ?_⟩
  rw [h2]; simp

theorem foldFail_lost {st : Net} {s : Bool} {w : Why} (h : (st.get s).failReason = some w) (todo : List (Nat × Rec)) :
    (∀ t, (todo.foldl (fun st p => fireUser st s p.2 (.connLost w)) st).get t = st.get t) ∧
    (∀ e ∈ st.log, e ∈ (todo.foldl (fun st p => fireUser st s p.2 (.connLost w)) st).log) ∧
    ∀ p ∈ todo, Ev.fired p.2.id (.connLost w) ∈ (todo.foldl (fun st p => fireUser st s p.2 (.connLost w)) st).log := by
  induction todo generalizing st with
  | nil => exact ⟨fun _ => rfl, fun _ h => h, by simp⟩
  | cons p ps ih =>
    obtain ⟨h1, es, h2⟩ := fireUser_lost h p.2 (.connLost w)
    have h3 : ((fireUser st s p.2 (.connLost w)).get s).failReason = some w := by rw [h1]; exact h
    obtain ⟨i1, i2, i3⟩ := ih h3
    refine ⟨fun t => by simp only [List.foldl_cons]; rw [i1, h1], ?_, ?_⟩
    · intro e he
      simp only [List.foldl_cons]
      exact i2 e (by rw [h2]; exact List.mem_append_left _ he)
    · intro q hq
      simp only [List.foldl_cons]
      rcases List.mem_cons.mp hq with hq | hq
      · subst hq
        exact i2 _ (by rw [h2]; simp)
      · exact i3 q hq

end TwistedProps.C31
